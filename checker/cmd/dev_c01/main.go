package main

import (
	_ "polycheck/props/c01"
	"polycheck/run"
)

func main() { run.Main() }
