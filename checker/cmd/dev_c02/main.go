package main

import (
	_ "polycheck/props/c02"
	"polycheck/run"
)

func main() { run.Main() }
