package main

import (
	_ "polycheck/props/c03"
	"polycheck/run"
)

func main() { run.Main() }
