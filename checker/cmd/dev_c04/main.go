package main

import (
	_ "polycheck/props/c04"
	"polycheck/run"
)

func main() { run.Main() }
