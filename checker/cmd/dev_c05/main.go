package main

import (
	_ "polycheck/props/c05"
	"polycheck/run"
)

func main() { run.Main() }
