package main

import (
	_ "polycheck/props/c06"
	"polycheck/run"
)

func main() { run.Main() }
