package main

import (
	_ "polycheck/props/c07"
	"polycheck/run"
)

func main() { run.Main() }
