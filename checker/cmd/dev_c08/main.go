package main

import (
	_ "polycheck/props/c08"
	"polycheck/run"
)

func main() { run.Main() }
