// Command dev_c09 runs only the C09 check (development binary).
package main

import (
	_ "polycheck/props/c09"
	"polycheck/run"
)

func main() { run.Main() }
