package main

import (
	_ "polycheck/props/c10"
	"polycheck/run"
)

func main() { run.Main() }
