package main

import (
	_ "polycheck/props/c11"
	"polycheck/run"
)

func main() { run.Main() }
