package main

import (
	_ "polycheck/props/c12"
	"polycheck/run"
)

func main() { run.Main() }
