package main

import (
	_ "polycheck/props/c13"
	"polycheck/run"
)

func main() { run.Main() }
