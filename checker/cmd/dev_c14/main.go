package main

import (
	_ "polycheck/props/c14"
	"polycheck/run"
)

func main() { run.Main() }
