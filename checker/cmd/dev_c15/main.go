package main

import (
	_ "polycheck/props/c15"
	"polycheck/run"
)

func main() { run.Main() }
