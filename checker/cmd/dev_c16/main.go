package main

import (
	_ "polycheck/props/c16"
	"polycheck/run"
)

func main() { run.Main() }
