package main

import (
	_ "polycheck/props/c17"
	"polycheck/run"
)

func main() { run.Main() }
