package main

import (
	_ "polycheck/props/c18"
	"polycheck/run"
)

func main() { run.Main() }
