package main

import (
	_ "polycheck/props/c19"
	"polycheck/run"
)

func main() { run.Main() }
