package main

import (
	_ "polycheck/props/c20"
	"polycheck/run"
)

func main() { run.Main() }
