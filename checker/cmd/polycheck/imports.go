package main

// one blank import per property package
import (
	_ "polycheck/props/c01"
	_ "polycheck/props/c02"
	_ "polycheck/props/c03"
	_ "polycheck/props/c04"
	_ "polycheck/props/c05"
	_ "polycheck/props/c06"
	_ "polycheck/props/c07"
	_ "polycheck/props/c08"
	_ "polycheck/props/c09"
	_ "polycheck/props/c10"
	_ "polycheck/props/c11"
	_ "polycheck/props/c12"
	_ "polycheck/props/c13"
	_ "polycheck/props/c14"
	_ "polycheck/props/c15"
	_ "polycheck/props/c16"
	_ "polycheck/props/c17"
	_ "polycheck/props/c18"
	_ "polycheck/props/c19"
	_ "polycheck/props/c20"
)
