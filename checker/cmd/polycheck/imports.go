package main

// one blank import per property package
import (
	_ "polycheck/props/c01"
	_ "polycheck/props/c02"
	_ "polycheck/props/c03"
	_ "polycheck/props/c16"
)
