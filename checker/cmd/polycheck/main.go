// polycheck decides polyform's properties by static analysis of /repo's current source.
package main

import "polycheck/run"

func main() { run.Main() }
