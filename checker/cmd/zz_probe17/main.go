package main

import (
	"fmt"
	"os"

	"golang.org/x/tools/go/ssa"

	"polycheck/load"
)

func main() {
	inst := len(os.Args) > 1 && os.Args[1] == "inst"
	p, err := load.Load(load.Config{Repo: "/repo", Instantiate: inst})
	if err != nil {
		panic(err)
	}
	fn := p.Func("math/quaternion", "Quaternion.Rotate")
	for _, b := range fn.Blocks {
		for _, in := range b.Instrs {
			if c, ok := in.(*ssa.Call); ok {
				cal := c.Common().StaticCallee()
				if cal == nil {
					continue
				}
				fmt.Printf("callee %s synthetic=%q blocks=%d origin=%v typeargs=%v\n", cal, cal.Synthetic, len(cal.Blocks), cal.Origin(), cal.TypeArgs())
				if true {
					cal.WriteTo(os.Stdout)
					if o := cal.Origin(); o != nil {
						o.WriteTo(os.Stdout)
					}
				}
			}
		}
	}
}
