package eng

// CROP — the keep decision of a box crop, decided over the finite set of orderings.
//
// The crop loop touches the deciding point and the box only through float comparisons of one component of the
// point with the same component of box.Min() / box.Max() (directly, or inside geometry.AABB.Contains, whose body
// is interpreted the same way). Per axis there are five orderings of p against min < max (below, on the lower
// face, inside, on the upper face, above), 125 in all; for each one the comparisons have a definite outcome, so
// the branch structure of the loop body can be followed without running anything and ends either at an append
// (the element is kept) or back at the loop header (dropped). The contract — the documented closed box: keep
// exactly the points with min ≤ p ≤ max on every axis — is compared with that outcome for all 125 orderings.
//   CROP-1  keep(p) ⇔ p inside the closed box, for every ordering;
//   CROP-2  the deciding point is the attribute named by the operation's attribute parameter, of the input mesh,
//           read at the index of the element being decided.

import (
	"fmt"
	"go/token"
	"go/types"
	"strings"

	"golang.org/x/tools/go/ssa"

	"polycheck/ssau"
)

type boxClass int

const (
	bcNone boxClass = iota
	bcBox
	bcP
	bcMin
	bcMax
)

type boxAtom struct {
	cls  boxClass
	axis int
}

type boxEnv struct {
	bind map[ssa.Value]boxClass
	// pReads: the reads classified as the deciding point (caller frame only)
	pReads *[]*ssa.Call
}

func isGeomAABB(t types.Type) bool {
	n, ok := t.(*types.Named)
	return ok && n.Obj().Name() == "AABB" && n.Obj().Pkg() != nil && strings.HasSuffix(n.Obj().Pkg().Path(), "/math/geometry")
}

func (e boxEnv) classVec(v ssa.Value) boxClass {
	if c, ok := e.bind[v]; ok {
		return c
	}
	os := valueOrigins(v)
	if len(os) != 1 {
		return bcNone
	}
	o := os[0]
	if c, ok := e.bind[o]; ok {
		return c
	}
	call, ok := o.(*ssa.Call)
	if !ok {
		return bcNone
	}
	obj := ssau.CalleeObj(call)
	if obj == nil {
		return bcNone
	}
	if (obj.Name() == "Min" || obj.Name() == "Max") && len(call.Call.Args) == 1 && isGeomAABB(call.Call.Args[0].Type()) {
		if e.classVec(call.Call.Args[0]) == bcBox {
			if obj.Name() == "Min" {
				return bcMin
			}
			return bcMax
		}
		return bcNone
	}
	if e.pReads != nil {
		if _, ok := readOf(call); ok {
			*e.pReads = append(*e.pReads, call)
			return bcP
		}
	}
	return bcNone
}

func (e boxEnv) atom(v ssa.Value) (boxAtom, bool) {
	os := valueOrigins(v)
	if len(os) != 1 {
		return boxAtom{}, false
	}
	call, ok := os[0].(*ssa.Call)
	if !ok || len(call.Call.Args) != 1 {
		return boxAtom{}, false
	}
	obj := ssau.CalleeObj(call)
	if obj == nil || obj.Pkg() == nil || !strings.Contains(obj.Pkg().Path(), "EliCDavis/vector/vector3") {
		return boxAtom{}, false
	}
	ax := strings.Index("XYZ", obj.Name())
	if ax < 0 || len(obj.Name()) != 1 {
		return boxAtom{}, false
	}
	c := e.classVec(call.Call.Args[0])
	if c != bcP && c != bcMin && c != bcMax {
		return boxAtom{}, false
	}
	return boxAtom{c, ax}, true
}

func boxPos(a boxAtom, rel [3]int) int {
	switch a.cls {
	case bcMin:
		return 1
	case bcMax:
		return 3
	}
	return rel[a.axis]
}

type boxInterp struct {
	rel   [3]int
	depth int
	why   string
}

func (bi *boxInterp) fail(format string, a ...any) (bool, bool) {
	if bi.why == "" {
		bi.why = fmt.Sprintf(format, a...)
	}
	return false, false
}

// evalBool: the value of a bool under the current ordering; prev = the block control came from (for phis).
func (bi *boxInterp) evalBool(v ssa.Value, env boxEnv, prev *ssa.BasicBlock) (val bool, ok bool) {
	switch x := v.(type) {
	case *ssa.Const:
		if b, ok := x.Type().Underlying().(*types.Basic); ok && b.Info()&types.IsBoolean != 0 && x.Value != nil {
			return x.Value.String() == "true", true
		}
	case *ssa.UnOp:
		if x.Op == token.NOT {
			b, ok := bi.evalBool(x.X, env, prev)
			return !b, ok
		}
	case *ssa.Phi:
		if prev != nil {
			for i, p := range x.Block().Preds {
				if p == prev {
					return bi.evalBool(x.Edges[i], env, nil)
				}
			}
		}
		return bi.fail("phi %s evaluated without a known predecessor", x.Name())
	case *ssa.BinOp:
		if bt, isB := x.X.Type().Underlying().(*types.Basic); isB && bt.Info()&types.IsBoolean != 0 && (x.Op == token.EQL || x.Op == token.NEQ) {
			l, ok1 := bi.evalBool(x.X, env, prev)
			r, ok2 := bi.evalBool(x.Y, env, prev)
			return (l == r) == (x.Op == token.EQL), ok1 && ok2
		}
		a, ok1 := env.atom(x.X)
		b, ok2 := env.atom(x.Y)
		if !ok1 || !ok2 {
			return bi.fail("comparison %s is not between a component of the point and a component of box.Min()/Max()", x.String())
		}
		if a.axis != b.axis {
			return bi.fail("comparison %s mixes axes", x.String())
		}
		if (a.cls == bcP) == (b.cls == bcP) {
			return bi.fail("comparison %s does not compare the point with the box", x.String())
		}
		pa, pb := boxPos(a, bi.rel), boxPos(b, bi.rel)
		switch x.Op {
		case token.LSS:
			return pa < pb, true
		case token.LEQ:
			return pa <= pb, true
		case token.GTR:
			return pa > pb, true
		case token.GEQ:
			return pa >= pb, true
		case token.EQL:
			return pa == pb, true
		case token.NEQ:
			return pa != pb, true
		}
	case *ssa.Call:
		callee := x.Call.StaticCallee()
		if callee == nil || len(callee.Blocks) == 0 || bi.depth > 3 {
			return bi.fail("call %s cannot be followed", x.String())
		}
		sub := boxEnv{bind: map[ssa.Value]boxClass{}}
		for i, p := range callee.Params {
			if i < len(x.Call.Args) {
				if c := env.classVec(x.Call.Args[i]); c != bcNone {
					sub.bind[p] = c
				}
			}
		}
		bi.depth++
		defer func() { bi.depth-- }()
		return bi.runFunc(callee, sub)
	}
	return bi.fail("condition %s is not a comparison of the point with the box", v.String())
}

// runFunc interprets a bool-returning function made of such comparisons.
func (bi *boxInterp) runFunc(f *ssa.Function, env boxEnv) (bool, bool) {
	var prev *ssa.BasicBlock
	b := f.Blocks[0]
	for steps := 0; steps < 200; steps++ {
		switch t := b.Instrs[len(b.Instrs)-1].(type) {
		case *ssa.Return:
			if len(t.Results) != 1 {
				return bi.fail("%s does not return one bool", f.Name())
			}
			return bi.evalBool(t.Results[0], env, prev)
		case *ssa.Jump:
			prev, b = b, b.Succs[0]
		case *ssa.If:
			c, ok := bi.evalBool(t.Cond, env, prev)
			if !ok {
				return false, false
			}
			if c {
				prev, b = b, b.Succs[0]
			} else {
				prev, b = b, b.Succs[1]
			}
		default:
			return bi.fail("%s leaves through %T", f.Name(), t)
		}
	}
	return bi.fail("%s: no result after 200 steps", f.Name())
}

// blockHasAppend: the block keeps an element — it appends, or calls a same-package function (a "keep" helper,
// possibly a method of a generic carrier) whose body appends, followed two levels deep.
func blockHasAppend(b *ssa.BasicBlock) bool {
	for _, in := range b.Instrs {
		c, ok := in.(*ssa.Call)
		if !ok {
			continue
		}
		if ssau.Builtin(c) == "append" {
			return true
		}
		if callee := c.Call.StaticCallee(); callee != nil && funcAppends(callee, b.Parent(), 0) {
			return true
		}
	}
	return false
}

func funcAppends(f, from *ssa.Function, depth int) bool {
	if o := f.Origin(); o != nil {
		f = o
	}
	if depth > 2 || len(f.Blocks) == 0 || f.Pkg == nil || from.Pkg == nil || f.Pkg != from.Pkg {
		return false
	}
	for _, b := range f.Blocks {
		for _, in := range b.Instrs {
			c, ok := in.(*ssa.Call)
			if !ok {
				continue
			}
			if ssau.Builtin(c) == "append" {
				return true
			}
			if callee := c.Call.StaticCallee(); callee != nil && funcAppends(callee, from, depth+1) {
				return true
			}
		}
	}
	return false
}

var axisNames = []string{"X", "Y", "Z"}
var relNames = []string{"below min", "equal to min (on the lower face)", "strictly inside", "equal to max (on the upper face)", "above max"}

// AnalyseBoxKeep decides CROP-1/2 for a crop operation fn(mesh, attr string, box AABB).
func AnalyseBoxKeep(fn *ssa.Function, cfg ShapeConfig) ShapeResult {
	res := ShapeResult{Fn: fn, Form: "box-keep"}
	var box *ssa.Parameter
	for _, p := range fn.Params {
		if isGeomAABB(p.Type()) {
			box = p
		}
	}
	if box == nil {
		res.add("CROP-1", false, nil, "no geometry.AABB parameter")
		return res
	}
	// element loop: the largest loop containing an append
	var L *ssau.Loop
	loops := ssau.Loops(fn)
	for _, l := range loops {
		has := false
		for b := range l.Blocks {
			if blockHasAppend(b) {
				has = true
			}
		}
		if has && (L == nil || len(l.Blocks) > len(L.Blocks)) {
			L = l
		}
	}
	if L == nil {
		res.add("CROP-1", false, nil, "no element loop with an append found")
		return res
	}
	keepBlock := map[*ssa.BasicBlock]bool{}
	for b := range L.Blocks {
		if blockHasAppend(b) {
			keepBlock[b] = true
		}
	}
	for _, l := range loops {
		if l == L || !L.Blocks[l.Header] {
			continue
		}
		has := false
		for b := range l.Blocks {
			if blockHasAppend(b) {
				has = true
			}
		}
		if has {
			for b := range l.Blocks {
				keepBlock[b] = true
			}
		}
	}
	hdrIf, ok := L.Header.Instrs[len(L.Header.Instrs)-1].(*ssa.If)
	if !ok {
		res.add("CROP-1", false, nil, "element loop header does not end in a condition")
		return res
	}
	var entry *ssa.BasicBlock
	for _, s := range L.Header.Succs {
		if L.Blocks[s] {
			entry = s
		}
	}
	var pReads []*ssa.Call
	env := boxEnv{bind: map[ssa.Value]boxClass{box: bcBox}, pReads: &pReads}
	mism, undec := "", ""
	n := 0
	for code := 0; code < 125 && mism == "" && undec == ""; code++ {
		rel := [3]int{code % 5, (code / 5) % 5, code / 25}
		bi := &boxInterp{rel: rel}
		prev, b := L.Header, entry
		kept, decided := false, false
		for steps := 0; steps < 400 && !decided; steps++ {
			if keepBlock[b] {
				kept, decided = true, true
				break
			}
			if b == L.Header || !L.Blocks[b] {
				kept, decided = false, true
				break
			}
			switch t := b.Instrs[len(b.Instrs)-1].(type) {
			case *ssa.Jump:
				prev, b = b, b.Succs[0]
			case *ssa.If:
				c, ok := bi.evalBool(t.Cond, env, prev)
				if !ok {
					undec = bi.why
					steps = 400
					break
				}
				if c {
					prev, b = b, b.Succs[0]
				} else {
					prev, b = b, b.Succs[1]
				}
			default:
				undec = fmt.Sprintf("loop body leaves through %T", t)
				steps = 400
			}
		}
		if undec != "" {
			break
		}
		if !decided {
			undec = "no decision after 400 steps"
			break
		}
		n++
		want := true
		for _, r := range rel {
			if r == 0 || r == 4 {
				want = false
			}
		}
		if kept != want {
			var parts []string
			for a, r := range rel {
				parts = append(parts, axisNames[a]+" "+relNames[r])
			}
			mism = fmt.Sprintf("a point with %s is %s, the closed box %s it", strings.Join(parts, ", "), map[bool]string{true: "kept", false: "dropped"}[kept], map[bool]string{true: "contains", false: "does not contain"}[want])
		}
	}
	_ = hdrIf
	switch {
	case undec != "":
		res.add("CROP-1", false, hdrIf, "keep decision not recognised: "+undec)
	case mism != "":
		res.add("CROP-1", false, hdrIf, "keep decision differs from the closed box min ≤ p ≤ max: "+mism)
	default:
		res.add("CROP-1", true, hdrIf, fmt.Sprintf("keep(p) ⇔ min ≤ p ≤ max on every axis, for all %d orderings of the point against the box (comparisons followed through the loop body and AABB.Contains)", n))
	}
	// CROP-2
	seen := map[*ssa.Call]bool{}
	for _, rdc := range pReads {
		if seen[rdc] {
			continue
		}
		seen[rdc] = true
		rd, _ := readOf(rdc)
		attr, ok := attrOfSource(rd.src, fn, cfg)
		okAttr := ok && stringParamOf(attr) != nil
		okIdx := false
		for _, o := range valueOrigins(rd.idx) {
			if ph, ok := o.(*ssa.Phi); ok && ph.Block() == L.Header {
				okIdx = true
			}
		}
		if ph, ok := rd.idx.(*ssa.Phi); ok && ph.Block() == L.Header {
			okIdx = true
		}
		d := "the deciding point is the input mesh's attribute named by the attribute parameter, read at the element being decided"
		if !okAttr {
			d = "the deciding point is not read from the input mesh's attribute named by the operation's attribute parameter: the wrong attribute is consulted"
		} else if !okIdx {
			d = "the deciding point is not read at the index of the element being decided"
		}
		res.add("CROP-2", okAttr && okIdx, rdc, d)
	}
	if len(seen) == 0 && undec == "" {
		res.add("CROP-2", false, hdrIf, "no read of a deciding point found")
	}
	return res
}
