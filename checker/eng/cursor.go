package eng

// SPLIT-1 — cursor-keyed accumulators ("material ranges drive splitting").
//
// A loop walks the primitives while a cursor c walks a table of ranges (materials); each primitive is appended to
// the accumulator that a map holds under key(table[c]). The accumulator pointer used by the append must be
// *current* for the cursor value at the append, on every path:
//     v current for c  ⇔  v = map[key(table[c])]                              (looked up with this cursor)
//                      or v = new object stored as map[key(table[c])] = v      (created for this cursor)
//                      or v = φ(…): every incoming value is current for the cursor value on the same edge.
// A pointer carried over from an earlier iteration while the cursor advanced (a cache refreshed only when a new
// accumulator is created) is not current: primitives of a range whose key was seen before land in the previous
// range's accumulator. Decided co-inductively over the φ-graph (a cycle is assumed current).

import (
	"fmt"
	"go/token"
	"go/types"

	"golang.org/x/tools/go/ssa"

	"polycheck/ssau"
)

// keyCursor: k = load(&table[idx].F) → (table, idx).
func keyCursor(k ssa.Value) (ssa.Value, ssa.Value, bool) {
	u, ok := k.(*ssa.UnOp)
	if !ok || u.Op != token.MUL {
		return nil, nil, false
	}
	fa, ok := u.X.(*ssa.FieldAddr)
	if !ok {
		return nil, nil, false
	}
	ia, ok := fa.X.(*ssa.IndexAddr)
	if !ok {
		return nil, nil, false
	}
	return ia.X, ia.Index, true
}

func sameCursor(a, b ssa.Value) bool {
	if a == b {
		return true
	}
	ka, ok1 := ssau.ConstInt(a)
	kb, ok2 := ssau.ConstInt(b)
	return ok1 && ok2 && ka == kb
}

type cursorCheck struct {
	m    ssa.Value // the map (alias roots compared)
	memo map[[2]ssa.Value]int
	why  string
}

func (cc *cursorCheck) sameMap(x ssa.Value) bool {
	rx := aliasRootsMap(x)
	for r := range aliasRootsMap(cc.m) {
		if rx[r] {
			return true
		}
	}
	return x == cc.m
}

func (cc *cursorCheck) current(v, c ssa.Value, depth int) bool {
	key := [2]ssa.Value{v, c}
	if r, ok := cc.memo[key]; ok {
		return r != 2 // in progress (0) or true (1): co-inductive
	}
	cc.memo[key] = 0
	ok := cc.currentNow(v, c, depth)
	if ok {
		cc.memo[key] = 1
	} else {
		cc.memo[key] = 2
	}
	return ok
}

func (cc *cursorCheck) currentNow(v, c ssa.Value, depth int) bool {
	if depth > 30 {
		return false
	}
	switch x := v.(type) {
	case *ssa.Lookup:
		if !cc.sameMap(x.X) {
			cc.why = "the accumulator is looked up in a different map"
			return false
		}
		_, idx, ok := keyCursor(x.Index)
		if ok && sameCursor(idx, c) {
			return true
		}
		cc.why = fmt.Sprintf("an accumulator looked up under the key of range %s is used while the cursor is %s", nameOf(idx), nameOf(c))
		return false
	case *ssa.Extract:
		if lk, ok := x.Tuple.(*ssa.Lookup); ok && x.Index == 0 {
			return cc.currentNow(lk, c, depth+1)
		}
	case *ssa.Alloc:
		// stored into the map under key(table[c])
		for _, r := range ssau.Refs(x) {
			if mu, ok := r.(*ssa.MapUpdate); ok && mu.Value == x && cc.sameMap(mu.Map) {
				if _, idx, ok := keyCursor(mu.Key); ok && sameCursor(idx, c) {
					return true
				}
			}
		}
		cc.why = fmt.Sprintf("a newly created accumulator is not registered under the key of the current range %s", nameOf(c))
		return false
	case *ssa.Phi:
		cphi, _ := c.(*ssa.Phi)
		for i, e := range x.Edges {
			ce := c
			if cphi != nil && cphi.Block() == x.Block() {
				ce = cphi.Edges[i]
			}
			if !cc.current(e, ce, depth+1) {
				if cc.why == "" {
					cc.why = "an incoming accumulator is not current for the cursor on the same edge"
				}
				return false
			}
		}
		return true
	}
	cc.why = fmt.Sprintf("accumulator value %s is not a lookup, a registered new object or a join of such", nameOf(v))
	return false
}

func nameOf(v ssa.Value) string {
	if v == nil {
		return "?"
	}
	if k, ok := ssau.ConstInt(v); ok {
		return fmt.Sprint(k)
	}
	if b, ok := v.(*ssa.BinOp); ok {
		return "(" + nameOf(b.X) + " " + b.Op.String() + " " + nameOf(b.Y) + ")"
	}
	if p, ok := v.(*ssa.Phi); ok && p.Comment != "" {
		return p.Comment
	}
	return v.Name()
}

// AnalyseCursorKeyed decides SPLIT-1 for fn.
func AnalyseCursorKeyed(fn *ssa.Function) ShapeResult {
	res := ShapeResult{Fn: fn, Form: "cursor-keyed"}
	loops := ssau.Loops(fn)
	n := 0
	ssau.AllInstrs(fn, func(in ssa.Instruction) {
		app, ok := in.(*ssa.Call)
		if !ok || ssau.Builtin(app) != "append" || !isIntSlice(app.Type()) {
			return
		}
		l := ssau.InnermostLoop(loops, app.Block())
		if l == nil {
			return
		}
		// destination: load(&ptr.field)
		u, ok := app.Call.Args[0].(*ssa.UnOp)
		if !ok || u.Op != token.MUL {
			return
		}
		fa, ok := u.X.(*ssa.FieldAddr)
		if !ok {
			return
		}
		if _, isPtr := fa.X.Type().Underlying().(*types.Pointer); !isPtr {
			return
		}
		ptr := fa.X
		// the map: any map whose values have ptr's type and that is looked up / updated in fn
		var m ssa.Value
		ssau.AllInstrs(fn, func(i2 ssa.Instruction) {
			switch y := i2.(type) {
			case *ssa.Lookup:
				if mt, ok := y.X.Type().Underlying().(*types.Map); ok && types.Identical(mt.Elem(), ptr.Type()) {
					if _, _, ok := keyCursor(y.Index); ok {
						m = y.X
					}
				}
			case *ssa.MapUpdate:
				if mt, ok := y.Map.Type().Underlying().(*types.Map); ok && types.Identical(mt.Elem(), ptr.Type()) {
					if _, _, ok := keyCursor(y.Key); ok && m == nil {
						m = y.Map
					}
				}
			}
		})
		if m == nil {
			return
		}
		// cursor: the int header φ of l that subscripts the range table in map keys (directly or +const)
		var cur *ssa.Phi
		for _, hi := range l.Header.Instrs {
			ph, ok := hi.(*ssa.Phi)
			if !ok {
				break
			}
			if b, ok := ph.Type().Underlying().(*types.Basic); !ok || b.Info()&types.IsInteger == 0 {
				continue
			}
			used := false
			ssau.AllInstrs(fn, func(i2 ssa.Instruction) {
				var k ssa.Value
				switch y := i2.(type) {
				case *ssa.Lookup:
					k = y.Index
				case *ssa.MapUpdate:
					k = y.Key
				}
				if k == nil {
					return
				}
				if _, idx, ok := keyCursor(k); ok {
					for d := range backward(idx, true) {
						if d == ph {
							used = true
						}
					}
				}
			})
			if used {
				cur = ph
			}
		}
		if cur == nil {
			return
		}
		// cursor value at the append: the back-edge value of the cursor φ if it is defined before the append
		var c ssa.Value = cur
		for i, e := range cur.Edges {
			pred := cur.Block().Preds[i]
			if l.Blocks[pred] {
				if ei, ok := e.(ssa.Instruction); ok && ei.Block().Dominates(app.Block()) {
					c = e
				}
			}
		}
		n++
		cc := &cursorCheck{m: m, memo: map[[2]ssa.Value]int{}}
		ok2 := cc.current(ptr, c, 0)
		d := "the accumulator a primitive is appended to is the one registered under the key of the current range, on every path (looked up or created with the cursor value that holds at the append)"
		if !ok2 {
			d = "the accumulator a primitive is appended to is not current for the range cursor on some path: " + cc.why + " — primitives of a range whose key was seen before land in another range's accumulator"
		}
		res.add("SPLIT-1", ok2, app, d)
	})
	if n == 0 {
		res.add("SPLIT-1", false, nil, "no cursor-keyed accumulator append recognised (range table cursor, map of accumulators, append into the accumulator)")
	}
	return res
}
