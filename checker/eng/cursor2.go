package eng

// SPLIT-2 — the range cursor skips every exhausted range before a primitive is assigned.
//
// The split loop walks the primitives while a cursor walks the table of material ranges. When the current range is
// exhausted the cursor moves on — and the next range may be empty (a material entry with zero primitives is a
// well-formed entry). If the cursor can advance at most once per primitive (an `if` that increments it), the
// primitive is assigned to the empty range's accumulator and every range after it is off by that primitive. The
// advance therefore has to repeat until the range test fails: the increment of the cursor lies in a loop nested
// inside the primitive loop (a `for` around the test), or the cursor is the counter of an outer per-range loop.
// Reported: a conditional increment of the cursor whose innermost loop is the primitive loop itself.

import (
	"go/token"
	"go/types"

	"golang.org/x/tools/go/ssa"

	"polycheck/ssau"
)

// AnalyseCursorAdvance decides SPLIT-2 for fn; isRangeTable tells the element type of the range table.
func AnalyseCursorAdvance(fn *ssa.Function, isRangeElem func(types.Type) bool) ShapeResult {
	res := ShapeResult{Fn: fn, Form: "cursor-advance"}
	loops := ssau.Loops(fn)
	// cursors: index values of table[idx] reads, closed over φs and ±1
	cursor := map[ssa.Value]bool{}
	ssau.AllInstrs(fn, func(in ssa.Instruction) {
		ia, ok := in.(*ssa.IndexAddr)
		if !ok {
			return
		}
		sl, ok := ia.X.Type().Underlying().(*types.Slice)
		if !ok || !isRangeElem(sl.Elem()) {
			return
		}
		cursor[ia.Index] = true
	})
	if len(cursor) == 0 {
		res.add("SPLIT-2", false, nil, "no read of the range table through a cursor found")
		return res
	}
	for changed := true; changed; {
		changed = false
		for v := range cursor {
			switch x := v.(type) {
			case *ssa.Phi:
				for _, e := range x.Edges {
					if _, isConst := e.(*ssa.Const); !isConst && !cursor[e] {
						cursor[e], changed = true, true
					}
				}
			case *ssa.BinOp:
				if x.Op == token.ADD && !cursor[x.X] {
					if _, isConst := x.X.(*ssa.Const); !isConst {
						cursor[x.X], changed = true, true
					}
				}
			}
		}
	}
	// the primitive loop: the innermost loop around an append of ints
	var prim *ssau.Loop
	ssau.AllInstrs(fn, func(in ssa.Instruction) {
		if c, ok := in.(*ssa.Call); ok && ssau.Builtin(c) == "append" && isIntSlice(c.Type()) {
			if l := ssau.InnermostLoop(loops, c.Block()); l != nil && (prim == nil || len(l.Blocks) > len(prim.Blocks)) {
				prim = l
			}
		}
	})
	if prim == nil {
		res.add("SPLIT-2", false, nil, "no primitive loop (a loop appending indices) found")
		return res
	}
	n := 0
	for v := range cursor {
		inc, ok := v.(*ssa.BinOp)
		if !ok || inc.Op != token.ADD || !cursor[inc.X] {
			continue
		}
		if k, ok := ssau.ConstInt(inc.Y); !ok || k != 1 {
			continue
		}
		l := ssau.InnermostLoop(loops, inc.Block())
		if l == nil || !prim.Blocks[inc.Block()] && l != prim {
			continue // an outer per-range loop or straight-line code: not the per-primitive advance
		}
		n++
		if l != prim {
			res.add("SPLIT-2", true, inc, "the cursor advances inside a loop nested in the primitive loop: exhausted ranges are skipped until the range test fails")
			continue
		}
		if everyIteration(inc.Block(), prim) {
			res.add("SPLIT-2", true, inc, "the cursor is the counter of the loop itself (one range per iteration)")
			continue
		}
		res.add("SPLIT-2", false, inc, "the cursor advances at most once per primitive (a conditional increment whose innermost loop is the primitive loop): after an exhausted range an empty range is not skipped, its accumulator receives the primitive and every later range is shifted by it")
	}
	if n == 0 {
		res.add("SPLIT-2", false, nil, "no increment of the range cursor found in the primitive loop")
	}
	return res
}
