package eng

// DEGEN-1 — the triangle filter of the weld: a welded triangle is dropped exactly when two of its three corners
// fall into the same weld cell. The loop touches the three rounded corner keys only through == / != between
// pairs, so the five equality patterns of three values ({all distinct}, {1=2}, {1=3}, {2=3}, {all equal}) are
// exhaustive; for each pattern the comparisons have a definite outcome and the loop body is followed to either the
// append of the triangle (kept) or the loop header (dropped). Contract: kept ⇔ all three distinct.

import (
	"fmt"
	"go/token"
	"go/types"

	"golang.org/x/tools/go/ssa"

	"polycheck/ssau"
)

type eqInterp struct {
	class map[ssa.Value]int // value -> corner number 0..2
	part  [3]int            // partition: representative id per corner
	why   string
}

func (e *eqInterp) fail(f string, a ...any) (bool, bool) {
	if e.why == "" {
		e.why = fmt.Sprintf(f, a...)
	}
	return false, false
}

func (e *eqInterp) cornerOfValue(v ssa.Value) (int, bool) {
	if c, ok := e.class[v]; ok {
		return c, true
	}
	os := valueOrigins(v)
	if len(os) == 1 {
		if c, ok := e.class[os[0]]; ok {
			return c, true
		}
	}
	return 0, false
}

func (e *eqInterp) evalBool(v ssa.Value, prev *ssa.BasicBlock) (bool, bool) {
	switch x := v.(type) {
	case *ssa.Const:
		if b, ok := x.Type().Underlying().(*types.Basic); ok && b.Info()&types.IsBoolean != 0 && x.Value != nil {
			return x.Value.String() == "true", true
		}
	case *ssa.UnOp:
		if x.Op == token.NOT {
			b, ok := e.evalBool(x.X, prev)
			return !b, ok
		}
	case *ssa.Phi:
		if prev != nil {
			for i, p := range x.Block().Preds {
				if p == prev {
					return e.evalBool(x.Edges[i], nil)
				}
			}
		}
		return e.fail("phi %s evaluated without a known predecessor", x.Name())
	case *ssa.BinOp:
		if x.Op != token.EQL && x.Op != token.NEQ {
			return e.fail("condition %s is not an equality test", x.String())
		}
		if bt, isB := x.X.Type().Underlying().(*types.Basic); isB && bt.Info()&types.IsBoolean != 0 {
			l, ok1 := e.evalBool(x.X, prev)
			r, ok2 := e.evalBool(x.Y, prev)
			return (l == r) == (x.Op == token.EQL), ok1 && ok2
		}
		a, ok1 := e.cornerOfValue(x.X)
		b, ok2 := e.cornerOfValue(x.Y)
		if !ok1 || !ok2 {
			return e.fail("comparison %s is not between two of the triangle's rounded corners", x.String())
		}
		return (e.part[a] == e.part[b]) == (x.Op == token.EQL), true
	}
	return e.fail("condition %s is not an equality test of the triangle's rounded corners", v.String())
}

// cornerK: v = data[indices[t+k]] (slice or iterator reads) → k.
func cornerK(v ssa.Value) (int64, bool) {
	rd, ok := readOf(v)
	if !ok {
		os := valueOrigins(v)
		if len(os) != 1 {
			return -1, false
		}
		if rd, ok = readOf(os[0]); !ok {
			return -1, false
		}
	}
	ird, ok := readOf(rd.idx)
	if !ok {
		return -1, false
	}
	switch x := ird.idx.(type) {
	case *ssa.Phi:
		return 0, true
	case *ssa.BinOp:
		if x.Op == token.ADD {
			if _, isPhi := x.X.(*ssa.Phi); isPhi {
				if k, ok := ssau.ConstInt(x.Y); ok {
					return k, true
				}
			}
		}
	}
	return -1, false
}

// AnalyseDegenerateDrop decides DEGEN-1 for fn; keyFunc names the rounding function (modeling.Vector3ToInt).
func AnalyseDegenerateDrop(fn *ssa.Function, isKeyFunc func(types.Object) bool) ShapeResult {
	res := ShapeResult{Fn: fn, Form: "degenerate-drop"}
	loops := ssau.Loops(fn)
	// the triangle loop: contains an append of ints and ≥ 3 key calls
	var L *ssau.Loop
	var keys []*ssa.Call
	for _, l := range loops {
		var ks []*ssa.Call
		hasAppend := false
		for b := range l.Blocks {
			for _, in := range b.Instrs {
				c, ok := in.(*ssa.Call)
				if !ok {
					continue
				}
				if ssau.Builtin(c) == "append" && isIntSlice(c.Type()) {
					hasAppend = true
				}
				if o := ssau.CalleeObj(c); o != nil && isKeyFunc(o) {
					ks = append(ks, c)
				}
			}
		}
		if hasAppend && len(ks) == 3 && (L == nil || len(l.Blocks) < len(L.Blocks)) {
			L, keys = l, ks
		}
	}
	if L == nil {
		res.add("DEGEN-1", false, nil, "no triangle loop with three rounded corner keys and an index append found")
		return res
	}
	// corner number of each key call: the offset k of the index read feeding it
	e := &eqInterp{class: map[ssa.Value]int{}}
	seen := map[int64]bool{}
	for _, kc := range keys {
		k, ok := int64(-1), false
		if len(kc.Call.Args) > 0 {
			k, ok = cornerK(kc.Call.Args[0])
		}
		if !ok || k < 0 || k > 2 || seen[k] {
			res.add("DEGEN-1", false, kc, "the rounded keys are not those of the triangle's three corners (indices[t], indices[t+1], indices[t+2])")
			return res
		}
		seen[k] = true
		e.class[kc] = int(k)
	}
	keep := map[*ssa.BasicBlock]bool{}
	for b := range L.Blocks {
		for _, in := range b.Instrs {
			if c, ok := in.(*ssa.Call); ok && ssau.Builtin(c) == "append" && isIntSlice(c.Type()) {
				keep[b] = true
			}
		}
	}
	var entry *ssa.BasicBlock
	for _, s := range L.Header.Succs {
		if L.Blocks[s] {
			entry = s
		}
	}
	var at ssa.Instruction = keys[0]
	parts := [][3]int{{0, 1, 2}, {0, 0, 2}, {0, 1, 0}, {0, 1, 1}, {0, 0, 0}}
	names := []string{"all three corners in different cells", "corners 1 and 2 in one cell", "corners 1 and 3 in one cell", "corners 2 and 3 in one cell", "all three corners in one cell"}
	for pi, part := range parts {
		e.part = part
		prev, b := L.Header, entry
		kept, decided := false, false
		for steps := 0; steps < 200 && !decided && e.why == ""; steps++ {
			if keep[b] {
				kept, decided = true, true
				break
			}
			if b == L.Header || !L.Blocks[b] {
				decided = true
				break
			}
			switch t := b.Instrs[len(b.Instrs)-1].(type) {
			case *ssa.Jump:
				prev, b = b, b.Succs[0]
			case *ssa.If:
				c, ok := e.evalBool(t.Cond, prev)
				if !ok {
					break
				}
				if c {
					prev, b = b, b.Succs[0]
				} else {
					prev, b = b, b.Succs[1]
				}
			default:
				e.fail("loop body leaves through %T", t)
			}
		}
		if e.why != "" || !decided {
			res.add("DEGEN-1", false, at, "triangle filter not recognised: "+e.why)
			return res
		}
		want := pi == 0
		if kept != want {
			res.add("DEGEN-1", false, at, fmt.Sprintf("with %s the triangle is %s: a welded triangle must be kept exactly when its three corners lie in three different cells (a degenerate face survives, or a proper face is lost)", names[pi], map[bool]string{true: "kept", false: "dropped"}[kept]))
			return res
		}
	}
	res.add("DEGEN-1", true, at, "kept ⇔ the three rounded corners are pairwise different, for all five equality patterns of the corners")
	return res
}
