package eng

// FAM-1 / WF-1 — operations that rebuild a mesh enumerate all four attribute
// families (float1..float4) and treat them in lock-step.
//
// An *enumeration* of family k is a call of (Mesh).Float{k}Attributes() or, inside
// package modeling, a range over the Mesh.v{k}Data map (field objects resolved by
// type). A function (with its closures and the same-package helpers it calls
// directly) that enumerates two or more families rebuilds attribute arrays and must
// enumerate all four (FAM-1); the enumerations that sit in the same loop must be
// control-equivalent — none can be skipped on a path on which another is executed
// (WF-1), otherwise the output arrays of one mesh end up with different lengths.

import (
	"go/types"
	"sort"
	"strings"

	"golang.org/x/tools/go/ssa"

	"polycheck/ssau"
)

type FamEnum struct {
	Fn     *ssa.Function // function containing the instruction
	Instr  ssa.Instruction
	Family int
}

// FamPair: a helper call that combines the attribute maps of two meshes (appendData(m.vK, other.vK, …)).
type FamPair struct {
	Fn    *ssa.Function
	Instr ssa.Instruction
	Bad   string
	Desc  string
}

// FamilyPairs finds helper calls receiving two or more Mesh.v{k}Data maps and checks that
// they are the same family of different meshes (FAM-2).
func FamilyPairs(fns []*ssa.Function, modelingPath string) []FamPair {
	var out []FamPair
	for _, fn := range fns {
		ssau.AllInstrs(fn, func(in ssa.Instruction) {
			c, ok := in.(ssa.CallInstruction)
			if !ok || c.Common().StaticCallee() == nil {
				return
			}
			type argInfo struct {
				fam  int
				base ssa.Value
			}
			var args []argInfo
			for _, a := range c.Common().Args {
				u, ok := a.(*ssa.UnOp)
				if !ok {
					continue
				}
				fa, ok := u.X.(*ssa.FieldAddr)
				if !ok {
					continue
				}
				f := ssau.FieldOf(fa)
				if f == nil || f.Pkg() == nil || f.Pkg().Path() != modelingPath {
					continue
				}
				if k := familyOfName(f.Name(), "v", "Data"); k != 0 {
					args = append(args, argInfo{k, fa.X})
				}
			}
			if len(args) < 2 {
				return
			}
			p := FamPair{Fn: fn, Instr: in, Desc: "combines " + itoa(len(args)) + " attribute maps of family float" + itoa(args[0].fam)}
			for i := 1; i < len(args); i++ {
				if args[i].fam != args[0].fam {
					p.Bad = "maps of different attribute families (float" + itoa(args[0].fam) + ", float" + itoa(args[i].fam) + ") are combined"
				} else if args[i].base == args[0].base {
					p.Bad = "the same mesh's float" + itoa(args[0].fam) + " map is passed twice: the other mesh's data never arrives"
				}
			}
			out = append(out, p)
		})
	}
	return out
}

func itoa(n int) string {
	if n == 0 {
		return "0"
	}
	s := ""
	for n > 0 {
		s = string(rune('0'+n%10)) + s
		n /= 10
	}
	return s
}

type FamResult struct {
	Top      *ssa.Function
	Families map[int]bool
	Enums    []FamEnum
	// WF-1 findings: family B skipped while family A executed
	Skips  []FamSkip
	Groups int
}

type FamSkip struct {
	A, B FamEnum
	How  string
	// Missing != 0: the group around A handles several families but never family Missing
	Missing int
}

func familyOfName(name, prefix, suffix string) int {
	if len(name) == len(prefix)+1+len(suffix) && name[:len(prefix)] == prefix && name[len(prefix)+1:] == suffix {
		d := int(name[len(prefix)] - '0')
		if d >= 1 && d <= 4 {
			return d
		}
	}
	return 0
}

// Families analyses the given functions (closures are attributed to their top-level parent).
func Families(fns []*ssa.Function, modelingPath string) []FamResult {
	byTop := map[*ssa.Function]*FamResult{}
	var order []*ssa.Function
	top := func(f *ssa.Function) *ssa.Function {
		for f.Parent() != nil {
			f = f.Parent()
		}
		return f
	}
	own := map[*ssa.Function][]FamEnum{}
	for _, fn := range fns {
		ssau.AllInstrs(fn, func(in ssa.Instruction) {
			switch v := in.(type) {
			case *ssa.Call:
				if o := ssau.CalleeObj(v); o != nil && ssau.IsMethod(o, modelingPath, "Mesh", o.Name()) {
					if k := familyOfName(o.Name(), "Float", "Attributes"); k != 0 {
						own[fn] = append(own[fn], FamEnum{fn, v, k})
					}
				}
			case *ssa.UnOp:
				// m.v{k}Data handed to a same-package helper that builds storage (appendData)
				if fa, ok := v.X.(*ssa.FieldAddr); ok {
					if f := ssau.FieldOf(fa); f != nil && f.Pkg() != nil && f.Pkg().Path() == modelingPath {
						if k := familyOfName(f.Name(), "v", "Data"); k != 0 {
							for _, r := range ssau.Refs(v) {
								if c, ok := r.(ssa.CallInstruction); ok {
									if callee := c.Common().StaticCallee(); callee != nil && returnsStorage(callee, modelingPath) {
										helper := callee
										if helper.Origin() != nil {
											helper = helper.Origin()
										}
										if helper.Pkg != nil && helper.Pkg.Pkg.Path() == modelingPath && helper.Signature.Recv() == nil {
											own[fn] = append(own[fn], FamEnum{fn, c, k})
										}
									}
								}
							}
						}
					}
				}
			case *ssa.Range:
				if u, ok := v.X.(*ssa.UnOp); ok {
					if fa, ok := u.X.(*ssa.FieldAddr); ok {
						if f := ssau.FieldOf(fa); f != nil && f.Pkg() != nil && f.Pkg().Path() == modelingPath {
							if _, isMap := f.Type().Underlying().(*types.Map); isMap {
								if k := familyOfName(f.Name(), "v", "Data"); k != 0 {
									own[fn] = append(own[fn], FamEnum{fn, v, k})
								}
							}
						}
					}
				}
			}
		})
	}
	for _, fn := range fns {
		t := top(fn)
		r := byTop[t]
		if r == nil {
			r = &FamResult{Top: t, Families: map[int]bool{}}
			byTop[t] = r
			order = append(order, t)
		}
		for _, e := range own[fn] {
			r.Families[e.Family] = true
			r.Enums = append(r.Enums, e)
		}
	}
	// one level of same-package helpers (readAllFloat4Data(m) …): their families count for the caller
	for _, fn := range fns {
		t := top(fn)
		r := byTop[t]
		ssau.AllInstrs(fn, func(in ssa.Instruction) {
			if c, ok := in.(ssa.CallInstruction); ok {
				if callee := c.Common().StaticCallee(); callee != nil && callee != t && callee.Pkg == t.Pkg && callee.Pkg != nil && returnsStorage(callee, modelingPath) {
					for _, e := range own[callee] {
						if !r.Families[e.Family] {
							r.Families[e.Family] = true
						}
						r.Enums = append(r.Enums, FamEnum{fn, in, e.Family})
					}
				}
			}
		})
	}
	var out []FamResult
	for _, t := range order {
		r := byTop[t]
		if len(r.Families) < 2 || !returnsStorage(t, modelingPath) {
			continue // searches (AttributeLength, HasVertexAttribute…) are not rebuilds
		}
		r.lockstep()
		out = append(out, *r)
	}
	sort.SliceStable(out, func(i, j int) bool { return out[i].Top.Pos() < out[j].Top.Pos() })
	return out
}

// lockstep groups the enumerations by (function, innermost loop) and checks control equivalence.
func (r *FamResult) lockstep() {
	type gkey struct {
		fn   *ssa.Function
		loop *ssa.BasicBlock
	}
	groups := map[gkey][]FamEnum{}
	loopsOf := map[*ssa.Function][]*ssau.Loop{}
	var keys []gkey
	for _, e := range r.Enums {
		ls, ok := loopsOf[e.Fn]
		if !ok {
			ls = ssau.Loops(e.Fn)
			loopsOf[e.Fn] = ls
		}
		// the enumeration feeds an inner loop of its own; the loop that matters is the one around the
		// enumerating instruction (for a Range over a map the Range sits before its loop as well)
		var hdr *ssa.BasicBlock
		if l := ssau.InnermostLoop(ls, e.Instr.Block()); l != nil {
			hdr = l.Header
		}
		k := gkey{e.Fn, hdr}
		if _, ok := groups[k]; !ok {
			keys = append(keys, k)
		}
		groups[k] = append(groups[k], e)
	}
	for _, k := range keys {
		g := groups[k]
		if len(g) < 2 {
			continue
		}
		r.Groups++
		present := map[int]bool{}
		for _, e := range g {
			present[e.Family] = true
		}
		if len(present) >= 2 {
			for k := 1; k <= 4; k++ {
				if !present[k] {
					r.Skips = append(r.Skips, FamSkip{A: g[0], B: g[0], Missing: k, How: "never"})
				}
			}
		}
		var loop *ssau.Loop
		for _, l := range loopsOf[k.fn] {
			if l.Header == k.loop {
				loop = l
			}
		}
		// first enumeration of each family, ordered by dominance
		sort.SliceStable(g, func(i, j int) bool { return ssau.Before(g[i].Instr, g[j].Instr) })
		for i := 0; i+1 < len(g); i++ {
			a, b := g[i], g[i+1]
			if a.Instr.Block() == b.Instr.Block() {
				continue
			}
			if !a.Instr.Block().Dominates(b.Instr.Block()) {
				// siblings in different branches: each branch must then hold a full set; judged per branch by FAM counts
				continue
			}
			if how := escapesBetween(a.Instr.Block(), b.Instr.Block(), loop, k.fn); how != "" {
				r.Skips = append(r.Skips, FamSkip{A: a, B: b, How: how})
			}
		}
	}
}

// escapesBetween: is there a path from block a that ends the iteration (or the function)
// without passing block b?
func escapesBetween(a, b *ssa.BasicBlock, loop *ssau.Loop, fn *ssa.Function) string {
	seen := map[*ssa.BasicBlock]bool{}
	stack := append([]*ssa.BasicBlock{}, a.Succs...)
	for len(stack) > 0 {
		n := stack[len(stack)-1]
		stack = stack[:len(stack)-1]
		if n == b || seen[n] {
			continue
		}
		seen[n] = true
		if loop != nil {
			if n == loop.Header {
				return "the loop continues with the next element"
			}
			if !loop.Blocks[n] {
				return "the loop is left"
			}
		} else if len(n.Succs) == 0 {
			if len(n.Instrs) > 0 {
				if _, isPanic := n.Instrs[len(n.Instrs)-1].(*ssa.Panic); isPanic {
					continue
				}
			}
			return "the function returns"
		}
		stack = append(stack, n.Succs...)
	}
	return ""
}

// returnsStorage: the function hands back a mesh, meshes, or attribute maps/arrays — i.e. it builds mesh data.
func returnsStorage(f *ssa.Function, modelingPath string) bool {
	res := f.Signature.Results()
	for i := 0; i < res.Len(); i++ {
		t := res.At(i).Type()
		if ssau.IsNamed(t, modelingPath, "Mesh") {
			return true
		}
		switch u := t.Underlying().(type) {
		case *types.Map:
			if _, ok := u.Elem().Underlying().(*types.Slice); ok {
				return true
			}
		case *types.Slice:
			if ssau.IsNamed(u.Elem(), modelingPath, "Mesh") {
				return true
			}
		}
	}
	return false
}

// FAM-3 — sibling agreement of the four family blocks when new attribute arrays are created: a function that
// stores freshly made arrays into the per-family maps (map[string][]vectorN / []float64) creates them all with the
// same LENGTH (make([]T, L): L canonically equal across the families — usually 0 with the elements appended, or one
// common vertex count). An array made with a non-zero length in one family and length 0 in the others starts with
// extra zero elements once the common append loop has run: the families end up with different lengths.
type FamMake struct {
	Fn     *ssa.Function
	At     ssa.Instruction
	Family int
	Len    string
	OK     bool
	Detail string
}

func attrFamilyOfElem(t types.Type) int {
	s, ok := t.Underlying().(*types.Slice)
	if !ok {
		return 0
	}
	if b, ok := s.Elem().Underlying().(*types.Basic); ok && b.Kind() == types.Float64 {
		return 1
	}
	if n, ok := types.Unalias(s.Elem()).(*types.Named); ok && n.Obj().Pkg() != nil {
		p := n.Obj().Pkg().Path()
		switch {
		case strings.HasSuffix(p, "/vector2"):
			return 2
		case strings.HasSuffix(p, "/vector3"):
			return 3
		case strings.HasSuffix(p, "/vector4"):
			return 4
		}
	}
	return 0
}

func FamilyMakes(fns []*ssa.Function) []FamMake {
	var out []FamMake
	for _, fn := range fns {
		var ms []FamMake
		ssau.AllInstrs(fn, func(in ssa.Instruction) {
			mu, ok := in.(*ssa.MapUpdate)
			if !ok {
				return
			}
			val := mu.Value
			for d := 0; d < 3; d++ {
				if ct, ok := val.(*ssa.ChangeType); ok {
					val = ct.X
				}
			}
			// make([]T, L[, C]) is a MakeSlice, or — for a constant size — new([K]T) sliced to [:h]
			var at ssa.Instruction
			length := ""
			switch y := val.(type) {
			case *ssa.MakeSlice:
				at, length = y, canonExpr(y.Len, 0)
			case *ssa.Slice:
				al, ok := y.X.(*ssa.Alloc)
				if !ok || !al.Heap || y.Low != nil {
					return
				}
				arr, ok := al.Type().Underlying().(*types.Pointer).Elem().Underlying().(*types.Array)
				if !ok {
					return
				}
				at = y
				length = itoa(int(arr.Len()))
				if y.High != nil {
					k, ok := ssau.ConstInt(y.High)
					if !ok {
						return
					}
					length = itoa(int(k))
				}
			default:
				return
			}
			fam := attrFamilyOfElem(mu.Value.Type())
			if fam == 0 {
				return
			}
			if kt, ok := mu.Map.Type().Underlying().(*types.Map); !ok || !types.Identical(kt.Key(), types.Typ[types.String]) {
				return
			}
			ms = append(ms, FamMake{Fn: fn, At: at, Family: fam, Len: length})
		})
		fams := map[int]bool{}
		for _, m := range ms {
			fams[m.Family] = true
		}
		if len(fams) < 2 {
			continue
		}
		// the reference length: the most common one
		count := map[string]int{}
		for _, m := range ms {
			count[m.Len]++
		}
		ref, best := "", 0
		for l, n := range count {
			if n > best || (n == best && l < ref) {
				ref, best = l, n
			}
		}
		for _, m := range ms {
			m.OK = m.Len == ref
			m.Detail = "new float" + itoa(m.Family) + " arrays are made with length " + m.Len + ", like the other families (" + ref + ")"
			if !m.OK {
				m.Detail = "new float" + itoa(m.Family) + " arrays are made with length " + m.Len + " while the other families use " + ref + ": after the common fill the families differ in length"
			}
			out = append(out, m)
		}
	}
	return out
}
