package eng

// Structural rules for geometry generators (necessary conditions of well-formedness that need no
// arithmetic about the index formulas themselves):
//
// GEN-LEN — the per-vertex arrays handed to one mesh have one common length by construction:
//           arrays created with make([]T, L) use the same length expression L (compared as canonical
//           expression trees, commutative operators normalised); arrays grown by append receive the same
//           number of elements in every basic block (lock-step). Arrays whose construction is not one of
//           these two forms (results of calls, mixed forms) carry no obligation.
// GEN-3   — an index array handed to a triangle mesh grows by a multiple of three: every append adds 3k
//           elements; a make'd length is a constant multiple of three or a product with such a constant.

import (
	"fmt"
	"go/token"
	"go/types"
	"os"
	"sort"
	"strings"

	"golang.org/x/tools/go/ssa"

	"polycheck/ssau"
)

type GenFinding struct {
	Rule   string
	Fn     *ssa.Function
	At     ssa.Instruction
	OK     bool
	Key    string
	Detail string
}

// canonExpr renders an integer expression as a canonical string.
func canonExpr(v ssa.Value, depth int) string {
	if depth > 12 {
		return "?"
	}
	switch x := v.(type) {
	case *ssa.Const:
		if x.Value != nil {
			return x.Value.ExactString()
		}
		return "nil"
	case *ssa.Parameter:
		return "param:" + x.Name()
	case *ssa.BinOp:
		a, b := canonExpr(x.X, depth+1), canonExpr(x.Y, depth+1)
		if x.Op == token.ADD || x.Op == token.MUL {
			if a > b {
				a, b = b, a
			}
		}
		return "(" + x.Op.String() + " " + a + " " + b + ")"
	case *ssa.Convert:
		return canonExpr(x.X, depth+1)
	case *ssa.ChangeType:
		return canonExpr(x.X, depth+1)
	case *ssa.UnOp:
		if x.Op == token.MUL {
			// field of a spilled struct parameter / local: access path
			switch a := x.X.(type) {
			case *ssa.FieldAddr:
				return "load(" + canonAddr(a, depth+1) + ")"
			case *ssa.Alloc:
				// single-assignment local
				var vals []string
				for _, r := range ssau.Refs(a) {
					if st, ok := r.(*ssa.Store); ok && st.Addr == a {
						vals = append(vals, canonExpr(st.Val, depth+1))
					}
				}
				if len(vals) == 1 {
					return vals[0]
				}
			}
		}
		return "unop:" + x.Name()
	case *ssa.Call:
		if b := ssau.Builtin(x); b == "len" && len(x.Call.Args) == 1 {
			return "len(" + canonExpr(x.Call.Args[0], depth+1) + ")"
		}
		if o := ssau.CalleeObj(x); o != nil {
			var args []string
			for _, a := range x.Call.Args {
				args = append(args, canonExpr(a, depth+1))
			}
			return o.FullName() + "(" + strings.Join(args, ",") + ")"
		}
	case *ssa.Phi:
		return "phi:" + x.Name() + "@" + fmt.Sprint(x.Block().Index)
	}
	return "v:" + v.Name()
}

func canonAddr(fa *ssa.FieldAddr, depth int) string {
	f := ssau.FieldOf(fa)
	name := "?"
	if f != nil {
		name = f.Name()
	}
	switch b := fa.X.(type) {
	case *ssa.FieldAddr:
		return canonAddr(b, depth+1) + "." + name
	case *ssa.Alloc:
		// spilled parameter?
		for _, r := range ssau.Refs(b) {
			if st, ok := r.(*ssa.Store); ok && st.Addr == b {
				if p, ok := st.Val.(*ssa.Parameter); ok {
					return "param:" + p.Name() + "." + name
				}
			}
		}
		return "local:" + b.Comment + "." + name
	case *ssa.Parameter:
		return "param:" + b.Name() + "." + name
	case *ssa.UnOp:
		return canonExpr(b, depth+1) + "." + name
	}
	return fa.X.Name() + "." + name
}

// gpoly: a small integer polynomial over canonical atoms (key = sorted atoms joined by '*', "" = constant).
type gpoly map[string]int64

func gconst(k int64) gpoly { return gpoly{"": k} }

func (a gpoly) add(b gpoly, sign int64) gpoly {
	out := gpoly{}
	for k, v := range a {
		out[k] += v
	}
	for k, v := range b {
		out[k] += sign * v
	}
	for k, v := range out {
		if v == 0 {
			delete(out, k)
		}
	}
	return out
}

func (a gpoly) mul(b gpoly) gpoly {
	out := gpoly{}
	for k1, v1 := range a {
		for k2, v2 := range b {
			var atoms []string
			if k1 != "" {
				atoms = append(atoms, strings.Split(k1, "*")...)
			}
			if k2 != "" {
				atoms = append(atoms, strings.Split(k2, "*")...)
			}
			sort.Strings(atoms)
			out[strings.Join(atoms, "*")] += v1 * v2
		}
	}
	for k, v := range out {
		if v == 0 {
			delete(out, k)
		}
	}
	return out
}

func (a gpoly) String() string {
	var keys []string
	for k := range a {
		keys = append(keys, k)
	}
	sort.Strings(keys)
	var parts []string
	for _, k := range keys {
		if k == "" {
			parts = append(parts, fmt.Sprint(a[k]))
		} else {
			parts = append(parts, fmt.Sprintf("%d·%s", a[k], k))
		}
	}
	if len(parts) == 0 {
		return "0"
	}
	return strings.Join(parts, " + ")
}

func (a gpoly) equal(b gpoly) bool { return len(a.add(b, -1)) == 0 }

// polyOf: integer expression as a polynomial; anything that is not +,−,×,constant becomes an atom.
func polyOf(v ssa.Value, depth int) gpoly {
	if depth < 12 {
		switch x := v.(type) {
		case *ssa.Const:
			if k, ok := ssau.ConstInt(x); ok {
				return gconst(k)
			}
		case *ssa.Convert:
			return polyOf(x.X, depth+1)
		case *ssa.ChangeType:
			return polyOf(x.X, depth+1)
		case *ssa.BinOp:
			switch x.Op {
			case token.ADD:
				return polyOf(x.X, depth+1).add(polyOf(x.Y, depth+1), 1)
			case token.SUB:
				return polyOf(x.X, depth+1).add(polyOf(x.Y, depth+1), -1)
			case token.MUL:
				return polyOf(x.X, depth+1).mul(polyOf(x.Y, depth+1))
			}
		case *ssa.UnOp:
			if x.Op == token.MUL {
				if a, ok := x.X.(*ssa.Alloc); ok {
					var vals []ssa.Value
					for _, r := range ssau.Refs(a) {
						if st, ok := r.(*ssa.Store); ok && st.Addr == a {
							vals = append(vals, st.Val)
						}
					}
					if len(vals) == 1 {
						return polyOf(vals[0], depth+1)
					}
				}
			}
		}
	}
	atom := strings.ReplaceAll(canonExpr(v, 0), "*", "×")
	return gpoly{atom: 1}
}

type arrayDesc struct {
	// condSite: an append site that some iterations of its loop skip (the array is built by appends only)
	condSite *ssa.Call
	poly     gpoly
	kind     string // "make", "append", ""
	length   string // for make
	at       ssa.Instruction
	name     string
}

func describeArray(v ssa.Value, handoff ssa.Instruction) arrayDesc {
	d := arrayDesc{name: v.Name()}
	roots := aliasRoots(v)
	var makes []*ssa.MakeSlice
	var apps []*ssa.Call
	other := false
	for r := range roots {
		switch x := r.(type) {
		case *ssa.MakeSlice:
			makes = append(makes, x)
		case *ssa.Call:
			if ssau.Builtin(x) == "append" {
				apps = append(apps, x)
			} else {
				other = true
			}
		case *ssa.Slice:
			if _, ok := x.X.(*ssa.Alloc); !ok {
				if _, isSlice := x.X.Type().Underlying().(*types.Slice); !isSlice {
					other = true
				}
			}
		case *ssa.Phi, *ssa.UnOp, *ssa.ChangeType, *ssa.Convert, *ssa.Alloc:
		case *ssa.Const:
		default:
			other = true
		}
	}
	if other || len(makes) > 1 {
		return d
	}
	zeroLen := false
	if len(makes) == 1 {
		if k, ok := ssau.ConstInt(makes[0].Len); ok && k == 0 {
			zeroLen = true
		}
		d.at = makes[0]
	}
	switch {
	case len(apps) == 0 && (len(makes) == 0 || zeroLen) && cellOf(v) != nil:
		// a variable captured by a function literal that appends to it: elements per call × calls
		if total, at, ok := closureAppendTotal(cellOf(v), handoff); ok {
			d.kind = "append"
			d.poly = total
			d.length = total.String()
			d.at = at
		}
	case len(makes) == 1 && !zeroLen && len(apps) == 0:
		d.kind = "make"
		d.length = canonExpr(makes[0].Len, 0)
		d.poly = polyOf(makes[0].Len, 0)
	case len(apps) > 0 && (len(makes) == 0 || zeroLen):
		// symbolic total: Σ over append sites of (elements × Π trip counts of the enclosing loops)
		total := gpoly{}
		for _, a := range apps {
			var np gpoly
			if n := appendCount(a); n >= 0 {
				np = gconst(int64(n))
			} else if sp, ok := spreadLen(a); ok {
				np = sp
			} else {
				return d
			}
			t, ok := siteTotal(a, np, handoff)
			if !ok {
				if conditionalInLoop(a) {
					d.condSite = a
				}
				return d
			}
			total = total.add(t, 1)
			if d.at == nil || a.Pos() < d.at.Pos() {
				d.at = a
			}
		}
		d.kind = "append"
		d.poly = total
		d.length = total.String()
	}
	return d
}

// cellOf: v is the content of a local variable cell (a variable captured by a function literal).
func cellOf(v ssa.Value) *ssa.Alloc {
	for r := range aliasRoots(v) {
		if u, ok := r.(*ssa.UnOp); ok && u.Op == token.MUL {
			if a, ok := u.X.(*ssa.Alloc); ok {
				return a
			}
		}
	}
	return nil
}

// closureAppendTotal: the cell starts empty in its function and is only extended by function literals of that
// function, each of which appends a fixed number of elements on every call; total = Σ over the call sites of
// (elements per call × Π trip counts of the loops around the call).
func closureAppendTotal(cell *ssa.Alloc, handoff ssa.Instruction) (gpoly, ssa.Instruction, bool) {
	fn := cell.Parent()
	// stores in the declaring function: only the empty start value
	for _, r := range ssau.Refs(cell) {
		if st, ok := r.(*ssa.Store); ok && st.Addr == cell {
			switch x := st.Val.(type) {
			case *ssa.MakeSlice:
				if k, ok := ssau.ConstInt(x.Len); !ok || k != 0 {
					return dbgFalse(1)
				}
			case *ssa.Const:
				if !x.IsNil() {
					return dbgFalse(2)
				}
			case *ssa.Slice:
				// make([]T, 0) with constant bounds is an empty window of a new array
				al, isAlloc := x.X.(*ssa.Alloc)
				if !isAlloc {
					return dbgFalse(3)
				}
				if at, ok := al.Type().Underlying().(*types.Pointer).Elem().Underlying().(*types.Array); !ok || at.Len() != 0 {
					if x.High == nil {
						return dbgFalse(3)
					}
					if k, ok := ssau.ConstInt(x.High); !ok || k != 0 {
						return dbgFalse(3)
					}
				}
			default:
				return dbgFalse(3)
			}
		}
	}
	total := gpoly{}
	var first ssa.Instruction
	found := false
	for _, r := range ssau.Refs(cell) {
		mc, ok := r.(*ssa.MakeClosure)
		if !ok {
			continue
		}
		lit, ok := mc.Fn.(*ssa.Function)
		if !ok {
			return dbgFalse(4)
		}
		var fv *ssa.FreeVar
		for i, b := range mc.Bindings {
			if b == cell && i < len(lit.FreeVars) {
				fv = lit.FreeVars[i]
			}
		}
		if fv == nil {
			continue
		}
		// per call: every store to the captured variable is append(load(variable), k elements), unconditional, not in a loop
		per := int64(0)
		okLit := true
		stores := 0
		for _, rr := range ssau.Refs(fv) {
			st, isStore := rr.(*ssa.Store)
			if !isStore || st.Addr != fv {
				continue
			}
			stores++
			app, isCall := st.Val.(*ssa.Call)
			if !isCall || ssau.Builtin(app) != "append" {
				okLit = false
				break
			}
			base, isLoad := app.Call.Args[0].(*ssa.UnOp)
			if !isLoad || base.X != ssa.Value(fv) {
				okLit = false
				break
			}
			n := appendCount(app)
			if n < 0 || ssau.InnermostLoop(ssau.Loops(lit), st.Block()) != nil {
				okLit = false
				break
			}
			for _, b := range lit.Blocks {
				if len(b.Instrs) > 0 {
					if _, isRet := b.Instrs[len(b.Instrs)-1].(*ssa.Return); isRet && !st.Block().Dominates(b) {
						okLit = false
					}
				}
			}
			per += int64(n)
		}
		if !okLit {
			return dbgFalse(5)
		}
		if stores == 0 {
			continue // reads only
		}
		// call sites of the literal in the declaring function
		for _, rr := range ssau.Refs(mc) {
			call, isCall := rr.(*ssa.Call)
			if !isCall || call.Call.Value != ssa.Value(mc) {
				return dbgFalse(6) // the literal escapes: calls cannot be counted
			}
			t, ok := siteTotal(call, gconst(per), handoff)
			if !ok {
				return dbgFalse(7)
			}
			total = total.add(t, 1)
			found = true
			if first == nil || call.Pos() < first.Pos() {
				first = call
			}
		}
	}
	_ = fn
	if !found {
		return dbgFalse(8)
	}
	return total, first, true
}

func dbgFalse(n int) (gpoly, ssa.Instruction, bool) {
	if os.Getenv("POLYCHECK_GENDEBUG") != "" {
		fmt.Fprintf(os.Stderr, "GENDEBUG closureAppendTotal gives up at #%d\n", n)
	}
	return nil, nil, false
}

// siteTotal: how many elements the append site contributes in total, as a canonical product — only when the
// site executes unconditionally in counted / range loops whose trip counts are recognised.
func siteTotal(a *ssa.Call, n gpoly, handoff ssa.Instruction) (gpoly, bool) {
	fn := a.Parent()
	loops := ssau.Loops(fn)
	total := n
	b := a.Block()
	var enclosing []*ssau.Loop
	for _, l := range loops {
		if l.Blocks[b] {
			enclosing = append(enclosing, l)
		}
	}
	sort.Slice(enclosing, func(i, j int) bool { return len(enclosing[i].Blocks) < len(enclosing[j].Blocks) })
	inner := b
	for _, l := range enclosing {
		// unconditional within this loop: the site's block (or the inner loop's header) dominates every latch
		for _, latch := range l.Latch {
			if !inner.Dominates(latch) {
				return nil, false
			}
		}
		t, ok := tripCount(l)
		if !ok {
			return nil, false
		}
		total = total.mul(t)
		inner = l.Header
	}
	// unconditional with respect to the hand-off: executed on every path that reaches the point where the
	// array is given to the mesh (an array built and attached inside `if withUVs { … }` is fine)
	if handoff == nil || handoff.Parent() != fn || !inner.Dominates(handoff.Block()) {
		return nil, false
	}
	return total, true
}

// conditionalInLoop: the append sits in a loop and some iteration of that loop can skip it.
func conditionalInLoop(a *ssa.Call) bool {
	loops := ssau.Loops(a.Parent())
	l := ssau.InnermostLoop(loops, a.Block())
	if l == nil {
		return false
	}
	for _, latch := range l.Latch {
		if !a.Block().Dominates(latch) {
			return true
		}
	}
	return false
}

// tripCount: canonical trip count of `for i := s; i < B; i++` / `for … := range slice`.
func tripCount(l *ssau.Loop) (gpoly, bool) {
	for b := range l.Blocks {
		if len(b.Instrs) == 0 {
			continue
		}
		ifi, ok := b.Instrs[len(b.Instrs)-1].(*ssa.If)
		if !ok || (l.Blocks[b.Succs[0]] && l.Blocks[b.Succs[1]]) || !l.Blocks[b.Succs[0]] {
			continue
		}
		cmp, ok := ifi.Cond.(*ssa.BinOp)
		if !ok || (cmp.Op != token.LSS && cmp.Op != token.LEQ) {
			continue
		}
		phi, off := counterOf(cmp.X, l)
		if phi == nil {
			continue
		}
		if cmp.Op == token.LEQ {
			off-- // i <= B runs one more time than i < B
		}
		start, step := int64(0), false
		okStart := false
		for _, e := range phi.Edges {
			if k, ok := ssau.ConstInt(e); ok {
				start, okStart = k+off, true
			}
			if bo, ok := e.(*ssa.BinOp); ok && bo.Op == token.ADD && bo.X == phi {
				if k, ok := ssau.ConstInt(bo.Y); ok && k == 1 {
					step = true
				}
			}
		}
		if !okStart || !step {
			continue
		}
		return polyOf(cmp.Y, 0).add(gconst(start), -1), true
	}
	return nil, false
}

// spreadLen: append(dst, s...) where s is (one result of) a call to a repository function whose returned slice is
// a make([]T, L) with L a polynomial in len() of its slice parameters and its integer parameters: the number of
// elements added, with the callee's parameters replaced by the caller's arguments.
func spreadLen(a *ssa.Call) (gpoly, bool) {
	if len(a.Call.Args) != 2 {
		return nil, false
	}
	var call *ssa.Call
	idx := 0
	switch x := a.Call.Args[1].(type) {
	case *ssa.Extract:
		c, ok := x.Tuple.(*ssa.Call)
		if !ok {
			return nil, false
		}
		call, idx = c, x.Index
	case *ssa.Call:
		call = x
	default:
		return nil, false
	}
	callee := call.Call.StaticCallee()
	if callee == nil || len(callee.Blocks) == 0 || call.Call.IsInvoke() {
		return nil, false
	}
	bind := map[*ssa.Parameter]ssa.Value{}
	for i, p := range callee.Params {
		if i < len(call.Call.Args) {
			bind[p] = call.Call.Args[i]
		}
	}
	var res gpoly
	nret := 0
	okAll := true
	ssau.AllInstrs(callee, func(in ssa.Instruction) {
		ret, ok := in.(*ssa.Return)
		if !ok || idx >= len(ret.Results) {
			return
		}
		nret++
		var ms *ssa.MakeSlice
		n := 0
		for r := range aliasRoots(ret.Results[idx]) {
			switch y := r.(type) {
			case *ssa.MakeSlice:
				ms = y
				n++
			case *ssa.Phi, *ssa.Slice, *ssa.UnOp, *ssa.Alloc:
			default:
				n += 2
			}
		}
		if ms == nil || n != 1 {
			okAll = false
			return
		}
		// the slice must keep its made length: no append to it
		for r := range aliasRoots(ret.Results[idx]) {
			if c, ok := r.(*ssa.Call); ok && ssau.Builtin(c) == "append" {
				okAll = false
			}
		}
		l, ok := calleeLenPoly(ms.Len, bind, 0)
		if !ok {
			okAll = false
			return
		}
		if res == nil {
			res = l
		} else if !res.equal(l) {
			okAll = false
		}
	})
	if nret == 0 || !okAll || res == nil {
		return nil, false
	}
	return res, true
}

func calleeLenPoly(v ssa.Value, bind map[*ssa.Parameter]ssa.Value, depth int) (gpoly, bool) {
	if depth > 8 {
		return nil, false
	}
	switch x := v.(type) {
	case *ssa.Const:
		if k, ok := ssau.ConstInt(x); ok {
			return gconst(k), true
		}
	case *ssa.Parameter:
		if a, ok := bind[x]; ok {
			return polyOf(a, 0), true
		}
	case *ssa.Convert:
		return calleeLenPoly(x.X, bind, depth+1)
	case *ssa.BinOp:
		a, ok1 := calleeLenPoly(x.X, bind, depth+1)
		b, ok2 := calleeLenPoly(x.Y, bind, depth+1)
		if ok1 && ok2 {
			switch x.Op {
			case token.ADD:
				return a.add(b, 1), true
			case token.SUB:
				return a.add(b, -1), true
			case token.MUL:
				return a.mul(b), true
			}
		}
	case *ssa.Call:
		if ssau.Builtin(x) == "len" && len(x.Call.Args) == 1 {
			if p, ok := x.Call.Args[0].(*ssa.Parameter); ok {
				if a, ok := bind[p]; ok {
					atom := strings.ReplaceAll("len("+canonExpr(a, 0)+")", "*", "×")
					return gpoly{atom: 1}, true
				}
			}
		}
	}
	return nil, false
}

// appendCount: number of elements one append adds (-1: spread of a slice of unknown length).
func appendCount(a *ssa.Call) int {
	if len(a.Call.Args) != 2 {
		return -1
	}
	if sl, ok := a.Call.Args[1].(*ssa.Slice); ok {
		if arr, ok := sl.X.(*ssa.Alloc); ok {
			if at, ok := arr.Type().Underlying().(*types.Pointer).Elem().Underlying().(*types.Array); ok {
				return int(at.Len())
			}
		}
	}
	return -1
}

// Generators analyses the given functions.
func Generators(fns []*ssa.Function, modelingPath string) []GenFinding {
	var out []GenFinding
	for _, fn := range fns {
		// attribute arrays per mesh chain
		type handed struct {
			v  ssa.Value
			at ssa.Instruction
		}
		groups := map[ssa.Value][]handed{} // chain root -> arrays
		chainRoot := func(c *ssa.Call) ssa.Value {
			cur := ssa.Value(c)
			for depth := 0; depth < 12; depth++ {
				cc, ok := cur.(*ssa.Call)
				if !ok {
					return cur
				}
				o := ssau.CalleeObj(cc)
				if o != nil && ssau.IsMethod(o, modelingPath, "Mesh", o.Name()) && len(cc.Call.Args) > 0 {
					cur = cc.Call.Args[0]
					continue
				}
				return cur
			}
			return cur
		}
		addMapArrays := func(root ssa.Value, m ssa.Value, at ssa.Instruction) {
			for r := range aliasRootsMap(m) {
				for _, ref := range ssau.Refs(r) {
					if mu, ok := ref.(*ssa.MapUpdate); ok && mu.Map == r {
						groups[root] = append(groups[root], handed{mu.Value, mu})
					}
				}
			}
		}
		ssau.AllInstrs(fn, func(in ssa.Instruction) {
			c, ok := in.(*ssa.Call)
			if !ok {
				return
			}
			o := ssau.CalleeObj(c)
			if o == nil {
				return
			}
			name := o.Name()
			switch {
			case ssau.IsMethod(o, modelingPath, "Mesh", name) && strings.HasPrefix(name, "SetFloat") && strings.HasSuffix(name, "Data") && len(c.Call.Args) == 2:
				addMapArrays(chainRoot(c), c.Call.Args[1], c)
			case ssau.IsMethod(o, modelingPath, "Mesh", name) && strings.HasPrefix(name, "SetFloat") && strings.HasSuffix(name, "Attribute") && len(c.Call.Args) == 3:
				groups[chainRoot(c)] = append(groups[chainRoot(c)], handed{c.Call.Args[2], c})
			case ssau.IsFunc(o, modelingPath, "NewPointCloud") || ssau.IsFunc(o, modelingPath, "NewLineStripMesh"):
				for _, a := range c.Call.Args {
					if _, isMap := a.Type().Underlying().(*types.Map); isMap {
						addMapArrays(c, a, c)
					}
				}
			}
			// GEN-3
			var idx ssa.Value
			switch {
			case ssau.IsFunc(o, modelingPath, "NewTriangleMesh") && len(c.Call.Args) == 1:
				idx = c.Call.Args[0]
			case ssau.IsFunc(o, modelingPath, "NewMesh") && len(c.Call.Args) == 2:
				if k, ok := c.Call.Args[0].(*ssa.Const); ok && k.Value != nil && k.Value.ExactString() == "0" {
					idx = c.Call.Args[1] // TriangleTopology is the zero value of the enum (checked by the caller of this rule)
				}
			}
			if idx != nil {
				for r := range aliasRoots(idx) {
					switch x := r.(type) {
					case *ssa.Call:
						if ssau.Builtin(x) != "append" {
							continue
						}
						n := appendCount(x)
						if n < 0 {
							continue
						}
						ok := n%3 == 0
						d := fmt.Sprintf("append adds %d indices", n)
						if !ok {
							d += " — not a multiple of three: the triangle index array loses its alignment"
						}
						out = append(out, GenFinding{Rule: "GEN-3", Fn: fn, At: x, OK: ok, Key: "append", Detail: d})
					case *ssa.MakeSlice:
						if k, ok := ssau.ConstInt(x.Len); ok {
							out = append(out, GenFinding{Rule: "GEN-3", Fn: fn, At: x, OK: k%3 == 0, Key: "make", Detail: fmt.Sprintf("index array made with constant length %d", k)})
						} else if b, ok := x.Len.(*ssa.BinOp); ok && b.Op == token.MUL {
							for _, f := range []ssa.Value{b.X, b.Y} {
								if k, ok := ssau.ConstInt(f); ok {
									okk := k%3 == 0
									d := fmt.Sprintf("index array made with length … × %d", k)
									out = append(out, GenFinding{Rule: "GEN-3", Fn: fn, At: x, OK: okk, Key: "make", Detail: d})
								}
							}
						}
					}
				}
			}
		})
		// GEN-LEN per group
		var roots []ssa.Value
		for r := range groups {
			roots = append(roots, r)
		}
		sort.Slice(roots, func(i, j int) bool { return roots[i].Pos() < roots[j].Pos() })
		for _, root := range roots {
			hs := groups[root]
			var ds []arrayDesc
			var conds []arrayDesc
			var condAt []ssa.Instruction
			for _, h := range hs {
				d := describeArray(h.v, h.at)
				if d.kind != "" {
					ds = append(ds, d)
				} else if d.condSite != nil {
					conds = append(conds, d)
					condAt = append(condAt, h.at)
				} else if os.Getenv("POLYCHECK_GENDEBUG") == "undesc" {
					fmt.Fprintf(os.Stderr, "GENDEBUG undescribed array in %s: %s = %s (%d handed)\n", fn.String(), h.v.Name(), h.v.String(), len(hs))
				}
			}
			// an array that grows under a per-element condition, attached unconditionally next to a sibling
			// whose element count is fixed by the loop bounds alone
			if len(ds) > 0 {
				for i, d := range conds {
					// attached in the very block in which the sibling with the fixed count is attached
					uncond := false
					for _, h := range hs {
						if h.at != condAt[i] && h.at.Block() == condAt[i].Block() {
							if dd := describeArray(h.v, h.at); dd.kind != "" {
								uncond = true
							}
						}
					}
					if !uncond {
						continue
					}
					out = append(out, GenFinding{Rule: "GEN-LEN", Fn: fn, At: d.condSite, OK: false, Key: "conditional",
						Detail: "this array receives an element only on some iterations (the append can be skipped inside its loop) while a sibling array of the same mesh always holds " + ds[0].poly.String() + " elements, and it is attached to the mesh unconditionally: the attribute arrays differ in length whenever an element is skipped"})
				}
			}
			if len(ds) >= 2 {
				ref := ds[0]
				for _, d := range ds[1:] {
					ok := d.poly.equal(ref.poly)
					detail := "arrays of one mesh hold " + ref.poly.String() + " and " + d.poly.String() + " elements (" + ref.kind + " / " + d.kind + ": make length, or elements × loop trip counts per append site)"
					if !ok {
						detail += " — the attribute arrays of the mesh differ in length"
					}
					out = append(out, GenFinding{Rule: "GEN-LEN", Fn: fn, At: d.at, OK: ok, Key: d.kind, Detail: detail})
				}
			}
		}
	}
	return out
}

// aliasRootsMap: the map allocation sites a map value may denote (through phis and local cells).
func aliasRootsMap(m ssa.Value) map[ssa.Value]bool {
	out := map[ssa.Value]bool{}
	var walk func(x ssa.Value)
	walk = func(x ssa.Value) {
		if x == nil || out[x] {
			return
		}
		switch y := x.(type) {
		case *ssa.MakeMap:
			out[y] = true
		case *ssa.Phi:
			out[y] = false
			for _, e := range y.Edges {
				walk(e)
			}
		case *ssa.UnOp:
			if a, ok := y.X.(*ssa.Alloc); ok && y.Op == token.MUL {
				out[y] = false
				for _, r := range ssau.Refs(a) {
					if st, ok := r.(*ssa.Store); ok && st.Addr == a {
						walk(st.Val)
					}
				}
			}
		case *ssa.ChangeType:
			walk(y.X)
		}
	}
	walk(m)
	res := map[ssa.Value]bool{}
	for k, v := range out {
		if v {
			res[k] = true
		}
	}
	return res
}
