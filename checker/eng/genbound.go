package eng

// GEN-BOUND — every index a generator emits refers to an existing vertex, decided for index formulas that are
// polynomials in the loop counters and the (loop-invariant) parameters.
//
// For an index array handed to NewTriangleMesh / NewMesh together with attribute arrays whose common length N is
// known as a polynomial (GEN-LEN's make length or Σ elements × trip counts), each emitted element e is given an
// interval [lo(e), hi(e)] of polynomials in the invariants: a loop counter ranges over [start, start+T−1] (T the
// recognised trip count), x % m over [0, m−1], +, −, × combine intervals (× needs non-negative factors). With the
// generator's own guards (`if p < K { panic }` ⇒ p ≥ K, substituted as p = K + p′, p′ ≥ 0; unguarded counts are
// taken ≥ 0) the obligation N − hi(e) − 1 ≥ 0 and lo(e) ≥ 0 HOLDS when every coefficient of the shifted
// polynomial is non-negative (a sufficient syntactic certificate, no solver). When the certificate fails and the
// interval is exact (every loop counter occurs once in e, so all counters reach their maxima together) the
// polynomial is evaluated on a small grid of parameter values that satisfy the guards and make the enclosing
// loops run: a grid point with N − hi(e) − 1 < 0 is a concrete parameterisation whose mesh has an index past the
// vertex array — a VIOLATION with that witness. Anything else (no certificate, no witness, or a formula outside
// the polynomial fragment) is left undecided and carries no obligation (reported as "not covered" in a note):
// the rule decides what it can prove either way and stays silent elsewhere.

import (
	"fmt"
	"go/token"
	"go/types"
	"os"
	"sort"
	"strings"

	"golang.org/x/tools/go/ssa"

	"polycheck/ssau"
)

type gival struct {
	lo, hi   gpoly
	counters map[*ssa.Phi]int
	inexact  bool
}

type gbound struct {
	fn     *ssa.Function
	loops  []*ssau.Loop
	inLoop map[*ssa.BasicBlock]bool
	trips  map[*ssa.Phi]gpoly // trip counts of the counters used
	lb     map[string]int64
	// case split over boolean parameters that select loop bounds / index values
	boolEnv  map[*ssa.Parameter]bool
	needBool map[*ssa.Parameter]bool
	// refinements of counters valid on the edge being evaluated (p == hi excluded, p == c fixed)
	refine map[*ssa.Phi]gival
}

func newGBound(fn *ssa.Function) *gbound {
	g := &gbound{fn: fn, loops: ssau.Loops(fn), inLoop: map[*ssa.BasicBlock]bool{}, trips: map[*ssa.Phi]gpoly{},
		boolEnv: map[*ssa.Parameter]bool{}, needBool: map[*ssa.Parameter]bool{}, refine: map[*ssa.Phi]gival{}}
	for _, l := range g.loops {
		for b := range l.Blocks {
			g.inLoop[b] = true
		}
	}
	return g
}

func exact(p gpoly) gival { return gival{lo: p, hi: p, counters: map[*ssa.Phi]int{}} }

func mergeCounters(a, b map[*ssa.Phi]int) map[*ssa.Phi]int {
	out := map[*ssa.Phi]int{}
	for k, v := range a {
		out[k] += v
	}
	for k, v := range b {
		out[k] += v
	}
	return out
}

// counterRange: phi is the counter of its loop: (start, trip count).
func (g *gbound) counterRange(phi *ssa.Phi) (int64, gpoly, bool) {
	for _, l := range g.loops {
		if l.Header != phi.Block() {
			continue
		}
		// the exit comparison must be on this very phi
		for b := range l.Blocks {
			if len(b.Instrs) == 0 {
				continue
			}
			ifi, ok := b.Instrs[len(b.Instrs)-1].(*ssa.If)
			if !ok || (l.Blocks[b.Succs[0]] && l.Blocks[b.Succs[1]]) || !l.Blocks[b.Succs[0]] {
				continue
			}
			cmp, ok := ifi.Cond.(*ssa.BinOp)
			if !ok || (cmp.Op != token.LSS && cmp.Op != token.LEQ) {
				continue
			}
			p2, off := counterOf(cmp.X, l)
			if p2 != phi {
				continue
			}
			start := int64(0)
			okStart := false
			step := false
			for _, e := range phi.Edges {
				if k, ok := ssau.ConstInt(e); ok {
					start, okStart = k, true
				}
				if bo, ok := e.(*ssa.BinOp); ok && bo.Op == token.ADD && bo.X == phi {
					if k, ok := ssau.ConstInt(bo.Y); ok && k == 1 {
						step = true
					}
				}
			}
			if !okStart || !step {
				return 0, nil, false
			}
			bound, ok := g.polyInv(cmp.Y, 0)
			if !ok {
				return 0, nil, false
			}
			// trip count: (bound − (start+off)) for <, one more for <=
			t := bound.add(gconst(start+off), -1)
			if cmp.Op == token.LEQ {
				t = t.add(gconst(1), 1)
			}
			return start, t, true
		}
	}
	return 0, nil, false
}

// boolParamOf: v is a boolean parameter or its negation → (param, polarity).
func boolParamOf(v ssa.Value) (*ssa.Parameter, bool, bool) {
	pol := true
	for depth := 0; depth < 4; depth++ {
		switch x := v.(type) {
		case *ssa.Parameter:
			if b, ok := x.Type().Underlying().(*types.Basic); ok && b.Info()&types.IsBoolean != 0 {
				return x, pol, true
			}
			return nil, false, false
		case *ssa.UnOp:
			if x.Op == token.NOT {
				pol = !pol
				v = x.X
				continue
			}
			return nil, false, false
		default:
			return nil, false, false
		}
	}
	return nil, false, false
}

type edgeCond struct {
	cond ssa.Value
	val  bool
}

func lastIf(b *ssa.BasicBlock) *ssa.If {
	if b == nil || len(b.Instrs) == 0 {
		return nil
	}
	ifi, _ := b.Instrs[len(b.Instrs)-1].(*ssa.If)
	return ifi
}

// condsOnEdge: branch outcomes known on the i-th incoming edge of phi (structured ifs between the φ's dominator
// and the predecessor).
func condsOnEdge(phi *ssa.Phi, i int) []edgeCond {
	var out []edgeCond
	blk := phi.Block()
	pred := blk.Preds[i]
	if ifi := lastIf(pred); ifi != nil {
		if pred.Succs[0] == blk && pred.Succs[1] != blk {
			out = append(out, edgeCond{ifi.Cond, true})
		} else if pred.Succs[1] == blk && pred.Succs[0] != blk {
			out = append(out, edgeCond{ifi.Cond, false})
		}
	}
	stop := blk.Idom()
	for x := pred; x != nil && x != stop; {
		p := x.Idom()
		if p == nil {
			break
		}
		if ifi := lastIf(p); ifi != nil {
			if p.Succs[0] == x && p.Succs[1] != x {
				out = append(out, edgeCond{ifi.Cond, true})
			} else if p.Succs[1] == x && p.Succs[0] != x {
				out = append(out, edgeCond{ifi.Cond, false})
			}
		}
		x = p
	}
	return out
}

// selectByBool: phi is selected by boolean parameters only; returns the edge value valid under boolEnv.
// ok=false with needBool filled when an assignment is missing.
func (g *gbound) selectByBool(phi *ssa.Phi) (ssa.Value, bool) {
	var chosen ssa.Value
	n := 0
	for i, e := range phi.Edges {
		feasible := true
		for _, c := range condsOnEdge(phi, i) {
			bp, pol, ok := boolParamOf(c.cond)
			if !ok {
				return nil, false
			}
			want := c.val == pol // value the parameter must have
			have, assigned := g.boolEnv[bp]
			if !assigned {
				g.needBool[bp] = true
				return nil, false
			}
			if have != want {
				feasible = false
			}
		}
		if feasible {
			chosen = e
			n++
		}
	}
	if n != 1 {
		return nil, false
	}
	return chosen, true
}

// polyInv: polynomial of a loop-invariant integer expression; φs selected by boolean parameters are resolved
// under the current case (boolEnv).
func (g *gbound) polyInv(v ssa.Value, depth int) (gpoly, bool) {
	if depth > 10 {
		return nil, false
	}
	switch x := v.(type) {
	case *ssa.Phi:
		e, ok := g.selectByBool(x)
		if !ok {
			return nil, false
		}
		return g.polyInv(e, depth+1)
	case *ssa.BinOp:
		a, ok1 := g.polyInv(x.X, depth+1)
		b, ok2 := g.polyInv(x.Y, depth+1)
		if !ok1 || !ok2 {
			return nil, false
		}
		switch x.Op {
		case token.ADD:
			return a.add(b, 1), true
		case token.SUB:
			return a.add(b, -1), true
		case token.MUL:
			return a.mul(b), true
		}
		return nil, false
	case *ssa.Convert:
		return g.polyInv(x.X, depth+1)
	case *ssa.UnOp:
		if x.Op == token.MUL {
			if a, ok := x.X.(*ssa.Alloc); ok {
				var vals []ssa.Value
				for _, r := range ssau.Refs(a) {
					if st, ok := r.(*ssa.Store); ok && st.Addr == a {
						vals = append(vals, st.Val)
					}
				}
				if len(vals) == 1 {
					return g.polyInv(vals[0], depth+1)
				}
				return nil, false
			}
		}
	}
	if !g.invariantExpr(v, 0) {
		return nil, false
	}
	return polyOf(v, 0), true
}

// invariantExpr: v is built from parameters, constants, configuration fields of parameters and len() of
// parameters only (recomputing it in a loop header gives the same value every time).
func (g *gbound) invariantExpr(v ssa.Value, depth int) bool {
	if depth > 10 {
		return false
	}
	switch x := v.(type) {
	case *ssa.Parameter, *ssa.Const, *ssa.FreeVar:
		return true
	case *ssa.Phi:
		if g.inLoop[x.Block()] {
			return false
		}
		for i, e := range x.Edges {
			for _, c := range condsOnEdge(x, i) {
				if _, _, ok := boolParamOf(c.cond); !ok {
					return false
				}
			}
			if !g.invariantExpr(e, depth+1) {
				return false
			}
		}
		return true
	case *ssa.BinOp:
		return g.invariantExpr(x.X, depth+1) && g.invariantExpr(x.Y, depth+1)
	case *ssa.Convert:
		return g.invariantExpr(x.X, depth+1)
	case *ssa.ChangeType:
		return g.invariantExpr(x.X, depth+1)
	case *ssa.Field:
		return g.invariantExpr(x.X, depth+1)
	case *ssa.UnOp:
		if x.Op == token.MUL {
			if fa, ok := x.X.(*ssa.FieldAddr); ok {
				switch b := fa.X.(type) {
				case *ssa.Parameter:
					return true
				case *ssa.Alloc:
					// spilled value parameter: exactly one store, of a parameter
					n := 0
					isParam := false
					for _, r := range ssau.Refs(b) {
						if st, ok := r.(*ssa.Store); ok && st.Addr == b {
							n++
							_, isParam = st.Val.(*ssa.Parameter)
						}
					}
					return n == 1 && isParam
				}
			}
			if a, ok := x.X.(*ssa.Alloc); ok {
				var vals []ssa.Value
				for _, r := range ssau.Refs(a) {
					if st, ok := r.(*ssa.Store); ok && st.Addr == a {
						vals = append(vals, st.Val)
					}
				}
				return len(vals) == 1 && g.invariantExpr(vals[0], depth+1)
			}
			return false
		}
		return g.invariantExpr(x.X, depth+1)
	case *ssa.Call:
		if ssau.Builtin(x) == "len" && len(x.Call.Args) == 1 {
			_, isParam := x.Call.Args[0].(*ssa.Parameter)
			return isParam
		}
	}
	if in, ok := v.(ssa.Instruction); ok {
		if _, isPhi := v.(*ssa.Phi); !isPhi && !g.inLoop[in.Block()] {
			return true
		}
	}
	return false
}

func (g *gbound) invariant(v ssa.Value) bool {
	switch x := v.(type) {
	case *ssa.Parameter, *ssa.Const, *ssa.FreeVar:
		return true
	case ssa.Instruction:
		if _, isPhi := v.(*ssa.Phi); isPhi {
			return false
		}
		return !g.inLoop[x.Block()]
	}
	return false
}

const maxCands = 24

func one(v gival) []gival { return []gival{v} }

// combine applies f to every pair of candidates.
func combine(as, bs []gival, f func(a, b gival) (gival, bool)) ([]gival, bool) {
	if len(as)*len(bs) > maxCands {
		return nil, false
	}
	var out []gival
	for _, a := range as {
		for _, b := range bs {
			r, ok := f(a, b)
			if !ok {
				return nil, false
			}
			out = append(out, r)
		}
	}
	return out, true
}

// rangeOf: the candidate intervals of an integer value (one per feasible combination of φ edges).
func (g *gbound) rangeOf(v ssa.Value, depth int) ([]gival, bool) {
	if depth > 14 {
		return nil, false
	}
	switch x := v.(type) {
	case *ssa.Const:
		if k, ok := ssau.ConstInt(x); ok {
			return one(exact(gconst(k))), true
		}
		return nil, false
	case *ssa.Convert:
		return g.rangeOf(x.X, depth+1)
	case *ssa.ChangeType:
		return g.rangeOf(x.X, depth+1)
	case *ssa.Parameter:
		if b, ok := x.Type().Underlying().(*types.Basic); ok && b.Info()&types.IsInteger != 0 {
			return one(exact(polyOf(x, 0))), true
		}
		return nil, false
	case *ssa.Phi:
		if r, ok := g.refine[x]; ok {
			return one(r), true
		}
		if start, t, ok := g.counterRange(x); ok {
			g.trips[x] = t
			return one(gival{lo: gconst(start), hi: gconst(start).add(t, 1).add(gconst(1), -1), counters: map[*ssa.Phi]int{x: 1}}), true
		}
		if len(g.needBool) > 0 {
			return nil, false
		}
		// a join of values: one candidate per feasible edge, evaluated under what is known on that edge
		if len(x.Edges) > 4 {
			return nil, false
		}
		for _, l := range g.loops {
			if l.Header == x.Block() {
				return nil, false // loop-carried value that is not a recognised counter
			}
		}
		var out []gival
		for i, e := range x.Edges {
			feasible, inexact := true, false
			saved := map[*ssa.Phi]*gival{}
			for _, c := range condsOnEdge(x, i) {
				if bp, pol, ok := boolParamOf(c.cond); ok {
					want := c.val == pol
					have, assigned := g.boolEnv[bp]
					if !assigned {
						g.needBool[bp] = true
						feasible = false
						break
					}
					if have != want {
						feasible = false
					}
					continue
				}
				if !g.applyCond(c, saved) {
					inexact = true
				}
			}
			var cs []gival
			ok := true
			if feasible {
				cs, ok = g.rangeOf(e, depth+1)
			}
			for ph, old := range saved {
				if old == nil {
					delete(g.refine, ph)
				} else {
					g.refine[ph] = *old
				}
			}
			if len(g.needBool) > 0 {
				return nil, false
			}
			if !feasible {
				continue
			}
			if !ok {
				return nil, false
			}
			for _, c := range cs {
				c.inexact = c.inexact || inexact
				out = append(out, c)
			}
		}
		if len(out) == 0 || len(out) > maxCands {
			return nil, false
		}
		return out, true
	case *ssa.UnOp:
		if x.Op == token.MUL {
			if a, ok := x.X.(*ssa.Alloc); ok {
				var vals []ssa.Value
				for _, r := range ssau.Refs(a) {
					if st, ok := r.(*ssa.Store); ok && st.Addr == a {
						vals = append(vals, st.Val)
					}
				}
				if len(vals) == 1 {
					return g.rangeOf(vals[0], depth+1)
				}
				return nil, false
			}
			// field of a parameter (receiver configuration)
			if _, ok := x.X.(*ssa.FieldAddr); ok && g.invariantExpr(x, 0) {
				if b, ok := x.Type().Underlying().(*types.Basic); ok && b.Info()&types.IsInteger != 0 {
					return one(exact(polyOf(x, 0))), true
				}
			}
		}
		if x.Op == token.SUB {
			rs, ok := g.rangeOf(x.X, depth+1)
			if !ok {
				return nil, false
			}
			var out []gival
			for _, r := range rs {
				out = append(out, gival{lo: gpoly{}.add(r.hi, -1), hi: gpoly{}.add(r.lo, -1), counters: r.counters, inexact: r.inexact})
			}
			return out, true
		}
		return nil, false
	case *ssa.Field:
		if g.invariant(x) {
			if b, ok := x.Type().Underlying().(*types.Basic); ok && b.Info()&types.IsInteger != 0 {
				return one(exact(polyOf(x, 0))), true
			}
		}
		return nil, false
	case *ssa.Call:
		if ssau.Builtin(x) == "len" && len(x.Call.Args) == 1 {
			if _, isParam := x.Call.Args[0].(*ssa.Parameter); isParam {
				return one(exact(polyOf(x, 0))), true
			}
		}
		return nil, false
	case *ssa.BinOp:
		as, ok1 := g.rangeOf(x.X, depth+1)
		if !ok1 {
			return nil, false
		}
		bs, ok2 := g.rangeOf(x.Y, depth+1)
		if !ok2 {
			return nil, false
		}
		switch x.Op {
		case token.ADD:
			return combine(as, bs, func(a, b gival) (gival, bool) {
				return gival{lo: a.lo.add(b.lo, 1), hi: a.hi.add(b.hi, 1), counters: mergeCounters(a.counters, b.counters), inexact: a.inexact || b.inexact}, true
			})
		case token.SUB:
			return combine(as, bs, func(a, b gival) (gival, bool) {
				return gival{lo: a.lo.add(b.hi, -1), hi: a.hi.add(b.lo, -1), counters: mergeCounters(a.counters, b.counters), inexact: a.inexact || b.inexact}, true
			})
		case token.MUL:
			return combine(as, bs, func(a, b gival) (gival, bool) {
				if !nonNegCoeffs(shiftPoly(a.lo, g.lb)) || !nonNegCoeffs(shiftPoly(b.lo, g.lb)) {
					return gival{}, false
				}
				return gival{lo: a.lo.mul(b.lo), hi: a.hi.mul(b.hi), counters: mergeCounters(a.counters, b.counters),
					inexact: a.inexact || b.inexact || !(len(a.counters) == 0 || len(b.counters) == 0)}, true
			})
		case token.REM:
			return combine(as, bs, func(a, b gival) (gival, bool) {
				if len(b.counters) != 0 {
					return gival{}, false
				}
				// x % m ∈ [0, m−1] for x ≥ 0; exact when x runs over a whole period
				span := a.hi.add(a.lo, -1).add(gconst(1), 1)
				ex := !a.inexact && len(a.counters) == 1 && span.equal(b.lo)
				return gival{lo: gconst(0), hi: b.hi.add(gconst(1), -1), counters: mergeCounters(a.counters, b.counters), inexact: a.inexact || b.inexact || !ex}, true
			})
		}
	}
	return nil, false
}

// applyCond narrows a counter under a branch outcome known on the edge: c == e (counter fixed), c != hi
// (hi excluded), c != lo (lo excluded). Returns false when the condition is not understood (the candidate is then
// not exact: its feasibility is unknown).
func (g *gbound) applyCond(c edgeCond, saved map[*ssa.Phi]*gival) bool {
	b, ok := c.cond.(*ssa.BinOp)
	if !ok || (b.Op != token.EQL && b.Op != token.NEQ) {
		return false
	}
	eq := (b.Op == token.EQL) == c.val
	for _, pr := range [][2]ssa.Value{{b.X, b.Y}, {b.Y, b.X}} {
		var ph *ssa.Phi
		off := int64(0)
		switch y := pr[0].(type) {
		case *ssa.Phi:
			ph = y
		case *ssa.BinOp:
			if p2, ok := y.X.(*ssa.Phi); ok && y.Op == token.ADD {
				if k, ok := ssau.ConstInt(y.Y); ok {
					ph, off = p2, k
				}
			}
		}
		if ph == nil {
			continue
		}
		start, t, ok := g.counterRange(ph)
		if !ok {
			continue
		}
		other, ok := g.polyInv(pr[1], 0)
		if !ok {
			continue
		}
		other = other.add(gconst(off), -1) // (φ + off) ⋈ e  ⇔  φ ⋈ e − off
		cur := gival{lo: gconst(start), hi: gconst(start).add(t, 1).add(gconst(1), -1), counters: map[*ssa.Phi]int{ph: 1}}
		if r, ok := g.refine[ph]; ok {
			cur = r
		}
		g.trips[ph] = t
		if _, done := saved[ph]; !done {
			if old, had := g.refine[ph]; had {
				o := old
				saved[ph] = &o
			} else {
				saved[ph] = nil
			}
		}
		switch {
		case eq:
			g.refine[ph] = gival{lo: other, hi: other, counters: map[*ssa.Phi]int{ph: 1}}
			return true
		case other.equal(cur.hi):
			g.refine[ph] = gival{lo: cur.lo, hi: cur.hi.add(gconst(1), -1), counters: cur.counters}
			return true
		case other.equal(cur.lo):
			g.refine[ph] = gival{lo: cur.lo.add(gconst(1), 1), hi: cur.hi, counters: cur.counters}
			return true
		}
		return false
	}
	return false
}

// guardLowerBounds: `if p < K { panic }` / `if p <= K { panic }` (true branch never returns) ⇒ atom ≥ K(+1).
func guardLowerBounds(fn *ssa.Function) map[string]int64 {
	out := map[string]int64{}
	for _, b := range fn.Blocks {
		if len(b.Instrs) == 0 {
			continue
		}
		ifi, ok := b.Instrs[len(b.Instrs)-1].(*ssa.If)
		if !ok {
			continue
		}
		cmp, ok := ifi.Cond.(*ssa.BinOp)
		if !ok {
			continue
		}
		// the true branch must end in panic without rejoining
		tb := b.Succs[0]
		panics := false
		for steps := 0; steps < 6 && tb != nil; steps++ {
			last := tb.Instrs[len(tb.Instrs)-1]
			if _, ok := last.(*ssa.Panic); ok {
				panics = true
				break
			}
			if j, ok := last.(*ssa.Jump); ok {
				_ = j
				tb = tb.Succs[0]
				continue
			}
			break
		}
		if !panics {
			continue
		}
		k, okK := ssau.ConstInt(cmp.Y)
		if !okK {
			continue
		}
		p := polyOf(cmp.X, 0)
		if len(p) != 1 {
			continue
		}
		var atom string
		for a, c := range p {
			if c == 1 && a != "" && !strings.Contains(a, "*") {
				atom = a
			}
		}
		if atom == "" {
			continue
		}
		switch cmp.Op {
		case token.LSS:
			if k > out[atom] {
				out[atom] = k
			}
		case token.LEQ:
			if k+1 > out[atom] {
				out[atom] = k + 1
			}
		}
	}
	return out
}

// shiftPoly substitutes atom := atom + K for every guarded atom.
func shiftPoly(p gpoly, lb map[string]int64) gpoly {
	out := gpoly{}
	for term, c := range p {
		acc := gconst(c)
		if term != "" {
			for _, a := range strings.Split(term, "*") {
				f := gpoly{a: 1}
				if k := lb[a]; k != 0 {
					f[""] = k
				}
				acc = acc.mul(f)
			}
		}
		out = out.add(acc, 1)
	}
	return out
}

func nonNegCoeffs(p gpoly) bool {
	for _, c := range p {
		if c < 0 {
			return false
		}
	}
	return true
}

func polyAtoms(ps ...gpoly) []string {
	set := map[string]bool{}
	for _, p := range ps {
		for term := range p {
			if term == "" {
				continue
			}
			for _, a := range strings.Split(term, "*") {
				set[a] = true
			}
		}
	}
	var out []string
	for a := range set {
		out = append(out, a)
	}
	sort.Strings(out)
	return out
}

func evalPoly(p gpoly, env map[string]int64) int64 {
	var s int64
	for term, c := range p {
		v := c
		if term != "" {
			for _, a := range strings.Split(term, "*") {
				v *= env[a]
			}
		}
		s += v
	}
	return s
}

type BoundFinding struct {
	Fn      *ssa.Function
	At      ssa.Instruction
	Key     string
	OK      bool
	Decided bool
	Detail  string
}

// indexElements: the values stored as elements of the index array idx (append sites and indexed stores).
func indexElements(idx ssa.Value) (elems []ssa.Value, sites []ssa.Instruction, complete bool) {
	complete = true
	for r := range aliasRoots(idx) {
		switch x := r.(type) {
		case *ssa.Call:
			if ssau.Builtin(x) != "append" {
				complete = false
				continue
			}
			sl, ok := x.Call.Args[1].(*ssa.Slice)
			if !ok {
				complete = false
				continue
			}
			arr, ok := sl.X.(*ssa.Alloc)
			if !ok {
				complete = false
				continue
			}
			for _, ref := range ssau.Refs(arr) {
				if ia, ok := ref.(*ssa.IndexAddr); ok {
					for _, rr := range ssau.Refs(ia) {
						if st, ok := rr.(*ssa.Store); ok && st.Addr == ia {
							elems = append(elems, st.Val)
							sites = append(sites, x)
						}
					}
				}
			}
		case *ssa.MakeSlice:
			for _, ref := range ssau.Refs(x) {
				if ia, ok := ref.(*ssa.IndexAddr); ok {
					for _, rr := range ssau.Refs(ia) {
						if st, ok := rr.(*ssa.Store); ok && st.Addr == ia {
							elems = append(elems, st.Val)
							sites = append(sites, st)
						}
					}
				}
			}
		case *ssa.Phi, *ssa.Const, *ssa.Slice, *ssa.Alloc, *ssa.UnOp:
		default:
			complete = false
		}
	}
	return
}

// GeneratorBounds decides GEN-BOUND for fn's meshes.
func GeneratorBounds(fn *ssa.Function, modelingPath string) (out []BoundFinding, notCovered int) {
	type mesh struct {
		ctor *ssa.Call
		idx  ssa.Value
		arrs []ssa.Value
		at   []ssa.Instruction
	}
	meshes := map[*ssa.Call]*mesh{}
	chainRoot := func(c *ssa.Call) ssa.Value {
		cur := ssa.Value(c)
		for depth := 0; depth < 12; depth++ {
			cc, ok := cur.(*ssa.Call)
			if !ok {
				return cur
			}
			o := ssau.CalleeObj(cc)
			if o != nil && ssau.IsMethod(o, modelingPath, "Mesh", o.Name()) && len(cc.Call.Args) > 0 {
				cur = cc.Call.Args[0]
				continue
			}
			return cur
		}
		return cur
	}
	get := func(root ssa.Value) *mesh {
		c, ok := root.(*ssa.Call)
		if !ok {
			return nil
		}
		o := ssau.CalleeObj(c)
		if o == nil {
			return nil
		}
		var idx ssa.Value
		switch {
		case ssau.IsFunc(o, modelingPath, "NewTriangleMesh") && len(c.Call.Args) == 1:
			idx = c.Call.Args[0]
		case ssau.IsFunc(o, modelingPath, "NewMesh") && len(c.Call.Args) == 2:
			idx = c.Call.Args[1]
		default:
			return nil
		}
		if meshes[c] == nil {
			meshes[c] = &mesh{ctor: c, idx: idx}
		}
		return meshes[c]
	}
	ssau.AllInstrs(fn, func(in ssa.Instruction) {
		c, ok := in.(*ssa.Call)
		if !ok {
			return
		}
		o := ssau.CalleeObj(c)
		if o == nil {
			return
		}
		name := o.Name()
		switch {
		case ssau.IsMethod(o, modelingPath, "Mesh", name) && strings.HasPrefix(name, "SetFloat") && strings.HasSuffix(name, "Data") && len(c.Call.Args) == 2:
			if m := get(chainRoot(c)); m != nil {
				for r := range aliasRootsMap(c.Call.Args[1]) {
					for _, ref := range ssau.Refs(r) {
						if mu, ok := ref.(*ssa.MapUpdate); ok && mu.Map == r {
							m.arrs = append(m.arrs, mu.Value)
							m.at = append(m.at, c)
						}
					}
				}
			}
		case ssau.IsMethod(o, modelingPath, "Mesh", name) && strings.HasPrefix(name, "SetFloat") && strings.HasSuffix(name, "Attribute") && len(c.Call.Args) == 3:
			if m := get(chainRoot(c)); m != nil {
				m.arrs = append(m.arrs, c.Call.Args[2])
				m.at = append(m.at, c)
			}
		}
	})
	var ctors []*ssa.Call
	for c := range meshes {
		ctors = append(ctors, c)
	}
	sort.Slice(ctors, func(i, j int) bool { return ctors[i].Pos() < ctors[j].Pos() })
	lb := guardLowerBounds(fn)
	for _, c := range ctors {
		m := meshes[c]
		var N gpoly
		for i, a := range m.arrs {
			d := describeArray(a, m.at[i])
			if d.kind != "" {
				N = d.poly
				break
			}
		}
		if N == nil {
			notCovered++
			continue
		}
		elems, sites, _ := indexElements(m.idx)
		per := map[ssa.Instruction]int{}
		for i, e := range elems {
			per[sites[i]]++
			key := fmt.Sprintf("%d", per[sites[i]])
			if ok, detail := ancestorLenForm(e, m.arrs); ok {
				out = append(out, BoundFinding{Fn: fn, At: sites[i], Key: key, OK: true, Decided: true, Detail: detail})
				continue
			}
			// case split over the boolean parameters that select bounds / values
			cases := []map[*ssa.Parameter]bool{{}}
			var all []gival
			var allCase []map[*ssa.Parameter]bool
			var allTrips []map[*ssa.Phi]gpoly
			covered := true
			for ci := 0; ci < len(cases) && covered; ci++ {
				g := newGBound(fn)
				g.lb = lb
				g.boolEnv = cases[ci]
				rs, ok := g.rangeOf(e, 0)
				if len(g.needBool) > 0 {
					if len(cases[ci]) >= 3 {
						covered = false
						break
					}
					var bp *ssa.Parameter
					for p := range g.needBool {
						if bp == nil || p.Pos() < bp.Pos() {
							bp = p
						}
					}
					for _, val := range []bool{false, true} {
						nc := map[*ssa.Parameter]bool{bp: val}
						for k, v := range cases[ci] {
							nc[k] = v
						}
						cases = append(cases, nc)
					}
					continue
				}
				if !ok {
					covered = false
					if os.Getenv("POLYCHECK_GENDEBUG") != "" {
						fmt.Fprintf(os.Stderr, "GENDEBUG %s: element %s = %s outside the fragment\n", fn.Name(), e.Name(), canonExpr(e, 0))
					}
					break
				}
				// the emission site only executes when every enclosing loop runs at least once
				for _, l := range g.loops {
					if !l.Blocks[sites[i].Block()] {
						continue
					}
					for _, hi := range l.Header.Instrs {
						ph, ok := hi.(*ssa.Phi)
						if !ok {
							break
						}
						if _, t, ok := g.counterRange(ph); ok {
							g.trips[ph] = t
						}
					}
				}
				for _, r := range rs {
					all = append(all, r)
					allCase = append(allCase, cases[ci])
					allTrips = append(allTrips, g.trips)
				}
			}
			if !covered || len(all) == 0 {
				notCovered++
				continue
			}
			holds := true
			var firstDetail string
			var viol *BoundFinding
			for ri, r := range all {
				st, detail := judgeBound(r, N, lb, allTrips[ri], allCase[ri])
				if firstDetail == "" {
					firstDetail = detail
				}
				if st != 1 {
					holds = false
				}
				if st == 2 && viol == nil {
					viol = &BoundFinding{Fn: fn, At: sites[i], Key: key, OK: false, Decided: true, Detail: detail}
				}
			}
			switch {
			case holds:
				d := firstDetail
				if len(all) > 1 {
					d += fmt.Sprintf(" (and %d more cases of the branches / boolean parameters that select the value)", len(all)-1)
				}
				out = append(out, BoundFinding{Fn: fn, At: sites[i], Key: key, OK: true, Decided: true, Detail: d})
			case viol != nil:
				out = append(out, *viol)
			default:
				notCovered++
				if os.Getenv("POLYCHECK_GENDEBUG") != "" {
					for _, r := range all {
						fmt.Fprintf(os.Stderr, "GENDEBUG %s: element %s no certificate: [%s, %s] inexact=%v N=%s\n", fn.Name(), e.Name(), r.lo, r.hi, r.inexact, N)
					}
				}
			}
		}
	}
	return
}

// judgeBound: 1 = certificate (index within [0, N) for every parameterisation the guards accept), 2 = violation with
// a concrete witness, 0 = neither.
func judgeBound(r gival, N gpoly, lb0 map[string]int64, tripsOf map[*ssa.Phi]gpoly, bcase map[*ssa.Parameter]bool) (int, string) {
	// loops that enclose the emission run at least once: a trip count "atom + c" gives atom ≥ 1 − c
	lb := map[string]int64{}
	for k, v := range lb0 {
		lb[k] = v
	}
	for _, t := range tripsOf {
		var atom string
		var c int64
		ok := true
		for term, coef := range t {
			switch {
			case term == "":
				c = coef
			case coef == 1 && !strings.Contains(term, "*") && atom == "":
				atom = term
			default:
				ok = false
			}
		}
		if ok && atom != "" && 1-c > lb[atom] {
			lb[atom] = 1 - c
		}
	}
	D := shiftPoly(N.add(r.hi, -1).add(gconst(1), -1), lb)
	lo := shiftPoly(r.lo, lb)
	caseTxt := ""
	if len(bcase) > 0 {
		var ps []string
		for p, v := range bcase {
			ps = append(ps, fmt.Sprintf("%s = %v", p.Name(), v))
		}
		sort.Strings(ps)
		caseTxt = " [case " + strings.Join(ps, ", ") + "]"
	}
	if nonNegCoeffs(D) && nonNegCoeffs(lo) {
		return 1, fmt.Sprintf("index ∈ [%s, %s], vertex count %s: (count − max − 1) = %s has no negative coefficient under the guards %v%s", r.lo, r.hi, N, D, lbString(lb), caseTxt)
	}
	ex := !r.inexact
	for _, n := range r.counters {
		if n != 1 {
			ex = false
		}
	}
	if !ex {
		return 0, ""
	}
	var trips []gpoly
	for _, t := range tripsOf {
		trips = append(trips, shiftPoly(t, lb))
	}
	atoms := polyAtoms(append([]gpoly{D, lo}, trips...)...)
	free := len(atoms) <= 4
	for _, a := range atoms {
		// a witness assigns values independently: only parameters, their integer fields and the lengths of slice
		// parameters are free
		if !(strings.HasPrefix(a, "param:") || strings.HasPrefix(a, "load(param:") || strings.HasPrefix(a, "len(param:")) || strings.Count(a, "(") > 1 {
			free = false
		}
	}
	if !free {
		return 0, ""
	}
	env := map[string]int64{}
	var witness map[string]int64
	var rec func(i int)
	rec = func(i int) {
		if witness != nil {
			return
		}
		if i == len(atoms) {
			for _, t := range trips {
				if evalPoly(t, env) < 1 {
					return
				}
			}
			if evalPoly(D, env) < 0 || evalPoly(lo, env) < 0 {
				witness = map[string]int64{}
				for k, v := range env {
					witness[k] = v + lb[k]
				}
			}
			return
		}
		for v := int64(0); v <= 6; v++ {
			env[atoms[i]] = v
			rec(i + 1)
		}
	}
	rec(0)
	if witness == nil {
		return 0, ""
	}
	var ws []string
	for _, a := range atoms {
		ws = append(ws, fmt.Sprintf("%s = %d", a, witness[a]))
	}
	if evalPoly(lo, envOf(witness, lb)) < 0 && evalPoly(D, envOf(witness, lb)) >= 0 {
		return 2, fmt.Sprintf("index can be as low as %s: with %s%s (accepted by the generator's guards %s) the index is %d — a negative index", r.lo, strings.Join(ws, ", "), caseTxt, lbString(lb), evalPoly(r.lo, witness))
	}
	return 2, fmt.Sprintf("index reaches %s while the mesh has %s vertices: with %s%s the largest index is %d but only %d vertices exist — an index past the vertex arrays", r.hi, N, strings.Join(ws, ", "), caseTxt, evalPoly(r.hi, witness), evalPoly(N, witness))
}

// ancestorLenForm: e = len(S) − k with S an earlier version (append ancestor) of one of the mesh's own per-vertex
// arrays, itself the result of an append of n ≥ k elements: 0 ≤ len(S) − k < len(S) ≤ final length, because the
// arrays only grow by append.
func ancestorLenForm(e ssa.Value, arrs []ssa.Value) (bool, string) {
	sub, ok := e.(*ssa.BinOp)
	if !ok || sub.Op != token.SUB {
		return false, ""
	}
	k, ok := ssau.ConstInt(sub.Y)
	if !ok || k < 1 {
		return false, ""
	}
	lc, ok := sub.X.(*ssa.Call)
	if !ok || ssau.Builtin(lc) != "len" || len(lc.Call.Args) != 1 {
		return false, ""
	}
	S, ok := lc.Call.Args[0].(*ssa.Call)
	if !ok || ssau.Builtin(S) != "append" {
		return false, ""
	}
	if n := appendCount(S); n < int(k) {
		return false, ""
	}
	for _, a := range arrs {
		if aliasRoots(a)[S] {
			return true, fmt.Sprintf("index = len(S) − %d with S an earlier version of the mesh's own vertex array, taken right after appending ≥ %d elements: within [0, final length) because the array only grows", k, k)
		}
	}
	return false, ""
}

func envOf(witness map[string]int64, lb map[string]int64) map[string]int64 {
	out := map[string]int64{}
	for k, v := range witness {
		out[k] = v - lb[k]
	}
	return out
}

func lbString(lb map[string]int64) string {
	var ks []string
	for k := range lb {
		ks = append(ks, k)
	}
	sort.Strings(ks)
	var out []string
	for _, k := range ks {
		out = append(out, fmt.Sprintf("%s ≥ %d", k, lb[k]))
	}
	return "{" + strings.Join(out, ", ") + "}"
}
