package eng

// GEN-BOUND — every index a generator emits refers to an existing vertex, decided for index formulas that are
// polynomials in the loop counters and the (loop-invariant) parameters.
//
// For an index array handed to NewTriangleMesh / NewMesh together with attribute arrays whose common length N is
// known as a polynomial (GEN-LEN's make length or Σ elements × trip counts), each emitted element e is given an
// interval [lo(e), hi(e)] of polynomials in the invariants: a loop counter ranges over [start, start+T−1] (T the
// recognised trip count), x % m over [0, m−1], +, −, × combine intervals (× needs non-negative factors). With the
// generator's own guards (`if p < K { panic }` ⇒ p ≥ K, substituted as p = K + p′, p′ ≥ 0; unguarded counts are
// taken ≥ 0) the obligation N − hi(e) − 1 ≥ 0 and lo(e) ≥ 0 HOLDS when every coefficient of the shifted
// polynomial is non-negative (a sufficient syntactic certificate, no solver). When the certificate fails and the
// interval is exact (every loop counter occurs once in e, so all counters reach their maxima together) the
// polynomial is evaluated on a small grid of parameter values that satisfy the guards and make the enclosing
// loops run: a grid point with N − hi(e) − 1 < 0 is a concrete parameterisation whose mesh has an index past the
// vertex array — a VIOLATION with that witness. Anything else (no certificate, no witness, or a formula outside
// the polynomial fragment) is left undecided and carries no obligation (reported as "not covered" in a note):
// the rule decides what it can prove either way and stays silent elsewhere.

import (
	"fmt"
	"os"
	"go/token"
	"go/types"
	"sort"
	"strings"

	"golang.org/x/tools/go/ssa"

	"polycheck/ssau"
)

type gival struct {
	lo, hi   gpoly
	counters map[*ssa.Phi]int
	inexact  bool
}

type gbound struct {
	fn     *ssa.Function
	loops  []*ssau.Loop
	inLoop map[*ssa.BasicBlock]bool
	trips  map[*ssa.Phi]gpoly // trip counts of the counters used
	lb     map[string]int64
}

func newGBound(fn *ssa.Function) *gbound {
	g := &gbound{fn: fn, loops: ssau.Loops(fn), inLoop: map[*ssa.BasicBlock]bool{}, trips: map[*ssa.Phi]gpoly{}}
	for _, l := range g.loops {
		for b := range l.Blocks {
			g.inLoop[b] = true
		}
	}
	return g
}

func exact(p gpoly) gival { return gival{lo: p, hi: p, counters: map[*ssa.Phi]int{}} }

func mergeCounters(a, b map[*ssa.Phi]int) map[*ssa.Phi]int {
	out := map[*ssa.Phi]int{}
	for k, v := range a {
		out[k] += v
	}
	for k, v := range b {
		out[k] += v
	}
	return out
}

// counterRange: phi is the counter of its loop: (start, trip count).
func (g *gbound) counterRange(phi *ssa.Phi) (int64, gpoly, bool) {
	for _, l := range g.loops {
		if l.Header != phi.Block() {
			continue
		}
		// the exit comparison must be on this very phi
		for b := range l.Blocks {
			if len(b.Instrs) == 0 {
				continue
			}
			ifi, ok := b.Instrs[len(b.Instrs)-1].(*ssa.If)
			if !ok || (l.Blocks[b.Succs[0]] && l.Blocks[b.Succs[1]]) {
				continue
			}
			cmp, ok := ifi.Cond.(*ssa.BinOp)
			if !ok || (cmp.Op != token.LSS && cmp.Op != token.LEQ) {
				continue
			}
			p2, off := counterOf(cmp.X, l)
			if p2 != phi {
				continue
			}
			t, ok := tripCount(l)
			if !ok {
				return 0, nil, false
			}
			start := int64(0)
			okStart := false
			for _, e := range phi.Edges {
				if k, ok := ssau.ConstInt(e); ok {
					start, okStart = k, true
				}
			}
			_ = off
			if !okStart {
				return 0, nil, false
			}
			// the bound must be invariant
			if !g.invariantExpr(cmp.Y, 0) {
				return 0, nil, false
			}
			return start, t, true
		}
	}
	return 0, nil, false
}

// invariantExpr: v is built from parameters, constants, configuration fields of parameters and len() of
// parameters only (recomputing it in a loop header gives the same value every time).
func (g *gbound) invariantExpr(v ssa.Value, depth int) bool {
	if depth > 10 {
		return false
	}
	switch x := v.(type) {
	case *ssa.Parameter, *ssa.Const, *ssa.FreeVar:
		return true
	case *ssa.BinOp:
		return g.invariantExpr(x.X, depth+1) && g.invariantExpr(x.Y, depth+1)
	case *ssa.Convert:
		return g.invariantExpr(x.X, depth+1)
	case *ssa.ChangeType:
		return g.invariantExpr(x.X, depth+1)
	case *ssa.Field:
		return g.invariantExpr(x.X, depth+1)
	case *ssa.UnOp:
		if x.Op == token.MUL {
			if fa, ok := x.X.(*ssa.FieldAddr); ok {
				switch b := fa.X.(type) {
				case *ssa.Parameter:
					return true
				case *ssa.Alloc:
					// spilled value parameter: exactly one store, of a parameter
					n := 0
					isParam := false
					for _, r := range ssau.Refs(b) {
						if st, ok := r.(*ssa.Store); ok && st.Addr == b {
							n++
							_, isParam = st.Val.(*ssa.Parameter)
						}
					}
					return n == 1 && isParam
				}
			}
			if a, ok := x.X.(*ssa.Alloc); ok {
				var vals []ssa.Value
				for _, r := range ssau.Refs(a) {
					if st, ok := r.(*ssa.Store); ok && st.Addr == a {
						vals = append(vals, st.Val)
					}
				}
				return len(vals) == 1 && g.invariantExpr(vals[0], depth+1)
			}
			return false
		}
		return g.invariantExpr(x.X, depth+1)
	case *ssa.Call:
		if ssau.Builtin(x) == "len" && len(x.Call.Args) == 1 {
			_, isParam := x.Call.Args[0].(*ssa.Parameter)
			return isParam
		}
	}
	if in, ok := v.(ssa.Instruction); ok {
		if _, isPhi := v.(*ssa.Phi); !isPhi && !g.inLoop[in.Block()] {
			return true
		}
	}
	return false
}

func (g *gbound) invariant(v ssa.Value) bool {
	switch x := v.(type) {
	case *ssa.Parameter, *ssa.Const, *ssa.FreeVar:
		return true
	case ssa.Instruction:
		if _, isPhi := v.(*ssa.Phi); isPhi {
			return false
		}
		return !g.inLoop[x.Block()]
	}
	return false
}

func (g *gbound) rangeOf(v ssa.Value, depth int) (gival, bool) {
	if depth > 14 {
		return gival{}, false
	}
	switch x := v.(type) {
	case *ssa.Const:
		if k, ok := ssau.ConstInt(x); ok {
			return exact(gconst(k)), true
		}
		return gival{}, false
	case *ssa.Convert:
		return g.rangeOf(x.X, depth+1)
	case *ssa.ChangeType:
		return g.rangeOf(x.X, depth+1)
	case *ssa.Parameter:
		if b, ok := x.Type().Underlying().(*types.Basic); ok && b.Info()&types.IsInteger != 0 {
			return exact(polyOf(x, 0)), true
		}
		return gival{}, false
	case *ssa.Phi:
		start, t, ok := g.counterRange(x)
		if !ok {
			return gival{}, false
		}
		g.trips[x] = t
		return gival{lo: gconst(start), hi: gconst(start).add(t, 1).add(gconst(1), -1), counters: map[*ssa.Phi]int{x: 1}}, true
	case *ssa.UnOp:
		if x.Op == token.MUL {
			if a, ok := x.X.(*ssa.Alloc); ok {
				var vals []ssa.Value
				for _, r := range ssau.Refs(a) {
					if st, ok := r.(*ssa.Store); ok && st.Addr == a {
						vals = append(vals, st.Val)
					}
				}
				if len(vals) == 1 {
					return g.rangeOf(vals[0], depth+1)
				}
				return gival{}, false
			}
			// field of a parameter (receiver configuration)
			if _, ok := x.X.(*ssa.FieldAddr); ok && g.invariantExpr(x, 0) {
				if b, ok := x.Type().Underlying().(*types.Basic); ok && b.Info()&types.IsInteger != 0 {
					return exact(polyOf(x, 0)), true
				}
			}
		}
		if x.Op == token.SUB {
			r, ok := g.rangeOf(x.X, depth+1)
			if !ok {
				return gival{}, false
			}
			return gival{lo: gpoly{}.add(r.hi, -1), hi: gpoly{}.add(r.lo, -1), counters: r.counters, inexact: r.inexact}, true
		}
		return gival{}, false
	case *ssa.Field:
		if g.invariant(x) {
			if b, ok := x.Type().Underlying().(*types.Basic); ok && b.Info()&types.IsInteger != 0 {
				return exact(polyOf(x, 0)), true
			}
		}
		return gival{}, false
	case *ssa.Call:
		if ssau.Builtin(x) == "len" && len(x.Call.Args) == 1 {
			if _, isParam := x.Call.Args[0].(*ssa.Parameter); isParam {
				return exact(polyOf(x, 0)), true
			}
		}
		return gival{}, false
	case *ssa.BinOp:
		a, ok1 := g.rangeOf(x.X, depth+1)
		if !ok1 {
			return gival{}, false
		}
		b, ok2 := g.rangeOf(x.Y, depth+1)
		if !ok2 {
			return gival{}, false
		}
		cs := mergeCounters(a.counters, b.counters)
		inx := a.inexact || b.inexact
		switch x.Op {
		case token.ADD:
			return gival{lo: a.lo.add(b.lo, 1), hi: a.hi.add(b.hi, 1), counters: cs, inexact: inx}, true
		case token.SUB:
			return gival{lo: a.lo.add(b.hi, -1), hi: a.hi.add(b.lo, -1), counters: cs, inexact: inx}, true
		case token.MUL:
			// factors are taken non-negative; checked by the caller through lo ≥ 0 of the whole (a negative
			// factor shows up as a negative coefficient there) — to stay sound, require syntactic non-negativity
			// of both lower bounds before shifting by guards is known: deferred to the caller via `needNonNeg`.
			if !nonNegCoeffs(shiftPoly(a.lo, g.lb)) || !nonNegCoeffs(shiftPoly(b.lo, g.lb)) {
				return gival{}, false
			}
			return gival{lo: a.lo.mul(b.lo), hi: a.hi.mul(b.hi), counters: cs, inexact: inx || !(len(a.counters) == 0 || len(b.counters) == 0)}, true
		case token.REM:
			if len(b.counters) != 0 {
				return gival{}, false
			}
			// x % m ∈ [0, m−1] for x ≥ 0; exact when x runs over a whole period: one counter, unit coefficient,
			// with exactly m values (hi − lo + 1 = m)
			span := a.hi.add(a.lo, -1).add(gconst(1), 1)
			ex := !a.inexact && len(a.counters) == 1 && span.equal(b.lo)
			return gival{lo: gconst(0), hi: b.hi.add(gconst(1), -1), counters: cs, inexact: inx || !ex}, true
		}
	}
	return gival{}, false
}

// guardLowerBounds: `if p < K { panic }` / `if p <= K { panic }` (true branch never returns) ⇒ atom ≥ K(+1).
func guardLowerBounds(fn *ssa.Function) map[string]int64 {
	out := map[string]int64{}
	for _, b := range fn.Blocks {
		if len(b.Instrs) == 0 {
			continue
		}
		ifi, ok := b.Instrs[len(b.Instrs)-1].(*ssa.If)
		if !ok {
			continue
		}
		cmp, ok := ifi.Cond.(*ssa.BinOp)
		if !ok {
			continue
		}
		// the true branch must end in panic without rejoining
		tb := b.Succs[0]
		panics := false
		for steps := 0; steps < 6 && tb != nil; steps++ {
			last := tb.Instrs[len(tb.Instrs)-1]
			if _, ok := last.(*ssa.Panic); ok {
				panics = true
				break
			}
			if j, ok := last.(*ssa.Jump); ok {
				_ = j
				tb = tb.Succs[0]
				continue
			}
			break
		}
		if !panics {
			continue
		}
		k, okK := ssau.ConstInt(cmp.Y)
		if !okK {
			continue
		}
		p := polyOf(cmp.X, 0)
		if len(p) != 1 {
			continue
		}
		var atom string
		for a, c := range p {
			if c == 1 && a != "" && !strings.Contains(a, "*") {
				atom = a
			}
		}
		if atom == "" {
			continue
		}
		switch cmp.Op {
		case token.LSS:
			if k > out[atom] {
				out[atom] = k
			}
		case token.LEQ:
			if k+1 > out[atom] {
				out[atom] = k + 1
			}
		}
	}
	return out
}

// shiftPoly substitutes atom := atom + K for every guarded atom.
func shiftPoly(p gpoly, lb map[string]int64) gpoly {
	out := gpoly{}
	for term, c := range p {
		acc := gconst(c)
		if term != "" {
			for _, a := range strings.Split(term, "*") {
				f := gpoly{a: 1}
				if k := lb[a]; k != 0 {
					f[""] = k
				}
				acc = acc.mul(f)
			}
		}
		out = out.add(acc, 1)
	}
	return out
}

func nonNegCoeffs(p gpoly) bool {
	for _, c := range p {
		if c < 0 {
			return false
		}
	}
	return true
}

func polyAtoms(ps ...gpoly) []string {
	set := map[string]bool{}
	for _, p := range ps {
		for term := range p {
			if term == "" {
				continue
			}
			for _, a := range strings.Split(term, "*") {
				set[a] = true
			}
		}
	}
	var out []string
	for a := range set {
		out = append(out, a)
	}
	sort.Strings(out)
	return out
}

func evalPoly(p gpoly, env map[string]int64) int64 {
	var s int64
	for term, c := range p {
		v := c
		if term != "" {
			for _, a := range strings.Split(term, "*") {
				v *= env[a]
			}
		}
		s += v
	}
	return s
}

type BoundFinding struct {
	Fn      *ssa.Function
	At      ssa.Instruction
	Key     string
	OK      bool
	Decided bool
	Detail  string
}

// indexElements: the values stored as elements of the index array idx (append sites and indexed stores).
func indexElements(idx ssa.Value) (elems []ssa.Value, sites []ssa.Instruction, complete bool) {
	complete = true
	for r := range aliasRoots(idx) {
		switch x := r.(type) {
		case *ssa.Call:
			if ssau.Builtin(x) != "append" {
				complete = false
				continue
			}
			sl, ok := x.Call.Args[1].(*ssa.Slice)
			if !ok {
				complete = false
				continue
			}
			arr, ok := sl.X.(*ssa.Alloc)
			if !ok {
				complete = false
				continue
			}
			for _, ref := range ssau.Refs(arr) {
				if ia, ok := ref.(*ssa.IndexAddr); ok {
					for _, rr := range ssau.Refs(ia) {
						if st, ok := rr.(*ssa.Store); ok && st.Addr == ia {
							elems = append(elems, st.Val)
							sites = append(sites, x)
						}
					}
				}
			}
		case *ssa.MakeSlice:
			for _, ref := range ssau.Refs(x) {
				if ia, ok := ref.(*ssa.IndexAddr); ok {
					for _, rr := range ssau.Refs(ia) {
						if st, ok := rr.(*ssa.Store); ok && st.Addr == ia {
							elems = append(elems, st.Val)
							sites = append(sites, st)
						}
					}
				}
			}
		case *ssa.Phi, *ssa.Const, *ssa.Slice, *ssa.Alloc, *ssa.UnOp:
		default:
			complete = false
		}
	}
	return
}

// GeneratorBounds decides GEN-BOUND for fn's meshes.
func GeneratorBounds(fn *ssa.Function, modelingPath string) (out []BoundFinding, notCovered int) {
	type mesh struct {
		ctor *ssa.Call
		idx  ssa.Value
		arrs []ssa.Value
		at   []ssa.Instruction
	}
	meshes := map[*ssa.Call]*mesh{}
	chainRoot := func(c *ssa.Call) ssa.Value {
		cur := ssa.Value(c)
		for depth := 0; depth < 12; depth++ {
			cc, ok := cur.(*ssa.Call)
			if !ok {
				return cur
			}
			o := ssau.CalleeObj(cc)
			if o != nil && ssau.IsMethod(o, modelingPath, "Mesh", o.Name()) && len(cc.Call.Args) > 0 {
				cur = cc.Call.Args[0]
				continue
			}
			return cur
		}
		return cur
	}
	get := func(root ssa.Value) *mesh {
		c, ok := root.(*ssa.Call)
		if !ok {
			return nil
		}
		o := ssau.CalleeObj(c)
		if o == nil {
			return nil
		}
		var idx ssa.Value
		switch {
		case ssau.IsFunc(o, modelingPath, "NewTriangleMesh") && len(c.Call.Args) == 1:
			idx = c.Call.Args[0]
		case ssau.IsFunc(o, modelingPath, "NewMesh") && len(c.Call.Args) == 2:
			idx = c.Call.Args[1]
		default:
			return nil
		}
		if meshes[c] == nil {
			meshes[c] = &mesh{ctor: c, idx: idx}
		}
		return meshes[c]
	}
	ssau.AllInstrs(fn, func(in ssa.Instruction) {
		c, ok := in.(*ssa.Call)
		if !ok {
			return
		}
		o := ssau.CalleeObj(c)
		if o == nil {
			return
		}
		name := o.Name()
		switch {
		case ssau.IsMethod(o, modelingPath, "Mesh", name) && strings.HasPrefix(name, "SetFloat") && strings.HasSuffix(name, "Data") && len(c.Call.Args) == 2:
			if m := get(chainRoot(c)); m != nil {
				for r := range aliasRootsMap(c.Call.Args[1]) {
					for _, ref := range ssau.Refs(r) {
						if mu, ok := ref.(*ssa.MapUpdate); ok && mu.Map == r {
							m.arrs = append(m.arrs, mu.Value)
							m.at = append(m.at, c)
						}
					}
				}
			}
		case ssau.IsMethod(o, modelingPath, "Mesh", name) && strings.HasPrefix(name, "SetFloat") && strings.HasSuffix(name, "Attribute") && len(c.Call.Args) == 3:
			if m := get(chainRoot(c)); m != nil {
				m.arrs = append(m.arrs, c.Call.Args[2])
				m.at = append(m.at, c)
			}
		}
	})
	var ctors []*ssa.Call
	for c := range meshes {
		ctors = append(ctors, c)
	}
	sort.Slice(ctors, func(i, j int) bool { return ctors[i].Pos() < ctors[j].Pos() })
	lb := guardLowerBounds(fn)
	for _, c := range ctors {
		m := meshes[c]
		var N gpoly
		for i, a := range m.arrs {
			d := describeArray(a, m.at[i])
			if d.kind != "" {
				N = d.poly
				break
			}
		}
		if N == nil {
			notCovered++
			continue
		}
		elems, sites, _ := indexElements(m.idx)
		per := map[ssa.Instruction]int{}
		for i, e := range elems {
			g := newGBound(fn)
			g.lb = lb
			per[sites[i]]++
			key := fmt.Sprintf("%d", per[sites[i]])
			if ok, detail := ancestorLenForm(e, m.arrs); ok {
				out = append(out, BoundFinding{Fn: fn, At: sites[i], Key: key, OK: true, Decided: true, Detail: detail})
				continue
			}
			r, ok := g.rangeOf(e, 0)
			if !ok {
				notCovered++
				if os.Getenv("POLYCHECK_GENDEBUG") != "" {
					fmt.Fprintf(os.Stderr, "GENDEBUG %s: element %s = %s outside the fragment\n", fn.Name(), e.Name(), canonExpr(e, 0))
				}
				continue
			}
			D := shiftPoly(N.add(r.hi, -1).add(gconst(1), -1), lb)
			lo := shiftPoly(r.lo, lb)
			if nonNegCoeffs(D) && nonNegCoeffs(lo) {
				out = append(out, BoundFinding{Fn: fn, At: sites[i], Key: key, OK: true, Decided: true,
					Detail: fmt.Sprintf("index ∈ [%s, %s], vertex count %s: (count − max − 1) = %s has no negative coefficient under the guards %v", r.lo, r.hi, N, D, lbString(lb))})
				continue
			}
			// witness search (only for exact maxima)
			ex := !r.inexact
			for _, n := range r.counters {
				if n != 1 {
					ex = false
				}
			}
			if !ex {
				notCovered++
				continue
			}
			var trips []gpoly
			for _, t := range g.trips {
				trips = append(trips, shiftPoly(t, lb))
			}
			atoms := polyAtoms(append([]gpoly{D, lo}, trips...)...)
			free := len(atoms) <= 4
			for _, a := range atoms {
				// a witness assigns values independently: only parameters, their integer fields and the lengths
				// of slice parameters are free
				if !(strings.HasPrefix(a, "param:") || strings.HasPrefix(a, "load(param:") || strings.HasPrefix(a, "len(param:")) || strings.Count(a, "(") > 1 {
					free = false
				}
			}
			if !free {
				notCovered++
				continue
			}
			env := map[string]int64{}
			var witness map[string]int64
			var rec func(i int)
			rec = func(i int) {
				if witness != nil {
					return
				}
				if i == len(atoms) {
					for _, t := range trips {
						if evalPoly(t, env) < 1 {
							return
						}
					}
					if evalPoly(D, env) < 0 || evalPoly(lo, env) < 0 {
						witness = map[string]int64{}
						for k, v := range env {
							witness[k] = v + lb[k]
						}
					}
					return
				}
				for v := int64(0); v <= 6; v++ {
					env[atoms[i]] = v
					rec(i + 1)
				}
			}
			rec(0)
			if witness == nil {
				notCovered++
				continue
			}
			var ws []string
			for _, a := range atoms {
				ws = append(ws, fmt.Sprintf("%s = %d", a, witness[a]))
			}
			if evalPoly(shiftPoly(r.lo, lb), envOf(witness, lb)) < 0 && evalPoly(D, envOf(witness, lb)) >= 0 {
				out = append(out, BoundFinding{Fn: fn, At: sites[i], Key: key, OK: false, Decided: true,
					Detail: fmt.Sprintf("index can be as low as %s: with %s (accepted by the generator's guards %s) the index is %d — a negative index", r.lo, strings.Join(ws, ", "), lbString(lb), evalPoly(r.lo, witness))})
				continue
			}
			out = append(out, BoundFinding{Fn: fn, At: sites[i], Key: key, OK: false, Decided: true,
				Detail: fmt.Sprintf("index reaches %s while the mesh has %s vertices: with %s the largest index is %d but only %d vertices exist — an index past the vertex arrays", r.hi, N, strings.Join(ws, ", "), evalPoly(r.hi, witness), evalPoly(N, witness))})
		}
	}
	return
}

// ancestorLenForm: e = len(S) − k with S an earlier version (append ancestor) of one of the mesh's own per-vertex
// arrays, itself the result of an append of n ≥ k elements: 0 ≤ len(S) − k < len(S) ≤ final length, because the
// arrays only grow by append.
func ancestorLenForm(e ssa.Value, arrs []ssa.Value) (bool, string) {
	sub, ok := e.(*ssa.BinOp)
	if !ok || sub.Op != token.SUB {
		return false, ""
	}
	k, ok := ssau.ConstInt(sub.Y)
	if !ok || k < 1 {
		return false, ""
	}
	lc, ok := sub.X.(*ssa.Call)
	if !ok || ssau.Builtin(lc) != "len" || len(lc.Call.Args) != 1 {
		return false, ""
	}
	S, ok := lc.Call.Args[0].(*ssa.Call)
	if !ok || ssau.Builtin(S) != "append" {
		return false, ""
	}
	if n := appendCount(S); n < int(k) {
		return false, ""
	}
	for _, a := range arrs {
		if aliasRoots(a)[S] {
			return true, fmt.Sprintf("index = len(S) − %d with S an earlier version of the mesh's own vertex array, taken right after appending ≥ %d elements: within [0, final length) because the array only grows", k, k)
		}
	}
	return false, ""
}

func envOf(witness map[string]int64, lb map[string]int64) map[string]int64 {
	out := map[string]int64{}
	for k, v := range witness {
		out[k] = v - lb[k]
	}
	return out
}

func lbString(lb map[string]int64) string {
	var ks []string
	for k := range lb {
		ks = append(ks, k)
	}
	sort.Strings(ks)
	var out []string
	for _, k := range ks {
		out = append(out, fmt.Sprintf("%s ≥ %d", k, lb[k]))
	}
	return "{" + strings.Join(out, ", ") + "}"
}
