package eng

// GRP-1 — a filter that keeps the topology of its input keeps whole primitives.
//
// A mesh operation that hands `input.SetIndices(x)` back keeps the input's topology, so len(x) must fit it (C02:
// "the number of indices fits the topology"). When x is grown by `append` under a condition that is decided per
// loop iteration (a keep / drop decision), the number of indices one decision adds is a fixed quantity of the
// source: the elements of the append, times the trip counts of the counted loops that enclose it unconditionally
// below the decision. That quantity N has to be a multiple of the group size of every topology the operation
// admits:
//   * the admitted topologies are all of modeling.Topology, unless a meshops.RequireTopology(mesh, T) call whose
//     result is used dominates the hand-off — then only T;
//   * the group size of a topology is read from the source: modeling.Topology.IndexSize is interpreted for every
//     constant of the type (the repository's own table, not a copy of it);
//   * N may be the symbol G = <mesh>.Topology().IndexSize() (a copy loop bounded by the group size): N = n·G is a
//     multiple of every group size.
// Anything else — unconditional bulk copies, appends of computed slices, loops without a recognisable trip count,
// index arrays that are not built by append — carries no obligation (skipped, not judged).

import (
	"fmt"
	"go/constant"
	"go/token"
	"go/types"
	"sort"

	"golang.org/x/tools/go/ssa"

	"polycheck/ssau"
)

type GroupFinding struct {
	Fn      *ssa.Function // the operation that hands the indices to SetIndices
	Handoff ssa.Instruction
	At      ssa.Instruction // the append
	OK      bool
	Detail  string
}

type groupCount struct {
	n   int64
	sym bool // × G, the group size of the mesh's own topology
}

func (g groupCount) String() string {
	if g.sym {
		if g.n == 1 {
			return "one whole group (Topology().IndexSize() indices)"
		}
		return fmt.Sprintf("%d whole groups (%d × Topology().IndexSize() indices)", g.n, g.n)
	}
	if g.n == 1 {
		return "1 index"
	}
	return fmt.Sprintf("%d indices", g.n)
}

type groupSite struct {
	app *ssa.Call
	in  *ssa.Function
}

// GroupKeeps analyses every function of fns that lies in one of the packages pkgs.
func GroupKeeps(fns []*ssa.Function, modelingPath, meshopsPath string, prog *ssa.Program) (out []GroupFinding, notes []string) {
	sizes, why := topologySizes(prog, modelingPath)
	if sizes == nil {
		return nil, []string{"GRP-1 not evaluated: " + why}
	}
	inScope := map[*ssa.Function]bool{}
	for _, f := range fns {
		inScope[f] = true
	}
	for _, fn := range fns {
		if fn.Blocks == nil || fn.Pkg == nil {
			continue
		}
		pp := fn.Pkg.Pkg.Path()
		if pp != modelingPath && pp != meshopsPath {
			continue
		}
		ssau.AllInstrs(fn, func(in ssa.Instruction) {
			c, ok := in.(*ssa.Call)
			if !ok {
				return
			}
			o := ssau.CalleeObj(c)
			if o == nil || !ssau.IsMethod(o, modelingPath, "Mesh", "SetIndices") || len(c.Call.Args) != 2 {
				return
			}
			if !fromMeshParam(c.Call.Args[0], modelingPath, 0) {
				return
			}
			var sites []groupSite
			collectAppends(c.Call.Args[1], fn, inScope, map[ssa.Value]bool{}, 0, &sites)
			if len(sites) == 0 {
				return
			}
			admitted, guard := admittedSizes(fn, c, sizes, modelingPath, meshopsPath)
			for _, s := range sites {
				cnt, decided, where := decisionCount(s, modelingPath)
				if !decided {
					continue
				}
				var badFor []string
				for _, a := range admitted {
					if cnt.sym || cnt.n%a.size == 0 {
						continue
					}
					badFor = append(badFor, fmt.Sprintf("%s (%d per primitive)", a.name, a.size))
				}
				if len(badFor) == 0 {
					out = append(out, GroupFinding{Fn: fn, Handoff: c, At: s.app, OK: true,
						Detail: fmt.Sprintf("one keep decision (%s) adds %s; admitted topologies: %s — the index count stays a multiple of the group size", where, cnt, guard)})
				} else {
					out = append(out, GroupFinding{Fn: fn, Handoff: c, At: s.app, OK: false,
						Detail: fmt.Sprintf("one keep decision (%s) adds %s to the index array, and the result keeps the input's topology (%s): for %v the number of indices left need not fit the topology (primitives are cut, not dropped whole)", where, cnt, guard, badFor)})
				}
			}
		})
	}
	return out, nil
}

// fromMeshParam: v is a Mesh parameter of its function (possibly through the parameter's spill slot or a chain of
// Set* methods, which keep the topology).
func fromMeshParam(v ssa.Value, modelingPath string, depth int) bool {
	if depth > 6 {
		return false
	}
	switch x := v.(type) {
	case *ssa.Parameter:
		return ssau.IsNamed(x.Type(), modelingPath, "Mesh")
	case *ssa.UnOp:
		if x.Op != token.MUL {
			return false
		}
		a, ok := x.X.(*ssa.Alloc)
		if !ok {
			return false
		}
		n, good := 0, false
		for _, r := range *a.Referrers() {
			if st, ok := r.(*ssa.Store); ok && st.Addr == a {
				n++
				good = fromMeshParam(st.Val, modelingPath, depth+1)
			}
		}
		return n == 1 && good
	case *ssa.Call:
		o := ssau.CalleeObj(x)
		if o != nil && ssau.IsMethod(o, modelingPath, "Mesh", o.Name()) && len(o.Name()) > 3 && o.Name()[:3] == "Set" && len(x.Call.Args) > 0 {
			return fromMeshParam(x.Call.Args[0], modelingPath, depth+1)
		}
	}
	return false
}

func collectAppends(v ssa.Value, fn *ssa.Function, inScope map[*ssa.Function]bool, seen map[ssa.Value]bool, depth int, out *[]groupSite) {
	if v == nil || seen[v] || depth > 12 {
		return
	}
	seen[v] = true
	switch x := v.(type) {
	case *ssa.Phi:
		for _, e := range x.Edges {
			collectAppends(e, fn, inScope, seen, depth, out)
		}
	case *ssa.Call:
		if ssau.Builtin(x) == "append" {
			if isIntSlice(x.Type()) {
				*out = append(*out, groupSite{app: x, in: fn})
				collectAppends(x.Call.Args[0], fn, inScope, seen, depth, out)
			}
			return
		}
		callee := x.Call.StaticCallee()
		if callee == nil || callee.Blocks == nil || !inScope[callee] || !isIntSlice(x.Type()) {
			return
		}
		for _, b := range callee.Blocks {
			if r, ok := b.Instrs[len(b.Instrs)-1].(*ssa.Return); ok && len(r.Results) == 1 {
				collectAppends(r.Results[0], callee, inScope, seen, depth+1, out)
			}
		}
	case *ssa.UnOp:
		if x.Op != token.MUL {
			return
		}
		if a, ok := x.X.(*ssa.Alloc); ok {
			for _, r := range *a.Referrers() {
				if st, ok := r.(*ssa.Store); ok && st.Addr == a {
					collectAppends(st.Val, fn, inScope, seen, depth, out)
				}
			}
		}
	}
}

// appendElems: number of elements of an append(s, a, b, c) call; -1 for append(s, t...).
func appendElems(c *ssa.Call) int64 {
	if len(c.Call.Args) != 2 {
		return -1
	}
	sl, ok := c.Call.Args[1].(*ssa.Slice)
	if !ok || sl.Low != nil || sl.High != nil {
		return -1
	}
	a, ok := sl.X.(*ssa.Alloc)
	if !ok {
		return -1
	}
	pt, ok := a.Type().Underlying().(*types.Pointer)
	if !ok {
		return -1
	}
	at, ok := pt.Elem().Underlying().(*types.Array)
	if !ok {
		return -1
	}
	return at.Len()
}

func parentLoop(loops []*ssau.Loop, l *ssau.Loop) *ssau.Loop {
	var best *ssau.Loop
	for _, o := range loops {
		if o != l && o.Blocks[l.Header] && len(o.Blocks) > len(l.Blocks) && (best == nil || len(o.Blocks) < len(best.Blocks)) {
			best = o
		}
	}
	return best
}

// everyIteration: block b runs in every iteration of l that reaches a back edge.
func everyIteration(b *ssa.BasicBlock, l *ssau.Loop) bool {
	for _, lt := range l.Latch {
		if !b.Dominates(lt) {
			return false
		}
	}
	return len(l.Latch) > 0
}

// tripCount of a counted loop `for c := 0; c < S; c++`: a constant, or the symbol G when S is Topology.IndexSize().
func grpTripCount(l *ssau.Loop, modelingPath string) (groupCount, bool) {
	iff, ok := l.Header.Instrs[len(l.Header.Instrs)-1].(*ssa.If)
	if !ok {
		return groupCount{}, false
	}
	cmp, ok := iff.Cond.(*ssa.BinOp)
	if !ok || cmp.Op != token.LSS {
		return groupCount{}, false
	}
	phi, ok := cmp.X.(*ssa.Phi)
	if !ok || phi.Block() != l.Header || len(phi.Edges) != 2 {
		return groupCount{}, false
	}
	start, step := false, false
	for _, e := range phi.Edges {
		if k, ok := ssau.ConstInt(e); ok && k == 0 {
			start = true
			continue
		}
		if add, ok := e.(*ssa.BinOp); ok && add.Op == token.ADD && add.X == phi {
			if k, ok := ssau.ConstInt(add.Y); ok && k == 1 {
				step = true
			}
		}
	}
	if !start || !step {
		return groupCount{}, false
	}
	// the body must not leave the loop early (break): every exit goes through the header
	for b := range l.Blocks {
		if b == l.Header {
			continue
		}
		for _, s := range b.Succs {
			if !l.Blocks[s] {
				return groupCount{}, false
			}
		}
	}
	if k, ok := ssau.ConstInt(cmp.Y); ok && k > 0 {
		return groupCount{n: k}, true
	}
	if c, ok := cmp.Y.(*ssa.Call); ok {
		o := ssau.CalleeObj(c)
		if o != nil && ssau.IsMethod(o, modelingPath, "Topology", "IndexSize") && len(c.Call.Args) == 1 {
			if tc, ok := c.Call.Args[0].(*ssa.Call); ok {
				to := ssau.CalleeObj(tc)
				if to != nil && ssau.IsMethod(to, modelingPath, "Mesh", "Topology") {
					return groupCount{n: 1, sym: true}, true
				}
			}
		}
	}
	return groupCount{}, false
}

// decisionCount: how many indices one keep decision adds through this append.
func decisionCount(s groupSite, modelingPath string) (groupCount, bool, string) {
	k := appendElems(s.app)
	if k <= 0 {
		return groupCount{}, false, ""
	}
	loops := ssau.Loops(s.in)
	// other int appends in the same block belong to the same decision
	for _, in := range s.app.Block().Instrs {
		if c, ok := in.(*ssa.Call); ok && c != s.app && ssau.Builtin(c) == "append" && isIntSlice(c.Type()) {
			e := appendElems(c)
			if e <= 0 {
				return groupCount{}, false, ""
			}
			k += e
		}
	}
	cnt := groupCount{n: k}
	cur := s.app.Block()
	l := ssau.InnermostLoop(loops, cur)
	for steps := 0; l != nil && steps < 8; steps++ {
		if !everyIteration(cur, l) {
			return cnt, true, fmt.Sprintf("the append in %s runs under a condition of the loop around it", s.in.Name())
		}
		t, ok := grpTripCount(l, modelingPath)
		if !ok {
			return groupCount{}, false, "" // unconditional bulk copy or unknown trip count
		}
		if t.sym && cnt.sym {
			return groupCount{}, false, ""
		}
		cnt = groupCount{n: cnt.n * t.n, sym: cnt.sym || t.sym}
		cur = l.Header
		l = parentLoop(loops, l)
	}
	return groupCount{}, false, ""
}

type topoSize struct {
	name string
	size int64
}

// topologySizes interprets modeling.Topology.IndexSize for every package-level constant of type Topology.
func topologySizes(prog *ssa.Program, modelingPath string) ([]topoSize, string) {
	var pkg *ssa.Package
	for _, p := range prog.AllPackages() {
		if p.Pkg.Path() == modelingPath {
			pkg = p
		}
	}
	if pkg == nil {
		return nil, "package modeling not loaded"
	}
	tn, _ := pkg.Pkg.Scope().Lookup("Topology").(*types.TypeName)
	if tn == nil {
		return nil, "type modeling.Topology not found"
	}
	fn := prog.LookupMethod(tn.Type(), pkg.Pkg, "IndexSize")
	if fn == nil || fn.Blocks == nil || len(fn.Params) != 1 {
		return nil, "method modeling.Topology.IndexSize not found"
	}
	var out []topoSize
	names := pkg.Pkg.Scope().Names()
	sort.Strings(names)
	for _, n := range names {
		c, ok := pkg.Pkg.Scope().Lookup(n).(*types.Const)
		if !ok || !types.Identical(c.Type(), tn.Type()) {
			continue
		}
		v, ok := constant.Int64Val(constant.ToInt(c.Val()))
		if !ok {
			continue
		}
		// Judged: the polygon-list topologies (group size >= 3). For the line topologies the repository counts
		// primitives as len-1 / len (strip / loop conventions), so "a multiple of the group size" is not what
		// "fits the topology" means there; for points every count fits.
		if sz, ok := interpIndexSize(fn, v); ok && sz >= 3 {
			out = append(out, topoSize{name: n, size: sz})
		}
	}
	if len(out) < 1 {
		return nil, "no polygon-list topology constant with an interpretable IndexSize"
	}
	return out, ""
}

func interpIndexSize(fn *ssa.Function, val int64) (int64, bool) {
	b := fn.Blocks[0]
	for steps := 0; steps < 200; steps++ {
		switch t := b.Instrs[len(b.Instrs)-1].(type) {
		case *ssa.Jump:
			b = b.Succs[0]
		case *ssa.If:
			cmp, ok := t.Cond.(*ssa.BinOp)
			if !ok || (cmp.Op != token.EQL && cmp.Op != token.NEQ) {
				return 0, false
			}
			var k int64
			if cmp.X == fn.Params[0] {
				c, ok := ssau.ConstInt(cmp.Y)
				if !ok {
					return 0, false
				}
				k = c
			} else if cmp.Y == fn.Params[0] {
				c, ok := ssau.ConstInt(cmp.X)
				if !ok {
					return 0, false
				}
				k = c
			} else {
				return 0, false
			}
			if (val == k) == (cmp.Op == token.EQL) {
				b = b.Succs[0]
			} else {
				b = b.Succs[1]
			}
		case *ssa.Return:
			if len(t.Results) != 1 {
				return 0, false
			}
			k, ok := ssau.ConstInt(t.Results[0])
			return k, ok && k > 0
		default:
			return 0, false
		}
	}
	return 0, false
}

// admittedSizes: the group sizes of the topologies the operation accepts at the hand-off.
func admittedSizes(fn *ssa.Function, handoff *ssa.Call, all []topoSize, modelingPath, meshopsPath string) ([]topoSize, string) {
	var only []topoSize
	ssau.AllInstrs(fn, func(in ssa.Instruction) {
		c, ok := in.(*ssa.Call)
		if !ok {
			return
		}
		o := ssau.CalleeObj(c)
		if o == nil || !ssau.IsFunc(o, meshopsPath, "RequireTopology") || len(c.Call.Args) != 2 {
			return
		}
		if c.Referrers() == nil || len(*c.Referrers()) == 0 {
			return // result dropped: not a guard
		}
		if !c.Block().Dominates(handoff.Block()) {
			return
		}
		k, ok := ssau.ConstInt(c.Call.Args[1])
		if !ok {
			return
		}
		for _, t := range all {
			if tv, ok := topoConst(fn.Prog, modelingPath, t.name); ok && tv == k {
				only = append(only, t)
			}
		}
	})
	if len(only) > 0 {
		return only, "restricted to " + only[0].name + " by RequireTopology"
	}
	return all, "no topology requirement: every topology is admitted"
}

func topoConst(prog *ssa.Program, modelingPath, name string) (int64, bool) {
	for _, p := range prog.AllPackages() {
		if p.Pkg.Path() == modelingPath {
			if c, ok := p.Pkg.Scope().Lookup(name).(*types.Const); ok {
				return constant.Int64Val(constant.ToInt(c.Val()))
			}
		}
	}
	return 0, false
}
