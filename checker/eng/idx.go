package eng

// IDX — index-space typing (DESIGN.md §3.2).
//
// Integers that subscript mesh data live in different spaces:
//   P  position in an index array  (loop variable bounded by Indices().Len() / len(m.indices))
//   V  vertex id                   (result of Indices().At(p), m.indices[p], Tri.P1/P2/P3, Line.P1/P2)
//   A  attribute position          (loop variable bounded by an attribute iterator's Len(), AttributeLength(), len(attribute slice))
// Confusing P with V is invisible on identity-indexed test meshes. Kinds are assigned by
// def-use on SSA from type-resolved sources only (callee objects of package modeling, the
// Mesh.indices / Mesh.vNData field objects); everything else has no kind and is never judged.

import (
	"go/token"
	"go/types"
	"strings"

	"golang.org/x/tools/go/ssa"

	"polycheck/ssau"
)

type IterKind uint8

const (
	NoIter IterKind = iota
	IndexIter
	AttrIter
)

type IntKind uint8

const (
	NoKind IntKind = iota
	KindP
	KindV
	KindA
	KindK // primitive number (loop variable bounded by PrimitiveCount()); K*IndexSize is a P
)

func (k IntKind) String() string {
	return [...]string{"untyped", "P(index position)", "V(vertex id)", "A(attribute position)", "K(primitive number)"}[k]
}

type IdxSite struct {
	Fn      *ssa.Function
	Instr   ssa.Instruction
	Rule    string // IDX-1, IDX-2, IDX-3
	What    string // "attr.At", "index.At", "SetIndices element", …
	ArgKind IntKind
	Bad     bool
	Detail  string
}

type Idx struct {
	helperDepth int
	ModelingPath string
	iter         map[ssa.Value]IterKind
	kind         map[ssa.Value]IntKind
	table        map[ssa.Value]IntKind // local slice made with a typed length: KindA = per-vertex table, KindP = per-corner table
	Sites        []IdxSite
	IndexSources int
	AttrSources  int
}

func NewIdx(modelingPath string) *Idx {
	return &Idx{ModelingPath: modelingPath, iter: map[ssa.Value]IterKind{}, kind: map[ssa.Value]IntKind{}, table: map[ssa.Value]IntKind{}}
}

func (x *Idx) meshMethod(c ssa.CallInstruction) string {
	o := ssau.CalleeObj(c)
	if o == nil {
		return ""
	}
	if ssau.IsMethod(o, x.ModelingPath, "Mesh", o.Name()) {
		return o.Name()
	}
	return ""
}

func isIterType(t types.Type) bool {
	return ssau.IsNamed(t, "github.com/EliCDavis/iter", "ArrayIterator")
}

func (x *Idx) isAtOrLen(c ssa.CallInstruction, name string) (recv ssa.Value, ok bool) {
	o := ssau.CalleeObj(c)
	if o == nil || o.Name() != name {
		return nil, false
	}
	cc := c.Common()
	if cc.IsInvoke() {
		return nil, false
	}
	if len(cc.Args) == 0 || !isIterType(cc.Args[0].Type()) {
		return nil, false
	}
	return cc.Args[0], true
}

// Analyse types one function (closures are analysed with their parents: call for every function).
func (x *Idx) Analyse(fns []*ssa.Function) {
	// pass 1: iterator / slice kinds, iterate to a fixpoint over all functions (closures read parents' cells)
	for round := 0; round < 8; round++ {
		changed := false
		set := func(v ssa.Value, k IterKind) {
			if k != NoIter && x.iter[v] == NoIter {
				x.iter[v] = k
				changed = true
			}
		}
		for _, fn := range fns {
			ssau.AllInstrs(fn, func(in ssa.Instruction) {
				switch v := in.(type) {
				case *ssa.Call:
					switch m := x.meshMethod(v); {
					case m == "Indices":
						set(v, IndexIter)
					case m == "Float1Attribute" || m == "Float2Attribute" || m == "Float3Attribute" || m == "Float4Attribute":
						set(v, AttrIter)
					}
					// closure / function value returning an iterator built from one kind of source
					if isIterType(v.Type()) && x.iter[v] == NoIter {
						if callee := calleeFn(v.Common()); callee != nil {
							set(v, x.returnsIter(callee))
						}
					}
				case *ssa.Phi:
					for _, e := range v.Edges {
						set(v, x.iter[e])
					}
				case *ssa.UnOp:
					if v.Op == token.MUL {
						// the iterator's methods have value receivers: *ptr is the same iterator
						if isIterType(v.Type()) {
							set(v, x.iter[v.X])
						}
						// Mesh.indices / Mesh.vNData loads (package modeling only: the fields are unexported)
						if fa, ok := v.X.(*ssa.FieldAddr); ok {
							set(v, x.fieldKind(ssau.FieldOf(fa)))
						}
						// local variable cells
						if a, ok := v.X.(*ssa.Alloc); ok {
							for _, r := range ssau.Refs(a) {
								if st, ok := r.(*ssa.Store); ok && st.Addr == a {
									set(v, x.iter[st.Val])
								}
							}
						}
						if fv, ok := v.X.(*ssa.FreeVar); ok {
							if cell := bindingOf(fv); cell != nil {
								for _, r := range ssau.Refs(cell) {
									if st, ok := r.(*ssa.Store); ok && st.Addr == cell {
										set(v, x.iter[st.Val])
									}
								}
							}
						}
					}
				case *ssa.Field:
					set(v, x.fieldKind(ssau.FieldOf(v)))
				case *ssa.Lookup:
					// element of an attribute map (modeling) or of a local map of iterators
					if x.iter[v.X] == AttrIter {
						set(v, AttrIter)
					}
					set(v, x.mapContent(v.X))
				case *ssa.Extract:
					switch t := v.Tuple.(type) {
					case *ssa.Lookup:
						if v.Index == 0 {
							if x.iter[t.X] == AttrIter {
								set(v, AttrIter)
							}
							set(v, x.mapContent(t.X))
						}
					case *ssa.Next:
						if r, ok := t.Iter.(*ssa.Range); ok && v.Index == 2 {
							if x.iter[r.X] == AttrIter {
								set(v, AttrIter)
							}
							set(v, x.mapContent(r.X))
						}
					}
				case *ssa.Slice:
					set(v, x.iter[v.X])
				case *ssa.ChangeType:
					set(v, x.iter[v.X])
				}
				// copy(dst, indexSlice): dst (and the array it is a window of) now holds vertex ids
				if c, ok := in.(*ssa.Call); ok && ssau.Builtin(c) == "copy" && len(c.Call.Args) == 2 && x.iter[c.Call.Args[1]] == IndexIter {
					d := c.Call.Args[0]
					set(d, IndexIter)
					for depth := 0; depth < 6; depth++ {
						sl, ok := d.(*ssa.Slice)
						if !ok {
							break
						}
						d = sl.X
						set(d, IndexIter)
					}
				}
				// append(dst, indexSlice...) : dst now holds vertex ids too (package modeling's Append)
				if c, ok := in.(*ssa.Call); ok && ssau.Builtin(c) == "append" && len(c.Call.Args) == 2 {
					if _, isSlice := c.Call.Args[1].Type().Underlying().(*types.Slice); isSlice {
						if x.iter[c.Call.Args[1]] == IndexIter || x.iter[c.Call.Args[0]] == IndexIter {
							set(c, IndexIter)
						}
					}
				}
			})
		}
		if !changed {
			break
		}
	}
	for v, k := range x.iter {
		if _, isCall := v.(*ssa.Call); isCall {
			if k == IndexIter {
				x.IndexSources++
			} else if k == AttrIter {
				x.AttrSources++
			}
		}
	}
	// pass 2: integer kinds
	for _, fn := range fns {
		x.intKinds(fn)
	}
	// pass 3: sites
	for _, fn := range fns {
		x.sites(fn)
	}
}

func calleeFn(cc *ssa.CallCommon) *ssa.Function {
	if cc.IsInvoke() {
		return nil
	}
	if f := cc.StaticCallee(); f != nil {
		return f
	}
	if mc, ok := cc.Value.(*ssa.MakeClosure); ok {
		if f, ok := mc.Fn.(*ssa.Function); ok {
			return f
		}
	}
	return nil
}

func bindingOf(fv *ssa.FreeVar) *ssa.Alloc {
	fn := fv.Parent()
	parent := fn.Parent()
	if parent == nil {
		return nil
	}
	var out *ssa.Alloc
	ssau.AllInstrs(parent, func(in ssa.Instruction) {
		if mc, ok := in.(*ssa.MakeClosure); ok && mc.Fn == fn {
			for i, f := range fn.FreeVars {
				if f == fv && i < len(mc.Bindings) {
					if a, ok := mc.Bindings[i].(*ssa.Alloc); ok {
						out = a
					}
				}
			}
		}
	})
	return out
}

func (x *Idx) returnsIter(f *ssa.Function) IterKind {
	if f.Blocks == nil {
		return NoIter
	}
	k := NoIter
	consistent := true
	ssau.AllInstrs(f, func(in ssa.Instruction) {
		if r, ok := in.(*ssa.Return); ok && len(r.Results) == 1 {
			rk := x.iter[r.Results[0]]
			if k == NoIter {
				k = rk
			} else if rk != k {
				consistent = false
			}
		}
	})
	if !consistent {
		return NoIter
	}
	return k
}

func (x *Idx) fieldKind(f *types.Var) IterKind {
	if f == nil || f.Pkg() == nil || f.Pkg().Path() != x.ModelingPath {
		return NoIter
	}
	// only fields of Mesh
	switch f.Name() {
	case "indices":
		if _, ok := f.Type().Underlying().(*types.Slice); ok {
			return IndexIter
		}
	case "v1Data", "v2Data", "v3Data", "v4Data":
		if _, ok := f.Type().Underlying().(*types.Map); ok {
			return AttrIter
		}
	}
	return NoIter
}

// mapContent: kind of the iterators stored into a local map.
func (x *Idx) mapContent(m ssa.Value) IterKind {
	k := NoIter
	for _, r := range ssau.Refs(m) {
		if mu, ok := r.(*ssa.MapUpdate); ok && mu.Map == m {
			if vk := x.iter[mu.Value]; vk != NoIter {
				if k != NoIter && k != vk {
					return NoIter
				}
				k = vk
			}
		}
	}
	return k
}

func (x *Idx) setKind(v ssa.Value, k IntKind) bool {
	if k == NoKind || x.kind[v] != NoKind {
		return false
	}
	x.kind[v] = k
	return true
}

func (x *Idx) lenKind(v ssa.Value) IntKind {
	switch c := v.(type) {
	case *ssa.Call:
		if recv, ok := x.isAtOrLen(c, "Len"); ok {
			switch x.iter[recv] {
			case IndexIter:
				return KindP
			case AttrIter:
				return KindA
			}
		}
		if ssau.Builtin(c) == "len" && len(c.Call.Args) == 1 {
			if tk := x.tableOf(c.Call.Args[0]); tk != NoKind {
				return tk
			}
			switch x.iter[c.Call.Args[0]] {
			case IndexIter:
				return KindP
			case AttrIter:
				if _, isSlice := c.Call.Args[0].Type().Underlying().(*types.Slice); isSlice {
					return KindA
				}
			}
		}
		if x.meshMethod(c) == "AttributeLength" {
			return KindA
		}
		if x.meshMethod(c) == "PrimitiveCount" {
			return KindK
		}
	case *ssa.Phi:
		k := NoKind
		for _, e := range c.Edges {
			ek := x.lenKind(e)
			if ek == NoKind || (k != NoKind && ek != k) {
				return NoKind
			}
			k = ek
		}
		return k
	}
	return NoKind
}

// tableOf: v is (an alias of) a local slice made with a typed length.
func (x *Idx) tableOf(v ssa.Value) IntKind {
	k := NoKind
	for r := range aliasRoots(v) {
		if tk, ok := x.table[r]; ok {
			if k != NoKind && k != tk {
				return NoKind
			}
			k = tk
		}
	}
	return k
}

func (x *Idx) intKinds(fn *ssa.Function) {
	// typed local tables
	ssau.AllInstrs(fn, func(in ssa.Instruction) {
		if ms, ok := in.(*ssa.MakeSlice); ok {
			if k := x.lenKind(ms.Len); k != NoKind {
				x.table[ms] = k
			}
		}
	})
	// V sources
	ssau.AllInstrs(fn, func(in ssa.Instruction) {
		switch v := in.(type) {
		case *ssa.Call:
			if recv, ok := x.isAtOrLen(v, "At"); ok && x.iter[recv] == IndexIter {
				x.setKind(v, KindV)
			}
			if o := ssau.CalleeObj(v); o != nil && o.Pkg() != nil && o.Pkg().Path() == x.ModelingPath {
				if n := ssau.RecvNamed(o); n != nil {
					tn := n.Obj().Name()
					if (tn == "Tri" || tn == "Line" || tn == "scopedTri" || tn == "scopedLine") && (o.Name() == "P1" || o.Name() == "P2" || o.Name() == "P3") {
						x.setKind(v, KindV)
					}
				}
			}
		case *ssa.UnOp:
			if v.Op == token.MUL {
				if ia, ok := v.X.(*ssa.IndexAddr); ok && x.iter[ia.X] == IndexIter {
					if _, isSlice := ia.X.Type().Underlying().(*types.Slice); isSlice {
						x.setKind(v, KindV)
					}
				}
			}
		}
	})
	// induction variables: header phi compared against a typed length inside the loop
	for _, l := range ssau.Loops(fn) {
		for _, b := range fn.Blocks {
			if !l.Blocks[b] {
				continue
			}
			if len(b.Instrs) == 0 {
				continue
			}
			ifi, ok := b.Instrs[len(b.Instrs)-1].(*ssa.If)
			if !ok {
				continue
			}
			// one successor must leave the loop
			if l.Blocks[b.Succs[0]] && l.Blocks[b.Succs[1]] {
				continue
			}
			cmp, ok := ifi.Cond.(*ssa.BinOp)
			if !ok {
				continue
			}
			switch cmp.Op {
			case token.LSS, token.LEQ, token.GTR, token.GEQ, token.NEQ:
			default:
				continue
			}
			for _, pair := range [][2]ssa.Value{{cmp.X, cmp.Y}, {cmp.Y, cmp.X}} {
				iv, bound := pair[0], pair[1]
				k := x.lenKind(bound)
				if k == NoKind {
					continue
				}
				if phi := headerPhiOf(iv, l); phi != nil {
					x.setKind(phi, k)
				}
			}
		}
	}
	// derived
	for round := 0; round < 6; round++ {
		changed := false
		ssau.AllInstrs(fn, func(in ssa.Instruction) {
			switch v := in.(type) {
			case *ssa.BinOp:
				switch v.Op {
				case token.ADD, token.SUB, token.MUL:
					kx, ky := x.kind[v.X], x.kind[v.Y]
					_, cx := v.X.(*ssa.Const)
					_, cy := v.Y.(*ssa.Const)
					if kx == KindK && v.Op == token.MUL {
						kx = KindP // primitive number × index size = position of its first index
					}
					if ky == KindK && v.Op == token.MUL {
						ky = KindP
					}
					if kx != NoKind && kx != KindV && cy {
						changed = x.setKind(v, kx) || changed
					}
					if ky != NoKind && ky != KindV && cx && v.Op != token.SUB {
						changed = x.setKind(v, ky) || changed
					}
					// a position of the index array plus an untyped offset (the corner number inside one group:
					// indices[first+corner]) is still a position of the index array
					if v.Op == token.ADD && !cx && !cy {
						if kx == KindP && ky == NoKind && isPlainInt(v.Y) {
							changed = x.setKind(v, KindP) || changed
						} else if ky == KindP && kx == NoKind && isPlainInt(v.X) {
							changed = x.setKind(v, KindP) || changed
						}
					}
				}
			case *ssa.Phi:
				k := NoKind
				ok := true
				for _, e := range v.Edges {
					ek := x.kind[e]
					if ek == NoKind || (k != NoKind && k != ek) {
						ok = false
					}
					k = ek
				}
				if ok {
					changed = x.setKind(v, k) || changed
				}
			case *ssa.Convert:
				changed = x.setKind(v, x.kind[v.X]) || changed
			case *ssa.ChangeType:
				changed = x.setKind(v, x.kind[v.X]) || changed
			}
		})
		if !changed {
			break
		}
	}
}

// headerPhiOf: v is (derived by ± const from) a phi in the header of l.
func headerPhiOf(v ssa.Value, l *ssau.Loop) *ssa.Phi {
	for depth := 0; depth < 4; depth++ {
		switch y := v.(type) {
		case *ssa.Phi:
			if y.Block() == l.Header {
				return y
			}
			return nil
		case *ssa.BinOp:
			if _, ok := y.Y.(*ssa.Const); ok && (y.Op == token.ADD || y.Op == token.SUB) {
				v = y.X
				continue
			}
			// counter + group size <= Len: `for i := 0; i+size <= n; i += size`; the offset is loop-invariant
			if y.Op == token.ADD {
				if yp, isPhi := y.Y.(*ssa.Phi); !isPhi || !l.Blocks[yp.Block()] {
					if yi, isInstr := y.Y.(ssa.Instruction); !isInstr || !l.Blocks[yi.Block()] {
						v = y.X
						continue
					}
				}
			}
			return nil
		default:
			return nil
		}
	}
	return nil
}

func (x *Idx) sites(fn *ssa.Function) {
	ssau.AllInstrs(fn, func(in ssa.Instruction) {
		switch v := in.(type) {
		case *ssa.Call:
			if recv, ok := x.isAtOrLen(v, "At"); ok && len(v.Call.Args) == 2 {
				arg := v.Call.Args[1]
				k := x.kind[arg]
				switch x.iter[recv] {
				case AttrIter:
					x.Sites = append(x.Sites, IdxSite{Fn: fn, Instr: v, Rule: "IDX-1", What: "attribute.At", ArgKind: k, Bad: k == KindP,
						Detail: "attribute iterator subscripted with " + k.String()})
				case IndexIter:
					x.Sites = append(x.Sites, IdxSite{Fn: fn, Instr: v, Rule: "IDX-3", What: "indices.At", ArgKind: k, Bad: k == KindV,
						Detail: "index iterator subscripted with " + k.String()})
				}
			}
			if m := x.meshMethod(v); m == "SetIndices" && len(v.Call.Args) == 2 {
				x.setIndicesElems(fn, v, v.Call.Args[1])
			}
			if o := ssau.CalleeObj(v); o != nil {
				if ssau.IsFunc(o, x.ModelingPath, "NewMesh") && len(v.Call.Args) == 2 {
					x.setIndicesElemsAt(fn, v, v.Call.Args[1], "NewMesh index element")
				}
				if ssau.IsFunc(o, x.ModelingPath, "NewTriangleMesh") && len(v.Call.Args) == 1 {
					x.setIndicesElemsAt(fn, v, v.Call.Args[0], "NewMesh index element")
				}
			}
		case *ssa.Store:
			// Mesh literal (package modeling) that keeps the receiver's attribute maps and installs a new index array
			if fa, ok := v.Addr.(*ssa.FieldAddr); ok {
				if f := ssau.FieldOf(fa); f != nil && x.fieldKind(f) == IndexIter && x.iter[v.Val] != IndexIter {
					carried := false
					for _, r := range ssau.Refs(fa.X) {
						if ofa, ok := r.(*ssa.FieldAddr); ok && x.fieldKind(ssau.FieldOf(ofa)) == AttrIter {
							for _, rr := range ssau.Refs(ofa) {
								if st, ok := rr.(*ssa.Store); ok && st.Addr == ofa && x.iter[st.Val] == AttrIter {
									carried = true
								}
							}
						}
					}
					if carried {
						x.setIndicesElemsAt(fn, v, v.Val, "Mesh{indices:…} element")
					}
				}
			}
		case *ssa.BinOp:
			// IDX-6: a vertex id is never offset by a constant: "the next vertex id" means nothing unless the mesh is
			// identity-indexed (the neighbour of a corner is the next POSITION of the index array, not id+1)
			if v.Op == token.ADD || v.Op == token.SUB {
				for _, pr := range [][2]ssa.Value{{v.X, v.Y}, {v.Y, v.X}} {
					if x.kind[pr[0]] == KindV {
						if c, ok := ssau.ConstInt(pr[1]); ok && c != 0 {
							x.Sites = append(x.Sites, IdxSite{Fn: fn, Instr: v, Rule: "IDX-6", What: "vertex-id ± constant", ArgKind: KindV, Bad: true,
								Detail: "a vertex id read from the index array is offset by a constant: the result is a vertex id only on identity-indexed meshes"})
						}
					}
				}
			}
			// IDX-4: a vertex id may be offset by a vertex count, never by an index count
			if v.Op == token.ADD || v.Op == token.SUB {
				for _, pr := range [][2]ssa.Value{{v.X, v.Y}, {v.Y, v.X}} {
					if x.kind[pr[0]] == KindV {
						if lk := x.lenKind(pr[1]); lk != NoKind {
							x.Sites = append(x.Sites, IdxSite{Fn: fn, Instr: v, Rule: "IDX-4", What: "vertex-id offset", ArgKind: lk, Bad: lk == KindP,
								Detail: "vertex id offset by a length of kind " + lk.String()})
						}
					}
				}
			}
		case *ssa.IndexAddr:
			if _, isSlice := v.X.Type().Underlying().(*types.Slice); !isSlice {
				return
			}
			k := x.kind[v.Index]
			if x.iter[v.X] == NoIter {
				if tk := x.tableOf(v.X); tk != NoKind {
					bad := (tk == KindA && k == KindP) || (tk == KindP && k == KindV)
					x.Sites = append(x.Sites, IdxSite{Fn: fn, Instr: v, Rule: "IDX-5", What: "local table[]", ArgKind: k, Bad: bad,
						Detail: "table sized by " + tk.String() + " subscripted with " + k.String()})
				}
				return
			}
			switch x.iter[v.X] {
			case AttrIter:
				x.Sites = append(x.Sites, IdxSite{Fn: fn, Instr: v, Rule: "IDX-1", What: "attribute[]", ArgKind: k, Bad: k == KindP,
					Detail: "attribute array subscripted with " + k.String()})
			case IndexIter:
				x.Sites = append(x.Sites, IdxSite{Fn: fn, Instr: v, Rule: "IDX-3", What: "indices[]", ArgKind: k, Bad: k == KindV,
					Detail: "index array subscripted with " + k.String()})
			}
		}
	})
}

// setIndicesElems judges every element that can end up in the slice handed to
// m.SetIndices (which keeps m's attribute arrays): it must not be a bare index position.
func (x *Idx) setIndicesElems(fn *ssa.Function, call *ssa.Call, s ssa.Value) {
	x.setIndicesElemsAt(fn, call, s, "SetIndices element")
}

func (x *Idx) setIndicesElemsAt(fn *ssa.Function, call ssa.Instruction, s ssa.Value, what string) {
	// the array may be built by a same-package helper that returns it (filterPrimitives): its elements are judged
	// where they are appended, in the helper
	if c, ok := s.(*ssa.Call); ok && ssau.Builtin(c) == "" {
		if callee := c.Call.StaticCallee(); callee != nil && callee.Blocks != nil && callee.Pkg == fn.Pkg && callee != fn && isIntSlice(c.Type()) && x.helperDepth < 3 {
			x.helperDepth++
			for _, b := range callee.Blocks {
				if r, ok := b.Instrs[len(b.Instrs)-1].(*ssa.Return); ok && len(r.Results) == 1 {
					x.setIndicesElemsAt(callee, r, r.Results[0], what)
				}
			}
			x.helperDepth--
			return
		}
	}
	roots := aliasRoots(s)
	// the array may live in a struct field between its construction and the hand-off
	fields := map[*types.Var]bool{}
	for r := range roots {
		if u, ok := r.(*ssa.UnOp); ok && u.Op == token.MUL {
			if fa, ok := u.X.(*ssa.FieldAddr); ok {
				if f := ssau.FieldOf(fa); f != nil {
					fields[f] = true
				}
			}
		}
	}
	related := func(v ssa.Value) bool {
		for r := range aliasRoots(v) {
			if roots[r] && isAllocLike(r) {
				return true
			}
			if u, ok := r.(*ssa.UnOp); ok && u.Op == token.MUL {
				if fa, ok := u.X.(*ssa.FieldAddr); ok && fields[ssau.FieldOf(fa)] {
					return true
				}
			}
		}
		return false
	}
	// for constructors that may come with rebuilt attribute arrays the identity fill s[i] = i is the one
	// legitimate use of a position as a vertex id (Unweld); for SetIndices (attributes kept) it is not.
	identityOK := what == "NewMesh index element"
	n := 0
	judge := func(at ssa.Instruction, val ssa.Value, identity bool) {
		n++
		for _, prev := range x.Sites {
			if prev.Instr == at && prev.Rule == "IDX-2" && prev.What == what {
				return // the same helper reached from another caller
			}
		}
		k := x.kind[val]
		bad := k == KindP || k == KindK
		detail := "element of the new index array is " + k.String() + describeVal(val)
		if bad && identity && identityOK {
			bad = false
			detail += " — identity fill s[i] = i"
		}
		x.Sites = append(x.Sites, IdxSite{Fn: fn, Instr: at, Rule: "IDX-2", What: what, ArgKind: k, Bad: bad, Detail: detail})
	}
	ssau.AllInstrs(fn, func(in ssa.Instruction) {
		switch v := in.(type) {
		case *ssa.Store:
			if ia, ok := v.Addr.(*ssa.IndexAddr); ok {
				if _, isSlice := ia.X.Type().Underlying().(*types.Slice); isSlice && related(ia.X) {
					judge(v, v.Val, ia.Index == v.Val)
				}
			}
		case *ssa.Call:
			if ssau.Builtin(v) == "append" && len(v.Call.Args) == 2 && (roots[v] || related(v.Call.Args[0])) {
				// elements are stored into the variadic temp array
				if sl, ok := v.Call.Args[1].(*ssa.Slice); ok {
					if arr, ok := sl.X.(*ssa.Alloc); ok {
						for _, r := range ssau.Refs(arr) {
							if ia, ok := r.(*ssa.IndexAddr); ok {
								for _, rr := range ssau.Refs(ia) {
									if st, ok := rr.(*ssa.Store); ok && st.Addr == ia {
										judge(st, st.Val, unconditionalCounterAppend(v, st.Val))
									}
								}
							}
						}
					}
				}
			}
		}
	})
	if n == 0 {
		x.Sites = append(x.Sites, IdxSite{Fn: fn, Instr: call, Rule: "IDX-2", What: what + " (not built here)", Detail: "index array comes from outside this function"})
	}
}

// unconditionalCounterAppend: append(s, i) executed on every iteration of the loop whose
// counter i is — the append form of the identity fill.
func unconditionalCounterAppend(app *ssa.Call, val ssa.Value) bool {
	phi, ok := val.(*ssa.Phi)
	if !ok {
		return false
	}
	// exactly one element is appended per iteration, and the counter advances by one
	if sl, ok := app.Call.Args[1].(*ssa.Slice); ok {
		if arr, ok := sl.X.(*ssa.Alloc); ok {
			if at, ok := arr.Type().Underlying().(*types.Pointer).Elem().Underlying().(*types.Array); !ok || at.Len() != 1 {
				return false
			}
		}
	}
	step := false
	for _, e := range phi.Edges {
		if b, ok := e.(*ssa.BinOp); ok && b.Op == token.ADD && b.X == phi {
			if k, ok := ssau.ConstInt(b.Y); ok && k == 1 {
				step = true
			}
		}
	}
	if !step {
		return false
	}
	for _, l := range ssau.Loops(app.Parent()) {
		if l.Header != phi.Block() || !l.Blocks[app.Block()] {
			continue
		}
		for _, latch := range l.Latch {
			if !app.Block().Dominates(latch) {
				return false
			}
		}
		return true
	}
	return false
}

func isAllocLike(v ssa.Value) bool {
	switch y := v.(type) {
	case *ssa.MakeSlice:
		return true
	case *ssa.Slice:
		_, ok := y.X.(*ssa.Alloc)
		return ok
	}
	return false
}

func describeVal(v ssa.Value) string {
	s := v.String()
	if len(s) > 60 {
		s = s[:60]
	}
	return " (" + strings.TrimSpace(s) + ")"
}

// KindOf / IterKindOf expose the typing (used by SHAPE and PERM).
func (x *Idx) KindOf(v ssa.Value) IntKind      { return x.kind[v] }
func (x *Idx) IterKindOf(v ssa.Value) IterKind { return x.iter[v] }

// isPlainInt: a loop counter or parameter of type int that carries no kind of its own (not a read from a table).
func isPlainInt(v ssa.Value) bool {
	b, ok := v.Type().Underlying().(*types.Basic)
	if !ok || b.Kind() != types.Int {
		return false
	}
	switch v.(type) {
	case *ssa.Phi, *ssa.Parameter:
		return true
	}
	return false
}
