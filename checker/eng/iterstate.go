package eng

// ITER-1 — a mesh accessor iterator is not consumed statefully across iterations.
//
// iter.ArrayIterator carries a cursor: Next() advances it and fails once the end is reached. The repository's
// operations use the random-access half (At / Len) only. A loop that drains an iterator with Next() while itself
// nested in a loop for which the iterator is invariant (one drain per attribute, say) finds the iterator exhausted
// from the second outer iteration on — unless Reset() is called inside that outer loop: every array but the first
// comes out empty. Decided per Next() call: for every enclosing loop the iterator is invariant in, a Reset() on the
// same iterator inside that loop; the same holds across calls (an iterator parameter drained by a function that is
// called more than once with it is reported at the call sites).

import (
	"strings"

	"golang.org/x/tools/go/ssa"

	"polycheck/ssau"
)

type IterFinding struct {
	Fn     *ssa.Function
	At     ssa.Instruction
	OK     bool
	Detail string
}

func isIterMethod(c ssa.CallInstruction, name string) (ssa.Value, bool) {
	o := ssau.CalleeObj(c)
	if o == nil || o.Name() != name || o.Pkg() == nil || !strings.Contains(o.Pkg().Path(), "EliCDavis/iter") {
		return nil, false
	}
	if len(c.Common().Args) == 0 {
		return nil, false
	}
	return c.Common().Args[0], true
}

// IteratorDrains decides ITER-1 for fns.
func IteratorDrains(fns []*ssa.Function) []IterFinding {
	var out []IterFinding
	drainsParam := map[*ssa.Function]map[int]ssa.Instruction{}
	for _, fn := range fns {
		loops := ssau.Loops(fn)
		ssau.AllInstrs(fn, func(in ssa.Instruction) {
			c, ok := in.(ssa.CallInstruction)
			if !ok {
				return
			}
			it, ok := isIterMethod(c, "Next")
			if !ok {
				return
			}
			for _, o := range valueOrigins(it) {
				it = o
			}
			if p, ok := it.(*ssa.Parameter); ok {
				for i, q := range fn.Params {
					if q == p {
						if drainsParam[fn] == nil {
							drainsParam[fn] = map[int]ssa.Instruction{}
						}
						drainsParam[fn][i] = in
					}
				}
			}
			inner := ssau.InnermostLoop(loops, in.Block())
			good, n := true, 0
			for _, l := range loops {
				if !l.Blocks[in.Block()] || l == inner {
					continue
				}
				// invariant in l: defined outside it
				if def, ok := it.(ssa.Instruction); ok && l.Blocks[def.Block()] {
					continue
				}
				n++
				reset := false
				for b := range l.Blocks {
					for _, i2 := range b.Instrs {
						if c2, ok := i2.(ssa.CallInstruction); ok {
							if r, ok := isIterMethod(c2, "Reset"); ok {
								for _, o := range valueOrigins(r) {
									r = o
								}
								if r == it {
									reset = true
								}
							}
						}
					}
				}
				if !reset {
					good = false
				}
			}
			d := "the iterator drained with Next() is created for this drain (no enclosing loop shares it)"
			if n > 0 && good {
				d = "the iterator drained with Next() is rewound with Reset() in every enclosing loop that shares it"
			}
			if !good {
				d = "the iterator is drained with Next() inside a loop that is itself repeated with the same iterator and never rewinds it: from the second repetition on it is exhausted and nothing is produced (the arrays built there stay empty)"
			}
			out = append(out, IterFinding{Fn: fn, At: in, OK: good, Detail: d})
		})
	}
	// across calls: the same iterator value handed more than once to a function that drains that parameter
	for _, fn := range fns {
		type key struct {
			callee *ssa.Function
			idx    int
			it     ssa.Value
		}
		seen := map[key]ssa.Instruction{}
		ssau.AllInstrs(fn, func(in ssa.Instruction) {
			c, ok := in.(ssa.CallInstruction)
			if !ok {
				return
			}
			callee := c.Common().StaticCallee()
			if callee == nil {
				return
			}
			dp := drainsParam[callee]
			if dp == nil && callee.Origin() != nil {
				dp = drainsParam[callee.Origin()]
			}
			for idx := range dp {
				if idx >= len(c.Common().Args) {
					continue
				}
				it := c.Common().Args[idx]
				for _, o := range valueOrigins(it) {
					it = o
				}
				k := key{callee, idx, it}
				if callee.Origin() != nil {
					k.callee = callee.Origin()
				}
				// generic instantiations of one origin drain the same cursor type-independently
				k2 := key{nil, idx, it}
				if first, dup := seen[k2]; dup && first != in {
					out = append(out, IterFinding{Fn: fn, At: in, OK: false, Detail: "the same iterator is handed a second time to a function that drains it with Next() (" + callee.Name() + "): it is already exhausted by the first call"})
				} else {
					seen[k2] = in
				}
				_ = k
			}
		})
	}
	return out
}
