package eng

// NEIGH — operations that recompute one attribute from the mesh's connectivity (flat / smooth normals,
// Laplacian smoothing). They are not element-wise, so SHAPE-2 does not apply; what their contract shares
// with the element-wise transforms, and what is decided here:
//   NEIGH-1  the result is inputMesh.SetFloat3Attribute(target, dst): receiver = the input mesh value (indices,
//            topology, materials, every other attribute carried over), target = the documented attribute (the
//            Normal constant, or the operation's attribute parameter), dst = one make([]T, n) with n the length
//            of the source attribute of the same mesh (Position constant, or the attribute parameter);
//   NEIGH-2  every face normal is cross(B−A, C−A) with A,B,C the positions of the triangle's corners in index
//            order (p1,p2,p3 = indices.At(t), At(t+1), At(t+2)): the winding convention that makes normals
//            point to the outer side;
//   NEIGH-3  every value parameter reaches a stored element, a store index or a loop bound;
//   NEIGH-4  (Laplacian) the neighbour lookup and the neighbour count of an update use the index being updated;
//   NEIGH-6  (normals) the operation has no magic thresholds: normals are scale-free, so no float comparison of a
//            quantity computed from the mesh against a non-zero constant may decide anything (a face skipped below an
//            absolute size makes the result depend on the units of the mesh); NaN tests and comparisons with 0 are
//            the only data-dependent decisions;
//   NEIGH-5  (Laplacian) an update is computed from the working array only — it never reads the input attribute
//            again, so iteration k starts from the result of iteration k−1 ("iterations" compose).

import (
	"go/token"
	"go/types"
	"strings"

	"golang.org/x/tools/go/ssa"

	"polycheck/ssau"
)

type NeighSpec struct {
	// TargetConst / SourceConst: constant attribute names ("" = the operation's string parameter).
	TargetConst string
	SourceConst string
	Normals     bool // NEIGH-2 applies
	Laplacian   bool // NEIGH-4 applies
}

func constString(v ssa.Value) (string, bool) {
	for _, o := range valueOrigins(v) {
		if c, ok := o.(*ssa.Const); ok {
			return ssau.ConstString(c)
		}
	}
	return "", false
}

func stringParamOf(v ssa.Value) *ssa.Parameter {
	os := valueOrigins(v)
	if len(os) == 1 {
		if p, ok := os[0].(*ssa.Parameter); ok {
			if b, ok := p.Type().Underlying().(*types.Basic); ok && b.Kind() == types.String {
				return p
			}
		}
	}
	return nil
}

// AnalyseNeighbourOp decides NEIGH-1..4 for fn.
func AnalyseNeighbourOp(fn *ssa.Function, spec NeighSpec, cfg ShapeConfig) ShapeResult {
	return analyseNeighbourOp(fn, spec, cfg, 0)
}

// neighbourDelegate: every result of fn is the result of one static call to a same-package function with a body
// (the shared implementation of two exported operations); nil otherwise.
func neighbourDelegate(fn *ssa.Function) *ssa.Call {
	var call *ssa.Call
	ok := true
	ssau.AllInstrs(fn, func(in ssa.Instruction) {
		ret, isRet := in.(*ssa.Return)
		if !isRet || len(ret.Results) == 0 {
			return
		}
		os := valueOrigins(ret.Results[0])
		if len(os) != 1 {
			ok = false
			return
		}
		c, isCall := os[0].(*ssa.Call)
		if !isCall {
			ok = false
			return
		}
		g := c.Call.StaticCallee()
		if g == nil || len(g.Blocks) == 0 || g.Pkg == nil || g.Pkg != fn.Pkg || g == fn || (call != nil && call != c) {
			ok = false
			return
		}
		call = c
	})
	if !ok {
		return nil
	}
	return call
}

func analyseNeighbourOp(fn *ssa.Function, spec NeighSpec, cfg ShapeConfig, depth int) ShapeResult {
	res := ShapeResult{Fn: fn, Form: "neighbour"}
	if call := neighbourDelegate(fn); call != nil && depth < 2 {
		// the operation hands its parameters to a shared implementation: the implementation is judged in
		// place of the body, and the hand-over is judged here (same mesh, same attribute, every parameter passed on)
		g := call.Call.StaticCallee()
		sub := analyseNeighbourOp(g, spec, cfg, depth+1)
		res.Form = "neighbour (through " + g.Name() + ")"
		res.Findings = append(res.Findings, sub.Findings...)
		for i, a := range call.Call.Args {
			if i >= len(g.Params) {
				break
			}
			gp := g.Params[i]
			switch {
			case ssau.IsNamed(gp.Type(), cfg.ModelingPath, "Mesh"):
				okM, why := isMeshParamOrigin(a, fn, cfg.ModelingPath)
				res.add("NEIGH-1", okM, call, "mesh handed to "+g.Name()+": "+why)
			case isStringType(gp.Type()) && spec.TargetConst == "":
				res.add("NEIGH-1", stringParamOf(a) != nil, call, "attribute handed to "+g.Name()+" is the operation's attribute parameter")
			}
		}
		for _, p := range fn.Params {
			if ssau.IsNamed(p.Type(), cfg.ModelingPath, "Mesh") || isStringType(p.Type()) {
				continue
			}
			reaches := false
			for _, a := range call.Call.Args {
				if backward(a, true)[p] {
					reaches = true
				}
			}
			res.add("NEIGH-3", reaches, call, "parameter "+p.Name()+map[bool]string{true: " is handed on to " + g.Name(), false: " is not handed on to " + g.Name() + ": the operation ignores it"}[reaches])
		}
		return res
	}
	var dst *ssa.MakeSlice
	var srcIter ssa.Value
	nret := 0
	ssau.AllInstrs(fn, func(in ssa.Instruction) {
		ret, ok := in.(*ssa.Return)
		if !ok || len(ret.Results) == 0 {
			return
		}
		nret++
		for _, o := range valueOrigins(ret.Results[0]) {
			call, ok := o.(*ssa.Call)
			if !ok || !isSetAttr(meshMethodName(call, cfg.ModelingPath)) {
				res.add("NEIGH-1", false, ret, "result is not produced by SetFloat3Attribute on the input mesh")
				continue
			}
			recvOK, why := isMeshParamOrigin(call.Call.Args[0], fn, cfg.ModelingPath)
			res.add("NEIGH-1", recvOK, call, "setter receiver: "+why)
			// target attribute
			if spec.TargetConst != "" {
				s, ok := constString(call.Call.Args[1])
				res.add("NEIGH-1", ok && s == spec.TargetConst, call, "attribute written: "+constOrName(call.Call.Args[1])+" (documented target "+spec.TargetConst+")")
			} else {
				res.add("NEIGH-1", stringParamOf(call.Call.Args[1]) != nil, call, "attribute written is the operation's attribute parameter")
			}
			// destination
			n := 0
			for r := range aliasRoots(call.Call.Args[2]) {
				if ms, ok := r.(*ssa.MakeSlice); ok {
					dst = ms
					n++
				} else if isAllocLike(r) {
					n++
				}
			}
			for _, oo := range valueOrigins(call.Call.Args[2]) {
				for r := range aliasRoots(oo) {
					if ms, ok := r.(*ssa.MakeSlice); ok && ms != dst {
						dst = ms
						n++
					}
				}
			}
			if dst == nil || n != 1 {
				res.add("NEIGH-1", false, call, "the new attribute array is not a single make([]T, n) in this function")
				dst = nil
				continue
			}
			// length = Len() of the source attribute of the input mesh
			lc, ok := dst.Len.(*ssa.Call)
			okLen := false
			if ok {
				if o := ssau.CalleeObj(lc); o != nil && o.Name() == "Len" && len(lc.Call.Args) == 1 && isIterType(lc.Call.Args[0].Type()) {
					it := lc.Call.Args[0]
					if u, ok := it.(*ssa.UnOp); ok && u.Op == token.MUL {
						it = u.X
					}
					if attr, ok := attrOfSource(it, fn, cfg); ok {
						srcIter = it
						if spec.SourceConst != "" {
							s, ok := constString(attr)
							okLen = ok && s == spec.SourceConst
						} else {
							okLen = stringParamOf(attr) != nil && stringParamOf(attr) == stringParamOf(call.Call.Args[1])
						}
					}
				}
			}
			res.add("NEIGH-1", okLen, dst, "new array has the length of the source attribute of the input mesh")
		}
	})
	if nret == 0 {
		res.add("NEIGH-1", false, nil, "function never returns a result")
	}
	if dst == nil {
		return res
	}
	// stores into dst
	var stores []*ssa.Store
	var visit func(f *ssa.Function)
	visit = func(f *ssa.Function) {
		ssau.AllInstrs(f, func(in ssa.Instruction) {
			if st, ok := in.(*ssa.Store); ok {
				if ia, ok := st.Addr.(*ssa.IndexAddr); ok {
					for _, o := range valueOrigins(ia.X) {
						if aliasRoots(o)[dst] {
							stores = append(stores, st)
							return
						}
					}
				}
			}
		})
		for _, a := range f.AnonFuncs {
			visit(a)
		}
	}
	visit(fn)

	// NEIGH-2
	if spec.Normals {
		nc := 0
		ssau.AllInstrs(fn, func(in ssa.Instruction) {
			call, ok := in.(*ssa.Call)
			if !ok {
				return
			}
			o := ssau.CalleeObj(call)
			if o == nil || o.Name() != "Cross" || o.Pkg() == nil || !strings.Contains(o.Pkg().Path(), "EliCDavis/vector") || len(call.Call.Args) != 2 {
				return
			}
			nc++
			okA, a1, a0 := subOfCorners(call.Call.Args[0], srcIter)
			okB, b1, b0 := subOfCorners(call.Call.Args[1], srcIter)
			good := okA && okB && a1 == 1 && a0 == 0 && b1 == 2 && b0 == 0
			d := "face normal = cross(P2−P1, P3−P1) of the triangle's corners in index order"
			if !good {
				d = "face normal is not cross(P2−P1, P3−P1) of the corners in index order (operands: " + cornerDesc(okA, a1, a0) + " × " + cornerDesc(okB, b1, b0) + "): the normals point to the other side or use the wrong corners"
			}
			res.add("NEIGH-2", good, call, d)
		})
		if nc == 0 {
			res.add("NEIGH-2", false, dst, "no cross product found: the face-normal idiom is not recognised")
		}
	}
	// NEIGH-6
	if spec.Normals {
		nz, nonzero := 0, 0
		var first ssa.Instruction
		ssau.AllInstrs(fn, func(in ssa.Instruction) {
			b, ok := in.(*ssa.BinOp)
			if !ok {
				return
			}
			switch b.Op {
			case token.LSS, token.LEQ, token.GTR, token.GEQ, token.EQL, token.NEQ:
			default:
				return
			}
			bt, ok := b.X.Type().Underlying().(*types.Basic)
			if !ok || bt.Info()&types.IsFloat == 0 {
				return
			}
			for _, pr := range [][2]ssa.Value{{b.X, b.Y}, {b.Y, b.X}} {
				k, ok := pr[1].(*ssa.Const)
				if !ok || k.Value == nil {
					continue
				}
				// the other side must come from the mesh (not a parameter-only expression)
				fromMesh := false
				for d := range backward(pr[0], true) {
					if _, ok := readOf(d); ok {
						fromMesh = true
					}
				}
				if !fromMesh {
					continue
				}
				nz++
				if k.Float64() != 0 {
					nonzero++
					if first == nil {
						first = b
					}
				}
			}
		})
		d := "no quantity computed from the mesh is compared with a non-zero constant (" + itoa(nz) + " comparisons with 0): the normals do not depend on the scale of the mesh"
		if nonzero > 0 {
			d = "a quantity computed from the mesh is compared with a non-zero constant: an absolute threshold makes the normals depend on the scale of the mesh (small faces are treated differently from large ones)"
		}
		var at ssa.Instruction = dst
		if first != nil {
			at = first
		}
		res.add("NEIGH-6", nonzero == 0, at, d)
	}
	// NEIGH-3
	deps := map[ssa.Value]bool{}
	for _, st := range stores {
		for d := range backward(st.Val, true) {
			deps[d] = true
		}
		if ia, ok := st.Addr.(*ssa.IndexAddr); ok {
			for d := range backward(ia.Index, true) {
				deps[d] = true
			}
		}
	}
	for _, l := range ssau.Loops(fn) {
		for b := range l.Blocks {
			if len(b.Instrs) == 0 {
				continue
			}
			if ifi, ok := b.Instrs[len(b.Instrs)-1].(*ssa.If); ok && !(l.Blocks[b.Succs[0]] && l.Blocks[b.Succs[1]]) {
				for d := range backward(ifi.Cond, true) {
					deps[d] = true
				}
			}
		}
	}
	for _, p := range fn.Params {
		if ssau.IsNamed(p.Type(), cfg.ModelingPath, "Mesh") {
			continue
		}
		if b, ok := p.Type().Underlying().(*types.Basic); ok && b.Kind() == types.String {
			continue
		}
		res.add("NEIGH-3", deps[p], dst, "parameter "+p.Name()+map[bool]string{true: " reaches the stored elements, a store index or a loop bound", false: " never influences the result: the operation ignores it"}[deps[p]])
	}
	// NEIGH-4
	if spec.Laplacian {
		for _, st := range stores {
			ia := st.Addr.(*ssa.IndexAddr)
			idx := ia.Index
			nl, bad := 0, 0
			for d := range backwardSameIteration(st.Val, fn) {
				call, ok := d.(*ssa.Call)
				if !ok {
					continue
				}
				o := ssau.CalleeObj(call)
				if o == nil || !(o.Name() == "Lookup" || o.Name() == "Count") || o.Pkg() == nil || o.Pkg().Path() != cfg.ModelingPath || len(call.Call.Args) != 2 {
					continue
				}
				nl++
				if call.Call.Args[1] != idx {
					bad++
				}
			}
			// stores that merely copy the old value (initialisation) have no neighbour call
			if nl == 0 {
				continue
			}
			res.add("NEIGH-4", bad == 0, st, map[bool]string{true: "neighbour lookup and count use the index being updated", false: "a neighbour lookup / count uses a different index than the vertex being updated"}[bad == 0])
			orig := 0
			for d := range backward(st.Val, true) {
				if call, ok := d.(*ssa.Call); ok && srcIter != nil {
					if rd, ok := readOf(call); ok && sameSource(rd.src, srcIter) {
						orig++
					}
				}
			}
			res.add("NEIGH-5", orig == 0, st, map[bool]string{true: "the update reads the working array only: every iteration continues from the previous one", false: "the update reads the input attribute again: every iteration restarts from the original values instead of the previous iteration's"}[orig == 0])
		}
	}
	return res
}

// subOfCorners: v = At(V, p_i) − At(V, p_j) with p_k = indices.At(base+k); returns (ok, i, j).
func subOfCorners(v ssa.Value, vertices ssa.Value) (bool, int64, int64) {
	call, ok := v.(*ssa.Call)
	if !ok {
		return false, -1, -1
	}
	o := ssau.CalleeObj(call)
	if o == nil || o.Name() != "Sub" || len(call.Call.Args) != 2 {
		return false, -1, -1
	}
	i, ok1 := cornerOf(call.Call.Args[0], vertices)
	j, ok2 := cornerOf(call.Call.Args[1], vertices)
	return ok1 && ok2, i, j
}

// cornerOf: v = vertices.At(indices.At(base + k)) → k.
func cornerOf(v ssa.Value, vertices ssa.Value) (int64, bool) {
	rd, ok := readOf(v)
	if !ok || (vertices != nil && !sameSource(rd.src, vertices)) {
		return -1, false
	}
	ic, ok := rd.idx.(*ssa.Call)
	if !ok {
		return -1, false
	}
	ird, ok := readOf(ic)
	if !ok {
		return -1, false
	}
	switch x := ird.idx.(type) {
	case *ssa.Phi:
		return 0, true
	case *ssa.BinOp:
		if x.Op == token.ADD {
			if _, isPhi := x.X.(*ssa.Phi); isPhi {
				if k, ok := ssau.ConstInt(x.Y); ok {
					return k, true
				}
			}
		}
	}
	return -1, false
}

func cornerDesc(ok bool, a, b int64) string {
	if !ok {
		return "?"
	}
	return "P" + itoa(int(a)+1) + "−P" + itoa(int(b)+1)
}

func isStringType(t types.Type) bool {
	b, ok := t.Underlying().(*types.Basic)
	return ok && b.Kind() == types.String
}

// backwardSameIteration: the values v is computed from without crossing a loop-carried φ — joins of an if / else
// inside one iteration are followed, loop-header φs are not.
func backwardSameIteration(v ssa.Value, fn *ssa.Function) map[ssa.Value]bool {
	headers := map[*ssa.BasicBlock]bool{}
	for _, l := range ssau.Loops(fn) {
		headers[l.Header] = true
	}
	out := map[ssa.Value]bool{}
	work := []ssa.Value{v}
	for len(work) > 0 {
		x := work[len(work)-1]
		work = work[:len(work)-1]
		for d := range backward(x, false) {
			if out[d] {
				continue
			}
			out[d] = true
			if ph, ok := d.(*ssa.Phi); ok && !headers[ph.Block()] {
				work = append(work, ph.Edges...)
			}
		}
	}
	return out
}
