package eng

// NEIGH-7 — the vertex neighbour table links what the topology says is connected.
//
// The connectivity-based operations (Laplacian smoothing, …) take their neighbourhoods from
// modeling.Mesh.VertexNeighborTable. For a *list* topology (triangles, quads, lines: disjoint groups of n
// indices) the linking loop must advance by n and link only indices of one group [k·n, k·n+n); for a *strip* or
// *loop* topology it advances by 1 and links consecutive indices. A line list walked like a strip links the end
// of one segment to the start of the next: unrelated vertices are averaged.
//
// Decided per (Link call, topology constant under which the call is reached): the switch on the topology is
// followed edge by edge (a case body shared by several constants is judged once per constant, a nested
// `if topology == K` is honoured).

import (
	"fmt"
	"go/token"
	"go/types"
	"sort"

	"golang.org/x/tools/go/ssa"

	"polycheck/ssau"
)

// TopoKind: N > 0 — list topology with groups of N indices; N == 0 — strip / loop (consecutive indices).
type TopoKind struct {
	Name string
	N    int64
}

type topoTest struct {
	k int64
}

func topoTestOf(b *ssa.BasicBlock, modelingPath string) (int64, bool) {
	if len(b.Instrs) == 0 {
		return 0, false
	}
	ifi, ok := b.Instrs[len(b.Instrs)-1].(*ssa.If)
	if !ok {
		return 0, false
	}
	cmp, ok := ifi.Cond.(*ssa.BinOp)
	if !ok || cmp.Op != token.EQL {
		return 0, false
	}
	for _, pr := range [][2]ssa.Value{{cmp.X, cmp.Y}, {cmp.Y, cmp.X}} {
		if !ssau.IsNamed(pr[0].Type(), modelingPath, "Topology") {
			continue
		}
		if k, ok := ssau.ConstInt(pr[1]); ok {
			if _, isConst := pr[0].(*ssa.Const); !isConst {
				return k, true
			}
		}
	}
	return 0, false
}

// AnalyseNeighbourTable decides NEIGH-7 for fn; undecided lists constructs the rule could not read.
func AnalyseNeighbourTable(fn *ssa.Function, kinds map[int64]TopoKind, modelingPath string) (res ShapeResult, undecided []string) {
	res = ShapeResult{Fn: fn, Form: "neighbour-table"}
	if len(fn.Blocks) == 0 {
		return res, []string{"function has no body"}
	}
	// blocks reached while the topology is K
	under := map[int64]map[*ssa.BasicBlock]bool{}
	for k := range kinds {
		seen := map[*ssa.BasicBlock]bool{}
		var walk func(b *ssa.BasicBlock)
		walk = func(b *ssa.BasicBlock) {
			if seen[b] {
				return
			}
			seen[b] = true
			if tk, ok := topoTestOf(b, modelingPath); ok {
				if tk == k {
					walk(b.Succs[0])
				} else {
					walk(b.Succs[1])
				}
				return
			}
			for _, s := range b.Succs {
				walk(s)
			}
		}
		walk(fn.Blocks[0])
		under[k] = seen
	}
	var keys []int64
	for k := range kinds {
		keys = append(keys, k)
	}
	sort.Slice(keys, func(i, j int) bool { return keys[i] < keys[j] })
	loops := ssau.Loops(fn)
	type counter struct {
		phi         *ssa.Phi
		start, step int64
	}
	counterOf := func(l *ssau.Loop) *counter {
		for _, in := range l.Header.Instrs {
			ph, ok := in.(*ssa.Phi)
			if !ok {
				break
			}
			if b, ok := ph.Type().Underlying().(*types.Basic); !ok || b.Info()&types.IsInteger == 0 {
				continue
			}
			c := &counter{phi: ph}
			okStart, okStep := false, false
			for i, e := range ph.Edges {
				pred := ph.Block().Preds[i]
				if !l.Blocks[pred] {
					if k, ok := ssau.ConstInt(e); ok {
						c.start, okStart = k, true
					}
					continue
				}
				bo, ok := e.(*ssa.BinOp)
				if !ok || bo.Op != token.ADD {
					okStep = false
					break
				}
				var kv ssa.Value
				switch {
				case bo.X == ph:
					kv = bo.Y
				case bo.Y == ph:
					kv = bo.X
				}
				if k, ok := ssau.ConstInt(kv); kv != nil && ok {
					if okStep && c.step != k {
						okStep = false
						break
					}
					c.step, okStep = k, true
				}
			}
			if okStart && okStep {
				return c
			}
		}
		return nil
	}
	// affine: v = a·counter + b with constant a, b
	var affine func(v ssa.Value, c *counter, d int) (a, b int64, ok bool)
	affine = func(v ssa.Value, c *counter, d int) (int64, int64, bool) {
		if d > 6 {
			return 0, 0, false
		}
		if v == ssa.Value(c.phi) {
			return 1, 0, true
		}
		if k, ok := ssau.ConstInt(v); ok {
			return 0, k, true
		}
		x, ok := v.(*ssa.BinOp)
		if !ok {
			return 0, 0, false
		}
		a1, b1, ok1 := affine(x.X, c, d+1)
		a2, b2, ok2 := affine(x.Y, c, d+1)
		if !ok1 || !ok2 {
			return 0, 0, false
		}
		switch x.Op {
		case token.ADD:
			return a1 + a2, b1 + b2, true
		case token.SUB:
			return a1 - a2, b1 - b2, true
		case token.MUL:
			if a1 == 0 {
				return b1 * a2, b1 * b2, true
			}
			if a2 == 0 {
				return a1 * b2, b1 * b2, true
			}
		}
		return 0, 0, false
	}
	// offsetOf: the argument is indices[a·counter + b]; returns (a, b)
	offsetOf := func(v ssa.Value, c *counter) (int64, int64, bool) {
		u, ok := v.(*ssa.UnOp)
		if !ok || u.Op != token.MUL {
			return 0, 0, false
		}
		ia, ok := u.X.(*ssa.IndexAddr)
		if !ok || !isIntSlice(ia.X.Type()) {
			return 0, 0, false
		}
		a, b, ok := affine(ia.Index, c, 0)
		if !ok || a <= 0 {
			return 0, 0, false
		}
		return a, b, true
	}
	ssau.AllInstrs(fn, func(in ssa.Instruction) {
		call, ok := in.(*ssa.Call)
		if !ok {
			return
		}
		o := ssau.CalleeObj(call)
		if o == nil || o.Name() != "Link" || o.Pkg() == nil || o.Pkg().Path() != modelingPath {
			return
		}
		args := call.Call.Args
		if len(args) != 3 { // receiver + two vertex ids
			return
		}
		l := ssau.InnermostLoop(loops, call.Block())
		for _, k := range keys {
			kind := kinds[k]
			if !under[k][call.Block()] {
				continue
			}
			if l == nil {
				// a single link outside the loops: the closing link of a loop topology
				okc := kind.N == 0
				d := "a link outside the linking loop is made for " + kind.Name + " (closing link of a strip / loop topology)"
				if !okc {
					d = "a link outside the linking loop is made for the list topology " + kind.Name + ": vertices of different primitives are connected"
				}
				res.add("NEIGH-7", okc, call, d)
				res.Findings[len(res.Findings)-1].Tag = kind.Name
				continue
			}
			c := counterOf(l)
			if c == nil {
				undecided = append(undecided, fmt.Sprintf("%s: the linking loop has no counter with a constant start and step", kind.Name))
				continue
			}
			m1, o1, ok1 := offsetOf(args[1], c)
			m2, o2, ok2 := offsetOf(args[2], c)
			if !ok1 || !ok2 || m1 != m2 {
				undecided = append(undecided, fmt.Sprintf("%s: a linked vertex id is not indices[k·counter ± const] with one k", kind.Name))
				continue
			}
			// positions in the first iteration and the distance between iterations
			a, b := m1*c.start+o1, m1*c.start+o2
			c = &counter{phi: c.phi, start: c.start, step: c.step * m1}
			lo, hi := a, b
			if lo > hi {
				lo, hi = hi, lo
			}
			var good bool
			var d string
			if kind.N > 0 {
				good = c.step == kind.N && lo >= 0 && hi < kind.N
				d = fmt.Sprintf("%s: the linking loop advances by %d and links positions %d and %d of each group of %d indices", kind.Name, c.step, a, b, kind.N)
				if !good {
					d = fmt.Sprintf("%s is a list of groups of %d indices, but the linking loop advances by %d and its first iteration links positions %d and %d: vertices of different primitives are connected (or connections inside a primitive are missed)", kind.Name, kind.N, c.step, a, b)
				}
			} else {
				good = c.step == 1 && hi-lo == 1 && lo == 0
				d = fmt.Sprintf("%s: the linking loop advances by 1 and links consecutive indices", kind.Name)
				if !good {
					d = fmt.Sprintf("%s connects consecutive indices, but the linking loop advances by %d and its first iteration links positions %d and %d", kind.Name, c.step, a, b)
				}
			}
			res.add("NEIGH-7", good, call, d)
			res.Findings[len(res.Findings)-1].Tag = kind.Name
		}
	})
	return res, undecided
}
