// Package eng: the rule engines (DESIGN.md section 3).
package eng

import (
	"go/types"

	"golang.org/x/tools/go/ssa"

	"polycheck/ssau"
)

// ORD-2: the address of a per-loop variable (an Alloc outside the loop that is
// re-assigned inside it — the pre-go1.22 semantics selected by go.mod) is kept in
// a place that outlives the iteration, at a point from which the loop continues.

type LoopVarEscape struct {
	Fn    *ssa.Function
	Var   *ssa.Alloc
	At    ssa.Instruction
	How   string
	Loops int
}

type LoopVarStats struct {
	Loops      int // loops examined
	Candidates int // (alloc, loop) pairs where the alloc is outside and re-assigned inside
	AddrTaken  int // candidates whose address flows anywhere but load/store
}

type retainKey struct {
	fn      *ssa.Function
	param   int
	wrapped bool
}

type ord2 struct {
	memo map[retainKey]int // 0 unknown/in progress, 1 no, 2 yes
}

func LoopVarAddrEscapes(fns []*ssa.Function) ([]LoopVarEscape, LoopVarStats) {
	o := &ord2{memo: map[retainKey]int{}}
	var out []LoopVarEscape
	var st LoopVarStats
	for _, fn := range fns {
		loops := ssau.Loops(fn)
		st.Loops += len(loops)
		if len(loops) == 0 {
			continue
		}
		var allocs []*ssa.Alloc
		ssau.AllInstrs(fn, func(in ssa.Instruction) {
			if a, ok := in.(*ssa.Alloc); ok {
				allocs = append(allocs, a)
			}
		})
		for _, a := range allocs {
			for _, l := range loops {
				if l.Blocks[a.Block()] {
					continue
				}
				reassigned := false
				for _, r := range ssau.Refs(a) {
					if s, ok := r.(*ssa.Store); ok && s.Addr == a && l.Blocks[s.Block()] {
						reassigned = true
					}
				}
				if !reassigned {
					continue
				}
				st.Candidates++
				esc, taken := o.escapesInLoop(a, l)
				if taken {
					st.AddrTaken++
				}
				for _, e := range esc {
					out = append(out, LoopVarEscape{Fn: fn, Var: a, At: e.at, How: e.how})
				}
			}
		}
	}
	return out, st
}

type escapeAt struct {
	at  ssa.Instruction
	how string
}

type taintKind int

const (
	direct  taintKind = 1 // a pointer to (part of) the variable
	wrapped taintKind = 2 // a value that contains such a pointer
)

// flow propagates "holds the address" from seed through fn. inLoop==nil means the
// whole function (summary mode). report is called for every place the address
// is retained beyond the current activation / iteration.
func (o *ord2) flow(seed ssa.Value, kind taintKind, inLoop *ssau.Loop, depth int, report func(at ssa.Instruction, how string)) (anyUse bool) {
	taint := map[ssa.Value]taintKind{seed: kind}
	work := []ssa.Value{seed}
	containers := map[*ssa.Alloc]bool{}
	add := func(v ssa.Value, k taintKind) {
		if old, ok := taint[v]; ok && old >= k {
			return
		}
		taint[v] = k
		work = append(work, v)
	}
	in := func(b *ssa.BasicBlock) bool { return inLoop == nil || inLoop.Blocks[b] }
	markContainer := func(a *ssa.Alloc) {
		if containers[a] {
			return
		}
		containers[a] = true
		// every load from a (or from a field/element of a) now holds the address
		var visit func(p ssa.Value)
		visit = func(p ssa.Value) {
			for _, r := range ssau.Refs(p) {
				switch r := r.(type) {
				case *ssa.UnOp:
					if r.X == p {
						add(r, wrapped)
					}
				case *ssa.FieldAddr:
					visit(r)
				case *ssa.IndexAddr:
					visit(r)
				case *ssa.Slice:
					if r.X == p {
						add(r, wrapped)
					}
				}
			}
		}
		visit(a)
	}
	for len(work) > 0 {
		v := work[len(work)-1]
		work = work[:len(work)-1]
		k := taint[v]
		for _, r := range ssau.Refs(v) {
			if !in(r.Block()) {
				continue
			}
			switch r := r.(type) {
			case *ssa.Store:
				if r.Addr == v && r.Val != v {
					continue // write through the pointer
				}
				anyUse = true
				root := addrRoot(r.Addr)
				if a, ok := root.(*ssa.Alloc); ok {
					if inLoop != nil && !inLoop.Blocks[a.Block()] {
						report(r, "stored into a variable declared outside the loop")
						continue
					}
					markContainer(a)
					continue
				}
				report(r, "stored into memory that outlives the iteration ("+describeRoot(root)+")")
			case *ssa.UnOp:
				if k == direct {
					continue // load of the variable's value
				}
				// loading through a wrapped pointer-ish value: conservatively keep wrapped
				anyUse = true
				add(r, wrapped)
			case *ssa.FieldAddr:
				if r.X == v {
					add(r, k)
				}
			case *ssa.IndexAddr:
				if r.X == v {
					add(r, k)
				}
			case *ssa.Field:
				add(r, wrapped)
			case *ssa.Index:
				add(r, wrapped)
			case *ssa.Phi:
				anyUse = true
				if inLoop != nil && r.Block() == inLoop.Header {
					report(r, "carried into the next iteration through a loop-header phi")
					continue
				}
				add(r, k)
			case *ssa.ChangeType:
				add(r, k)
			case *ssa.Convert:
				add(r, k)
			case *ssa.MakeInterface:
				anyUse = true
				add(r, k)
			case *ssa.ChangeInterface:
				add(r, k)
			case *ssa.TypeAssert:
				add(r, k)
			case *ssa.Extract:
				add(r, k)
			case *ssa.Slice:
				add(r, k)
			case *ssa.MakeClosure:
				anyUse = true
				add(r, wrapped)
			case *ssa.Send:
				anyUse = true
				if r.X == v {
					report(r, "sent on a channel")
				}
			case *ssa.Go:
				anyUse = true
				report(r, "handed to a goroutine")
			case *ssa.Defer:
				anyUse = true
			case *ssa.Return:
				anyUse = true
				if inLoop == nil {
					report(r, "returned")
				}
			case *ssa.MapUpdate:
				anyUse = true
				if r.Map != v {
					report(r, "stored into a map")
				}
			case *ssa.Call:
				anyUse = true
				o.flowCall(r, v, k, depth, add, report)
			}
		}
	}
	return anyUse
}

func (o *ord2) flowCall(call *ssa.Call, v ssa.Value, k taintKind, depth int, add func(ssa.Value, taintKind), report func(ssa.Instruction, string)) {
	cc := call.Common()
	if b := ssau.Builtin(call); b != "" {
		switch b {
		case "append":
			for i, a := range cc.Args {
				if a == v && (i > 0 || k == wrapped) {
					add(call, wrapped)
				}
			}
		case "copy":
			if len(cc.Args) == 2 && cc.Args[1] == v && k == wrapped {
				report(call, "copied into another slice")
			}
		}
		return
	}
	if cc.Value == v && !cc.IsInvoke() {
		return // calling the closure that captured the variable: synchronous use
	}
	if cc.IsInvoke() {
		if cc.Value == v {
			return // method call on the value itself
		}
		if k == wrapped {
			report(call, "passed inside a value to a dynamically dispatched method ("+cc.Method.Name()+"), which may retain it")
		}
		return
	}
	callee := cc.StaticCallee()
	if callee == nil {
		if k == wrapped {
			report(call, "passed inside a value to a function value, which may retain it")
		}
		return
	}
	if callee.Blocks == nil {
		return
	}
	for i, a := range cc.Args {
		if a != v || i >= len(callee.Params) {
			continue
		}
		switch o.retains(callee, i, k == wrapped, depth+1) {
		case 2:
			report(call, "passed to "+callee.String()+", which keeps it")
		case 3:
			add(call, wrapped)
		}
	}
}

// retains: 1 = no, 2 = retained, 3 = returned to the caller.
func (o *ord2) retains(fn *ssa.Function, param int, wr bool, depth int) int {
	key := retainKey{fn, param, wr}
	if r, ok := o.memo[key]; ok {
		if r == 0 {
			return 1
		}
		return r
	}
	if depth > 4 {
		return 1
	}
	o.memo[key] = 0
	res := 1
	k := direct
	if wr {
		k = wrapped
	}
	o.flow(fn.Params[param], k, nil, depth, func(at ssa.Instruction, how string) {
		if _, isRet := at.(*ssa.Return); isRet {
			if res == 1 {
				res = 3
			}
			return
		}
		res = 2
	})
	o.memo[key] = res
	return res
}

func (o *ord2) escapesInLoop(a *ssa.Alloc, l *ssau.Loop) ([]escapeAt, bool) {
	var out []escapeAt
	seen := map[ssa.Instruction]bool{}
	taken := o.flow(a, direct, l, 0, func(at ssa.Instruction, how string) {
		if seen[at] {
			return
		}
		seen[at] = true
		// only when the loop goes on after this point
		goesOn := false
		for _, latch := range l.Latch {
			if reachWithin(at.Block(), latch, l) {
				goesOn = true
			}
		}
		if goesOn {
			out = append(out, escapeAt{at, how})
		}
	})
	return out, taken
}

func reachWithin(a, b *ssa.BasicBlock, l *ssau.Loop) bool {
	seen := map[*ssa.BasicBlock]bool{}
	stack := []*ssa.BasicBlock{a}
	for len(stack) > 0 {
		n := stack[len(stack)-1]
		stack = stack[:len(stack)-1]
		if n == b {
			return true
		}
		if seen[n] || !l.Blocks[n] {
			continue
		}
		seen[n] = true
		for _, s := range n.Succs {
			if s == l.Header && n != b {
				continue
			}
			stack = append(stack, s)
		}
	}
	return false
}

func addrRoot(v ssa.Value) ssa.Value {
	for {
		switch x := v.(type) {
		case *ssa.FieldAddr:
			v = x.X
		case *ssa.IndexAddr:
			if _, isPtr := x.X.Type().Underlying().(*types.Pointer); isPtr {
				v = x.X // pointer to array
			} else {
				return v // element of a slice: memory owned elsewhere
			}
		default:
			return v
		}
	}
}

func describeRoot(v ssa.Value) string {
	switch x := v.(type) {
	case *ssa.Global:
		return "package variable " + x.Name()
	case *ssa.Parameter:
		return "memory reached from parameter " + x.Name()
	case *ssa.IndexAddr:
		return "a slice element"
	case *ssa.FreeVar:
		return "captured variable " + x.Name()
	}
	return "memory reached through " + v.Name()
}
