package eng

// OWN — ownership / aliasing of mesh storage (DESIGN.md §3.1).
//
// A whole-repository, flow-insensitive (SSA) classification of every slice / map
// value as Fresh (allocated by the code that writes it), Owned (may belong to an
// existing mesh) or Unknown, with a field-based model of memory:
//   * every load of a modeling.Mesh storage field is Owned; a map loaded from such
//     a field is Owned and so is every slice found in it;
//   * local variables captured by closures / address-taken (Alloc cells), maps and
//     slices-of-slices are containers whose content class is the join of what is
//     stored into them;
//   * struct fields are modelled per field object (all instances merged), so a
//     field that ever receives Owned storage (iter.ArrayIterator.data, Tri.mesh…)
//     yields Owned on every load;
//   * parameters get the join of their arguments over all call sites in the
//     repository (+ Unknown when the function can be called from outside).
// Write sinks are then judged against the class of the storage they write.

import (
	"go/token"
	"go/types"
	"sort"
	"strings"

	"golang.org/x/tools/go/ssa"

	"polycheck/ssau"
)

type Class uint8

const (
	Bot Class = iota
	Fresh
	Unknown
	Owned
)

func (c Class) String() string {
	return [...]string{"unreached", "Fresh", "Unknown", "Owned"}[c]
}

func joinC(a, b Class) Class {
	if a > b {
		return a
	}
	return b
}

type locKind uint8

const (
	lkValue  locKind = iota // content of an allocation site (Alloc cell, make(map), make([][]T))
	lkField                 // content of a struct field (all instances)
	lkGlobal                // content of a package variable
	lkOwned                 // the abstract "storage of some existing mesh"
)

type loc struct {
	kind locKind
	v    ssa.Value
	f    *types.Var
}

type locset map[loc]struct{}

// Sink is one write-capable instruction.
type Sink struct {
	Fn    *ssa.Function
	Instr ssa.Instruction
	Base  ssa.Value // the slice / map written
	Kind  string    // "store", "append", "copy", "mapupdate", "delete", "clear", "call:sort.Ints"…
	Class Class
	Why   string // provenance of the class (one step)
}

type OwnConfig struct {
	ModelingPath string                   // import path of package modeling
	MeshFields   map[*types.Var]bool      // storage fields of modeling.Mesh
	InDomain     func(*ssa.Function) bool // functions with bodies that are analysed when reached
	Roots        []*ssa.Function
	// EscapeHatch: slice/map types through which code outside the repository can hold mesh storage.
	EscapeHatch func(types.Type) bool
}

type Own struct {
	cfg     OwnConfig
	Funcs   []*ssa.Function
	inFuncs map[*ssa.Function]bool

	cls         map[ssa.Value]Class
	why         map[ssa.Value]string
	pts         map[ssa.Value]locset
	content     map[loc]Class
	contentWhy  map[loc]string
	contentPts  map[loc]locset
	globalReach map[loc]*ssa.Global // cache of keptInGlobal, dropped when contentPts grows
	retCls      map[*ssa.Function][]Class
	retPts      map[*ssa.Function][]locset
	closureOf   map[*ssa.Function]*ssa.MakeClosure
	escapedFn   map[*ssa.Function]bool // function value used other than as a callee
	changed     bool

	own2 *own2state

	Sinks        []Sink
	DynEscapes   []DynEscape
	HandoffSites int
}

// DynEscape: an Owned/Unknown storage value passed to a callee that cannot be analysed.
type DynEscape struct {
	Fn    *ssa.Function
	Instr ssa.Instruction
	Arg   ssa.Value
	Class Class
	To    string
}

var ownedLoc = loc{kind: lkOwned}

func NewOwn(cfg OwnConfig) *Own {
	o := &Own{cfg: cfg, inFuncs: map[*ssa.Function]bool{}, cls: map[ssa.Value]Class{}, why: map[ssa.Value]string{},
		pts: map[ssa.Value]locset{}, content: map[loc]Class{}, contentWhy: map[loc]string{}, contentPts: map[loc]locset{},
		retCls: map[*ssa.Function][]Class{}, retPts: map[*ssa.Function][]locset{}, closureOf: map[*ssa.Function]*ssa.MakeClosure{},
		escapedFn: map[*ssa.Function]bool{}}
	// domain = roots + transitively called functions with bodies that InDomain accepts
	var add func(f *ssa.Function)
	add = func(f *ssa.Function) {
		if f == nil || o.inFuncs[f] || f.Blocks == nil {
			return
		}
		o.inFuncs[f] = true
		o.Funcs = append(o.Funcs, f)
		for _, a := range f.AnonFuncs {
			add(a)
		}
		ssau.AllInstrs(f, func(in ssa.Instruction) {
			if c, ok := in.(ssa.CallInstruction); ok {
				if callee := c.Common().StaticCallee(); callee != nil && callee.Blocks != nil && (cfg.InDomain(callee) || callee.Synthetic != "") {
					add(callee)
				}
			}
		})
	}
	for _, r := range cfg.Roots {
		add(r)
	}
	o.content[ownedLoc] = Owned
	o.contentWhy[ownedLoc] = "storage of an existing mesh"
	o.contentPts[ownedLoc] = locset{ownedLoc: {}}
	for f := range cfg.MeshFields {
		l := loc{kind: lkField, f: f}
		o.content[l] = Owned
		o.contentWhy[l] = "field Mesh." + f.Name()
		o.contentPts[l] = locset{ownedLoc: {}}
	}
	return o
}

func isSliceOrMap(t types.Type) bool {
	switch t.Underlying().(type) {
	case *types.Slice, *types.Map:
		return true
	}
	return false
}

func isContainerish(t types.Type) bool {
	switch u := t.Underlying().(type) {
	case *types.Pointer:
		return true
	case *types.Map:
		return true
	case *types.Slice:
		switch u.Elem().Underlying().(type) {
		case *types.Slice, *types.Map, *types.Pointer, *types.Struct, *types.Interface:
			return true
		}
		_, tp := u.Elem().(*types.TypeParam)
		return tp
	}
	return false
}

func (o *Own) setCls(v ssa.Value, c Class, why string) {
	if c == Bot {
		return
	}
	if old := o.cls[v]; c > old {
		o.cls[v] = c
		o.why[v] = why
		o.changed = true
	}
}

func (o *Own) addPts(v ssa.Value, ls locset) {
	if len(ls) == 0 {
		return
	}
	cur := o.pts[v]
	if cur == nil {
		cur = locset{}
		o.pts[v] = cur
	}
	for l := range ls {
		if _, ok := cur[l]; !ok {
			cur[l] = struct{}{}
			o.changed = true
		}
	}
}

func (o *Own) addContent(l loc, c Class, why string, ps locset) {
	if c > o.content[l] {
		o.content[l] = c
		o.contentWhy[l] = why
		o.changed = true
	}
	if len(ps) > 0 {
		cur := o.contentPts[l]
		if cur == nil {
			cur = locset{}
			o.contentPts[l] = cur
		}
		for p := range ps {
			if _, ok := cur[p]; !ok {
				cur[p] = struct{}{}
				o.changed = true
				o.globalReach = nil // reachability from package variables has to be recomputed
			}
		}
	}
}

// loadFrom: the class / points-to of a value read out of the locations ls.
func (o *Own) loadFrom(v ssa.Value, ls locset, fallback string) {
	if len(ls) == 0 {
		if isSliceOrMap(v.Type()) {
			o.setCls(v, Unknown, fallback)
		}
		return
	}
	for l := range ls {
		if isSliceOrMap(v.Type()) {
			c := o.content[l]
			if c == Bot && (l.kind == lkGlobal || l.kind == lkField) {
				// never-assigned (in the analysed code) field or global holding storage: not provably fresh
				c = Unknown
			}
			why := o.descLoc(l)
			if _, isSlice := v.Type().Underlying().(*types.Slice); isSlice && c == Fresh {
				if g := o.keptInGlobal(l); g != nil {
					// a slice kept in (a container reachable from) a package variable outlives the call that made
					// it and is seen by every later caller: it is not this caller's own storage
					c = Unknown
					why = "kept in package variable " + g.Name() + " (shared by every caller)"
				}
			}
			o.setCls(v, c, why)
		}
		o.addPts(v, o.contentPts[l])
	}
}

// keptInGlobal: l is a package variable or a container reachable from one (through what is stored into it).
func (o *Own) keptInGlobal(l loc) *ssa.Global {
	if l.kind == lkGlobal {
		g, _ := l.v.(*ssa.Global)
		return g
	}
	if o.globalReach == nil {
		o.globalReach = map[loc]*ssa.Global{}
		for gl := range o.contentPts {
			if gl.kind != lkGlobal {
				continue
			}
			g, _ := gl.v.(*ssa.Global)
			if g == nil {
				continue
			}
			seen := map[loc]bool{}
			work := []loc{gl}
			for len(work) > 0 {
				x := work[len(work)-1]
				work = work[:len(work)-1]
				if seen[x] {
					continue
				}
				seen[x] = true
				if cur, ok := o.globalReach[x]; !ok || g.Pos() < cur.Pos() {
					o.globalReach[x] = g
				}
				for y := range o.contentPts[x] {
					work = append(work, y)
				}
			}
		}
	}
	return o.globalReach[l]
}

func (o *Own) descLoc(l loc) string {
	switch l.kind {
	case lkOwned:
		return "storage of an existing mesh"
	case lkField:
		s := "loaded from field " + l.f.Name()
		if w := o.contentWhy[l]; w != "" && !strings.HasPrefix(w, "field ") {
			s += " (which receives: " + w + ")"
		}
		return s
	case lkGlobal:
		return "loaded from package variable " + l.v.Name()
	default:
		s := "read out of " + l.v.Name()
		if w := o.contentWhy[l]; w != "" {
			s += " (which receives: " + w + ")"
		}
		return s
	}
}

func (o *Own) valDesc(v ssa.Value) string {
	if w := o.why[v]; w != "" {
		return w
	}
	return v.Name()
}

// Solve iterates the transfer functions to a fixpoint.
func (o *Own) Solve() {
	// closures and escaping function values
	for _, f := range o.Funcs {
		ssau.AllInstrs(f, func(in ssa.Instruction) {
			if mc, ok := in.(*ssa.MakeClosure); ok {
				if fn, ok := mc.Fn.(*ssa.Function); ok {
					o.closureOf[fn] = mc
					for _, r := range ssau.Refs(mc) {
						if c, ok := r.(ssa.CallInstruction); ok && c.Common().Value == mc {
							continue
						}
						o.escapedFn[fn] = true
					}
				}
			}
			// plain function values used as values
			for _, op := range in.Operands(nil) {
				if op == nil || *op == nil {
					continue
				}
				if fn, ok := (*op).(*ssa.Function); ok {
					if c, ok := in.(ssa.CallInstruction); ok && c.Common().Value == fn {
						continue
					}
					if _, ok := in.(*ssa.MakeClosure); ok {
						continue
					}
					o.escapedFn[fn] = true
				}
			}
		})
	}
	for _, f := range o.Funcs {
		// Code outside the repository can obtain mesh storage only through the
		// escape hatch Materials() ([]MeshMaterial): parameters of that type of
		// externally callable functions may therefore be mesh storage. Other slices
		// an outside caller passes are its own. Function values (callbacks) may be
		// handed anything by whoever calls them.
		ext := o.externallyCallable(f)
		for _, p := range f.Params {
			if !isSliceOrMap(p.Type()) {
				continue
			}
			if o.escapedFn[f] || (ext && cfg_isEscapeHatchType(o, p.Type())) {
				o.setCls(p, Unknown, "parameter "+p.Name()+" of a function callable from outside the analysed code")
			}
		}
	}
	for iter := 0; iter < 60; iter++ {
		o.changed = false
		for _, f := range o.Funcs {
			for _, b := range f.Blocks {
				for _, in := range b.Instrs {
					o.transfer(f, in)
				}
			}
		}
		if !o.changed {
			break
		}
	}
	o.collectSinks()
}

func cfg_isEscapeHatchType(o *Own, t types.Type) bool {
	if o.cfg.EscapeHatch == nil {
		return true
	}
	return o.cfg.EscapeHatch(t)
}

func (o *Own) externallyCallable(f *ssa.Function) bool {
	if f.Parent() != nil {
		return o.escapedFn[f]
	}
	if f.Synthetic != "" {
		return false
	}
	if o.escapedFn[f] {
		return true
	}
	if f.Signature.Recv() != nil {
		return true // may be reached through an interface
	}
	if obj := f.Object(); obj != nil {
		return obj.Exported()
	}
	return false
}

func (o *Own) transfer(f *ssa.Function, in ssa.Instruction) {
	switch x := in.(type) {
	case *ssa.Alloc:
		o.addPts(x, locset{loc{kind: lkValue, v: x}: {}})
	case *ssa.MakeSlice:
		o.setCls(x, Fresh, "make")
		if isContainerish(x.Type()) {
			o.addPts(x, locset{loc{kind: lkValue, v: x}: {}})
		}
	case *ssa.MakeMap:
		o.setCls(x, Fresh, "make")
		o.addPts(x, locset{loc{kind: lkValue, v: x}: {}})
	case *ssa.FieldAddr:
		if fv := ssau.FieldOf(x); fv != nil {
			o.addPts(x, locset{loc{kind: lkField, f: fv}: {}})
		}
	case *ssa.Field:
		if fv := ssau.FieldOf(x); fv != nil {
			o.loadFrom(x, locset{loc{kind: lkField, f: fv}: {}}, "")
		}
	case *ssa.IndexAddr:
		// address of an element: same abstract content as the whole slice / array
		o.addPts(x, o.ptsOf(x.X))
	case *ssa.Index:
		o.loadFrom(x, o.ptsOf(x.X), "element of "+x.X.Name())
	case *ssa.UnOp:
		if x.Op == token.MUL {
			o.loadFrom(x, o.ptsOf(x.X), "loaded through pointer "+x.X.Name()+" of unknown origin")
		}
	case *ssa.Lookup:
		if _, isMap := x.X.Type().Underlying().(*types.Map); isMap {
			o.lookup(x, x.X)
		}
	case *ssa.Extract:
		switch t := x.Tuple.(type) {
		case *ssa.Next:
			if r, ok := t.Iter.(*ssa.Range); ok && x.Index == 2 {
				if _, isMap := r.X.Type().Underlying().(*types.Map); isMap {
					o.lookup(x, r.X)
				}
			}
		case *ssa.Lookup:
			if x.Index == 0 {
				if _, isMap := t.X.Type().Underlying().(*types.Map); isMap {
					o.lookup(x, t.X)
				}
			}
		case *ssa.Call:
			o.callResult(x, t, x.Index)
		case *ssa.TypeAssert:
			if x.Index == 0 && isSliceOrMap(x.Type()) {
				o.setCls(x, Unknown, "type assertion")
			}
		default:
			if isSliceOrMap(x.Type()) {
				o.setCls(x, Unknown, "tuple component")
			}
		}
	case *ssa.Phi:
		for _, e := range x.Edges {
			o.flow(e, x)
		}
	case *ssa.Slice:
		switch x.X.Type().Underlying().(type) {
		case *types.Slice:
			if k, ok := ssau.ConstInt(x.Max); ok && k == 0 && x.Max != nil {
				// x[:0:0]: zero capacity — nothing can be written through it and append must allocate
				o.setCls(x, Fresh, "zero-capacity slice expression")
				break
			}
			o.flow(x.X, x)
		case *types.Pointer: // pointer to array
			if a, ok := x.X.(*ssa.Alloc); ok {
				o.setCls(x, Fresh, "slice of a new array")
				o.addPts(x, locset{loc{kind: lkValue, v: a}: {}})
			} else {
				o.setCls(x, Unknown, "slice of an array of unknown origin")
				o.addPts(x, o.ptsOf(x.X))
			}
		default: // string
		}
	case *ssa.ChangeType:
		o.flow(x.X, x)
	case *ssa.Convert:
		if isSliceOrMap(x.Type()) {
			if isSliceOrMap(x.X.Type()) {
				o.flow(x.X, x)
			} else {
				o.setCls(x, Fresh, "conversion allocates")
			}
		}
	case *ssa.SliceToArrayPointer:
		o.addPts(x, o.ptsOf(x.X))
	case *ssa.TypeAssert:
		if !x.CommaOk && isSliceOrMap(x.Type()) {
			o.setCls(x, Unknown, "type assertion")
		}
	case *ssa.MakeClosure:
		if fn, ok := x.Fn.(*ssa.Function); ok {
			for i, b := range x.Bindings {
				if i < len(fn.FreeVars) {
					o.flow(b, fn.FreeVars[i])
				}
			}
		}
	case *ssa.Store:
		ls := o.ptsOf(x.Addr)
		c := o.classOfStored(x.Val)
		ps := o.ptsOf(x.Val)
		for l := range ls {
			if l.kind == lkOwned {
				continue
			}
			o.addContent(l, c, o.valDesc(x.Val), ps)
		}
	case *ssa.MapUpdate:
		ls := o.ptsOf(x.Map)
		c := o.classOfStored(x.Value)
		ps := o.ptsOf(x.Value)
		for l := range ls {
			if l.kind == lkOwned {
				continue
			}
			o.addContent(l, c, o.valDesc(x.Value), ps)
		}
	case *ssa.Return:
		if len(x.Results) > 0 {
			rc := o.retCls[f]
			rp := o.retPts[f]
			if rc == nil {
				rc = make([]Class, len(x.Results))
				rp = make([]locset, len(x.Results))
				o.retCls[f] = rc
				o.retPts[f] = rp
			}
			for i, r := range x.Results {
				c := o.classOfStored(r)
				if c > rc[i] {
					rc[i] = c
					o.changed = true
				}
				for l := range o.ptsOf(r) {
					if rp[i] == nil {
						rp[i] = locset{}
					}
					if _, ok := rp[i][l]; !ok {
						rp[i][l] = struct{}{}
						o.changed = true
					}
				}
			}
		}
	case *ssa.Call:
		o.call(f, x)
		if x.Common().Signature().Results().Len() == 1 {
			o.callResult(x, x, 0)
		}
	case *ssa.Go:
		o.call(f, x)
	case *ssa.Defer:
		o.call(f, x)
	}
}

func (o *Own) classOfStored(v ssa.Value) Class {
	if !isSliceOrMap(v.Type()) {
		return Bot
	}
	if c, ok := v.(*ssa.Const); ok && c.IsNil() {
		return Fresh
	}
	c := o.cls[v]
	return c
}

func (o *Own) ptsOf(v ssa.Value) locset {
	switch x := v.(type) {
	case *ssa.Global:
		return locset{loc{kind: lkGlobal, v: x}: {}}
	}
	return o.pts[v]
}

func (o *Own) flow(from, to ssa.Value) {
	if isSliceOrMap(to.Type()) {
		if c, ok := from.(*ssa.Const); ok && c.IsNil() {
			o.setCls(to, Fresh, "nil")
		} else {
			o.setCls(to, o.cls[from], o.valDesc(from))
		}
	}
	o.addPts(to, o.ptsOf(from))
}

func (o *Own) lookup(v ssa.Value, m ssa.Value) {
	if o.cls[m] == Owned && isSliceOrMap(v.Type()) {
		o.setCls(v, Owned, "element of a map that may belong to an existing mesh ("+o.valDesc(m)+")")
	}
	ls := o.ptsOf(m)
	if len(ls) == 0 {
		if isSliceOrMap(v.Type()) {
			o.setCls(v, joinC(Unknown, o.cls[m]), "element of map "+m.Name()+" of unknown origin")
		}
		return
	}
	for l := range ls {
		if isSliceOrMap(v.Type()) {
			c := o.content[l]
			if c != Bot {
				why := "element of " + m.Name() + " (" + o.contentWhy[l] + ")"
				if _, isSlice := v.Type().Underlying().(*types.Slice); isSlice && c == Fresh {
					if g := o.keptInGlobal(l); g != nil {
						c = Unknown
						why = "kept in package variable " + g.Name() + " (shared by every caller)"
					}
				}
				o.setCls(v, c, why)
			}
		}
		o.addPts(v, o.contentPts[l])
	}
}

func (o *Own) resolveCallee(cc *ssa.CallCommon) *ssa.Function {
	if cc.IsInvoke() {
		return nil
	}
	if f := cc.StaticCallee(); f != nil {
		return f
	}
	// call of a local closure value held in a register
	if mc, ok := cc.Value.(*ssa.MakeClosure); ok {
		if fn, ok := mc.Fn.(*ssa.Function); ok {
			return fn
		}
	}
	return nil
}

func (o *Own) call(f *ssa.Function, c ssa.CallInstruction) {
	cc := c.Common()
	if b := ssau.Builtin(c); b != "" {
		if call, ok := c.(*ssa.Call); ok && b == "append" && len(cc.Args) == 2 {
			a, e := cc.Args[0], cc.Args[1]
			if k, ok := a.(*ssa.Const); ok && k.IsNil() {
				o.setCls(call, Fresh, "append to nil")
			} else {
				o.setCls(call, o.cls[a], o.valDesc(a))
			}
			o.addPts(call, o.ptsOf(a))
			if isContainerish(call.Type()) {
				// the result is (also) a new backing array that holds the appended elements
				self := loc{kind: lkValue, v: call}
				o.addPts(call, locset{self: {}})
				for l := range o.ptsOf(call) {
					if l.kind == lkOwned {
						continue
					}
					for le := range o.ptsOf(e) {
						o.addContent(l, o.content[le], o.contentWhy[le], o.contentPts[le])
					}
				}
			}
		}
		return
	}
	callee := o.resolveCallee(cc)
	if callee == nil || !o.inFuncs[callee] {
		return
	}
	args := cc.Args
	params := callee.Params
	for i, a := range args {
		if i >= len(params) {
			break
		}
		o.flow(a, params[i])
	}
}

func (o *Own) callResult(v ssa.Value, call *ssa.Call, idx int) {
	cc := call.Common()
	if ssau.Builtin(call) != "" {
		return
	}
	interesting := isSliceOrMap(v.Type())
	callee := o.resolveCallee(cc)
	// an instantiation of a generic function defined outside the analysed code is external, whatever set the
	// synthetic wrapper itself was collected into
	external := callee != nil && !o.inFuncs[callee]
	if callee != nil && callee.Origin() != nil && !o.inFuncs[callee.Origin()] {
		external = true
	}
	if external && aliasReturning[extName(callee)] && len(cc.Args) > 0 {
		// result shares (or may share) the backing array of its first argument: same class, same contents
		if interesting {
			o.setCls(v, o.cls[cc.Args[0]], "result of "+extName(callee)+" (may share its argument's array): "+o.valDesc(cc.Args[0]))
			o.flow(cc.Args[0], v)
		}
		return
	}
	if external && freshReturning[extName(callee)] {
		if interesting {
			o.setCls(v, Fresh, "result of "+extName(callee)+" (always a new array)")
		}
		return
	}
	if callee == nil || external {
		if interesting {
			name := "dynamic call"
			if callee != nil {
				name = callee.String()
			} else if cc.IsInvoke() {
				name = "interface method " + cc.Method.Name()
			}
			o.setCls(v, Unknown, "result of "+name)
		}
		return
	}
	if rc := o.retCls[callee]; idx < len(rc) && interesting {
		o.setCls(v, rc[idx], "result of "+callee.Name())
	}
	if rp := o.retPts[callee]; idx < len(rp) {
		o.addPts(v, rp[idx])
	}
}

// ---- sinks ----

var externalMutators = map[string][]int{
	"sort.Ints": {0}, "sort.Float64s": {0}, "sort.Strings": {0}, "sort.Slice": {0}, "sort.SliceStable": {0},
	"sort.Sort": {0}, "sort.Stable": {0},
	"slices.Sort": {0}, "slices.SortFunc": {0}, "slices.SortStableFunc": {0}, "slices.Reverse": {0},
	"slices.Insert": {0}, "slices.Delete": {0}, "slices.DeleteFunc": {0}, "slices.Compact": {0}, "slices.CompactFunc": {0},
	"slices.Replace": {0}, "slices.Grow": {}, "slices.Clip": {},
	"io.ReadFull": {1}, "io.ReadAtLeast": {1}, "encoding/binary.Read": {2},
	"math/rand.Shuffle": {}, "encoding/json.Unmarshal": {1},
}

// aliasReturning: library functions whose result may be (a window of) the array of their first argument.
var aliasReturning = map[string]bool{
	"slices.Grow": true, "slices.Clip": true, "slices.Insert": true, "slices.Delete": true, "slices.DeleteFunc": true,
	"slices.Compact": true, "slices.CompactFunc": true, "slices.Replace": true,
}

// freshReturning: library functions whose result is always newly allocated.
var freshReturning = map[string]bool{
	"slices.Clone": true, "maps.Clone": true, "bytes.Clone": true, "slices.Concat": true,
	"strings.Split": true, "strings.Fields": true, "sort.IntSlice": false,
}

func extName(f *ssa.Function) string {
	if f == nil {
		return ""
	}
	if f.Origin() != nil {
		f = f.Origin()
	}
	if f.Pkg == nil || f.Signature.Recv() != nil {
		return ""
	}
	return f.Pkg.Pkg.Path() + "." + f.Name()
}

// sliceBaseOfAddr: the slice whose backing array the address points into (through field selections).
func sliceBaseOfAddr(addr ssa.Value) ssa.Value {
	for {
		switch x := addr.(type) {
		case *ssa.FieldAddr:
			addr = x.X
		case *ssa.IndexAddr:
			if _, ok := x.X.Type().Underlying().(*types.Slice); ok {
				return x.X
			}
			addr = x.X // pointer to array: keep walking (array inside a struct inside a slice element…)
		default:
			return nil
		}
	}
}

func (o *Own) collectSinks() {
	for _, f := range o.Funcs {
		for _, b := range f.Blocks {
			for _, in := range b.Instrs {
				switch x := in.(type) {
				case *ssa.Store:
					if base := sliceBaseOfAddr(x.Addr); base != nil {
						o.addSink(f, in, base, "store")
					}
				case *ssa.MapUpdate:
					o.addSink(f, in, x.Map, "mapupdate")
				case ssa.CallInstruction:
					cc := x.Common()
					switch ssau.Builtin(x) {
					case "append":
						if len(cc.Args) >= 1 {
							a := cc.Args[0]
							if k, ok := a.(*ssa.Const); ok && k.IsNil() {
								continue
							}
							if s, ok := a.(*ssa.Slice); ok && s.Max != nil && s.High != nil && s.Max == s.High {
								continue // full slice expression x[:n:n]: append must reallocate
							}
							o.addSink(f, in, a, "append")
						}
						continue
					case "copy":
						if len(cc.Args) == 2 {
							o.addSink(f, in, cc.Args[0], "copy")
						}
						continue
					case "delete":
						o.addSink(f, in, cc.Args[0], "delete")
						continue
					case "clear":
						o.addSink(f, in, cc.Args[0], "clear")
						continue
					case "":
					default:
						continue
					}
					callee := o.resolveCallee(cc)
					if callee != nil && !o.inFuncs[callee] {
						if idxs, ok := externalMutators[extName(callee)]; ok {
							for _, i := range idxs {
								if i < len(cc.Args) {
									a := ssau.Strip(cc.Args[i])
									if isSliceOrMap(a.Type()) {
										o.addSink(f, in, a, "call:"+extName(callee))
									}
								}
							}
							continue
						}
					}
					if callee == nil || !o.inFuncs[callee] {
						// storage handed to code we cannot see
						for _, a := range cc.Args {
							a = ssau.Strip(a)
							if isSliceOrMap(a.Type()) && o.cls[a] >= Unknown {
								to := "dynamic callee"
								if callee != nil {
									to = callee.String()
								} else if cc.IsInvoke() {
									to = "interface method " + cc.Method.Name()
								}
								o.DynEscapes = append(o.DynEscapes, DynEscape{Fn: f, Instr: in, Arg: a, Class: o.cls[a], To: to})
							}
						}
					}
				}
			}
		}
	}
	sort.SliceStable(o.Sinks, func(i, j int) bool { return o.Sinks[i].Instr.Pos() < o.Sinks[j].Instr.Pos() })
}

func (o *Own) addSink(f *ssa.Function, in ssa.Instruction, base ssa.Value, kind string) {
	c := o.cls[base]
	if k, ok := base.(*ssa.Const); ok && k.IsNil() {
		c = Fresh
	}
	o.Sinks = append(o.Sinks, Sink{Fn: f, Instr: in, Base: base, Kind: kind, Class: c, Why: o.valDesc(base)})
}

// ClassOf exposes the class of a value (for OWN-2).
func (o *Own) ClassOf(v ssa.Value) Class { return o.cls[v] }

// InDomain reports whether f was analysed.
func (o *Own) Analysed(f *ssa.Function) bool { return o.inFuncs[f] }

// ContentOfField returns the class of what a field holds.
func (o *Own) ContentOfField(f *types.Var) (Class, string) {
	l := loc{kind: lkField, f: f}
	return o.content[l], o.contentWhy[l]
}

// OwnedFields lists the (non-Mesh) struct fields that may hold Owned storage.
func (o *Own) OwnedFields() []*types.Var {
	var out []*types.Var
	for l, c := range o.content {
		if l.kind == lkField && c == Owned && !o.cfg.MeshFields[l.f] {
			out = append(out, l.f)
		}
	}
	sort.Slice(out, func(i, j int) bool { return out[i].Pos() < out[j].Pos() })
	return out
}
