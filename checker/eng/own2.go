package eng

// OWN-2 — no write after hand-off. A value "is handed off" at the instruction
// where it (or a map that contains it) starts to flow into a storage field of a
// modeling.Mesh: the store into the field, or a call whose parameter is captured
// (computed backwards, interprocedurally). After that instruction the value's
// backing array belongs to the mesh.

import (
	"go/token"
	"go/types"
	"sort"

	"golang.org/x/tools/go/ssa"

	"polycheck/ssau"
)

type Handoff struct {
	Fn        *ssa.Function
	At        ssa.Instruction
	Val       ssa.Value
	Offenders []Sink
}

type own2state struct {
	o             *Own
	captured      map[ssa.Value]map[ssa.Instruction]bool
	capturedParam map[*ssa.Parameter]bool
	contentParam  map[*ssa.Parameter]bool
	globals       map[*ssa.Global]ssa.Instruction
	contentOnly   map[*ssa.Global]bool // only what is stored in the (map) variable is handed to meshes, not the map itself
	callSites     map[*ssa.Function][]ssa.CallInstruction
	contentSeen   map[ssa.Value]map[ssa.Instruction]bool
	fieldParam    map[*ssa.Parameter]map[*types.Var]bool
	fieldHand     []FieldHandoff
	fieldHandSeen map[fhKey]bool
}

type fhKey struct {
	at   ssa.Instruction
	base ssa.Value
	f    *types.Var
}

// FieldHandoff: field F of the struct variable Base is handed to a mesh by the call At.
type FieldHandoff struct {
	Fn        *ssa.Function
	At        ssa.Instruction
	Base      ssa.Value
	Field     *types.Var
	Offenders []Sink
}

// Handoffs computes OWN-2. It must be called after Solve.
func (o *Own) Handoffs() (hand []Handoff, globalViol []Sink, capturedGlobals []*ssa.Global) {
	s := &own2state{o: o, captured: map[ssa.Value]map[ssa.Instruction]bool{}, capturedParam: map[*ssa.Parameter]bool{},
		contentParam: map[*ssa.Parameter]bool{}, globals: map[*ssa.Global]ssa.Instruction{}, contentOnly: map[*ssa.Global]bool{}, callSites: map[*ssa.Function][]ssa.CallInstruction{},
		contentSeen: map[ssa.Value]map[ssa.Instruction]bool{}, fieldParam: map[*ssa.Parameter]map[*types.Var]bool{}, fieldHandSeen: map[fhKey]bool{}}
	o.own2 = s
	for _, f := range o.Funcs {
		ssau.AllInstrs(f, func(in ssa.Instruction) {
			if c, ok := in.(ssa.CallInstruction); ok {
				if callee := o.resolveCallee(c.Common()); callee != nil && o.inFuncs[callee] {
					s.callSites[callee] = append(s.callSites[callee], c)
				}
			}
		})
	}
	// seeds: stores into Mesh storage fields
	for _, f := range o.Funcs {
		ssau.AllInstrs(f, func(in ssa.Instruction) {
			st, ok := in.(*ssa.Store)
			if !ok {
				return
			}
			fa, ok := st.Addr.(*ssa.FieldAddr)
			if !ok {
				return
			}
			if fv := ssau.FieldOf(fa); fv != nil && o.cfg.MeshFields[fv] {
				s.mark(st.Val, st)
			}
		})
	}
	// evaluate
	sinksByFn := map[*ssa.Function][]Sink{}
	for _, k := range o.Sinks {
		sinksByFn[k.Fn] = append(sinksByFn[k.Fn], k)
	}
	type hk struct {
		v  ssa.Value
		at ssa.Instruction
	}
	var keys []hk
	for v, ats := range s.captured {
		if !isAllocSite(v) {
			continue
		}
		for at := range ats {
			keys = append(keys, hk{v, at})
		}
	}
	sort.Slice(keys, func(i, j int) bool {
		if keys[i].at.Pos() != keys[j].at.Pos() {
			return keys[i].at.Pos() < keys[j].at.Pos()
		}
		return keys[i].v.Pos() < keys[j].v.Pos()
	})
	for _, k := range keys {
		f := k.at.Parent()
		h := Handoff{Fn: f, At: k.at, Val: k.v}
		for _, snk := range sinksByFn[f] {
			if snk.Instr == k.at {
				continue
			}
			roots := aliasRoots(snk.Base)
			if !roots[k.v] {
				continue
			}
			def, _ := k.v.(ssa.Instruction)
			if pathAvoiding(k.at, snk.Instr, def) {
				h.Offenders = append(h.Offenders, snk)
			}
		}
		hand = append(hand, h)
	}
	// package-level storage handed to meshes: no write anywhere
	for g := range s.globals {
		capturedGlobals = append(capturedGlobals, g)
	}
	sort.Slice(capturedGlobals, func(i, j int) bool { return capturedGlobals[i].Pos() < capturedGlobals[j].Pos() })
	for _, snk := range o.Sinks {
		hit := false
		for _, g := range s.globalsBehind(snk.Base, 0) {
			if snk.Kind == "mapupdate" && s.contentOnly[g] {
				// a new entry in a cache whose entries are handed out: no array a mesh holds is written
				if u, ok := snk.Base.(*ssa.UnOp); ok && u.X == ssa.Value(g) {
					continue
				}
			}
			if _, is := s.globals[g]; is && !hit {
				globalViol = append(globalViol, snk)
				hit = true
			}
		}
	}
	o.HandoffSites = len(hand)
	return
}

// globalsBehind: the package variables whose storage v may be (a window of): loaded from the variable, an element
// of a map loaded from it, or the result of an analysed callee returning such a value.
func (s *own2state) globalsBehind(v ssa.Value, depth int) []*ssa.Global {
	var out []*ssa.Global
	if depth > 3 {
		return nil
	}
	loadOf := func(x ssa.Value) *ssa.Global {
		if u, ok := x.(*ssa.UnOp); ok && u.Op == token.MUL {
			if g, ok := u.X.(*ssa.Global); ok {
				return g
			}
		}
		return nil
	}
	for r := range aliasRoots(v) {
		if g := loadOf(r); g != nil {
			out = append(out, g)
			continue
		}
		switch x := r.(type) {
		case *ssa.Lookup:
			if g := loadOf(x.X); g != nil && isMapT(x.X) {
				out = append(out, g)
			}
		case *ssa.Extract:
			if lk, ok := x.Tuple.(*ssa.Lookup); ok && x.Index == 0 && isMapT(lk.X) {
				if g := loadOf(lk.X); g != nil {
					out = append(out, g)
				}
			}
		case *ssa.Call:
			if ssau.Builtin(x) != "" {
				continue
			}
			if callee := s.o.resolveCallee(x.Common()); callee != nil && s.o.inFuncs[callee] {
				ssau.AllInstrs(callee, func(in ssa.Instruction) {
					if ret, ok := in.(*ssa.Return); ok && len(ret.Results) == 1 {
						out = append(out, s.globalsBehind(ret.Results[0], depth+1)...)
					}
				})
			}
		}
	}
	return out
}

func isAllocSite(v ssa.Value) bool {
	switch x := v.(type) {
	case *ssa.MakeSlice, *ssa.MakeMap:
		return true
	case *ssa.Slice:
		_, ok := x.X.(*ssa.Alloc)
		return ok
	case *ssa.Call:
		return true
	}
	return false
}

func (s *own2state) mark(v ssa.Value, at ssa.Instruction) {
	if v == nil {
		return
	}
	if c, ok := v.(*ssa.Const); ok && c.IsNil() {
		return
	}
	if !isSliceOrMap(v.Type()) {
		return
	}
	m := s.captured[v]
	if m == nil {
		m = map[ssa.Instruction]bool{}
		s.captured[v] = m
	}
	if m[at] {
		return
	}
	m[at] = true
	if isMapT(v) {
		s.markContent(v, at)
	}
	switch x := v.(type) {
	case *ssa.Phi:
		for _, e := range x.Edges {
			s.mark(e, at)
		}
	case *ssa.Slice:
		s.mark(x.X, at)
	case *ssa.ChangeType:
		s.mark(x.X, at)
	case *ssa.Convert:
		s.mark(x.X, at)
	case *ssa.Call:
		if ssau.Builtin(x) == "append" && len(x.Call.Args) >= 1 {
			s.mark(x.Call.Args[0], at)
		} else if callee := s.o.resolveCallee(x.Common()); callee != nil && s.o.inFuncs[callee] {
			// what an analysed callee returns (a slice it keeps in a package variable, say) is what is handed over
			ssau.AllInstrs(callee, func(in ssa.Instruction) {
				if r, ok := in.(*ssa.Return); ok && len(r.Results) == 1 {
					s.mark(r.Results[0], r)
				}
			})
		}
	case *ssa.Parameter:
		if s.capturedParam[x] {
			return
		}
		s.capturedParam[x] = true
		fn := x.Parent()
		idx := -1
		for i, p := range fn.Params {
			if p == x {
				idx = i
			}
		}
		for _, cs := range s.callSites[fn] {
			if idx >= 0 && idx < len(cs.Common().Args) {
				s.mark(cs.Common().Args[idx], cs)
			}
		}
	case *ssa.FreeVar:
		fn := x.Parent()
		if mc := s.o.closureOf[fn]; mc != nil {
			for i, fv := range fn.FreeVars {
				if fv == x && i < len(mc.Bindings) {
					s.mark(mc.Bindings[i], mc)
				}
			}
		}
	case *ssa.Field:
		if p, ok := x.X.(*ssa.Parameter); ok {
			s.markField(p, ssau.FieldOf(x))
		}
	case *ssa.UnOp:
		if x.Op != token.MUL {
			return
		}
		switch a := x.X.(type) {
		case *ssa.FieldAddr:
			fv := ssau.FieldOf(a)
			switch b := a.X.(type) {
			case *ssa.Parameter: // pointer receiver / pointer parameter
				s.markField(b, fv)
			case *ssa.Alloc: // spilled by-value struct parameter
				for _, r := range ssau.Refs(b) {
					if st, ok := r.(*ssa.Store); ok && st.Addr == b {
						if p, ok := st.Val.(*ssa.Parameter); ok {
							s.markField(p, fv)
						}
					}
				}
			}
		case *ssa.Alloc:
			for _, r := range ssau.Refs(a) {
				if st, ok := r.(*ssa.Store); ok && st.Addr == a {
					s.mark(st.Val, at)
				}
			}
		case *ssa.Global:
			if _, ok := s.globals[a]; !ok {
				s.globals[a] = at
			}
			delete(s.contentOnly, a)
		case *ssa.FreeVar:
			// variable of the enclosing function: values stored into the cell there
			fn := a.Parent()
			if mc := s.o.closureOf[fn]; mc != nil {
				for i, fv := range fn.FreeVars {
					if fv == a && i < len(mc.Bindings) {
						if cell, ok := mc.Bindings[i].(*ssa.Alloc); ok {
							for _, r := range ssau.Refs(cell) {
								if st, ok := r.(*ssa.Store); ok && st.Addr == cell {
									s.mark(st.Val, mc)
								}
							}
						}
					}
				}
			}
		}
	case *ssa.Lookup:
		if isMapT(x.X) {
			s.markContent(x.X, at)
		}
	case *ssa.Extract:
		switch t := x.Tuple.(type) {
		case *ssa.Next:
			if r, ok := t.Iter.(*ssa.Range); ok && x.Index == 2 && isMapT(r.X) {
				s.markContent(r.X, at)
			}
		case *ssa.Lookup:
			if x.Index == 0 && isMapT(t.X) {
				s.markContent(t.X, at)
			}
		}
	}
}

// markField: field fv of struct parameter p flows into mesh storage.
func (s *own2state) markField(p *ssa.Parameter, fv *types.Var) {
	if fv == nil {
		return
	}
	m := s.fieldParam[p]
	if m == nil {
		m = map[*types.Var]bool{}
		s.fieldParam[p] = m
	}
	if m[fv] {
		return
	}
	m[fv] = true
	fn := p.Parent()
	for i, q := range fn.Params {
		if q != p {
			continue
		}
		for _, cs := range s.callSites[fn] {
			if i >= len(cs.Common().Args) {
				continue
			}
			arg := cs.Common().Args[i]
			var base ssa.Value
			switch a := arg.(type) {
			case *ssa.UnOp: // struct loaded from a variable and passed by value
				if a.Op == token.MUL {
					base = a.X
				}
			default:
				if _, isPtr := arg.Type().Underlying().(*types.Pointer); isPtr {
					base = arg
				}
			}
			if base == nil {
				continue
			}
			if bp, ok := base.(*ssa.Parameter); ok {
				s.markField(bp, fv) // the caller's own parameter: propagate further up
				continue
			}
			k := fhKey{cs, base, fv}
			if !s.fieldHandSeen[k] {
				s.fieldHandSeen[k] = true
				s.fieldHand = append(s.fieldHand, FieldHandoff{Fn: cs.Parent(), At: cs, Base: base, Field: fv})
			}
		}
	}
}

func isMapT(v ssa.Value) bool {
	_, ok := v.Type().Underlying().(*types.Map)
	return ok
}

// markContent: everything stored in map m flows into mesh storage at `at`.
func (s *own2state) markContent(m ssa.Value, at ssa.Instruction) {
	seen := s.contentSeen[m]
	if seen == nil {
		seen = map[ssa.Instruction]bool{}
		s.contentSeen[m] = seen
	}
	if seen[at] {
		return
	}
	seen[at] = true
	switch x := m.(type) {
	case *ssa.Phi:
		for _, e := range x.Edges {
			s.markContent(e, at)
		}
	case *ssa.ChangeType:
		s.markContent(x.X, at)
	case *ssa.Parameter:
		if !s.contentParam[x] {
			s.contentParam[x] = true
			fn := x.Parent()
			for i, p := range fn.Params {
				if p == x {
					for _, cs := range s.callSites[fn] {
						if i < len(cs.Common().Args) {
							s.markContent(cs.Common().Args[i], cs)
						}
					}
				}
			}
		}
	case *ssa.UnOp:
		if a, ok := x.X.(*ssa.Alloc); ok && x.Op == token.MUL {
			for _, r := range ssau.Refs(a) {
				if st, ok := r.(*ssa.Store); ok && st.Addr == a {
					s.markContent(st.Val, at)
				}
			}
		}
		if g, ok := x.X.(*ssa.Global); ok && x.Op == token.MUL {
			// the content of a map kept in a package variable is handed to a mesh
			if _, ok := s.globals[g]; !ok {
				s.globals[g] = at
				s.contentOnly[g] = true
			}
		}
	}
	// values stored through any alias of m in the same function
	fn := at.Parent()
	mp := s.o.ptsOf(m)
	ssau.AllInstrs(fn, func(in ssa.Instruction) {
		mu, ok := in.(*ssa.MapUpdate)
		if !ok {
			return
		}
		if mu.Map != m {
			shared := false
			for l := range s.o.ptsOf(mu.Map) {
				if _, ok := mp[l]; ok && l.kind == lkValue {
					shared = true
				}
			}
			if !shared {
				return
			}
		}
		s.mark(mu.Value, at)
	})
}

// aliasRoots: the values whose backing array v may share (through slicing, phi,
// append's first argument, conversions and local variable cells).
func aliasRoots(v ssa.Value) map[ssa.Value]bool {
	out := map[ssa.Value]bool{}
	var walk func(x ssa.Value)
	walk = func(x ssa.Value) {
		if x == nil || out[x] {
			return
		}
		out[x] = true
		switch y := x.(type) {
		case *ssa.Phi:
			for _, e := range y.Edges {
				walk(e)
			}
		case *ssa.Slice:
			walk(y.X)
		case *ssa.ChangeType:
			walk(y.X)
		case *ssa.Convert:
			walk(y.X)
		case *ssa.Call:
			if ssau.Builtin(y) == "append" && len(y.Call.Args) >= 1 {
				walk(y.Call.Args[0])
			}
		case *ssa.UnOp:
			if a, ok := y.X.(*ssa.Alloc); ok && y.Op == token.MUL {
				for _, r := range ssau.Refs(a) {
					if st, ok := r.(*ssa.Store); ok && st.Addr == a {
						walk(st.Val)
					}
				}
			}
		}
	}
	walk(v)
	return out
}

// pathAvoiding reports whether `to` can execute after `from` on a path that does
// not execute `avoid` (the allocation that would give `to` a new array) in between.
func pathAvoiding(from, to, avoid ssa.Instruction) bool {
	if avoid == nil {
		return pathAvoidingSet(from, to, nil)
	}
	return pathAvoidingSet(from, to, map[ssa.Instruction]bool{avoid: true})
}

func pathAvoidingSet(from, to ssa.Instruction, avoid map[ssa.Instruction]bool) bool {
	scan := func(b *ssa.BasicBlock, start int) (found, blocked bool) {
		for i := start; i < len(b.Instrs); i++ {
			in := b.Instrs[i]
			if in == to {
				return true, false
			}
			if avoid[in] {
				return false, true
			}
		}
		return false, false
	}
	fb := from.Block()
	found, blocked := scan(fb, ssau.InstrIndex(from)+1)
	if found {
		return true
	}
	if blocked {
		return false
	}
	seen := map[*ssa.BasicBlock]bool{}
	stack := append([]*ssa.BasicBlock{}, fb.Succs...)
	for len(stack) > 0 {
		b := stack[len(stack)-1]
		stack = stack[:len(stack)-1]
		if seen[b] {
			continue
		}
		seen[b] = true
		found, blocked := scan(b, 0)
		if found {
			return true
		}
		if blocked {
			continue
		}
		stack = append(stack, b.Succs...)
	}
	return false
}

// FieldHandoffs evaluates hand-offs of struct fields (builder structs such as the
// OBJ reader's working group): after the call that hands field F of variable V to
// a mesh, no write may reach V.F's array before V or V.F is re-assigned.
func (o *Own) FieldHandoffs() []FieldHandoff {
	s := o.own2
	if s == nil {
		return nil
	}
	sinksByFn := map[*ssa.Function][]Sink{}
	for _, k := range o.Sinks {
		sinksByFn[k.Fn] = append(sinksByFn[k.Fn], k)
	}
	out := make([]FieldHandoff, 0, len(s.fieldHand))
	for _, h := range s.fieldHand {
		// killers: whole re-assignment of the variable or of the field
		kill := map[ssa.Instruction]bool{}
		loads := map[ssa.Value]bool{}
		for _, r := range ssau.Refs(h.Base) {
			switch x := r.(type) {
			case *ssa.Store:
				if x.Addr == h.Base {
					kill[x] = true
				}
			case *ssa.FieldAddr:
				if ssau.FieldOf(x) != h.Field {
					continue
				}
				for _, rr := range ssau.Refs(x) {
					switch y := rr.(type) {
					case *ssa.Store:
						if y.Addr == x {
							// v.F = append(v.F, …) keeps the old array alive: not a kill unless the value is unrelated to the field
							if !aliasRootsHasLoadOf(y.Val, h.Base, h.Field) {
								kill[y] = true
							}
						}
					case *ssa.UnOp:
						loads[y] = true
					}
				}
			}
		}
		for _, snk := range sinksByFn[h.Fn] {
			if snk.Instr == h.At {
				continue
			}
			hit := false
			for r := range aliasRoots(snk.Base) {
				if loads[r] {
					hit = true
				}
			}
			if hit && pathAvoidingSet(h.At, snk.Instr, kill) {
				h.Offenders = append(h.Offenders, snk)
			}
		}
		out = append(out, h)
	}
	sort.SliceStable(out, func(i, j int) bool { return out[i].At.Pos() < out[j].At.Pos() })
	return out
}

func aliasRootsHasLoadOf(v ssa.Value, base ssa.Value, f *types.Var) bool {
	for r := range aliasRoots(v) {
		if u, ok := r.(*ssa.UnOp); ok && u.Op == token.MUL {
			if fa, ok := u.X.(*ssa.FieldAddr); ok && fa.X == base && ssau.FieldOf(fa) == f {
				return true
			}
		}
	}
	return false
}
