package eng

// PAIR-3 — the attribute-combining helper of Append enumerates both operands on every path.
//
// The helper receives the attribute maps of the two meshes (two parameters of one map-of-slices type) and returns
// the combined map. The result must carry every attribute either operand carries, padded to the common length
// (C02: one common length; C03: Append keeps every attribute). Whatever the padding arithmetic is, a path to a
// return on which one of the two maps was never ranged over cannot have looked at that operand's attribute names:
// attributes only that operand carries are missing from the result (and the other operand's are not padded for
// them). Decided on the CFG: for every return of the helper and each of the two map parameters, a `range` over
// that parameter (directly, or over its closure cell) sits in a block that dominates the return — or the return is
// only reachable through the true edge of `len(param) == 0` (nothing to enumerate).

import (
	"fmt"
	"go/token"
	"go/types"

	"golang.org/x/tools/go/ssa"

	"polycheck/ssau"
)

func paramOf(v ssa.Value) *ssa.Parameter {
	switch x := v.(type) {
	case *ssa.Parameter:
		return x
	case *ssa.UnOp:
		if x.Op == token.MUL {
			if a, ok := x.X.(*ssa.Alloc); ok {
				var p *ssa.Parameter
				n := 0
				for _, r := range *a.Referrers() {
					if st, ok := r.(*ssa.Store); ok && st.Addr == a {
						n++
						p, _ = st.Val.(*ssa.Parameter)
					}
				}
				if n == 1 {
					return p
				}
			}
		}
	}
	return nil
}

// PairEnumerates decides PAIR-3 for helper; nil when the helper does not have exactly two map-of-slice parameters
// of one type.
func PairEnumerates(helper *ssa.Function) []FillSite {
	if helper == nil || helper.Blocks == nil {
		return nil
	}
	var maps []*ssa.Parameter
	for _, p := range helper.Params {
		if m, ok := p.Type().Underlying().(*types.Map); ok {
			if _, ok := m.Elem().Underlying().(*types.Slice); ok {
				maps = append(maps, p)
			}
		}
	}
	if len(maps) != 2 || !types.Identical(maps[0].Type(), maps[1].Type()) {
		return nil
	}
	ranges := map[*ssa.Parameter][]*ssa.BasicBlock{}
	emptyTrue := map[*ssa.Parameter][]*ssa.BasicBlock{} // true successors of len(p) == 0
	ssau.AllInstrs(helper, func(in ssa.Instruction) {
		switch x := in.(type) {
		case *ssa.Range:
			if p := paramOf(x.X); p != nil {
				ranges[p] = append(ranges[p], x.Block())
			}
		case *ssa.If:
			cmp, ok := x.Cond.(*ssa.BinOp)
			if !ok || cmp.Op != token.EQL {
				return
			}
			if k, ok := ssau.ConstInt(cmp.Y); !ok || k != 0 {
				return
			}
			c, ok := cmp.X.(*ssa.Call)
			if !ok || ssau.Builtin(c) != "len" || len(c.Call.Args) != 1 {
				return
			}
			if p := paramOf(c.Call.Args[0]); p != nil && len(x.Block().Succs) == 2 {
				emptyTrue[p] = append(emptyTrue[p], x.Block().Succs[0])
			}
		}
	})
	var out []FillSite
	for _, b := range helper.Blocks {
		ret, ok := b.Instrs[len(b.Instrs)-1].(*ssa.Return)
		if !ok {
			continue
		}
		for i, p := range maps {
			covered := false
			for _, rb := range ranges[p] {
				if rb.Dominates(b) {
					covered = true
				}
			}
			for _, eb := range emptyTrue[p] {
				if len(eb.Preds) == 1 && eb.Dominates(b) {
					covered = true
				}
			}
			if covered {
				out = append(out, FillSite{Fn: helper, At: ret, OK: true, Rule: "PAIR-3",
					Detail: fmt.Sprintf("every path to this return ranges over operand %d (%s)", i+1, p.Name())})
			} else {
				out = append(out, FillSite{Fn: helper, At: ret, OK: false, Rule: "PAIR-3",
					Detail: fmt.Sprintf("a path reaches this return without ranging over operand %d (%s): attributes only that mesh carries are missing from the combined result, so the attribute arrays of the appended mesh no longer have one common length", i+1, p.Name())})
			}
		}
	}
	return out
}
