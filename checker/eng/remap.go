package eng

// Small structural rules for the mesh operations that rebuild index arrays.
//
// REMAP-1 — an index-remap loop (X[i] = X[i] − T[X[i]], or = src − T[src], with T a local int table)
//           lies on every path to the point where X is handed to the resulting mesh: after vertices
//           were removed, skipping the remap leaves indices that point past the compacted arrays.
// FILL-1  — the zero-fill loops of modeling.appendData: the fill executed while ranging over one
//           mesh's attribute map stands in for the OTHER mesh's missing data, so it must run for the
//           other mesh's vertex count (parameters paired by position: map k ↔ length k).
// PAIR-2  — at each call of that helper the length handed over for a map is AttributeLength() of the
//           very mesh the map was loaded from.

import (
	"go/token"
	"go/types"

	"golang.org/x/tools/go/ssa"

	"polycheck/ssau"
)

type RemapSite struct {
	Fn      *ssa.Function
	Store   *ssa.Store
	Handoff ssa.Instruction
	OK      bool
	Detail  string
}

func isIntSlice(t types.Type) bool {
	s, ok := t.Underlying().(*types.Slice)
	if !ok {
		return false
	}
	b, ok := s.Elem().Underlying().(*types.Basic)
	return ok && b.Kind() == types.Int
}

// Remaps finds remap stores and checks that their loop dominates every hand-off of the array.
func Remaps(fns []*ssa.Function, modelingPath string, isMeshIndexField func(*types.Var) bool) []RemapSite {
	var out []RemapSite
	for _, fn := range fns {
		loops := ssau.Loops(fn)
		if len(loops) == 0 {
			continue
		}
		ssau.AllInstrs(fn, func(in ssa.Instruction) {
			st, ok := in.(*ssa.Store)
			if !ok {
				return
			}
			ia, ok := st.Addr.(*ssa.IndexAddr)
			if !ok || !isIntSlice(ia.X.Type()) {
				return
			}
			sub, ok := st.Val.(*ssa.BinOp)
			if !ok || sub.Op != token.SUB {
				return
			}
			// right operand: element of a local int table subscripted by (a value equal to) the left operand
			tl, ok := sub.Y.(*ssa.UnOp)
			if !ok || tl.Op != token.MUL {
				return
			}
			tia, ok := tl.X.(*ssa.IndexAddr)
			if !ok || !isIntSlice(tia.X.Type()) {
				return
			}
			local := false
			for r := range aliasRoots(tia.X) {
				if _, ok := r.(*ssa.MakeSlice); ok {
					local = true
				}
			}
			if !local || !sameValueExpr(tia.Index, sub.X) {
				return
			}
			l := ssau.InnermostLoop(loops, st.Block())
			if l == nil {
				return
			}
			// hand-offs of the array written
			roots := aliasRoots(ia.X)
			found := false
			ssau.AllInstrs(fn, func(h ssa.Instruction) {
				var handed ssa.Value
				switch x := h.(type) {
				case *ssa.Store:
					if fa, ok := x.Addr.(*ssa.FieldAddr); ok && isMeshIndexField(ssau.FieldOf(fa)) {
						handed = x.Val
					}
				case *ssa.Call:
					if o := ssau.CalleeObj(x); o != nil {
						switch {
						case ssau.IsMethod(o, modelingPath, "Mesh", "SetIndices") && len(x.Call.Args) == 2:
							handed = x.Call.Args[1]
						case ssau.IsFunc(o, modelingPath, "NewMesh") && len(x.Call.Args) == 2:
							handed = x.Call.Args[1]
						case ssau.IsFunc(o, modelingPath, "NewTriangleMesh") && len(x.Call.Args) == 1:
							handed = x.Call.Args[0]
						}
					}
				}
				if handed == nil {
					return
				}
				shared := false
				for r := range aliasRoots(handed) {
					if roots[r] && isAllocLike(r) {
						shared = true
					}
				}
				if !shared {
					return
				}
				found = true
				ok := l.Header.Dominates(h.Block()) && !l.Blocks[h.Block()]
				d := "the remap loop lies on every path to the hand-off of the index array"
				if !ok {
					d = "the index array is handed to the mesh on a path that skips the remap loop: indices keep pointing at the vertex numbering from before the compaction"
				}
				out = append(out, RemapSite{Fn: fn, Store: st, Handoff: h, OK: ok, Detail: d})
			})
			_ = found
		})
	}
	return out
}

// sameValueExpr: a and b are the same SSA value or two loads / At-calls of the same element.
func sameValueExpr(a, b ssa.Value) bool {
	if a == b {
		return true
	}
	la, ok1 := a.(*ssa.UnOp)
	lb, ok2 := b.(*ssa.UnOp)
	if ok1 && ok2 && la.Op == token.MUL && lb.Op == token.MUL {
		ia, ok1 := la.X.(*ssa.IndexAddr)
		ib, ok2 := lb.X.(*ssa.IndexAddr)
		if ok1 && ok2 && ia.Index == ib.Index {
			ra := aliasRoots(ia.X)
			for r := range aliasRoots(ib.X) {
				if ra[r] {
					return true
				}
			}
		}
		if la.X == lb.X {
			return true
		}
	}
	ca, ok1 := a.(*ssa.Call)
	cb, ok2 := b.(*ssa.Call)
	if ok1 && ok2 {
		oa, ob := ssau.CalleeObj(ca), ssau.CalleeObj(cb)
		if oa != nil && oa == ob && oa.Name() == "At" && len(ca.Call.Args) == 2 && len(cb.Call.Args) == 2 && ca.Call.Args[1] == cb.Call.Args[1] {
			ra, rb := ca.Call.Args[0], cb.Call.Args[0]
			if ua, ok := ra.(*ssa.UnOp); ok {
				ra = ua.X
			}
			if ub, ok := rb.(*ssa.UnOp); ok {
				rb = ub.X
			}
			return ra == rb
		}
	}
	return false
}

type FillSite struct {
	Fn     *ssa.Function
	At     ssa.Instruction
	OK     bool
	Detail string
	Rule   string
}

// FillRules checks FILL-1 inside helper and PAIR-2 at its call sites. helper may be nil (helper refactored away).
func FillRules(helper *ssa.Function, callers []*ssa.Function, modelingPath string) []FillSite {
	var out []FillSite
	if helper == nil {
		return nil
	}
	// parameter roles by type and position: two maps, then two ints
	var maps, ints []*ssa.Parameter
	for _, p := range helper.Params {
		switch u := p.Type().Underlying().(type) {
		case *types.Map:
			maps = append(maps, p)
		case *types.Basic:
			if u.Kind() == types.Int {
				ints = append(ints, p)
			}
		}
	}
	if len(maps) != 2 || len(ints) != 2 {
		return nil
	}
	loops := ssau.Loops(helper)
	rangeOf := func(l *ssau.Loop) *ssa.Parameter {
		var res *ssa.Parameter
		for b := range l.Blocks {
			for _, in := range b.Instrs {
				if nx, ok := in.(*ssa.Next); ok {
					if r, ok := nx.Iter.(*ssa.Range); ok {
						if p, ok := r.X.(*ssa.Parameter); ok && b == l.Header {
							res = p
						}
					}
				}
			}
		}
		return res
	}
	// fill events: a counted zero-fill bounded by one of the helper's int parameters, either a loop of the helper
	// itself or a loop of a function literal of the helper bounded by the literal's own parameter, bound at each
	// call of the literal
	type fillEvent struct {
		bound *ssa.Parameter
		at    ssa.Instruction
		in    *ssa.BasicBlock // where the fill happens in the helper (loop header / call block)
	}
	var events []fillEvent
	countedBound := func(f *ssa.Function, l *ssau.Loop, among []*ssa.Parameter) (*ssa.Parameter, ssa.Instruction) {
		for b := range l.Blocks {
			if len(b.Instrs) == 0 {
				continue
			}
			ifi, ok := b.Instrs[len(b.Instrs)-1].(*ssa.If)
			if !ok || (l.Blocks[b.Succs[0]] && l.Blocks[b.Succs[1]]) {
				continue
			}
			if cmp, ok := ifi.Cond.(*ssa.BinOp); ok {
				for _, v := range []ssa.Value{cmp.X, cmp.Y} {
					if p, ok := v.(*ssa.Parameter); ok {
						for _, q := range among {
							if p == q {
								return p, ifi
							}
						}
					}
				}
			}
		}
		return nil, nil
	}
	loopAppends := func(l *ssau.Loop) bool {
		for b := range l.Blocks {
			for _, in := range b.Instrs {
				if c, ok := in.(*ssa.Call); ok && ssau.Builtin(c) == "append" {
					return true
				}
			}
		}
		return false
	}
	for _, l := range loops {
		if bound, at := countedBound(helper, l, ints); bound != nil {
			events = append(events, fillEvent{bound, at, l.Header})
		}
	}
	// a fill by allocation: make([]T, len(data)+count) leaves count zero elements behind the copy
	ssau.AllInstrs(helper, func(in ssa.Instruction) {
		ms, ok := in.(*ssa.MakeSlice)
		if !ok {
			return
		}
		add, ok := ms.Len.(*ssa.BinOp)
		if !ok || add.Op != token.ADD {
			return
		}
		for _, v := range []ssa.Value{add.X, add.Y} {
			if p, ok := v.(*ssa.Parameter); ok && (p == ints[0] || p == ints[1]) {
				events = append(events, fillEvent{p, ms, ms.Block()})
			}
		}
	})
	for _, lit := range helper.AnonFuncs {
		var litInts []*ssa.Parameter
		for _, p := range lit.Params {
			if b, ok := p.Type().Underlying().(*types.Basic); ok && b.Kind() == types.Int {
				litInts = append(litInts, p)
			}
		}
		for _, l := range ssau.Loops(lit) {
			lp, _ := countedBound(lit, l, litInts)
			if lp == nil || !loopAppends(l) {
				continue
			}
			idx := -1
			for i, q := range lit.Params {
				if q == lp {
					idx = i
				}
			}
			ssau.AllInstrs(helper, func(in ssa.Instruction) {
				call, ok := in.(*ssa.Call)
				if !ok || idx < 0 || idx >= len(call.Call.Args) {
					return
				}
				callee := call.Call.StaticCallee()
				if callee != lit {
					if mc, ok := call.Call.Value.(*ssa.MakeClosure); !ok || mc.Fn != lit {
						return
					}
				}
				var bp *ssa.Parameter
				if ap, ok := call.Call.Args[idx].(*ssa.Parameter); ok && (ap == ints[0] || ap == ints[1]) {
					bp = ap
				}
				if bp == nil {
					out = append(out, FillSite{Fn: helper, At: call, OK: false, Detail: "zero-fill through " + lit.Name() + " runs " + call.Call.Args[idx].Name() + " times, which is not one of the two vertex counts", Rule: "FILL-1"})
					return
				}
				events = append(events, fillEvent{bp, call, call.Block()})
			})
		}
	}
	for _, ev := range events {
		bound, at := ev.bound, ev.at
		// innermost enclosing range-over-parameter loop
		var outer *ssa.Parameter
		best := 1 << 30
		for _, ol := range loops {
			if ol.Header == ev.in && ol.Blocks[ev.in] {
				if _, isIf := at.(*ssa.If); isIf {
					continue // the counted loop itself
				}
			}
			if !ol.Blocks[ev.in] {
				continue
			}
			if p := rangeOf(ol); p != nil && len(ol.Blocks) < best {
				outer = p
				best = len(ol.Blocks)
			}
		}
		if outer == nil {
			continue
		}
		want := ints[1]
		other := maps[1]
		if outer == maps[1] {
			want = ints[0]
			other = maps[0]
		}
		ok := bound == want
		d := "zero-fill while ranging over " + outer.Name() + " stands in for " + other.Name() + " and runs " + bound.Name() + " times"
		if !ok {
			d += " — it must run " + want.Name() + " times (the other mesh's vertex count): the padded attribute ends up with a different length than the rest"
		}
		out = append(out, FillSite{Fn: helper, At: at, OK: ok, Detail: d, Rule: "FILL-1"})
	}
	// PAIR-2 at call sites
	idxOf := func(p *ssa.Parameter) int {
		for i, q := range helper.Params {
			if q == p {
				return i
			}
		}
		return -1
	}
	for _, c := range callers {
		ssau.AllInstrs(c, func(in ssa.Instruction) {
			call, ok := in.(*ssa.Call)
			if !ok {
				return
			}
			callee := call.Call.StaticCallee()
			if callee == nil {
				return
			}
			if callee != helper && callee.Origin() != helper {
				// instantiation wrapper of the generic helper
				if callee.Synthetic == "" {
					return
				}
				match := false
				ssau.AllInstrs(callee, func(ci ssa.Instruction) {
					if cc, ok := ci.(*ssa.Call); ok && cc.Call.StaticCallee() == helper {
						match = true
					}
				})
				if !match {
					return
				}
			}
			for k := 0; k < 2; k++ {
				mi, li := idxOf(maps[k]), idxOf(ints[k])
				if mi >= len(call.Call.Args) || li >= len(call.Call.Args) {
					continue
				}
				base := meshBaseOfMap(call.Call.Args[mi])
				lbase := meshBaseOfLength(call.Call.Args[li], modelingPath)
				if base == nil || lbase == nil {
					continue
				}
				ok := base == lbase
				d := "length argument " + itoa(li) + " is AttributeLength() of the mesh whose map is argument " + itoa(mi)
				if !ok {
					d = "length argument " + itoa(li) + " is the vertex count of a different mesh than the one whose attribute map is argument " + itoa(mi)
				}
				out = append(out, FillSite{Fn: c, At: call, OK: ok, Detail: d, Rule: "PAIR-2"})
			}
		})
	}
	return out
}

func meshBaseOfMap(v ssa.Value) ssa.Value {
	if u, ok := v.(*ssa.UnOp); ok && u.Op == token.MUL {
		if fa, ok := u.X.(*ssa.FieldAddr); ok {
			return fa.X
		}
	}
	return nil
}

func meshBaseOfLength(v ssa.Value, modelingPath string) ssa.Value {
	for _, o := range valueOrigins(v) {
		if c, ok := o.(*ssa.Call); ok {
			if f := ssau.CalleeObj(c); f != nil && ssau.IsMethod(f, modelingPath, "Mesh", "AttributeLength") && len(c.Call.Args) == 1 {
				if u, ok := c.Call.Args[0].(*ssa.UnOp); ok && u.Op == token.MUL {
					return u.X
				}
				return c.Call.Args[0]
			}
		}
	}
	return nil
}

// RENUM-1 — a renumber table (a local []int whose elements are filled from a running count) hands out new
//
//	vertex ids. Its numbering order must be the order in which the attribute arrays are compacted:
//	  * "prefix" tables are filled in a sequential scan (the store index is the counter of the very loop
//	    that carries the count), so new ids follow vertex order — the order of the sequential compaction
//	    loops (gather index = loop counter, decided by the IDX rules);
//	  * a table filled at the position of a vertex id read from elsewhere (first-reference order) is
//	    consistent only when the attribute data of that very vertex is emitted at the same moment.
type RenumSite struct {
	Fn     *ssa.Function
	Store  *ssa.Store
	OK     bool
	Class  string
	Detail string
}

// accumulators: header phis of l that depend on themselves through +const and are not the loop's exit counter.
func accumulatorsOf(l *ssau.Loop) map[*ssa.Phi]bool {
	out := map[*ssa.Phi]bool{}
	exitDeps := map[ssa.Value]bool{}
	if n := len(l.Header.Instrs); n > 0 {
		if ifi, ok := l.Header.Instrs[n-1].(*ssa.If); ok {
			for d := range backward(ifi.Cond, false) {
				exitDeps[d] = true
			}
		}
	}
	// rotated loops test at the latch
	for _, lb := range l.Latch {
		if n := len(lb.Instrs); n > 0 {
			if ifi, ok := lb.Instrs[n-1].(*ssa.If); ok {
				for d := range backward(ifi.Cond, false) {
					exitDeps[d] = true
				}
			}
		}
	}
	for _, in := range l.Header.Instrs {
		phi, ok := in.(*ssa.Phi)
		if !ok {
			break
		}
		if b, ok := phi.Type().Underlying().(*types.Basic); !ok || b.Info()&types.IsInteger == 0 {
			continue
		}
		if exitDeps[phi] {
			continue
		}
		// self-dependence through phis and +const only
		seen := map[ssa.Value]bool{}
		self := false
		var walk func(v ssa.Value, d int)
		walk = func(v ssa.Value, d int) {
			if d > 12 || seen[v] {
				return
			}
			seen[v] = true
			switch x := v.(type) {
			case *ssa.Phi:
				if x == phi && d > 0 {
					self = true
					return
				}
				if x != phi && !l.Blocks[x.Block()] {
					return
				}
				for _, e := range x.Edges {
					if e == phi {
						if d > 0 || x != phi {
							self = true
						}
						continue
					}
					walk(e, d+1)
				}
			case *ssa.BinOp:
				if x.Op == token.ADD {
					if _, ok := ssau.ConstInt(x.Y); ok {
						if x.X == phi {
							self = true
							return
						}
						walk(x.X, d+1)
					}
				}
			}
		}
		for _, e := range phi.Edges {
			walk(e, 1)
		}
		if self {
			out[phi] = true
		}
	}
	return out
}

func Renumbers(fns []*ssa.Function) []RenumSite {
	var out []RenumSite
	for _, fn := range fns {
		loops := ssau.Loops(fn)
		if len(loops) == 0 {
			continue
		}
		ssau.AllInstrs(fn, func(in ssa.Instruction) {
			st, ok := in.(*ssa.Store)
			if !ok {
				return
			}
			ia, ok := st.Addr.(*ssa.IndexAddr)
			if !ok || !isIntSlice(ia.X.Type()) {
				return
			}
			local := false
			for r := range aliasRoots(ia.X) {
				if _, ok := r.(*ssa.MakeSlice); ok {
					local = true
				}
			}
			if !local {
				return
			}
			// which loop's accumulator feeds the stored value?
			var L *ssau.Loop
			var acc *ssa.Phi
			deps := backward(st.Val, true)
			for _, l := range loops {
				if !l.Blocks[st.Block()] {
					continue
				}
				for a := range accumulatorsOf(l) {
					if deps[a] && (L == nil || len(l.Blocks) < len(L.Blocks)) {
						L, acc = l, a
					}
				}
			}
			if L == nil {
				return
			}
			// the value must be the count itself (possibly ±const), not a product of lookups
			if _, isRead := readOf(st.Val); isRead {
				return
			}
			_ = acc
			if phi, _ := counterOf(ia.Index, L); phi != nil {
				out = append(out, RenumSite{Fn: fn, Store: st, OK: true, Class: "prefix", Detail: "renumber table filled from a running count in a sequential scan (store index = the loop counter): new ids follow vertex order, the order of the sequential compaction"})
				return
			}
			// first-reference numbering: consistent only if the vertex's data is emitted at the same moment
			emitted := false
			for b := range L.Blocks {
				if !st.Block().Dominates(b) && b != st.Block() {
					continue
				}
				for _, i2 := range b.Instrs {
					c, ok := i2.(*ssa.Call)
					if !ok || ssau.Builtin(c) != "append" {
						continue
					}
					for d := range backward(c.Call.Args[1], false) {
						if rd, ok := readOf(d); ok && sameSource(rd.idx, ia.Index) {
							emitted = true
						}
					}
				}
			}
			if emitted {
				out = append(out, RenumSite{Fn: fn, Store: st, OK: true, Class: "first-reference", Detail: "ids handed out in first-reference order and the vertex's attribute data is emitted at that moment"})
			} else {
				out = append(out, RenumSite{Fn: fn, Store: st, OK: false, Class: "first-reference", Detail: "the renumber table hands out new ids in the order vertices are first referenced (store index is a value read from elsewhere, not the counter of the counting loop), but no attribute data is emitted at that moment: the attribute arrays are compacted in another (vertex) order, so the new indices point at the wrong vertices"})
			}
		})
	}
	return out
}
