package eng

// SHAPE — "one attribute, element-wise, same length, parameter used" (DESIGN.md §3.3).
//
// For a function that is supposed to transform exactly one attribute element-wise,
// decide from its SSA:
//   SHAPE-1  the result is inputMesh.SetFloatKAttribute(attr, dst): the receiver is the input
//            mesh value itself (so indices, topology, materials and every other attribute are
//            carried over) and attr is the very attribute that was read;
//   SHAPE-2  dst is make([]T, len(src)) and every store is dst[j] = f(… src[j] …) with the same j;
//   SHAPE-3  every value parameter of the operation reaches a stored element;
//   SHAPE-4  every store into dst is unconditional in a loop that runs j over the whole range.
// Accepted forms: explicit loop, delegation to Mesh.ModifyFloatKAttribute* with a closure,
// delegation to an element-wise array function (TransformArray, RotateArray).

import (
	"go/constant"
	"go/token"
	"go/types"
	"strings"

	"golang.org/x/tools/go/ssa"

	"polycheck/ssau"
)

type ShapeFinding struct {
	Rule   string
	OK     bool
	Detail string
	At     ssa.Instruction
	Tag    string // optional sub-construct name (stable key part)
}

type ShapeResult struct {
	Fn       *ssa.Function
	Form     string
	Findings []ShapeFinding
}

type ShapeConfig struct {
	ModelingPath string
	// ArrayFuncs: element-wise array functions (value.Method(in []T) []T) accepted as delegates.
	IsArrayFunc func(*ssa.Function) bool
	// SkipParam: parameters that must not influence the result (worker-pool size).
	SkipParam func(fn *ssa.Function, p *ssa.Parameter) bool
	// PartitionDecided: the function's spawned index ranges are decided to partition [0,n) elsewhere (C10's
	// SYM-PART covers the parallel helpers of package modeling). For other functions an element loop inside a
	// spawned closure is not accepted: nothing shows that the ranges handed to the workers cover every element.
	PartitionDecided func(fn *ssa.Function) bool
}

func (r *ShapeResult) add(rule string, ok bool, at ssa.Instruction, detail string) {
	r.Findings = append(r.Findings, ShapeFinding{Rule: rule, OK: ok, Detail: detail, At: at})
}

func meshMethodName(c ssa.CallInstruction, modelingPath string) string {
	o := ssau.CalleeObj(c)
	if o != nil && ssau.IsMethod(o, modelingPath, "Mesh", o.Name()) {
		return o.Name()
	}
	return ""
}

func isSetAttr(n string) bool {
	return strings.HasPrefix(n, "SetFloat") && strings.HasSuffix(n, "Attribute") && len(n) == len("SetFloat1Attribute")
}
func isGetAttr(n string) bool {
	return strings.HasPrefix(n, "Float") && strings.HasSuffix(n, "Attribute") && len(n) == len("Float1Attribute")
}
func isModify(n string) bool {
	return strings.HasPrefix(n, "ModifyFloat") && strings.Contains(n, "Attribute")
}

// valueOrigin follows copies (local variable cells, closure variables) back to the defining values.
func valueOrigins(v ssa.Value) []ssa.Value {
	seen := map[ssa.Value]bool{}
	var out []ssa.Value
	var walk func(x ssa.Value)
	walk = func(x ssa.Value) {
		if x == nil || seen[x] {
			return
		}
		seen[x] = true
		switch y := x.(type) {
		case *ssa.UnOp:
			if y.Op == token.MUL {
				switch a := y.X.(type) {
				case *ssa.Alloc:
					n := 0
					for _, r := range ssau.Refs(a) {
						if st, ok := r.(*ssa.Store); ok && st.Addr == a {
							walk(st.Val)
							n++
						}
					}
					if n > 0 {
						return
					}
				case *ssa.FreeVar:
					if cell := bindingOf(a); cell != nil {
						n := 0
						for _, r := range ssau.Refs(cell) {
							if st, ok := r.(*ssa.Store); ok && st.Addr == cell {
								walk(st.Val)
								n++
							}
						}
						if n > 0 {
							return
						}
					}
				}
			}
		case *ssa.Phi:
			for _, e := range y.Edges {
				walk(e)
			}
			return
		case *ssa.ChangeType:
			walk(y.X)
			return
		}
		out = append(out, x)
	}
	walk(v)
	return out
}

func sameString(a, b ssa.Value) bool {
	oa, obs := valueOrigins(a), valueOrigins(b)
	if len(oa) != 1 || len(obs) != 1 {
		return false
	}
	x, y := oa[0], obs[0]
	if x == y {
		return true
	}
	cx, ok1 := x.(*ssa.Const)
	cy, ok2 := y.(*ssa.Const)
	if ok1 && ok2 && cx.Value != nil && cy.Value != nil && cx.Value.Kind() == constant.String {
		return constant.Compare(cx.Value, token.EQL, cy.Value)
	}
	return false
}

func isMeshParamOrigin(v ssa.Value, fn *ssa.Function, modelingPath string) (ok bool, why string) {
	os := valueOrigins(v)
	if len(os) != 1 {
		return false, "the mesh value has several origins"
	}
	p, isParam := os[0].(*ssa.Parameter)
	if !isParam {
		return false, "the mesh value is " + strings.TrimSpace(os[0].String()) + ", not the input mesh"
	}
	top := fn
	for top.Parent() != nil {
		top = top.Parent()
	}
	if p.Parent() != top || !ssau.IsNamed(p.Type(), modelingPath, "Mesh") {
		return false, "not the operation's mesh parameter"
	}
	return true, "parameter " + p.Name()
}

// srcRead: v reads element j of a source (iterator At / slice element).
type srcRead struct {
	src ssa.Value // iterator pointer value or slice value (origin)
	idx ssa.Value
}

func readOf(v ssa.Value) (srcRead, bool) {
	switch x := v.(type) {
	case *ssa.Call:
		if o := ssau.CalleeObj(x); o != nil && o.Name() == "At" && len(x.Call.Args) == 2 && isIterType(x.Call.Args[0].Type()) {
			it := x.Call.Args[0]
			if u, ok := it.(*ssa.UnOp); ok && u.Op == token.MUL {
				it = u.X
			}
			return srcRead{it, x.Call.Args[1]}, true
		}
	case *ssa.UnOp:
		if x.Op == token.MUL {
			if ia, ok := x.X.(*ssa.IndexAddr); ok {
				if _, isSlice := ia.X.Type().Underlying().(*types.Slice); isSlice {
					return srcRead{ia.X, ia.Index}, true
				}
			}
		}
	}
	return srcRead{}, false
}

func sameSource(a, b ssa.Value) bool {
	for _, x := range valueOrigins(a) {
		for _, y := range valueOrigins(b) {
			if x == y {
				return true
			}
			// slices: shared alias roots
			if _, isSlice := x.Type().Underlying().(*types.Slice); isSlice {
				ry := aliasRoots(y)
				for r := range aliasRoots(x) {
					if ry[r] {
						return true
					}
				}
			}
		}
	}
	return false
}

// backward collects the values v depends on (data flow only). throughPhi=false stops at phis.
func backward(v ssa.Value, throughPhi bool) map[ssa.Value]bool {
	seen := map[ssa.Value]bool{}
	var walk func(x ssa.Value, d int)
	walk = func(x ssa.Value, d int) {
		if x == nil || seen[x] || d > 40 {
			return
		}
		seen[x] = true
		switch y := x.(type) {
		case *ssa.Phi:
			if throughPhi {
				for _, e := range y.Edges {
					walk(e, d+1)
				}
			}
			return
		case *ssa.MakeClosure:
			// captured variables are cells: what was stored into them reaches the closure
			for _, b := range y.Bindings {
				if cell, ok := b.(*ssa.Alloc); ok {
					for _, r := range ssau.Refs(cell) {
						if st, ok := r.(*ssa.Store); ok && st.Addr == cell {
							walk(st.Val, d+1)
						}
					}
				}
			}
		case *ssa.UnOp:
			if y.Op == token.MUL {
				switch a := y.X.(type) {
				case *ssa.Alloc:
					for _, r := range ssau.Refs(a) {
						if st, ok := r.(*ssa.Store); ok && st.Addr == a {
							walk(st.Val, d+1)
						}
					}
					// struct spilled to a local: also its field stores
					for _, r := range ssau.Refs(a) {
						if fa, ok := r.(*ssa.FieldAddr); ok {
							for _, rr := range ssau.Refs(fa) {
								if st, ok := rr.(*ssa.Store); ok && st.Addr == fa {
									walk(st.Val, d+1)
								}
							}
						}
					}
				case *ssa.FreeVar:
					walk(a, d+1)
					if cell := bindingOf(a); cell != nil {
						for _, r := range ssau.Refs(cell) {
							if st, ok := r.(*ssa.Store); ok && st.Addr == cell {
								walk(st.Val, d+1)
							}
						}
					}
				case *ssa.FieldAddr:
					walk(a.X, d+1)
					// value of the field of a spilled struct parameter
					if al, ok := a.X.(*ssa.Alloc); ok {
						for _, r := range ssau.Refs(al) {
							if st, ok := r.(*ssa.Store); ok && st.Addr == al {
								walk(st.Val, d+1)
							}
						}
					}
				default:
					walk(y.X, d+1)
				}
				return
			}
		}
		if in, ok := x.(ssa.Instruction); ok {
			for _, op := range in.Operands(nil) {
				if op != nil && *op != nil {
					walk(*op, d+1)
				}
			}
		}
	}
	walk(v, 0)
	return seen
}

// AnalyseShape decides SHAPE-1..4 for one operation.
func AnalyseShape(fn *ssa.Function, cfg ShapeConfig) ShapeResult {
	res := ShapeResult{Fn: fn}
	var rets []*ssa.Return
	ssau.AllInstrs(fn, func(in ssa.Instruction) {
		if r, ok := in.(*ssa.Return); ok {
			rets = append(rets, r)
		}
	})
	if len(rets) == 0 {
		res.add("SHAPE-1", false, nil, "function never returns a result")
		return res
	}
	for _, r := range rets {
		if len(r.Results) == 0 {
			continue
		}
		if !ssau.IsNamed(fn.Signature.Results().At(0).Type(), cfg.ModelingPath, "Mesh") {
			// array function: the returned value as a whole (a φ of the make and the appends grown from it)
			analyseResult(&res, fn, r, r.Results[0], cfg)
			continue
		}
		for _, o := range valueOrigins(r.Results[0]) {
			analyseResult(&res, fn, r, o, cfg)
		}
	}
	return res
}

func analyseResult(res *ShapeResult, fn *ssa.Function, ret *ssa.Return, v ssa.Value, cfg ShapeConfig) {
	isMeshOp := ssau.IsNamed(fn.Signature.Results().At(0).Type(), cfg.ModelingPath, "Mesh")
	if !isMeshOp {
		// array function: result is the destination array, source is the slice parameter
		var src ssa.Value
		for _, p := range fn.Params {
			if _, ok := p.Type().Underlying().(*types.Slice); ok {
				src = p
			}
		}
		if src == nil {
			res.add("SHAPE-2", false, ret, "array function without a slice parameter")
			return
		}
		res.Form = "array-loop"
		checkLoopForm(res, fn, ret, v, src, cfg, nil)
		return
	}
	call, ok := v.(*ssa.Call)
	if !ok {
		res.add("SHAPE-1", false, ret, "result is not produced by SetFloatKAttribute / ModifyFloatKAttribute on the input mesh: "+strings.TrimSpace(v.String()))
		return
	}
	name := meshMethodName(call, cfg.ModelingPath)
	switch {
	case isSetAttr(name):
		recvOK, why := isMeshParamOrigin(call.Call.Args[0], fn, cfg.ModelingPath)
		res.add("SHAPE-1", recvOK, call, "setter receiver: "+why)
		attrOut := call.Call.Args[1]
		data := call.Call.Args[2]
		// delegate to an element-wise array function?
		if os := valueOrigins(data); len(os) == 1 {
			if dc, ok := os[0].(*ssa.Call); ok {
				if callee := dc.Call.StaticCallee(); callee != nil && cfg.IsArrayFunc != nil && cfg.IsArrayFunc(callee) {
					res.Form = "delegate-array:" + callee.Name()
					arg := dc.Call.Args[len(dc.Call.Args)-1]
					attrIn, okAttr := attrOfSource(arg, fn, cfg)
					if !okAttr {
						res.add("SHAPE-1", false, dc, "the array handed to "+callee.Name()+" is not an attribute of the input mesh")
					} else {
						res.add("SHAPE-1", sameString(attrIn, attrOut), dc, "attribute read "+constOrName(attrIn)+" vs attribute written "+constOrName(attrOut))
					}
					// SHAPE-3: the receiver / other args of the delegate come from the operation's parameters
					checkParamsReach(res, fn, []ssa.Value{dc}, call, cfg, attrOut)
					res.add("SHAPE-2", true, dc, "element-wise by delegation to "+callee.Name()+" (checked as an array function)")
					return
				}
			}
		}
		res.Form = "loop"
		checkLoopForm(res, fn, call, data, nil, cfg, attrOut)
	case isModify(name):
		res.Form = "delegate-modify:" + name
		recvOK, why := isMeshParamOrigin(call.Call.Args[0], fn, cfg.ModelingPath)
		res.add("SHAPE-1", recvOK, call, "receiver of "+name+": "+why)
		fnArg := call.Call.Args[len(call.Call.Args)-1]
		var clo *ssa.Function
		if mc, ok := fnArg.(*ssa.MakeClosure); ok {
			clo = mc.Fn.(*ssa.Function)
		} else if f, ok := fnArg.(*ssa.Function); ok && f.Parent() == fn {
			clo = f // function literal that captures nothing
		}
		if clo != nil {
			// SHAPE-2': the closure's result depends on its element parameter
			okElem := false
			var deps map[ssa.Value]bool
			ssau.AllInstrs(clo, func(in ssa.Instruction) {
				if r, ok := in.(*ssa.Return); ok && len(r.Results) == 1 {
					d := backward(r.Results[0], true)
					if deps == nil {
						deps = d
					} else {
						for k := range d {
							deps[k] = true
						}
					}
				}
			})
			if len(clo.Params) >= 2 && deps[clo.Params[1]] {
				okElem = true
			}
			res.add("SHAPE-2", okElem, call, "callback result depends on the element it is given")
			// SHAPE-3 through the closure's free variables
			checkParamsReachDeps(res, fn, deps, call, cfg, call.Call.Args[1])
		} else {
			// pass-through of the operation's own callback (Parallel wrappers)
			os := valueOrigins(fnArg)
			_, isParam := os[0].(*ssa.Parameter)
			res.add("SHAPE-2", len(os) == 1 && isParam, call, "callback passed through unchanged")
			checkParamsReach(res, fn, call.Call.Args[1:], call, cfg, nil)
		}
	default:
		res.add("SHAPE-1", false, call, "result comes from "+calleeDesc(call)+", not from SetFloatKAttribute / ModifyFloatKAttribute on the input mesh")
	}
}

func calleeDesc(c *ssa.Call) string {
	if o := ssau.CalleeObj(c); o != nil {
		return o.Name()
	}
	return "a dynamic call"
}

func constOrName(v ssa.Value) string {
	for _, o := range valueOrigins(v) {
		if c, ok := o.(*ssa.Const); ok && c.Value != nil {
			return c.Value.String()
		}
		return o.Name()
	}
	return v.Name()
}

// attrOfSource: src is attribute `attr` of the input mesh (iterator from FloatKAttribute(m, attr) or m.vKData[attr]).
func attrOfSource(src ssa.Value, fn *ssa.Function, cfg ShapeConfig) (ssa.Value, bool) {
	for _, o := range valueOrigins(src) {
		switch x := o.(type) {
		case *ssa.Call:
			if isGetAttr(meshMethodName(x, cfg.ModelingPath)) {
				if ok, _ := isMeshParamOrigin(x.Call.Args[0], fn, cfg.ModelingPath); ok {
					return x.Call.Args[1], true
				}
			}
		case *ssa.Lookup:
			if isMeshAttrMap(x.X, fn, cfg) {
				return x.Index, true
			}
		case *ssa.Extract:
			if l, ok := x.Tuple.(*ssa.Lookup); ok && x.Index == 0 && isMeshAttrMap(l.X, fn, cfg) {
				return l.Index, true
			}
		}
	}
	return nil, false
}

func isMeshAttrMap(m ssa.Value, fn *ssa.Function, cfg ShapeConfig) bool {
	u, ok := m.(*ssa.UnOp)
	if !ok {
		return false
	}
	fa, ok := u.X.(*ssa.FieldAddr)
	if !ok {
		return false
	}
	f := ssau.FieldOf(fa)
	if f == nil || f.Pkg() == nil || f.Pkg().Path() != cfg.ModelingPath || familyOfName(f.Name(), "v", "Data") == 0 {
		return false
	}
	// base must be the spilled mesh parameter
	if a, ok := fa.X.(*ssa.Alloc); ok {
		for _, r := range ssau.Refs(a) {
			if st, ok := r.(*ssa.Store); ok && st.Addr == a {
				if ok2, _ := isMeshParamOrigin(st.Val, fn, cfg.ModelingPath); ok2 {
					return true
				}
			}
		}
	}
	if p, ok := fa.X.(*ssa.Parameter); ok {
		return ssau.IsNamed(p.Type(), cfg.ModelingPath, "Mesh")
	}
	return false
}

func checkLoopForm(res *ShapeResult, fn *ssa.Function, at ssa.Instruction, data ssa.Value, arraySrc ssa.Value, cfg ShapeConfig, attrOut ssa.Value) {
	// destination = the single make() behind data
	var dst *ssa.MakeSlice
	n := 0
	for r := range aliasRoots(data) {
		if ms, ok := r.(*ssa.MakeSlice); ok {
			dst = ms
			n++
		} else if isAllocLike(r) {
			n++
		}
	}
	for _, o := range valueOrigins(data) {
		for r := range aliasRoots(o) {
			if ms, ok := r.(*ssa.MakeSlice); ok && ms != dst {
				dst = ms
				n++
			}
		}
	}
	if dst == nil || n != 1 {
		res.add("SHAPE-2", false, at, "the new attribute array is not a single make([]T, n) in this function")
		return
	}
	if k, ok := ssau.ConstInt(dst.Len); ok && k == 0 {
		checkAppendForm(res, fn, at, data, dst, arraySrc, cfg, attrOut)
		return
	}
	// source = what sizes dst
	var src ssa.Value
	switch l := dst.Len.(type) {
	case *ssa.Call:
		if o := ssau.CalleeObj(l); o != nil && o.Name() == "Len" && len(l.Call.Args) == 1 && isIterType(l.Call.Args[0].Type()) {
			src = l.Call.Args[0]
			if u, ok := src.(*ssa.UnOp); ok && u.Op == token.MUL {
				src = u.X
			}
		} else if ssau.Builtin(l) == "len" {
			src = l.Call.Args[0]
		}
	}
	if src == nil {
		res.add("SHAPE-2", false, dst, "length of the new array is not len()/Len() of the array it replaces")
		return
	}
	if arraySrc != nil {
		res.add("SHAPE-2", sameSource(src, arraySrc), dst, "new array sized by the input array")
	} else {
		attrIn, ok := attrOfSource(src, fn, cfg)
		if !ok {
			res.add("SHAPE-1", false, dst, "the array that sizes the result is not an attribute of the input mesh")
		} else {
			res.add("SHAPE-1", sameString(attrIn, attrOut), dst, "attribute read "+constOrName(attrIn)+" vs attribute written "+constOrName(attrOut))
			res.add("SHAPE-2", true, dst, "new array has the length of the attribute it replaces")
		}
	}
	// stores into dst (in fn and its closures)
	var stores []*ssa.Store
	var visit func(f *ssa.Function)
	visit = func(f *ssa.Function) {
		ssau.AllInstrs(f, func(in ssa.Instruction) {
			st, ok := in.(*ssa.Store)
			if !ok {
				return
			}
			ia, ok := st.Addr.(*ssa.IndexAddr)
			if !ok {
				return
			}
			for _, o := range valueOrigins(ia.X) {
				if aliasRoots(o)[dst] {
					stores = append(stores, st)
					return
				}
			}
		})
		for _, a := range f.AnonFuncs {
			visit(a)
		}
	}
	visit(fn)
	if len(stores) == 0 {
		res.add("SHAPE-2", false, dst, "nothing is ever stored into the new array")
		return
	}
	var vals []ssa.Value
	for _, st := range stores {
		ia := st.Addr.(*ssa.IndexAddr)
		idx := ia.Index
		same, other := 0, 0
		for d := range backward(st.Val, false) {
			if rd, ok := readOf(d); ok && sameSource(rd.src, src) {
				if rd.idx == idx {
					same++
				} else {
					other++
				}
			}
		}
		switch {
		case other > 0:
			res.add("SHAPE-2", false, st, "element j of the result is computed from a different element of the source")
		case same == 0:
			res.add("SHAPE-2", false, st, "element j of the result does not depend on element j of the source")
		default:
			res.add("SHAPE-2", true, st, "dst[j] computed from src[j] (same j)")
		}
		// SHAPE-4
		f := st.Parent()
		loops := ssau.Loops(f)
		l := ssau.InnermostLoop(loops, st.Block())
		phi, off := counterOf(idx, l)
		switch {
		case l == nil || phi == nil:
			res.add("SHAPE-4", false, st, "store is not indexed by the counter of the loop it sits in")
		default:
			uncond := true
			for _, latch := range l.Latch {
				if !st.Block().Dominates(latch) {
					uncond = false
				}
			}
			full, why := fullRange(phi, off, idx, l, src, dst, f != fn)
			if f != fn && full && (cfg.PartitionDecided == nil || !cfg.PartitionDecided(fn)) {
				full, why = false, "the element loop runs in a spawned closure over a range taken from the closure's parameters, and no rule decides that the ranges handed to the workers partition [0, n) for this function (SYM-PART of C10 covers the parallel helpers of package modeling only)"
			}
			res.add("SHAPE-4", uncond && full, st, map[bool]string{true: "unconditional store in a loop over the whole range", false: "store is conditional or the loop does not cover the whole range: " + why}[uncond && full])
		}
		vals = append(vals, st.Val)
	}
	checkParamsReach(res, fn, vals, at, cfg, attrOut)
}

// checkAppendForm: the array is built as `out := make([]T, 0[, n]); for i over src { out = append(out, f(src[i])) }`:
// exactly one element is appended, unconditionally, in a loop that runs i over the whole source, and the
// element is computed from src[i].
func checkAppendForm(res *ShapeResult, fn *ssa.Function, at ssa.Instruction, data ssa.Value, dst *ssa.MakeSlice, arraySrc ssa.Value, cfg ShapeConfig, attrOut ssa.Value) {
	var apps []*ssa.Call
	for r := range aliasRoots(data) {
		if c, ok := r.(*ssa.Call); ok && ssau.Builtin(c) == "append" {
			apps = append(apps, c)
		}
	}
	if len(apps) != 1 {
		res.add("SHAPE-2", false, at, "the new attribute array is built by "+itoa(len(apps))+" appends; one append per element in one loop is the recognised form")
		return
	}
	app := apps[0]
	// the single appended element
	var elem ssa.Value
	if sl, ok := app.Call.Args[1].(*ssa.Slice); ok {
		if arr, ok := sl.X.(*ssa.Alloc); ok {
			if at, ok := arr.Type().Underlying().(*types.Pointer).Elem().Underlying().(*types.Array); ok && at.Len() == 1 {
				for _, r := range ssau.Refs(arr) {
					if ia, ok := r.(*ssa.IndexAddr); ok {
						for _, rr := range ssau.Refs(ia) {
							if st, ok := rr.(*ssa.Store); ok && st.Addr == ia {
								elem = st.Val
							}
						}
					}
				}
			}
		}
	}
	if elem == nil {
		res.add("SHAPE-2", false, app, "append does not add exactly one element per iteration")
		return
	}
	loops := ssau.Loops(fn)
	l := ssau.InnermostLoop(loops, app.Block())
	if l == nil {
		res.add("SHAPE-4", false, app, "append is not inside a loop")
		return
	}
	// the source read and its index
	var src ssa.Value
	var idx ssa.Value
	other := false
	for d := range backward(elem, false) {
		if rd, ok := readOf(d); ok {
			if _, isIter := rd.src.Type().Underlying().(*types.Pointer); isIter || true {
				if src == nil {
					src, idx = rd.src, rd.idx
				} else if sameSource(rd.src, src) && rd.idx != idx {
					other = true
				}
			}
		}
	}
	if src == nil {
		res.add("SHAPE-2", false, app, "the appended element does not depend on an element of the source")
		return
	}
	if other {
		res.add("SHAPE-2", false, app, "the appended element is computed from more than one element of the source")
		return
	}
	if arraySrc != nil {
		res.add("SHAPE-2", sameSource(src, arraySrc), app, "element appended from the input array")
	} else {
		attrIn, ok := attrOfSource(src, fn, cfg)
		if !ok {
			res.add("SHAPE-1", false, app, "the array the elements are computed from is not an attribute of the input mesh")
		} else {
			res.add("SHAPE-1", sameString(attrIn, attrOut), app, "attribute read "+constOrName(attrIn)+" vs attribute written "+constOrName(attrOut))
		}
	}
	phi, off := counterOf(idx, l)
	uncond := true
	for _, latch := range l.Latch {
		if !app.Block().Dominates(latch) {
			uncond = false
		}
	}
	if phi == nil {
		res.add("SHAPE-4", false, app, "the source is not read at the counter of the loop the append sits in")
		return
	}
	full, why := fullRange(phi, off, idx, l, src, dst, false)
	res.add("SHAPE-2", uncond && full, app, map[bool]string{true: "one element appended per source element, in order (same length, element j from element j)", false: "append is conditional or the loop does not cover the whole source: " + why}[uncond && full])
	res.add("SHAPE-4", uncond && full, app, "append form: unconditional, full range")
	checkParamsReach(res, fn, []ssa.Value{elem}, at, cfg, attrOut)
}

// counterOf: idx is the loop's counter: the header phi itself, or phi+1 (the form range loops take,
// whose phi starts at -1).
func counterOf(idx ssa.Value, l *ssau.Loop) (*ssa.Phi, int64) {
	if l == nil {
		return nil, 0
	}
	if phi, ok := idx.(*ssa.Phi); ok && phi.Block() == l.Header {
		return phi, 0
	}
	if b, ok := idx.(*ssa.BinOp); ok && b.Op == token.ADD {
		if phi, ok := b.X.(*ssa.Phi); ok && phi.Block() == l.Header {
			if c, ok := ssau.ConstInt(b.Y); ok {
				return phi, c
			}
		}
	}
	return nil, 0
}

// fullRange: the index runs 0,1,2,… up to the length of src/dst. Loops inside spawned closures take their
// range from the closure's parameters (the partition is decided by C10's SYM-PART), accepted here.
func fullRange(phi *ssa.Phi, off int64, idx ssa.Value, l *ssau.Loop, src ssa.Value, dst *ssa.MakeSlice, inClosure bool) (bool, string) {
	stepOK, startOK := false, false
	for _, e := range phi.Edges {
		switch x := e.(type) {
		case *ssa.Const:
			if v, ok := ssau.ConstInt(x); ok && v+off == 0 {
				startOK = true
			}
		case *ssa.BinOp:
			if x.Op == token.ADD && x.X == phi {
				if v, ok := ssau.ConstInt(x.Y); ok && v == 1 {
					stepOK = true
				}
			}
		default:
			if inClosure {
				startOK = true
			}
		}
	}
	if !stepOK {
		return false, "counter does not advance by 1"
	}
	if !startOK {
		return false, "counter does not start at 0"
	}
	if inClosure {
		return true, ""
	}
	// exit test
	for b := range l.Blocks {
		if len(b.Instrs) == 0 {
			continue
		}
		ifi, ok := b.Instrs[len(b.Instrs)-1].(*ssa.If)
		if !ok || (l.Blocks[b.Succs[0]] && l.Blocks[b.Succs[1]]) {
			continue
		}
		cmp, ok := ifi.Cond.(*ssa.BinOp)
		if !ok || cmp.Op != token.LSS || cmp.X != idx {
			continue
		}
		if !l.Blocks[b.Succs[0]] {
			continue // loop continues on the false edge: not i < n
		}
		if c, ok := cmp.Y.(*ssa.Call); ok {
			if o := ssau.CalleeObj(c); o != nil && o.Name() == "Len" && len(c.Call.Args) == 1 {
				it := c.Call.Args[0]
				if u, ok := it.(*ssa.UnOp); ok && u.Op == token.MUL {
					it = u.X
				}
				if sameSource(it, src) {
					return true, ""
				}
			}
			if ssau.Builtin(c) == "len" {
				a := c.Call.Args[0]
				if sameSource(a, src) {
					return true, ""
				}
				for _, o := range valueOrigins(a) {
					if aliasRoots(o)[dst] {
						return true, ""
					}
				}
			}
		}
		if cmp.Y == dst.Len {
			return true, ""
		}
	}
	return false, "loop bound is not the length of the source / result array"
}

func checkParamsReach(res *ShapeResult, fn *ssa.Function, vals []ssa.Value, at ssa.Instruction, cfg ShapeConfig, attr ssa.Value) {
	deps := map[ssa.Value]bool{}
	for _, v := range vals {
		for d := range backward(v, true) {
			deps[d] = true
		}
	}
	checkParamsReachDeps(res, fn, deps, at, cfg, attr)
}

func checkParamsReachDeps(res *ShapeResult, fn *ssa.Function, deps map[ssa.Value]bool, at ssa.Instruction, cfg ShapeConfig, attr ssa.Value) {
	for _, p := range fn.Params {
		if ssau.IsNamed(p.Type(), cfg.ModelingPath, "Mesh") {
			continue
		}
		if b, ok := p.Type().Underlying().(*types.Basic); ok && b.Kind() == types.String {
			continue // attribute names are ATTR-1's / SHAPE-1's business
		}
		if cfg.SkipParam != nil && cfg.SkipParam(fn, p) {
			continue // e.g. worker count of the parallel variants: must not influence the result
		}
		res.add("SHAPE-3", deps[p], at, "parameter "+p.Name()+map[bool]string{true: " reaches the stored elements", false: " never reaches the stored elements: the operation ignores it"}[deps[p]])
	}
}
