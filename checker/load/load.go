// Package load loads /repo's working tree (type-checked syntax + SSA) for the
// polycheck rules. Nothing from the repository is executed.
package load

import (
	"fmt"
	"go/ast"
	"go/token"
	"go/types"
	"os"
	"path/filepath"
	"sort"
	"strings"

	"golang.org/x/tools/go/packages"
	"golang.org/x/tools/go/ssa"
	"golang.org/x/tools/go/ssa/ssautil"
)

const Module = "github.com/EliCDavis/polyform"

// Program is one loaded configuration of the repository.
type Program struct {
	Repo     string
	Fset     *token.FileSet
	Pkgs     []*packages.Package // repository packages only (module == Module)
	ByPath   map[string]*packages.Package
	All      map[string]*packages.Package // including dependencies
	SSA      *ssa.Program
	GOOS     string
	GOARCH   string
	Controls map[string]bool // absolute file names of overlay control files
	Notes    []string
}

// Config describes what to load.
type Config struct {
	Repo    string
	GOOS    string // "" = host
	GOARCH  string
	Overlay map[string][]byte // absolute path -> content (positive controls / mutants)
	// ControlFiles marks overlay entries that are self-test controls: if they do not
	// type-check the load is retried without them (the controls are not the property).
	ControlFiles map[string]bool
	Instantiate  bool
}

func env(cfg Config) []string {
	e := []string{}
	for _, kv := range os.Environ() {
		if strings.HasPrefix(kv, "GOWORK=") || strings.HasPrefix(kv, "GOFLAGS=") ||
			strings.HasPrefix(kv, "GOPROXY=") || strings.HasPrefix(kv, "GOSUMDB=") ||
			strings.HasPrefix(kv, "GOOS=") || strings.HasPrefix(kv, "GOARCH=") ||
			strings.HasPrefix(kv, "GOTOOLCHAIN=") || strings.HasPrefix(kv, "CGO_ENABLED=") {
			continue
		}
		e = append(e, kv)
	}
	e = append(e, "GOWORK=off", "GOFLAGS=-mod=mod", "GOPROXY=off", "GOSUMDB=off", "GOTOOLCHAIN=local", "CGO_ENABLED=0")
	if cfg.GOOS != "" {
		e = append(e, "GOOS="+cfg.GOOS)
	}
	if cfg.GOARCH != "" {
		e = append(e, "GOARCH="+cfg.GOARCH)
	}
	return e
}

// Load loads ./... of the repository. Type errors in repository packages are
// returned as an error (a check must not pass on a tree it could not analyse).
func Load(cfg Config) (*Program, error) {
	p, err := loadOnce(cfg)
	if err == nil {
		return p, nil
	}
	if len(cfg.ControlFiles) == 0 {
		return nil, err
	}
	// Was the failure caused by control files only? Retry without them.
	ov := map[string][]byte{}
	for k, v := range cfg.Overlay {
		if !cfg.ControlFiles[k] {
			ov[k] = v
		}
	}
	cfg2 := cfg
	cfg2.Overlay = ov
	cfg2.ControlFiles = nil
	p2, err2 := loadOnce(cfg2)
	if err2 != nil {
		return nil, err2
	}
	p2.Notes = append(p2.Notes, "positive-control overlay did not type-check against this tree and was skipped: "+firstLine(err.Error()))
	return p2, nil
}

func firstLine(s string) string {
	if i := strings.IndexByte(s, '\n'); i >= 0 {
		return s[:i]
	}
	return s
}

func loadOnce(cfg Config) (*Program, error) {
	fset := token.NewFileSet()
	pc := &packages.Config{
		Mode:    packages.LoadAllSyntax | packages.NeedModule,
		Dir:     cfg.Repo,
		Fset:    fset,
		Env:     env(cfg),
		Tests:   false,
		Overlay: cfg.Overlay,
	}
	initial, err := packages.Load(pc, "./...")
	if err != nil {
		return nil, fmt.Errorf("packages.Load: %w", err)
	}
	if len(initial) == 0 {
		return nil, fmt.Errorf("no packages loaded from %s", cfg.Repo)
	}
	prog := &Program{Repo: cfg.Repo, Fset: fset, ByPath: map[string]*packages.Package{}, All: map[string]*packages.Package{},
		GOOS: cfg.GOOS, GOARCH: cfg.GOARCH, Controls: cfg.ControlFiles}
	var errs []string
	packages.Visit(initial, nil, func(p *packages.Package) {
		prog.All[p.PkgPath] = p
		if p.Module != nil && p.Module.Path == Module {
			for _, e := range p.Errors {
				errs = append(errs, e.Error())
			}
			if p.IllTyped && len(p.Errors) == 0 {
				errs = append(errs, p.PkgPath+": ill-typed because a dependency does not type-check in this configuration")
			}
		}
	})
	for _, p := range initial {
		if p.Module != nil && p.Module.Path == Module {
			prog.Pkgs = append(prog.Pkgs, p)
			prog.ByPath[p.PkgPath] = p
		}
	}
	if len(errs) > 0 {
		sort.Strings(errs)
		if len(errs) > 8 {
			errs = errs[:8]
		}
		return nil, fmt.Errorf("type/parse errors in repository packages:\n%s", strings.Join(errs, "\n"))
	}
	if len(prog.Pkgs) < 40 {
		return nil, fmt.Errorf("only %d repository packages loaded (expected ≥ 40): wrong directory or broken build", len(prog.Pkgs))
	}
	sort.Slice(prog.Pkgs, func(i, j int) bool { return prog.Pkgs[i].PkgPath < prog.Pkgs[j].PkgPath })
	mode := ssa.BuilderMode(0)
	if cfg.Instantiate {
		mode |= ssa.InstantiateGenerics
	}
	sp, _ := ssautil.AllPackages(initial, mode)
	sp.Build()
	prog.SSA = sp
	return prog, nil
}

// Pkg returns the repository package with the module-relative path rel ("modeling").
func (p *Program) Pkg(rel string) *packages.Package {
	if rel == "" || rel == "." {
		return p.ByPath[Module]
	}
	return p.ByPath[Module+"/"+rel]
}

// SSAPkg returns the SSA package for a module-relative path.
func (p *Program) SSAPkg(rel string) *ssa.Package {
	pk := p.Pkg(rel)
	if pk == nil {
		return nil
	}
	return p.SSA.Package(pk.Types)
}

// DepSSAPkg returns the SSA package for any import path (dependencies included).
func (p *Program) DepSSAPkg(path string) *ssa.Package {
	pk := p.All[path]
	if pk == nil {
		return nil
	}
	return p.SSA.Package(pk.Types)
}

// Pos renders a position relative to the repository root.
func (p *Program) Pos(pos token.Pos) string {
	if !pos.IsValid() {
		return "?"
	}
	po := p.Fset.Position(pos)
	f := po.Filename
	if r, err := filepath.Rel(p.Repo, f); err == nil && !strings.HasPrefix(r, "..") {
		f = r
	}
	return fmt.Sprintf("%s:%d", f, po.Line)
}

// File returns the file name (absolute) of pos.
func (p *Program) File(pos token.Pos) string {
	if !pos.IsValid() {
		return ""
	}
	return p.Fset.Position(pos).Filename
}

// IsControl reports whether pos lies in a positive-control overlay file.
func (p *Program) IsControl(pos token.Pos) bool {
	if p.Controls == nil || !pos.IsValid() {
		return false
	}
	return p.Controls[p.Fset.Position(pos).Filename]
}

// IsTestFile reports whether pos lies in a _test.go file.
func (p *Program) IsTestFile(pos token.Pos) bool {
	return strings.HasSuffix(p.File(pos), "_test.go")
}

// RelFile returns the repo-relative file of pos.
func (p *Program) RelFile(pos token.Pos) string {
	f := p.File(pos)
	if r, err := filepath.Rel(p.Repo, f); err == nil {
		return r
	}
	return f
}

// FuncsOf returns every SSA function (methods, closures included) whose source
// lies in the given SSA package, in deterministic order.
func (p *Program) FuncsOf(pkg *ssa.Package) []*ssa.Function {
	if pkg == nil {
		return nil
	}
	seen := map[*ssa.Function]bool{}
	var out []*ssa.Function
	var add func(f *ssa.Function)
	add = func(f *ssa.Function) {
		if f == nil || seen[f] {
			return
		}
		seen[f] = true
		if f.Blocks != nil {
			out = append(out, f)
		}
		for _, a := range f.AnonFuncs {
			add(a)
		}
	}
	for _, m := range pkg.Members {
		switch m := m.(type) {
		case *ssa.Function:
			add(m)
		case *ssa.Type:
			t := m.Type()
			for _, tt := range []types.Type{t, types.NewPointer(t)} {
				ms := p.SSA.MethodSets.MethodSet(tt)
				for i := 0; i < ms.Len(); i++ {
					fn := p.SSA.MethodValue(ms.At(i))
					if fn == nil {
						// generic type: methods are reachable through the named type's declared methods
						continue
					}
					if fn.Pkg == pkg && fn.Synthetic == "" {
						add(fn)
					}
				}
			}
			if n, ok := t.(*types.Named); ok {
				for i := 0; i < n.NumMethods(); i++ {
					fn := p.SSA.FuncValue(n.Method(i))
					if fn != nil && fn.Pkg == pkg {
						add(fn)
					}
				}
			}
		}
	}
	sort.Slice(out, func(i, j int) bool {
		if out[i].Pos() != out[j].Pos() {
			return out[i].Pos() < out[j].Pos()
		}
		return out[i].String() < out[j].String()
	})
	return out
}

// Func finds a package-level function or a method ("Type.Method") in a
// module-relative package.
func (p *Program) Func(rel, name string) *ssa.Function {
	sp := p.SSAPkg(rel)
	if sp == nil {
		return nil
	}
	if i := strings.IndexByte(name, '.'); i >= 0 {
		tn, mn := name[:i], name[i+1:]
		obj := sp.Pkg.Scope().Lookup(tn)
		if obj == nil {
			return nil
		}
		named, ok := obj.Type().(*types.Named)
		if !ok {
			return nil
		}
		for i := 0; i < named.NumMethods(); i++ {
			if named.Method(i).Name() == mn {
				return p.SSA.FuncValue(named.Method(i))
			}
		}
		return nil
	}
	return sp.Func(name)
}

// FuncName gives a stable, type-resolved name for a function: pkgrel.Type.Method or pkgrel.Func,
// closures as parent$k.
func (p *Program) FuncName(f *ssa.Function) string {
	if f == nil {
		return "<nil>"
	}
	if f.Parent() != nil {
		idx := 0
		for i, a := range f.Parent().AnonFuncs {
			if a == f {
				idx = i + 1
			}
		}
		return fmt.Sprintf("%s$%d", p.FuncName(f.Parent()), idx)
	}
	pkg := ""
	if f.Pkg != nil {
		pkg = strings.TrimPrefix(strings.TrimPrefix(f.Pkg.Pkg.Path(), Module), "/")
		if pkg == "" {
			pkg = "."
		}
	} else if o := f.Object(); o != nil && o.Pkg() != nil {
		pkg = strings.TrimPrefix(strings.TrimPrefix(o.Pkg().Path(), Module), "/")
	}
	if recv := f.Signature.Recv(); recv != nil {
		t := recv.Type()
		if pt, ok := t.(*types.Pointer); ok {
			t = pt.Elem()
		}
		tn := t.String()
		if n, ok := t.(*types.Named); ok {
			tn = n.Obj().Name()
		}
		return pkg + "." + tn + "." + f.Name()
	}
	return pkg + "." + f.Name()
}

// FileOf returns the syntax file with the given module-relative path.
func (p *Program) FileOf(rel string) (*packages.Package, *ast.File) {
	abs := filepath.Join(p.Repo, rel)
	for _, pk := range p.Pkgs {
		for i, f := range pk.CompiledGoFiles {
			if f == abs && i < len(pk.Syntax) {
				return pk, pk.Syntax[i]
			}
		}
	}
	return nil, nil
}
