// Package ob holds the obligation / verdict / evidence / known-findings plumbing.
package ob

import (
	"encoding/json"
	"fmt"
	"os"
	"path/filepath"
	"sort"
	"strings"
	"time"
)

type Verdict string

const (
	Holds     Verdict = "HOLDS"
	Violation Verdict = "VIOLATION"
	Undecided Verdict = "UNDECIDED"
)

// Obligation is one (rule, construct) pair with its verdict.
type Obligation struct {
	Rule      string   `json:"rule"`
	Construct string   `json:"construct"` // type-resolved key, never a line number
	Pos       string   `json:"pos"`       // file:line, for humans
	Verdict   Verdict  `json:"verdict"`
	Msg       string   `json:"msg,omitempty"`
	Facts     []string `json:"facts,omitempty"`
	Control   bool     `json:"control,omitempty"` // positive/negative control, not the repository
	Config    string   `json:"config,omitempty"`
}

// Known is one entry of known_findings.json.
type Known struct {
	Property  string `json:"property"`
	Rule      string `json:"rule"`
	Construct string `json:"construct"`
	What      string `json:"what"`
}

type KnownFile struct {
	Comment  string   `json:"comment,omitempty"`
	Findings []Known  `json:"findings"`
	Fixed    []string `json:"fixed"`
}

// Run collects the obligations of one property check.
type Run struct {
	Property    string
	Tier        string
	Seed        int
	VerifDir    string
	Start       time.Time
	Obs         []Obligation
	Floors      map[string]int // rule -> minimal instance count confirmed by hand
	Counts      map[string]int // rule -> instances matched (repository only)
	Expect      map[string]bool
	Notes       []string
	Assumptions []string
	Explanation string
	Extra       map[string]any
	Configs     []string
	CurConfig   string
	// ExpectControl: rule -> number of control violations that must be seen
	ExpectControl map[string]int
	ControlsOff   bool
	Fatal         []string
}

func NewRun(property, tier string, seed int, verifDir string) *Run {
	return &Run{Property: property, Tier: tier, Seed: seed, VerifDir: verifDir, Start: time.Now(),
		Floors: map[string]int{}, Counts: map[string]int{}, Extra: map[string]any{}, ExpectControl: map[string]int{}}
}

func (r *Run) add(o Obligation) {
	o.Config = r.CurConfig
	r.Obs = append(r.Obs, o)
	if !o.Control {
		r.Counts[o.Rule]++
	}
}

// Hold records a satisfied obligation.
func (r *Run) Hold(rule, construct, pos string, facts ...string) {
	r.add(Obligation{Rule: rule, Construct: construct, Pos: pos, Verdict: Holds, Facts: facts})
}

// Violate records a decided, unsatisfied obligation.
func (r *Run) Violate(rule, construct, pos, msg string, facts ...string) {
	r.add(Obligation{Rule: rule, Construct: construct, Pos: pos, Verdict: Violation, Msg: msg, Facts: facts})
}

// Undecide records an obligation the rule could not decide (counts as failure).
func (r *Run) Undecide(rule, construct, pos, msg string, facts ...string) {
	r.add(Obligation{Rule: rule, Construct: construct, Pos: pos, Verdict: Undecided, Msg: msg, Facts: facts})
}

// Control records the outcome of a self-test control. want is the verdict the
// control must produce.
func (r *Run) Control(rule, construct, pos string, got, want Verdict, msg string) {
	o := Obligation{Rule: rule, Construct: construct, Pos: pos, Verdict: got, Msg: msg, Control: true}
	o.Config = r.CurConfig
	r.Obs = append(r.Obs, o)
	if got != want {
		r.Fatal = append(r.Fatal, fmt.Sprintf("self-test control %s %s: got %s want %s (%s)", rule, construct, got, want, msg))
	}
}

// Floor sets the vacuity floor of a rule.
func (r *Run) Floor(rule string, n int) { r.Floors[rule] = n }

func (r *Run) Note(format string, a ...any) { r.Notes = append(r.Notes, fmt.Sprintf(format, a...)) }

func (r *Run) Assume(s string) {
	for _, a := range r.Assumptions {
		if a == s {
			return
		}
	}
	r.Assumptions = append(r.Assumptions, s)
}

// Failf records a failure of the machinery itself (unresolved anchor, panic, …).
func (r *Run) Failf(format string, a ...any) {
	r.Fatal = append(r.Fatal, "["+r.CurConfig+"] "+fmt.Sprintf(format, a...))
}

// KnownKeys returns the (rule\x00construct) keys of the recorded findings of this property.
func (r *Run) KnownKeys() map[string]bool {
	kf, _ := loadKnown(r.VerifDir)
	out := map[string]bool{}
	for _, k := range kf.Findings {
		if k.Property == r.Property {
			out[k.Rule+"\x00"+k.Construct] = true
		}
	}
	return out
}

func loadKnown(dir string) (KnownFile, error) {
	var kf KnownFile
	b, err := os.ReadFile(filepath.Join(dir, "known_findings.json"))
	if err != nil {
		if os.IsNotExist(err) {
			return kf, nil
		}
		return kf, err
	}
	err = json.Unmarshal(b, &kf)
	return kf, err
}

type replay struct {
	Property  string     `json:"property"`
	Tier      string     `json:"tier"`
	Kind      string     `json:"kind"`
	Ob        Obligation `json:"obligation"`
	HowToRead string     `json:"how_to_read"`
}

func sanitize(s string) string {
	var b strings.Builder
	for _, c := range s {
		if (c >= 'a' && c <= 'z') || (c >= 'A' && c <= 'Z') || (c >= '0' && c <= '9') || c == '-' || c == '_' || c == '.' {
			b.WriteRune(c)
		} else {
			b.WriteByte('_')
		}
	}
	out := b.String()
	if len(out) > 120 {
		out = out[:120]
	}
	return out
}

// Finish prints the verdict lines, writes the evidence file and returns the exit code.
func (r *Run) Finish() int {
	kf, kerr := loadKnown(r.VerifDir)
	if kerr != nil {
		r.Failf("known_findings.json unreadable: %v", kerr)
	}
	known := map[string]Known{}
	for _, k := range kf.Findings {
		if k.Property == r.Property {
			known[k.Rule+"\x00"+k.Construct] = k
		}
	}
	// vacuity floors
	rules := make([]string, 0, len(r.Floors))
	for rule := range r.Floors {
		rules = append(rules, rule)
	}
	sort.Strings(rules)
	nConfigs := len(r.Configs)
	if nConfigs == 0 {
		nConfigs = 1
	}
	for _, rule := range rules {
		if r.Counts[rule] < r.Floors[rule]*1 {
			r.Failf("vacuity: rule %s matched %d instances, floor is %d (the rule no longer sees the constructs it was confirmed on)", rule, r.Counts[rule], r.Floors[rule])
		}
	}

	violations := 0
	knownSeen := map[string]bool{}
	printed := map[string]bool{}
	outDir := filepath.Join(r.VerifDir, "out", "violations")
	os.MkdirAll(outDir, 0o755)
	nontrivial := map[string]bool{}
	for _, o := range r.Obs {
		if o.Control {
			continue
		}
		if len(o.Facts) > 0 || o.Verdict != Holds {
			nontrivial[o.Rule+"\x00"+o.Construct] = true
		}
		if o.Verdict == Holds {
			continue
		}
		key := o.Rule + "\x00" + o.Construct
		if k, ok := known[key]; ok && o.Verdict == Violation {
			if !knownSeen[key] {
				knownSeen[key] = true
				fmt.Printf("KNOWN-FINDING: property=%s rule=%s construct=%s at %s: %s\n", r.Property, o.Rule, o.Construct, o.Pos, k.What)
			}
			continue
		}
		if printed[key] {
			continue
		}
		printed[key] = true
		violations++
		kind := "violation"
		if o.Verdict == Undecided {
			kind = "undecided"
		}
		path := filepath.Join(outDir, fmt.Sprintf("%s_%s_%s.json", r.Property, sanitize(o.Rule), sanitize(o.Construct)))
		rb, _ := json.MarshalIndent(replay{Property: r.Property, Tier: r.Tier, Kind: kind, Ob: o,
			HowToRead: "rule = rule id in DESIGN.md section 3/4; construct = type-resolved key of the offending code; pos = file:line in /repo; msg/facts = what the rule saw. Re-run: bin/polycheck -property " + r.Property + " -tier " + r.Tier}, "", " ")
		os.WriteFile(path, rb, 0o644)
		fmt.Printf("%s rule=%s construct=%s at %s: %s\n", strings.ToUpper(kind), o.Rule, o.Construct, o.Pos, o.Msg)
		fmt.Printf("VIOLATION property=%s replay=%s\n", r.Property, path)
	}
	for i, f := range r.Fatal {
		violations++
		path := filepath.Join(outDir, fmt.Sprintf("%s_machinery_%d.json", r.Property, i))
		rb, _ := json.MarshalIndent(map[string]any{"property": r.Property, "kind": "machinery", "msg": f}, "", " ")
		os.WriteFile(path, rb, 0o644)
		fmt.Printf("CHECK-FAILED %s\n", f)
		fmt.Printf("VIOLATION property=%s replay=%s\n", r.Property, path)
	}

	if os.Getenv("POLYCHECK_DUMP") != "" {
		for _, o := range r.Obs {
			fmt.Printf("DUMP %s %s %s %s ctl=%v %s %v\n", o.Rule, o.Verdict, o.Construct, o.Pos, o.Control, o.Msg, o.Facts)
		}
	}
	// evidence
	total := 0
	held := 0
	var samples []any
	perRule := map[string]map[string]int{}
	seenSampleRule := map[string]int{}
	for _, o := range r.Obs {
		if o.Control {
			continue
		}
		total++
		if o.Verdict == Holds {
			held++
		}
		m := perRule[o.Rule]
		if m == nil {
			m = map[string]int{}
			perRule[o.Rule] = m
		}
		m[string(o.Verdict)]++
		if seenSampleRule[o.Rule] < 2 && len(samples) < 24 {
			seenSampleRule[o.Rule]++
			samples = append(samples, o)
		}
	}
	controls := 0
	for _, o := range r.Obs {
		if o.Control {
			controls++
		}
	}
	var knownList []string
	for k := range knownSeen {
		knownList = append(knownList, strings.ReplaceAll(k, "\x00", " @ "))
	}
	sort.Strings(knownList)
	cov := map[string]any{
		"explanation":         r.Explanation,
		"evaluations":         total,
		"distinct_nontrivial": len(nontrivial),
		"rule":                "one evaluation = one (rule, construct) obligation decided on /repo's current source; non-trivial = the decision used at least one dataflow/path/table fact or did not hold; distinct by (rule, construct)",
		"samples":             samples,
		"obligations":         total,
		"discharged":          held,
		"per_rule":            perRule,
		"floors":              r.Floors,
		"controls_run":        controls,
		"known_findings_seen": knownList,
		"configs":             r.Configs,
		"notes":               r.Notes,
		"exhaustive":          false,
	}
	for k, v := range r.Extra {
		cov[k] = v
	}
	ev := map[string]any{
		"property_id": r.Property,
		"tier":        r.Tier,
		"seed":        r.Seed,
		"level":       "other",
		"coverage":    cov,
		"assumptions": r.Assumptions,
		"wall_s":      time.Since(r.Start).Seconds(),
		"violations":  violations,
	}
	if ev["assumptions"] == nil {
		ev["assumptions"] = []string{}
	}
	eb, _ := json.MarshalIndent(ev, "", " ")
	evDir := filepath.Join(r.VerifDir, "evidence")
	os.MkdirAll(evDir, 0o755)
	if err := os.WriteFile(filepath.Join(evDir, r.Property+".json"), eb, 0o644); err != nil {
		fmt.Printf("CHECK-FAILED cannot write evidence: %v\n", err)
		return 1
	}
	fmt.Printf("polycheck property=%s tier=%s obligations=%d held=%d known=%d violations=%d controls=%d wall=%.1fs\n",
		r.Property, r.Tier, total, held, len(knownSeen), violations, controls, time.Since(r.Start).Seconds())
	if violations > 0 {
		return 1
	}
	return 0
}
