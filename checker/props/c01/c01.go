// Package c01: mesh values are immutable (ownership analysis OWN-1..5).
package c01

import (
	"fmt"
	"go/types"
	"os"
	"sort"
	"strings"

	"golang.org/x/tools/go/ssa"

	"polycheck/eng"
	"polycheck/load"
	"polycheck/props"
	"polycheck/ssau"
)

func init() {
	props.Register(&props.Prop{
		ID: "C01",
		Explanation: "Ownership analysis of mesh storage over the whole repository (go/ssa, field-based, interprocedural to fixpoint): " +
			"every slice/map is classified Fresh / Owned-by-an-existing-mesh / Unknown; OWN-1 (default-deny) every write-capable instruction " +
			"in package modeling on a storage-typed operand must act on a Fresh value; outside modeling no write may act on a value that can " +
			"reach mesh storage (Materials() results, iterator internals: OWN-3/4); OWN-2 no write to a locally built array after it was handed " +
			"to a mesh, package-level arrays handed to meshes are never written; OWN-5 no reflect/unsafe in modeling. Because Mesh's fields are " +
			"unexported the discharged obligations give, by induction over operations, that no public mesh operation writes an array reachable " +
			"from an existing mesh — for every history and branching order. Not covered: writes by user code/callbacks, *Material pointees.",
		Controls: controls,
		Run:      run,
	})
}

const modelingPath = load.Module + "/modeling"

// onlyFromParams: v is (derived by slicing / joins from) parameters only.
func onlyFromParams(v ssa.Value, depth int) bool {
	if depth > 8 {
		return false
	}
	switch x := v.(type) {
	case *ssa.Parameter, *ssa.FreeVar:
		return true
	case *ssa.Slice:
		return onlyFromParams(x.X, depth+1)
	case *ssa.ChangeType:
		return onlyFromParams(x.X, depth+1)
	case *ssa.Phi:
		for _, e := range x.Edges {
			if !onlyFromParams(e, depth+1) {
				return false
			}
		}
		return true
	case *ssa.Call:
		if ssau.Builtin(x) == "append" && len(x.Call.Args) > 0 {
			return onlyFromParams(x.Call.Args[0], depth+1)
		}
	case *ssa.UnOp:
		if a, ok := x.X.(*ssa.Alloc); ok {
			for _, r := range ssau.Refs(a) {
				if st, ok := r.(*ssa.Store); ok && st.Addr == a && !onlyFromParams(st.Val, depth+1) {
					return false
				}
			}
			return true
		}
	}
	return false
}

func relPkg(path string) string {
	return strings.TrimPrefix(strings.TrimPrefix(path, load.Module), "/")
}

func isLibraryPkg(path string) bool {
	rel := relPkg(path)
	return !strings.HasPrefix(rel, "examples") && !strings.HasPrefix(rel, "cmd")
}

func isStorageElem(t types.Type) bool {
	if _, ok := t.(*types.TypeParam); ok {
		return true
	}
	switch u := t.Underlying().(type) {
	case *types.Basic:
		return u.Kind() == types.Int || u.Kind() == types.Float64
	}
	if n := ssau.NamedOf(t); n != nil {
		o := n.Origin().Obj()
		if o.Pkg() != nil {
			p := o.Pkg().Path()
			if strings.HasPrefix(p, "github.com/EliCDavis/vector/vector") && o.Name() == "Vector" {
				return true
			}
			if p == modelingPath && o.Name() == "MeshMaterial" {
				return true
			}
		}
	}
	return false
}

// isStorageType: the types mesh storage is made of.
func isStorageType(t types.Type) bool {
	switch u := t.Underlying().(type) {
	case *types.Slice:
		return isStorageElem(u.Elem())
	case *types.Map:
		if s, ok := u.Elem().Underlying().(*types.Slice); ok {
			return isStorageElem(s.Elem())
		}
	}
	return false
}

func run(c *props.Ctx) {
	p := c.P
	mp := p.Pkg("modeling")
	if mp == nil {
		c.R.Failf("anchor package modeling not found")
		return
	}
	meshObj := mp.Types.Scope().Lookup("Mesh")
	if meshObj == nil {
		c.R.Failf("anchor type modeling.Mesh not found")
		return
	}
	st, ok := meshObj.Type().Underlying().(*types.Struct)
	if !ok {
		c.R.Failf("modeling.Mesh is not a struct")
		return
	}
	meshFields := map[*types.Var]bool{}
	var fieldNames []string
	for i := 0; i < st.NumFields(); i++ {
		f := st.Field(i)
		if isSliceOrMapT(f.Type()) {
			meshFields[f] = true
			fieldNames = append(fieldNames, f.Name())
			if f.Exported() {
				c.R.Violate("OWN-0", "modeling.Mesh."+f.Name(), p.Pos(f.Pos()), "storage field of Mesh is exported: any package can write mesh storage, the closed-API argument no longer holds")
			} else {
				c.R.Hold("OWN-0", "modeling.Mesh."+f.Name(), p.Pos(f.Pos()), "unexported storage field of type "+f.Type().String())
			}
		}
	}
	c.R.Floor("OWN-0", 4)

	var roots []*ssa.Function
	for _, pk := range p.Pkgs {
		if !isLibraryPkg(pk.PkgPath) {
			continue
		}
		roots = append(roots, p.FuncsOf(p.SSA.Package(pk.Types))...)
	}
	inDomain := func(f *ssa.Function) bool {
		pkg := f.Pkg
		if pkg == nil && f.Origin() != nil {
			pkg = f.Origin().Pkg
		}
		if pkg == nil {
			return false
		}
		path := pkg.Pkg.Path()
		return strings.HasPrefix(path, load.Module) || strings.HasPrefix(path, "github.com/EliCDavis/iter") || strings.HasPrefix(path, "github.com/EliCDavis/vector")
	}
	hatch := func(t types.Type) bool {
		if sl, ok := t.Underlying().(*types.Slice); ok {
			return ssau.IsNamed(sl.Elem(), modelingPath, "MeshMaterial")
		}
		return false
	}
	own := eng.NewOwn(eng.OwnConfig{ModelingPath: modelingPath, MeshFields: meshFields, InDomain: inDomain, Roots: roots, EscapeHatch: hatch})
	own.Solve()
	c.R.Extra["functions_analysed"] = len(own.Funcs)
	c.R.Extra["write_sinks_total"] = len(own.Sinks)
	c.R.Extra["mesh_storage_fields"] = fieldNames

	pkgOf := func(f *ssa.Function) string {
		for f.Parent() != nil {
			f = f.Parent()
		}
		if f.Pkg != nil {
			return f.Pkg.Pkg.Path()
		}
		if f.Origin() != nil && f.Origin().Pkg != nil {
			return f.Origin().Pkg.Pkg.Path()
		}
		return ""
	}

	// OWN-1 / OWN-3
	perFn := map[string]int{}
	ctl := map[string]bool{}
	for _, s := range own.Sinks {
		fnName := p.FuncName(s.Fn)
		if dbg := os.Getenv("POLYCHECK_OWNDEBUG"); dbg != "" && strings.Contains(fnName, dbg) {
			fmt.Fprintf(os.Stderr, "OWNDEBUG %s %s base=%s class=%s why=%s\n", fnName, s.Kind, s.Base.Name(), s.Class, s.Why)
		}
		path := pkgOf(s.Fn)
		inModeling := path == modelingPath
		k := fnName + "→" + s.Kind
		perFn[k]++
		construct := fmt.Sprintf("%s#%d", k, perFn[k])
		pos := p.Pos(ssau.PosOf(s.Instr))
		if p.IsControl(s.Fn.Pos()) {
			if s.Class == eng.Owned || (inModeling && s.Class == eng.Unknown && isStorageType(s.Base.Type())) {
				ctl[topName(s.Fn)] = true
			}
			continue
		}
		if inModeling {
			if !isStorageType(s.Base.Type()) && s.Class != eng.Owned {
				continue
			}
			switch s.Class {
			case eng.Fresh:
				c.R.Hold("OWN-1", construct, pos, "writes "+s.Base.Name()+": Fresh ("+s.Why+")")
			case eng.Bot:
				if onlyFromParams(s.Base, 0) {
					c.R.Hold("OWN-1", construct, pos, "operand never bound to a value in the analysed code (parameter of a function without callers)")
				} else {
					// a value the analysis gave no class at all (e.g. the result of a call it did not model) is
					// not evidence of freshness
					c.R.Undecide("OWN-1", construct, pos, s.Kind+" on storage the analysis gave no class to: not provably freshly allocated", "operand "+s.Base.Name()+" : "+s.Base.Type().String())
				}
			case eng.Owned:
				c.R.Violate("OWN-1", construct, pos, s.Kind+" writes storage that may belong to an existing mesh: "+s.Why, "operand "+s.Base.Name()+" : "+s.Base.Type().String())
			default:
				c.R.Undecide("OWN-1", construct, pos, s.Kind+" on storage not provably freshly allocated: "+s.Why, "operand "+s.Base.Name()+" : "+s.Base.Type().String())
			}
			continue
		}
		if !strings.HasPrefix(path, load.Module) {
			// dependency code (iter, vector): only Owned writes matter (OWN-4)
			if s.Class == eng.Owned {
				c.R.Violate("OWN-4", construct, pos, s.Kind+" inside a read-only wrapper writes storage that may belong to a mesh: "+s.Why)
			}
			continue
		}
		if s.Class == eng.Owned {
			if why := exception("OWN-3", fnName, s, perFn[k]); why != "" {
				c.R.Hold("OWN-3", construct, pos, "exception (one named site): "+why)
				continue
			}
			c.R.Violate("OWN-3", construct, pos, s.Kind+" writes storage that may belong to an existing mesh: "+s.Why, "operand "+s.Base.Name()+" : "+s.Base.Type().String())
		} else if isStorageType(s.Base.Type()) {
			c.R.Hold("OWN-3", construct, pos, "writes "+s.Base.Name()+": "+s.Class.String()+" ("+s.Why+"), cannot reach mesh storage")
		}
	}
	c.R.Floor("OWN-1", 40)
	c.R.Floor("OWN-3", 150)

	// OWN-4: which non-Mesh fields can hold mesh storage (read-only capabilities)
	for _, f := range own.OwnedFields() {
		_, why := own.ContentOfField(f)
		owner := "?"
		if f.Pkg() != nil {
			owner = relPkg(f.Pkg().Path())
		}
		c.R.Hold("OWN-4", "field:"+owner+"."+f.Name(), p.Pos(f.Pos()), "holds mesh storage ("+why+"); every write through it is reported by OWN-1/3/4")
	}

	// dynamic escapes of mesh storage from package modeling
	n := 0
	for _, e := range own.DynEscapes {
		if pkgOf(e.Fn) != modelingPath || !isStorageType(e.Arg.Type()) || p.IsControl(e.Fn.Pos()) {
			continue
		}
		n++
		c.R.Undecide("OWN-1", p.FuncName(e.Fn)+"→escape:"+e.To, p.Pos(ssau.PosOf(e.Instr)), "mesh storage ("+e.Class.String()+") passed to "+e.To+", which cannot be analysed")
	}
	c.R.Extra["dynamic_escapes_in_modeling"] = n

	// OWN-5
	bad := []string{}
	for _, imp := range mp.Types.Imports() {
		if imp.Path() == "unsafe" || imp.Path() == "reflect" {
			bad = append(bad, imp.Path())
		}
	}
	sort.Strings(bad)
	if len(bad) > 0 {
		c.R.Violate("OWN-5", "modeling:imports", "modeling", "package modeling imports "+strings.Join(bad, ",")+": writes through reflection/unsafe are invisible to the ownership analysis")
	} else {
		c.R.Hold("OWN-5", "modeling:imports", "modeling", fmt.Sprintf("%d imports, none of reflect/unsafe", len(mp.Types.Imports())))
	}
	own2(c, own, meshFields)
	matPointees(c, roots)
	meshPointers(c, roots)
	controlsVerdict(c, ctl)
}

// exception: the only accepted Owned write. obj.Load patches the Material pointers of
// the meshes ReadMesh has just built, before returning them: the mesh values have no other
// holder yet, so no obtained mesh changes. Exactly one such store is accepted, and only
// on a Materials() result.
func exception(rule, fn string, s eng.Sink, nth int) string {
	if rule == "OWN-3" && fn == "formats/obj.Load" && s.Kind == "store" && nth == 1 && s.Why == "result of Materials" {
		return "obj.Load sets the Material pointer of meshes it has just read and not yet returned (no other holder of the slice exists)"
	}
	return ""
}

func topName(f *ssa.Function) string {
	for f.Parent() != nil {
		f = f.Parent()
	}
	return f.Name()
}

func isSliceOrMapT(t types.Type) bool {
	switch t.Underlying().(type) {
	case *types.Slice, *types.Map:
		return true
	}
	return false
}
