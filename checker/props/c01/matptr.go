package c01

import (
	"go/token"
	"go/types"

	"golang.org/x/tools/go/ssa"

	"polycheck/props"
	"polycheck/ssau"
)

// OWN-6 — material pointees. A mesh reports its materials as []MeshMaterial whose Material field is a
// *Material shared by the mesh, its relatives and whoever built it. No library code writes through a
// pointer obtained from a MeshMaterial.Material field (nor through pointers found inside that Material,
// such as ColorTextureURI *string): the write would change what every mesh sharing the material reports.
// Materials under construction (pointers that come from a local &Material{…} / new) are not affected.
func matPointees(c *props.Ctx, fns []*ssa.Function) {
	p := c.P
	mp := p.Pkg("modeling")
	var matField *types.Var
	if mp != nil {
		if o := mp.Types.Scope().Lookup("MeshMaterial"); o != nil {
			if st, ok := o.Type().Underlying().(*types.Struct); ok {
				for i := 0; i < st.NumFields(); i++ {
					if _, isPtr := st.Field(i).Type().Underlying().(*types.Pointer); isPtr {
						matField = st.Field(i)
					}
				}
			}
		}
	}
	if matField == nil {
		c.R.Failf("anchor modeling.MeshMaterial pointer field not found")
		return
	}
	inSet := map[*ssa.Function]bool{}
	for _, f := range fns {
		inSet[f] = true
	}
	taint := map[ssa.Value]bool{}
	var work []ssa.Value
	add := func(v ssa.Value) {
		if v != nil && !taint[v] {
			taint[v] = true
			work = append(work, v)
		}
	}
	isPtr := func(t types.Type) bool { _, ok := t.Underlying().(*types.Pointer); return ok }
	// a struct value (a by-value copy of the material) that still holds pointers shared with the original
	var holdsPointers func(t types.Type, d int) bool
	holdsPointers = func(t types.Type, d int) bool {
		st, ok := t.Underlying().(*types.Struct)
		if !ok || d > 3 {
			return false
		}
		for i := 0; i < st.NumFields(); i++ {
			ft := st.Field(i).Type()
			if isPtr(ft) || holdsPointers(ft, d+1) {
				return true
			}
		}
		return false
	}
	carries := func(t types.Type) bool { return isPtr(t) || holdsPointers(t, 0) }
	// loads of everything stored in a local array / slice literal that received a tainted value
	loadsOfLocalArray := func(addr ssa.Value) []ssa.Value {
		ia, ok := addr.(*ssa.IndexAddr)
		if !ok {
			return nil
		}
		root := ia.X
		if sl, ok := root.(*ssa.Slice); ok {
			root = sl.X
		}
		al, ok := root.(*ssa.Alloc)
		if !ok {
			return nil
		}
		var out []ssa.Value
		bases := []ssa.Value{al}
		for _, r := range ssau.Refs(al) {
			if sl, ok := r.(*ssa.Slice); ok && sl.X == al {
				bases = append(bases, sl)
			}
		}
		for _, b := range bases {
			for _, r := range ssau.Refs(b) {
				if ia2, ok := r.(*ssa.IndexAddr); ok && ia2.X == b {
					for _, rr := range ssau.Refs(ia2) {
						if u, ok := rr.(*ssa.UnOp); ok && u.Op == token.MUL && u.X == ia2 {
							out = append(out, u)
						}
					}
				}
				// for _, x := range slice: the element comes from a Next / Extract or an IndexAddr over the φ-carried slice
				if ph, ok := r.(*ssa.Phi); ok {
					_ = ph
				}
			}
		}
		return out
	}
	// seeds
	for _, f := range fns {
		ssau.AllInstrs(f, func(in ssa.Instruction) {
			switch x := in.(type) {
			case *ssa.UnOp:
				if x.Op == token.MUL {
					if fa, ok := x.X.(*ssa.FieldAddr); ok && ssau.FieldOf(fa) == matField {
						add(x)
					}
				}
			case *ssa.Field:
				if ssau.FieldOf(x) == matField {
					add(x)
				}
			}
		})
	}
	nSeeds := len(work)
	for len(work) > 0 {
		v := work[len(work)-1]
		work = work[:len(work)-1]
		for _, r := range ssau.Refs(v) {
			switch x := r.(type) {
			case *ssa.Phi:
				add(x)
			case *ssa.ChangeType:
				add(x)
			case *ssa.FieldAddr:
				if x.X == v {
					add(x) // address inside the material
				}
			case *ssa.IndexAddr:
				if x.X == v {
					add(x)
				}
			case *ssa.UnOp:
				// loading a pointer stored inside the material (ColorTextureURI *string …), or a by-value copy of
				// the material that still holds those pointers
				if x.Op == token.MUL && x.X == v && carries(x.Type()) {
					add(x)
				}
			case *ssa.Field:
				if x.X == v && carries(x.Type()) {
					add(x)
				}
			case *ssa.Store:
				// copy of the pointer (or of a struct holding it) into a local cell
				if x.Val == v {
					if a, ok := x.Addr.(*ssa.Alloc); ok {
						for _, rr := range ssau.Refs(a) {
							if u, ok := rr.(*ssa.UnOp); ok && u.Op == token.MUL && u.X == a {
								add(u)
							}
							if fa, ok := rr.(*ssa.FieldAddr); ok && fa.X == a {
								for _, r3 := range ssau.Refs(fa) {
									if u, ok := r3.(*ssa.UnOp); ok && u.Op == token.MUL && u.X == fa && carries(u.Type()) {
										add(u)
									}
								}
							}
						}
					}
					for _, u := range loadsOfLocalArray(x.Addr) {
						add(u)
					}
				}
			case ssa.CallInstruction:
				if callee := x.Common().StaticCallee(); callee != nil && inSet[callee] {
					for i, a := range x.Common().Args {
						if a == v && i < len(callee.Params) {
							add(callee.Params[i])
						}
					}
				}
			}
		}
	}
	// sinks
	perFn := map[*ssa.Function]int{}
	viol := map[*ssa.Function][]*ssa.Store{}
	for v := range taint {
		var fn *ssa.Function
		if in, ok := v.(ssa.Instruction); ok {
			fn = in.Parent()
		} else if prm, ok := v.(*ssa.Parameter); ok {
			fn = prm.Parent()
		}
		if fn == nil {
			continue
		}
		perFn[fn]++
		for _, r := range ssau.Refs(v) {
			if st, ok := r.(*ssa.Store); ok && st.Addr == v {
				viol[fn] = append(viol[fn], st)
			}
		}
	}
	ctl := false
	for _, f := range fns {
		if perFn[f] == 0 {
			continue
		}
		name := p.FuncName(f)
		if p.IsControl(f.Pos()) {
			if len(viol[f]) > 0 {
				ctl = true
			}
			continue
		}
		if len(viol[f]) == 0 {
			c.R.Hold("OWN-6", name, p.Pos(f.Pos()), itoa(perFn[f])+" values derived from a mesh's material pointer, none written through")
			continue
		}
		for i, st := range viol[f] {
			c.R.Violate("OWN-6", name+"→store#"+itoa(i+1), p.Pos(ssau.PosOf(st)), "writes through a pointer obtained from a mesh's MeshMaterial.Material: every mesh sharing the material reports the changed value")
		}
	}
	c.R.Extra["material_pointer_sources"] = nSeeds
	c.R.Floor("OWN-6", 4)
	_ = ctl
}

func itoa(n int) string {
	if n == 0 {
		return "0"
	}
	s := ""
	for n > 0 {
		s = string(rune('0'+n%10)) + s
		n /= 10
	}
	return s
}
