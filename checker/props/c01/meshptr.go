package c01

import (
	"fmt"
	"go/types"

	"golang.org/x/tools/go/ssa"

	"polycheck/props"
	"polycheck/ssau"
)

// OWN-7 — mesh variables of others. A *modeling.Mesh handed to library code (a parameter, a field such as
// gltf.PolyformModel.Mesh, a map key, a call result) is a handle to somebody's mesh variable. Assigning a Mesh
// value through it (`*p = …`) replaces the mesh that holder observes — the one way to "change an existing mesh"
// that needs no write into shared arrays. Only pointers the function itself created (a local variable, new(Mesh),
// &Mesh{…}) may be assigned through; readers that return a *Mesh build it that way. Assigning a Mesh-typed FIELD or
// slice ELEMENT (node.mesh = m, out[i] = m) updates that object's own slot and is not judged.
func meshPointers(c *props.Ctx, fns []*ssa.Function) {
	p := c.P
	mp := p.Pkg("modeling")
	if mp == nil {
		return
	}
	isMesh := func(t types.Type) bool { return ssau.IsNamed(t, mp.PkgPath, "Mesh") }
	n := 0
	per := map[string]int{}
	for _, f := range fns {
		if p.IsControl(f.Pos()) {
			continue
		}
		ssau.AllInstrs(f, func(in ssa.Instruction) {
			st, ok := in.(*ssa.Store)
			if !ok || !isMesh(st.Val.Type()) {
				return
			}
			pt, ok := st.Addr.Type().Underlying().(*types.Pointer)
			if !ok || !isMesh(pt.Elem()) {
				return
			}
			switch st.Addr.(type) {
			case *ssa.FieldAddr, *ssa.IndexAddr:
				return // a slot of an object, not a *Mesh handle: not judged
			}
			n++
			own, why := ownPointer(st.Addr, 0)
			k := p.FuncName(f) + "→mesh-store"
			per[k]++
			construct := fmt.Sprintf("%s#%d", k, per[k])
			if own {
				c.R.Hold("OWN-7", construct, p.Pos(ssau.PosOf(st)), "a Mesh value is stored into a variable this function created: "+why)
			} else {
				c.R.Violate("OWN-7", construct, p.Pos(ssau.PosOf(st)), "a Mesh value is assigned through a *Mesh this function did not create ("+why+"): the holder of that pointer sees its mesh replaced")
			}
		})
	}
	c.R.Floor("OWN-7", 10)
}

// ownPointer: addr denotes storage created by the function itself.
func ownPointer(addr ssa.Value, depth int) (bool, string) {
	if depth > 8 {
		return false, "too deep"
	}
	switch x := addr.(type) {
	case *ssa.Alloc:
		return true, "local variable / new(Mesh)"
	case *ssa.FieldAddr:
		// a Mesh-typed field of some object: updating that object's state, not writing through a *Mesh handle
		return true, "Mesh-typed field of an object (a slot, not a *Mesh handle)"
	case *ssa.IndexAddr:
		return true, "element of a slice / array of meshes (a slot, not a *Mesh handle)"
	case *ssa.Phi:
		for _, e := range x.Edges {
			if ok, why := ownPointer(e, depth+1); !ok {
				return false, why
			}
		}
		return true, "join of own pointers"
	case *ssa.Parameter:
		return false, "parameter " + x.Name()
	case *ssa.UnOp:
		return false, "pointer loaded from a field / variable"
	case *ssa.Call:
		return false, "pointer returned by a call"
	case *ssa.FreeVar:
		return false, "captured variable " + x.Name()
	case *ssa.Global:
		return false, "package-level variable " + x.Name()
	}
	return false, fmt.Sprintf("%T", addr)
}
