package c01

import (
	"fmt"
	"go/types"
	"strings"

	"golang.org/x/tools/go/ssa"

	"polycheck/eng"
	"polycheck/ob"
	"polycheck/props"
	"polycheck/ssau"
)

func handoffTarget(at ssa.Instruction) string {
	switch x := at.(type) {
	case *ssa.Store:
		if fa, ok := x.Addr.(*ssa.FieldAddr); ok {
			if f := ssau.FieldOf(fa); f != nil {
				return "Mesh." + f.Name()
			}
		}
		return "store"
	case ssa.CallInstruction:
		if o := ssau.CalleeObj(x); o != nil {
			return o.Name()
		}
		return "call"
	case *ssa.MakeClosure:
		return "closure"
	}
	return "?"
}

func own2(c *props.Ctx, own *eng.Own, meshFields map[*types.Var]bool) {
	p := c.P
	hand, globalViol, globals := own.Handoffs()
	per := map[string]int{}
	for _, h := range hand {
		name := p.FuncName(h.Fn)
		k := name + "→handoff:" + handoffTarget(h.At)
		per[k]++
		construct := fmt.Sprintf("%s#%d", k, per[k])
		pos := p.Pos(ssau.PosOf(h.At))
		if p.IsControl(h.Fn.Pos()) {
			if len(h.Offenders) > 0 {
				ctlSeen[topName(h.Fn)] = true
			}
			continue
		}
		if len(h.Offenders) == 0 {
			c.R.Hold("OWN-2", construct, pos, "value "+h.Val.Name()+" handed to the mesh here; no write to it can follow without re-allocation")
			continue
		}
		var where []string
		for _, s := range h.Offenders {
			where = append(where, s.Kind+" at "+p.Pos(ssau.PosOf(s.Instr)))
		}
		c.R.Violate("OWN-2", construct, pos, "storage handed to a mesh here is written afterwards: "+strings.Join(where, "; "), "value "+h.Val.Name())
	}
	perF := map[string]int{}
	for _, h := range own.FieldHandoffs() {
		if p.IsControl(h.Fn.Pos()) {
			continue
		}
		k := p.FuncName(h.Fn) + "→handoff-field:" + h.Field.Name() + "@" + handoffTarget(h.At)
		perF[k]++
		construct := fmt.Sprintf("%s#%d", k, perF[k])
		pos := p.Pos(ssau.PosOf(h.At))
		if len(h.Offenders) == 0 {
			c.R.Hold("OWN-2", construct, pos, "field "+h.Field.Name()+" of "+h.Base.Name()+" handed to a mesh here; the variable or field is re-assigned before any later write")
			continue
		}
		var where []string
		for _, s := range h.Offenders {
			where = append(where, s.Kind+" at "+p.Pos(ssau.PosOf(s.Instr)))
		}
		c.R.Violate("OWN-2", construct, pos, "array in field "+h.Field.Name()+" handed to a mesh here is written afterwards: "+strings.Join(where, "; "))
	}
	for _, g := range globals {
		c.R.Hold("OWN-2", "global:"+g.Pkg.Pkg.Name()+"."+g.Name(), p.Pos(g.Pos()), "package-level storage handed to meshes; every write to it is reported")
	}
	perG := map[string]int{}
	for _, s := range globalViol {
		if p.IsControl(s.Fn.Pos()) {
			ctlSeen[topName(s.Fn)] = true
			continue
		}
		k := p.FuncName(s.Fn) + "→" + s.Kind + ":global"
		perG[k]++
		c.R.Violate("OWN-2", fmt.Sprintf("%s#%d", k, perG[k]), p.Pos(ssau.PosOf(s.Instr)), s.Kind+" writes a package-level array that is handed to meshes (every mesh built from it shares it)")
	}
	c.R.Floor("OWN-2", 120)
}

var ctlSeen = map[string]bool{}

func controls() map[string]string {
	return map[string]string{
		"modeling/zz_verif_control_c01.go": `package modeling

// must fire (OWN-1): in-place write to the receiver's storage
func (m Mesh) verifControlOwn1BadStore() Mesh { m.indices[0] = 1; return m }

// must fire (OWN-1): append onto the receiver's storage
func (m Mesh) verifControlOwn1BadAppend(o Mesh) Mesh {
	return m.SetIndices(append(m.indices, o.indices...))
}

// must fire (OWN-1): write into an attribute array found in the receiver's map
func (m Mesh) verifControlOwn1BadMap(a string) Mesh { m.v3Data[a][0] = m.v3Data[a][1]; return m }

// must stay silent: copy, then write
func (m Mesh) verifControlOwn1Good() Mesh {
	c := make([]int, len(m.indices))
	copy(c, m.indices)
	c[0] = 1
	return m.SetIndices(append(c, 4))
}

// must fire (OWN-2): write after hand-off
func verifControlOwn2Bad() Mesh {
	idx := make([]int, 3)
	m := NewTriangleMesh(idx)
	idx[0] = 2
	return m
}

// must stay silent: filled before the hand-off, re-allocated per iteration
func verifControlOwn2Good() []Mesh {
	var out []Mesh
	for i := 0; i < 3; i++ {
		idx := make([]int, 3)
		idx[0] = i
		out = append(out, NewTriangleMesh(idx))
	}
	return out
}
`,
	}
}

func controlsVerdict(c *props.Ctx, ctl map[string]bool) {
	if len(c.P.Controls) == 0 {
		return
	}
	for k, v := range ctlSeen {
		if v {
			ctl[k] = true
		}
	}
	want := map[string]ob.Verdict{
		"verifControlOwn1BadStore": ob.Violation, "verifControlOwn1BadAppend": ob.Violation, "verifControlOwn1BadMap": ob.Violation,
		"verifControlOwn1Good": ob.Holds, "verifControlOwn2Bad": ob.Violation, "verifControlOwn2Good": ob.Holds,
	}
	for _, name := range []string{"verifControlOwn1BadStore", "verifControlOwn1BadAppend", "verifControlOwn1BadMap", "verifControlOwn1Good", "verifControlOwn2Bad", "verifControlOwn2Good"} {
		got := ob.Holds
		if ctl[name] {
			got = ob.Violation
		}
		rule := "OWN-1"
		if strings.Contains(name, "Own2") {
			rule = "OWN-2"
		}
		c.R.Control(rule, "control:"+name, "modeling/zz_verif_control_c01.go", got, want[name], "")
	}
	for k := range ctlSeen {
		delete(ctlSeen, k)
	}
}
