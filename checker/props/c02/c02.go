// Package c02: well-formedness is closed under mesh operations (index provenance, lock-step construction).
package c02

import (
	"fmt"
	"go/types"
	"sort"
	"strings"

	"golang.org/x/tools/go/ssa"

	"polycheck/eng"
	"polycheck/ob"
	"polycheck/props"
	mc "polycheck/props/meshcommon"
	"polycheck/ssau"
)

func init() {
	props.Register(&props.Prop{
		ID: "C02",
		Explanation: "Index-space typing over the mesh operations (packages modeling/**): IDX-1 attribute data is never subscripted with a " +
			"position of the index array, IDX-2 no element of an index array handed to SetIndices is a bare position, IDX-3 the index array is " +
			"never subscripted with a vertex id; kinds come from type-resolved sources only (Mesh.Indices / FloatNAttribute / AttributeLength / " +
			"Tri.P1.. / the Mesh fields). Plus construction rules on the functions that rebuild all arrays. Decides necessary conditions of " +
			"'every index refers to an existing vertex' for every index pattern at once; does not decide generator index formulas or shift-table arithmetic.",
		Controls: controls,
		Run:      run,
	})
}

func controls() map[string]string {
	return map[string]string{
		"modeling/meshops/zz_verif_control_c02.go": `package meshops

import "github.com/EliCDavis/polyform/modeling"

// must fire IDX-2: positions written as vertex ids
func verifControlIdx2Bad(m modeling.Mesh) modeling.Mesh {
	indices := m.Indices()
	out := make([]int, 0)
	for i := 0; i < indices.Len(); i++ {
		if indices.At(i) > 2 {
			out = append(out, i)
		}
	}
	return m.SetIndices(out)
}

// must fire IDX-1: attribute fetched by position
func verifControlIdx1Bad(m modeling.Mesh) float64 {
	indices := m.Indices()
	data := m.Float1Attribute("a")
	t := 0.
	for i := 0; i < indices.Len(); i++ {
		t += data.At(i)
	}
	return t
}

// must fire IDX-3: vertex id used as position
func verifControlIdx3Bad(m modeling.Mesh) int {
	indices := m.Indices()
	t := 0
	for i := 0; i < indices.Len(); i++ {
		t += indices.At(indices.At(i))
	}
	return t
}

// must fire IDX-6: the next corner taken as vertex id + 1
func verifControlIdx6Bad(m modeling.Mesh) float64 {
	indices := m.Indices()
	data := m.Float1Attribute("a")
	t := 0.
	for i := 0; i+1 < indices.Len(); i += 2 {
		t += data.At(indices.At(i)+1) - data.At(indices.At(i))
	}
	return t
}

// must fire ITER-1: one drain per attribute with a shared, never rewound index iterator
func verifControlIter1Bad(m modeling.Mesh) [][]float64 {
	indices := m.Indices()
	var out [][]float64
	for _, atr := range m.Float1Attributes() {
		data := m.Float1Attribute(atr)
		var vals []float64
		for {
			i, err := indices.Next()
			if err != nil {
				break
			}
			vals = append(vals, data.At(i))
		}
		out = append(out, vals)
	}
	return out
}

// must fire FAM-1: float4 never enumerated
func verifControlFamBad(m modeling.Mesh) modeling.Mesh {
	n := 0
	for range m.Float1Attributes() {
		n++
	}
	for range m.Float2Attributes() {
		n++
	}
	for range m.Float3Attributes() {
		n++
	}
	return m.SetIndices(make([]int, n))
}

// must fire WF-1: float2/float1 skipped on some iterations
func verifControlWfBad(m modeling.Mesh) modeling.Mesh {
	n := 0
	for i := 0; i < m.AttributeLength(); i++ {
		for range m.Float4Attributes() {
			n++
		}
		for range m.Float3Attributes() {
			n++
		}
		if i%2 == 0 {
			continue
		}
		for range m.Float2Attributes() {
			n++
		}
		for range m.Float1Attributes() {
			n++
		}
	}
	return m.SetIndices(make([]int, n))
}

// must stay silent
func verifControlIdxGood(m modeling.Mesh) modeling.Mesh {
	indices := m.Indices()
	data := m.Float1Attribute("a")
	out := make([]int, 0)
	for i := 0; i < indices.Len(); i += 3 {
		if data.At(indices.At(i)) > 0 && data.At(indices.At(i+1)) > 0 {
			out = append(out, indices.At(i), indices.At(i+1), indices.At(i+2))
		}
	}
	for i := 0; i < data.Len(); i++ {
		_ = data.At(i)
	}
	return m.SetIndices(out)
}

// must fire GRP-1: indices kept one at a time, topology inherited, no topology requirement
func verifControlGrpBad(m modeling.Mesh) modeling.Mesh {
	indices := m.Indices()
	out := make([]int, 0)
	for i := 0; i < indices.Len(); i++ {
		if indices.At(i)%2 == 0 {
			out = append(out, indices.At(i))
		}
	}
	return m.SetIndices(out)
}

// must stay silent for GRP-1: whole groups of the mesh's own topology
func verifControlGrpGood(m modeling.Mesh) modeling.Mesh {
	indices := m.Indices()
	size := m.Topology().IndexSize()
	out := make([]int, 0)
	for i := 0; i+size <= indices.Len(); i += size {
		if indices.At(i)%2 != 0 {
			continue
		}
		for c := 0; c < size; c++ {
			out = append(out, indices.At(i+c))
		}
	}
	return m.SetIndices(out)
}

// must stay silent for GRP-1: three at a time on a mesh required to be a triangle mesh
func verifControlGrpTriGood(m modeling.Mesh) modeling.Mesh {
	check(RequireTopology(m, modeling.TriangleTopology))
	indices := m.Indices()
	out := make([]int, 0)
	for i := 0; i+2 < indices.Len(); i += 3 {
		if indices.At(i) != indices.At(i+1) {
			out = append(out, indices.At(i), indices.At(i+1), indices.At(i+2))
		}
	}
	return m.SetIndices(out)
}
`,
	}
}

func run(c *props.Ctx) {
	if c.P.Pkg("modeling") == nil || c.P.Pkg("modeling/meshops") == nil {
		c.R.Failf("anchor packages modeling / modeling/meshops not found")
		return
	}
	fns := mc.ScopeFuncs(c, "modeling")
	x := eng.NewIdx(mc.ModelingPath)
	x.Analyse(fns)
	c.R.Extra["functions_analysed"] = len(fns)
	c.R.Extra["index_iterator_sources"] = x.IndexSources
	c.R.Extra["attribute_iterator_sources"] = x.AttrSources
	bad, good := map[string]bool{}, map[string]bool{}
	mc.ReportIdx(c, x, nil, bad, good)
	c.R.Floor("IDX-1", 40)
	c.R.Floor("IDX-2", 6)
	c.R.Floor("IDX-3", 20)
	remapAndFill(c, fns)
	groupKeeps(c, fns)
	loopVars(c, fns)
	iterDrains(c, fns)
	generators(c)
	nf := mc.ReportFamilies(c, fns, bad)
	c.R.Extra["family_rebuilding_functions"] = nf
	c.R.Floor("FAM-1", 5)
	c.R.Floor("FAM-2", 4)
	perMk := map[string]int{}
	for _, m := range eng.FamilyMakes(fns) {
		if c.P.IsControl(m.Fn.Pos()) {
			continue
		}
		k := c.P.FuncName(m.Fn) + "→make:float" + fmt.Sprint(m.Family)
		perMk[k]++
		construct := fmt.Sprintf("%s#%d", k, perMk[k])
		if m.OK {
			c.R.Hold("FAM-3", construct, c.P.Pos(m.At.Pos()), m.Detail)
		} else {
			c.R.Violate("FAM-3", construct, c.P.Pos(m.At.Pos()), m.Detail)
		}
	}
	c.R.Floor("FAM-3", 8)
	c.R.Floor("WF-1", 5)
	c.R.Floor("IDX-4", 1)
	c.R.Floor("IDX-5", 30)
	if len(c.P.Controls) > 0 {
		for _, n := range []string{"verifControlIdx2Bad", "verifControlIdx1Bad", "verifControlIdx3Bad", "verifControlIdx6Bad", "verifControlFamBad", "verifControlWfBad"} {
			got := ob.Holds
			if bad[n] {
				got = ob.Violation
			}
			c.R.Control("IDX", "control:"+n, "modeling/meshops/zz_verif_control_c02.go", got, ob.Violation, "")
		}
		got := ob.Holds
		if bad["verifControlIdxGood"] {
			got = ob.Violation
		}
		c.R.Control("IDX", "control:verifControlIdxGood", "modeling/meshops/zz_verif_control_c02.go", got, ob.Holds, "")
	}
}

// groupKeeps: GRP-1 — an operation that keeps its input's topology keeps or drops whole primitives.
func groupKeeps(c *props.Ctx, fns []*ssa.Function) {
	p := c.P
	finds, notes := eng.GroupKeeps(fns, mc.ModelingPath, mc.ModelingPath+"/meshops", p.SSA)
	for _, n := range notes {
		c.R.Failf("%s", n)
	}
	per := map[string]int{}
	ctl := map[string]bool{}
	ctlSeen := map[string]bool{}
	for _, f := range finds {
		if p.IsControl(f.Fn.Pos()) {
			ctlSeen[f.Fn.Name()] = true
			if !f.OK {
				ctl[f.Fn.Name()] = true
			}
			continue
		}
		k := p.FuncName(f.Fn) + "→SetIndices:keep"
		per[k]++
		construct := fmt.Sprintf("%s#%d", k, per[k])
		if f.OK {
			c.R.Hold("GRP-1", construct, p.Pos(ssau.PosOf(f.At)), f.Detail)
		} else {
			c.R.Violate("GRP-1", construct, p.Pos(ssau.PosOf(f.At)), f.Detail)
		}
	}
	c.R.Floor("GRP-1", 3)
	if len(c.P.Controls) > 0 {
		file := "modeling/meshops/zz_verif_control_c02.go"
		got := ob.Holds
		if ctl["verifControlGrpBad"] {
			got = ob.Violation
		}
		c.R.Control("GRP-1", "control:verifControlGrpBad", file, got, ob.Violation, "")
		for _, n := range []string{"verifControlGrpGood", "verifControlGrpTriGood"} {
			got := ob.Holds
			if ctl[n] || !ctlSeen[n] {
				got = ob.Violation
			}
			c.R.Control("GRP-1", "control:"+n, file, got, ob.Holds, "")
		}
	}
}

func remapAndFill(c *props.Ctx, fns []*ssa.Function) {
	p := c.P
	isIdx := func(f *types.Var) bool {
		return f != nil && f.Pkg() != nil && f.Pkg().Path() == mc.ModelingPath && f.Name() == "indices"
	}
	per := map[string]int{}
	for _, r := range eng.Remaps(fns, mc.ModelingPath, isIdx) {
		if p.IsControl(r.Fn.Pos()) {
			continue
		}
		k := p.FuncName(r.Fn) + "→remap"
		per[k]++
		construct := fmt.Sprintf("%s#%d", k, per[k])
		if r.OK {
			c.R.Hold("REMAP-1", construct, p.Pos(ssau.PosOf(r.Store)), r.Detail)
		} else {
			c.R.Violate("REMAP-1", construct, p.Pos(ssau.PosOf(r.Handoff)), r.Detail)
		}
	}
	c.R.Floor("REMAP-1", 1)
	helper := p.Func("modeling", "appendData")
	if helper == nil {
		c.R.Note("modeling.appendData not present: FILL-1 / PAIR-2 have no instance")
		return
	}
	var callers []*ssa.Function
	for _, f := range fns {
		if f.Pkg != nil && f.Pkg.Pkg.Path() == mc.ModelingPath {
			callers = append(callers, f)
		}
	}
	perF := map[string]int{}
	sites := eng.FillRules(helper, callers, mc.ModelingPath)
	pair3 := eng.PairEnumerates(helper)
	if pair3 == nil {
		c.R.Undecide("PAIR-3", p.FuncName(helper)+"→PAIR-3", p.Pos(helper.Pos()), "the attribute-combining helper does not take the two operands' attribute maps as two parameters of one map type")
	}
	sites = append(sites, pair3...)
	c.R.Floor("PAIR-3", 2)
	nFill := 0
	for _, s := range sites {
		if s.Rule == "FILL-1" {
			nFill++
		}
	}
	if nFill < 2 {
		c.R.Undecide("FILL-1", p.FuncName(helper)+"→FILL-1", p.Pos(helper.Pos()), fmt.Sprintf("%d zero-fill(s) recognised in the attribute-combining helper, two are expected (one per mesh whose attribute may be missing): the fill is not a counted loop of the helper or of one of its function literals bounded by a vertex-count parameter", nFill))
	}
	for _, s := range sites {
		if p.IsControl(s.Fn.Pos()) {
			continue
		}
		k := p.FuncName(s.Fn) + "→" + s.Rule
		perF[k]++
		construct := fmt.Sprintf("%s#%d", k, perF[k])
		if s.OK {
			c.R.Hold(s.Rule, construct, p.Pos(ssau.PosOf(s.At)), s.Detail)
		} else {
			c.R.Violate(s.Rule, construct, p.Pos(ssau.PosOf(s.At)), s.Detail)
		}
	}
}

// loopVars: ORD-2 over the mesh operations — with the pre-1.22 loop semantics go.mod selects, a closure or pointer
// that keeps a per-loop variable beyond its iteration sees the last iteration's value: per-attribute copy
// functions collected in a loop all fill the last attribute, the others stay short.
func loopVars(c *props.Ctx, fns []*ssa.Function) {
	p := c.P
	escs, st := eng.LoopVarAddrEscapes(fns)
	byFn := map[*ssa.Function][]eng.LoopVarEscape{}
	for _, e := range escs {
		byFn[e.Fn] = append(byFn[e.Fn], e)
	}
	for _, fn := range fns {
		if len(ssau.Loops(fn)) == 0 || p.IsControl(fn.Pos()) {
			continue
		}
		rel := p.RelFile(fn.Pos())
		if !(rel == "modeling/mesh.go" || strings.HasPrefix(rel, "modeling/meshops/") || strings.HasPrefix(rel, "modeling/repeat/") || strings.HasPrefix(rel, "modeling/primitives/") || strings.HasPrefix(rel, "modeling/extrude/")) {
			continue
		}
		name := p.FuncName(fn)
		es := byFn[fn]
		if len(es) == 0 {
			c.R.Hold("ORD-2", name, p.Pos(fn.Pos()), "no per-loop variable is kept (by address or by a closure) beyond its iteration")
			continue
		}
		for _, e := range es {
			c.R.Violate("ORD-2", name+"#"+e.Var.Comment, p.Pos(ssau.PosOf(e.At)),
				"per-loop variable '"+e.Var.Comment+"' "+e.How+" while the loop continues: everything kept ends up naming the last iteration's value (go.mod selects the pre-1.22 loop semantics)")
		}
	}
	c.R.Extra["ord2_loops_examined"] = st.Loops
	c.R.Floor("ORD-2", 40)
}

// iterDrains: ITER-1 — mesh accessor iterators are not drained statefully across repetitions (expected count on the
// unchanged tree: zero Next() calls; the positive control must fire on every run).
func iterDrains(c *props.Ctx, fns []*ssa.Function) {
	p := c.P
	n, ctl := 0, false
	per := map[string]int{}
	for _, f := range eng.IteratorDrains(fns) {
		if p.IsControl(f.Fn.Pos()) {
			if !f.OK {
				ctl = true
			}
			continue
		}
		n++
		k := p.FuncName(f.Fn) + "→Next"
		per[k]++
		construct := fmt.Sprintf("%s#%d", k, per[k])
		if f.OK {
			c.R.Hold("ITER-1", construct, p.Pos(ssau.PosOf(f.At)), f.Detail)
		} else {
			c.R.Violate("ITER-1", construct, p.Pos(ssau.PosOf(f.At)), f.Detail)
		}
	}
	if n == 0 {
		c.R.Hold("ITER-1", "scope:modeling", "", fmt.Sprintf("no accessor iterator is consumed with Next() in the %d functions of the mesh operations: only the random-access half (At / Len) is used", len(fns)))
	}
	if len(p.Controls) > 0 {
		got := ob.Holds
		if ctl {
			got = ob.Violation
		}
		c.R.Control("ITER-1", "control:verifControlIter1Bad", "modeling/meshops/zz_verif_control_c02.go", got, ob.Violation, "")
	}
}

// generators: GEN-LEN / GEN-3 over the geometry generators the property anchors.
func generators(c *props.Ctx) {
	p := c.P
	// TriangleTopology must be the zero value of modeling.Topology for GEN-3's NewMesh(0, …) reading
	if mp := p.Pkg("modeling"); mp != nil {
		if o, ok := mp.Types.Scope().Lookup("TriangleTopology").(*types.Const); !ok || o.Val().ExactString() != "0" {
			c.R.Note("modeling.TriangleTopology is not the constant 0: GEN-3 skips NewMesh call sites")
		}
	}
	fns := mc.ScopeFuncs(c, "modeling/primitives", "modeling/extrude", "modeling/repeat", "modeling/triangulation", "modeling/marching")
	per := map[string]int{}
	for _, g := range eng.Generators(fns, mc.ModelingPath) {
		if p.IsControl(g.Fn.Pos()) {
			continue
		}
		k := p.FuncName(g.Fn) + "→" + g.Rule + ":" + g.Key
		per[k]++
		construct := fmt.Sprintf("%s#%d", k, per[k])
		pos := p.Pos(g.Fn.Pos())
		if g.At != nil {
			pos = p.Pos(ssau.PosOf(g.At))
		}
		if g.OK {
			c.R.Hold(g.Rule, construct, pos, g.Detail)
		} else {
			c.R.Violate(g.Rule, construct, pos, g.Detail)
		}
	}
	c.R.Floor("GEN-3", 10)
	c.R.Floor("GEN-LEN", 3)
	// GEN-BOUND: polynomial index formulas stay below the vertex count
	notCovered := 0
	sites := map[string]int{}
	for _, fn := range fns {
		if p.IsControl(fn.Pos()) {
			continue
		}
		bs, nc := eng.GeneratorBounds(fn, mc.ModelingPath)
		notCovered += nc
		for _, b := range bs {
			sk := p.FuncName(fn) + "→index-site@" + fmt.Sprint(ssau.PosOf(b.At))
			if _, ok := sites[sk]; !ok {
				sites[sk] = len(sites) + 1
			}
			_ = sk
		}
		// number the emission sites of one function in source order
		order := map[ssa.Instruction]int{}
		for _, b := range bs {
			if _, ok := order[b.At]; !ok {
				order[b.At] = 0
			}
		}
		var ats []ssa.Instruction
		for at := range order {
			ats = append(ats, at)
		}
		sort.Slice(ats, func(i, j int) bool { return ssau.PosOf(ats[i]) < ssau.PosOf(ats[j]) })
		for i, at := range ats {
			order[at] = i + 1
		}
		for _, b := range bs {
			construct := fmt.Sprintf("%s→emit#%d[%s]", p.FuncName(fn), order[b.At], b.Key)
			if b.OK {
				c.R.Hold("GEN-BOUND", construct, p.Pos(ssau.PosOf(b.At)), b.Detail)
			} else {
				c.R.Violate("GEN-BOUND", construct, p.Pos(ssau.PosOf(b.At)), b.Detail)
			}
		}
	}
	c.R.Floor("GEN-BOUND", 40)
	c.R.Extra["gen_bound_elements_not_covered"] = notCovered
	c.R.Note(fmt.Sprintf("GEN-BOUND: %d emitted index elements / meshes lie outside the polynomial fragment (data-dependent formula, unknown vertex count, no certificate and no witness) and carry no obligation", notCovered))
}
