// Package c03: mesh operations do what they say and nothing else (structural clauses).
package c03

import (
	"fmt"
	"go/constant"
	"go/types"
	"strings"

	"golang.org/x/tools/go/ssa"

	"polycheck/eng"
	"polycheck/load"
	"polycheck/ob"
	"polycheck/props"
	mc "polycheck/props/meshcommon"
	"polycheck/ssau"
)

func init() {
	props.Register(&props.Prop{
		ID: "C03",
		Explanation: "Single-attribute transforms (table of element-wise operations, resolved by name): SHAPE-1 the result is the input mesh " +
			"with exactly the attribute that was read replaced (receiver of the setter is the input mesh value, so indices/topology/materials/other " +
			"attributes are carried over), SHAPE-2 the new array has the old length and element j is computed from element j, SHAPE-3 every value " +
			"parameter reaches the stored elements, SHAPE-4 every element is stored unconditionally over the whole range. Layout operations: " +
			"IDX-1/2/3/5 (corner gathers go through the vertex id), PERM-1 (flip winding permutes the three indices of one triangle, each once), " +
			"FAM-1/WF-1 (all four attribute families handled in lock-step), ATTR-1 (every attribute-name parameter reaches a data access). " +
			"Decides the dependency shape, not the numeric map (C17), weld cells, Laplacian weights or compositions.",
		Controls: controls,
		Run:      run,
	})
}

// The element-wise operations (DESIGN.md §3.3): package-relative path, function.
var shapeTable = [][2]string{
	{"modeling", "Mesh.Translate"}, {"modeling", "Mesh.Scale"}, {"modeling", "Mesh.Rotate"}, {"modeling", "Mesh.ApplyTRS"},
	{"modeling", "Mesh.ModifyFloat1Attribute"}, {"modeling", "Mesh.ModifyFloat2Attribute"}, {"modeling", "Mesh.ModifyFloat3Attribute"},
	{"modeling", "Mesh.ModifyFloat1AttributeParallel"}, {"modeling", "Mesh.ModifyFloat2AttributeParallel"}, {"modeling", "Mesh.ModifyFloat3AttributeParallel"},
	{"modeling", "Mesh.ModifyFloat1AttributeParallelWithPoolSize"}, {"modeling", "Mesh.ModifyFloat2AttributeParallelWithPoolSize"}, {"modeling", "Mesh.ModifyFloat3AttributeParallelWithPoolSize"},
	{"modeling/meshops", "ScaleAttribute3D"}, {"modeling/meshops", "ScaleAttribute2D"}, {"modeling/meshops", "ScaleAttributeAlongNormal"},
	{"modeling/meshops", "TranslateAttribute3D"}, {"modeling/meshops", "RotateAttribute3D"}, {"modeling/meshops", "CenterFloat3Attribute"},
	{"modeling/meshops", "NormalizeAttribute3D"}, {"modeling/meshops", "NormalizeAttribute2D"},
	{"math/trs", "TRS.TransformArray"}, {"math/quaternion", "Quaternion.RotateArray"},
}

func run(c *props.Ctx) {
	p := c.P
	cfg := eng.ShapeConfig{ModelingPath: mc.ModelingPath}
	// spawned element loops: C10's SYM-PART decides the partition for the parallel helpers of package modeling
	cfg.PartitionDecided = func(fn *ssa.Function) bool {
		return fn.Pkg != nil && fn.Pkg.Pkg.Path() == mc.ModelingPath
	}
	arrayFuncs := map[*ssa.Function]bool{}
	for _, e := range shapeTable {
		if e[0] == "math/trs" || e[0] == "math/quaternion" {
			if f := p.Func(e[0], e[1]); f != nil {
				arrayFuncs[f] = true
			}
		}
	}
	cfg.IsArrayFunc = func(f *ssa.Function) bool { return arrayFuncs[f] }
	cfg.SkipParam = func(fn *ssa.Function, prm *ssa.Parameter) bool {
		// the worker-pool size of the *WithPoolSize variants must not influence the values (C10)
		if !strings.HasSuffix(fn.Name(), "WithPoolSize") {
			return false
		}
		b, ok := prm.Type().Underlying().(*types.Basic)
		return ok && b.Info()&types.IsInteger != 0
	}
	nFns := 0
	for _, e := range shapeTable {
		fn := p.Func(e[0], e[1])
		if fn == nil {
			c.R.Failf("anchor %s.%s (element-wise operation) not found", e[0], e[1])
			continue
		}
		nFns++
		reportShape(c, fn, eng.AnalyseShape(fn, cfg), nil)
	}
	c.R.Extra["elementwise_operations"] = nFns
	c.R.Floor("SHAPE-1", 20)
	c.R.Floor("SHAPE-2", 20)
	c.R.Floor("SHAPE-3", 12)
	c.R.Floor("SHAPE-4", 10)

	// controls for SHAPE
	ctl := map[string]bool{}
	if sp := p.SSAPkg("modeling/meshops"); sp != nil {
		for _, f := range p.FuncsOf(sp) {
			if p.IsControl(f.Pos()) && strings.HasPrefix(f.Name(), "verifControlShape") {
				reportShape(c, f, eng.AnalyseShape(f, cfg), ctl)
			}
		}
	}

	// layout operations: index-space typing, families, permutation
	fns := mc.ScopeFuncs(c, "modeling")
	x := eng.NewIdx(mc.ModelingPath)
	x.Analyse(fns)
	bad := map[string]bool{}
	inC03 := func(s eng.IdxSite) bool {
		rel := p.RelFile(s.Fn.Pos())
		return rel == "modeling/mesh.go" || strings.HasPrefix(rel, "modeling/meshops/") || strings.HasPrefix(rel, "modeling/repeat/")
	}
	mc.ReportIdx(c, x, inC03, bad, map[string]bool{})
	c.R.Floor("IDX-1", 30)
	c.R.Floor("IDX-2", 6)
	mc.ReportFamilies(c, fns, bad)
	c.R.Floor("FAM-1", 5)
	perm1(c)
	attr1(c, fns)
	short1(c)
	pc1(c)
	divGuards(c)
	round1(c)
	elemLaws(c)
	neighbourOps(c, cfg)
	neighbourTable(c)
	fill1(c, fns)
	renum1(c, fns)

	if len(p.Controls) > 0 {
		for _, n := range []string{"verifControlShapeBadAttr", "verifControlShapeBadIndex", "verifControlShapeBadParam", "verifControlShapeBadRecv", "verifControlShapeBadCond"} {
			got := ob.Holds
			if ctl[n] {
				got = ob.Violation
			}
			c.R.Control("SHAPE", "control:"+n, "modeling/meshops/zz_verif_control_c03.go", got, ob.Violation, "")
		}
		got := ob.Holds
		if ctl["verifControlShapeGood"] || ctl["verifControlShapeGoodRange"] {
			got = ob.Violation
		}
		c.R.Control("SHAPE", "control:verifControlShapeGood", "modeling/meshops/zz_verif_control_c03.go", got, ob.Holds, "")
	}
}

func reportShape(c *props.Ctx, fn *ssa.Function, r eng.ShapeResult, ctl map[string]bool) {
	name := c.P.FuncName(fn)
	per := map[string]int{}
	for _, f := range r.Findings {
		per[f.Rule]++
		construct := fmt.Sprintf("%s#%d", name, per[f.Rule])
		pos := c.P.Pos(fn.Pos())
		if f.At != nil {
			pos = c.P.Pos(ssau.PosOf(f.At))
		}
		if ctl != nil {
			if !f.OK {
				ctl[fn.Name()] = true
			}
			continue
		}
		if f.OK {
			c.R.Hold(f.Rule, construct, pos, f.Detail, "form: "+r.Form)
		} else {
			c.R.Violate(f.Rule, construct, pos, f.Detail, "form: "+r.Form)
		}
	}
}

func relPkg(path string) string {
	return strings.TrimPrefix(strings.TrimPrefix(path, load.Module), "/")
}

func controls() map[string]string {
	return map[string]string{
		"modeling/meshops/zz_verif_control_c03.go": `package meshops

import (
	"github.com/EliCDavis/polyform/modeling"
	"github.com/EliCDavis/vector/vector3"
)

func verifControlShapeGood(m modeling.Mesh, attribute string, amount vector3.Float64) modeling.Mesh {
	oldData := m.Float3Attribute(attribute)
	out := make([]vector3.Float64, oldData.Len())
	for i := 0; i < oldData.Len(); i++ {
		out[i] = oldData.At(i).Add(amount)
	}
	return m.SetFloat3Attribute(attribute, out)
}

func verifControlShapeGoodRange(m modeling.Mesh, attribute string, amount vector3.Float64) modeling.Mesh {
	oldData := m.Float3Attribute(attribute)
	n := oldData.Len()
	out := make([]vector3.Float64, n)
	for i := range out {
		v := oldData.At(i)
		out[i] = v.Add(amount)
	}
	return m.SetFloat3Attribute(attribute, out)
}

// wrong attribute written
func verifControlShapeBadAttr(m modeling.Mesh, attribute string, amount vector3.Float64) modeling.Mesh {
	oldData := m.Float3Attribute(attribute)
	out := make([]vector3.Float64, oldData.Len())
	for i := 0; i < oldData.Len(); i++ {
		out[i] = oldData.At(i).Add(amount)
	}
	return m.SetFloat3Attribute(modeling.NormalAttribute, out)
}

// element j from element j+1
func verifControlShapeBadIndex(m modeling.Mesh, attribute string, amount vector3.Float64) modeling.Mesh {
	oldData := m.Float3Attribute(attribute)
	out := make([]vector3.Float64, oldData.Len())
	for i := 0; i < oldData.Len(); i++ {
		out[i] = oldData.At((i + 1) % oldData.Len()).Add(amount)
	}
	return m.SetFloat3Attribute(attribute, out)
}

// parameter ignored
func verifControlShapeBadParam(m modeling.Mesh, attribute string, amount vector3.Float64) modeling.Mesh {
	oldData := m.Float3Attribute(attribute)
	out := make([]vector3.Float64, oldData.Len())
	for i := 0; i < oldData.Len(); i++ {
		out[i] = oldData.At(i)
	}
	return m.SetFloat3Attribute(attribute, out)
}

// receiver is not the input mesh
func verifControlShapeBadRecv(m modeling.Mesh, attribute string, amount vector3.Float64) modeling.Mesh {
	oldData := m.Float3Attribute(attribute)
	out := make([]vector3.Float64, oldData.Len())
	for i := 0; i < oldData.Len(); i++ {
		out[i] = oldData.At(i).Add(amount)
	}
	return modeling.EmptyMesh(m.Topology()).SetFloat3Attribute(attribute, out)
}

// conditional store
func verifControlShapeBadCond(m modeling.Mesh, attribute string, amount vector3.Float64) modeling.Mesh {
	oldData := m.Float3Attribute(attribute)
	out := make([]vector3.Float64, oldData.Len())
	for i := 0; i < oldData.Len(); i++ {
		if i%2 == 0 {
			out[i] = oldData.At(i).Add(amount)
		}
	}
	return m.SetFloat3Attribute(attribute, out)
}
`,
	}
}

// neighbourOps: NEIGH-1..4 for the connectivity-based single-attribute operations.
// renum1: renumber tables hand out ids in the order the attribute arrays are compacted.
// neighbourTable: NEIGH-7 — the vertex neighbour table links what the topology says is connected.
func neighbourTable(c *props.Ctx) {
	p := c.P
	mp := p.Pkg("modeling")
	if mp == nil {
		return
	}
	kinds := map[int64]eng.TopoKind{}
	for _, e := range []struct {
		name string
		n    int64
	}{{"TriangleTopology", 3}, {"QuadTopology", 4}, {"LineTopology", 2}, {"PointTopology", 1}, {"LineStripTopology", 0}, {"LineLoopTopology", 0}} {
		o, ok := mp.Types.Scope().Lookup(e.name).(*types.Const)
		if !ok {
			c.R.Failf("anchor constant modeling.%s not found", e.name)
			continue
		}
		k, exact := constant.Int64Val(o.Val())
		if !exact {
			c.R.Failf("anchor constant modeling.%s is not an integer", e.name)
			continue
		}
		kinds[k] = eng.TopoKind{Name: e.name, N: e.n}
	}
	fn := p.Func("modeling", "Mesh.VertexNeighborTable")
	if fn == nil {
		c.R.Failf("anchor modeling.Mesh.VertexNeighborTable not found")
		return
	}
	res, und := eng.AnalyseNeighbourTable(fn, kinds, mc.ModelingPath)
	name := p.FuncName(fn)
	per := map[string]int{}
	for _, f := range res.Findings {
		per[f.Tag]++
		construct := fmt.Sprintf("%s#%s#%d", name, f.Tag, per[f.Tag])
		pos := p.Pos(ssau.PosOf(f.At))
		if f.OK {
			c.R.Hold(f.Rule, construct, pos, f.Detail, "form: "+res.Form)
		} else {
			c.R.Violate(f.Rule, construct, pos, f.Detail, "form: "+res.Form)
		}
	}
	for i, u := range und {
		c.R.Undecide("NEIGH-7", fmt.Sprintf("%s#undecided#%d", name, i+1), p.Pos(fn.Pos()), u)
	}
	c.R.Floor("NEIGH-7", 6)
}

// fill1: FILL-1 — the zero-fill of an attribute only one operand of Append carries runs for the other operand's
// vertex count (shared with C02: a wrong count also shifts the per-corner content of every later vertex).
func fill1(c *props.Ctx, fns []*ssa.Function) {
	p := c.P
	helper := p.Func("modeling", "appendData")
	if helper == nil {
		c.R.Note("modeling.appendData not present: FILL-1 has no instance")
		return
	}
	sites := eng.FillRules(helper, nil, mc.ModelingPath)
	n := 0
	per := map[string]int{}
	for _, s := range sites {
		if s.Rule != "FILL-1" || p.IsControl(s.Fn.Pos()) {
			continue
		}
		n++
		k := p.FuncName(s.Fn) + "→" + s.Rule
		per[k]++
		construct := fmt.Sprintf("%s#%d", k, per[k])
		if s.OK {
			c.R.Hold(s.Rule, construct, p.Pos(ssau.PosOf(s.At)), s.Detail)
		} else {
			c.R.Violate(s.Rule, construct, p.Pos(ssau.PosOf(s.At)), s.Detail)
		}
	}
	if n < 2 {
		c.R.Undecide("FILL-1", p.FuncName(helper)+"→FILL-1", p.Pos(helper.Pos()), fmt.Sprintf("%d zero-fill(s) recognised in the attribute-combining helper, two are expected", n))
	}
}

func renum1(c *props.Ctx, fns []*ssa.Function) {
	p := c.P
	per := map[string]int{}
	for _, r := range eng.Renumbers(fns) {
		if p.IsControl(r.Fn.Pos()) {
			continue
		}
		rel := p.RelFile(r.Fn.Pos())
		if !(rel == "modeling/mesh.go" || strings.HasPrefix(rel, "modeling/meshops/") || strings.HasPrefix(rel, "modeling/repeat/")) {
			continue
		}
		k := p.FuncName(r.Fn) + "→renumber"
		per[k]++
		construct := fmt.Sprintf("%s#%d", k, per[k])
		if r.OK {
			c.R.Hold("RENUM-1", construct, p.Pos(ssau.PosOf(r.Store)), r.Detail, "class: "+r.Class)
		} else {
			c.R.Violate("RENUM-1", construct, p.Pos(ssau.PosOf(r.Store)), r.Detail)
		}
	}
	c.R.Floor("RENUM-1", 2)
}

func neighbourOps(c *props.Ctx, cfg eng.ShapeConfig) {
	p := c.P
	mp := p.Pkg("modeling")
	cst := func(name string) string {
		if mp == nil {
			return ""
		}
		if o, ok := mp.Types.Scope().Lookup(name).(*types.Const); ok {
			s := o.Val().ExactString()
			if len(s) >= 2 && s[0] == '"' {
				return s[1 : len(s)-1]
			}
		}
		c.R.Failf("anchor constant modeling.%s not found", name)
		return ""
	}
	normal, position := cst("NormalAttribute"), cst("PositionAttribute")
	table := []struct {
		name string
		spec eng.NeighSpec
	}{
		{"FlatNormals", eng.NeighSpec{TargetConst: normal, SourceConst: position, Normals: true}},
		{"SmoothNormals", eng.NeighSpec{TargetConst: normal, SourceConst: position, Normals: true}},
		{"SmoothNormalsImplicitWeld", eng.NeighSpec{TargetConst: normal, SourceConst: position, Normals: true}},
		{"LaplacianSmooth", eng.NeighSpec{Laplacian: true}},
		{"LaplacianSmoothAlongAxis", eng.NeighSpec{Laplacian: true}},
	}
	for _, e := range table {
		fn := p.Func("modeling/meshops", e.name)
		if fn == nil {
			c.R.Failf("anchor meshops.%s (connectivity-based operation) not found", e.name)
			continue
		}
		reportShape(c, fn, eng.AnalyseNeighbourOp(fn, e.spec, cfg), nil)
	}
	c.R.Floor("NEIGH-1", 15)
	c.R.Floor("NEIGH-2", 3)
	c.R.Floor("NEIGH-3", 4)
	c.R.Floor("NEIGH-4", 2)
	c.R.Floor("NEIGH-5", 2)
	c.R.Floor("NEIGH-6", 2)
	// box crop: keep decision over the finite set of orderings
	if fn := p.Func("modeling/meshops", "CropFloat3Attribute"); fn == nil {
		c.R.Failf("anchor meshops.CropFloat3Attribute not found")
	} else {
		reportShape(c, fn, eng.AnalyseBoxKeep(fn, cfg), nil)
	}
	c.R.Floor("CROP-1", 1)
	c.R.Floor("CROP-2", 1)
	// weld: degenerate-triangle filter over the five equality patterns
	if fn := p.Func("modeling", "Mesh.WeldByFloat3Attribute"); fn == nil {
		c.R.Failf("anchor modeling.Mesh.WeldByFloat3Attribute not found")
	} else {
		isKey := func(o types.Object) bool {
			f, ok := o.(*types.Func)
			return ok && ssau.IsFunc(f, mc.ModelingPath, "Vector3ToInt")
		}
		reportShape(c, fn, eng.AnalyseDegenerateDrop(fn, isKey), nil)
	}
	c.R.Floor("DEGEN-1", 1)
	// split by material: the accumulator of the current range
	if fn := p.Func("modeling/meshops", "SplitOnUniqueMaterials"); fn == nil {
		c.R.Failf("anchor meshops.SplitOnUniqueMaterials not found")
	} else {
		reportShape(c, fn, eng.AnalyseCursorKeyed(fn), nil)
		reportShape(c, fn, eng.AnalyseCursorAdvance(fn, func(t types.Type) bool { return ssau.IsNamed(t, mc.ModelingPath, "MeshMaterial") }), nil)
	}
	c.R.Floor("SPLIT-1", 1)
	c.R.Floor("SPLIT-2", 1)
}
