package c03

import (
	"fmt"
	"go/token"
	"go/types"

	"golang.org/x/tools/go/ssa"

	"polycheck/props"
	mc "polycheck/props/meshcommon"
	"polycheck/ssau"
)

// NEIGH-8 — the neighbour mean is only taken where there are neighbours.
// The smoothing operations move a vertex towards the mean of its neighbours: sum / VertexLUT.Count(v). C03 quantifies
// over meshes with unreferenced vertices, which have no neighbours: there the quotient is 0/0 = NaN and the vertex —
// which the stated map leaves where it is, having nothing to move towards — is destroyed. Decided on the CFG of
// every function of modeling/meshops: a division (a `/` or a vector DivByConstant) whose divisor derives from a
// VertexLUT.Count call must be dominated by the non-zero edge of a comparison of that same count (same table, same
// vertex) with 0 (== / != / > / >= 1 / < 1 / <= 0).
func divGuards(c *props.Ctx) {
	p := c.P
	sp := p.SSAPkg("modeling/meshops")
	if sp == nil {
		c.R.Failf("anchor package modeling/meshops not found")
		return
	}
	for _, fn := range p.FuncsOf(sp) {
		if p.IsControl(fn.Pos()) {
			continue
		}
		type guard struct {
			count *ssa.Call
			edge  *ssa.BasicBlock // block entered only when the count is non-zero
		}
		var guards []guard
		ssau.AllInstrs(fn, func(in ssa.Instruction) {
			iff, ok := in.(*ssa.If)
			if !ok {
				return
			}
			cmp, ok := iff.Cond.(*ssa.BinOp)
			if !ok {
				return
			}
			cnt, k, op := countCall(cmp.X), int64(0), cmp.Op
			var kok bool
			if cnt != nil {
				k, kok = ssau.ConstInt(cmp.Y)
			} else if cnt = countCall(cmp.Y); cnt != nil {
				k, kok = ssau.ConstInt(cmp.X)
				switch op { // mirror: k OP count  →  count OP' k
				case token.LSS:
					op = token.GTR
				case token.GTR:
					op = token.LSS
				case token.LEQ:
					op = token.GEQ
				case token.GEQ:
					op = token.LEQ
				}
			}
			if cnt == nil || !kok {
				return
			}
			succ := -1 // index of the successor on which count != 0 is known
			switch {
			case op == token.EQL && k == 0, op == token.LEQ && k == 0, op == token.LSS && k == 1:
				succ = 1
			case op == token.NEQ && k == 0, op == token.GTR && k == 0, op == token.GEQ && k == 1:
				succ = 0
			}
			if succ < 0 {
				return
			}
			e := iff.Block().Succs[succ]
			if len(e.Preds) == 1 {
				guards = append(guards, guard{cnt, e})
			}
		})
		n := 0
		ssau.AllInstrs(fn, func(in ssa.Instruction) {
			var divisor ssa.Value
			switch x := in.(type) {
			case *ssa.BinOp:
				if x.Op == token.QUO {
					divisor = x.Y
				}
			case *ssa.Call:
				if o := ssau.CalleeObj(x); o != nil && o.Name() == "DivByConstant" && len(x.Call.Args) == 2 {
					divisor = x.Call.Args[1]
				}
			}
			if divisor == nil {
				return
			}
			cnt := countCall(divisor)
			if cnt == nil {
				return
			}
			n++
			construct := fmt.Sprintf("%s→neighbour-mean#%d", p.FuncName(fn), n)
			for _, g := range guards {
				if sameCount(g.count, cnt) && g.edge.Dominates(in.Block()) {
					c.R.Hold("NEIGH-8", construct, p.Pos(ssau.PosOf(in)), "the division by the neighbour count is only reached when that count is not 0")
					return
				}
			}
			c.R.Violate("NEIGH-8", construct, p.Pos(ssau.PosOf(in)), "the sum over the neighbours is divided by VertexLUT.Count(v) without a test that the vertex has neighbours: for a vertex no primitive refers to this is 0/0, and the NaN replaces the vertex the operation should leave where it is")
		})
	}
	c.R.Floor("NEIGH-8", 1)
}

// countCall: v is (a numeric conversion of) a VertexLUT.Count(...) call.
func countCall(v ssa.Value) *ssa.Call {
	for i := 0; i < 4; i++ {
		switch x := v.(type) {
		case *ssa.Convert:
			v = x.X
			continue
		case *ssa.Call:
			o := ssau.CalleeObj(x)
			if o != nil && ssau.IsMethod(o, mc.ModelingPath, "VertexLUT", "Count") {
				return x
			}
		}
		break
	}
	return nil
}

func sameValue(a, b ssa.Value) bool {
	if a == b {
		return true
	}
	la, ok1 := a.(*ssa.UnOp)
	lb, ok2 := b.(*ssa.UnOp)
	if ok1 && ok2 && la.Op == token.MUL && lb.Op == token.MUL && la.X == lb.X {
		if _, isAlloc := la.X.(*ssa.Alloc); isAlloc {
			return true
		}
	}
	ca, ok1 := a.(*ssa.Const)
	cb, ok2 := b.(*ssa.Const)
	return ok1 && ok2 && types.Identical(ca.Type(), cb.Type()) && ca.Value == cb.Value
}

func sameCount(a, b *ssa.Call) bool {
	if a == b {
		return true
	}
	if len(a.Call.Args) != len(b.Call.Args) {
		return false
	}
	for i := range a.Call.Args {
		if !sameValue(a.Call.Args[i], b.Call.Args[i]) {
			return false
		}
	}
	return true
}
