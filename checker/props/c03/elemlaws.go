package c03

// ELEM-1: the *stated map* of the single-attribute transforms, decided as polynomial /
// rational identities with C17's symbolic engine (polycheck/props/c17).
//
// SHAPE-1..4 (c03.go) decide the dependency shape "element j from element j, every
// parameter reaches it"; they cannot see a wrong sign or a wrong order of operations.
// Here each function is interpreted on symbolic arguments (mesh with symbolic attribute
// arrays, symbolic attribute name, symbolic parameters); the element stored into the
// array handed to Mesh.SetFloatNAttribute during one symbolic loop iteration is put in
// normal form and compared, per component, with the law the operation documents.
// Constants that are accumulated by an earlier loop (centre, longest length) are
// traced back to that loop's one-iteration summary (min / max reduction over the same
// attribute, full range). Nothing from the repository is executed.

import (
	"fmt"
	"go/constant"
	"go/types"
	"strconv"
	"strings"

	"golang.org/x/tools/go/ssa"

	"polycheck/props"
	"polycheck/props/c17"
)

type elemCtx struct {
	c  *props.Ctx
	s  *c17.Session
	fn *ssa.Function
	em *c17.ElemMap
	// primary: the read of the attribute the operation names
	primary *c17.ElemRead
}

// param returns the symbolic argument of the parameter called name.
func (x *elemCtx) param(name string) (c17.Val, bool) {
	for i, p := range x.fn.Params {
		if p.Name() == name && i < len(x.em.Args) {
			return x.em.Args[i], true
		}
	}
	return nil, false
}

// paramOfType returns the n-th (0-based) parameter whose type satisfies pred.
func (x *elemCtx) paramOfType(n int, pred func(types.Type) bool) (c17.Val, string, bool) {
	k := 0
	for i, p := range x.fn.Params {
		if pred(p.Type()) {
			if k == n && i < len(x.em.Args) {
				return x.em.Args[i], p.Name(), true
			}
			k++
		}
	}
	return nil, "", false
}

func isString(t types.Type) bool {
	b, ok := t.Underlying().(*types.Basic)
	return ok && b.Info()&types.IsString != 0
}

func isFloat(t types.Type) bool {
	b, ok := t.Underlying().(*types.Basic)
	return ok && b.Info()&types.IsFloat != 0
}

func isVectorN(n int) func(types.Type) bool {
	return func(t types.Type) bool {
		nt, ok := types.Unalias(t).(*types.Named)
		if !ok {
			return false
		}
		o := nt.Origin().Obj()
		if o.Name() != "Vector" || o.Pkg() == nil || !strings.HasPrefix(o.Pkg().Path(), "github.com/EliCDavis/vector/vector") {
			return false
		}
		st, ok := nt.Underlying().(*types.Struct)
		return ok && st.NumFields() == n
	}
}

func isNamedStruct(pkgSuffix, name string) func(types.Type) bool {
	return func(t types.Type) bool {
		nt, ok := types.Unalias(t).(*types.Named)
		if !ok {
			return false
		}
		o := nt.Obj()
		return o.Name() == name && o.Pkg() != nil && strings.HasSuffix(o.Pkg().Path(), pkgSuffix)
	}
}

// read finds the source array `…[key]` among the arrays the stored element reads.
func (x *elemCtx) read(key string) (*c17.ElemRead, bool) {
	for i := range x.em.Reads {
		if strings.HasSuffix(x.em.Reads[i].Array, "["+key+"]") {
			return &x.em.Reads[i], true
		}
	}
	return nil, false
}

type elemLaw struct {
	rel, name string
	law       string
	// attr: how the attribute is named: n-th string parameter (>= 0) or -1 for modeling.PositionAttribute
	attr int
	// want builds the required components from the source element; it may instead decide on its own (custom)
	want   func(x *elemCtx, src []c17.Scalar) ([]c17.Scalar, string)
	custom func(x *elemCtx, src, got []c17.Scalar) (facts []string, violation, undecided string)
	dim    int
}

func elemLaws(c *props.Ctx) {
	P := c.P
	R := c.R
	s, prob := c17.NewSession(c)
	if prob != "" {
		R.Failf("ELEM-1: %s", prob)
		return
	}
	e := s.Engine()
	posName := ""
	if mpk := P.Pkg("modeling"); mpk != nil {
		if k, ok := mpk.Types.Scope().Lookup("PositionAttribute").(*types.Const); ok && k.Val().Kind() == constant.String {
			posName = constant.StringVal(k.Val())
		}
	}
	if posName == "" {
		R.Failf("ELEM-1: anchor constant modeling.PositionAttribute not found")
		return
	}
	rotate := P.Func("math/quaternion", "Quaternion.Rotate")
	transform := P.Func("math/trs", "TRS.Transform")

	vecParam := func(x *elemCtx, n, dim int) ([]c17.Scalar, string, bool) {
		v, name, ok := x.paramOfType(n, isVectorN(dim))
		if !ok {
			return nil, "", false
		}
		l := c17.Leaves(v)
		return l, name, len(l) == dim
	}
	translate := func(dim int) func(x *elemCtx, src []c17.Scalar) ([]c17.Scalar, string) {
		return func(x *elemCtx, src []c17.Scalar) ([]c17.Scalar, string) {
			amt, _, ok := vecParam(x, 0, dim)
			if !ok {
				return nil, "no vector parameter to translate by"
			}
			out := make([]c17.Scalar, dim)
			for i := range out {
				out[i] = e.Add(src[i], amt[i])
			}
			return out, ""
		}
	}
	hadamard := func(dim int) func(x *elemCtx, src []c17.Scalar) ([]c17.Scalar, string) {
		return func(x *elemCtx, src []c17.Scalar) ([]c17.Scalar, string) {
			amt, _, ok := vecParam(x, 0, dim)
			if !ok {
				return nil, "no vector parameter to scale by"
			}
			out := make([]c17.Scalar, dim)
			for i := range out {
				out[i] = e.Mul(src[i], amt[i])
			}
			return out, ""
		}
	}
	scaleAbout := func(dim int) func(x *elemCtx, src []c17.Scalar) ([]c17.Scalar, string) {
		return func(x *elemCtx, src []c17.Scalar) ([]c17.Scalar, string) {
			// parameters by name where present (origin, amount), else by position (origin first)
			var origin, amount []c17.Scalar
			if v, ok := x.param("origin"); ok {
				origin = c17.Leaves(v)
			}
			if v, ok := x.param("amount"); ok {
				amount = c17.Leaves(v)
			}
			if len(origin) != dim || len(amount) != dim {
				o, _, ok1 := vecParam(x, 0, dim)
				a, _, ok2 := vecParam(x, 1, dim)
				if !ok1 || !ok2 {
					return nil, "the operation does not take (origin, amount) vectors"
				}
				origin, amount = o, a
			}
			out := make([]c17.Scalar, dim)
			for i := range out {
				out[i] = e.Add(origin[i], e.Mul(e.Sub(src[i], origin[i]), amount[i]))
			}
			return out, ""
		}
	}
	laws := []elemLaw{
		{rel: "modeling/meshops", name: "TranslateAttribute3D", law: "out[i] = src[i] + amount", attr: 0, dim: 3, want: translate(3)},
		{rel: "modeling/meshops", name: "ScaleAttribute3D", law: "out[i] = origin + (src[i] − origin) ∘ amount", attr: 0, dim: 3, want: scaleAbout(3)},
		{rel: "modeling/meshops", name: "ScaleAttribute2D", law: "out[i] = origin + (src[i] − origin) ∘ amount (2D)", attr: 0, dim: 2, want: scaleAbout(2)},
		{rel: "modeling/meshops", name: "ScaleAttributeAlongNormal", law: "out[i] = src[i] + normal[i]·amount", attr: 0, dim: 3,
			want: func(x *elemCtx, src []c17.Scalar) ([]c17.Scalar, string) {
				_, nName, ok := x.paramOfType(1, isString)
				if !ok {
					return nil, "no second attribute-name parameter (the normal attribute)"
				}
				nr, ok := x.read(nName)
				if !ok {
					return nil, "!the stored element does not read the normal attribute array …[" + nName + "] at the loop index"
				}
				nl := c17.Leaves(nr.Elem)
				av, _, ok := x.paramOfType(0, isFloat)
				if !ok || len(nl) != 3 {
					return nil, "no scalar amount / normal is not a 3-vector"
				}
				amt := av.(c17.Scalar)
				out := make([]c17.Scalar, 3)
				for i := range out {
					out[i] = e.Add(src[i], e.Mul(nl[i], amt))
				}
				return out, ""
			}},
		{rel: "modeling/meshops", name: "RotateAttribute3D", law: "out[i] = Quaternion.Rotate(q, src[i])", attr: 0, dim: 3,
			want: viaFn(rotate, "Quaternion.Rotate", isNamedStruct("math/quaternion", "Quaternion"))},
		{rel: "modeling/meshops", name: "CenterFloat3Attribute", law: "out[i] = src[i] − (min_j src[j] + max_j src[j])/2 (component-wise, reductions over the same attribute)", attr: 0, dim: 3, custom: centerLaw},
		{rel: "modeling/meshops", name: "NormalizeAttribute3D", law: "out[i] = src[i] / max_j |src[j]|", attr: 0, dim: 3, custom: normalizeLaw},
		{rel: "modeling/meshops", name: "NormalizeAttribute2D", law: "out[i] = src[i] / max_j |src[j]| (2D)", attr: 0, dim: 2, custom: normalizeLaw},
		{rel: "modeling", name: "Mesh.Translate", law: "Position[i] = Position[i] + v", attr: -1, dim: 3, want: translate(3)},
		{rel: "modeling", name: "Mesh.Scale", law: "Position[i] = Position[i] ∘ amount", attr: -1, dim: 3, want: hadamard(3)},
		{rel: "modeling", name: "Mesh.Rotate", law: "Position[i] = Quaternion.Rotate(q, Position[i])", attr: -1, dim: 3,
			want: viaFn(rotate, "Quaternion.Rotate", isNamedStruct("math/quaternion", "Quaternion"))},
		{rel: "modeling", name: "Mesh.ApplyTRS", law: "Position[i] = TRS.Transform(transform, Position[i])", attr: -1, dim: 3,
			want: viaFn(transform, "TRS.Transform", isNamedStruct("math/trs", "TRS"))},
	}

	for _, lw := range laws {
		fn := P.Func(lw.rel, lw.name)
		if fn == nil || fn.Blocks == nil {
			R.Failf("ELEM-1: anchor %s.%s not found (renamed or removed): its stated map cannot be decided", lw.rel, lw.name)
			continue
		}
		construct := P.FuncName(fn)
		pos := P.Pos(fn.Pos())
		em, prob := s.ElementMap(fn)
		if prob != "" {
			R.Undecide("ELEM-1", construct, pos, "the engine cannot follow the function: "+prob)
			continue
		}
		if len(em.Violations) > 0 {
			R.Violate("ELEM-1", construct, pos, lw.law+": the new attribute array is not filled element by element over its full range: "+em.Violations[0], em.Violations...)
			continue
		}
		if len(em.Undecided) > 0 || em.Stored == nil {
			msg := "no element-wise store recognised"
			if len(em.Undecided) > 0 {
				msg = em.Undecided[0]
			}
			R.Undecide("ELEM-1", construct, pos, lw.law+": "+msg)
			continue
		}
		x := &elemCtx{c: c, s: s, fn: fn, em: em}
		// the attribute that is replaced and the attribute that is read
		key := strconv.Quote(posName)
		if lw.attr >= 0 {
			_, nm, ok := x.paramOfType(lw.attr, isString)
			if !ok {
				R.Undecide("ELEM-1", construct, pos, "the operation has no attribute-name parameter")
				continue
			}
			key = nm
		}
		if em.AttrKey != key {
			R.Violate("ELEM-1", construct, pos, fmt.Sprintf("%s: the map is written to attribute %s, the operation names %s", lw.law, em.AttrKey, key))
			continue
		}
		rd, ok := x.read(key)
		if !ok {
			var arrs []string
			for _, r := range em.Reads {
				arrs = append(arrs, r.Array)
			}
			R.Violate("ELEM-1", construct, pos, fmt.Sprintf("%s: the stored element does not read element [%s] of attribute %s (it reads: %s)", lw.law, em.Index, key, strings.Join(arrs, ", ")))
			continue
		}
		x.primary = rd
		src := c17.Leaves(rd.Elem)
		got := c17.Leaves(em.Stored)
		labels := c17.LeafLabels(em.Stored)
		if len(src) != lw.dim || len(got) != lw.dim {
			R.Undecide("ELEM-1", construct, pos, fmt.Sprintf("%s: source element has %d components, stored element %d, expected %d", lw.law, len(src), len(got), lw.dim))
			continue
		}
		baseFacts := []string{lw.law, "element read: " + rd.Array + "[" + em.Index + "]", "written through Mesh." + em.Setter + "(" + em.AttrKey + ", …)"}
		if lw.custom != nil {
			facts, viol, und := lw.custom(x, src, got)
			switch {
			case viol != "":
				R.Violate("ELEM-1", construct, pos, lw.law+" fails: "+viol, facts...)
			case und != "":
				R.Undecide("ELEM-1", construct, pos, lw.law+": "+und)
			default:
				R.Hold("ELEM-1", construct, pos, append(baseFacts, facts...)...)
			}
			continue
		}
		want, prob := lw.want(x, src)
		if strings.HasPrefix(prob, "!") {
			R.Violate("ELEM-1", construct, pos, lw.law+" fails: "+prob[1:])
			continue
		}
		if prob != "" {
			R.Undecide("ELEM-1", construct, pos, lw.law+": "+prob)
			continue
		}
		if len(want) != len(got) {
			R.Undecide("ELEM-1", construct, pos, fmt.Sprintf("%s: the law has %d components, the stored element %d", lw.law, len(want), len(got)))
			continue
		}
		var bad []string
		for i := range got {
			if !s.Equal(got[i], want[i]) {
				bad = append(bad, fmt.Sprintf("%s: code computes %s; the law requires %s", labels[i], s.Show(got[i], 8), s.Show(want[i], 8)))
			}
		}
		if len(bad) > 0 {
			R.Violate("ELEM-1", construct, pos, fmt.Sprintf("%s fails in %d of %d components; e.g. %s", lw.law, len(bad), len(got), bad[0]), bad...)
			continue
		}
		R.Hold("ELEM-1", construct, pos, append(baseFacts, short(fmt.Sprintf("%d components equal as polynomial identities; e.g. %s = %s", len(got), labels[0], s.Show(got[0], 4))))...)
	}
	R.Floor("ELEM-1", 6)
	areaLaws(c, s)
}

func short(s string) string {
	if len(s) > 150 {
		return s[:150] + "…"
	}
	return s
}

// viaFn: the law is "apply the underlying point transform fn(parameter, src[i])".
func viaFn(fn *ssa.Function, what string, pred func(types.Type) bool) func(x *elemCtx, src []c17.Scalar) ([]c17.Scalar, string) {
	return func(x *elemCtx, src []c17.Scalar) ([]c17.Scalar, string) {
		if fn == nil || fn.Blocks == nil {
			return nil, "anchor " + what + " not found"
		}
		p, _, ok := x.paramOfType(0, pred)
		if !ok {
			return nil, "no parameter to apply " + what + " with"
		}
		res, prob := x.s.Call(fn, p, x.primary.Elem)
		if prob != "" {
			return nil, what + ": " + prob
		}
		return c17.Leaves(res), ""
	}
}

// loopSymbols splits the symbols of a into array-element symbols and loop-carried symbols.
func loopSymbols(s *c17.Session, a c17.Scalar) (elems, loops, others []c17.SymDesc) {
	for _, d := range s.Symbols(a) {
		switch d.Kind {
		case c17.SymElem:
			elems = append(elems, d)
		case c17.SymLoop:
			loops = append(loops, d)
		default:
			others = append(others, d)
		}
	}
	return
}

// centerLaw: out[i] − src[i] = −(lo + hi)/2 with lo/hi the running component-wise min/max over
// every element of the same attribute (started at ±Inf).
func centerLaw(x *elemCtx, src, got []c17.Scalar) (facts []string, violation, undecided string) {
	s := x.s
	e := s.Engine()
	for c := range got {
		d := e.Sub(got[c], src[c])
		elems, loops, others := loopSymbols(s, d)
		if len(elems) > 0 {
			return nil, fmt.Sprintf("component %d: out[i] − src[i] = %s still depends on an array element (%s): the shift is not the same for every element", c, s.Show(d, 6), elems[0].Name), ""
		}
		if len(others) > 0 {
			return nil, "", fmt.Sprintf("component %d: the shift %s depends on %s", c, s.Show(d, 6), others[0].Name)
		}
		if len(loops) == 0 {
			return nil, fmt.Sprintf("component %d: the shift is the constant %s, not the centre of the attribute's bounds", c, s.Show(d, 4)), ""
		}
		var lo, hi *c17.SymDesc
		for i := range loops {
			red, prob := s.ReductionOf(x.em, loops[i])
			if prob != "" {
				return nil, "", fmt.Sprintf("component %d: the shift uses %s, whose accumulation the engine cannot follow (%s); only 'same shift for every element' was decided", c, loops[i].Name, prob)
			}
			if red.Problem != "" {
				return nil, fmt.Sprintf("component %d: the bound %s is not accumulated over every element: %s", c, loops[i].Name, red.Problem), ""
			}
			if len(red.Reads) != 1 || red.Reads[0].Array != x.primary.Array {
				arr := "nothing"
				if len(red.Reads) > 0 {
					arr = red.Reads[0].Array
				}
				return nil, fmt.Sprintf("component %d: the bound %s is accumulated over %s, not over the attribute being centred (%s)", c, loops[i].Name, arr, x.primary.Array), ""
			}
			el := c17.Leaves(red.Reads[0].Elem)
			if c >= len(el) {
				return nil, "", "element shape"
			}
			isMin := s.Equal(red.Next, e.MinMax("min", []c17.Scalar{red.Self, el[c]}))
			isMax := s.Equal(red.Next, e.MinMax("max", []c17.Scalar{red.Self, el[c]}))
			switch {
			case isMin:
				if !s.Equal(red.Init, s.Inf(1)) {
					return nil, fmt.Sprintf("component %d: the running minimum starts at %s, not +Inf", c, s.Show(red.Init, 3)), ""
				}
				lo = &loops[i]
			case isMax:
				if !s.Equal(red.Init, s.Inf(-1)) {
					return nil, fmt.Sprintf("component %d: the running maximum starts at %s, not -Inf", c, s.Show(red.Init, 3)), ""
				}
				hi = &loops[i]
			default:
				return nil, fmt.Sprintf("component %d: %s is updated to %s, which is neither min nor max of itself and component %d of the element read", c, loops[i].Name, s.Show(red.Next, 6), c), ""
			}
		}
		if lo == nil || hi == nil || len(loops) != 2 {
			return nil, fmt.Sprintf("component %d: the shift %s is not built from one running minimum and one running maximum", c, s.Show(d, 6)), ""
		}
		want := e.Mul(e.Mul(e.Add(s.SymbolScalar(*lo), s.SymbolScalar(*hi)), s.Half()), s.Const(-1))
		if !s.Equal(d, want) {
			return nil, fmt.Sprintf("component %d: out[i] − src[i] = %s; the law requires −(min+max)/2 = %s", c, s.Show(d, 6), s.Show(want, 6)), ""
		}
		if c == 0 {
			facts = append(facts, "out[i] − src[i] = "+s.Show(d, 6)+" (free of array elements)", "min/max are full-range reductions over "+x.primary.Array+" started at ±Inf")
		}
	}
	return facts, "", ""
}

// normalizeLaw: out[i]·L = src[i] with L the running maximum of |src[j]| over every element of the same attribute.
func normalizeLaw(x *elemCtx, src, got []c17.Scalar) (facts []string, violation, undecided string) {
	s := x.s
	e := s.Engine()
	var L *c17.SymDesc
	for c := range got {
		_, loops, others := loopSymbols(s, got[c])
		for _, o := range others {
			if o.Kind != c17.SymLen {
				return nil, "", fmt.Sprintf("component %d: the stored element depends on %s", c, o.Name)
			}
		}
		if len(loops) != 1 {
			if len(loops) == 0 {
				return nil, fmt.Sprintf("component %d: the element is not divided by an accumulated length (it is %s)", c, s.Show(got[c], 6)), ""
			}
			return nil, "", fmt.Sprintf("component %d: the stored element uses %d loop-carried values", c, len(loops))
		}
		if L == nil {
			L = &loops[0]
		} else if L.Name != loops[0].Name {
			return nil, fmt.Sprintf("components are divided by different quantities (%s, %s)", L.Name, loops[0].Name), ""
		}
		if !s.Equal(e.Mul(got[c], s.SymbolScalar(*L)), src[c]) {
			return nil, fmt.Sprintf("component %d: code computes %s; the law requires src[i]/L = %s/%s", c, s.Show(got[c], 6), s.Show(src[c], 3), L.Name), ""
		}
	}
	red, prob := s.ReductionOf(x.em, *L)
	if prob != "" {
		return []string{"out[i] = src[i]/L with L independent of i; how L is accumulated could not be followed: " + prob}, "", ""
	}
	if red.Problem != "" {
		return nil, "the length L is not accumulated over every element: " + red.Problem, ""
	}
	if len(red.Reads) != 1 || red.Reads[0].Array != x.primary.Array {
		arr := "nothing"
		if len(red.Reads) > 0 {
			arr = red.Reads[0].Array
		}
		return nil, "the length L is accumulated over " + arr + ", not over the attribute being normalised (" + x.primary.Array + ")", ""
	}
	el := c17.Leaves(red.Reads[0].Elem)
	sum := s.Const(0)
	for _, v := range el {
		sum = e.Add(sum, e.Mul(v, v))
	}
	want := e.MinMax("max", []c17.Scalar{red.Self, e.Sqrt(sum)})
	if !s.Equal(red.Next, want) {
		return nil, fmt.Sprintf("L is updated to %s; the law requires max(L, |src[j]|) = %s", s.Show(red.Next, 6), s.Show(want, 6)), ""
	}
	if sign, isC := s.ConstSign(red.Init); !isC || sign > 0 {
		return nil, "the running maximum length starts at " + s.Show(red.Init, 3) + " (must be a constant ≤ 0 so that the first element replaces it)", ""
	}
	return []string{"out[i]·L = src[i] for every component, L = " + L.Name, "L ← max(L, sqrt(Σ src[j]²)) over every j of " + x.primary.Array + ", started at " + short(s.Show(red.Init, 2))[:24] + "… (a constant ≤ 0)"}, "", ""
}
