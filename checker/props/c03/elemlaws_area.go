package c03

// AREA-1: the keep condition of meshops.RemoveNullFaces3D is the contract
//
//	keep triangle t  ⇔  area(t) > minArea  (and area(t) is not NaN),
//	area(t) = ½·√(c·c),  c = (P2−P1)×(P3−P1),  Pk = attribute[idk],  (id1,id2,id3) the ids emitted for t
//
// decided path by path on one symbolic iteration of the face loop (C17's engine, Tri / Area3D /
// iterator helpers inlined, sqrt uninterpreted with sqrt(p)² = p):
//
//   - every iteration path that emits a triangle carries exactly one condition on minArea; solved for
//     minArea it reads  Q > minArea  (strict, minArea on the smaller side) with Q = ½·√(c·c) as an
//     identity, the corners taken from the attribute parameter at the three ids the path emits, in
//     that order (any corner as origin / either orientation gives the same c·c); no NaN test is
//     positive on it (the NaN guard only ever drops);
//   - every iteration path that emits nothing carries the negation of that condition or a positive
//     NaN test: nothing else drops a face.
//
// Index space of the ids (indices[3t+k]) and the order of emission are C03's IDX / PERM rules.
// Squared forms (4·area² against minArea²) are not linear in minArea: UNDECIDED.

import (
	"fmt"
	"go/token"
	"strings"

	"golang.org/x/tools/go/ssa"

	"polycheck/props"
	"polycheck/props/c17"
)

func areaLaws(c *props.Ctx, s *c17.Session) {
	P := c.P
	R := c.R
	fn := P.Func("modeling/meshops", "RemoveNullFaces3D")
	if fn == nil || fn.Blocks == nil {
		R.Failf("AREA-1: anchor modeling/meshops.RemoveNullFaces3D not found (renamed or removed): its keep condition cannot be decided")
		return
	}
	construct := P.FuncName(fn)
	pos := P.Pos(fn.Pos())
	R.Floor("AREA-1", 1)
	e := s.Engine()
	// parameters: mesh, attribute name, minimal area
	var attrName string
	var minArea c17.Scalar
	haveMin := false
	args := make([]c17.Val, len(fn.Params))
	for i, p := range fn.Params {
		args[i] = e.Sym(p.Name(), p.Type())
		switch {
		case isString(p.Type()) && attrName == "":
			attrName = p.Name()
		case isFloat(p.Type()) && !haveMin:
			minArea, haveMin = args[i].(c17.Scalar), true
		}
	}
	if attrName == "" || !haveMin {
		R.Undecide("AREA-1", construct, pos, "the operation no longer takes (mesh, attribute name, minimal area)")
		return
	}
	minSyms := s.Symbols(minArea)
	if len(minSyms) != 1 {
		R.Undecide("AREA-1", construct, pos, "internal: the minimal area is not one symbol")
		return
	}
	minSym := minSyms[0]
	// what happens after the loop is not needed: keep the vertex clean-up out of the interpretation
	prev := e.Opaque
	e.Opaque = func(f *ssa.Function) bool {
		if f.Name() == "RemovedUnreferencedVertices" || f.Name() == "SetIndices" {
			return true
		}
		return prev != nil && prev(f)
	}
	res := e.Run(fn, args)
	e.Opaque = prev
	if res.Err != "" {
		R.Undecide("AREA-1", construct, pos, "the engine cannot follow the function: "+res.Err)
		return
	}
	type iterPath struct {
		p       *c17.Path
		emitted []c17.Scalar
	}
	var keeps, drops []iterPath
	loopID := ""
	for _, p := range res.Paths {
		if p.Kind == c17.EndAbort {
			// an aborted path inside the face loop would hide iterations
			if len(p.Loops) > 0 {
				R.Undecide("AREA-1", construct, pos, "the engine cannot follow an iteration of the face loop: "+p.Abort)
				return
			}
			continue
		}
		if p.Kind != c17.EndLoopBack || p.Iter == nil || p.Iter.Entry == nil {
			continue
		}
		var emitted []c17.Scalar
		for _, ev := range p.Events {
			if ev.Loop == nil || ev.Loop.ID != p.Iter.Entry.ID {
				continue
			}
			switch ev.Kind {
			case c17.EvAppend:
				for _, a := range ev.Args {
					if sc, ok := a.(c17.Scalar); ok {
						emitted = append(emitted, sc)
					}
				}
			case c17.EvBulkWrite:
				if ev.Callee == "append" {
					R.Undecide("AREA-1", construct, pos, "the kept ids are appended in a form the engine does not follow (append of a slice)")
					return
				}
			}
		}
		if loopID == "" {
			loopID = p.Iter.Entry.ID
		}
		if p.Iter.Entry.ID != loopID {
			continue // another loop (not the face loop seen first)
		}
		if len(emitted) > 0 {
			keeps = append(keeps, iterPath{p, emitted})
		} else {
			drops = append(drops, iterPath{p, nil})
		}
	}
	if len(keeps) == 0 {
		R.Undecide("AREA-1", construct, pos, "no iteration of a face loop that emits a triangle could be followed")
		return
	}
	isNaNAtom := func(a c17.Atom) (positive, yes bool) {
		switch {
		case strings.HasPrefix(a.Key(), "o:math.IsNaN("):
			return true, true
		case strings.HasPrefix(a.Key(), "!o:math.IsNaN("):
			return false, true
		}
		return false, false
	}
	half := s.Half()
	var refKey, refNeg string
	var qRefShown string
	for _, kp := range keeps {
		if len(kp.emitted) != 3 {
			R.Violate("AREA-1", construct, pos, fmt.Sprintf("a kept face emits %d ids, not the three corners of one triangle", len(kp.emitted)))
			return
		}
		// corners of the emitted triangle, from the attribute parameter
		var corner [3][]c17.Scalar
		arr := ""
		for j, id := range kp.emitted {
			v, where := s.ElemAt(kp.p, "["+attrName+"]", id)
			if v == nil {
				R.Violate("AREA-1", construct, pos, "the face test does not read attribute `"+attrName+"` at the ids it emits: "+where)
				return
			}
			arr = where
			corner[j] = c17.Leaves(v)
			if len(corner[j]) != 3 {
				R.Undecide("AREA-1", construct, pos, "the attribute elements are not 3-component vectors")
				return
			}
		}
		sub := func(a, b []c17.Scalar) []c17.Scalar {
			return []c17.Scalar{e.Sub(a[0], b[0]), e.Sub(a[1], b[1]), e.Sub(a[2], b[2])}
		}
		u, w := sub(corner[1], corner[0]), sub(corner[2], corner[0])
		cx := e.Sub(e.Mul(u[1], w[2]), e.Mul(u[2], w[1]))
		cy := e.Sub(e.Mul(u[2], w[0]), e.Mul(u[0], w[2]))
		cz := e.Sub(e.Mul(u[0], w[1]), e.Mul(u[1], w[0]))
		cc := e.Add(e.Add(e.Mul(cx, cx), e.Mul(cy, cy)), e.Mul(cz, cz))
		norm := e.Sqrt(cc)
		qRef := e.Mul(half, norm)
		ref := e.CmpAtom(token.GTR, qRef, minArea)
		if isC, _ := ref.Const(); isC {
			R.Undecide("AREA-1", construct, pos, "internal: the reference condition is constant")
			return
		}
		refKey, refNeg = ref.Atom().Key(), ref.Atom().NegKey()
		qRefShown = s.Show(qRef, 3)
		// the conditions of this keeping path
		nMin := 0
		for _, a := range kp.p.Conds[kp.p.Iter.Entry.CondIndex:] {
			if pos1, isNaN := isNaNAtom(a); isNaN {
				if pos1 {
					R.Violate("AREA-1", construct, pos, "a face is kept on a path where a NaN test succeeded ("+short(a.Key())+"): the NaN guard must only drop")
					return
				}
				continue
			}
			if !s.AtomMentions(a, minSym) {
				continue
			}
			nMin++
			if a.Key() == refKey {
				continue
			}
			q, symOnRight, strict, ok := s.LinearIn(a, minSym)
			if !ok {
				R.Undecide("AREA-1", construct, pos, "the condition on "+minSym.Name+" under which a face is kept is not linear in it (squared form?): "+short(a.Key()))
				return
			}
			switch {
			case !symOnRight:
				R.Violate("AREA-1", construct, pos, fmt.Sprintf("a face is kept when %s %s %s: the comparison is flipped (the contract keeps a face when its area EXCEEDS %s)", minSym.Name, map[bool]string{true: ">", false: ">="}[strict], short(s.Show(q, 3)), minSym.Name))
			case !s.Equal(q, qRef):
				what := "the compared quantity is " + short(s.Show(q, 3)) + "; the contract is the area ½·|c| = " + short(qRefShown) + ", c = (P2−P1)×(P3−P1) over " + arr
				if s.Equal(q, norm) {
					what = "the compared quantity is |c| = " + short(s.Show(q, 3)) + ", the contract is ½|c| (c = (P2−P1)×(P3−P1) over " + arr + "): the factor ½ is lost, so the threshold is effectively halved"
				}
				R.Violate("AREA-1", construct, pos, what)
			case !strict:
				R.Violate("AREA-1", construct, pos, "a face is kept when its area >= "+minSym.Name+": the contract keeps only area > "+minSym.Name+" (a face of exactly the minimal area is degenerate by contract)")
			default:
				R.Undecide("AREA-1", construct, pos, "the keep condition "+short(a.Key())+" is equivalent in form to the contract but not canonically equal")
			}
			return
		}
		if nMin == 0 {
			R.Violate("AREA-1", construct, pos, "a face is kept on a path that never compares its area with "+minSym.Name)
			return
		}
		if nMin > 1 {
			R.Undecide("AREA-1", construct, pos, "more than one condition on "+minSym.Name+" governs a kept face")
			return
		}
	}
	// dropping paths: only ¬(area > minArea) or a positive NaN test may drop
	for _, dp := range drops {
		reason := false
		for _, a := range dp.p.Conds[dp.p.Iter.Entry.CondIndex:] {
			if pos1, isNaN := isNaNAtom(a); isNaN && pos1 {
				reason = true
			}
			if a.Key() == refNeg {
				reason = true
			}
		}
		if !reason {
			var cs []string
			for _, a := range dp.p.Conds[dp.p.Iter.Entry.CondIndex:] {
				cs = append(cs, short(a.Key()))
			}
			R.Violate("AREA-1", construct, pos, "a face is dropped on a path where neither `area > "+minSym.Name+"` failed nor a NaN test succeeded (conditions: "+strings.Join(cs, " ∧ ")+"): the operation drops more than its contract names")
			return
		}
	}
	R.Hold("AREA-1", construct, pos,
		"keep ⇔ ½·√(c·c) > "+minSym.Name+" (strict), c = (P2−P1)×(P3−P1), Pk = "+attrName+"[emitted id k]",
		fmt.Sprintf("%d keeping and %d dropping iteration path(s); every keep carries exactly %s; every drop carries its negation or a positive NaN test", len(keeps), len(drops), short(refKey)),
		"area = "+short(qRefShown))
}
