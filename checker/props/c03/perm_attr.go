package c03

import (
	"fmt"
	"go/token"
	"go/types"
	"sort"
	"strings"

	"golang.org/x/tools/go/ssa"

	"polycheck/load"
	"polycheck/props"
	mc "polycheck/props/meshcommon"
	"polycheck/ssau"
)

// PERM-1: FlipTriangleWinding walks the index array triangle by triangle and writes, for each
// triangle, its three indices back into the same three slots, each read once and each slot
// written once, in an order that reverses the winding (an odd permutation).
func perm1(c *props.Ctx) {
	p := c.P
	fn := p.Func("modeling/meshops", "FlipTriangleWinding")
	if fn == nil {
		c.R.Failf("anchor meshops.FlipTriangleWinding not found")
		return
	}
	name := p.FuncName(fn)
	type pair struct{ slot, from int64 }
	var pairs []pair
	var base *ssa.Phi
	problems := []string{}
	ssau.AllInstrs(fn, func(in ssa.Instruction) {
		st, ok := in.(*ssa.Store)
		if !ok {
			return
		}
		ia, ok := st.Addr.(*ssa.IndexAddr)
		if !ok {
			return
		}
		if _, isSlice := ia.X.Type().Underlying().(*types.Slice); !isSlice {
			return
		}
		if b, ok := ia.X.Type().Underlying().(*types.Slice).Elem().Underlying().(*types.Basic); !ok || b.Kind() != types.Int {
			return
		}
		bs, so, ok1 := basePlus(ia.Index)
		call, isCall := st.Val.(*ssa.Call)
		if !ok1 || !isCall {
			problems = append(problems, "a store into the new index array is not of the form dst[base+c] = src.At(base+d)")
			return
		}
		o := ssau.CalleeObj(call)
		if o == nil || o.Name() != "At" || len(call.Call.Args) != 2 {
			problems = append(problems, "a stored value is not an element of the old index array")
			return
		}
		bf, fo, ok2 := basePlus(call.Call.Args[1])
		if !ok2 || bf != bs {
			problems = append(problems, "slot and source do not belong to the same triangle (different base)")
			return
		}
		if base != nil && base != bs {
			problems = append(problems, "stores use different loop counters")
		}
		base = bs
		pairs = append(pairs, pair{so, fo})
	})
	pos := p.Pos(fn.Pos())
	if len(problems) > 0 {
		c.R.Violate("PERM-1", name, pos, strings.Join(problems, "; "))
		return
	}
	sort.Slice(pairs, func(i, j int) bool { return pairs[i].slot < pairs[j].slot })
	desc := fmt.Sprint(pairs)
	if len(pairs) != 3 || pairs[0].slot != 0 || pairs[1].slot != 1 || pairs[2].slot != 2 {
		c.R.Violate("PERM-1", name, pos, "the three slots of a triangle are not each written exactly once: "+desc)
		return
	}
	seen := map[int64]bool{}
	for _, pr := range pairs {
		seen[pr.from] = true
	}
	if !(seen[0] && seen[1] && seen[2]) {
		c.R.Violate("PERM-1", name, pos, "the three indices of a triangle are not each read exactly once (a corner is duplicated / dropped): "+desc)
		return
	}
	// parity
	perm := []int64{pairs[0].from, pairs[1].from, pairs[2].from}
	inv := 0
	for i := 0; i < 3; i++ {
		for j := i + 1; j < 3; j++ {
			if perm[i] > perm[j] {
				inv++
			}
		}
	}
	if inv%2 == 0 {
		c.R.Violate("PERM-1", name, pos, "the permutation of the three corners is even (a rotation or the identity): the winding is not flipped: "+desc)
		return
	}
	// stride and range of the loop
	stepOK, startOK := false, false
	if base != nil {
		for _, e := range base.Edges {
			if k, ok := ssau.ConstInt(e); ok && k == 0 {
				startOK = true
			}
			if b, ok := e.(*ssa.BinOp); ok && b.Op == token.ADD && b.X == base {
				if k, ok := ssau.ConstInt(b.Y); ok && k == 3 {
					stepOK = true
				}
			}
		}
	}
	if !stepOK || !startOK {
		c.R.Violate("PERM-1", name, pos, "the loop does not visit every triangle (start 0, stride 3)")
		return
	}
	c.R.Hold("PERM-1", name, pos, "slots/sources "+desc+": odd permutation within one triangle, stride 3 from 0")
}

// basePlus: v = phi or phi + c.
func basePlus(v ssa.Value) (*ssa.Phi, int64, bool) {
	if phi, ok := v.(*ssa.Phi); ok {
		return phi, 0, true
	}
	if b, ok := v.(*ssa.BinOp); ok && b.Op == token.ADD {
		if phi, ok := b.X.(*ssa.Phi); ok {
			if k, ok := ssau.ConstInt(b.Y); ok {
				return phi, k, true
			}
		}
	}
	return nil, 0, false
}

// ATTR-1: every attribute-name (string) parameter of an operation on a mesh reaches a data access —
// a map lookup/update key or a string argument of a modeling / meshops call that returns data
// (not merely a validation returning error/bool).
func attr1(c *props.Ctx, fns []*ssa.Function) {
	p := c.P
	n := 0
	for _, fn := range fns {
		if fn.Parent() != nil || p.IsControl(fn.Pos()) || fn.Synthetic != "" {
			continue
		}
		rel := p.RelFile(fn.Pos())
		if !(rel == "modeling/mesh.go" || (strings.HasPrefix(rel, "modeling/meshops/") && strings.Count(rel, "/") == 2)) {
			continue // C03 anchors modeling/mesh.go and the files directly in modeling/meshops
		}
		if isValidator(fn) {
			continue // Require*/Has* style checks: their result is the validation itself
		}
		hasMesh := false
		for _, prm := range fn.Params {
			if ssau.IsNamed(prm.Type(), mc.ModelingPath, "Mesh") {
				hasMesh = true
			}
		}
		if !hasMesh {
			continue
		}
		for _, prm := range fn.Params {
			b, ok := prm.Type().Underlying().(*types.Basic)
			if !ok || b.Kind() != types.String {
				continue
			}
			n++
			construct := p.FuncName(fn) + "(" + prm.Name() + ")"
			if how := reachesDataAccess(prm); how != "" {
				c.R.Hold("ATTR-1", construct, p.Pos(prm.Pos()), "reaches "+how)
			} else {
				c.R.Violate("ATTR-1", construct, p.Pos(prm.Pos()), "attribute-name parameter "+prm.Name()+" never reaches a data access: some other (fixed) attribute is consulted instead")
			}
		}
	}
	c.R.Extra["attribute_name_parameters"] = n
	c.R.Floor("ATTR-1", 30)
}

// isValidator: the function returns nothing but error / bool values.
func isValidator(fn *ssa.Function) bool {
	res := fn.Signature.Results()
	for i := 0; i < res.Len(); i++ {
		t := res.At(i).Type()
		if types.Identical(t, types.Universe.Lookup("error").Type()) {
			continue
		}
		if b, ok := t.Underlying().(*types.Basic); ok && b.Kind() == types.Bool {
			continue
		}
		return false
	}
	return true
}

func reachesDataAccess(start ssa.Value) string {
	seen := map[ssa.Value]bool{}
	work := []ssa.Value{start}
	for len(work) > 0 {
		v := work[len(work)-1]
		work = work[:len(work)-1]
		if seen[v] {
			continue
		}
		seen[v] = true
		for _, r := range ssau.Refs(v) {
			switch x := r.(type) {
			case *ssa.Lookup:
				if x.Index == v {
					return "a map lookup key"
				}
			case *ssa.MapUpdate:
				if x.Key == v {
					return "a map update key"
				}
			case *ssa.Phi:
				work = append(work, x)
			case *ssa.ChangeType:
				work = append(work, x)
			case *ssa.MakeInterface:
				work = append(work, x)
			case *ssa.Store:
				if x.Val == v {
					if a, ok := x.Addr.(*ssa.Alloc); ok {
						for _, rr := range ssau.Refs(a) {
							if u, ok := rr.(*ssa.UnOp); ok && u.Op == token.MUL {
								work = append(work, u)
							}
							if mcl, ok := rr.(*ssa.MakeClosure); ok {
								fnc := mcl.Fn.(*ssa.Function)
								for i, b := range mcl.Bindings {
									if b == a && i < len(fnc.FreeVars) {
										for _, fr := range ssau.Refs(fnc.FreeVars[i]) {
											if u, ok := fr.(*ssa.UnOp); ok {
												work = append(work, u)
											}
										}
									}
								}
							}
						}
					}
				}
			case *ssa.MakeClosure:
				fnc := x.Fn.(*ssa.Function)
				for i, b := range x.Bindings {
					if b == v && i < len(fnc.FreeVars) {
						work = append(work, fnc.FreeVars[i])
					}
				}
			case *ssa.UnOp:
				if x.Op == token.MUL {
					work = append(work, x)
				}
			case ssa.CallInstruction:
				o := ssau.CalleeObj(x)
				if o == nil || o.Pkg() == nil || !strings.HasPrefix(o.Pkg().Path(), load.Module+"/modeling") {
					continue
				}
				res := o.Type().(*types.Signature).Results()
				data := false
				for i := 0; i < res.Len(); i++ {
					t := res.At(i).Type()
					if types.Identical(t, types.Universe.Lookup("error").Type()) {
						continue
					}
					if b, ok := t.Underlying().(*types.Basic); ok && b.Kind() == types.Bool {
						continue
					}
					data = true
				}
				if data {
					return "a string argument of " + o.Name() + ", which returns data"
				}
			}
		}
	}
	return ""
}
