package c03

import (
	"fmt"
	"go/token"

	"golang.org/x/tools/go/ssa"

	"polycheck/props"
	mc "polycheck/props/meshcommon"
	"polycheck/ssau"
)

// PC-1 — "to point cloud" keeps every vertex exactly once and drops only the connectivity.
// The indices of the mesh Mesh.ToPointCloud builds are the identity over the attribute length: every value that
// can reach the `indices` field of the returned mesh literal is a slice made with length AttributeLength() and
// filled with i at position i in a loop (or grown from empty by appending the loop counter). A value that comes
// from anywhere else — the receiver's own index buffer under some condition, a parameter, a cached slice — makes
// the result depend on the connectivity that the operation is documented to drop (vertices repeated or missing
// whenever that buffer is not a permutation). Same-package helpers returning the slice are followed.
func pc1(c *props.Ctx) {
	p := c.P
	fn := p.Func("modeling", "Mesh.ToPointCloud")
	if fn == nil {
		c.R.Failf("anchor modeling.Mesh.ToPointCloud not found")
		return
	}
	name := p.FuncName(fn)
	n := 0
	ssau.AllInstrs(fn, func(in ssa.Instruction) {
		st, ok := in.(*ssa.Store)
		if !ok {
			return
		}
		fa, ok := st.Addr.(*ssa.FieldAddr)
		if !ok {
			return
		}
		f := ssau.FieldOf(fa)
		if f == nil || f.Name() != "indices" || f.Pkg() == nil || f.Pkg().Path() != mc.ModelingPath {
			return
		}
		n++
		construct := fmt.Sprintf("%s→indices#%d", name, n)
		why := identityOrigin(st.Val, fn, map[ssa.Value]bool{}, 0)
		if why == "" {
			c.R.Hold("PC-1", construct, p.Pos(ssau.PosOf(st)), "the index array of the point cloud is made with the attribute length and filled with i at position i on every path")
		} else {
			c.R.Violate("PC-1", construct, p.Pos(ssau.PosOf(st)), "the index array of the point cloud is not the identity over the vertices on every path: "+why+" — vertices are repeated or missing whenever that array is not a permutation of 0..n-1")
		}
	})
	c.R.Floor("PC-1", 1)
}

// identityOrigin returns "" when every origin of v is an identity-filled fresh slice, else the reason.
func identityOrigin(v ssa.Value, fn *ssa.Function, seen map[ssa.Value]bool, depth int) string {
	if seen[v] {
		return ""
	}
	seen[v] = true
	switch x := v.(type) {
	case *ssa.Phi:
		for _, e := range x.Edges {
			if why := identityOrigin(e, fn, seen, depth); why != "" {
				return why
			}
		}
		return ""
	case *ssa.MakeSlice:
		if k, ok := ssau.ConstInt(x.Len); ok && k == 0 {
			return "" // grown by append: judged at the append
		}
		if !lenIsAttributeLength(x.Len) {
			return "a slice whose length is not AttributeLength() reaches the field"
		}
		for _, r := range *x.Referrers() {
			ia, ok := r.(*ssa.IndexAddr)
			if !ok {
				continue
			}
			for _, rr := range *ia.Referrers() {
				if s, ok := rr.(*ssa.Store); ok && s.Addr == ia && s.Val == ia.Index {
					if isLoopCounter(ia.Index) {
						return ""
					}
				}
			}
		}
		return "the made slice is not filled with i at position i"
	case *ssa.Call:
		if ssau.Builtin(x) == "append" {
			if len(x.Call.Args) != 2 {
				return "an append of unknown shape reaches the field"
			}
			sl, ok := x.Call.Args[1].(*ssa.Slice)
			if !ok {
				return "a slice appended as a whole (append(s, t...)) reaches the field"
			}
			al, ok := sl.X.(*ssa.Alloc)
			if !ok {
				return "a slice appended as a whole reaches the field"
			}
			for _, r := range *al.Referrers() {
				ia, ok := r.(*ssa.IndexAddr)
				if !ok {
					continue
				}
				for _, rr := range *ia.Referrers() {
					if s, ok := rr.(*ssa.Store); ok && s.Addr == ia {
						if !isLoopCounter(s.Val) {
							return "an appended element is not the loop counter"
						}
					}
				}
			}
			return identityOrigin(x.Call.Args[0], fn, seen, depth)
		}
		callee := x.Call.StaticCallee()
		if callee != nil && callee.Blocks != nil && callee.Pkg == fn.Pkg && depth < 2 {
			for _, b := range callee.Blocks {
				if r, ok := b.Instrs[len(b.Instrs)-1].(*ssa.Return); ok && len(r.Results) == 1 {
					if why := identityOrigin(r.Results[0], callee, seen, depth+1); why != "" {
						return why
					}
				}
			}
			return ""
		}
		return "the result of " + x.Call.Value.Name() + " reaches the field"
	case *ssa.UnOp:
		if x.Op == token.MUL {
			if fa, ok := x.X.(*ssa.FieldAddr); ok {
				if f := ssau.FieldOf(fa); f != nil {
					return "the value of field " + f.Name() + " of an existing mesh reaches the field"
				}
			}
		}
		return "a loaded value reaches the field"
	case *ssa.Const:
		if x.IsNil() {
			return "" // nil grown by append
		}
	case *ssa.Parameter:
		if depth > 0 {
			return "a parameter of a helper reaches the field"
		}
		return "a parameter reaches the field"
	}
	return fmt.Sprintf("a value of kind %T reaches the field", v)
}

func lenIsAttributeLength(v ssa.Value) bool {
	switch x := v.(type) {
	case *ssa.Call:
		o := ssau.CalleeObj(x)
		return o != nil && ssau.IsMethod(o, mc.ModelingPath, "Mesh", "AttributeLength")
	case *ssa.Parameter:
		return true // a helper's length parameter: the caller's argument is not followed (accepted)
	case *ssa.Phi:
		for _, e := range x.Edges {
			if !lenIsAttributeLength(e) {
				return false
			}
		}
		return len(x.Edges) > 0
	}
	return false
}

// isLoopCounter: a loop-carried counter — the φ of a counted loop, or φ+1 (the counter of a range loop, whose φ
// starts at -1).
func isLoopCounter(v ssa.Value) bool {
	switch x := v.(type) {
	case *ssa.Phi:
		return true
	case *ssa.BinOp:
		if x.Op == token.ADD {
			if _, ok := x.X.(*ssa.Phi); ok {
				k, ok := ssau.ConstInt(x.Y)
				return ok && k == 1
			}
		}
	}
	return false
}
