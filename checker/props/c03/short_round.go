package c03

import (
	"go/token"
	"go/types"
	"strings"

	"golang.org/x/tools/go/ssa"

	"polycheck/props"
	mc "polycheck/props/meshcommon"
	"polycheck/ssau"
)

// SHORT-1 — the layout operations rebuild their result. Returning the input mesh unchanged is a
// shortcut that is only correct when there is provably nothing to do; the one condition accepted
// without knowing the operation's semantics is emptiness (a Len()/len()/PrimitiveCount()/
// AttributeLength() compared with 0). Any other early "return input" — e.g. an "already unwelded"
// test that compares the index count with the vertex count — is reported.
var short1Table = [][2]string{
	{"modeling/meshops", "Unweld"}, {"modeling/meshops", "FlipTriangleWinding"}, {"modeling/meshops", "RemovedUnreferencedVertices"},
	{"modeling", "Mesh.WeldByFloat3Attribute"}, {"modeling/meshops", "FilterFloat1"}, {"modeling/meshops", "FilterFloat2"},
	{"modeling/meshops", "FilterFloat3"}, {"modeling/meshops", "FilterFloat4"}, {"modeling/meshops", "CropFloat3Attribute"},
}

func short1(c *props.Ctx) {
	p := c.P
	for _, e := range short1Table {
		fn := p.Func(e[0], e[1])
		if fn == nil {
			c.R.Failf("anchor %s.%s (layout operation) not found", e[0], e[1])
			continue
		}
		name := p.FuncName(fn)
		var meshParam *ssa.Parameter
		for _, prm := range fn.Params {
			if ssau.IsNamed(prm.Type(), mc.ModelingPath, "Mesh") {
				meshParam = prm
				break
			}
		}
		if meshParam == nil {
			c.R.Failf("anchor %s has no mesh parameter", name)
			continue
		}
		bad := ""
		var badAt ssa.Instruction
		nret := 0
		ssau.AllInstrs(fn, func(in ssa.Instruction) {
			ret, ok := in.(*ssa.Return)
			if !ok || len(ret.Results) == 0 {
				return
			}
			nret++
			if !isUnchangedParam(ret.Results[0], meshParam) {
				return
			}
			if why := guardedByEmptiness(ret.Block()); why != "" {
				return
			}
			bad = "returns its input mesh unchanged under a condition other than emptiness: the operation is skipped for inputs it should rebuild"
			badAt = ret
		})
		if bad != "" {
			c.R.Violate("SHORT-1", name, p.Pos(ssau.PosOf(badAt)), bad)
		} else {
			c.R.Hold("SHORT-1", name, p.Pos(fn.Pos()), itoa(nret)+" returns, none hands back the unchanged input (except for empty inputs)")
		}
	}
	c.R.Floor("SHORT-1", 8)
}

func itoa(n int) string {
	if n == 0 {
		return "0"
	}
	s := ""
	for n > 0 {
		s = string(rune('0'+n%10)) + s
		n /= 10
	}
	return s
}

// isUnchangedParam: v is the parameter itself (through its spill cell / local copies).
func isUnchangedParam(v ssa.Value, prm *ssa.Parameter) bool {
	seen := map[ssa.Value]bool{}
	var walk func(x ssa.Value) bool
	walk = func(x ssa.Value) bool {
		if x == prm {
			return true
		}
		if seen[x] {
			return true
		}
		seen[x] = true
		switch y := x.(type) {
		case *ssa.UnOp:
			if y.Op == token.MUL {
				if a, ok := y.X.(*ssa.Alloc); ok {
					n := 0
					for _, r := range ssau.Refs(a) {
						switch st := r.(type) {
						case *ssa.Store:
							if st.Addr == a {
								n++
								if !walk(st.Val) {
									return false
								}
							}
						case *ssa.FieldAddr:
							// a field of the copy is re-assigned: no longer unchanged
							for _, rr := range ssau.Refs(st) {
								if s2, ok := rr.(*ssa.Store); ok && s2.Addr == st {
									return false
								}
							}
						}
					}
					return n > 0
				}
			}
		case *ssa.Phi:
			for _, e := range y.Edges {
				if !walk(e) {
					return false
				}
			}
			return true
		}
		return false
	}
	return walk(v)
}

// guardedByEmptiness: the block is only reached through a branch that proves some length is zero.
func guardedByEmptiness(b *ssa.BasicBlock) string {
	for d := b; d != nil; d = d.Idom() {
		for _, pred := range d.Preds {
			if len(pred.Instrs) == 0 {
				continue
			}
			ifi, ok := pred.Instrs[len(pred.Instrs)-1].(*ssa.If)
			if !ok || !pred.Dominates(b) {
				continue
			}
			onTrue := pred.Succs[0] == d
			if pred.Succs[0] == pred.Succs[1] {
				continue
			}
			cmp, ok := ifi.Cond.(*ssa.BinOp)
			if !ok {
				continue
			}
			for _, pr := range [][2]ssa.Value{{cmp.X, cmp.Y}, {cmp.Y, cmp.X}} {
				k, isConst := ssau.ConstInt(pr[1])
				if !isConst || !isLengthValue(pr[0]) {
					continue
				}
				flipped := pr[0] == cmp.Y
				op := cmp.Op
				if flipped {
					switch op {
					case token.LSS:
						op = token.GTR
					case token.GTR:
						op = token.LSS
					case token.LEQ:
						op = token.GEQ
					case token.GEQ:
						op = token.LEQ
					}
				}
				zero := false
				switch {
				case onTrue && op == token.EQL && k == 0, onTrue && op == token.LEQ && k == 0, onTrue && op == token.LSS && k == 1:
					zero = true
				case !onTrue && op == token.NEQ && k == 0, !onTrue && op == token.GTR && k == 0, !onTrue && op == token.GEQ && k == 1:
					zero = true
				}
				if zero {
					return "length == 0"
				}
			}
		}
	}
	return ""
}

func isLengthValue(v ssa.Value) bool {
	c, ok := v.(*ssa.Call)
	if !ok {
		return false
	}
	if ssau.Builtin(c) == "len" {
		return true
	}
	if o := ssau.CalleeObj(c); o != nil {
		switch o.Name() {
		case "Len", "PrimitiveCount", "AttributeLength":
			return true
		}
	}
	return false
}

// ROUND-1 — the weld hash rounds to its grid symmetrically: every float→int conversion in
// modeling.Vector3ToInt is applied to the result of math.Round / RoundToEven / Floor / Ceil (an
// integral-valued float), all three components use the same rounding function, and component k is
// computed from getter k. A truncating conversion of a non-integral value (int(x+0.5)) makes the cell
// around zero twice as wide as the others.
func round1(c *props.Ctx) {
	p := c.P
	fn := p.Func("modeling", "Vector3ToInt")
	if fn == nil {
		c.R.Failf("anchor modeling.Vector3ToInt not found")
		return
	}
	name := p.FuncName(fn)
	roundFns := map[string]bool{}
	nconv := 0
	bad := ""
	var badAt ssa.Instruction
	ssau.AllInstrs(fn, func(in ssa.Instruction) {
		cv, ok := in.(*ssa.Convert)
		if !ok {
			return
		}
		tb, ok1 := cv.Type().Underlying().(*types.Basic)
		fb, ok2 := cv.X.Type().Underlying().(*types.Basic)
		if !ok1 || !ok2 || tb.Info()&types.IsInteger == 0 || fb.Info()&types.IsFloat == 0 {
			return
		}
		nconv++
		call, ok := cv.X.(*ssa.Call)
		if !ok {
			bad = "a float is converted to int without going through math.Round/Floor/Ceil: truncation toward zero makes the rounding cell at 0 twice as wide"
			badAt = cv
			return
		}
		o := ssau.CalleeObj(call)
		if o == nil || o.Pkg() == nil || o.Pkg().Path() != "math" || !(o.Name() == "Round" || o.Name() == "RoundToEven" || o.Name() == "Floor" || o.Name() == "Ceil") {
			bad = "a float is converted to int from " + strings.TrimSpace(call.String()) + ", not from math.Round/RoundToEven/Floor/Ceil"
			badAt = cv
			return
		}
		roundFns[o.Name()] = true
	})
	switch {
	case bad != "":
		c.R.Violate("ROUND-1", name, p.Pos(ssau.PosOf(badAt)), bad)
	case nconv < 3:
		c.R.Undecide("ROUND-1", name, p.Pos(fn.Pos()), "fewer than three float→int conversions found: the rounding idiom is not recognised")
	case len(roundFns) != 1:
		c.R.Violate("ROUND-1", name, p.Pos(fn.Pos()), "the three components are rounded with different functions: cells are not aligned across axes")
	default:
		f := ""
		for k := range roundFns {
			f = k
		}
		c.R.Hold("ROUND-1", name, p.Pos(fn.Pos()), itoa(nconv)+" conversions, each of math."+f+"(…)")
	}
}
