// Package c04: PLY write/read round trip preserves the mesh in all three encodings (structural clauses).
package c04

import (
	"golang.org/x/tools/go/ssa"

	"polycheck/props"
	"polycheck/props/plycommon"
)

func init() {
	props.Register(&props.Prop{
		ID: "C04",
		Explanation: "Layout, pairing and index-space agreement of the PLY writer with its own reader, decided on source (go/ssa): " +
			"IDX-1 corner texture coordinates are fetched by vertex id, never by position in the index array; " +
			"LAY-1 per scalar-type case the binary property writers tile exactly N×Size(type) bytes and both face record buffers are tiled exactly; " +
			"HDR-1 record buffers, dispatch field and the declared header properties derive from one Type, and the face lists' count/item types have the widths and encodings the body writes; " +
			"HDR-2 header properties and body writers come from the same writer in the same iteration, vertex Count = AttributeLength() = bound of the body loop, face Count = PrimitiveCount() = records both face writers emit, one Format value everywhere; " +
			"LAY-2/LAY-3 every ScalarPropertyType dispatch is tabulated: binary writer cases = binary reader cases with the same wire kind and the same 8-bit scaling, ASCII writer ⊆ ASCII reader; " +
			"LAY-5 BigEndian exactly under the constant that is written and parsed as binary_big_endian; LAY-7 every built reader's scalarType derives from the header's type; " +
			"AXIS-1/3 components and corners in header order on both sides; REC-1 record i = element i; CLAIM-1 skipped attributes are exactly the claimed ones. " +
			"Decides necessary conditions of the round trip for every mesh, encoding and option combination; does not decide numeric precision, ASCII number formatting, 8-bit wrap vs clamp, or the unweld-on-read content.",
		Assumptions: []string{
			"a triangle mesh has 3 | len(indices) (C02), so a stride-3 loop over Indices().Len() emits PrimitiveCount() records",
			"EliCDavis/vector Scale/MultByConstant/DivByConstant multiply/divide every component by their argument; X/Y/Z/W return the named component",
		},
		Controls: plycommon.Controls,
		Run:      run,
	})
}

func run(c *props.Ctx) {
	e := plycommon.New(c)
	if e == nil {
		return
	}
	plycommon.IDX1(e)
	plycommon.LAY7(e)
	n := plycommon.EnumInventory(e)
	_ = n
	tab := plycommon.Codec(e, true, false)
	plycommon.LAY3RoundTrip(e, tab)
	ft := plycommon.FormatTable(e, true, true)
	plycommon.LAY5(e, ft, func(fn *ssa.Function) bool { return true })
	plycommon.FaceBinary(e)
	plycommon.FaceAscii(e)
	plycommon.HDR2(e, ft)
	plycommon.CLAIM1(e)
	plycommon.UNW1(e)
	// decode-side clauses the round trip depends on just as much (shared with C08)
	plycommon.LAY4(e)
	plycommon.ListReaders(e)
	plycommon.REC1Driver(e)
	plycommon.NAME1(e)
	plycommon.SENT1(e)
	decode := map[*ssa.Function]bool{}
	for _, f := range e.DecodeScope() {
		decode[f] = true
	}
	plycommon.CFG1(e, func(fn *ssa.Function) bool { return !decode[fn] })

	c.R.Floor("IDX-1", 3)
	c.R.Floor("LAY-7", 6)
	c.R.Floor("LAY-3", 24)
	c.R.Floor("LAY-1", 30)
	c.R.Floor("LAY-2", 46)
	c.R.Floor("HDR-1", 8)
	c.R.Floor("HDR-2", 7)
	c.R.Floor("LAY-5", 3)
	c.R.Floor("AXIS-3", 50)
	c.R.Floor("AXIS-1", 32)
	c.R.Floor("REC-1", 22)
	c.R.Floor("CLAIM-1", 3)
	c.R.Floor("UNW-1", 1)
	c.R.Floor("LAY-4", 22)
	c.R.Floor("NAME-1", 5)
	c.R.Floor("SENT-1", 19)
	c.R.Floor("CFG-1", 3)
}
