// Package c05: OBJ write/read round trip preserves groups, corners and materials
// (structural clauses; see REPORT.md).
package c05

import (
	"fmt"
	"go/types"
	"os"
	"sort"
	"strings"
	"time"

	"golang.org/x/tools/go/ssa"

	"polycheck/ob"
	"polycheck/props"
	"polycheck/ssau"
)

func init() {
	props.Register(&props.Prop{
		ID: "C05",
		Explanation: "Structural necessary conditions of the OBJ round trip, decided on source. Reader (obj.ReadMesh and its helpers): MAT-1 — typestate of the " +
			"'faces since the last usemtl' counter (found by def-use from the stores into MeshMaterial.PrimitiveCount): on every path the pending count is stored into the last " +
			"material entry before the group's material list is handed to the mesh, the counter is reset whenever the range/group it counts for changes, and never reset or " +
			"superseded while it holds unrecorded faces; FACE-1 — the counter advances exactly once per appended triangle (3 indices); OWN-2 — nothing the group handed to the mesh " +
			"constructors is written afterwards; TOK-R — the face-token parser maps v, v/vt, v//vn, v/vt/vn pieces to the (v,vt,vn) slots with −1 on every index; STREAM-R — " +
			"'v'/'vt'/'vn' records, the token slot that indexes them and the mesh attribute they end up in agree with the writer; AXIS-3 — component order of v/vt/vn on both sides; " +
			"CORNER-R — corner k of a face comes from field k of the line, de-duplicated per group under the whole token. Writer (obj.WriteMeshes and the face writers it selects): " +
			"IDX-1/IDX-3 — attribute iterators are subscripted by positions bounded by their own Len(), the index iterator by positions start..end step 3 (+0,+1,+2); ONE-W — every " +
			"written index is vertex id + 1 + base; TOK-W/FORM-1 — the token form emitted (v, v/vt, v//vn, v/vt/vn) matches the attributes present; MAT-2 — material ranges are " +
			"consecutive from 0 with PrimitiveCount*3 and preceded by the usemtl of their own entry; BASE-1 — the base added to vt/vn references advances per mesh only by the " +
			"number of vt/vn records that mesh emitted; GROUP-1 — one g line per mesh carrying its name. Material identity (every function of formats/obj): ORD-2 — no address of a " +
			"per-loop variable (go directive < 1.22) is kept beyond the iteration; MAT-3 — name-table insertions store, under key k, a pointer to the material named k (element address, " +
			"per-iteration object), and list[j].Material = table[k] takes k from entry j itself. ENTRY-1 — record typestate of the txt.Writer (every FinishEntry has its StartEntry, tokens only " +
			"inside an open entry), helpers/closures inlined; SINK-1 — after a buffering wrapper is created over a destination every byte goes through it and it is flushed; NAME-2 — the " +
			"scanner's line reaches the tokeniser uncut and names are all fields after the keyword. Not decided: float formatting/precision, material attribute " +
			"fidelity (names with spaces, .mtl contents), n-gons, negative indices, what happens to triangles outside every material range.",
		Controls: controls,
		Run:      run,
	})
}

type ctx struct {
	*props.Ctx
	objPkg   *ssa.Package
	modeling *types.Package
	pcField  *types.Var
	// control outcomes: rule -> function name suffix -> fired
	ctlFired map[string]map[string]bool
}

func run(c *props.Ctx) {
	x := &ctx{Ctx: c, ctlFired: map[string]map[string]bool{}}
	x.objPkg = c.P.SSAPkg(objRel)
	if x.objPkg == nil {
		c.R.Failf("anchor package %s not found", objRel)
		return
	}
	mp := c.P.Pkg("modeling")
	if mp == nil {
		c.R.Failf("anchor package modeling not found")
		return
	}
	x.modeling = mp.Types
	mm := lookupType(x.modeling, "MeshMaterial")
	if mm == nil {
		c.R.Failf("anchor type modeling.MeshMaterial not found")
		return
	}
	x.pcField = fieldNamed(mm, "PrimitiveCount")
	if x.pcField == nil {
		c.R.Failf("anchor field modeling.MeshMaterial.PrimitiveCount not found")
		return
	}
	readMesh := c.P.Func(objRel, "ReadMesh")
	if readMesh == nil {
		c.R.Failf("anchor function obj.ReadMesh not found")
	}
	writeMeshes := c.P.Func(objRel, "WriteMeshes")
	if writeMeshes == nil {
		c.R.Failf("anchor function obj.WriteMeshes not found")
	}
	t0 := time.Now()
	n := 0
	if readMesh != nil {
		x.readerRules(readMesh, false)
		n += len(scopeOf(readMesh))
	}
	if writeMeshes != nil {
		x.writerRules(writeMeshes, false)
		n += len(scopeOf(writeMeshes))
	}
	x.txt1()
	x.identRules()
	x.ioRules()
	c.R.Extra["functions_analysed"] = n + 9

	// controls
	if len(c.P.Controls) > 0 {
		x.runControls()
	}
	c.R.Extra["analysis_s"] = time.Since(t0).Seconds()
	// vacuity floors: a bit under what was confirmed by hand on the pinned tree
	// (and under what the behaviour-preserving refactors of REPORT.md produce)
	for rule, n := range map[string]int{"MAT-1": 5, "FACE-1": 1, "OWN-2": 4, "AXIS-3": 3, "BASE-1": 2, "CORNER-R": 2, "FORM-1": 1, "GROUP-1": 1,
		"GROUP-R": 2, "IDX-1": 2, "IDX-3": 1, "MAT-2": 1, "ONE-W": 1, "STREAM-R": 5, "STREAM-W": 2, "TOK-R": 3, "TOK-W": 1, "TXT-1": 8, "USEMTL-R": 1, "ORD-2": 8, "MAT-3": 2, "MAT-4": 1, "ENTRY-1": 8, "SINK-1": 3, "NAME-2": 3} {
		c.R.Floor(rule, n)
	}
}

func (x *ctx) readerRules(root *ssa.Function, ctl bool) {
	x.mat1(root, ctl)
	x.face1(root, ctl)
	x.own2(root, ctl)
	x.readerRulesExtra(root, ctl)
}

// record routes an outcome either to the repository obligations or to the control table.
func (x *ctx) record(ctl bool, rule, construct string, in ssa.Instruction, fn *ssa.Function, viol, undec string, facts ...string) {
	pos := "?"
	if in != nil {
		pos = x.P.Pos(ssau.PosOf(in))
	} else if fn != nil {
		pos = x.P.Pos(fn.Pos())
	}
	if os.Getenv("POLYCHECK_C05_DEBUG") != "" {
		v := "HOLDS"
		if viol != "" {
			v = "VIOLATION " + viol
		} else if undec != "" {
			v = "UNDECIDED " + undec
		}
		fmt.Fprintf(os.Stderr, "[ctl=%v] %-9s %-70s %s %s %v\n", ctl, rule, construct, pos, v, facts)
	}
	if ctl {
		if viol != "" || undec != "" {
			m := x.ctlFired[rule]
			if m == nil {
				m = map[string]bool{}
				x.ctlFired[rule] = m
			}
			m[construct] = true
		}
		return
	}
	switch {
	case viol != "":
		x.R.Violate(rule, construct, pos, viol, facts...)
	case undec != "":
		x.R.Undecide(rule, construct, pos, undec, facts...)
	default:
		x.R.Hold(rule, construct, pos, facts...)
	}
}

// ---------------------------------------------------------------- MAT-1 driver

func (x *ctx) mat1(root *ssa.Function, ctl bool) {
	name := x.P.FuncName(root)
	m := newMatRule(x.P, root, x.pcField)
	m.discover()
	if len(m.handoff) == 0 {
		x.record(ctl, "MAT-1", name, nil, root, "", "no call of (modeling.Mesh).SetMaterials is reachable from "+name+": the hand-off of the material ranges was not found")
		return
	}
	for _, p := range m.problems {
		x.record(ctl, "MAT-1", name+":counter", p.at, nil, "", p.msg)
	}
	if len(m.vals) == 0 && len(m.direct) == 0 {
		x.record(ctl, "MAT-1", name+":counter", nil, root, "", "no variable flows into a MeshMaterial.PrimitiveCount store: the pending-count role was not found (idiom not recognised)")
		return
	}
	if len(m.vals) == 0 && len(m.direct) > 0 {
		// accepted alternative idiom: the count is kept in the entry itself
		var ds []*ssa.Store
		for s := range m.direct {
			ds = append(ds, s.(*ssa.Store))
		}
		ord := ordinalKeys(ds)
		sort.Slice(ds, func(i, j int) bool { return ord[ds[i]] < ord[ds[j]] })
		for _, s := range ds {
			st := &matSite{facts: map[string]bool{}}
			m.checkLast(s, st)
			x.record(ctl, "MAT-1", fmt.Sprintf("%s:count-in-entry#%d", name, ord[s]), s, nil, st.viol, "", "face count kept directly in the material entry (entry.PrimitiveCount += k)")
		}
		return
	}
	if len(m.incAt) == 0 {
		x.record(ctl, "MAT-1", name+":counter", nil, root, "the variable stored into MeshMaterial.PrimitiveCount is never incremented: every material range gets length 0", "")
		return
	}
	m.run()
	// stable ordinals per kind (+label)
	groups := map[string][]*matSite{}
	for _, k := range m.order {
		s := m.sites[k]
		g := fmt.Sprintf("%d/%s", s.kind, s.label)
		groups[g] = append(groups[g], s)
	}
	var gks []string
	for g := range groups {
		gks = append(gks, g)
	}
	sort.Strings(gks)
	for _, g := range gks {
		ss := groups[g]
		sort.SliceStable(ss, func(i, j int) bool { return ssau.PosOf(ss[i].at) < ssau.PosOf(ss[j].at) })
		for i, s := range ss {
			var construct string
			switch s.kind {
			case siteHandoff:
				construct = fmt.Sprintf("%s→%s#%d", name, s.label, i+1)
			case siteInc:
				construct = fmt.Sprintf("%s:pending++#%d", name, i+1)
			case siteReset:
				construct = fmt.Sprintf("%s:pending=0#%d", name, i+1)
			case siteNewMat:
				construct = fmt.Sprintf("%s→append(MeshMaterial)#%d", name, i+1)
			case siteFlushTarget:
				construct = fmt.Sprintf("%s:flush-target#%d", name, i+1)
			}
			var facts []string
			for f := range s.facts {
				facts = append(facts, f)
			}
			sort.Strings(facts)
			facts = append(facts, fmt.Sprintf("counter roles: %d phi(s), %d cell(s), %d increment(s), %d in-place flush store(s)", len(m.phis), len(m.cells), len(m.incAt), len(m.flushAt)))
			x.record(ctl, "MAT-1", construct, s.at, nil, s.viol, "", facts...)
		}
	}
	if !ctl {
		x.R.Extra["mat1_scope_functions"] = len(m.fns)
	}
}

// ---------------------------------------------------------------- controls

var ctlRules = map[string]string{"MAT1": "MAT-1", "OWN2": "OWN-2", "FACE1": "FACE-1", "IDX1": "IDX-1", "IDX3": "IDX-3", "ONEW": "ONE-W", "TOKW": "TOK-W",
	"FORM1": "FORM-1", "MAT2": "MAT-2", "BASE1": "BASE-1", "AXIS3": "AXIS-3", "TOKR": "TOK-R", "STREAMR": "STREAM-R", "CORNERR": "CORNER-R", "GROUP1": "GROUP-1", "GROUPR": "GROUP-R", "STREAMW": "STREAM-W"}

func (x *ctx) runControls() {
	var ctlFns []*ssa.Function
	for _, f := range x.P.FuncsOf(x.objPkg) {
		if x.P.IsControl(f.Pos()) && f.Parent() == nil && f.Signature.Recv() == nil && strings.HasPrefix(f.Name(), "verifControl") {
			ctlFns = append(ctlFns, f)
		}
	}
	for _, f := range ctlFns {
		n := f.Name()
		var rest string
		switch {
		case strings.HasPrefix(n, "verifControlReader"):
			rest = strings.TrimPrefix(n, "verifControlReader")
			x.readerRules(f, true)
		case strings.HasPrefix(n, "verifControlWriter"):
			rest = strings.TrimPrefix(n, "verifControlWriter")
			x.writerRules(f, true)
		default:
			continue
		}
		parts := strings.Split(rest, "_")
		want := ob.Holds
		if parts[0] == "Bad" {
			want = ob.Violation
		}
		fname := x.P.FuncName(f)
		for _, part := range parts[1:] {
			rule, ok := ctlRules[part]
			if !ok {
				continue
			}
			fired := false
			var where []string
			for k := range x.ctlFired[rule] {
				if k == fname || strings.HasPrefix(k, fname+"→") || strings.HasPrefix(k, fname+":") || strings.HasPrefix(k, fname+"#") {
					fired = true
					where = append(where, k)
				}
			}
			got := ob.Holds
			if fired {
				got = ob.Violation
			}
			sort.Strings(where)
			msg := "positive control must be reported"
			if want == ob.Holds {
				msg = "accepted idiom must stay silent " + strings.Join(where, ",")
			}
			x.R.Control(rule, "control:"+n, controlFile, got, want, msg)
		}
	}
}
