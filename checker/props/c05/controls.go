package c05

const controlFile = "formats/obj/zz_verif_control_c05.go"

// Self-test controls, type-checked inside package formats/obj (overlay, never
// on disk). Function names: verifControl{Reader|Writer}{Good|Bad}_<RULE>[_<RULE>…][_x]
// — a Bad control must be reported by each named rule, a Good control by none
// of the named rules.
func controls() map[string]string {
	return map[string]string{controlFile: controlSrc}
}

const controlSrc = `package obj

import (
	"bufio"
	"fmt"
	"io"
	"strings"

	"github.com/EliCDavis/iter"
	"github.com/EliCDavis/polyform/formats/txt"
	"github.com/EliCDavis/polyform/modeling"
)

type verifCtlGroup struct {
	tris []int
	mats []modeling.MeshMaterial
}

func (g verifCtlGroup) mesh() modeling.Mesh {
	return modeling.NewTriangleMesh(g.tris).SetMaterials(g.mats)
}

func (g verifCtlGroup) closeRange(faces int) {
	if faces > 0 && len(g.mats) > 0 {
		g.mats[len(g.mats)-1].PrimitiveCount = faces
	}
}

// the pinned defect: nothing recorded when a group is closed, and the last
// range patched after the hand-off
func verifControlReaderBad_MAT1_OWN2(lines []string) []modeling.Mesh {
	var out []modeling.Mesh
	pending := 0
	g := verifCtlGroup{}
	for _, l := range lines {
		switch l {
		case "usemtl":
			if pending > 0 {
				if len(g.mats) == 0 {
					g.mats = append(g.mats, modeling.MeshMaterial{PrimitiveCount: pending})
				} else {
					g.mats[len(g.mats)-1].PrimitiveCount = pending
				}
			}
			pending = 0
			g.mats = append(g.mats, modeling.MeshMaterial{})
		case "g":
			out = append(out, g.mesh())
			g = verifCtlGroup{}
		case "f":
			pending++
			g.tris = append(g.tris, 0, 1, 2)
		}
	}
	out = append(out, g.mesh())
	if pending > 0 && len(g.mats) > 0 {
		g.mats[len(g.mats)-1].PrimitiveCount = pending
	}
	return out
}

// recorded before the hand-off but the counter is carried into the next group
func verifControlReaderBad_MAT1_noreset(lines []string) []modeling.Mesh {
	var out []modeling.Mesh
	pending := 0
	g := verifCtlGroup{}
	for _, l := range lines {
		switch l {
		case "g":
			g.closeRange(pending)
			out = append(out, g.mesh())
			g = verifCtlGroup{}
		case "usemtl":
			if pending > 0 {
				if len(g.mats) == 0 {
					g.mats = append(g.mats, modeling.MeshMaterial{PrimitiveCount: pending})
				} else {
					g.mats[len(g.mats)-1].PrimitiveCount = pending
				}
			}
			pending = 0
			g.mats = append(g.mats, modeling.MeshMaterial{})
		case "f":
			pending++
			g.tris = append(g.tris, 0, 1, 2)
		}
	}
	g.closeRange(pending)
	out = append(out, g.mesh())
	return out
}

// faces read before the first usemtl get no range of their own
func verifControlReaderBad_MAT1_nodefault(lines []string) []modeling.Mesh {
	var out []modeling.Mesh
	pending := 0
	g := verifCtlGroup{}
	for _, l := range lines {
		switch l {
		case "usemtl":
			g.closeRange(pending)
			pending = 0
			g.mats = append(g.mats, modeling.MeshMaterial{})
		case "f":
			pending++
			g.tris = append(g.tris, 0, 1, 2)
		}
	}
	g.closeRange(pending)
	out = append(out, g.mesh())
	return out
}

// accepted: helper method, counter in a register
func verifControlReaderGood_MAT1_OWN2_FACE1_a(lines []string) []modeling.Mesh {
	var out []modeling.Mesh
	pending := 0
	g := verifCtlGroup{}
	for _, l := range lines {
		if l == "usemtl" {
			if pending > 0 {
				if len(g.mats) == 0 {
					g.mats = append(g.mats, modeling.MeshMaterial{PrimitiveCount: pending})
				} else {
					g.mats[len(g.mats)-1].PrimitiveCount = pending
				}
			}
			pending = 0
			g.mats = append(g.mats, modeling.MeshMaterial{})
		} else if l == "g" {
			if len(g.tris) != 0 {
				g.closeRange(pending)
				pending = 0
				out = append(out, g.mesh())
				g = verifCtlGroup{}
			}
		} else if l == "f" {
			g.tris = append(g.tris, 0, 1, 2)
			pending += 1
		}
	}
	g.closeRange(pending)
	out = append(out, g.mesh())
	return out
}

// accepted: closure, counter and group captured (memory cells)
func verifControlReaderGood_MAT1_OWN2_FACE1_b(lines []string) []modeling.Mesh {
	var out []modeling.Mesh
	pending := 0
	g := verifCtlGroup{}
	flush := func() {
		if pending != 0 && len(g.mats) != 0 {
			g.mats[len(g.mats)-1].PrimitiveCount = pending
		}
		pending = 0
	}
	emit := func() {
		flush()
		out = append(out, g.mesh())
		g = verifCtlGroup{}
	}
	for _, l := range lines {
		switch l {
		case "usemtl":
			if pending > 0 {
				if len(g.mats) == 0 {
					g.mats = append(g.mats, modeling.MeshMaterial{PrimitiveCount: pending})
				} else {
					g.mats[len(g.mats)-1].PrimitiveCount = pending
				}
			}
			pending = 0
			g.mats = append(g.mats, modeling.MeshMaterial{})
		case "g":
			emit()
		case "f":
			pending++
			g.tris = append(g.tris, 0, 1, 2)
		}
	}
	emit()
	return out
}

// accepted: the count is kept in the entry itself
func verifControlReaderGood_MAT1_c(lines []string) []modeling.Mesh {
	var out []modeling.Mesh
	g := verifCtlGroup{mats: []modeling.MeshMaterial{{}}}
	for _, l := range lines {
		switch l {
		case "usemtl":
			g.mats = append(g.mats, modeling.MeshMaterial{})
		case "f":
			g.mats[len(g.mats)-1].PrimitiveCount++
			g.tris = append(g.tris, 0, 1, 2)
		}
	}
	out = append(out, g.mesh())
	return out
}

// a repeated usemtl opens no new range, yet the next flush stores (does not add)
func verifControlReaderBad_MAT1_overwrite(lines []string, mats []*modeling.Material) []modeling.Mesh {
	var out []modeling.Mesh
	pending := 0
	g := verifCtlGroup{}
	for i, l := range lines {
		switch l {
		case "usemtl":
			if pending > 0 {
				if len(g.mats) == 0 {
					g.mats = append(g.mats, modeling.MeshMaterial{PrimitiveCount: pending})
				} else {
					g.mats[len(g.mats)-1].PrimitiveCount = pending
				}
			}
			pending = 0
			if n := len(g.mats); n > 0 && g.mats[n-1].Material == mats[i] {
				continue
			}
			g.mats = append(g.mats, modeling.MeshMaterial{Material: mats[i]})
		case "f":
			pending++
			g.tris = append(g.tris, 0, 1, 2)
		}
	}
	g.closeRange(pending)
	out = append(out, g.mesh())
	return out
}

// accepted: the same merge with accumulating flushes
func verifControlReaderGood_MAT1_d(lines []string, mats []*modeling.Material) []modeling.Mesh {
	var out []modeling.Mesh
	pending := 0
	g := verifCtlGroup{}
	for i, l := range lines {
		switch l {
		case "usemtl":
			if pending > 0 {
				if len(g.mats) == 0 {
					g.mats = append(g.mats, modeling.MeshMaterial{PrimitiveCount: pending})
				} else {
					g.mats[len(g.mats)-1].PrimitiveCount += pending
				}
			}
			pending = 0
			if n := len(g.mats); n > 0 && g.mats[n-1].Material == mats[i] {
				continue
			}
			g.mats = append(g.mats, modeling.MeshMaterial{Material: mats[i]})
		case "f":
			pending++
			g.tris = append(g.tris, 0, 1, 2)
		}
	}
	if pending > 0 && len(g.mats) > 0 {
		g.mats[len(g.mats)-1].PrimitiveCount += pending
	}
	out = append(out, g.mesh())
	return out
}

// a face can be counted without being appended
func verifControlReaderBad_FACE1(lines []string) []modeling.Mesh {
	var out []modeling.Mesh
	pending := 0
	g := verifCtlGroup{}
	for _, l := range lines {
		switch l {
		case "f", "fdegenerate":
			pending++
			if l == "fdegenerate" {
				continue
			}
			g.tris = append(g.tris, 0, 1, 2)
		}
	}
	g.closeRange(pending)
	out = append(out, g.mesh())
	return out
}

func verifControlReaderBad_OWN2(lines []string) []modeling.Mesh {
	var out []modeling.Mesh
	g := verifCtlGroup{}
	for range lines {
		g.tris = append(g.tris, 0, 1, 2)
	}
	out = append(out, g.mesh())
	if len(g.tris) > 0 {
		g.tris[0] = 2
	}
	return out
}

// ---------------------------------------------------------------- material identity

// the address of the range variable is kept (go.mod < 1.22: one variable per loop)
func verifControlIdentBad_ORD2_MAT3(ms []modeling.Material) map[string]*modeling.Material {
	table := make(map[string]*modeling.Material)
	for _, m := range ms {
		table[m.Name] = &m
	}
	return table
}

// key of one element, address of another
func verifControlIdentBad_MAT3(ms []modeling.Material) map[string]*modeling.Material {
	table := make(map[string]*modeling.Material)
	for i, m := range ms {
		table[m.Name] = &ms[len(ms)-1-i]
	}
	return table
}

// accepted: element address, per-iteration copy, index loop, pointer slice, object created for the name
func verifControlIdentGood(ms []modeling.Material, ps []*modeling.Material, meshes []ObjMesh) map[string]*modeling.Material {
	table := make(map[string]*modeling.Material)
	for i, m := range ms {
		table[m.Name] = &ms[i]
	}
	for _, m := range ms {
		m := m
		table[m.Name] = &m
	}
	for i := 0; i < len(ms); i++ {
		table[ms[i].Name] = &ms[i]
	}
	for _, p := range ps {
		table[p.Name] = p
	}
	for _, m := range ms {
		name := m.Name
		table[name] = &modeling.Material{Name: name}
	}
	for mi, mesh := range meshes {
		for j, e := range mesh.Mesh.Materials() {
			meshes[mi].Mesh.Materials()[j].Material = table[e.Material.Name]
		}
	}
	return table
}

// ranges whose name is unknown are filtered out of the list
func verifControlIdentBad_MAT4(meshes []ObjMesh, table map[string]*modeling.Material) {
	for mi, mesh := range meshes {
		mats := mesh.Mesh.Materials()
		kept := make([]modeling.MeshMaterial, 0, len(mats))
		for _, e := range mats {
			m, ok := table[e.Material.Name]
			if !ok {
				continue
			}
			e.Material = m
			kept = append(kept, e)
		}
		meshes[mi].Mesh = mesh.Mesh.SetMaterials(kept)
	}
}

// accepted: rebuilt entry for entry (append and indexed), comma-ok with nil on a miss
func verifControlIdentGood_lists(meshes []ObjMesh, table map[string]*modeling.Material) {
	for mi, mesh := range meshes {
		mats := mesh.Mesh.Materials()
		all := make([]modeling.MeshMaterial, 0, len(mats))
		for _, e := range mats {
			if m, ok := table[e.Material.Name]; ok {
				e.Material = m
			} else {
				e.Material = nil
			}
			all = append(all, e)
		}
		meshes[mi].Mesh = mesh.Mesh.SetMaterials(all)
	}
	for mi, mesh := range meshes {
		mats := mesh.Mesh.Materials()
		all := make([]modeling.MeshMaterial, len(mats))
		for i := 0; i < len(mats); i++ {
			e := mats[i]
			e.Material = table[e.Material.Name]
			all[i] = e
		}
		meshes[mi].Mesh = mesh.Mesh.SetMaterials(all)
	}
}

// ---------------------------------------------------------------- records, sinks, names

// a record finished without having been started: the previous one is emitted again
func verifControlIOBad_ENTRY1(out io.Writer, nilMat bool) {
	w := txt.NewWriter(out)
	w.StartEntry()
	w.String("f 1 2 3\n")
	w.FinishEntry()
	if nilMat {
		w.String("usemtl Default\n")
		w.FinishEntry()
	}
}

// records go through a buffer, the group line goes to the raw destination
func verifControlIOBad_SINK1(out io.Writer) error {
	b := bufio.NewWriter(out)
	w := txt.NewWriter(b)
	w.StartEntry()
	w.String("v 0 0 0\n")
	w.FinishEntry()
	fmt.Fprintf(out, "g %s\n", "a")
	return b.Flush()
}

// every line is cut at the first '#'
func verifControlIOBad_NAME2(in io.Reader) []string {
	var names []string
	sc := bufio.NewScanner(in)
	for sc.Scan() {
		line := sc.Text()
		if i := strings.IndexByte(line, '#'); i >= 0 {
			line = line[:i]
		}
		fields := strings.Fields(line)
		if len(fields) > 1 && fields[0] == "g" {
			names = append(names, strings.Join(fields[1:], " "))
		}
	}
	return names
}

// accepted: bracketing helper taking the body, one buffered path flushed at the end, comment lines skipped whole
func verifControlIOGood(out io.Writer, in io.Reader) ([]string, error) {
	b := bufio.NewWriter(out)
	w := txt.NewWriter(b)
	entry := func(body func()) {
		w.StartEntry()
		body()
		w.FinishEntry()
	}
	entry(func() { w.String("v 0 0 0"); w.NewLine() })
	fmt.Fprintf(b, "g %s\n", "a")
	entry(func() {
		w.String("f ")
		w.Int(1)
		w.NewLine()
	})
	var names []string
	sc := bufio.NewScanner(in)
	for sc.Scan() {
		line := sc.Text()
		if t := strings.TrimSpace(line); t == "" || strings.HasPrefix(t, "#") {
			continue
		}
		fields := strings.Fields(line)
		if len(fields) > 1 && fields[0] == "g" {
			names = append(names, strings.Join(fields[1:], " "))
		}
	}
	return names, b.Flush()
}

// ---------------------------------------------------------------- writer

func verifCtlUsemtl(mat *modeling.Material, out *txt.Writer) {
	out.StartEntry()
	out.String("usemtl ")
	if mat != nil {
		out.String(mat.Name)
	}
	out.NewLine()
	out.FinishEntry()
}

func verifCtlFace(tris *iter.ArrayIterator[int], out *txt.Writer, start, end, vBase, vnBase int) {
	for i := start; i < end; i += 3 {
		out.StartEntry()
		out.String("f ")
		out.Int(tris.At(i) + 1 + vBase)
		out.String("//")
		out.Int(tris.At(i) + 1 + vnBase)
		out.Space()
		out.Int(tris.At(i+1) + 1 + vBase)
		out.String("//")
		out.Int(tris.At(i+1) + 1 + vnBase)
		out.Space()
		out.Int(tris.At(i+2) + 1 + vBase)
		out.String("//")
		out.Int(tris.At(i+2) + 1 + vnBase)
		out.NewLine()
		out.FinishEntry()
	}
}

func verifCtlFaceOffByOne(tris *iter.ArrayIterator[int], out *txt.Writer, start, end, vBase int) {
	for i := start; i <= end; i += 3 {
		out.StartEntry()
		out.String("f ")
		out.Int(tris.At(i) + vBase)
		out.Space()
		out.Int(tris.At(i+2) + 1 + vBase)
		out.Space()
		out.Int(tris.At(i+1) + 1 + vBase)
		out.NewLine()
		out.FinishEntry()
	}
}

func verifCtlRecords(meshes []ObjMesh, w *txt.Writer) {
	for _, om := range meshes {
		m := om.Mesh
		if m.HasFloat3Attribute(modeling.PositionAttribute) {
			pos := m.Float3Attribute(modeling.PositionAttribute)
			n := pos.Len()
			for i := 0; i < n; i++ {
				p := pos.At(i)
				w.StartEntry()
				w.String("v ")
				w.Float64(p.X())
				w.Space()
				w.Float64(p.Y())
				w.Space()
				w.Float64(p.Z())
				w.NewLine()
				w.FinishEntry()
			}
		}
		if m.HasFloat3Attribute(modeling.NormalAttribute) {
			nrm := m.Float3Attribute(modeling.NormalAttribute)
			for i := 0; i < nrm.Len(); i++ {
				p := nrm.At(i)
				w.StartEntry()
				w.String("vn ")
				w.Float64(p.X())
				w.Space()
				w.Float64(p.Y())
				w.Space()
				w.Float64(p.Z())
				w.NewLine()
				w.FinishEntry()
			}
		}
	}
}

func verifControlWriterGood_BASE1_MAT2_IDX1_IDX3_ONEW_TOKW_AXIS3_GROUP1(meshes []ObjMesh, out io.Writer) {
	w := txt.NewWriter(out)
	verifCtlRecords(meshes, w)
	vBase, vnBase := 0, 0
	for _, om := range meshes {
		m := om.Mesh
		fmt.Fprintf(out, "g %s\n", om.Name)
		indices := m.Indices()
		mats := m.Materials()
		if len(mats) == 0 {
			verifCtlFace(indices, w, 0, indices.Len(), vBase, vnBase)
		} else {
			offset := 0
			for mi := 0; mi < len(mats); mi++ {
				verifCtlUsemtl(mats[mi].Material, w)
				next := offset + mats[mi].PrimitiveCount*3
				verifCtlFace(indices, w, offset, next, vBase, vnBase)
				offset = next
			}
		}
		vBase += m.AttributeLength()
		if m.HasFloat3Attribute(modeling.NormalAttribute) {
			vnBase += m.Float3Attribute(modeling.NormalAttribute).Len()
		}
	}
}

// one running base for every stream; ranges overlap; no group line
func verifControlWriterBad_BASE1_MAT2_GROUP1(meshes []ObjMesh, out io.Writer) {
	w := txt.NewWriter(out)
	verifCtlRecords(meshes, w)
	base := 0
	for _, om := range meshes {
		m := om.Mesh
		indices := m.Indices()
		mats := m.Materials()
		offset := 0
		for _, mat := range mats {
			verifCtlUsemtl(mat.Material, w)
			next := offset + mat.PrimitiveCount*3
			verifCtlFace(indices, w, offset, next, base, base)
			offset = next - 3
		}
		base += m.AttributeLength()
	}
}

func verifControlWriterBad_IDX3_ONEW_TOKW(meshes []ObjMesh, out io.Writer) {
	w := txt.NewWriter(out)
	verifCtlRecords(meshes, w)
	base := 0
	for _, om := range meshes {
		m := om.Mesh
		fmt.Fprintf(out, "g %s\n", om.Name)
		indices := m.Indices()
		verifCtlFaceOffByOne(indices, w, 0, indices.Len(), base)
		base += m.AttributeLength()
	}
}

func verifControlWriterBad_IDX1_AXIS3(meshes []ObjMesh, out io.Writer) {
	w := txt.NewWriter(out)
	for _, om := range meshes {
		m := om.Mesh
		pos := m.Float3Attribute(modeling.PositionAttribute)
		nrm := m.Float3Attribute(modeling.NormalAttribute)
		for i := 0; i < pos.Len(); i++ {
			p := nrm.At(i)
			w.StartEntry()
			w.String("vn ")
			w.Float64(p.X())
			w.Space()
			w.Float64(p.Z())
			w.Space()
			w.Float64(p.Y())
			w.NewLine()
			w.FinishEntry()
		}
	}
	base := 0
	for _, om := range meshes {
		m := om.Mesh
		fmt.Fprintf(out, "g %s\n", om.Name)
		indices := m.Indices()
		verifCtlFace(indices, w, 0, indices.Len(), base, base)
		base += m.AttributeLength()
	}
}
`
