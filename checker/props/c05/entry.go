package c05

import (
	"fmt"
	"go/types"
	"sort"
	"strings"

	"golang.org/x/tools/go/ssa"

	"polycheck/ob"
	"polycheck/ssau"
)

// ---------------------------------------------------------------- ENTRY-1

// ENTRY-1 — record typestate of the txt.Writer. The writer keeps ONE line
// buffer: StartEntry empties it, the token methods append to it, FinishEntry
// writes it out and leaves it as it is (TXT-1). So
//
//   - a token written while no entry is open is glued to the previous record's
//     bytes and is either discarded by the next StartEntry or emitted together
//     with a second copy of that record by the next FinishEntry;
//   - a FinishEntry without a StartEntry since the last FinishEntry emits the
//     previous record once more (one face / vertex too many on reading);
//   - a StartEntry while tokens are pending discards them;
//   - bytes sent to another sink while tokens are pending overtake them;
//   - a normal return with tokens pending loses them.
//
// Decided per function that creates a txt.Writer (root), with the helpers it
// hands the writer to — named functions, the functions a function variable may
// hold, closures, and functions received as parameters (entry(func(){…})) —
// inlined, so helpers that bracket a record and helpers that only add tokens
// inside an open entry are both judged in their calling context.
const (
	eClosed = 1 << iota // no entry open
	eOpen               // entry open, nothing appended yet
	eDirty              // entry open, tokens pending
)

type entryRule struct {
	x       *ctx
	viol    map[*ssa.Function]string
	at      map[*ssa.Function]ssa.Instruction
	touched map[*ssa.Function][3]int // start, finish, tokens seen
	root    *ssa.Function
}

func isTokenMethod(fn *types.Func) bool {
	return isTxtMethod(fn, "String", "Int", "Float64", "Float64MaxFigs", "Space", "NewLine", "Tab", "Append")
}

func callsTxtNewWriter(f *ssa.Function) bool {
	found := false
	liveInstrs(f, func(in ssa.Instruction) {
		if c, ok := in.(*ssa.Call); ok && isPkgFunc(calleeOf(c), txtPath, "NewWriter") {
			found = true
		}
	})
	return found
}

func (e *entryRule) flag(fn *ssa.Function, in ssa.Instruction, msg string) {
	if e.viol[fn] == "" {
		e.viol[fn] = msg + " (at " + e.x.P.Pos(ssau.PosOf(in)) + ", reached from " + shortFn(e.root) + ")"
		e.at[fn] = in
	}
}

func (e *entryRule) instr(fr *frame, in ssa.Instruction, s bits) bits {
	st := s[0]
	fn := in.Parent()
	switch t := in.(type) {
	case *ssa.Call:
		cal := calleeOf(t)
		tc := e.touched[fn]
		switch {
		case isPkgFunc(cal, txtPath, "NewWriter"):
			st = eClosed
		case isTxtMethod(cal, "StartEntry"):
			tc[0]++
			if st&eDirty != 0 {
				e.flag(fn, in, "StartEntry while tokens are pending in the line buffer: they are discarded (the record being assembled is lost)")
			}
			st = eOpen
		case isTxtMethod(cal, "FinishEntry"):
			tc[1]++
			if st&eClosed != 0 {
				e.flag(fn, in, "FinishEntry on a path with no StartEntry since the previous FinishEntry: the buffer still holds the previous record, which is written out a second time (with whatever was appended to it)")
			}
			st = eClosed
		case isTokenMethod(cal):
			tc[2]++
			if st&eClosed != 0 {
				e.flag(fn, in, "a token is appended to the line buffer while no entry is open (no StartEntry since the last FinishEntry): it is glued to the bytes of the previous record")
			}
			st = eDirty
		case isTxtMethod(cal, "Write"):
			if st&eDirty != 0 {
				e.flag(fn, in, "bytes are written through the writer while tokens are pending in the line buffer: they overtake the record being assembled")
			}
		default:
			// bytes to any other sink while a record is pending
			if st&eDirty != 0 && writesBytes(t) {
				e.flag(fn, in, "bytes are sent to a sink while tokens are pending in the line buffer of the txt.Writer: they overtake the record being assembled")
			}
		}
		e.touched[fn] = tc
	case *ssa.Return:
		if fr.parent == nil && st&eDirty != 0 && normalReturn(t) {
			e.flag(fn, in, "the function returns normally while tokens are pending in the line buffer: the last record is never written")
		}
	}
	s[0] = st
	return s
}

// writesBytes: fmt.Fprint*/io.WriteString/(io.Writer).Write-like calls.
func writesBytes(c *ssa.Call) bool {
	if c.Call.IsInvoke() {
		switch c.Call.Method.Name() {
		case "Write", "WriteString", "WriteByte", "WriteRune":
			return true
		}
		return false
	}
	cal := calleeOf(c)
	if cal == nil || cal.Pkg() == nil {
		return false
	}
	if cal.Pkg().Path() == "fmt" && strings.HasPrefix(cal.Name(), "Fprint") {
		return true
	}
	if cal.Pkg().Path() == "io" && cal.Name() == "WriteString" {
		return true
	}
	if ssau.RecvNamed(cal) != nil {
		switch cal.Name() {
		case "Write", "WriteString", "WriteByte", "WriteRune":
			return cal.Pkg().Path() != txtPath
		}
	}
	return false
}

func normalReturn(r *ssa.Return) bool {
	if len(r.Results) == 0 {
		return true
	}
	last := r.Results[len(r.Results)-1]
	if types.Identical(last.Type(), types.Universe.Lookup("error").Type()) {
		c, ok := last.(*ssa.Const)
		return ok && c.Value == nil
	}
	return true
}

func (x *ctx) entry1(fns []*ssa.Function, ctl bool) {
	// functions of the package that use a txt.Writer
	uses := map[*ssa.Function]bool{}
	for _, f := range fns {
		liveInstrs(f, func(in ssa.Instruction) {
			if c, ok := in.(*ssa.Call); ok {
				if cal := calleeOf(c); isTxtMethod(cal, "StartEntry", "FinishEntry") || isTokenMethod(cal) {
					uses[f] = true
				}
			}
		})
	}
	viol := map[*ssa.Function]string{}
	at := map[*ssa.Function]ssa.Instruction{}
	touched := map[*ssa.Function][3]int{}
	reached := map[*ssa.Function]bool{}
	var roots []*ssa.Function
	for _, f := range fns {
		if f.Parent() == nil && callsTxtNewWriter(f) {
			roots = append(roots, f)
		}
	}
	for _, root := range roots {
		e := &entryRule{x: x, viol: viol, at: at, touched: touched, root: root}
		scope := scopeOf(root)
		inScope := map[*ssa.Function]bool{}
		for _, g := range scope {
			if g == root || !callsTxtNewWriter(g) {
				inScope[g] = true
			}
		}
		fl := &flow{inScope: inScope, instr: func(fr *frame, in ssa.Instruction, s bits) bits {
			reached[in.Parent()] = true
			return e.instr(fr, in, s)
		}}
		// before NewWriter nothing is known to be open: start Closed
		fl.run(&frame{fn: root}, bits{eClosed, 0})
	}
	var users []*ssa.Function
	for f := range uses {
		users = append(users, f)
	}
	sort.Slice(users, func(i, j int) bool { return users[i].Pos() < users[j].Pos() })
	for _, f := range users {
		name := x.P.FuncName(f)
		switch {
		case viol[f] != "":
			x.record(ctl, "ENTRY-1", name, at[f], nil, viol[f], "")
		case !reached[f]:
			x.record(ctl, "ENTRY-1", name, nil, f, "", "uses a txt.Writer but is not reached from a function of the package that creates one: its record bracketing was not analysed")
		default:
			tc := touched[f]
			x.record(ctl, "ENTRY-1", name, nil, f, "", "", fmt.Sprintf("every FinishEntry has its StartEntry, every token lies inside an open entry (%d StartEntry, %d FinishEntry, %d token call visits in context)", tc[0], tc[1], tc[2]))
		}
	}
	if len(roots) == 0 && !ctl {
		x.R.Failf("ENTRY-1: no function of formats/obj creates a txt.Writer")
	}
}

// ---------------------------------------------------------------- SINK-1

// SINK-1 — one ordered path to the destination. Inside a function, once a
// buffering wrapper (bufio.NewWriter…; any constructor taking an io.Writer
// other than txt.NewWriter, whose pass-through behaviour TXT-1 decides) has been
// created over a destination, every later byte for that destination has to go
// through that wrapper — a write to the destination itself, or through another
// wrapper over it, overtakes the buffered bytes — and every normal return is
// preceded by the wrapper's Flush (or a deferred one), unless the wrapper
// escapes to the caller.
type sinkLink struct {
	ctor      *ssa.Call
	buffering bool
}

func writerLike(t types.Type) bool {
	if t == nil {
		return false
	}
	ms := types.NewMethodSet(t)
	for i := 0; i < ms.Len(); i++ {
		if ms.At(i).Obj().Name() == "Write" {
			if sig, ok := ms.At(i).Type().(*types.Signature); ok && sig.Params().Len() == 1 && sig.Results().Len() == 2 {
				return true
			}
		}
	}
	return false
}

// sinkChain follows v down to its base destination through wrapper constructors.
func sinkChain(v ssa.Value) (base ssa.Value, links []sinkLink) {
	for d := 0; d < 12; d++ {
		switch t := v.(type) {
		case *ssa.MakeInterface:
			v = t.X
		case *ssa.ChangeInterface:
			v = t.X
		case *ssa.ChangeType:
			v = t.X
		case *ssa.Call:
			cal := calleeOf(t)
			if cal == nil || t.Call.IsInvoke() || ssau.RecvNamed(cal) != nil {
				return v, links
			}
			var inner ssa.Value
			for _, a := range t.Call.Args {
				if writerLike(a.Type()) {
					inner = a
					break
				}
			}
			if inner == nil || !writerLike(t.Type()) {
				return v, links
			}
			links = append(links, sinkLink{t, !isPkgFunc(cal, txtPath, "NewWriter")})
			v = inner
		default:
			return v, links
		}
	}
	return v, links
}

func (x *ctx) sink1(fns []*ssa.Function, ctl bool) {
	for _, f := range fns {
		if f.Parent() != nil {
			continue
		}
		type write struct {
			call  ssa.CallInstruction
			sink  ssa.Value
			flush bool
		}
		var writes []write
		var ctors []*ssa.Call
		seenCtor := map[*ssa.Call]bool{}
		scope := []*ssa.Function{f}
		scope = append(scope, f.AnonFuncs...)
		for _, g := range scope {
			liveInstrs(g, func(in ssa.Instruction) {
				c, ok := in.(ssa.CallInstruction)
				if !ok {
					return
				}
				cc := c.Common()
				var sink ssa.Value
				flush := false
				if call, isCall := in.(*ssa.Call); isCall {
					if _, links := sinkChain(call); len(links) > 0 && links[0].ctor == call {
						return // a wrapper constructor is a link of the chain, not a write
					}
				}
				if cc.IsInvoke() {
					switch cc.Method.Name() {
					case "Write", "WriteString", "WriteByte", "WriteRune", "Flush", "ReadFrom":
						if writerLike(cc.Value.Type()) {
							sink = cc.Value
							flush = cc.Method.Name() == "Flush"
						}
					}
				} else {
					cal := calleeOf(c)
					for i, a := range cc.Args {
						if !writerLike(a.Type()) {
							continue
						}
						if cal != nil && ssau.RecvNamed(cal) != nil && i == 0 {
							// a method of the sink itself: only the byte-producing ones count
							switch cal.Name() {
							case "Write", "WriteString", "WriteByte", "WriteRune", "Flush", "ReadFrom":
							default:
								if !(isTxtMethod(cal, "StartEntry", "FinishEntry") || isTokenMethod(cal)) {
									continue
								}
							}
							flush = cal.Name() == "Flush"
						}
						sink = a
						break
					}
				}
				if sink == nil {
					return
				}
				writes = append(writes, write{c, sink, flush})
				_, links := sinkChain(sink)
				for _, l := range links {
					if l.buffering && !seenCtor[l.ctor] {
						seenCtor[l.ctor] = true
						ctors = append(ctors, l.ctor)
					}
				}
			})
		}
		// buffering constructors that are created but whose wrapper is never written through still count
		liveInstrs(f, func(in ssa.Instruction) {
			if c, ok := in.(*ssa.Call); ok && !seenCtor[c] {
				if _, links := sinkChain(c); len(links) > 0 && links[0].ctor == c && links[0].buffering {
					seenCtor[c] = true
					ctors = append(ctors, c)
				}
			}
		})
		anyCtor := false
		liveInstrs(f, func(in ssa.Instruction) {
			if c, ok := in.(*ssa.Call); ok {
				if _, links := sinkChain(c); len(links) > 0 && links[0].ctor == c {
					anyCtor = true
				}
			}
		})
		if len(writes) == 0 || !anyCtor {
			continue // nothing is wrapped in this function: a single sink by construction
		}
		name := x.P.FuncName(f)
		sort.Slice(ctors, func(i, j int) bool { return ctors[i].Pos() < ctors[j].Pos() })
		viol := ""
		var vat ssa.Instruction
		for _, b := range ctors {
			bBase, _ := sinkChain(b)
			for _, w := range writes {
				wi := w.call.(ssa.Instruction)
				base, links := sinkChain(w.sink)
				if base != bBase {
					continue
				}
				through := false
				for _, l := range links {
					if l.ctor == b {
						through = true
					}
				}
				if through {
					continue
				}
				if wi.Parent() == f && !ssau.CanFollow(b, wi) {
					continue // before the buffer exists
				}
				if viol == "" {
					viol = fmt.Sprintf("bytes are sent to the destination directly (at %s) although a buffering writer was created over the same destination at %s and later records go through it: what is written directly overtakes the buffered records (e.g. all 'g' lines end up before the faces they should separate)", x.P.Pos(ssau.PosOf(wi)), x.P.Pos(ssau.PosOf(b)))
					vat = wi
				}
			}
			// must flush
			if viol == "" && !escapes(b) {
				deferred := false
				var flushes []ssa.Instruction
				for _, w := range writes {
					if !w.flush {
						continue
					}
					if _, links := sinkChain(w.sink); len(links) > 0 && links[0].ctor == b {
						if _, isDefer := w.call.(*ssa.Defer); isDefer {
							deferred = true
						}
						flushes = append(flushes, w.call.(ssa.Instruction))
					}
				}
				if !deferred {
					liveInstrs(f, func(in ssa.Instruction) {
						r, ok := in.(*ssa.Return)
						if !ok || !normalReturn(r) || !ssau.CanFollow(b, r) || viol != "" {
							return
						}
						okFlush := false
						for _, fl := range flushes {
							if fl.Parent() == f && ssau.Before(fl, r) {
								okFlush = true
							}
						}
						if !okFlush {
							viol = fmt.Sprintf("a normal return (at %s) is not preceded by a Flush of the buffering writer created at %s: the tail of the output is lost", x.P.Pos(ssau.PosOf(r)), x.P.Pos(ssau.PosOf(b)))
							vat = r
						}
					})
				}
			}
		}
		if viol != "" {
			x.record(ctl, "SINK-1", name, vat, nil, viol, "")
		} else {
			x.record(ctl, "SINK-1", name, nil, f, "", "", fmt.Sprintf("%d byte-producing call(s); %d buffering wrapper(s); every write after a wrapper's creation goes through it and it is flushed before normal returns", len(writes), len(ctors)))
		}
	}
}

func escapes(c *ssa.Call) bool {
	for _, r := range ssau.Refs(c) {
		switch t := r.(type) {
		case *ssa.Return:
			return true
		case *ssa.Store:
			if t.Val == ssa.Value(c) {
				if _, local := t.Addr.(*ssa.Alloc); !local {
					return true
				}
			}
		case *ssa.MakeInterface:
			for _, r2 := range ssau.Refs(t) {
				if _, ok := r2.(*ssa.Return); ok {
					return true
				}
			}
		}
	}
	return false
}

// ---------------------------------------------------------------- NAME-2

// NAME-2 — names travel whole. The writer puts a group / material name on the
// rest of its line, unescaped. So on the reading side (a) the text the scanner
// returns must reach the tokeniser (strings.Fields, or Split on a blank) uncut:
// only TrimSpace / trimming of line terminators may be applied to it, any slice,
// cut or replacement of the line before tokenising truncates names that contain
// the character cut at (a '#', say) — comments have to be recognised on the
// line's first token, not by cutting lines; (b) the name stored for a record is
// all fields after the keyword (strings.Join(fields[1:], " ")), not one field.
func (x *ctx) name2(fns []*ssa.Function, ctl bool) {
	joinSeen := map[*ssa.Call]bool{}
	joinN := map[*ssa.Function]int{}
	for _, f := range fns {
		if f.Parent() != nil {
			continue
		}
		scope := scopeOf(f)
		// scanner texts read by this function itself (or its closures)
		texts := map[ssa.Value]bool{}
		own := append([]*ssa.Function{f}, f.AnonFuncs...)
		for _, g := range own {
			liveInstrs(g, func(in ssa.Instruction) {
				if c, ok := in.(*ssa.Call); ok {
					if cal := calleeOf(c); cal != nil && cal.Name() == "Text" && ssau.IsMethod(cal, "bufio", "Scanner", "Text") {
						texts[c] = true
					}
				}
			})
		}
		if len(texts) == 0 {
			continue
		}
		name := x.P.FuncName(f)
		// tokenisers: strings.Fields(x) / strings.Split(x, " ") whose result is subscripted [0] and compared with a constant
		var toks []*ssa.Call
		for _, g := range scope {
			liveInstrs(g, func(in ssa.Instruction) {
				c, ok := in.(*ssa.Call)
				if !ok {
					return
				}
				cal := calleeOf(c)
				if !(isPkgFunc(cal, "strings", "Fields") || isPkgFunc(cal, "strings", "Split") || isPkgFunc(cal, "strings", "SplitN")) {
					return
				}
				if !derivesFromText(c.Call.Args[0], texts, 0) {
					return
				}
				toks = append(toks, c)
			})
		}
		if len(toks) == 0 {
			x.record(ctl, "NAME-2", name+":line", nil, f, "", "the scanner's line never reaches strings.Fields / strings.Split: tokenisation not recognised")
			continue
		}
		sort.Slice(toks, func(i, j int) bool { return toks[i].Pos() < toks[j].Pos() })
		for i, tk := range toks {
			construct := fmt.Sprintf("%s:line→tokens#%d", name, i+1)
			why := uncut(tk.Call.Args[0], texts, map[ssa.Value]bool{}, 0)
			if why != "" {
				x.record(ctl, "NAME-2", construct, tk, nil, "the line is altered before it is tokenised ("+why+"): a group or material name containing the character cut at is truncated, and distinct names can collide", "")
			} else {
				x.record(ctl, "NAME-2", construct, tk, nil, "", "", "tokeniser receives scanner.Text() (TrimSpace at most)")
			}
		}
		// (b) the name taken in a g / usemtl / newmtl / o arm comes from a helper all of whose
		// successful returns are strings.Join(fields[1:], " ") (the Join itself is judged below)
		armN := 0
		for _, g := range own {
			liveInstrs(g, func(in ssa.Instruction) {
				c, ok := in.(*ssa.Call)
				if !ok {
					return
				}
				h := c.Call.StaticCallee()
				if h == nil || h.Blocks == nil || h.Pkg != f.Pkg || h.Signature.Results().Len() == 0 {
					return
				}
				if b, ok := h.Signature.Results().At(0).Type().Underlying().(*types.Basic); !ok || b.Kind() != types.String {
					return
				}
				tag, _, ok := armTag(c.Block())
				if !ok || !(tag == "g" || tag == "usemtl" || tag == "newmtl" || tag == "o") {
					return
				}
				armN++
				construct := fmt.Sprintf("%s:name(%s)#%d", name, tag, armN)
				bad := ""
				liveInstrs(h, func(in2 ssa.Instruction) {
					r, ok := in2.(*ssa.Return)
					if !ok || len(r.Results) == 0 || !normalReturn(r) {
						return
					}
					v := r.Results[0]
					for {
						tc, ok := v.(*ssa.Call)
						if ok && isPkgFunc(calleeOf(tc), "strings", "TrimSpace") {
							v = tc.Call.Args[0]
							continue
						}
						break
					}
					jc, ok := v.(*ssa.Call)
					if !ok || !isPkgFunc(calleeOf(jc), "strings", "Join") {
						bad = "the '" + tag + "' name returned by " + shortFn(h) + " is not strings.Join(fields[1:], \" \"): a name of several words (the writer emits it verbatim) is truncated"
					}
				})
				x.record(ctl, "NAME-2", construct, c, nil, bad, "", "name = "+shortFn(h)+"(fields) = Join(fields[1:], \" \")")
			})
		}
		// names = all fields after the keyword
		n := 0
		for _, g := range scope {
			liveInstrs(g, func(in ssa.Instruction) {
				c, ok := in.(*ssa.Call)
				if !ok || !isPkgFunc(calleeOf(c), "strings", "Join") {
					return
				}
				sl, ok := c.Call.Args[0].(*ssa.Slice)
				if !ok {
					return
				}
				if _, isStrs := sl.X.Type().Underlying().(*types.Slice); !isStrs {
					return
				}
				if joinSeen[c] {
					return
				}
				joinSeen[c] = true
				joinN[g]++
				n++
				construct := fmt.Sprintf("%s:name-join#%d", x.P.FuncName(g), joinN[g])
				lo, okLo := int64(0), sl.Low == nil
				if sl.Low != nil {
					lo, okLo = constInt(sl.Low)
				}
				sep, _ := constStr(c.Call.Args[1])
				switch {
				case !okLo || lo != 1 || sl.High != nil:
					x.record(ctl, "NAME-2", construct, c, nil, "a name is rebuilt from fields other than 'all fields after the keyword' (fields[1:]): words of the name are dropped", "")
				case sep != " ":
					x.record(ctl, "NAME-2", construct, c, nil, fmt.Sprintf("the words of a name are re-joined with %q instead of a blank", sep), "")
				default:
					x.record(ctl, "NAME-2", construct, c, nil, "", "", "name = strings.Join(fields[1:], \" \")")
				}
			})
		}
	}
}

func derivesFromText(v ssa.Value, texts map[ssa.Value]bool, d int) bool {
	if d > 8 || v == nil {
		return false
	}
	if texts[v] {
		return true
	}
	switch t := v.(type) {
	case *ssa.Call:
		for _, a := range t.Call.Args {
			if derivesFromText(a, texts, d+1) {
				return true
			}
		}
	case *ssa.Slice:
		return derivesFromText(t.X, texts, d+1)
	case *ssa.Phi:
		for _, e := range t.Edges {
			if derivesFromText(e, texts, d+1) {
				return true
			}
		}
	case *ssa.Extract:
		return derivesFromText(t.Tuple, texts, d+1)
	case *ssa.UnOp:
		if ld, ok := isLoad(t); ok {
			if a, ok := ld.X.(*ssa.Alloc); ok {
				for _, r := range allRefsOfCell(a) {
					if st, ok := r.(*ssa.Store); ok && derivesFromText(st.Val, texts, d+1) {
						return true
					}
				}
			}
		}
	case *ssa.Parameter:
		return false
	}
	return false
}

// uncut: v is scanner.Text() up to whitespace trimming; otherwise says what alters it.
func uncut(v ssa.Value, texts map[ssa.Value]bool, seen map[ssa.Value]bool, d int) string {
	if d > 8 {
		return "derivation too deep"
	}
	if texts[v] || seen[v] {
		return ""
	}
	seen[v] = true
	switch t := v.(type) {
	case *ssa.Call:
		cal := calleeOf(t)
		switch {
		case isPkgFunc(cal, "strings", "TrimSpace"):
			return uncut(t.Call.Args[0], texts, seen, d+1)
		case isPkgFunc(cal, "strings", "TrimRight"), isPkgFunc(cal, "strings", "TrimLeft"), isPkgFunc(cal, "strings", "Trim"), isPkgFunc(cal, "strings", "TrimSuffix"):
			if cs, ok := constStr(t.Call.Args[1]); ok && strings.Trim(cs, " \t\r\n") == "" {
				return uncut(t.Call.Args[0], texts, seen, d+1)
			}
			return "trimmed of characters other than white space"
		}
		if cal != nil {
			return "passed through " + cal.Name()
		}
		return "passed through a call"
	case *ssa.Slice:
		return "sliced (line[a:b])"
	case *ssa.Phi:
		for _, e := range t.Edges {
			if why := uncut(e, texts, seen, d+1); why != "" {
				return why
			}
		}
		return ""
	case *ssa.UnOp:
		if ld, ok := isLoad(t); ok {
			if a, ok := ld.X.(*ssa.Alloc); ok {
				for _, r := range allRefsOfCell(a) {
					if st, ok := r.(*ssa.Store); ok {
						if why := uncut(st.Val, texts, seen, d+1); why != "" {
							return why
						}
					}
				}
				return ""
			}
		}
	case *ssa.Extract:
		return uncut(t.Tuple, texts, seen, d+1)
	case *ssa.BinOp:
		return "concatenated / computed"
	}
	return "not the scanner's text (" + v.Name() + ")"
}

// ioRules runs ENTRY-1, SINK-1 and NAME-2 over the package and over their controls.
func (x *ctx) ioRules() {
	var fns, ctl []*ssa.Function
	for _, f := range x.P.FuncsOf(x.objPkg) {
		switch {
		case x.P.IsControl(f.Pos()):
			ctl = append(ctl, f)
		case !x.P.IsTestFile(f.Pos()):
			fns = append(fns, f)
		}
	}
	x.entry1(fns, false)
	x.sink1(fns, false)
	x.name2(fns, false)
	if len(ctl) == 0 {
		return
	}
	x.entry1(ctl, true)
	x.sink1(ctl, true)
	x.name2(ctl, true)
	for _, rc := range [][2]string{{"ENTRY-1", "ENTRY1"}, {"SINK-1", "SINK1"}, {"NAME-2", "NAME2"}} {
		bad, good := false, true
		for k := range x.ctlFired[rc[0]] {
			if strings.Contains(k, "verifControlIOBad_"+rc[1]) {
				bad = true
			}
			if strings.Contains(k, "verifControlIOGood") {
				good = false
			}
		}
		v := ob.Holds
		if bad {
			v = ob.Violation
		}
		x.R.Control(rc[0], "control:verifControlIOBad_"+rc[1], controlFile, v, ob.Violation, "positive control must be reported")
		v = ob.Holds
		if !good {
			v = ob.Violation
		}
		x.R.Control(rc[0], "control:verifControlIOGood", controlFile, v, ob.Holds, "accepted idioms must stay silent")
	}
}
