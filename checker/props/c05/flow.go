package c05

import (
	"golang.org/x/tools/go/ssa"
)

// A tiny forward dataflow engine over instruction sequences with inlining of
// the (few, small) helper functions and closures of the analysed function.
// The abstract state is a bit set (uint64) whose join is union, so every rule
// using it is a may-analysis over paths: a set bit means "some path reaches
// here in that abstract configuration". 0 = unreachable.

type frame struct {
	fn     *ssa.Function
	call   ssa.CallInstruction // call being inlined (nil for the root)
	parent *frame
}

// rootSite returns the instruction of the outermost function through which
// the current frame was entered (in itself for the root frame).
func (f *frame) rootSite(in ssa.Instruction) ssa.Instruction {
	for f.parent != nil {
		in = f.call
		f = f.parent
	}
	return in
}

func (f *frame) depth() int {
	d := 0
	for p := f.parent; p != nil; p = p.parent {
		d++
	}
	return d
}

func (f *frame) active(fn *ssa.Function) bool {
	for p := f; p != nil; p = p.parent {
		if p.fn == fn {
			return true
		}
	}
	return false
}

type flow struct {
	inScope map[*ssa.Function]bool
	// instr is the transfer function of one instruction (calls that are inlined
	// are not passed to it).
	instr func(f *frame, in ssa.Instruction, s uint64) uint64
	// edge refines / transforms the state along CFG edge from → from.Succs[succ].
	edge func(f *frame, from *ssa.BasicBlock, succ int, s uint64) uint64
	// opaque is called for calls that could have been inlined but were not
	// (recursion, depth): the rule must be conservative there.
	opaque func(f *frame, c ssa.CallInstruction, s uint64) uint64
}

// run analyses fr.fn from the entry state and returns the join of the states at its returns.
func (fl *flow) run(fr *frame, entry uint64) uint64 {
	fn := fr.fn
	if len(fn.Blocks) == 0 || entry == 0 {
		return entry
	}
	in := make([]uint64, len(fn.Blocks))
	in[0] = entry
	work := []*ssa.BasicBlock{fn.Blocks[0]}
	queued := map[*ssa.BasicBlock]bool{fn.Blocks[0]: true}
	var exit uint64
	iter := 0
	for len(work) > 0 && iter < 20000 {
		iter++
		b := work[0]
		work = work[1:]
		queued[b] = false
		s := in[b.Index]
		if s == 0 {
			continue
		}
		for _, ins := range b.Instrs {
			if s == 0 {
				break
			}
			if c, ok := ins.(ssa.CallInstruction); ok {
				if _, isGo := ins.(*ssa.Go); !isGo {
					if _, isDefer := ins.(*ssa.Defer); !isDefer {
						targets := calleeFns(c)
						var inl []*ssa.Function
						for _, g := range targets {
							if fl.inScope[g] && g.Blocks != nil {
								inl = append(inl, g)
							}
						}
						if len(inl) > 0 && len(inl) == len(targets) {
							var res uint64
							for _, g := range inl {
								if fr.active(g) || fr.depth() >= 4 {
									if fl.opaque != nil {
										res |= fl.opaque(fr, c, s)
									} else {
										res |= s
									}
									continue
								}
								res |= fl.run(&frame{fn: g, call: c, parent: fr}, s)
							}
							s = res
							continue
						}
					}
				}
			}
			if _, ok := ins.(*ssa.Return); ok {
				exit |= s
			}
			s = fl.instr(fr, ins, s)
		}
		if s == 0 {
			continue
		}
		for i, succ := range b.Succs {
			e := s
			if fl.edge != nil {
				e = fl.edge(fr, b, i, s)
			}
			if e|in[succ.Index] != in[succ.Index] {
				in[succ.Index] |= e
				if !queued[succ] {
					queued[succ] = true
					work = append(work, succ)
				}
			}
		}
	}
	return exit
}

// predIndex returns the index in to.Preds that corresponds to edge from.Succs[succ].
func predIndex(from *ssa.BasicBlock, succ int) int {
	to := from.Succs[succ]
	// count earlier identical successors to disambiguate double edges
	k := 0
	for i := 0; i < succ; i++ {
		if from.Succs[i] == to {
			k++
		}
	}
	for i, p := range to.Preds {
		if p == from {
			if k == 0 {
				return i
			}
			k--
		}
	}
	return -1
}
