package c05

import (
	"golang.org/x/tools/go/ssa"
)

// A tiny forward dataflow engine over instruction sequences with inlining of
// the (few, small) helper functions and closures of the analysed function.
// The abstract state is a bit set (bits, 128 wide) whose join is union, so every rule
// using it is a may-analysis over paths: a set bit means "some path reaches
// here in that abstract configuration". 0 = unreachable.

// bits is a 128-bit set.
type bits [2]uint64

func (a bits) or(b bits) bits { return bits{a[0] | b[0], a[1] | b[1]} }
func (a bits) isZero() bool   { return a[0] == 0 && a[1] == 0 }
func (a bits) has(i int) bool { return a[i>>6]&(1<<uint(i&63)) != 0 }
func (a bits) with(i int) bits {
	a[i>>6] |= 1 << uint(i&63)
	return a
}

type frame struct {
	fn     *ssa.Function
	call   ssa.CallInstruction // call being inlined (nil for the root)
	parent *frame
}

// rootSite returns the instruction of the outermost function through which
// the current frame was entered (in itself for the root frame).
func (f *frame) rootSite(in ssa.Instruction) ssa.Instruction {
	for f.parent != nil {
		in = f.call
		f = f.parent
	}
	return in
}

func (f *frame) depth() int {
	d := 0
	for p := f.parent; p != nil; p = p.parent {
		d++
	}
	return d
}

func (f *frame) active(fn *ssa.Function) bool {
	for p := f; p != nil; p = p.parent {
		if p.fn == fn {
			return true
		}
	}
	return false
}

// paramCallees resolves a call through a function-typed parameter of the
// function being inlined to the function(s) the caller passed (entry(func(){…})).
func (f *frame) paramCallees(v ssa.Value, depth int) []*ssa.Function {
	if depth > 4 || f == nil {
		return nil
	}
	switch t := v.(type) {
	case *ssa.Function:
		return []*ssa.Function{t}
	case *ssa.MakeClosure:
		if g, ok := t.Fn.(*ssa.Function); ok {
			return []*ssa.Function{g}
		}
	case *ssa.ChangeType:
		return f.paramCallees(t.X, depth+1)
	case *ssa.Parameter:
		if f.call == nil || t.Parent() != f.fn {
			return nil
		}
		a := callArg(f.call, paramIndex(t))
		if a == nil {
			return nil
		}
		if _, isP := a.(*ssa.Parameter); isP {
			return f.parent.paramCallees(a, depth+1)
		}
		return f.paramCallees(a, depth+1)
	}
	return nil
}

type flow struct {
	inScope map[*ssa.Function]bool
	// instr is the transfer function of one instruction (calls that are inlined
	// are not passed to it).
	instr func(f *frame, in ssa.Instruction, s bits) bits
	// edge refines / transforms the state along CFG edge from → from.Succs[succ].
	edge func(f *frame, from *ssa.BasicBlock, succ int, s bits) bits
	// opaque is called for calls that could have been inlined but were not
	// (recursion, depth): the rule must be conservative there.
	opaque func(f *frame, c ssa.CallInstruction, s bits) bits
}

// run analyses fr.fn from the entry state and returns the join of the states at its returns.
func (fl *flow) run(fr *frame, entry bits) bits {
	fn := fr.fn
	if len(fn.Blocks) == 0 || entry.isZero() {
		return entry
	}
	in := make([]bits, len(fn.Blocks))
	in[0] = entry
	work := []*ssa.BasicBlock{fn.Blocks[0]}
	queued := map[*ssa.BasicBlock]bool{fn.Blocks[0]: true}
	var exit bits
	iter := 0
	for len(work) > 0 && iter < 20000 {
		iter++
		b := work[0]
		work = work[1:]
		queued[b] = false
		s := in[b.Index]
		if s.isZero() {
			continue
		}
		for _, ins := range b.Instrs {
			if s.isZero() {
				break
			}
			if c, ok := ins.(ssa.CallInstruction); ok {
				if _, isGo := ins.(*ssa.Go); !isGo {
					if _, isDefer := ins.(*ssa.Defer); !isDefer {
						targets := calleeFns(c)
						if len(targets) == 0 {
							targets = fr.paramCallees(c.Common().Value, 0)
						}
						var inl []*ssa.Function
						for _, g := range targets {
							if fl.inScope[g] && g.Blocks != nil {
								inl = append(inl, g)
							}
						}
						if len(inl) > 0 && len(inl) == len(targets) {
							var res bits
							for _, g := range inl {
								if fr.active(g) || fr.depth() >= 4 {
									if fl.opaque != nil {
										res = res.or(fl.opaque(fr, c, s))
									} else {
										res = res.or(s)
									}
									continue
								}
								res = res.or(fl.run(&frame{fn: g, call: c, parent: fr}, s))
							}
							s = res
							continue
						}
					}
				}
			}
			if _, ok := ins.(*ssa.Return); ok {
				exit = exit.or(s)
			}
			s = fl.instr(fr, ins, s)
		}
		if s.isZero() {
			continue
		}
		for i, succ := range b.Succs {
			e := s
			if fl.edge != nil {
				e = fl.edge(fr, b, i, s)
			}
			if e.or(in[succ.Index]) != in[succ.Index] {
				in[succ.Index] = in[succ.Index].or(e)
				if !queued[succ] {
					queued[succ] = true
					work = append(work, succ)
				}
			}
		}
	}
	return exit
}

// predIndex returns the index in to.Preds that corresponds to edge from.Succs[succ].
func predIndex(from *ssa.BasicBlock, succ int) int {
	to := from.Succs[succ]
	// count earlier identical successors to disambiguate double edges
	k := 0
	for i := 0; i < succ; i++ {
		if from.Succs[i] == to {
			k++
		}
	}
	for i, p := range to.Preds {
		if p == from {
			if k == 0 {
				return i
			}
			k--
		}
	}
	return -1
}
