#!/usr/bin/env python3
"""Generate /verif/checker/mutants/c05.json from the harness definitions (scratch tool)."""
import json, os, shutil, subprocess, sys
sys.path.insert(0, '/tmp/verif_c05')
import harness as H

GEN = '/tmp/verif_c05/gen'
FILES = [H.R, H.W, H.T]
ORIG = {}


def setup():
    shutil.rmtree(GEN, ignore_errors=True)
    for f in FILES:
        os.makedirs(os.path.join(GEN, os.path.dirname(f)), exist_ok=True)
        src = subprocess.run(['git', '-C', '/repo', 'show', 'HEAD:' + f], stdout=subprocess.PIPE, check=True).stdout.decode()
        ORIG[f] = src
    H.WT = GEN


def restore():
    for f in FILES:
        open(os.path.join(GEN, f), 'w').write(ORIG[f])


def region(orig, new):
    ol, nl = orig.split('\n'), new.split('\n')
    p = 0
    while p < len(ol) and p < len(nl) and ol[p] == nl[p]:
        p += 1
    q = 0
    while q < len(ol) - p and q < len(nl) - p and ol[len(ol) - 1 - q] == nl[len(nl) - 1 - q]:
        q += 1
    # at least one line of context on both sides
    p = max(0, p - 1)
    q = max(0, q - 1)
    while True:
        find = '\n'.join(ol[p:len(ol) - q])
        repl = '\n'.join(nl[p:len(nl) - q])
        start = len('\n'.join(ol[:p])) + (1 if p > 0 else 0)
        if find and orig.find(find) == start:
            return find, repl
        if p == 0:
            raise SystemExit('cannot make fragment unique-first')
        p -= 1


DESC = {
    'S1': 'seed C05-1: usemtl arm skips the new range when the material repeats; later store overwrites the count',
    'S2': 'seed C05-2: faceWriter initialised before the mesh loop, switch without default (writer carried over)',
    'S3': 'seed C05-3: usemtl line omitted when the material equals the last one written',
    'K01': 'f arm: degenerate faces skipped before count and append', 'K02': 'v arm: repeated vertex not appended',
    'K03': 'writeFaceVerts: triangle skipped when two corners are equal', 'K04': 'vn loop: zero normals not written',
    'K05': 'vn emission also depends on len(meshes)', 'K06': 'g line skipped when the name equals the previous mesh',
    'K07': 'range with nil material skipped', 'K08': 'mesh named "hidden" skipped', 'K09': 'g arm: no hand-off when the name repeats',
    'K10': 'writer selection tests the first mesh', 'K11': 'flush closure accumulates (+=) without resetting the counter',
    'M01': 'g arm: flush before hand-off dropped (revert of fix)', 'M02': 'end of input: flush after toMesh (revert of fix)',
    'M03': 'flush closure: counter not reset', 'M05': 'usemtl arm: no Default range for faces before the first usemtl',
    'M06': 'flush into meshMats[0]', 'M08': 'f arm: continue after the count, before the append', 'M10': 'g arm: group not replaced after hand-off',
    'M12': "parser '//' branch: vn not decremented", 'M13': "parser: vn from piece 1 of the '/' split", 'M14': "parser: '//' branch removed",
    'M15': "vn arm appends to the v list", 'M16': 'toMesh: Position/Normal swapped', 'M17': 'parseObjVectorLine: New(x,z,y)',
    'M19': 'corner 2: readNormals[vt]', 'M20': 'corner 2: normals guarded by vt != -1', 'M21': 'append(tris, p1, p3, p2)',
    'M22': 'corner 3 parses components[2]', 'M24': 'g arm: name not stored', 'M25': 'g arm: no hand-off', 'M28': 'g arm: readNormals re-created',
    'M29': 'g arm: hand-off even when the group is empty', 'M30': 'usemtl: material always Default', 'M32': 'toMesh swaps indices after NewTriangleMesh',
    'T01': 'txt.Writer.Int base 16', 'T02': 'txt.Writer.StartEntry does not reset', 'T04': 'txt.Writer.FinishEntry conditional',
    'W01': 'base.vt advanced by the Normal length', 'W02': 'v/vt/vn writer: vn slot adds base.v', 'W03': 'base.vn += AttributeLength() unconditional (pinned defect)',
    'W04': 'v//vn writer: corners 2,3 swapped', 'W05': 'PrimitiveCount*2', 'W06': 'offset = nextOffset dropped', 'W07': 'len(mats) <= 1',
    'W08': 'usemtl call dropped', 'W09': 'vn loop from 1', 'W10': 'vn written X,Z,Y', 'W11': 'selection: normals → v/vt writer', 'W12': 'no g line',
    'W13': 'writeFaceVerts: a corner without +1', 'W14': 'normals tagged "vt "', 'W15': 'base.vn advanced before the faces', 'W16': 'v/vt writer: <= end',
    'W20': 'v//vn writer: no FinishEntry', 'W22': 'positions with Float64MaxFigs',
    'X01': 'pointer-typed group + flush after hand-off', 'X02': 'helper-method flush + no reset in g arm', 'X05': 'three int bases + vn base unconditional',
    'R01': 'rename locals', 'R02': 'flush as value-receiver method, counter in a register', 'R03': 'switch → if/else chain', 'R04': 'corner blocks → closure',
    'R05': 'hand-off → closure emitGroup', 'R06': 'Len() hoisted', 'R07': 'three int bases', 'R08': 'selection as switch over hoisted booleans',
    'R09': 'reordered statements, logging, unrelated field/function', 'R10': 'range → counted loop over materials', 'R11': 'usemtl arm restructured',
    'R12': 'face writer with hoisted shift', 'R13': 'v/vn loops → helper', 'R14': 'reset after the NEWMAT append', 'R15': "parser around one '/' split",
    'R16': 'pointer receivers', 'R17': 'pointer-typed working group', 'R18': 'vn section before vt', 'R19': 'continue-style g arm',
    'R20': 'accumulating flush (+=) everywhere', 'R21': 'faceWriter := writeFaceVerts before the loop, assigned on every path in it',
    'R22': 'repeated usemtl merged into the current range with accumulating flushes (correct merge)', 'R23': 'g-line condition via a hoisted boolean',
    'R24': 'emptiness test inline (len(tris) > 0)',
}

SELECT_M = ['S1', 'S2', 'S3'] + ['K%02d' % i for i in range(1, 12)] + \
    ['M01', 'M02', 'M03', 'M05', 'M06', 'M08', 'M10', 'M12', 'M13', 'M14', 'M15', 'M16', 'M17', 'M19', 'M20', 'M21', 'M22', 'M24', 'M25', 'M28', 'M29', 'M30', 'M32',
     'T01', 'T02', 'T04', 'W01', 'W02', 'W03', 'W04', 'W05', 'W06', 'W07', 'W08', 'W09', 'W10', 'W11', 'W12', 'W13', 'W14', 'W15', 'W16', 'W20', 'W22', 'X01', 'X02', 'X05']
SELECT_R = sorted(H.REFACTORS)


def entry(name, kind, table, notes):
    expect, edits = table[name]
    restore()
    for e in edits:
        if e[0] == '__custom__':
            e[1]()
        else:
            H.edit(*e)
    changed = []
    for f in FILES:
        new = open(os.path.join(GEN, f)).read()
        if new != ORIG[f]:
            find, repl = region(ORIG[f], new)
            changed.append((f, find, repl))
    if not changed:
        raise SystemExit(name + ': no change')
    m = {'name': '%s: %s' % (name, DESC.get(name, name)), 'kind': kind, 'file': changed[0][0], 'find': changed[0][1], 'replace': changed[0][2]}
    if len(changed) > 1:
        m['edits'] = [{'file': f, 'find': a, 'replace': b} for f, a, b in changed[1:]]
    if kind == 'mutant':
        m['expect'] = list(expect)
    if name in notes:
        m['note'] = notes[name]
    return m


def main():
    setup()
    notes = {}
    if os.path.exists('/tmp/verif_c05/full_run3.txt'):
        for l in open('/tmp/verif_c05/full_run3.txt'):
            parts = l.split()
            if len(parts) >= 4 and 'tests' in l:
                notes[parts[0]] = 'existing tests: ' + ('pass' if 'tests pass' in l else 'fail')
    out = []
    for n in SELECT_M:
        out.append(entry(n, 'mutant', H.MUTANTS, notes))
    for n in SELECT_R:
        out.append(entry(n, 'refactor', H.REFACTORS, notes))
    json.dump(out, open(sys.argv[1], 'w'), indent=1, ensure_ascii=False)
    print(len(out), 'entries')


main()
