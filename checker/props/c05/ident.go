package c05

import (
	"fmt"
	"go/token"
	"go/types"
	"sort"
	"strings"

	"golang.org/x/tools/go/ssa"

	"polycheck/eng"
	"polycheck/ob"
	"polycheck/ssau"
)

// ORD-2 (instance for formats/obj) — material identity depends on pointers:
// MeshMaterial.Material is a *modeling.Material and Load builds a name → pointer
// table. No function of the package may keep the address of a per-loop variable
// (the module's go directive selects the pre-1.22 semantics: one variable for the
// whole loop — the SSA builder then places its cell outside the loop) in a
// map / slice / field / closure that outlives the iteration: every kept pointer
// would name the last element. Engine: eng.LoopVarAddrEscapes (shared, as in C16).
// One obligation per function that contains a loop, keyed function#variable for
// violations.
func (x *ctx) ord2Obj() {
	var fns, ctl []*ssa.Function
	for _, f := range x.P.FuncsOf(x.objPkg) {
		if x.P.IsControl(f.Pos()) {
			ctl = append(ctl, f)
			continue
		}
		if x.P.IsTestFile(f.Pos()) {
			continue
		}
		fns = append(fns, f)
	}
	goVersion := "?"
	if pk := x.P.Pkg(objRel); pk != nil && pk.Module != nil {
		goVersion = pk.Module.GoVersion
	}
	escs, st := eng.LoopVarAddrEscapes(fns)
	byFn := map[*ssa.Function][]eng.LoopVarEscape{}
	for _, e := range escs {
		byFn[e.Fn] = append(byFn[e.Fn], e)
	}
	for _, fn := range fns {
		nl := len(ssau.Loops(fn))
		if nl == 0 {
			continue
		}
		name := x.P.FuncName(fn)
		es := byFn[fn]
		if len(es) == 0 {
			x.R.Hold("ORD-2", name, x.P.Pos(fn.Pos()), fmt.Sprintf("%d loop(s); no address of a variable declared outside a loop and re-assigned inside it is kept beyond the iteration (go directive %s)", nl, goVersion))
			continue
		}
		seen := map[string]bool{}
		for _, e := range es {
			construct := name + "#" + e.Var.Comment
			if seen[construct] {
				continue
			}
			seen[construct] = true
			x.R.Violate("ORD-2", construct, x.P.Pos(ssau.PosOf(e.At)),
				"address of per-loop variable '"+e.Var.Comment+"' "+e.How+" while the loop continues (go directive "+goVersion+": one variable for the whole loop): every kept pointer ends up naming the last iteration's value — e.g. every material name then maps to the last material",
				"variable declared at "+x.P.Pos(e.Var.Pos()))
		}
	}
	x.R.Extra["ord2_loops_examined"] = st.Loops
	x.R.Extra["ord2_reassigned_outer_vars"] = st.Candidates
	x.R.Extra["ord2_address_taken"] = st.AddrTaken
	if len(ctl) > 0 {
		cescs, _ := eng.LoopVarAddrEscapes(ctl)
		bad, good := false, true
		for _, e := range cescs {
			n := e.Fn.Name()
			if e.Fn.Parent() != nil {
				n = e.Fn.Parent().Name()
			}
			if strings.HasPrefix(n, "verifControlIdentBad_ORD2") {
				bad = true
			}
			if strings.HasPrefix(n, "verifControlIdentGood") {
				good = false
			}
		}
		v := ob.Holds
		if bad {
			v = ob.Violation
		}
		x.R.Control("ORD-2", "control:verifControlIdentBad_ORD2", controlFile, v, ob.Violation, "positive control must be reported")
		v = ob.Holds
		if !good {
			v = ob.Violation
		}
		x.R.Control("ORD-2", "control:verifControlIdentGood", controlFile, v, ob.Holds, "accepted idioms must stay silent")
	}
}

// MAT-3 — material identity plumbing in formats/obj:
//
//	(a) every insertion into a name table map[string]*modeling.Material stores,
//	    under key k, a pointer to a Material whose Name is k: the address of a
//	    slice element &s[i] with k read from that same element (directly or
//	    through the range copy of s[i]), or a fresh object whose Name field is
//	    assigned k; never the address of a named variable that a loop re-assigns;
//	(b) every in-place assignment list[j].Material = table[k] on a mesh's
//	    material list takes k from the Material.Name of entry j of that list
//	    (same index value), so entry j keeps its own material.
func (x *ctx) mat3(fns []*ssa.Function, ctl bool) {
	matT := lookupType(x.modeling, "Material")
	mmT := lookupType(x.modeling, "MeshMaterial")
	if matT == nil || mmT == nil {
		return
	}
	nameField := fieldNamed(matT, "Name")
	matField := fieldNamed(mmT, "Material")
	isMatPtr := func(t types.Type) bool {
		p, ok := t.Underlying().(*types.Pointer)
		return ok && types.Identical(p.Elem(), matT)
	}
	// elemOf: the slice element (slice value, index value) an address or a range copy denotes
	type elem struct {
		s, i ssa.Value
	}
	var elemOfAddr func(a ssa.Value) (elem, bool)
	elemOfAddr = func(a ssa.Value) (elem, bool) {
		switch t := a.(type) {
		case *ssa.IndexAddr:
			return elem{t.X, t.Index}, true
		case *ssa.Alloc:
			// range copy: exactly one kind of store, of a load of s[i]
			var e elem
			n := 0
			for _, r := range ssau.Refs(t) {
				if st, ok := r.(*ssa.Store); ok && st.Addr == ssa.Value(t) {
					ld, ok := isLoad(st.Val)
					if !ok {
						return elem{}, false
					}
					ia, ok := ld.X.(*ssa.IndexAddr)
					if !ok {
						return elem{}, false
					}
					e = elem{ia.X, ia.Index}
					n++
				}
			}
			return e, n == 1
		}
		return elem{}, false
	}
	sameSlice := func(a, b ssa.Value) bool {
		if a == b {
			return true
		}
		ca, ok1 := a.(*ssa.Call)
		cb, ok2 := b.(*ssa.Call)
		if ok1 && ok2 && isMeshMethod(calleeOf(ca), "Materials") && isMeshMethod(calleeOf(cb), "Materials") {
			return true // the mesh is compared through the element index of the enclosing loop, see below
		}
		return false
	}
	type site struct {
		in        ssa.Instruction
		construct string
		viol, und string
		fact      string
	}
	var sites []site
	for _, fn := range fns {
		name := x.P.FuncName(fn)
		nIns, nPatch := 0, 0
		liveInstrs(fn, func(in ssa.Instruction) {
			switch t := in.(type) {
			case *ssa.MapUpdate:
				mt, ok := t.Map.Type().Underlying().(*types.Map)
				if !ok || !isMatPtr(mt.Elem()) {
					return
				}
				if b, ok := mt.Key().Underlying().(*types.Basic); !ok || b.Kind() != types.String {
					return
				}
				nIns++
				s := site{in: t, construct: fmt.Sprintf("%s:name-table-insert#%d", name, nIns)}
				switch v := t.Value.(type) {
				case *ssa.IndexAddr:
					// key must be the Name of that element
					ok := false
					if ld, isL := isLoad(t.Key); isL {
						if fa, isF := ld.X.(*ssa.FieldAddr); isF && ssau.FieldOf(fa) == nameField {
							if e, isE := elemOfAddr(fa.X); isE && e.s == v.X && e.i == v.Index {
								ok = true
							}
						}
					}
					if ok {
						s.fact = "table[s[i].Name] = &s[i]"
					} else {
						s.viol = "a material is entered into the name table under a key that is not the Name of the element whose address is stored (key and &slice[i] disagree on slice or index): that name resolves to another material"
					}
				case *ssa.Alloc:
					if v.Heap && v.Comment != "" && !strings.Contains(v.Comment, "complit") && !strings.Contains(v.Comment, "new") {
						// a named variable: fine only if it is declared per iteration (its cell is created in the loop)
						if l := loopOf(t.Block()); l != nil && !l.Blocks[v.Block()] {
							s.viol = "the name table stores the address of the variable '" + v.Comment + "', which is declared outside the loop that fills the table and re-assigned by it: every name maps to the last material"
							break
						}
					}
					// fresh object: its Name must be assigned the key
					ok := false
					for _, r := range ssau.Refs(v) {
						if fa, isF := r.(*ssa.FieldAddr); isF && ssau.FieldOf(fa) == nameField {
							for _, r2 := range ssau.Refs(fa) {
								if st, isS := r2.(*ssa.Store); isS && st.Addr == ssa.Value(fa) && st.Val == t.Key {
									ok = true
								}
							}
						}
						// per-iteration copy `m := s[i]` / `mat := mat`: the key must be the copy's (or the source's) Name
						if st, isS := r.(*ssa.Store); isS && st.Addr == ssa.Value(v) {
							if ld, isL := isLoad(t.Key); isL {
								if fa, isF := ld.X.(*ssa.FieldAddr); isF && ssau.FieldOf(fa) == nameField {
									if fa.X == ssa.Value(v) {
										ok = true
									}
									if src, isL2 := isLoad(st.Val); isL2 && fa.X == src.X {
										ok = true
									}
								}
							}
						}
					}
					if s.viol == "" {
						if ok {
							s.fact = "table[k] = object with Name k (created per iteration)"
						} else {
							s.viol = "a material object is entered into the name table under a key that is not the Name it is given: that name resolves to another material"
						}
					}
				case *ssa.UnOp:
					// an existing pointer (element of a []*Material, range copy of it): the key must be its Name
					ok := false
					if ld, isL := isLoad(t.Key); isL {
						if fa, isF := ld.X.(*ssa.FieldAddr); isF && ssau.FieldOf(fa) == nameField {
							if fa.X == ssa.Value(v) {
								ok = true
							} else if l1, ok1 := isLoad(fa.X); ok1 {
								if l2, ok2 := isLoad(v); ok2 && l1.X == l2.X {
									ok = true
								}
							}
						}
					}
					if ok {
						s.fact = "table[p.Name] = p"
					} else {
						s.viol = "a material pointer is entered into the name table under a key that is not that material's Name: that name resolves to another material"
					}
				default:
					s.und = "value entered into the material name table is neither &slice[i] nor an object created for that name (" + describeVal(t.Value) + ")"
				}
				sites = append(sites, s)
			case *ssa.Store:
				fa, ok := t.Addr.(*ssa.FieldAddr)
				if !ok || ssau.FieldOf(fa) != matField {
					return
				}
				ia, ok := fa.X.(*ssa.IndexAddr)
				if !ok {
					return // literals being built: USEMTL-R
				}
				nPatch++
				s := site{in: t, construct: fmt.Sprintf("%s:entry-material-assign#%d", name, nPatch)}
				var lk *ssa.Lookup
				switch v := t.Val.(type) {
				case *ssa.Lookup:
					lk = v
				case *ssa.Extract:
					lk, _ = v.Tuple.(*ssa.Lookup)
				}
				if lk == nil {
					if _, isC := t.Val.(*ssa.Const); isC {
						return
					}
					s.und = "Material of an existing entry is assigned something that is not a name-table lookup"
					sites = append(sites, s)
					return
				}
				// key = <entry j>.Material.Name
				ok2 := false
				if ld, isL := isLoad(lk.Index); isL {
					if fn2, isF := ld.X.(*ssa.FieldAddr); isF && ssau.FieldOf(fn2) == nameField {
						if lm, isL2 := isLoad(fn2.X); isL2 {
							if fm, isF2 := lm.X.(*ssa.FieldAddr); isF2 && ssau.FieldOf(fm) == matField {
								if e, isE := elemOfAddr(fm.X); isE && e.i == ia.Index && sameSlice(e.s, ia.X) {
									ok2 = true
								}
							}
						}
					}
				}
				if ok2 {
					s.fact = "list[j].Material = table[list[j].Material.Name]"
				} else {
					s.viol = "entry j of a mesh's material list is given the material looked up under a name that is not entry j's own Material.Name (other index / other list): triangles of that range change material"
				}
				sites = append(sites, s)
			}
		})
	}
	sort.SliceStable(sites, func(i, j int) bool { return sites[i].construct < sites[j].construct })
	for _, s := range sites {
		x.record(ctl, "MAT-3", s.construct, s.in, nil, s.viol, s.und, s.fact)
	}
}

// identRules runs ORD-2 and MAT-3 over every function of formats/obj and their controls.
func (x *ctx) identRules() {
	x.ord2Obj()
	var fns, ctl []*ssa.Function
	for _, f := range x.P.FuncsOf(x.objPkg) {
		switch {
		case x.P.IsControl(f.Pos()):
			ctl = append(ctl, f)
		case !x.P.IsTestFile(f.Pos()):
			fns = append(fns, f)
		}
	}
	x.mat3(fns, false)
	readerScope := map[*ssa.Function]bool{}
	if rm := x.P.Func(objRel, "ReadMesh"); rm != nil {
		for _, g := range scopeOf(rm) {
			readerScope[g] = true
		}
	}
	x.mat4(fns, readerScope, false)
	if len(ctl) > 0 {
		x.mat3(ctl, true)
		x.mat4(ctl, map[*ssa.Function]bool{}, true)
		{
			bad, good := false, true
			for k := range x.ctlFired["MAT-4"] {
				if strings.Contains(k, "verifControlIdentBad_MAT4") {
					bad = true
				}
				if strings.Contains(k, "verifControlIdentGood") {
					good = false
				}
			}
			v := ob.Holds
			if bad {
				v = ob.Violation
			}
			x.R.Control("MAT-4", "control:verifControlIdentBad_MAT4", controlFile, v, ob.Violation, "positive control must be reported")
			v = ob.Holds
			if !good {
				v = ob.Violation
			}
			x.R.Control("MAT-4", "control:verifControlIdentGood", controlFile, v, ob.Holds, "accepted idioms must stay silent")
		}
		bad, good := false, true
		for k := range x.ctlFired["MAT-3"] {
			if strings.Contains(k, "verifControlIdentBad_MAT3") {
				bad = true
			}
			if strings.Contains(k, "verifControlIdentGood") {
				good = false
			}
		}
		v := ob.Holds
		if bad {
			v = ob.Violation
		}
		x.R.Control("MAT-3", "control:verifControlIdentBad_MAT3", controlFile, v, ob.Violation, "positive control must be reported")
		v = ob.Holds
		if !good {
			v = ob.Violation
		}
		x.R.Control("MAT-3", "control:verifControlIdentGood", controlFile, v, ob.Holds, "accepted idioms must stay silent")
	}
}

var _ = token.ADD

// MAT-4 — after reading, the list of material ranges is positional data: range
// k covers the triangles after ranges 0…k-1. Outside the reader itself
// (ReadMesh and what it calls) a function of the package that works on a mesh's
// Materials() may therefore only
//
//	(a) assign the Material pointer of entries in place — never PrimitiveCount;
//	(b) hand a list to SetMaterials that is the list it read, entry for entry:
//	    the very slice, or a copy built in a loop over all of Materials()
//	    (index 0…len-1) in which the append / indexed store of a copy of entry
//	    i lies on every path to the loop's back edge (no filtering `continue`),
//	    with PrimitiveCount of the copy untouched; a re-slice, a conditional
//	    append or any other construction drops or shifts ranges.
func (x *ctx) mat4(fns []*ssa.Function, readerScope map[*ssa.Function]bool, ctl bool) {
	mmT := lookupType(x.modeling, "MeshMaterial")
	if mmT == nil {
		return
	}
	matField := fieldNamed(mmT, "Material")
	isMM := func(t types.Type) bool { return isMatSlice(t) }
	for _, f := range fns {
		if readerScope[f] {
			continue
		}
		name := x.P.FuncName(f)
		loops := ssau.Loops(f)
		var matsCalls []*ssa.Call
		var setCalls []*ssa.Call
		var matStores, pcStores []*ssa.Store
		liveInstrs(f, func(in ssa.Instruction) {
			switch t := in.(type) {
			case *ssa.Call:
				if isMeshMethod(calleeOf(t), "Materials") {
					matsCalls = append(matsCalls, t)
				}
				if isMeshMethod(calleeOf(t), "SetMaterials") {
					setCalls = append(setCalls, t)
				}
			case *ssa.Store:
				fa, ok := t.Addr.(*ssa.FieldAddr)
				if !ok {
					return
				}
				ia, ok := fa.X.(*ssa.IndexAddr)
				if !ok || !isMM(ia.X.Type()) {
					return
				}
				switch ssau.FieldOf(fa) {
				case matField:
					matStores = append(matStores, t)
				case x.pcField:
					pcStores = append(pcStores, t)
				}
			}
		})
		if len(matStores) == 0 && len(pcStores) == 0 && (len(setCalls) == 0 || len(matsCalls) == 0) {
			continue
		}
		construct := name + ":range-list"
		isMats := func(v ssa.Value) bool {
			c, ok := v.(*ssa.Call)
			return ok && isMeshMethod(calleeOf(c), "Materials")
		}
		// (a)
		if len(pcStores) > 0 {
			x.record(ctl, "MAT-4", construct, pcStores[0], nil, "PrimitiveCount of an entry of an existing material list is assigned outside the reader: the range no longer covers the triangles it was read for, later ranges shift", "")
			continue
		}
		// (b)
		viol, und := "", ""
		var vat ssa.Instruction
		for _, sc := range setCalls {
			if len(matsCalls) == 0 {
				break
			}
			X := sc.Call.Args[1]
			var appends []*ssa.Call
			var makes []*ssa.MakeSlice
			web := map[ssa.Value]bool{}
			direct, resliced, unknown := false, false, ""
			var walk func(v ssa.Value, d int)
			walk = func(v ssa.Value, d int) {
				if v == nil || web[v] || d > 10 {
					return
				}
				web[v] = true
				switch t := v.(type) {
				case *ssa.Phi:
					for _, e := range t.Edges {
						walk(e, d+1)
					}
				case *ssa.Call:
					switch {
					case isMats(t):
						direct = true
					case ssau.Builtin(t) == "append":
						appends = append(appends, t)
						walk(t.Call.Args[0], d+1)
					default:
						unknown = "the list comes from a call of " + describeCond(t)
					}
				case *ssa.MakeSlice:
					makes = append(makes, t)
				case *ssa.Slice:
					if _, isPtr := t.X.Type().Underlying().(*types.Pointer); isPtr {
						return // make([]T, const) lowered to an array
					}
					resliced = true
				case *ssa.Const:
				case *ssa.ChangeType:
					walk(t.X, d+1)
				default:
					unknown = "the list is " + describeVal(v)
				}
			}
			walk(X, 0)
			switch {
			case resliced:
				viol, vat = "the list handed to SetMaterials is a re-slice of a material list: ranges are dropped, the remaining ones cover the wrong triangles", sc
			case unknown != "":
				und, vat = "SetMaterials on a mesh whose Materials() were read: "+unknown+" (construction of the new list not recognised)", sc
			case direct && len(appends) == 0:
				// the very list
			default:
				// every append / indexed store: full-range loop over Materials(), on every path, copy of entry i
				fullRangeLoop := func(at *ssa.BasicBlock) (*ssau.Loop, ssa.Value) {
					l := ssau.InnermostLoop(loops, at)
					if l == nil {
						return nil, nil
					}
					var idx ssa.Value
					for b := range l.Blocks {
						for _, in := range b.Instrs {
							ia, ok := in.(*ssa.IndexAddr)
							if !ok || !isMats(ia.X) {
								continue
							}
							r, _ := positionRange(ia.Index, loops)
							if r == nil || r.loop != l || len(r.init.terms) != 0 || r.init.c != 0 || r.step != 1 || r.slack != 0 || r.cmp.String() != "<" {
								continue
							}
							if bc, ok := stripConv(r.bound).(*ssa.Call); ok && ssau.Builtin(bc) == "len" && isMats(bc.Call.Args[0]) {
								idx = ia.Index
							}
						}
					}
					if idx == nil {
						return nil, nil
					}
					return l, idx
				}
				copyOfEntry := func(v ssa.Value, idx ssa.Value) string {
					ld, ok := isLoad(v)
					if !ok {
						return "what is put into the new list is not a copy of an entry of Materials()"
					}
					switch a := ld.X.(type) {
					case *ssa.IndexAddr:
						if isMats(a.X) && a.Index == idx {
							return ""
						}
					case *ssa.Alloc:
						src := false
						for _, r := range ssau.Refs(a) {
							switch t := r.(type) {
							case *ssa.Store:
								if t.Addr == ssa.Value(a) {
									if l2, ok := isLoad(t.Val); ok {
										if ia, ok := l2.X.(*ssa.IndexAddr); ok && isMats(ia.X) && ia.Index == idx {
											src = true
											continue
										}
									}
									return "what is put into the new list is not a copy of entry i of Materials()"
								}
							case *ssa.FieldAddr:
								if ssau.FieldOf(t) == x.pcField {
									for _, r2 := range ssau.Refs(t) {
										if st, ok := r2.(*ssa.Store); ok && st.Addr == ssa.Value(t) {
											return "PrimitiveCount of the copied entry is changed"
										}
									}
								}
							}
						}
						if src {
							return ""
						}
					}
					return "what is put into the new list is not a copy of entry i of Materials()"
				}
				if len(appends) == 0 && len(makes) == 0 {
					und, vat = "construction of the list handed to SetMaterials not recognised", sc
					break
				}
				for _, ap := range appends {
					l, idx := fullRangeLoop(ap.Block())
					if l == nil {
						viol, vat = "an entry is appended to the list handed to SetMaterials outside a loop over all entries (0…len-1) of Materials(): the new list is not the list read, entry for entry", ap
						continue
					}
					for _, latch := range l.Latch {
						if !ap.Block().Dominates(latch) {
							viol, vat = "the loop that rebuilds the material list can go on to the next entry without appending the current one (filtering): ranges are positional — dropping one shifts every later range onto the wrong triangles and leaves the tail uncovered", ap
						}
					}
					if viol != "" {
						continue
					}
					if sl, ok := ap.Call.Args[1].(*ssa.Slice); ok {
						if arr, ok := sl.X.(*ssa.Alloc); ok {
							for _, r := range ssau.Refs(arr) {
								if ia, ok := r.(*ssa.IndexAddr); ok {
									for _, r2 := range ssau.Refs(ia) {
										if st, ok := r2.(*ssa.Store); ok && st.Addr == ssa.Value(ia) {
											if why := copyOfEntry(st.Val, idx); why != "" {
												viol, vat = why, ap
											}
										}
									}
								}
							}
							continue
						}
					}
					und, vat = "appended entries cannot be inspected", ap
				}
				if len(appends) == 0 {
					// indexed stores into a make([]T, len(Materials()))
					for _, mk := range makes {
						lc, ok := stripConv(mk.Len).(*ssa.Call)
						if !ok || ssau.Builtin(lc) != "len" || !isMats(lc.Call.Args[0]) {
							viol, vat = "the new material list is not created with the length of the list read", mk
							continue
						}
						stored := false
						for _, r := range ssau.Refs(mk) {
							ia, ok := r.(*ssa.IndexAddr)
							if !ok {
								continue
							}
							for _, r2 := range ssau.Refs(ia) {
								st, ok := r2.(*ssa.Store)
								if !ok || st.Addr != ssa.Value(ia) {
									continue
								}
								stored = true
								l, idx := fullRangeLoop(st.Block())
								switch {
								case l == nil || ia.Index != idx:
									viol, vat = "entries of the new list are not stored at the index of the entry they copy, in a loop over all of Materials()", st
								default:
									for _, latch := range l.Latch {
										if !st.Block().Dominates(latch) {
											viol, vat = "the loop that rebuilds the material list can skip an entry", st
										}
									}
									if why := copyOfEntry(st.Val, idx); why != "" && viol == "" {
										viol, vat = why, st
									}
								}
							}
						}
						if !stored && viol == "" {
							und, vat = "the new material list is never filled", mk
						}
					}
				}
			}
		}
		fact := fmt.Sprintf("%d in-place Material assignment(s), no PrimitiveCount assignment, %d SetMaterials call(s) with the list read entry for entry", len(matStores), len(setCalls))
		x.record(ctl, "MAT-4", construct, vat, f, viol, und, fact)
	}
}
