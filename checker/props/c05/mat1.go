package c05

import (
	"fmt"
	"go/token"
	"go/types"
	"sort"

	"golang.org/x/tools/go/ssa"

	"polycheck/load"
	"polycheck/ssau"
)

// MAT-1 — typestate of the "faces since the last usemtl" counter of an OBJ
// reader. Roles are found by def-use, never by name:
//
//   counter   the int variable (SSA phi web, or a memory cell when it is
//             captured by a closure) whose value is stored into a
//             modeling.MeshMaterial.PrimitiveCount field
//   INC       counter = counter + k (k > 0)
//   RESET     counter = 0
//   FLUSH     entry.PrimitiveCount = counter for a slice element, or append of
//             a MeshMaterial literal whose PrimitiveCount is the counter
//   NEWMAT    append of a MeshMaterial literal with PrimitiveCount 0/unset
//   HANDOFF   call of (modeling.Mesh).SetMaterials (reached through helpers)
//
// Abstract configuration (a set of these is propagated, so correlations such as
// "unflushed only when the group has no material" survive joins):
//
//   U  the counter holds faces not recorded in an entry
//   Z  the counter is known to be zero
//   N  the counter may be non-zero although the entry/group it counted for is gone
//   P  faces of the working group were dropped from the counter while the group had no material entry
//   M  the working group's material list is known to be empty
//   E  the last entry already holds a stored (flushed) count
//   K  the counter was reset while E: it now counts from zero toward an entry whose
//      PrimitiveCount is already stored — a later plain store overwrites that count
//      (an accumulating flush, entry.PrimitiveCount += c, is fine)

const (
	bU = 1 << iota
	bZ
	bN
	bP
	bM
	bE
	bK
	nTuples = 128
)

type matSiteKind int

const (
	siteHandoff matSiteKind = iota
	siteInc
	siteReset
	siteNewMat
	siteFlushTarget
)

type matSite struct {
	kind  matSiteKind
	at    ssa.Instruction // instruction in the root function (call site when the event is in a helper)
	label string
	viol  string
	facts map[string]bool
}

type matRule struct {
	p        *load.Program
	root     *ssa.Function
	fns      []*ssa.Function
	res      *resolver
	pcField  *types.Var
	vals     map[ssa.Value]bool
	cells    map[ssa.Value]bool
	phis     map[*ssa.Phi]bool
	incAt    map[ssa.Instruction]int64
	resetAt  map[ssa.Instruction]bool
	flushAt  map[ssa.Instruction]bool
	accAt    map[ssa.Instruction]bool
	accVal   map[*ssa.Store]ssa.Value
	appendAt map[ssa.Instruction][]int // 1 flush, 2 newmat
	handoff  map[ssa.Instruction]bool
	matsKill map[ssa.Instruction]bool
	direct   map[ssa.Instruction]bool
	problems []matProblem
	sites    map[string]*matSite
	order    []string
	loops    map[*ssa.Function][]*ssau.Loop
}

type matProblem struct {
	at  ssa.Instruction
	msg string
}

func (m *matRule) problem(at ssa.Instruction, format string, a ...any) {
	m.problems = append(m.problems, matProblem{at, fmt.Sprintf(format, a...)})
}

func isMatSlice(t types.Type) bool { return sliceElemNamed(t, modelingPath, "MeshMaterial") }

func hasMatSliceField(t types.Type) bool {
	st, ok := t.Underlying().(*types.Struct)
	if !ok {
		return false
	}
	for i := 0; i < st.NumFields(); i++ {
		if isMatSlice(st.Field(i).Type()) {
			return true
		}
	}
	return false
}

func newMatRule(p *load.Program, root *ssa.Function, pcField *types.Var) *matRule {
	m := &matRule{p: p, root: root, pcField: pcField,
		vals: map[ssa.Value]bool{}, cells: map[ssa.Value]bool{}, phis: map[*ssa.Phi]bool{},
		incAt: map[ssa.Instruction]int64{}, resetAt: map[ssa.Instruction]bool{}, flushAt: map[ssa.Instruction]bool{}, accAt: map[ssa.Instruction]bool{}, accVal: map[*ssa.Store]ssa.Value{},
		appendAt: map[ssa.Instruction][]int{}, handoff: map[ssa.Instruction]bool{}, matsKill: map[ssa.Instruction]bool{},
		direct: map[ssa.Instruction]bool{}, sites: map[string]*matSite{}, loops: map[*ssa.Function][]*ssau.Loop{}}
	m.fns = scopeOf(root)
	m.res = newResolver(m.fns)
	return m
}

// isCellAddr: addr denotes (through closures) one of the counter cells.
func (m *matRule) isCellAddr(addr ssa.Value) bool {
	switch addr.(type) {
	case *ssa.Alloc, *ssa.FreeVar:
	default:
		return false
	}
	rs := m.res.roots(addr)
	if len(rs) == 0 {
		return false
	}
	for _, r := range rs {
		if !m.cells[r] {
			return false
		}
	}
	return true
}

func (m *matRule) pcStores() (inPlace, complit []*ssa.Store) {
	for _, f := range m.fns {
		liveInstrs(f, func(in ssa.Instruction) {
			s, ok := in.(*ssa.Store)
			if !ok {
				return
			}
			fa, ok := s.Addr.(*ssa.FieldAddr)
			if !ok || ssau.FieldOf(fa) != m.pcField {
				return
			}
			if _, isAlloc := fa.X.(*ssa.Alloc); isAlloc {
				complit = append(complit, s)
			} else {
				inPlace = append(inPlace, s)
			}
		})
	}
	return
}

// discover finds the counter class from the PrimitiveCount stores.
func (m *matRule) discover() {
	inPlace, complit := m.pcStores()
	all := append(append([]*ssa.Store{}, inPlace...), complit...)
	seenParam := map[*ssa.Parameter]bool{}
	var trace func(v ssa.Value, from ssa.Instruction, depth int)
	trace = func(v ssa.Value, from ssa.Instruction, depth int) {
		v = stripConv(v)
		if depth > 12 {
			return
		}
		switch x := v.(type) {
		case *ssa.Const:
		case *ssa.Phi:
			if m.phis[x] {
				return
			}
			m.phis[x] = true
			for _, e := range x.Edges {
				trace(e, x, depth+1)
			}
		case *ssa.BinOp:
			if x.Op == token.ADD {
				if k, ok := constInt(stripConv(x.Y)); ok && k > 0 {
					trace(x.X, x, depth+1)
					return
				}
				if k, ok := constInt(stripConv(x.X)); ok && k > 0 {
					trace(x.Y, x, depth+1)
					return
				}
			}
			// any other arithmetic: not the counter itself (reported where it is stored)
		case *ssa.UnOp:
			if x.Op != token.MUL {
				return
			}
			switch x.X.(type) {
			case *ssa.Alloc, *ssa.FreeVar:
				if isIntType(x.Type()) {
					for _, r := range m.res.roots(x.X) {
						if _, ok := r.(*ssa.Alloc); ok {
							m.cells[r] = true
						}
					}
				}
			}
		case *ssa.Parameter:
			if seenParam[x] || !isIntType(x.Type()) {
				return
			}
			seenParam[x] = true
			i := paramIndex(x)
			n := 0
			for _, c := range m.res.calls[x.Parent()] {
				if a := callArg(c, i); a != nil {
					trace(a, c, depth+1)
					n++
				}
			}
			if n > 0 {
				m.vals[x] = true
			}
		}
	}
	for _, s := range all {
		if _, isConst := stripConv(s.Val).(*ssa.Const); isConst {
			continue
		}
		// direct idiom: entry.PrimitiveCount = entry.PrimitiveCount + k
		// accumulating flush: entry.PrimitiveCount = entry.PrimitiveCount + counter
		if b, ok := stripConv(s.Val).(*ssa.BinOp); ok && b.Op == token.ADD {
			isPC := func(v ssa.Value) bool {
				if ld, ok := isLoad(stripConv(v)); ok {
					if fa, ok := ld.X.(*ssa.FieldAddr); ok && ssau.FieldOf(fa) == m.pcField {
						return true
					}
				}
				return false
			}
			var other ssa.Value
			switch {
			case isPC(b.X):
				other = b.Y
			case isPC(b.Y):
				other = b.X
			}
			if other != nil {
				if _, isC := constInt(stripConv(other)); isC {
					m.direct[s] = true
					continue
				}
				m.accVal[s] = stripConv(other)
				trace(other, s, 0)
				continue
			}
		}
		trace(s.Val, s, 0)
	}
	// memory-cell form: classify every store to a counter cell, collect loads
	for _, f := range m.fns {
		liveInstrs(f, func(in ssa.Instruction) {
			switch x := in.(type) {
			case *ssa.UnOp:
				if x.Op == token.MUL && m.isCellAddr(x.X) {
					m.vals[x] = true
				}
			}
		})
	}
	for _, f := range m.fns {
		liveInstrs(f, func(in ssa.Instruction) {
			s, ok := in.(*ssa.Store)
			if !ok || !m.isCellAddr(s.Addr) {
				return
			}
			v := stripConv(s.Val)
			if k, ok := constInt(v); ok {
				if k == 0 {
					m.resetAt[s] = true
				} else {
					m.problem(s, "pending-count variable assigned the constant %d", k)
				}
				return
			}
			if b, ok := v.(*ssa.BinOp); ok && b.Op == token.ADD {
				x, y := stripConv(b.X), stripConv(b.Y)
				if k, ok := constInt(y); ok && k > 0 && m.vals[x] {
					m.incAt[s] = k
					return
				}
				if k, ok := constInt(x); ok && k > 0 && m.vals[y] {
					m.incAt[s] = k
					return
				}
			}
			m.problem(s, "pending-count variable assigned a value that is neither 0 nor itself + const")
		})
	}
	// register form: classify every operand of the phi web
	var phis []*ssa.Phi
	for ph := range m.phis {
		phis = append(phis, ph)
	}
	sort.Slice(phis, func(i, j int) bool {
		return phis[i].Pos() < phis[j].Pos() || (phis[i].Pos() == phis[j].Pos() && phis[i].Name() < phis[j].Name())
	})
	for _, ph := range phis {
		m.vals[ph] = true
	}
	var isMember func(v ssa.Value, depth int) bool
	isMember = func(v ssa.Value, depth int) bool {
		v = stripConv(v)
		if depth > 8 {
			return false
		}
		if ph, ok := v.(*ssa.Phi); ok {
			return m.phis[ph]
		}
		if b, ok := v.(*ssa.BinOp); ok && b.Op == token.ADD {
			x, y := stripConv(b.X), stripConv(b.Y)
			if k, ok := constInt(y); ok && k > 0 && isMember(x, depth+1) {
				m.incAt[b] = k
				m.vals[b] = true
				return true
			}
			if k, ok := constInt(x); ok && k > 0 && isMember(y, depth+1) {
				m.incAt[b] = k
				m.vals[b] = true
				return true
			}
		}
		return false
	}
	for _, ph := range phis {
		for _, e := range ph.Edges {
			e = stripConv(e)
			if k, ok := constInt(e); ok {
				if k != 0 {
					m.problem(ph, "pending-count variable assigned the constant %d", k)
				}
				continue
			}
			if !isMember(e, 0) {
				m.problem(ph, "pending-count variable assigned a value that is neither 0 nor itself + const (%s)", e.Name())
			}
		}
	}
	// flush stores / complit stores
	complitVal := map[*ssa.Alloc]ssa.Value{}
	for _, s := range complit {
		complitVal[s.Addr.(*ssa.FieldAddr).X.(*ssa.Alloc)] = stripConv(s.Val)
	}
	for _, s := range inPlace {
		if m.direct[s] {
			continue
		}
		if av, ok := m.accVal[s]; ok {
			if m.vals[av] {
				m.flushAt[s] = true
				m.accAt[s] = true
			} else {
				m.problem(s, "PrimitiveCount increased by a value that is not the pending face counter (%s)", describeVal(av))
			}
			continue
		}
		v := stripConv(s.Val)
		if m.vals[v] {
			m.flushAt[s] = true
			continue
		}
		if k, ok := constInt(v); ok && k == 0 {
			continue
		}
		m.problem(s, "PrimitiveCount assigned a value that is not the pending face counter (%s)", describeVal(v))
	}
	// appends on material lists, hand-offs, kills
	for _, f := range m.fns {
		liveInstrs(f, func(in ssa.Instruction) {
			switch x := in.(type) {
			case *ssa.Call:
				if ssau.Builtin(x) == "append" && len(x.Call.Args) == 2 && isMatSlice(x.Call.Args[0].Type()) {
					m.appendAt[x] = m.classifyAppend(x, complitVal)
					return
				}
				if isMeshMethod(calleeOf(x), "SetMaterials") {
					m.handoff[x] = true
				}
			case *ssa.Store:
				t := x.Val.Type()
				if hasMatSliceField(t) {
					// a by-value copy into a callee's parameter slot does not change the working group
					if a, ok := x.Addr.(*ssa.Alloc); ok {
						if _, spill := paramSpill(a); spill {
							return
						}
					}
					m.matsKill[x] = true
				}
				if isMatSlice(t) {
					if c, ok := x.Val.(*ssa.Call); !ok || ssau.Builtin(c) != "append" {
						m.matsKill[x] = true
					}
				}
			}
		})
	}
}

func describeVal(v ssa.Value) string {
	if b, ok := v.(*ssa.BinOp); ok {
		return "arithmetic " + b.Op.String() + " result"
	}
	return v.Name() + " : " + v.Type().String()
}

// classifyAppend: what is appended to a []MeshMaterial.
func (m *matRule) classifyAppend(call *ssa.Call, complitVal map[*ssa.Alloc]ssa.Value) []int {
	sl, ok := call.Call.Args[1].(*ssa.Slice)
	if !ok {
		m.problem(call, "material list extended by a slice whose entries cannot be inspected")
		return nil
	}
	arr, ok := sl.X.(*ssa.Alloc)
	if !ok {
		m.problem(call, "material list extended by a slice whose entries cannot be inspected")
		return nil
	}
	type el struct {
		idx  int64
		kind int
	}
	var els []el
	for _, r := range ssau.Refs(arr) {
		ia, ok := r.(*ssa.IndexAddr)
		if !ok {
			continue
		}
		idx, _ := constInt(ia.Index)
		for _, rr := range ssau.Refs(ia) {
			st, ok := rr.(*ssa.Store)
			if !ok || st.Addr != ia {
				continue
			}
			kind := 0
			if c, ok := st.Val.(*ssa.Const); ok && c.Value == nil {
				kind = 2 // zero-valued MeshMaterial{}
			}
			if ld, ok := isLoad(st.Val); ok {
				if a, ok := ld.X.(*ssa.Alloc); ok {
					v, has := complitVal[a]
					switch {
					case !has:
						kind = 2
					case m.vals[v]:
						kind = 1
					default:
						if k, ok := constInt(v); ok && k == 0 {
							kind = 2
						}
					}
				}
			}
			if kind == 0 {
				m.problem(call, "material entry appended whose PrimitiveCount is neither the pending counter nor 0")
			}
			els = append(els, el{idx, kind})
		}
	}
	sort.Slice(els, func(i, j int) bool { return els[i].idx < els[j].idx })
	var out []int
	for _, e := range els {
		if e.kind != 0 {
			out = append(out, e.kind)
		}
	}
	return out
}

// ---- dataflow

func mapTuples(s bits, f func(t int) int) bits {
	var out bits
	for t := 0; t < nTuples; t++ {
		if s.has(t) {
			if n := f(t); n >= 0 {
				out = out.with(n)
			}
		}
	}
	return out
}

func anyTuple(s bits, f func(t int) bool) bool {
	for t := 0; t < nTuples; t++ {
		if s.has(t) && f(t) {
			return true
		}
	}
	return false
}

func (m *matRule) site(kind matSiteKind, fr *frame, in ssa.Instruction, label string) *matSite {
	at := fr.rootSite(in)
	key := fmt.Sprintf("%d/%p/%s", kind, at, label)
	s := m.sites[key]
	if s == nil {
		s = &matSite{kind: kind, at: at, label: label, facts: map[string]bool{}}
		m.sites[key] = s
		m.order = append(m.order, key)
	}
	return s
}

func (m *matRule) doReset(fr *frame, in ssa.Instruction, s bits) bits {
	st := m.site(siteReset, fr, in, "")
	if anyTuple(s, func(t int) bool { return t&bU != 0 && t&bM == 0 }) {
		st.viol = "pending face count reset on a path where it has not been recorded in a MeshMaterial.PrimitiveCount: those faces belong to no material range"
	}
	return mapTuples(s, func(t int) int {
		if t&bU != 0 && t&bM != 0 {
			t |= bP
		}
		if t&bE != 0 {
			t |= bK
		}
		return (t &^ (bU | bN)) | bZ
	})
}

func (m *matRule) instr(fr *frame, in ssa.Instruction, s bits) bits {
	if k, ok := m.incAt[in]; ok {
		st := m.site(siteInc, fr, in, "")
		st.facts[fmt.Sprintf("increment by %d", k)] = true
		if anyTuple(s, func(t int) bool { return t&bN != 0 }) {
			st.viol = "pending face counter incremented on a path where it was not reset after the previous group was handed off / the previous material range was closed: faces of the earlier group are counted into the next range"
		}
		return mapTuples(s, func(t int) int { return (t | bU) &^ bZ })
	}
	if m.resetAt[in] {
		return m.doReset(fr, in, s)
	}
	if m.flushAt[in] {
		st := m.site(siteFlushTarget, fr, in, "")
		m.checkLast(in.(*ssa.Store), st)
		if m.accAt[in] {
			st.facts["accumulating flush (entry.PrimitiveCount += pending)"] = true
			// the counter's content is consumed: it has to be reset before it counts on
			return mapTuples(s, func(t int) int {
				t = (t &^ (bU | bM | bK)) | bE
				if t&bZ == 0 {
					t |= bN
				}
				return t
			})
		}
		if st.viol == "" && anyTuple(s, func(t int) bool { return t&bK != 0 }) {
			st.viol = "the pending count is stored (not added) into a range whose PrimitiveCount had already been stored and after which the counter restarted from zero without a new range being opened: the faces recorded earlier in that range are overwritten (lost on re-save, later ranges shift)"
		}
		return mapTuples(s, func(t int) int { return (t &^ (bU | bM | bK)) | bE })
	}
	if kinds, ok := m.appendAt[in]; ok {
		for _, k := range kinds {
			switch k {
			case 1:
				s = mapTuples(s, func(t int) int { return (t &^ (bU | bM | bK)) | bE })
			case 2:
				st := m.site(siteNewMat, fr, in, "")
				if anyTuple(s, func(t int) bool { return t&bU != 0 }) {
					st.viol = "a new material range is started on a path where the faces read before it are not recorded in the previous range (or in a default range when the group had none): every later range is shifted"
				} else if anyTuple(s, func(t int) bool { return t&bP != 0 }) {
					st.viol = "a new material range is started although faces read before the group's first usemtl were dropped from the count without a range of their own: every later range is shifted"
				}
				s = mapTuples(s, func(t int) int {
					t &^= bM | bE | bK
					if t&bZ == 0 {
						t |= bN
					}
					return t
				})
			}
		}
		if len(kinds) == 0 {
			s = mapTuples(s, func(t int) int { return t &^ bM })
		}
		return s
	}
	if m.handoff[in] {
		callee := ""
		if fr.parent != nil {
			callee = shortFn(fr.fn)
			for p := fr; p.parent != nil; p = p.parent {
				callee = shortFn(p.fn)
			}
		} else {
			callee = "Mesh.SetMaterials"
		}
		st := m.site(siteHandoff, fr, in, callee)
		st.facts["hand-off = (modeling.Mesh).SetMaterials at "+m.p.Pos(ssau.PosOf(in))] = true
		if anyTuple(s, func(t int) bool { return t&bU != 0 && t&bM == 0 }) {
			st.viol = "the working group's material list is handed to the mesh on a path where the faces counted since the last usemtl have not been stored into the last MeshMaterial.PrimitiveCount: that range reaches the mesh with the wrong length (its faces are lost on re-save)"
		}
		return mapTuples(s, func(t int) int {
			t &^= bU | bP | bM | bE | bK
			if t&bZ == 0 {
				t |= bN
			}
			return t
		})
	}
	if m.matsKill[in] {
		// the group variable is replaced: nothing is known about the new list, and it has no stored entry yet
		return mapTuples(s, func(t int) int { return t &^ (bM | bE | bK) })
	}
	return s
}

// checkLast: an in-place flush must address the last entry: X[len(X)-1].
func (m *matRule) checkLast(s *ssa.Store, st *matSite) {
	fa := s.Addr.(*ssa.FieldAddr)
	ia, ok := fa.X.(*ssa.IndexAddr)
	if !ok {
		return
	}
	l := linOf(ia.Index, nil)
	at, c, ok := l.single()
	bad := "pending count is stored into an entry that is not the last one of the material list (index " + l.String() + ")"
	if !ok || c != -1 {
		st.viol = bad
		return
	}
	call, ok := at.(*ssa.Call)
	if !ok || ssau.Builtin(call) != "len" {
		st.viol = bad
		return
	}
	if !m.sameVar(call.Call.Args[0], ia.X) {
		st.viol = "pending count is stored into list A at index len(B)-1 with A and B different variables"
		return
	}
	st.facts["target index = len(list)-1"] = true
}

// sameVar: two slice values are reads of the same variable.
func (m *matRule) sameVar(a, b ssa.Value) bool {
	if a == b {
		return true
	}
	la, ok1 := isLoad(a)
	lb, ok2 := isLoad(b)
	if !ok1 || !ok2 {
		return false
	}
	return m.sameAddr(la.X, lb.X)
}

func (m *matRule) sameAddr(a, b ssa.Value) bool {
	if a == b {
		return true
	}
	fa, ok1 := a.(*ssa.FieldAddr)
	fb, ok2 := b.(*ssa.FieldAddr)
	if ok1 && ok2 {
		return fa.Field == fb.Field && m.sameAddr(fa.X, fb.X)
	}
	if ok1 != ok2 {
		return false
	}
	ra, rb := m.res.roots(a), m.res.roots(b)
	if len(ra) != 1 || len(rb) != 1 {
		return false
	}
	return ra[0] == rb[0]
}

// condInfo classifies an If condition: subject 1 = counter, 2 = len(material list).
// truth[x] is the outcome for subject value x ∈ 0..3.
func (m *matRule) condInfo(v ssa.Value) (subject int, truth [4]bool) {
	neg := false
	for {
		u, ok := v.(*ssa.UnOp)
		if !ok || u.Op != token.NOT {
			break
		}
		neg = !neg
		v = u.X
	}
	b, ok := v.(*ssa.BinOp)
	if !ok {
		return 0, truth
	}
	classify := func(x ssa.Value) int {
		x = stripConv(x)
		if m.vals[x] {
			return 1
		}
		if c, ok := x.(*ssa.Call); ok && ssau.Builtin(c) == "len" && isMatSlice(c.Call.Args[0].Type()) {
			return 2
		}
		return 0
	}
	var k int64
	constLeft := false
	if kk, ok := constInt(stripConv(b.Y)); ok {
		k = kk
		subject = classify(b.X)
	} else if kk, ok := constInt(stripConv(b.X)); ok {
		k = kk
		constLeft = true
		subject = classify(b.Y)
	}
	if subject == 0 {
		return 0, truth
	}
	for x := int64(0); x < 4; x++ {
		l, r := x, k
		if constLeft {
			l, r = k, x
		}
		var t bool
		switch b.Op {
		case token.EQL:
			t = l == r
		case token.NEQ:
			t = l != r
		case token.LSS:
			t = l < r
		case token.LEQ:
			t = l <= r
		case token.GTR:
			t = l > r
		case token.GEQ:
			t = l >= r
		default:
			return 0, truth
		}
		truth[x] = t != neg
	}
	return subject, truth
}

func (m *matRule) edge(fr *frame, from *ssa.BasicBlock, succ int, s bits) bits {
	if ifi, ok := from.Instrs[len(from.Instrs)-1].(*ssa.If); ok && from.Succs[0] != from.Succs[1] {
		subject, truth := m.condInfo(ifi.Cond)
		if subject != 0 {
			want := succ == 0
			onlyZero := truth[0] == want
			for x := 1; x < 4; x++ {
				if truth[x] == want {
					onlyZero = false
				}
			}
			excludesZero := truth[0] != want
			switch subject {
			case 1:
				if onlyZero {
					s = mapTuples(s, func(t int) int { return (t &^ (bU | bN)) | bZ })
				} else if excludesZero {
					s = mapTuples(s, func(t int) int {
						if t&bZ != 0 {
							return -1
						}
						return t
					})
				}
			case 2:
				if onlyZero {
					s = mapTuples(s, func(t int) int { return t | bM })
				} else if excludesZero {
					s = mapTuples(s, func(t int) int {
						if t&bM != 0 {
							return -1
						}
						return t
					})
				}
			}
		}
	}
	// register form: assignments happen on the edge into a phi of the web
	to := from.Succs[succ]
	pi := predIndex(from, succ)
	for _, in := range to.Instrs {
		ph, ok := in.(*ssa.Phi)
		if !ok {
			break
		}
		if !m.phis[ph] || pi < 0 {
			continue
		}
		if k, ok := constInt(stripConv(ph.Edges[pi])); ok && k == 0 {
			// a per-edge pseudo instruction: key the site by the phi and the predecessor's terminator
			s = m.doReset(fr, from.Instrs[len(from.Instrs)-1], s)
		}
	}
	return s
}

func (m *matRule) run() {
	fl := &flow{inScope: m.res.inScope, instr: m.instr, edge: m.edge}
	fl.run(&frame{fn: m.root}, bits{}.with(0)) // start: nothing known (no bit set in the tuple)
}
