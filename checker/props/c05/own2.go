package c05

import (
	"fmt"
	"go/types"
	"sort"

	"golang.org/x/tools/go/ssa"

	"polycheck/ssau"
)

// OWN-2 (instance for the OBJ reader): a slice handed to a mesh ingestion call
// (modeling.New*Mesh, Mesh.SetIndices / SetMaterials / SetFloatNAttribute /
// SetFloatNData) is owned by the mesh from that program point. Any later
// element store / append / copy-into through the same variable (same memory
// cell and field, followed through closures and by-value struct copies) that
// is reachable without the variable having been re-assigned is a violation.

type ownPath struct {
	root  ssa.Value
	field int // -1: the variable itself
	name  string
}

type ownPair struct {
	site ssa.Instruction // hand-off call in the root function
	path int
}

type ownRule struct {
	x      *ctx
	root   *ssa.Function
	fns    []*ssa.Function
	res    *resolver
	paths  []ownPath
	pairs  []ownPair
	viol   map[int][]string // pair -> messages
	violAt map[int]ssa.Instruction
	label  map[ssa.Instruction]string
	tooBig bool
}

func ingestion(fn *types.Func) bool {
	if fn == nil || fn.Pkg() == nil || fn.Pkg().Path() != modelingPath {
		return false
	}
	if ssau.RecvNamed(fn) == nil {
		switch fn.Name() {
		case "NewMesh", "NewTriangleMesh", "NewPointCloud", "NewLineStripMesh":
			return true
		}
		return false
	}
	return isMeshMethod(fn, "SetIndices", "SetMaterials",
		"SetFloat1Attribute", "SetFloat2Attribute", "SetFloat3Attribute", "SetFloat4Attribute",
		"SetFloat1Data", "SetFloat2Data", "SetFloat3Data", "SetFloat4Data")
}

func (o *ownRule) pathIdx(root ssa.Value, field int, name string) int {
	for i, p := range o.paths {
		if p.root == root && p.field == field {
			return i
		}
	}
	o.paths = append(o.paths, ownPath{root, field, name})
	return len(o.paths) - 1
}

func (o *ownRule) pairIdx(site ssa.Instruction, path int) int {
	for i, p := range o.pairs {
		if p.site == site && p.path == path {
			return i
		}
	}
	if len(o.pairs) >= 63 {
		o.tooBig = true
		return -1
	}
	o.pairs = append(o.pairs, ownPair{site, path})
	return len(o.pairs) - 1
}

func fieldName(fa *ssa.FieldAddr) string {
	if f := ssau.FieldOf(fa); f != nil {
		return f.Name()
	}
	return fmt.Sprintf("#%d", fa.Field)
}

// addrPaths: the variables an address denotes.
func (o *ownRule) addrPaths(addr ssa.Value) []int {
	var out []int
	switch a := addr.(type) {
	case *ssa.FieldAddr:
		for _, r := range o.res.roots(a.X) {
			out = append(out, o.pathIdx(r, a.Field, fieldName(a)))
		}
	case *ssa.Alloc, *ssa.FreeVar, *ssa.Parameter:
		for _, r := range o.res.roots(a) {
			n := r.Name()
			if al, ok := r.(*ssa.Alloc); ok && al.Comment != "" {
				n = al.Comment
			}
			out = append(out, o.pathIdx(r, -1, n))
		}
	}
	return out
}

// valuePaths: the variables whose backing array a slice value may share.
func (o *ownRule) valuePaths(v ssa.Value) []int {
	seen := map[ssa.Value]bool{}
	var out []int
	var walk func(v ssa.Value, d int)
	walk = func(v ssa.Value, d int) {
		if v == nil || seen[v] || d > 10 {
			return
		}
		seen[v] = true
		switch x := v.(type) {
		case *ssa.UnOp:
			if _, ok := isLoad(x); ok {
				out = append(out, o.addrPaths(x.X)...)
			}
		case *ssa.Field:
			if ld, ok := isLoad(x.X); ok {
				for _, r := range o.res.roots(ld.X) {
					st, _ := x.X.Type().Underlying().(*types.Struct)
					n := fmt.Sprintf("#%d", x.Field)
					if st != nil {
						n = st.Field(x.Field).Name()
					}
					out = append(out, o.pathIdx(r, x.Field, n))
				}
			}
		case *ssa.Slice:
			if _, isPtr := x.X.Type().Underlying().(*types.Pointer); !isPtr {
				walk(x.X, d+1)
			}
		case *ssa.Phi:
			for _, e := range x.Edges {
				walk(e, d+1)
			}
		case *ssa.ChangeType:
			walk(x.X, d+1)
		case *ssa.Call:
			if ssau.Builtin(x) == "append" {
				walk(x.Call.Args[0], d+1)
			}
		case *ssa.Parameter:
			i := paramIndex(x)
			for _, c := range o.res.calls[x.Parent()] {
				walk(callArg(c, i), d+1)
			}
		}
	}
	walk(v, 0)
	return out
}

func isSliceOrMap(t types.Type) bool {
	switch t.Underlying().(type) {
	case *types.Slice, *types.Map:
		return true
	}
	return false
}

func (o *ownRule) owned(s uint64, paths []int) []int {
	var hit []int
	for i, p := range o.pairs {
		if s&(1<<uint(i)) == 0 {
			continue
		}
		for _, q := range paths {
			if p.path == q {
				hit = append(hit, i)
			}
		}
	}
	return hit
}

func (o *ownRule) sink(fr *frame, in ssa.Instruction, s uint64, paths []int, how string) {
	for _, i := range o.owned(s, paths) {
		msg := fmt.Sprintf("%s at %s after the slice was handed to the mesh: the mesh owns that array from the hand-off on", how, o.x.P.Pos(ssau.PosOf(in)))
		dup := false
		for _, m := range o.viol[i] {
			if m == msg {
				dup = true
			}
		}
		if !dup {
			o.viol[i] = append(o.viol[i], msg)
		}
		if o.violAt[i] == nil {
			o.violAt[i] = in
		}
	}
}

func (o *ownRule) instrBits(fr *frame, in ssa.Instruction, s bits) bits {
	s[0] = o.instr(fr, in, s[0])
	return s
}

func (o *ownRule) instr(fr *frame, in ssa.Instruction, s uint64) uint64 {
	switch x := in.(type) {
	case *ssa.Call:
		switch ssau.Builtin(x) {
		case "append":
			if len(x.Call.Args) > 0 {
				o.sink(fr, in, s, o.valuePaths(x.Call.Args[0]), "append onto it")
			}
			return s
		case "copy":
			if len(x.Call.Args) > 0 {
				o.sink(fr, in, s, o.valuePaths(x.Call.Args[0]), "copy into it")
			}
			return s
		}
		fn := calleeOf(x)
		if ingestion(fn) {
			site := fr.rootSite(in)
			if _, ok := o.label[site]; !ok {
				if fr.parent == nil {
					o.label[site] = shortFnObj(fn)
				} else {
					p := fr
					for p.parent != nil && p.parent.parent != nil {
						p = p.parent
					}
					o.label[site] = shortFn(p.fn)
				}
			}
			args := x.Call.Args
			for ai, a := range args {
				if ssau.RecvNamed(fn) != nil && ai == 0 {
					continue
				}
				if !isSliceOrMap(a.Type()) {
					continue
				}
				for _, p := range o.valuePaths(a) {
					if i := o.pairIdx(site, p); i >= 0 {
						s |= 1 << uint(i)
					}
				}
			}
		}
		return s
	case *ssa.Store:
		// element write?
		addr := x.Addr
		for {
			if fa, ok := addr.(*ssa.FieldAddr); ok {
				if _, isIdx := fa.X.(*ssa.IndexAddr); isIdx {
					addr = fa.X
					continue
				}
				if fa2, ok := fa.X.(*ssa.FieldAddr); ok {
					// nested struct inside an element
					if _, isIdx := fa2.X.(*ssa.IndexAddr); isIdx {
						addr = fa2.X
						continue
					}
				}
			}
			break
		}
		if ia, ok := addr.(*ssa.IndexAddr); ok {
			if _, isSlice := ia.X.Type().Underlying().(*types.Slice); isSlice {
				o.sink(fr, in, s, o.valuePaths(ia.X), "element store")
			}
			return s
		}
		// re-assignment of the variable: ownership of the old array is irrelevant from here on
		switch a := x.Addr.(type) {
		case *ssa.Alloc, *ssa.FreeVar:
			rs := o.res.roots(a)
			if len(rs) == 1 {
				for i, p := range o.pairs {
					if o.paths[p.path].root == rs[0] {
						s &^= 1 << uint(i)
					}
				}
			}
		case *ssa.FieldAddr:
			tp := o.addrPaths(a)
			if len(tp) == 1 {
				vp := o.valuePaths(x.Val)
				if len(o.owned(s, vp)) == 0 {
					for i, p := range o.pairs {
						if p.path == tp[0] {
							s &^= 1 << uint(i)
						}
					}
				}
			}
		}
	case *ssa.MapUpdate:
		// maps are not handed off by the OBJ reader; nothing to do
	}
	return s
}

func shortFnObj(fn *types.Func) string {
	if n := ssau.RecvNamed(fn); n != nil {
		return n.Obj().Name() + "." + fn.Name()
	}
	return fn.Name()
}

func (x *ctx) own2(root *ssa.Function, ctl bool) {
	name := x.P.FuncName(root)
	o := &ownRule{x: x, root: root, viol: map[int][]string{}, violAt: map[int]ssa.Instruction{}, label: map[ssa.Instruction]string{}}
	o.fns = scopeOf(root)
	o.res = newResolver(o.fns)
	fl := &flow{inScope: o.res.inScope, instr: o.instrBits}
	fl.run(&frame{fn: root}, bits{1 << 63, 0}) // bit 63 = "reachable", pairs use bits 0..62
	if o.tooBig {
		x.record(ctl, "OWN-2", name, nil, root, "", "more than 63 (hand-off, variable) pairs: not analysed")
		return
	}
	if len(o.pairs) == 0 {
		x.record(ctl, "OWN-2", name, nil, root, "", "no slice variable reaches a mesh ingestion call from "+name+": hand-offs not found (idiom not recognised)")
		return
	}
	// ordinals of hand-off sites per label
	byLabel := map[string][]ssa.Instruction{}
	for site, l := range o.label {
		byLabel[l] = append(byLabel[l], site)
	}
	ord := map[ssa.Instruction]int{}
	for _, sites := range byLabel {
		for k, v := range ordinalKeys(sites) {
			ord[k] = v
		}
	}
	type rec struct {
		construct string
		i         int
	}
	var recs []rec
	for i, p := range o.pairs {
		recs = append(recs, rec{fmt.Sprintf("%s→%s#%d:%s", name, o.label[p.site], ord[p.site], o.paths[p.path].name), i})
	}
	sort.Slice(recs, func(a, b int) bool { return recs[a].construct < recs[b].construct })
	for _, r := range recs {
		p := o.pairs[r.i]
		if msgs := o.viol[r.i]; len(msgs) > 0 {
			sort.Strings(msgs)
			x.record(ctl, "OWN-2", r.construct, o.violAt[r.i], nil, "write after hand-off of '"+o.paths[p.path].name+"': "+msgs[0], "", msgs...)
		} else {
			x.record(ctl, "OWN-2", r.construct, p.site, nil, "", "", "handed off at "+x.P.Pos(ssau.PosOf(p.site))+"; no element store / append / copy reaches it before the variable is re-assigned")
		}
	}
}

// ---------------------------------------------------------------- FACE-1

// FACE-1: the pending-count increment and the append of a triangle to the index
// list handed to the mesh constructor happen together: one increment of k per
// append of 3k indices, neither can repeat without the other, and the only
// exits between them are error returns.
func (x *ctx) face1(root *ssa.Function, ctl bool) {
	name := x.P.FuncName(root)
	m := newMatRule(x.P, root, x.pcField)
	m.discover()
	if len(m.incAt) == 0 {
		return // MAT-1 reports the missing counter
	}
	// the index list: the field (or variable) whose value reaches the indices parameter of a mesh constructor
	idxPaths := map[string]bool{}
	o := &ownRule{x: x, root: root, fns: m.fns, res: m.res}
	for _, f := range m.fns {
		liveInstrs(f, func(in ssa.Instruction) {
			c, ok := in.(*ssa.Call)
			if !ok {
				return
			}
			fn := calleeOf(c)
			var a ssa.Value
			switch {
			case fn != nil && fn.Pkg() != nil && fn.Pkg().Path() == modelingPath && ssau.RecvNamed(fn) == nil && fn.Name() == "NewTriangleMesh":
				a = c.Call.Args[0]
			case fn != nil && fn.Pkg() != nil && fn.Pkg().Path() == modelingPath && ssau.RecvNamed(fn) == nil && fn.Name() == "NewMesh":
				a = c.Call.Args[1]
			case isMeshMethod(fn, "SetIndices"):
				a = c.Call.Args[1]
			}
			if a != nil {
				for _, p := range o.valuePaths(a) {
					idxPaths[fmt.Sprintf("%p/%d", o.paths[p].root, o.paths[p].field)] = true
				}
			}
		})
	}
	if len(idxPaths) == 0 {
		x.record(ctl, "FACE-1", name, nil, root, "", "the index list handed to the mesh constructor was not found")
		return
	}
	var appends []*ssa.Call
	for _, f := range m.fns {
		liveInstrs(f, func(in ssa.Instruction) {
			c, ok := in.(*ssa.Call)
			if !ok || ssau.Builtin(c) != "append" || len(c.Call.Args) != 2 {
				return
			}
			for _, p := range o.valuePaths(c.Call.Args[0]) {
				if idxPaths[fmt.Sprintf("%p/%d", o.paths[p].root, o.paths[p].field)] {
					appends = append(appends, c)
					return
				}
			}
		})
	}
	if len(appends) == 0 {
		x.record(ctl, "FACE-1", name, nil, root, "", "no append to the index list handed to the mesh constructor was found")
		return
	}
	var incs []ssa.Instruction
	for in := range m.incAt {
		incs = append(incs, in)
	}
	ordA := ordinalKeys(appends)
	sort.Slice(appends, func(i, j int) bool { return ordA[appends[i]] < ordA[appends[j]] })
	sort.Slice(incs, func(i, j int) bool { return ssau.PosOf(incs[i]) < ssau.PosOf(incs[j]) })
	calls := m.res.calls
	lift := func(in ssa.Instruction, to *ssa.Function) []ssa.Instruction {
		cur := []ssa.Instruction{in}
		for d := 0; d < 4; d++ {
			var next []ssa.Instruction
			all := true
			for _, c := range cur {
				if c.Parent() == to {
					next = append(next, c)
					continue
				}
				all = false
				for _, cs := range calls[c.Parent()] {
					next = append(next, cs.(ssa.Instruction))
				}
			}
			cur = next
			if all {
				return cur
			}
		}
		return nil
	}
	for _, a := range appends {
		construct := fmt.Sprintf("%s→append(indices)#%d", name, ordA[a])
		// number of indices appended
		n := int64(-1)
		if sl, ok := a.Call.Args[1].(*ssa.Slice); ok {
			if arr, ok := sl.X.(*ssa.Alloc); ok {
				if pt, ok := arr.Type().Underlying().(*types.Pointer); ok {
					if at, ok := pt.Elem().Underlying().(*types.Array); ok {
						n = at.Len()
					}
				}
			}
		}
		if n < 0 {
			x.record(ctl, "FACE-1", construct, a, nil, "", "the number of indices appended per face is not a constant")
			continue
		}
		// pick the function where both events live
		var I, A []ssa.Instruction
		var common *ssa.Function
		var k int64
		for _, inc := range incs {
			if inc.Parent() == a.Parent() {
				common, I, A, k = a.Parent(), []ssa.Instruction{inc}, []ssa.Instruction{a}, m.incAt[inc]
				break
			}
		}
		if common == nil {
			for _, inc := range incs {
				li, la := lift(inc, root), lift(a, root)
				if len(li) > 0 && len(la) > 0 {
					common, I, A, k = root, li, la, m.incAt[inc]
					break
				}
			}
		}
		if common == nil || len(I) != 1 || len(A) != 1 || I[0] == A[0] {
			x.record(ctl, "FACE-1", construct, a, nil, "", "increment of the pending count and append of the triangle could not be related (different helpers / several call sites)")
			continue
		}
		if n != 3*k {
			x.record(ctl, "FACE-1", construct, a, nil, fmt.Sprintf("a face appends %d indices but advances the pending triangle count by %d", n, k), "")
			continue
		}
		d, other := I[0], A[0]
		if !ssau.Before(d, other) {
			d, other = other, d
			if !ssau.Before(d, other) {
				x.record(ctl, "FACE-1", construct, a, nil, "the pending count is incremented on paths that do not append the triangle (or the reverse): neither dominates the other", "")
				continue
			}
		}
		viol := ""
		forwardFrom(d, func(in ssa.Instruction) bool {
			if in == other {
				return false
			}
			if in == d {
				viol = "the loop can come back to " + x.P.Pos(ssau.PosOf(d)) + " without passing " + x.P.Pos(ssau.PosOf(other)) + ": count and triangles drift apart"
				return false
			}
			if r, ok := in.(*ssa.Return); ok {
				okErr := false
				if len(r.Results) > 0 {
					last := r.Results[len(r.Results)-1]
					if types.Identical(last.Type(), types.Universe.Lookup("error").Type()) {
						if c, isC := last.(*ssa.Const); !isC || c.Value != nil {
							okErr = true
						}
						if _, isC := last.(*ssa.Const); !isC {
							okErr = true
						}
					}
				}
				if !okErr {
					viol = "a normal return at " + x.P.Pos(ssau.PosOf(r)) + " is reachable between the increment and the append"
				}
				return false
			}
			return true
		})
		if viol == "" {
			forwardFrom(other, func(in ssa.Instruction) bool {
				if in == d {
					return false
				}
				if in == other {
					viol = "the append/increment at " + x.P.Pos(ssau.PosOf(other)) + " can repeat without the other event in between"
					return false
				}
				return true
			})
		}
		// the whole arm: a face line cannot be consumed without its triangle being appended
		if viol == "" && common == root {
			if entry, tag := armEntry(A[0].Block()); entry != nil {
				if l := loopOf(entry); l != nil && canBypass(entry, l.Header, map[ssa.Instruction]bool{A[0]: true}, l.Blocks) {
					viol = "a '" + tag + "' line can be consumed without its triangle being appended (the scan loop is continued on a path through the arm that is not an error return): the face is lost"
				}
			}
		}
		x.record(ctl, "FACE-1", construct, a, nil, viol, "", fmt.Sprintf("%d indices appended per increment of %d; increment at %s", n, k, x.P.Pos(ssau.PosOf(I[0]))))
	}
}
