package c05

import (
	"fmt"
	"go/token"
	"go/types"
	"sort"
	"strings"

	"golang.org/x/tools/go/ssa"

	"polycheck/ssau"
)

// ---------------------------------------------------------------- shared reader model

type readerModel struct {
	x     *ctx
	root  *ssa.Function
	name  string
	fns   []*ssa.Function
	res   *resolver
	uf    map[ssa.Value]ssa.Value // union-find over slice-typed SSA values (phi / append webs)
	loops map[*ssa.Function][]*ssau.Loop

	foreignGroupGuard string
}

func (x *ctx) newReaderModel(root *ssa.Function) *readerModel {
	rm := &readerModel{x: x, root: root, name: x.P.FuncName(root), uf: map[ssa.Value]ssa.Value{}, loops: map[*ssa.Function][]*ssau.Loop{}}
	rm.fns = scopeOf(root)
	rm.res = newResolver(rm.fns)
	for _, f := range rm.fns {
		liveInstrs(f, func(in ssa.Instruction) {
			switch t := in.(type) {
			case *ssa.Phi:
				if _, ok := t.Type().Underlying().(*types.Slice); ok {
					for _, e := range t.Edges {
						rm.union(t, e)
					}
				}
			case *ssa.Call:
				if ssau.Builtin(t) == "append" && len(t.Call.Args) > 0 {
					rm.union(t, t.Call.Args[0])
				}
			case *ssa.Slice:
				if _, ok := t.X.Type().Underlying().(*types.Slice); ok {
					rm.union(t, t.X)
				}
			}
		})
	}
	return rm
}

func (rm *readerModel) find(v ssa.Value) ssa.Value {
	for {
		p, ok := rm.uf[v]
		if !ok || p == v {
			return v
		}
		v = p
	}
}

func (rm *readerModel) union(a, b ssa.Value) {
	ra, rb := rm.find(a), rm.find(b)
	if ra != rb {
		rm.uf[ra] = rb
	}
}

// listKey identifies the variable a slice value is a read of.
func (rm *readerModel) listKey(v ssa.Value, depth int) string {
	if v == nil || depth > 6 {
		return ""
	}
	if ld, ok := isLoad(v); ok {
		switch a := ld.X.(type) {
		case *ssa.FieldAddr:
			rs := rm.res.roots(a.X)
			if len(rs) == 1 {
				return fmt.Sprintf("cell:%p.%d", rs[0], a.Field)
			}
		case *ssa.Alloc, *ssa.FreeVar:
			rs := rm.res.roots(a)
			if len(rs) == 1 {
				return fmt.Sprintf("cell:%p", rs[0])
			}
		}
		return ""
	}
	if p, ok := v.(*ssa.Parameter); ok {
		key := ""
		for _, c := range rm.res.calls[p.Parent()] {
			k := rm.listKey(callArg(c, paramIndex(p)), depth+1)
			if key != "" && k != key {
				return ""
			}
			key = k
		}
		return key
	}
	return fmt.Sprintf("web:%p", rm.find(v))
}

func isPkgFunc(fn *types.Func, pkg, name string) bool {
	return fn != nil && fn.Pkg() != nil && fn.Pkg().Path() == pkg && fn.Name() == name && ssau.RecvNamed(fn) == nil
}

// stringSym gives a symbolic identity to a string value: "fields[k]" for a
// constant-index element of a []string, "param#i" for a parameter,
// "" when not recognised. TrimSpace wrappers are looked through.
func stringSym(v ssa.Value) (sym string, base ssa.Value, idx int64) {
	for {
		c, ok := v.(*ssa.Call)
		if ok && isPkgFunc(calleeOf(c), "strings", "TrimSpace") {
			v = c.Call.Args[0]
			continue
		}
		break
	}
	if p, ok := v.(*ssa.Parameter); ok {
		return fmt.Sprintf("param#%d", paramIndex(p)), p, -1
	}
	if ld, ok := isLoad(v); ok {
		if ia, ok := ld.X.(*ssa.IndexAddr); ok {
			if k, ok := constInt(ia.Index); ok {
				return fmt.Sprintf("%p[%d]", ia.X, k), ia.X, k
			}
		}
	}
	return "", nil, -1
}

func (x *ctx) readerRulesExtra(root *ssa.Function, ctl bool) {
	rm := x.newReaderModel(root)
	x.axisR(rm, ctl)
	parsers := x.streamR(rm, ctl)
	x.cornerR(rm, parsers, ctl)
	x.groupR(rm, ctl)
	x.usemtlR(rm, ctl)
}

// ---------------------------------------------------------------- USEMTL-R

// dependsOn: v is computed from src (through merges, map lookups keyed by it,
// calls taking it, and objects one of whose fields is assigned from it).
func dependsOn(v, src ssa.Value, seen map[ssa.Value]bool, depth int) bool {
	if v == nil || depth > 12 || seen[v] {
		return false
	}
	seen[v] = true
	if v == src {
		return true
	}
	switch t := v.(type) {
	case *ssa.Phi:
		for _, e := range t.Edges {
			if dependsOn(e, src, seen, depth+1) {
				return true
			}
		}
	case *ssa.Extract:
		return dependsOn(t.Tuple, src, seen, depth+1)
	case *ssa.Lookup:
		return dependsOn(t.Index, src, seen, depth+1)
	case *ssa.Call:
		for _, a := range t.Call.Args {
			if dependsOn(a, src, seen, depth+1) {
				return true
			}
		}
	case *ssa.MakeInterface:
		return dependsOn(t.X, src, seen, depth+1)
	case *ssa.ChangeType:
		return dependsOn(t.X, src, seen, depth+1)
	case *ssa.Convert:
		return dependsOn(t.X, src, seen, depth+1)
	case *ssa.UnOp:
		if ld, ok := isLoad(t); ok {
			return dependsOn(ld.X, src, seen, depth+1)
		}
	case *ssa.Alloc:
		// an object: any store into it or into one of its fields
		for _, r := range ssau.Refs(t) {
			switch rr := r.(type) {
			case *ssa.Store:
				if rr.Addr == ssa.Value(t) && dependsOn(rr.Val, src, seen, depth+1) {
					return true
				}
			case *ssa.FieldAddr:
				for _, r2 := range ssau.Refs(rr) {
					if st, ok := r2.(*ssa.Store); ok && st.Addr == ssa.Value(rr) && dependsOn(st.Val, src, seen, depth+1) {
						return true
					}
				}
			}
		}
	}
	return false
}

// usemtlR: the entry a `usemtl` record opens carries a Material that is
// computed from the name parsed on that record (looked up by it, or created
// with it as Name).
func (x *ctx) usemtlR(rm *readerModel, ctl bool) {
	mm := lookupType(x.modeling, "MeshMaterial")
	matField := fieldNamed(mm, "Material")
	if matField == nil {
		x.record(ctl, "USEMTL-R", rm.name, nil, rm.root, "", "field modeling.MeshMaterial.Material not found")
		return
	}
	n := 0
	for _, f := range rm.fns {
		liveInstrs(f, func(in ssa.Instruction) {
			c, ok := in.(*ssa.Call)
			if !ok || ssau.Builtin(c) != "append" || len(c.Call.Args) != 2 || !isMatSlice(c.Call.Args[0].Type()) {
				return
			}
			tag, _, ok := armTag(c.Block())
			if !ok || tag != "usemtl" {
				return
			}
			// the parsed name: result of the first call in the arm taking the line's fields
			var parsed ssa.Value
			for b := c.Block(); b != nil && parsed == nil; b = b.Idom() {
				if t, _, ok := armTag(b); !ok || t != "usemtl" {
					break
				}
				for _, ins := range b.Instrs {
					if ex, ok := ins.(*ssa.Extract); ok && ex.Index == 0 {
						if pc, ok := ex.Tuple.(*ssa.Call); ok && pc.Call.StaticCallee() != nil {
							if b2, ok := ex.Type().Underlying().(*types.Basic); ok && b2.Kind() == types.String {
								parsed = ex
								break
							}
						}
					}
				}
			}
			// entries appended
			sl, ok := c.Call.Args[1].(*ssa.Slice)
			if !ok {
				return
			}
			arr, ok := sl.X.(*ssa.Alloc)
			if !ok {
				return
			}
			for _, r := range ssau.Refs(arr) {
				ia, ok := r.(*ssa.IndexAddr)
				if !ok {
					continue
				}
				for _, r2 := range ssau.Refs(ia) {
					st, ok := r2.(*ssa.Store)
					if !ok || st.Addr != ssa.Value(ia) {
						continue
					}
					ld, ok := isLoad(st.Val)
					if !ok {
						continue
					}
					lit, ok := ld.X.(*ssa.Alloc)
					if !ok {
						continue
					}
					// PrimitiveCount = counter → the default range for earlier faces, not the record's entry
					isDefault := false
					var matVal ssa.Value
					for _, r3 := range ssau.Refs(lit) {
						fa, ok := r3.(*ssa.FieldAddr)
						if !ok {
							continue
						}
						for _, r4 := range ssau.Refs(fa) {
							s4, ok := r4.(*ssa.Store)
							if !ok || s4.Addr != ssa.Value(fa) {
								continue
							}
							if ssau.FieldOf(fa) == x.pcField {
								if _, isC := stripConv(s4.Val).(*ssa.Const); !isC {
									isDefault = true
								}
							}
							if ssau.FieldOf(fa) == matField {
								matVal = s4.Val
							}
						}
					}
					if isDefault {
						continue
					}
					n++
					construct := fmt.Sprintf("%s→append(MeshMaterial)@usemtl#%d", x.P.FuncName(f), n)
					switch {
					case parsed == nil:
						x.record(ctl, "USEMTL-R", construct, c, nil, "", "the name parsed from the usemtl record was not found")
					case matVal == nil:
						x.record(ctl, "USEMTL-R", construct, c, nil, "the range opened by a usemtl record carries no Material: every triangle reads back with a nil material", "")
					case !dependsOn(matVal, parsed, map[ssa.Value]bool{}, 0):
						x.record(ctl, "USEMTL-R", construct, c, nil, "the Material of the range opened by a usemtl record does not depend on the name on that record", "")
					default:
						x.record(ctl, "USEMTL-R", construct, c, nil, "", "", "entry.Material is looked up / created from the parsed usemtl name")
					}
				}
			}
		})
	}
	if n == 0 {
		x.record(ctl, "USEMTL-R", rm.name, nil, rm.root, "", "no material entry is appended in a 'usemtl' arm")
	}
}

// ---------------------------------------------------------------- AXIS-3 (reader)

// axisR: every vectorN.New(...) in the reader's helpers receives, in slot j,
// the number parsed from field j+1 of the record.
func (x *ctx) axisR(rm *readerModel, ctl bool) {
	var news []*ssa.Call
	for _, f := range rm.fns {
		liveInstrs(f, func(in ssa.Instruction) {
			c, ok := in.(*ssa.Call)
			if !ok {
				return
			}
			fn := calleeOf(c)
			if isPkgFunc(fn, vec3Path, "New") || isPkgFunc(fn, vec2Path, "New") {
				news = append(news, c)
			}
		})
	}
	ord := ordinalKeys(news)
	sort.Slice(news, func(i, j int) bool { return ord[news[i]] < ord[news[j]] })
	n := 0
	for _, c := range news {
		construct := fmt.Sprintf("%s→vector.New#%d", x.P.FuncName(c.Parent()), ord[c])
		var base ssa.Value
		viol, und := "", ""
		parsed := 0
		var slots []string
		for j, a := range c.Call.Args {
			ex, ok := a.(*ssa.Extract)
			if !ok {
				if _, isC := a.(*ssa.Const); isC {
					continue
				}
				und = fmt.Sprintf("component %d is not the direct result of strconv.ParseFloat", j)
				break
			}
			pc, ok := ex.Tuple.(*ssa.Call)
			if !ok || !isPkgFunc(calleeOf(pc), "strconv", "ParseFloat") || ex.Index != 0 {
				und = fmt.Sprintf("component %d is not the direct result of strconv.ParseFloat", j)
				break
			}
			_, b, k := stringSym(pc.Call.Args[0])
			if b == nil || k < 0 {
				und = fmt.Sprintf("component %d is parsed from a string that is not a constant-index field of the record", j)
				break
			}
			if base != nil && b != base {
				und = "components are parsed from different field lists"
				break
			}
			base = b
			parsed++
			slots = append(slots, fmt.Sprintf("%s←field[%d]", "XYZW"[j:j+1], k))
			if k != int64(j+1) {
				viol = fmt.Sprintf("component %s of the vector is parsed from field %d of the record instead of field %d (record = tag x y z)", "XYZW"[j:j+1], k, j+1)
			}
		}
		if parsed == 0 && und == "" {
			continue // constant vector, not a parse
		}
		n++
		x.record(ctl, "AXIS-3", construct, c, nil, viol, und, strings.Join(slots, " "))
	}
	if n == 0 {
		x.record(ctl, "AXIS-3", rm.name+":reader", nil, rm.root, "", "no vectorN.New(parsed components…) found in the reader's helpers")
	}
}

// ---------------------------------------------------------------- STREAM-R / TOK-R

type tokAlt struct {
	absent bool
	whole  bool
	sep    string
	k      int64
	bad    string
}

func (a tokAlt) String() string {
	switch {
	case a.bad != "":
		return "?" + a.bad
	case a.absent:
		return "absent(-1)"
	case a.whole:
		return "whole token"
	}
	return fmt.Sprintf("split(%q)[%d]", a.sep, a.k)
}

// tokEnv evaluates results of a face-token parser; helpers of the same package
// the parser delegates to (one per notation, an index parser, …) are followed
// up to three levels, their string parameters bound to the piece of the token
// the caller passes.
type tokEnv struct {
	bind  map[*ssa.Parameter]tokAlt
	depth int
}

// tokenAlternatives: the ways result value v of a face-token parser is computed.
func tokenAlternatives(v ssa.Value, seen map[ssa.Value]bool) []tokAlt {
	return (&tokEnv{bind: map[*ssa.Parameter]tokAlt{}}).alts(v, seen)
}

// piece classifies a string expression as (part of) the token.
func (e *tokEnv) piece(s ssa.Value) tokAlt {
	for {
		cc, ok := s.(*ssa.Call)
		if ok && isPkgFunc(calleeOf(cc), "strings", "TrimSpace") {
			s = cc.Call.Args[0]
			continue
		}
		break
	}
	if p, ok := s.(*ssa.Parameter); ok {
		if b, ok := e.bind[p]; ok {
			return b
		}
		return tokAlt{whole: true}
	}
	if ld, ok := isLoad(s); ok {
		if ia, ok := ld.X.(*ssa.IndexAddr); ok {
			if k, ok := constInt(ia.Index); ok {
				if sc, ok := ia.X.(*ssa.Call); ok && isPkgFunc(calleeOf(sc), "strings", "Split") {
					if sep, ok := constStr(sc.Call.Args[1]); ok {
						src := e.piece(sc.Call.Args[0])
						switch {
						case src.bad != "":
							return src
						case !src.whole:
							return tokAlt{bad: "a piece of the token is split again"}
						}
						return tokAlt{sep: sep, k: k}
					}
				}
			}
		}
	}
	return tokAlt{bad: "piece of the token not recognised"}
}

// successful: the return can be a success — its error is the constant nil, or the
// error forwarded from a helper of the same package (whose own successes count).
func successfulReturn(r *ssa.Return) bool {
	if len(r.Results) < 2 {
		return false
	}
	last := r.Results[len(r.Results)-1]
	if !types.Identical(last.Type(), types.Universe.Lookup("error").Type()) {
		return false
	}
	if c, ok := last.(*ssa.Const); ok {
		return c.Value == nil
	}
	if ex, ok := last.(*ssa.Extract); ok {
		if hc, ok := ex.Tuple.(*ssa.Call); ok {
			if h := hc.Call.StaticCallee(); h != nil && h.Blocks != nil && r.Parent() != nil && h.Pkg == r.Parent().Pkg {
				return true
			}
		}
	}
	return false
}

// helperAlts: alternatives of result #idx of a call to a same-package helper.
func (e *tokEnv) helperAlts(c *ssa.Call, idx int) []tokAlt {
	h := c.Call.StaticCallee()
	if h == nil || h.Blocks == nil || c.Parent() == nil || h.Pkg != c.Parent().Pkg {
		return []tokAlt{{bad: "not derived from strconv.Atoi"}}
	}
	if e.depth >= 3 {
		return []tokAlt{{bad: "helper chain deeper than three levels"}}
	}
	sub := &tokEnv{bind: map[*ssa.Parameter]tokAlt{}, depth: e.depth + 1}
	for i, p := range h.Params {
		if b, ok := p.Type().Underlying().(*types.Basic); ok && b.Kind() == types.String {
			if a := callArg(c, i); a != nil {
				sub.bind[p] = e.piece(a)
			}
		}
	}
	var out []tokAlt
	n := 0
	liveInstrs(h, func(in ssa.Instruction) {
		r, ok := in.(*ssa.Return)
		if !ok || idx >= len(r.Results) || !successfulReturn(r) {
			return
		}
		n++
		out = append(out, sub.alts(r.Results[idx], map[ssa.Value]bool{})...)
	})
	if n == 0 {
		return []tokAlt{{bad: "helper " + shortFn(h) + " has no successful return"}}
	}
	return out
}

func (e *tokEnv) alts(v ssa.Value, seen map[ssa.Value]bool) []tokAlt {
	v = stripConv(v)
	if seen[v] {
		return nil
	}
	seen[v] = true
	if ph, ok := v.(*ssa.Phi); ok {
		var out []tokAlt
		for _, ed := range ph.Edges {
			out = append(out, e.alts(ed, seen)...)
		}
		return out
	}
	if k, ok := constInt(v); ok {
		if k == -1 {
			return []tokAlt{{absent: true}}
		}
		return []tokAlt{{bad: fmt.Sprintf("constant %d (the 'absent' marker is -1)", k)}}
	}
	l := linOf(v, nil)
	a, c, ok := l.single()
	if !ok {
		return []tokAlt{{bad: "not parsed-number + const: " + l.String()}}
	}
	ex, ok := a.(*ssa.Extract)
	if !ok {
		return []tokAlt{{bad: "not derived from strconv.Atoi"}}
	}
	pc, ok := ex.Tuple.(*ssa.Call)
	if !ok {
		return []tokAlt{{bad: "not derived from strconv.Atoi"}}
	}
	if !(isPkgFunc(calleeOf(pc), "strconv", "Atoi") || isPkgFunc(calleeOf(pc), "strconv", "ParseInt")) {
		// a helper of the package: its own results already carry the −1
		if c != 0 {
			return []tokAlt{{bad: fmt.Sprintf("result of a helper adjusted by %+d", c)}}
		}
		return e.helperAlts(pc, ex.Index)
	}
	if ex.Index != 0 {
		return []tokAlt{{bad: "not derived from strconv.Atoi"}}
	}
	if c != -1 {
		return []tokAlt{{bad: fmt.Sprintf("index used as parsed value %+d: OBJ indices are 1-based, the reader must subtract exactly 1", c)}}
	}
	return []tokAlt{e.piece(pc.Call.Args[0])}
}

// grammar: which pieces of a face token may feed which slot.
var tokGrammar = map[string]map[string]bool{
	"v":  {"whole token": true, `split("/")[0]`: true, `split("//")[0]`: true},
	"vt": {`split("/")[1]`: true},
	"vn": {`split("/")[2]`: true, `split("//")[1]`: true},
}

type parserUse struct {
	fn      *ssa.Function
	slotTag map[int]string // result index -> record tag of the list it subscripts
}

// streamR decides STREAM-R (tag → list → token slot → group field → mesh attribute),
// the sentinel guards, and TOK-R for the face-token parsers found on the way.
func (x *ctx) streamR(rm *readerModel, ctl bool) map[*ssa.Function]*parserUse {
	table := x.streamTable()
	setter := map[string]string{"Float3Attribute": "SetFloat3Attribute", "Float2Attribute": "SetFloat2Attribute"}
	// (1) record arms: append(list, parsedRecord) inside `== "tag"` arms
	type arm struct {
		tag  string
		key  string
		at   *ssa.Call
		elem types.Type
	}
	arms := map[string]*arm{}
	keyTag := map[string]string{}
	for _, f := range rm.fns {
		liveInstrs(f, func(in ssa.Instruction) {
			c, ok := in.(*ssa.Call)
			if !ok || ssau.Builtin(c) != "append" || len(c.Call.Args) != 2 {
				return
			}
			st, ok := c.Type().Underlying().(*types.Slice)
			if !ok || !(isNamedType(st.Elem(), vec3Path, "Vector") || isNamedType(st.Elem(), vec2Path, "Vector")) {
				return
			}
			tag, _, ok := armTag(c.Block())
			if !ok {
				return
			}
			if _, known := table[tag]; !known {
				return
			}
			// the appended element is the result of a record parser call (not an element of another list)
			if !appendedFromCall(c) {
				return
			}
			key := rm.listKey(c.Call.Args[0], 0)
			if key == "" {
				return
			}
			if old, dup := keyTag[key]; dup && old != tag {
				x.record(ctl, "STREAM-R", rm.name+":records("+tag+")", c, nil, fmt.Sprintf("'%s' and '%s' records are appended to the same list", old, tag), "")
				return
			}
			keyTag[key] = tag
			arms[tag] = &arm{tag, key, c, st.Elem()}
		})
	}
	// (2) subscripts of those lists by results of a token parser
	type sub struct {
		ia     *ssa.IndexAddr
		tag    string
		call   *ssa.Call
		result int
	}
	var subs []sub
	parsers := map[*ssa.Function]*parserUse{}
	for _, f := range rm.fns {
		liveInstrs(f, func(in ssa.Instruction) {
			ia, ok := in.(*ssa.IndexAddr)
			if !ok {
				return
			}
			tag, ok := keyTag[rm.listKey(ia.X, 0)]
			if !ok {
				return
			}
			ex, ok := stripConv(ia.Index).(*ssa.Extract)
			if !ok {
				x.record(ctl, "STREAM-R", fmt.Sprintf("%s:subscript(%s)", rm.name, tag), ia, nil, "", "the '"+tag+"' list is subscripted by something that is not a result of the face-token parser")
				return
			}
			pc, ok := ex.Tuple.(*ssa.Call)
			if !ok || pc.Call.StaticCallee() == nil {
				x.record(ctl, "STREAM-R", fmt.Sprintf("%s:subscript(%s)", rm.name, tag), ia, nil, "", "the '"+tag+"' list is subscripted by something that is not a result of the face-token parser")
				return
			}
			g := pc.Call.StaticCallee()
			if parsers[g] == nil {
				parsers[g] = &parserUse{fn: g, slotTag: map[int]string{}}
			}
			subs = append(subs, sub{ia, tag, pc, ex.Index})
		})
	}
	var subIns []*ssa.IndexAddr
	for _, s := range subs {
		subIns = append(subIns, s.ia)
	}
	ordSub := ordinalKeys(subIns)
	sort.Slice(subs, func(i, j int) bool { return ordSub[subs[i].ia] < ordSub[subs[j].ia] })
	// group fields and attributes
	fieldOfTag := map[string]*types.Var{}
	for _, s := range subs {
		pu := parsers[s.call.Call.StaticCallee()]
		construct := fmt.Sprintf("%s:corner-lookup#%d(%s)", rm.name, ordSub[s.ia], s.tag)
		viol, und := "", ""
		if old, ok := pu.slotTag[s.result]; ok && old != s.tag {
			viol = fmt.Sprintf("result #%d of the token parser subscripts the '%s' list here and the '%s' list elsewhere", s.result, s.tag, old)
		} else {
			pu.slotTag[s.result] = s.tag
		}
		for r, t := range pu.slotTag {
			if t == s.tag && r != s.result {
				viol = fmt.Sprintf("the '%s' list is subscripted by result #%d of the token parser here and by result #%d elsewhere", s.tag, s.result, r)
			}
		}
		// optional streams: guarded by index != -1 on the same value
		if viol == "" && s.tag != "v" {
			if !sentinelGuarded(s.ia.Block(), s.ia.Index) {
				viol = fmt.Sprintf("the '%s' list is subscripted by a token index that is not guarded by `index != -1` on that same index (an absent %s makes it -1)", s.tag, s.tag)
			}
		}
		// where does the element go
		var fld *types.Var
		for _, r := range ssau.Refs(s.ia) {
			ld, ok := r.(*ssa.UnOp)
			if !ok || ld.Op != token.MUL {
				continue
			}
			for _, ap := range appendsOfValue(ld) {
				if l2, ok := isLoad(ap.Call.Args[0]); ok {
					if fa, ok := l2.X.(*ssa.FieldAddr); ok {
						fld = ssau.FieldOf(fa)
					}
				}
			}
		}
		if fld == nil && viol == "" {
			und = "the looked-up '" + s.tag + "' element is not appended to a field of the working group"
		}
		if fld != nil {
			if old, ok := fieldOfTag[s.tag]; ok && old != fld && viol == "" {
				viol = fmt.Sprintf("'%s' elements are appended to field %s here and to field %s elsewhere", s.tag, fld.Name(), old.Name())
			}
			fieldOfTag[s.tag] = fld
		}
		fact := fmt.Sprintf("'%s' list[%s result #%d]", s.tag, shortFn(pu.fn), s.result)
		if fld != nil {
			fact += " → group field " + fld.Name()
		}
		x.record(ctl, "STREAM-R", construct, s.ia, nil, viol, und, fact)
	}
	// (4) attributes the group fields are handed off as
	type setInfo struct {
		method, attr string
		at           *ssa.Call
	}
	attrOfField := map[*types.Var][]setInfo{}
	for _, f := range rm.fns {
		liveInstrs(f, func(in ssa.Instruction) {
			c, ok := in.(*ssa.Call)
			if !ok {
				return
			}
			fn := calleeOf(c)
			if !isMeshMethod(fn, "SetFloat1Attribute", "SetFloat2Attribute", "SetFloat3Attribute", "SetFloat4Attribute") || len(c.Call.Args) != 3 {
				return
			}
			at, _ := constStr(c.Call.Args[1])
			if ld, ok := isLoad(c.Call.Args[2]); ok {
				if fa, ok := ld.X.(*ssa.FieldAddr); ok {
					if fv := ssau.FieldOf(fa); fv != nil {
						attrOfField[fv] = append(attrOfField[fv], setInfo{fn.Name(), at, c})
					}
				}
			}
		})
	}
	for _, tag := range []string{"v", "vt", "vn"} {
		construct := fmt.Sprintf("%s:stream(%s)", rm.name, tag)
		a := arms[tag]
		if a == nil {
			x.record(ctl, "STREAM-R", construct, nil, rm.root, "", "no arm appending parsed '"+tag+"' records to a list was found")
			continue
		}
		fld := fieldOfTag[tag]
		if fld == nil {
			x.record(ctl, "STREAM-R", construct, a.at, nil, "", "'"+tag+"' records are never looked up by a face corner")
			continue
		}
		sets := attrOfField[fld]
		if len(sets) == 0 {
			x.record(ctl, "STREAM-R", construct, a.at, nil, "the group field "+fld.Name()+" holding the corners' '"+tag+"' data is never set as a mesh attribute: the data is dropped on reading", "")
			continue
		}
		spec := table[tag]
		viol := rm.listOnlyExtended(a.at.Call.Args[0], tag)
		if entry, _ := armEntry(a.at.Block()); entry != nil && viol == "" {
			if l := loopOf(entry); l != nil && canBypass(entry, l.Header, map[ssa.Instruction]bool{a.at: true}, l.Blocks) {
				viol = "a '" + tag + "' record can be consumed without being appended to its list (the scan loop is continued on a path through the arm that is not an error return): every later record is numbered one lower than the file-global index the faces use"
			}
		}
		for _, s := range sets {
			if s.attr != spec.attrConst || s.method != setter[spec.getter] {
				viol = fmt.Sprintf("'%s' data ends up in %s(%q); the writer emits '%s' records from %s(%q)", tag, s.method, s.attr, tag, spec.getter, spec.attrConst)
			}
		}
		x.record(ctl, "STREAM-R", construct, a.at, nil, viol, "", fmt.Sprintf("'%s' records → list → corner lookup → field %s → %s(%q)", tag, fld.Name(), sets[0].method, sets[0].attr))
	}
	// TOK-R for each parser
	var ps []*ssa.Function
	for g := range parsers {
		ps = append(ps, g)
	}
	sort.Slice(ps, func(i, j int) bool { return ps[i].Pos() < ps[j].Pos() })
	for _, g := range ps {
		x.tokR(g, parsers[g], ctl)
	}
	if len(ps) == 0 {
		x.record(ctl, "TOK-R", rm.name, nil, rm.root, "", "no face-token parser (a function whose results subscript the v/vt/vn lists) was found")
	}
	return parsers
}

// listOnlyExtended: the record list a face corner subscripts by file-global
// index is created once (outside every loop) and afterwards only appended to
// in the arm of its own tag — never truncated or replaced when a group starts.
func (rm *readerModel) listOnlyExtended(list ssa.Value, tag string) string {
	check := func(v ssa.Value, at ssa.Instruction) string {
		switch t := v.(type) {
		case *ssa.Phi:
			return ""
		case *ssa.Call:
			if ssau.Builtin(t) == "append" {
				if tg, _, ok := armTag(t.Block()); !ok || tg != tag {
					return "the '" + tag + "' record list is also appended to outside the '" + tag + "' arm"
				}
				return ""
			}
		case *ssa.Slice:
			if _, isPtr := t.X.Type().Underlying().(*types.Pointer); isPtr {
				if ssau.InnermostLoop(rm.loopsOf(t.Parent()), t.Block()) == nil {
					return ""
				}
				return "the '" + tag + "' record list is re-created inside the scan loop: indices in face tokens are file-global"
			}
			return "the '" + tag + "' record list is re-sliced: indices in face tokens are file-global, records must never be dropped"
		case *ssa.MakeSlice:
			if ssau.InnermostLoop(rm.loopsOf(t.Parent()), t.Block()) == nil {
				return ""
			}
			return "the '" + tag + "' record list is re-created inside the scan loop: indices in face tokens are file-global"
		case *ssa.Const:
			if ssau.InnermostLoop(rm.loopsOf(at.Parent()), at.Block()) == nil {
				return ""
			}
			return "the '" + tag + "' record list is reset inside the scan loop"
		}
		return "the '" + tag + "' record list is assigned something other than append(list, record)"
	}
	if ld, ok := isLoad(list); ok {
		// memory cell: every store to it
		for _, r := range allRefsOfCell(cellOf(ld.X)) {
			if st, ok := r.(*ssa.Store); ok {
				if _, isCellAddr := st.Addr.(*ssa.FieldAddr); isCellAddr {
					continue
				}
				if why := check(st.Val, st); why != "" {
					return why
				}
			}
		}
		return ""
	}
	root := rm.find(list)
	for v := range rm.members(root) {
		in, _ := v.(ssa.Instruction)
		if why := check(v, in); why != "" {
			return why
		}
	}
	return ""
}

func cellOf(addr ssa.Value) ssa.Value {
	for d := 0; d < 4; d++ {
		fv, ok := addr.(*ssa.FreeVar)
		if !ok {
			break
		}
		if b := bindingOf(fv); b != nil {
			addr = b
		} else {
			break
		}
	}
	return addr
}

func (rm *readerModel) loopsOf(f *ssa.Function) []*ssau.Loop {
	if l, ok := rm.loops[f]; ok {
		return l
	}
	l := ssau.Loops(f)
	rm.loops[f] = l
	return l
}

// members: all values in the same web as root.
func (rm *readerModel) members(root ssa.Value) map[ssa.Value]bool {
	out := map[ssa.Value]bool{root: true}
	for v := range rm.uf {
		if rm.find(v) == root {
			out[v] = true
		}
	}
	return out
}

func appendedFromCall(c *ssa.Call) bool {
	sl, ok := c.Call.Args[1].(*ssa.Slice)
	if !ok {
		return false
	}
	arr, ok := sl.X.(*ssa.Alloc)
	if !ok {
		return false
	}
	for _, r := range ssau.Refs(arr) {
		if ia, ok := r.(*ssa.IndexAddr); ok {
			for _, r2 := range ssau.Refs(ia) {
				if st, ok := r2.(*ssa.Store); ok {
					if ex, ok := st.Val.(*ssa.Extract); ok {
						if _, ok := ex.Tuple.(*ssa.Call); ok {
							return true
						}
					}
					if _, ok := st.Val.(*ssa.Call); ok {
						return true
					}
				}
			}
		}
	}
	return false
}

// appendsOfValue: append calls one of whose appended elements is v.
func appendsOfValue(v ssa.Value) []*ssa.Call {
	var out []*ssa.Call
	for _, r := range ssau.Refs(v) {
		st, ok := r.(*ssa.Store)
		if !ok || st.Val != v {
			continue
		}
		ia, ok := st.Addr.(*ssa.IndexAddr)
		if !ok {
			continue
		}
		arr, ok := ia.X.(*ssa.Alloc)
		if !ok {
			continue
		}
		for _, r2 := range ssau.Refs(arr) {
			if sl, ok := r2.(*ssa.Slice); ok {
				for _, r3 := range ssau.Refs(sl) {
					if c, ok := r3.(*ssa.Call); ok && ssau.Builtin(c) == "append" && len(c.Call.Args) == 2 && c.Call.Args[1] == ssa.Value(sl) {
						out = append(out, c)
					}
				}
			}
		}
	}
	return out
}

// sentinelGuarded: block b is only reached through an edge of a comparison of
// idx with -1 that excludes idx == -1.
func sentinelGuarded(b *ssa.BasicBlock, idx ssa.Value) bool {
	idx = stripConv(idx)
	for b != nil {
		d := b.Idom()
		if d == nil {
			return false
		}
		if ifi, ok := d.Instrs[len(d.Instrs)-1].(*ssa.If); ok && len(b.Preds) == 1 && b.Preds[0] == d && d.Succs[0] != d.Succs[1] {
			if cmp, ok := ifi.Cond.(*ssa.BinOp); ok {
				var k int64
				var subj ssa.Value
				constLeft := false
				okc := false
				if kk, ok := constInt(stripConv(cmp.Y)); ok {
					k, subj, okc = kk, cmp.X, true
				} else if kk, ok := constInt(stripConv(cmp.X)); ok {
					k, subj, constLeft, okc = kk, cmp.Y, true, true
				}
				if okc && stripConv(subj) == idx {
					want := d.Succs[0] == b
					l, r := int64(-1), k
					if constLeft {
						l, r = k, -1
					}
					var t bool
					switch cmp.Op {
					case token.EQL:
						t = l == r
					case token.NEQ:
						t = l != r
					case token.LSS:
						t = l < r
					case token.LEQ:
						t = l <= r
					case token.GTR:
						t = l > r
					case token.GEQ:
						t = l >= r
					}
					if t != want {
						// -1 takes the other edge; also make sure 0 (a valid index) takes this edge
						l0, r0 := int64(0), k
						if constLeft {
							l0, r0 = k, 0
						}
						var t0 bool
						switch cmp.Op {
						case token.EQL:
							t0 = l0 == r0
						case token.NEQ:
							t0 = l0 != r0
						case token.LSS:
							t0 = l0 < r0
						case token.LEQ:
							t0 = l0 <= r0
						case token.GTR:
							t0 = l0 > r0
						case token.GEQ:
							t0 = l0 >= r0
						}
						return t0 == want
					}
				}
			}
		}
		b = d
	}
	return false
}

// tokR: the parser's successful returns map token pieces to slots per the OBJ grammar.
func (x *ctx) tokR(g *ssa.Function, pu *parserUse, ctl bool) {
	name := x.P.FuncName(g)
	alts := map[int]map[string]bool{}
	bad := map[int]string{}
	nRet := 0
	liveInstrs(g, func(in ssa.Instruction) {
		r, ok := in.(*ssa.Return)
		if !ok || len(r.Results) < 2 {
			return
		}
		if !successfulReturn(r) {
			return // error return
		}
		nRet++
		for i := 0; i < len(r.Results)-1; i++ {
			if !isIntType(r.Results[i].Type()) {
				continue
			}
			for _, a := range tokenAlternatives(r.Results[i], map[ssa.Value]bool{}) {
				if a.bad != "" {
					bad[i] = a.bad
					continue
				}
				if alts[i] == nil {
					alts[i] = map[string]bool{}
				}
				alts[i][a.String()] = true
			}
		}
	})
	if nRet == 0 {
		x.record(ctl, "TOK-R", name, nil, g, "", "no successful return (…, nil) found in the face-token parser")
		return
	}
	var slots []int
	for i := range pu.slotTag {
		slots = append(slots, i)
	}
	sort.Ints(slots)
	seenTags := map[string]bool{}
	for _, i := range slots {
		tag := pu.slotTag[i]
		seenTags[tag] = true
		construct := fmt.Sprintf("%s:result#%d(%s)", name, i, tag)
		var have []string
		for a := range alts[i] {
			have = append(have, a)
		}
		sort.Strings(have)
		viol := ""
		if b := bad[i]; b != "" {
			viol = "result used as '" + tag + "' index: " + b
		}
		for _, a := range have {
			if a == "absent(-1)" {
				if tag == "v" {
					// the position index is mandatory; a -1 default that is always overwritten shows up as an alternative only through a phi
				}
				continue
			}
			if !tokGrammar[tag][a] && viol == "" {
				viol = fmt.Sprintf("the %s index is taken from %s; in an OBJ face token v is piece 0, vt is piece 1 of a '/' split, vn is piece 2 of a '/' split or piece 1 of a '//' split", tag, a)
			}
		}
		if viol == "" {
			switch tag {
			case "v":
				if !(alts[i]["whole token"] && (alts[i][`split("/")[0]`])) {
					viol = "the forms 'v' (bare index) and 'v/…' are not both handled for the position index: have " + strings.Join(have, ", ")
				}
			case "vt":
				if !alts[i][`split("/")[1]`] {
					viol = "no successful return takes vt from piece 1 of a '/' split: have " + strings.Join(have, ", ")
				} else if !alts[i]["absent(-1)"] {
					viol = "vt is never reported absent (-1): the forms v and v//vn cannot be represented"
				}
			case "vn":
				if !alts[i][`split("/")[2]`] {
					viol = "no successful return takes vn from piece 2 of a '/' split (form v/vt/vn): have " + strings.Join(have, ", ")
				} else if !alts[i]["absent(-1)"] {
					viol = "vn is never reported absent (-1): the forms v and v/vt cannot be represented"
				} else if !alts[i][`split("//")[1]`] && !emptyPieceGuard(g) {
					viol = "the form v//vn is not handled: there is neither a '//' split nor a test for an empty vt piece before it is parsed, so 'v//vn' corners are rejected"
				}
			}
		}
		x.record(ctl, "TOK-R", construct, nil, g, viol, "", "alternatives: "+strings.Join(have, ", "))
	}
	for _, tag := range []string{"v", "vt", "vn"} {
		if !seenTags[tag] {
			x.record(ctl, "TOK-R", fmt.Sprintf("%s:(%s)", name, tag), nil, g, "no result of the face-token parser is used to look up '"+tag+"' records: that part of every corner is dropped", "")
		}
	}
}

// emptyPieceGuard: the parser compares piece 1 of a '/' split with "".
func emptyPieceGuard(g *ssa.Function) bool {
	return emptyPieceGuardIn(g, 0, map[*ssa.Function]bool{})
}

func emptyPieceGuardIn(g *ssa.Function, depth int, seen map[*ssa.Function]bool) bool {
	if seen[g] || depth > 3 {
		return false
	}
	seen[g] = true
	found := false
	liveInstrs(g, func(in ssa.Instruction) {
		if c, ok := in.(*ssa.Call); ok && !found {
			if h := c.Call.StaticCallee(); h != nil && h.Blocks != nil && h.Pkg == g.Pkg && emptyPieceGuardIn(h, depth+1, seen) {
				found = true
			}
		}
	})
	if found {
		return true
	}
	liveInstrs(g, func(in ssa.Instruction) {
		b, ok := in.(*ssa.BinOp)
		if !ok || (b.Op != token.EQL && b.Op != token.NEQ) {
			return
		}
		for _, pair := range [][2]ssa.Value{{b.X, b.Y}, {b.Y, b.X}} {
			if s, ok := constStr(pair[1]); ok && s == "" {
				v := pair[0]
				for {
					c, ok := v.(*ssa.Call)
					if ok && isPkgFunc(calleeOf(c), "strings", "TrimSpace") {
						v = c.Call.Args[0]
						continue
					}
					break
				}
				if ld, ok := isLoad(v); ok {
					if ia, ok := ld.X.(*ssa.IndexAddr); ok {
						if k, ok := constInt(ia.Index); ok && k == 1 {
							if sc, ok := ia.X.(*ssa.Call); ok && isPkgFunc(calleeOf(sc), "strings", "Split") {
								if sep, ok := constStr(sc.Call.Args[1]); ok && sep == "/" {
									found = true
								}
							}
						}
					}
				}
			}
		}
	})
	return found
}

// ---------------------------------------------------------------- CORNER-R

type cornerEnv struct {
	params map[*ssa.Parameter]ssa.Value
}

// cornerR: corner s of every face is resolved from field s+1 of the line; the
// per-group de-duplication map is keyed by the whole token that is parsed on a
// miss, and a miss stores len(map) (the next free vertex) under that token.
func (x *ctx) cornerR(rm *readerModel, parsers map[*ssa.Function]*parserUse, ctl bool) {
	m := newMatRule(x.P, rm.root, x.pcField)
	_ = m
	// index list appends (reuse FACE-1's discovery): appends of a [3]int varargs to a []int group field
	var appends []*ssa.Call
	for _, f := range rm.fns {
		liveInstrs(f, func(in ssa.Instruction) {
			c, ok := in.(*ssa.Call)
			if !ok || ssau.Builtin(c) != "append" || len(c.Call.Args) != 2 {
				return
			}
			st, ok := c.Type().Underlying().(*types.Slice)
			if !ok || !isIntType(st.Elem()) {
				return
			}
			if ld, ok := isLoad(c.Call.Args[0]); ok {
				if _, ok := ld.X.(*ssa.FieldAddr); ok {
					appends = append(appends, c)
				}
			}
		})
	}
	ord := ordinalKeys(appends)
	sort.Slice(appends, func(i, j int) bool { return ord[appends[i]] < ord[appends[j]] })
	if len(appends) == 0 {
		x.record(ctl, "CORNER-R", rm.name, nil, rm.root, "", "no append of corner indices to the working group's index list found")
		return
	}
	for _, a := range appends {
		construct := fmt.Sprintf("%s→append(indices)#%d:corners", rm.name, ord[a])
		sl, ok := a.Call.Args[1].(*ssa.Slice)
		var arr *ssa.Alloc
		if ok {
			arr, _ = sl.X.(*ssa.Alloc)
		}
		if arr == nil {
			x.record(ctl, "CORNER-R", construct, a, nil, "", "appended corner values are not an explicit list")
			continue
		}
		slotVal := map[int64]ssa.Value{}
		for _, r := range ssau.Refs(arr) {
			if ia, ok := r.(*ssa.IndexAddr); ok {
				k, _ := constInt(ia.Index)
				for _, r2 := range ssau.Refs(ia) {
					if st, ok := r2.(*ssa.Store); ok && st.Addr == ia {
						slotVal[k] = st.Val
					}
				}
			}
		}
		viol, und := "", ""
		var facts []string
		var fieldsBase ssa.Value
		for s := int64(0); s < int64(len(slotVal)); s++ {
			toks := map[string]bool{}
			var base ssa.Value
			why := x.cornerTokens(rm, slotVal[s], nil, toks, &base, map[ssa.Value]bool{}, 0)
			if why != "" {
				und = fmt.Sprintf("corner %d: %s", s+1, why)
				break
			}
			if fieldsBase == nil {
				fieldsBase = base
			} else if base != nil && base != fieldsBase {
				und = "corners are taken from different field lists"
				break
			}
			var ks []string
			for k := range toks {
				ks = append(ks, k)
			}
			sort.Strings(ks)
			want := fmt.Sprintf("[%d]", s+1)
			if len(ks) != 1 || ks[0] != want {
				viol = fmt.Sprintf("corner %d of the triangle is resolved from field(s) %v of the face line instead of field %s (corner order must be preserved)", s+1, ks, want)
				break
			}
			facts = append(facts, fmt.Sprintf("corner %d ← field%s", s+1, ks[0]))
		}
		x.record(ctl, "CORNER-R", construct, a, nil, viol, und, strings.Join(facts, ", "))
	}
	// de-duplication discipline per MapUpdate
	var mus []*ssa.MapUpdate
	for _, f := range rm.fns {
		liveInstrs(f, func(in ssa.Instruction) {
			mu, ok := in.(*ssa.MapUpdate)
			if !ok {
				return
			}
			mt, ok := mu.Map.Type().Underlying().(*types.Map)
			if !ok || !isIntType(mt.Elem()) {
				return
			}
			if b, ok := mt.Key().Underlying().(*types.Basic); !ok || b.Kind() != types.String {
				return
			}
			if ld, ok := isLoad(mu.Map); ok {
				if _, ok := ld.X.(*ssa.FieldAddr); ok {
					mus = append(mus, mu)
				}
			}
		})
	}
	ordM := ordinalKeys(mus)
	sort.Slice(mus, func(i, j int) bool { return ordM[mus[i]] < ordM[mus[j]] })
	for _, mu := range mus {
		construct := fmt.Sprintf("%s:dedup#%d", x.P.FuncName(mu.Parent()), ordM[mu])
		keySym, _, _ := stringSym(mu.Key)
		viol, und := "", ""
		if keySym == "" {
			und = "de-duplication key is not a field of the line / a parameter"
		}
		// value stored: len(same map) (or len of the position list of the group)
		if und == "" {
			lc, ok := stripConv(mu.Value).(*ssa.Call)
			if !ok || ssau.Builtin(lc) != "len" {
				viol = "a new corner is not numbered len(map) (the next free vertex of the group)"
			} else if !sameFieldLoad(lc.Call.Args[0], mu.Map) {
				if _, isMap := lc.Call.Args[0].Type().Underlying().(*types.Map); isMap {
					viol = "a new corner is numbered by the size of a different map"
				}
			}
		}
		// nearest dominating parser call parses the same token
		var pc *ssa.Call
		if und == "" && viol == "" {
			pc = nearestParserCall(mu, parsers)
			if pc == nil {
				und = "no face-token parser call dominates the map insertion"
			} else {
				ps, _, _ := stringSym(pc.Call.Args[0])
				if ps != keySym {
					viol = "the token stored as de-duplication key is not the token that was parsed for the new vertex (key " + describeSym(mu.Key) + ", parsed " + describeSym(pc.Call.Args[0]) + ")"
				}
			}
		}
		// the lookup guarding the miss uses the same key
		if und == "" && viol == "" {
			lk := guardingLookup(mu)
			if lk == nil {
				und = "no map lookup guards the insertion"
			} else {
				ls, _, _ := stringSym(lk.Index)
				if ls != keySym {
					viol = "the token looked up (" + describeSym(lk.Index) + ") is not the token inserted on a miss (" + describeSym(mu.Key) + ")"
				} else if !sameFieldLoad(lk.X, mu.Map) {
					viol = "lookup and insertion use different maps"
				}
			}
		}
		// list lookups on the miss path use this parser call's results
		if und == "" && viol == "" {
			for _, f := range []*ssa.Function{mu.Parent()} {
				liveInstrs(f, func(in ssa.Instruction) {
					ia, ok := in.(*ssa.IndexAddr)
					if !ok {
						return
					}
					ex, ok := stripConv(ia.Index).(*ssa.Extract)
					if !ok {
						return
					}
					c2, ok := ex.Tuple.(*ssa.Call)
					if !ok || c2.Call.StaticCallee() == nil || parsers[c2.Call.StaticCallee()] == nil {
						return
					}
					if !(mu.Block() == ia.Block() || mu.Block().Dominates(ia.Block())) {
						return
					}
					// nearest MapUpdate dominating ia must be mu for the pairing to apply
					if nearestMapUpdate(ia, mus) != mu {
						return
					}
					if c2 != pc {
						viol = "a v/vt/vn element looked up for the new vertex uses the indices parsed from another token"
					}
				})
			}
		}
		x.record(ctl, "CORNER-R", construct, mu, nil, viol, und, "lookup key = inserted key = parsed token ("+describeSym(mu.Key)+"); new vertex id = len(map)")
	}
	if len(mus) == 0 {
		x.record(ctl, "CORNER-R", rm.name+":dedup", nil, rm.root, "", "no per-group corner map insertion found")
	}
}

func describeSym(v ssa.Value) string {
	_, b, k := stringSym(v)
	if b == nil {
		return "?"
	}
	if k >= 0 {
		return fmt.Sprintf("field[%d]", k)
	}
	return "parameter " + b.Name()
}

func sameFieldLoad(a, b ssa.Value) bool {
	if a == b {
		return true
	}
	la, ok1 := isLoad(a)
	lb, ok2 := isLoad(b)
	if !ok1 || !ok2 {
		return false
	}
	fa, ok1 := la.X.(*ssa.FieldAddr)
	fb, ok2 := lb.X.(*ssa.FieldAddr)
	if ok1 && ok2 {
		return fa.Field == fb.Field && sameBase(fa.X, fb.X)
	}
	return la.X == lb.X
}

func sameBase(a, b ssa.Value) bool {
	if a == b {
		return true
	}
	// two FreeVar/Alloc references to the same variable are the same SSA value inside one function;
	// a pointer-typed group variable is re-read before every access
	la, ok1 := isLoad(a)
	lb, ok2 := isLoad(b)
	if ok1 && ok2 {
		switch la.X.(type) {
		case *ssa.Alloc, *ssa.FreeVar:
			return la.X == lb.X
		}
	}
	return false
}

func nearestParserCall(in ssa.Instruction, parsers map[*ssa.Function]*parserUse) *ssa.Call {
	b := in.Block()
	limit := ssau.InstrIndex(in)
	for b != nil {
		for i := limit - 1; i >= 0; i-- {
			if c, ok := b.Instrs[i].(*ssa.Call); ok {
				if g := c.Call.StaticCallee(); g != nil && parsers[g] != nil {
					return c
				}
			}
		}
		b = b.Idom()
		if b != nil {
			limit = len(b.Instrs)
		}
	}
	return nil
}

func nearestMapUpdate(in ssa.Instruction, mus []*ssa.MapUpdate) *ssa.MapUpdate {
	isMu := map[ssa.Instruction]*ssa.MapUpdate{}
	for _, m := range mus {
		isMu[m] = m
	}
	b := in.Block()
	limit := ssau.InstrIndex(in)
	for b != nil {
		for i := limit - 1; i >= 0; i-- {
			if m := isMu[b.Instrs[i]]; m != nil {
				return m
			}
		}
		b = b.Idom()
		if b != nil {
			limit = len(b.Instrs)
		}
	}
	return nil
}

// guardingLookup: the comma-ok map lookup whose "not found" edge dominates mu.
func guardingLookup(mu *ssa.MapUpdate) *ssa.Lookup {
	b := mu.Block()
	for b != nil {
		d := b.Idom()
		if d == nil {
			return nil
		}
		if ifi, ok := d.Instrs[len(d.Instrs)-1].(*ssa.If); ok && len(b.Preds) == 1 && b.Preds[0] == d {
			cond := ifi.Cond
			neg := false
			if u, ok := cond.(*ssa.UnOp); ok && u.Op == token.NOT {
				cond, neg = u.X, true
			}
			if ex, ok := cond.(*ssa.Extract); ok && ex.Index == 1 {
				if lk, ok := ex.Tuple.(*ssa.Lookup); ok && lk.CommaOk {
					missEdge := 1
					if neg {
						missEdge = 0
					}
					if d.Succs[missEdge] == b {
						return lk
					}
				}
			}
		}
		b = d
	}
	return nil
}

// cornerTokens collects, for a corner value, the fields of the face line it is
// resolved from ("[k]"). env maps parameters of helper functions to actuals.
func (x *ctx) cornerTokens(rm *readerModel, v ssa.Value, env map[*ssa.Parameter]ssa.Value, out map[string]bool, base *ssa.Value, seen map[ssa.Value]bool, depth int) string {
	if depth > 10 {
		return "corner provenance too deep"
	}
	v = stripConv(v)
	if seen[v] {
		return ""
	}
	seen[v] = true
	tokOf := func(s ssa.Value) string {
		for d := 0; d < 4; d++ {
			_, b, k := stringSym(s)
			if b == nil {
				return "token is not a field of the line"
			}
			if k >= 0 {
				if *base == nil {
					*base = b
				} else if *base != b {
					return "tokens from different field lists"
				}
				out[fmt.Sprintf("[%d]", k)] = true
				return ""
			}
			p := b.(*ssa.Parameter)
			a, ok := env[p]
			if !ok {
				return "token parameter without a known actual"
			}
			s = a
		}
		return "token provenance too deep"
	}
	switch t := v.(type) {
	case *ssa.Phi:
		for _, e := range t.Edges {
			if why := x.cornerTokens(rm, e, env, out, base, seen, depth+1); why != "" {
				return why
			}
		}
		return ""
	case *ssa.Extract:
		switch tu := t.Tuple.(type) {
		case *ssa.Lookup:
			if t.Index != 0 {
				return "corner is not the looked-up vertex id"
			}
			return tokOf(tu.Index)
		case *ssa.Call:
			return x.cornerFromCall(rm, tu, t.Index, env, out, base, depth)
		}
	case *ssa.Lookup:
		return tokOf(t.Index)
	case *ssa.Call:
		if ssau.Builtin(t) == "len" {
			// the new-vertex id: find the insertion that stores it
			found := false
			for _, r := range ssau.Refs(t) {
				if mu, ok := r.(*ssa.MapUpdate); ok && mu.Value == ssa.Value(t) {
					found = true
					if why := tokOf(mu.Key); why != "" {
						return why
					}
				}
			}
			if !found {
				return "a corner numbered len(…) is not inserted into the corner map"
			}
			return ""
		}
		return x.cornerFromCall(rm, t, 0, env, out, base, depth)
	case *ssa.Const:
		return "constant corner"
	}
	return "corner value not recognised (" + v.Name() + ")"
}

func (x *ctx) cornerFromCall(rm *readerModel, c *ssa.Call, result int, env map[*ssa.Parameter]ssa.Value, out map[string]bool, base *ssa.Value, depth int) string {
	fns := calleeFns(c)
	if len(fns) != 1 || !rm.res.inScope[fns[0]] {
		return "corner computed by an unknown function"
	}
	g := fns[0]
	env2 := map[*ssa.Parameter]ssa.Value{}
	for i, p := range g.Params {
		a := callArg(c, i)
		// substitute the caller's environment
		if ap, ok := a.(*ssa.Parameter); ok && env != nil {
			if aa, ok := env[ap]; ok {
				a = aa
			}
		}
		env2[p] = a
	}
	errT := types.Universe.Lookup("error").Type()
	why := ""
	n := 0
	liveInstrs(g, func(in ssa.Instruction) {
		r, ok := in.(*ssa.Return)
		if !ok || result >= len(r.Results) || why != "" {
			return
		}
		if len(r.Results) > 1 {
			last := r.Results[len(r.Results)-1]
			if types.Identical(last.Type(), errT) {
				if cst, ok := last.(*ssa.Const); !ok || cst.Value != nil {
					return
				}
			}
		}
		n++
		why = x.cornerTokens(rm, r.Results[result], env2, out, base, map[ssa.Value]bool{}, depth+1)
	})
	if why == "" && n == 0 {
		return "helper has no successful return"
	}
	return why
}

// guardedByNonEmpty: instruction h is control dependent, inside its arm, on a
// test of len(<field of the group>) against 0 — written inline or as a call of
// a helper of this package returning such a comparison.
func (rm *readerModel) guardedByNonEmpty(h ssa.Instruction) bool {
	isLenTest := func(v ssa.Value) bool {
		b, ok := v.(*ssa.BinOp)
		if !ok {
			return false
		}
		for _, pair := range [][2]ssa.Value{{b.X, b.Y}, {b.Y, b.X}} {
			if _, ok := constInt(stripConv(pair[1])); !ok {
				continue
			}
			if c, ok := stripConv(pair[0]).(*ssa.Call); ok && ssau.Builtin(c) == "len" {
				if ld, ok := isLoad(c.Call.Args[0]); ok {
					if _, ok := ld.X.(*ssa.FieldAddr); ok {
						return true
					}
				}
			}
		}
		return false
	}
	var isEmptinessCond func(v ssa.Value, d int) bool
	isEmptinessCond = func(v ssa.Value, d int) bool {
		if d > 3 {
			return false
		}
		if u, ok := v.(*ssa.UnOp); ok && u.Op == token.NOT {
			return isEmptinessCond(u.X, d+1)
		}
		if isLenTest(v) {
			return true
		}
		if c, ok := v.(*ssa.Call); ok {
			if g := c.Call.StaticCallee(); g != nil && rm.res.inScope[g] && g.Blocks != nil {
				okAll, n := true, 0
				liveInstrs(g, func(in ssa.Instruction) {
					if r, ok := in.(*ssa.Return); ok && len(r.Results) == 1 {
						n++
						if !isEmptinessCond(r.Results[0], d+1) {
							okAll = false
						}
					}
				})
				return okAll && n > 0
			}
		}
		return false
	}
	b := h.Block()
	guarded := false
	for b != nil {
		d := b.Idom()
		if d == nil {
			return guarded
		}
		if ifi, ok := d.Instrs[len(d.Instrs)-1].(*ssa.If); ok && len(b.Preds) == 1 && b.Preds[0] == d && d.Succs[0] != d.Succs[1] {
			// stop at the arm's own tag test
			if c, ok := ifi.Cond.(*ssa.BinOp); ok && c.Op == token.EQL {
				if _, isS := constStr(c.Y); isS {
					return guarded
				}
				if _, isS := constStr(c.X); isS {
					return guarded
				}
			}
			switch {
			case isEmptinessCond(ifi.Cond, 0):
				guarded = true
			case isNilCheck(ifi.Cond):
			default:
				rm.foreignGroupGuard = "whether a 'g' record closes the working group also depends on a condition (" + describeCond(ifi.Cond) + " at " + rm.x.P.Pos(ssau.PosOf(ifi)) + ") other than the group being empty: groups for which it is skipped are merged into one mesh"
			}
		}
		b = d
	}
	return guarded
}

func isNilCheck(v ssa.Value) bool {
	if u, ok := v.(*ssa.UnOp); ok && u.Op == token.NOT {
		return isNilCheck(u.X)
	}
	b, ok := v.(*ssa.BinOp)
	if !ok || (b.Op != token.EQL && b.Op != token.NEQ) {
		return false
	}
	for _, o := range []ssa.Value{b.X, b.Y} {
		if c, ok := o.(*ssa.Const); ok && c.Value == nil {
			if _, isIface := c.Type().Underlying().(*types.Interface); isIface {
				return true
			}
		}
	}
	return false
}

// ---------------------------------------------------------------- GROUP-R

// groupR: a `g` record closes the working group (hand-off inside the arm),
// stores the parsed name in the group, the name reaches ObjMesh.Name at the
// hand-off, and the last group is handed off after the scan loop.
func (x *ctx) groupR(rm *readerModel, ctl bool) {
	// hand-off sites in root: calls (possibly through helpers) reaching a mesh constructor
	isCtor := func(fn *types.Func) bool {
		return fn != nil && fn.Pkg() != nil && fn.Pkg().Path() == modelingPath && ssau.RecvNamed(fn) == nil && (fn.Name() == "NewTriangleMesh" || fn.Name() == "NewMesh")
	}
	reaches := map[*ssa.Function]bool{}
	changed := true
	for changed {
		changed = false
		for _, f := range rm.fns {
			if reaches[f] {
				continue
			}
			liveInstrs(f, func(in ssa.Instruction) {
				c, ok := in.(ssa.CallInstruction)
				if !ok || reaches[f] {
					return
				}
				if isCtor(calleeOf(c)) {
					reaches[f] = true
					changed = true
					return
				}
				for _, g := range calleeFns(c) {
					if reaches[g] {
						reaches[f] = true
						changed = true
					}
				}
			})
		}
	}
	var inG, afterLoop []ssa.Instruction
	loops := ssau.Loops(rm.root)
	liveInstrs(rm.root, func(in ssa.Instruction) {
		c, ok := in.(ssa.CallInstruction)
		if !ok {
			return
		}
		hit := isCtor(calleeOf(c))
		for _, g := range calleeFns(c) {
			if reaches[g] && g != rm.root {
				hit = true
			}
		}
		if !hit {
			return
		}
		if tag, _, ok := armTag(in.Block()); ok && tag == "g" {
			inG = append(inG, in)
		}
		if ssau.InnermostLoop(loops, in.Block()) == nil {
			afterLoop = append(afterLoop, in)
		}
	})
	construct := rm.name + ":group-close"
	switch {
	case len(inG) == 0:
		x.record(ctl, "GROUP-R", construct, nil, rm.root, "the 'g' arm does not hand the working group off: consecutive groups are merged into one mesh", "")
	case len(afterLoop) == 0:
		x.record(ctl, "GROUP-R", construct, nil, rm.root, "no hand-off after the scan loop: the last group of the file is dropped", "")
	default:
		viol := ""
		for _, h := range inG {
			rm.foreignGroupGuard = ""
			if !rm.guardedByNonEmpty(h) {
				viol = "the hand-off in the 'g' arm is not skipped when the working group has no faces yet: a file that starts with a 'g' line (every file the writer produces for named meshes) yields an extra empty mesh"
			}
		}
		if viol == "" && rm.foreignGroupGuard != "" {
			viol = rm.foreignGroupGuard
		}
		x.record(ctl, "GROUP-R", construct, inG[0], nil, viol, "", fmt.Sprintf("%d hand-off(s) in the 'g' arm (skipped while the group is empty), %d after the scan loop", len(inG), len(afterLoop)))
	}
	// name plumbing
	objMeshT := lookupType(x.objPkg.Pkg, "ObjMesh")
	nameField := fieldNamed(objMeshT, "Name")
	construct = rm.name + ":group-name"
	if nameField == nil {
		x.record(ctl, "GROUP-R", construct, nil, rm.root, "", "field obj.ObjMesh.Name not found")
		return
	}
	var srcField *types.Var
	var nameStore *ssa.Store
	for _, f := range rm.fns {
		liveInstrs(f, func(in ssa.Instruction) {
			st, ok := in.(*ssa.Store)
			if !ok {
				return
			}
			fa, ok := st.Addr.(*ssa.FieldAddr)
			if !ok || ssau.FieldOf(fa) != nameField {
				return
			}
			nameStore = st
			if ld, ok := isLoad(st.Val); ok {
				if fa2, ok := ld.X.(*ssa.FieldAddr); ok {
					srcField = ssau.FieldOf(fa2)
				}
			}
		})
	}
	if nameStore == nil {
		x.record(ctl, "GROUP-R", construct, nil, rm.root, "ObjMesh.Name is never set by the reader: group names are lost", "")
		return
	}
	if srcField == nil {
		x.record(ctl, "GROUP-R", construct, nameStore, nil, "", "ObjMesh.Name is not set from a field of the working group")
		return
	}
	// the g arm stores the parsed name into srcField
	okStore := false
	var wrongTag string
	for _, f := range rm.fns {
		liveInstrs(f, func(in ssa.Instruction) {
			st, ok := in.(*ssa.Store)
			if !ok {
				return
			}
			fa, ok := st.Addr.(*ssa.FieldAddr)
			if !ok || ssau.FieldOf(fa) != srcField {
				return
			}
			if _, isC := st.Val.(*ssa.Const); isC {
				return
			}
			tag, _, ok := armTag(st.Block())
			if ok && tag == "g" {
				if ex, ok := st.Val.(*ssa.Extract); ok {
					if _, ok := ex.Tuple.(*ssa.Call); ok {
						okStore = true
					}
				} else if _, ok := st.Val.(*ssa.Call); ok {
					okStore = true
				}
			} else if ok {
				wrongTag = tag
			}
		})
	}
	switch {
	case okStore:
		x.record(ctl, "GROUP-R", construct, nameStore, nil, "", "", "'g' arm: parsed name → group field "+srcField.Name()+" → ObjMesh.Name at the hand-off")
	case wrongTag != "":
		x.record(ctl, "GROUP-R", construct, nameStore, nil, "the group name is taken from '"+wrongTag+"' records, not from 'g' records", "")
	default:
		x.record(ctl, "GROUP-R", construct, nameStore, nil, "the name parsed in the 'g' arm is never stored in the group field ("+srcField.Name()+") that becomes ObjMesh.Name", "")
	}
}
