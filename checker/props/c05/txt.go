package c05

import (
	"fmt"
	"go/token"
	"go/types"

	"golang.org/x/tools/go/ssa"

	"polycheck/ssau"
)

// TXT-1 — the line buffer primitives the OBJ writer is built from do what the
// OBJ rules assume: StartEntry empties the buffer, every appender extends the
// buffer by exactly its argument (Int in base 10, Float64 shortest round-trip
// representation, Space ' ', NewLine '\n'), FinishEntry hands the buffer to the
// underlying io.Writer.
func (x *ctx) txt1() {
	sp := x.P.SSAPkg("formats/txt")
	if sp == nil {
		x.R.Failf("anchor package formats/txt not found")
		return
	}
	wt := lookupType(sp.Pkg, "Writer")
	if wt == nil {
		x.R.Failf("anchor type txt.Writer not found")
		return
	}
	st, _ := wt.Underlying().(*types.Struct)
	bufIdx := -1
	if st != nil {
		for i := 0; i < st.NumFields(); i++ {
			if s, ok := st.Field(i).Type().Underlying().(*types.Slice); ok {
				if b, ok := s.Elem().Underlying().(*types.Basic); ok && b.Kind() == types.Byte {
					if bufIdx >= 0 {
						bufIdx = -2
					} else {
						bufIdx = i
					}
				}
			}
		}
	}
	if bufIdx < 0 {
		x.R.Failf("txt.Writer: the line buffer field ([]byte) was not identified")
		return
	}
	isBufAddr := func(v ssa.Value) bool {
		fa, ok := v.(*ssa.FieldAddr)
		if !ok || fa.Field != bufIdx {
			return false
		}
		_, isParam := fa.X.(*ssa.Parameter)
		return isParam
	}
	isBufLoad := func(v ssa.Value) bool {
		ld, ok := isLoad(v)
		return ok && isBufAddr(ld.X)
	}
	bufStores := func(fn *ssa.Function) []ssa.Value {
		var out []ssa.Value
		liveInstrs(fn, func(in ssa.Instruction) {
			if s, ok := in.(*ssa.Store); ok && isBufAddr(s.Addr) {
				out = append(out, s.Val)
			}
		})
		return out
	}
	constByteAppend := func(v ssa.Value, want int64) string {
		c, ok := v.(*ssa.Call)
		if !ok || ssau.Builtin(c) != "append" || len(c.Call.Args) != 2 || !isBufLoad(c.Call.Args[0]) {
			return "the buffer is not extended by append(buf, …)"
		}
		sl, ok := c.Call.Args[1].(*ssa.Slice)
		if !ok {
			return "appended bytes are not an explicit list"
		}
		arr, ok := sl.X.(*ssa.Alloc)
		if !ok {
			return "appended bytes are not an explicit list"
		}
		n := 0
		bad := ""
		for _, r := range ssau.Refs(arr) {
			if ia, ok := r.(*ssa.IndexAddr); ok {
				for _, r2 := range ssau.Refs(ia) {
					if s, ok := r2.(*ssa.Store); ok {
						n++
						if k, ok := constInt(s.Val); !ok || k != want {
							bad = fmt.Sprintf("appends byte %v instead of %d (%q)", s.Val, want, rune(want))
						}
					}
				}
			}
		}
		if n != 1 && bad == "" {
			bad = fmt.Sprintf("appends %d bytes instead of 1", n)
		}
		return bad
	}
	type spec struct {
		name  string
		check func(fn *ssa.Function) (viol string, fact string)
	}
	appendOfParam := func(fn *ssa.Function) (string, string) {
		vs := bufStores(fn)
		if len(vs) != 1 {
			return fmt.Sprintf("%d assignments to the line buffer instead of 1", len(vs)), ""
		}
		c, ok := vs[0].(*ssa.Call)
		if !ok || ssau.Builtin(c) != "append" || len(c.Call.Args) != 2 || !isBufLoad(c.Call.Args[0]) {
			return "the buffer is not extended by append(buf, arg...)", ""
		}
		if p, ok := c.Call.Args[1].(*ssa.Parameter); !ok || paramIndex(p) != 1 {
			return "what is appended is not the method's argument", ""
		}
		return "", "buf = append(buf, arg...)"
	}
	specs := []spec{
		{"StartEntry", func(fn *ssa.Function) (string, string) {
			vs := bufStores(fn)
			if len(vs) == 0 {
				return "StartEntry does not reset the line buffer: every entry repeats the previous ones", ""
			}
			for _, v := range vs {
				switch t := v.(type) {
				case *ssa.Slice:
					hi, ok := constInt(t.High)
					lowOK := t.Low == nil
					if t.Low != nil {
						if lo, ok := constInt(t.Low); ok && lo == 0 {
							lowOK = true
						}
					}
					if t.High == nil || !ok || hi != 0 || !lowOK || !isBufLoad(t.X) {
						return "StartEntry does not truncate the line buffer to length 0", ""
					}
				case *ssa.Const:
					if t.Value != nil {
						return "StartEntry does not empty the line buffer", ""
					}
				case *ssa.MakeSlice:
					if n, ok := constInt(t.Len); !ok || n != 0 {
						return "StartEntry does not empty the line buffer", ""
					}
				default:
					return "StartEntry does not empty the line buffer", ""
				}
			}
			return "", "buf = buf[:0]"
		}},
		{"FinishEntry", func(fn *ssa.Function) (string, string) {
			var w *ssa.Call
			liveInstrs(fn, func(in ssa.Instruction) {
				c, isCall := in.(*ssa.Call)
				if !isCall {
					return
				}
				for _, a := range c.Call.Args {
					if isBufLoad(a) {
						cal := calleeOf(c)
						if cal != nil && cal.Name() == "Write" {
							w = c
						}
					}
				}
			})
			if w == nil {
				return "FinishEntry does not pass the line buffer to a Write: the entry is never emitted", ""
			}
			skipped := false
			liveInstrs(fn, func(in ssa.Instruction) {
				if r, ok := in.(*ssa.Return); ok && !ssau.Before(w, r) {
					skipped = true
				}
			})
			if skipped {
				return "FinishEntry can return without writing the line buffer: entries are lost", ""
			}
			if len(bufStores(fn)) != 0 {
				return "FinishEntry modifies the line buffer", ""
			}
			return "", "Write(buf) on every path"
		}},
		{"Write", func(fn *ssa.Function) (string, string) {
			ok := false
			liveInstrs(fn, func(in ssa.Instruction) {
				c, isCall := in.(*ssa.Call)
				if !isCall || !c.Call.IsInvoke() || c.Call.Method.Name() != "Write" || len(c.Call.Args) != 1 {
					return
				}
				if p, isP := c.Call.Args[0].(*ssa.Parameter); isP && paramIndex(p) == 1 {
					ok = true
				}
			})
			if !ok {
				return "Write does not forward its argument to the underlying io.Writer", ""
			}
			return "", "out.Write(p)"
		}},
		{"Int", func(fn *ssa.Function) (string, string) {
			vs := bufStores(fn)
			if len(vs) != 1 {
				return fmt.Sprintf("%d assignments to the line buffer instead of 1", len(vs)), ""
			}
			c, ok := vs[0].(*ssa.Call)
			if !ok || !isPkgFunc(calleeOf(c), "strconv", "AppendInt") || !isBufLoad(c.Call.Args[0]) {
				return "Int does not extend the buffer with strconv.AppendInt(buf, …)", ""
			}
			if p, ok := stripIntConv(c.Call.Args[1]).(*ssa.Parameter); !ok || paramIndex(p) != 1 {
				return "Int does not format its argument", ""
			}
			if b, ok := constInt(c.Call.Args[2]); !ok || b != 10 {
				return "Int formats in a base other than 10: OBJ indices are decimal", ""
			}
			return "", "buf = strconv.AppendInt(buf, int64(i), 10)"
		}},
		{"Float64", func(fn *ssa.Function) (string, string) {
			vs := bufStores(fn)
			if len(vs) != 1 {
				return fmt.Sprintf("%d assignments to the line buffer instead of 1", len(vs)), ""
			}
			c, ok := vs[0].(*ssa.Call)
			if !ok || !isPkgFunc(calleeOf(c), "strconv", "AppendFloat") || !isBufLoad(c.Call.Args[0]) {
				return "Float64 does not extend the buffer with strconv.AppendFloat(buf, …)", ""
			}
			if p, ok := c.Call.Args[1].(*ssa.Parameter); !ok || paramIndex(p) != 1 {
				return "Float64 does not format its argument unchanged", ""
			}
			f, _ := constInt(c.Call.Args[2])
			switch f {
			case 'f', 'g', 'e', 'E', 'G':
			default:
				return fmt.Sprintf("Float64 uses format %q, which strconv.ParseFloat on the reading side does not accept as a decimal number", rune(f)), ""
			}
			if prec, ok := constInt(c.Call.Args[3]); !ok || prec != -1 {
				return "Float64 writes a fixed number of digits: precision -1 (shortest representation that round-trips) is required to keep float32 precision for every magnitude", ""
			}
			if bits, ok := constInt(c.Call.Args[4]); !ok || (bits != 64 && bits != 32) {
				return "Float64 formats for an unknown bit size", ""
			}
			return "", fmt.Sprintf("buf = strconv.AppendFloat(buf, f, %q, -1, 32|64)", rune(f))
		}},
		{"Space", func(fn *ssa.Function) (string, string) {
			vs := bufStores(fn)
			if len(vs) != 1 {
				return fmt.Sprintf("%d assignments to the line buffer instead of 1", len(vs)), ""
			}
			return constByteAppend(vs[0], ' '), "buf = append(buf, ' ')"
		}},
		{"NewLine", func(fn *ssa.Function) (string, string) {
			vs := bufStores(fn)
			if len(vs) != 1 {
				return fmt.Sprintf("%d assignments to the line buffer instead of 1", len(vs)), ""
			}
			return constByteAppend(vs[0], '\n'), "buf = append(buf, '\\n')"
		}},
		{"String", appendOfParam},
		{"Append", appendOfParam},
	}
	for _, s := range specs {
		fn := x.P.Func("formats/txt", "Writer."+s.name)
		if fn == nil || fn.Blocks == nil {
			x.R.Failf("anchor method txt.Writer.%s not found", s.name)
			continue
		}
		viol, fact := s.check(fn)
		x.record(false, "TXT-1", x.P.FuncName(fn), nil, fn, viol, "", fact)
	}
}

func stripIntConv(v ssa.Value) ssa.Value {
	for {
		switch t := v.(type) {
		case *ssa.Convert:
			v = t.X
		case *ssa.ChangeType:
			v = t.X
		default:
			return v
		}
	}
}

var _ = token.ADD
