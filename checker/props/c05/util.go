package c05

import (
	"fmt"
	"go/constant"
	"go/token"
	"go/types"
	"sort"
	"strings"

	"golang.org/x/tools/go/ssa"

	"polycheck/load"
	"polycheck/ssau"
)

const (
	modelingPath = load.Module + "/modeling"
	txtPath      = load.Module + "/formats/txt"
	objRel       = "formats/obj"
	iterPath     = "github.com/EliCDavis/iter"
	vec3Path     = "github.com/EliCDavis/vector/vector3"
	vec2Path     = "github.com/EliCDavis/vector/vector2"
)

// ---------------------------------------------------------------- callees

func calleeOf(c ssa.CallInstruction) *types.Func { return ssau.CalleeObj(c) }

func isMeshMethod(fn *types.Func, names ...string) bool {
	for _, n := range names {
		if ssau.IsMethod(fn, modelingPath, "Mesh", n) {
			return true
		}
	}
	return false
}

func isTxtMethod(fn *types.Func, names ...string) bool {
	for _, n := range names {
		if ssau.IsMethod(fn, txtPath, "Writer", n) {
			return true
		}
	}
	return false
}

func isIterMethod(fn *types.Func, name string) bool {
	return ssau.IsMethod(fn, iterPath, "ArrayIterator", name)
}

// vectorComponent returns 0,1,2,3 for X,Y,Z,W methods of EliCDavis/vector types, and the dimension of the vector type.
func vectorComponent(fn *types.Func) (axis int, dim int, ok bool) {
	if fn == nil {
		return 0, 0, false
	}
	n := ssau.RecvNamed(fn)
	if n == nil {
		return 0, 0, false
	}
	o := n.Origin().Obj()
	if o.Pkg() == nil || o.Name() != "Vector" {
		return 0, 0, false
	}
	switch o.Pkg().Path() {
	case vec2Path:
		dim = 2
	case vec3Path:
		dim = 3
	case "github.com/EliCDavis/vector/vector4":
		dim = 4
	default:
		return 0, 0, false
	}
	switch fn.Name() {
	case "X":
		return 0, dim, true
	case "Y":
		return 1, dim, true
	case "Z":
		return 2, dim, true
	case "W":
		return 3, dim, true
	}
	return 0, 0, false
}

// calleeFns resolves the functions a call may invoke when they are visible
// structurally: a static callee, a closure, or a local function variable that
// is only ever assigned named functions / closures (a Phi of function values or
// an Alloc with function-valued stores).
func calleeFns(c ssa.CallInstruction) []*ssa.Function {
	cc := c.Common()
	if cc.IsInvoke() {
		return nil
	}
	if f := cc.StaticCallee(); f != nil {
		return []*ssa.Function{f}
	}
	seen := map[ssa.Value]bool{}
	var out []*ssa.Function
	okAll := true
	var walk func(v ssa.Value)
	walk = func(v ssa.Value) {
		if seen[v] {
			return
		}
		seen[v] = true
		switch x := v.(type) {
		case *ssa.Function:
			out = append(out, x)
		case *ssa.MakeClosure:
			if f, ok := x.Fn.(*ssa.Function); ok {
				out = append(out, f)
			} else {
				okAll = false
			}
		case *ssa.Phi:
			for _, e := range x.Edges {
				walk(e)
			}
		case *ssa.ChangeType:
			walk(x.X)
		case *ssa.UnOp:
			if x.Op != token.MUL {
				okAll = false
				return
			}
			var cell ssa.Value = x.X
			for d := 0; d < 4; d++ {
				fv, isFV := cell.(*ssa.FreeVar)
				if !isFV {
					break
				}
				cell = bindingOf(fv)
			}
			a, ok := cell.(*ssa.Alloc)
			if !ok {
				okAll = false
				return
			}
			for _, r := range allRefsOfCell(a) {
				switch r := r.(type) {
				case *ssa.Store:
					if _, isCell := r.Addr.(*ssa.FreeVar); r.Addr == ssa.Value(a) || isCell {
						walk(r.Val)
					} else {
						okAll = false
					}
				case *ssa.UnOp, *ssa.DebugRef:
				default:
					okAll = false
				}
			}
		case *ssa.Const:
			// nil function value: ignore (calling it would panic)
		case *ssa.Call:
			// the result of a helper of the same package all of whose returns are function values
			g := x.Call.StaticCallee()
			if g == nil || g.Blocks == nil || x.Parent() == nil || g.Pkg == nil || g.Pkg != x.Parent().Pkg || g.Signature.Results().Len() != 1 {
				okAll = false
				return
			}
			n := 0
			liveInstrs(g, func(in ssa.Instruction) {
				if r, ok := in.(*ssa.Return); ok && len(r.Results) == 1 {
					n++
					walk(r.Results[0])
				}
			})
			if n == 0 {
				okAll = false
			}
		default:
			okAll = false
		}
	}
	walk(cc.Value)
	if !okAll {
		return nil
	}
	return out
}

// bindingOf returns the value bound to a free variable where its closure is created.
func bindingOf(fv *ssa.FreeVar) ssa.Value {
	fn := fv.Parent()
	idx := -1
	for i, v := range fn.FreeVars {
		if v == fv {
			idx = i
		}
	}
	par := fn.Parent()
	if par == nil || idx < 0 {
		return nil
	}
	var out ssa.Value
	liveInstrs(par, func(in ssa.Instruction) {
		if mc, ok := in.(*ssa.MakeClosure); ok && mc.Fn == ssa.Value(fn) && idx < len(mc.Bindings) {
			out = mc.Bindings[idx]
		}
	})
	return out
}

// allRefsOfCell: referrers of a cell including those through closures that capture it.
func allRefsOfCell(a ssa.Value) []ssa.Instruction {
	var out []ssa.Instruction
	seen := map[ssa.Value]bool{}
	var walk func(v ssa.Value)
	walk = func(v ssa.Value) {
		if seen[v] {
			return
		}
		seen[v] = true
		for _, r := range ssau.Refs(v) {
			if mc, ok := r.(*ssa.MakeClosure); ok {
				if g, ok := mc.Fn.(*ssa.Function); ok {
					for i, b := range mc.Bindings {
						if b == v && i < len(g.FreeVars) {
							walk(g.FreeVars[i])
						}
					}
				}
				continue
			}
			out = append(out, r)
		}
	}
	walk(a)
	return out
}

// ---------------------------------------------------------------- constants

func constInt(v ssa.Value) (int64, bool) {
	c, ok := v.(*ssa.Const)
	if !ok || c.Value == nil || c.Value.Kind() != constant.Int {
		return 0, false
	}
	n, exact := constant.Int64Val(c.Value)
	return n, exact
}

func constStr(v ssa.Value) (string, bool) {
	c, ok := v.(*ssa.Const)
	if !ok || c.Value == nil || c.Value.Kind() != constant.String {
		return "", false
	}
	return constant.StringVal(c.Value), true
}

// byteOrStringConst: a constant string, or []byte("const").
func byteOrStringConst(v ssa.Value) (string, bool) {
	if s, ok := constStr(v); ok {
		return s, true
	}
	switch x := v.(type) {
	case *ssa.Convert:
		return byteOrStringConst(x.X)
	case *ssa.ChangeType:
		return byteOrStringConst(x.X)
	case *ssa.Phi:
		// hoisted constant merged with itself
		var s string
		for i, e := range x.Edges {
			t, ok := byteOrStringConst(e)
			if !ok || (i > 0 && t != s) {
				return "", false
			}
			s = t
		}
		return s, len(x.Edges) > 0
	}
	return "", false
}

// ---------------------------------------------------------------- small value helpers

func isLoad(v ssa.Value) (*ssa.UnOp, bool) {
	u, ok := v.(*ssa.UnOp)
	if ok && u.Op == token.MUL {
		return u, true
	}
	return nil, false
}

func stripConv(v ssa.Value) ssa.Value {
	for {
		switch x := v.(type) {
		case *ssa.ChangeType:
			v = x.X
		case *ssa.Convert:
			// only between integer / same-kind types
			if isIntType(x.Type()) && isIntType(x.X.Type()) {
				v = x.X
				continue
			}
			return v
		default:
			return v
		}
	}
}

func isIntType(t types.Type) bool {
	b, ok := t.Underlying().(*types.Basic)
	return ok && b.Info()&types.IsInteger != 0
}

func isNamedType(t types.Type, pkg, name string) bool { return ssau.IsNamed(t, pkg, name) }

func sliceElemNamed(t types.Type, pkg, name string) bool {
	s, ok := t.Underlying().(*types.Slice)
	if !ok {
		return false
	}
	n, ok := s.Elem().(*types.Named)
	if !ok {
		return false
	}
	return n.Obj().Name() == name && n.Obj().Pkg() != nil && n.Obj().Pkg().Path() == pkg
}

// ---------------------------------------------------------------- linear forms

// lin is c + Σ coef·atom over SSA atoms (values that are not +,-,·const).
type lin struct {
	c     int64
	terms map[ssa.Value]int64
}

func (l lin) String() string {
	var parts []string
	for v, k := range l.terms {
		parts = append(parts, fmt.Sprintf("%d*%s", k, v.Name()))
	}
	sort.Strings(parts)
	parts = append(parts, fmt.Sprintf("%d", l.c))
	return strings.Join(parts, " + ")
}

// linOf computes the linear form of an integer value. canon maps an atom to a
// canonical representative (e.g. all loads of the same cell to one value); it
// may return nil to keep the value itself.
func linOf(v ssa.Value, canon func(ssa.Value) ssa.Value) lin {
	l := lin{terms: map[ssa.Value]int64{}}
	var add func(v ssa.Value, k int64, depth int)
	add = func(v ssa.Value, k int64, depth int) {
		v = stripConv(v)
		if n, ok := constInt(v); ok {
			l.c += k * n
			return
		}
		if b, ok := v.(*ssa.BinOp); ok && depth < 12 {
			switch b.Op {
			case token.ADD:
				add(b.X, k, depth+1)
				add(b.Y, k, depth+1)
				return
			case token.SUB:
				add(b.X, k, depth+1)
				add(b.Y, -k, depth+1)
				return
			case token.MUL:
				if n, ok := constInt(stripConv(b.Y)); ok {
					add(b.X, k*n, depth+1)
					return
				}
				if n, ok := constInt(stripConv(b.X)); ok {
					add(b.Y, k*n, depth+1)
					return
				}
			}
		}
		if canon != nil {
			if c := canon(v); c != nil {
				v = c
			}
		}
		l.terms[v] += k
		if l.terms[v] == 0 {
			delete(l.terms, v)
		}
	}
	add(v, 1, 0)
	return l
}

// single returns the only atom of l when l == c + 1·atom.
func (l lin) single() (ssa.Value, int64, bool) {
	if len(l.terms) != 1 {
		return nil, 0, false
	}
	for v, k := range l.terms {
		if k == 1 {
			return v, l.c, true
		}
	}
	return nil, 0, false
}

// ---------------------------------------------------------------- loops / induction

// rangeOf describes the values a position expression p = phi + kp takes in the
// body of the loop headed by phi's block.
type rangeOf struct {
	phi     *ssa.Phi
	init    lin       // first value of p
	step    int64     // increment of p per iteration
	bound   ssa.Value // p + slack < bound holds in the body (cmp is LSS) …
	slack   int64     // … where slack = kq - kp (0 for the ordinary loops)
	cmp     token.Token
	loop    *ssau.Loop
	initVal ssa.Value // the raw init operand of the phi
}

// positionRange recognises p as an affine function of a loop-header phi that is
// a basic induction variable (init from outside the loop, every back edge
// adds the same constant) whose loop is guarded in the header by
// `phi + kq  <|<=  bound` (either operand order), the true edge entering the body.
func positionRange(p ssa.Value, loops []*ssau.Loop) (*rangeOf, string) {
	l := linOf(p, nil)
	at, kp, ok := l.single()
	if !ok {
		return nil, "subscript is not of the form inductionVar + const: " + l.String()
	}
	phi, ok := at.(*ssa.Phi)
	if !ok {
		return nil, "subscript " + at.Name() + " is not a loop variable"
	}
	var loop *ssau.Loop
	for _, lp := range loops {
		if lp.Header == phi.Block() {
			loop = lp
		}
	}
	if loop == nil {
		return nil, "phi " + phi.Name() + " is not at a loop header"
	}
	r := &rangeOf{phi: phi, loop: loop}
	stepSet := false
	initSet := false
	for i, e := range phi.Edges {
		pred := phi.Block().Preds[i]
		if loop.Blocks[pred] {
			le := linOf(e, nil)
			a, k, ok := le.single()
			if !ok || a != ssa.Value(phi) {
				return nil, "back-edge value of " + phi.Name() + " is not phi + const"
			}
			if stepSet && r.step != k {
				return nil, "back edges advance " + phi.Name() + " by different amounts"
			}
			r.step, stepSet = k, true
		} else {
			if initSet && r.initVal != e {
				return nil, "several initial values"
			}
			r.initVal, initSet = e, true
		}
	}
	if !stepSet || !initSet {
		return nil, "not a basic induction variable"
	}
	r.init = linOf(r.initVal, nil)
	r.init.c += kp
	// header condition
	ifi, ok := phi.Block().Instrs[len(phi.Block().Instrs)-1].(*ssa.If)
	if !ok {
		return nil, "loop header does not end in a condition"
	}
	cond, ok := ifi.Cond.(*ssa.BinOp)
	if !ok {
		return nil, "loop condition is not a comparison"
	}
	if !loop.Blocks[phi.Block().Succs[0]] || loop.Blocks[phi.Block().Succs[1]] {
		return nil, "true edge of the loop condition does not enter the body (or false edge stays inside)"
	}
	lx := linOf(cond.X, nil)
	ly := linOf(cond.Y, nil)
	op := cond.Op
	var q lin
	if a, _, ok := lx.single(); ok && a == ssa.Value(phi) {
		q = lx
		r.bound = cond.Y
	} else if a, _, ok := ly.single(); ok && a == ssa.Value(phi) {
		q = ly
		r.bound = cond.X
		switch op { // mirror
		case token.LSS:
			op = token.GTR
		case token.GTR:
			op = token.LSS
		case token.LEQ:
			op = token.GEQ
		case token.GEQ:
			op = token.LEQ
		}
	} else {
		return nil, "loop condition does not test the induction variable"
	}
	r.cmp = op
	r.slack = q.c - kp
	return r, ""
}

// ---------------------------------------------------------------- instruction-level reachability

// forwardFrom walks every instruction that may execute after `from` (excluding
// from itself unless reached again through a cycle). visit returns false to
// stop exploring past that instruction.
func forwardFrom(from ssa.Instruction, visit func(in ssa.Instruction) bool) {
	b := from.Block()
	idx := ssau.InstrIndex(from)
	seen := map[*ssa.BasicBlock]bool{}
	var walkBlock func(b *ssa.BasicBlock, start int)
	walkBlock = func(b *ssa.BasicBlock, start int) {
		for i := start; i < len(b.Instrs); i++ {
			if !visit(b.Instrs[i]) {
				return
			}
		}
		for _, s := range b.Succs {
			if !seen[s] {
				seen[s] = true
				walkBlock(s, 0)
			}
		}
	}
	walkBlock(b, idx+1)
}

// ---------------------------------------------------------------- scope

// scopeOf returns root, its closures and the functions of the same package it
// (transitively, depth ≤ 4) calls statically, in deterministic order.
func scopeOf(root *ssa.Function) []*ssa.Function {
	seen := map[*ssa.Function]bool{}
	var out []*ssa.Function
	var add func(f *ssa.Function, depth int)
	add = func(f *ssa.Function, depth int) {
		if f == nil || seen[f] || f.Blocks == nil || depth > 4 {
			return
		}
		if f.Pkg != root.Pkg && f.Parent() == nil {
			return
		}
		seen[f] = true
		out = append(out, f)
		for _, a := range f.AnonFuncs {
			add(a, depth)
		}
		liveInstrs(f, func(in ssa.Instruction) {
			if c, ok := in.(ssa.CallInstruction); ok {
				for _, g := range calleeFns(c) {
					if g.Pkg == root.Pkg || g.Parent() != nil {
						add(g, depth+1)
					}
				}
			}
		})
	}
	add(root, 0)
	return out
}

// closureSites maps a closure function to the MakeClosure instructions creating it.
func closureSites(fns []*ssa.Function) map[*ssa.Function][]*ssa.MakeClosure {
	m := map[*ssa.Function][]*ssa.MakeClosure{}
	for _, f := range fns {
		liveInstrs(f, func(in ssa.Instruction) {
			if mc, ok := in.(*ssa.MakeClosure); ok {
				if g, ok := mc.Fn.(*ssa.Function); ok {
					m[g] = append(m[g], mc)
				}
			}
		})
	}
	return m
}

// callSites maps a function to the call instructions (in fns) that may invoke it.
func callSitesOf(fns []*ssa.Function) map[*ssa.Function][]ssa.CallInstruction {
	m := map[*ssa.Function][]ssa.CallInstruction{}
	for _, f := range fns {
		liveInstrs(f, func(in ssa.Instruction) {
			if c, ok := in.(ssa.CallInstruction); ok {
				for _, g := range calleeFns(c) {
					m[g] = append(m[g], c)
				}
			}
		})
	}
	return m
}

// ---------------------------------------------------------------- cells (variables held in memory)

type resolver struct {
	fns     []*ssa.Function
	inScope map[*ssa.Function]bool
	closure map[*ssa.Function][]*ssa.MakeClosure
	calls   map[*ssa.Function][]ssa.CallInstruction
}

func newResolver(fns []*ssa.Function) *resolver {
	r := &resolver{fns: fns, inScope: map[*ssa.Function]bool{}}
	for _, f := range fns {
		r.inScope[f] = true
	}
	r.closure = closureSites(fns)
	r.calls = callSitesOf(fns)
	return r
}

// paramSpill: an Alloc that only exists because a by-value parameter (or
// receiver) was spilled to memory: `t0 = local T (p); *t0 = p`.
func paramSpill(a *ssa.Alloc) (*ssa.Parameter, bool) {
	var p *ssa.Parameter
	n := 0
	for _, r := range ssau.Refs(a) {
		if s, ok := r.(*ssa.Store); ok && s.Addr == a {
			n++
			if pp, ok := s.Val.(*ssa.Parameter); ok {
				p = pp
			}
		}
	}
	if n == 1 && p != nil {
		return p, true
	}
	return nil, false
}

func paramIndex(p *ssa.Parameter) int {
	for i, q := range p.Parent().Params {
		if q == p {
			return i
		}
	}
	return -1
}

// callArg returns the actual passed for parameter index i of callee at call c
// (accounts for the receiver being Args[0] of a static method call).
func callArg(c ssa.CallInstruction, i int) ssa.Value {
	args := c.Common().Args
	if i >= 0 && i < len(args) {
		return args[i]
	}
	return nil
}

// roots resolves an address (or a by-value struct whose slices alias) to the
// set of memory cells in the outermost function it denotes: Alloc → itself
// (unless it is a parameter spill, then the cells the actual was loaded from),
// FreeVar → the bound cell, pointer Parameter → the actual's cell.
func (r *resolver) roots(addr ssa.Value) []ssa.Value {
	seen := map[ssa.Value]bool{}
	var out []ssa.Value
	var walk func(v ssa.Value, depth int)
	walk = func(v ssa.Value, depth int) {
		if v == nil || seen[v] || depth > 8 {
			return
		}
		seen[v] = true
		switch x := v.(type) {
		case *ssa.Alloc:
			if p, ok := paramSpill(x); ok && len(r.calls[x.Parent()]) > 0 {
				// by-value copy of the caller's variable: the slices inside alias
				i := paramIndex(p)
				found := false
				for _, c := range r.calls[x.Parent()] {
					a := callArg(c, i)
					if a == nil {
						continue
					}
					if ld, ok := isLoad(a); ok {
						walk(ld.X, depth+1)
						found = true
					}
				}
				if found {
					return
				}
			}
			out = append(out, x)
		case *ssa.FreeVar:
			fn := x.Parent()
			idx := -1
			for i, fv := range fn.FreeVars {
				if fv == x {
					idx = i
				}
			}
			ok := false
			for _, mc := range r.closure[fn] {
				if idx >= 0 && idx < len(mc.Bindings) {
					walk(mc.Bindings[idx], depth+1)
					ok = true
				}
			}
			if !ok {
				out = append(out, x)
			}
		case *ssa.Parameter:
			i := paramIndex(x)
			ok := false
			for _, c := range r.calls[x.Parent()] {
				if a := callArg(c, i); a != nil {
					walk(a, depth+1)
					ok = true
				}
			}
			if !ok {
				out = append(out, x)
			}
		case *ssa.Phi:
			for _, e := range x.Edges {
				walk(e, depth+1)
			}
		case *ssa.ChangeType:
			walk(x.X, depth+1)
		case *ssa.UnOp:
			// a pointer read from a variable: identify the object with the variable holding it
			if ld, ok := isLoad(x); ok {
				switch ld.X.(type) {
				case *ssa.Alloc, *ssa.FreeVar:
					walk(ld.X, depth+1)
					return
				}
			}
			out = append(out, v)
		default:
			out = append(out, v)
		}
	}
	walk(addr, 0)
	return out
}

// ---------------------------------------------------------------- misc

func fieldNamed(t types.Type, name string) *types.Var {
	st, ok := t.Underlying().(*types.Struct)
	if !ok {
		return nil
	}
	for i := 0; i < st.NumFields(); i++ {
		if st.Field(i).Name() == name {
			return st.Field(i)
		}
	}
	return nil
}

func lookupType(pkg *types.Package, name string) types.Type {
	if pkg == nil {
		return nil
	}
	o := pkg.Scope().Lookup(name)
	if o == nil {
		return nil
	}
	return o.Type()
}

func lookupConstString(pkg *types.Package, name string) (string, bool) {
	if pkg == nil {
		return "", false
	}
	c, ok := pkg.Scope().Lookup(name).(*types.Const)
	if !ok || c.Val().Kind() != constant.String {
		return "", false
	}
	return constant.StringVal(c.Val()), true
}

// ordinal gives "#k" keys: the k-th (1-based, source order) instruction of a
// group inside one function.
func ordinalKeys[T ssa.Instruction](ins []T) map[ssa.Instruction]int {
	sorted := append([]T{}, ins...)
	sort.SliceStable(sorted, func(i, j int) bool { return ssau.PosOf(sorted[i]) < ssau.PosOf(sorted[j]) })
	m := map[ssa.Instruction]int{}
	for i, in := range sorted {
		m[in] = i + 1
	}
	return m
}

func shortFn(f *ssa.Function) string {
	if f == nil {
		return "?"
	}
	if recv := f.Signature.Recv(); recv != nil {
		if n := ssau.NamedOf(recv.Type()); n != nil {
			return n.Obj().Name() + "." + f.Name()
		}
	}
	return f.Name()
}

// armTag returns the string constant s such that instruction in is only
// reached through the true edge of a comparison `x == "s"` (switch / if chain
// on the first field of the line), nearest such comparison first.
func armTag(b *ssa.BasicBlock) (string, ssa.Value, bool) {
	for b != nil {
		d := b.Idom()
		if d == nil {
			return "", nil, false
		}
		if ifi, ok := d.Instrs[len(d.Instrs)-1].(*ssa.If); ok && len(b.Preds) == 1 && b.Preds[0] == d && d.Succs[0] == b && d.Succs[1] != b {
			if c, ok := ifi.Cond.(*ssa.BinOp); ok && c.Op == token.EQL {
				if s, ok := constStr(c.Y); ok {
					return s, c.X, true
				}
				if s, ok := constStr(c.X); ok {
					return s, c.Y, true
				}
			}
		}
		b = d
	}
	return "", nil, false
}

// armEntry returns the block through which the `x == "tag"` arm containing b is
// entered (the true successor of the nearest such comparison), and the tag.
func armEntry(b *ssa.BasicBlock) (*ssa.BasicBlock, string) {
	for b != nil {
		d := b.Idom()
		if d == nil {
			return nil, ""
		}
		if ifi, ok := d.Instrs[len(d.Instrs)-1].(*ssa.If); ok && len(b.Preds) == 1 && b.Preds[0] == d && d.Succs[0] == b && d.Succs[1] != b {
			if c, ok := ifi.Cond.(*ssa.BinOp); ok && c.Op == token.EQL {
				if s, ok := constStr(c.Y); ok {
					return b, s
				}
				if s, ok := constStr(c.X); ok {
					return b, s
				}
			}
		}
		b = d
	}
	return nil, ""
}

// canBypass: control entering block from can reach block to (a loop header:
// the next iteration) without executing any instruction of must. Paths that
// leave through a return do not count. within (optional) restricts the walk.
func canBypass(from, to *ssa.BasicBlock, must map[ssa.Instruction]bool, within map[*ssa.BasicBlock]bool) bool {
	seen := map[*ssa.BasicBlock]bool{}
	var walk func(b *ssa.BasicBlock) bool
	walk = func(b *ssa.BasicBlock) bool {
		if seen[b] || (within != nil && !within[b]) {
			return false
		}
		seen[b] = true
		for _, in := range b.Instrs {
			if must[in] {
				return false
			}
		}
		succs := b.Succs
		if ifi, ok := b.Instrs[len(b.Instrs)-1].(*ssa.If); ok {
			if c, ok := ifi.Cond.(*ssa.Const); ok && c.Value != nil && c.Value.Kind() == constant.Bool {
				if constant.BoolVal(c.Value) {
					succs = succs[:1]
				} else {
					succs = succs[1:]
				}
			}
		}
		for _, s := range succs {
			if s == to || walk(s) {
				return true
			}
		}
		return false
	}
	return walk(from)
}

// loopOf returns the innermost loop of fn containing b.
func loopOf(b *ssa.BasicBlock) *ssau.Loop {
	return ssau.InnermostLoop(ssau.Loops(b.Parent()), b)
}

// liveInstrs calls f for each instruction of fn that is reachable from the
// entry when branches on constant conditions (`if false { … }`) are folded, so
// that dead code can neither satisfy nor violate a rule.
func liveInstrs(fn *ssa.Function, f func(ssa.Instruction)) {
	if len(fn.Blocks) == 0 {
		return
	}
	live := map[*ssa.BasicBlock]bool{}
	stack := []*ssa.BasicBlock{fn.Blocks[0]}
	for len(stack) > 0 {
		b := stack[len(stack)-1]
		stack = stack[:len(stack)-1]
		if live[b] {
			continue
		}
		live[b] = true
		if ifi, ok := b.Instrs[len(b.Instrs)-1].(*ssa.If); ok {
			if c, ok := ifi.Cond.(*ssa.Const); ok && c.Value != nil && c.Value.Kind() == constant.Bool {
				if constant.BoolVal(c.Value) {
					stack = append(stack, b.Succs[0])
				} else {
					stack = append(stack, b.Succs[1])
				}
				continue
			}
		}
		stack = append(stack, b.Succs...)
	}
	if fn.Recover != nil {
		live[fn.Recover] = true
	}
	for _, b := range fn.Blocks {
		if !live[b] {
			continue
		}
		for _, in := range b.Instrs {
			f(in)
		}
	}
}
