#!/usr/bin/env python3
"""Mutant / refactor harness for C05 (scratch only; not part of the check, never touches /repo).

Setup (round 2: /repo HEAD already contains both fixes and is the silent baseline):
  export GOFLAGS=-mod=mod GOPROXY=off GOSUMDB=off GOTOOLCHAIN=local GOCACHE=/tmp/gocache_c05; unset GOWORK
  git -C /repo worktree add --detach /tmp/wt_c05 HEAD
  mkdir -p /tmp/verif_c05/base && cp /tmp/wt_c05/formats/obj/{reader,writer}.go /tmp/verif_c05/base/
  (cd /verif/checker && go build -o /tmp/dev_c05 ./cmd/dev_c05)
  cp validate_c05.py /tmp/verif_c05/harness.py && cd /tmp/verif_c05
  python3 harness.py refactors mutants        # or single ids: S1 K03 M01 W03 R04 X02 ...
  python3 gen_catalogue_c05.py OUT.json       # regenerates checker/mutants/c05.json (imports harness.py from /tmp/verif_c05)
Each trial: apply edit, compile, run the unedited formats/obj + formats/txt tests, run the check
with -no-controls, restore.
Afterwards: git -C /repo worktree remove --force /tmp/wt_c05; rm -rf /tmp/verif_c05 /tmp/dev_c05 /tmp/gocache_c05
"""
import os, re, subprocess, sys, shutil, json

WT = '/tmp/wt_c05'
BASE = '/tmp/verif_c05/base'
ENV = dict(os.environ, GOFLAGS='-mod=mod', GOPROXY='off', GOSUMDB='off', GOTOOLCHAIN='local', GOCACHE='/tmp/gocache_c05')
ENV.pop('GOWORK', None)
R = 'formats/obj/reader.go'
W = 'formats/obj/writer.go'


T = 'formats/txt/writer.go'


def restore():
    subprocess.run(['git', 'checkout', '-q', '--', 'formats/txt/writer.go', 'formats/obj/fs.go'], cwd=WT)
    shutil.copy(os.path.join(BASE, 'reader.go'), os.path.join(WT, R))
    shutil.copy(os.path.join(BASE, 'writer.go'), os.path.join(WT, W))


def edit(path, old, new, nth=None):
    p = os.path.join(WT, path)
    s = open(p).read()
    n = s.count(old)
    if n == 0:
        raise SystemExit('pattern not found in %s: %r' % (path, old[:60]))
    if nth is None:
        if n != 1:
            raise SystemExit('pattern occurs %d times in %s: %r' % (n, path, old[:60]))
        s = s.replace(old, new)
    else:
        idx = -1
        for _ in range(nth):
            idx = s.index(old, idx + 1)
        s = s[:idx] + new + s[idx + len(old):]
    open(p, 'w').write(s)


def run(cmd, cwd):
    r = subprocess.run(cmd, cwd=cwd, env=ENV, stdout=subprocess.PIPE, stderr=subprocess.STDOUT, text=True)
    return r.returncode, r.stdout


def check():
    rc, out = run(['/tmp/dev_c05', '-property', 'C05', '-verif', '/tmp/verif_c05', '-repo', WT, '-no-controls'], '/tmp')
    fired = []
    for l in out.splitlines():
        m = re.match(r'(VIOLATION|UNDECIDED) rule=(\S+) construct=(\S+)', l)
        if m:
            fired.append((m.group(1)[0], m.group(2), m.group(3)))
        if l.startswith('CHECK-FAILED'):
            fired.append(('F', 'machinery', l[13:120]))
    return rc, fired


def trial(name, edits, expect):
    restore()
    for e in edits:
        edit(*e)
    rc, out = run(['go', 'build', './formats/obj/'], WT)
    if rc != 0:
        print('%-6s DOES NOT COMPILE: %s' % (name, out.strip().splitlines()[-1] if out.strip() else ''))
        restore()
        return
    trc, tout = run(['go', 'test', '-vet=off', '-count=1', './formats/obj/...'], WT)
    tests = 'tests pass' if trc == 0 else 'tests FAIL'
    rc, fired = check()
    rules = sorted(set(f[1] for f in fired))
    kinds = ''.join(sorted(set(f[0] for f in fired)))
    if expect == 'SILENT':
        verdict = 'SILENT ok' if not fired else 'NOT SILENT'
    else:
        hit = [r for r in rules if r in expect]
        verdict = 'CAUGHT' if hit else ('caught-by-other' if fired else 'MISSED')
    print('%-6s %-15s %-10s %-28s %s' % (name, verdict, tests, ','.join(rules) + ('[' + kinds + ']' if kinds else ''), '; '.join('%s@%s' % (f[1], f[2].replace('formats/obj.', '')) for f in fired[:4])))
    restore()


MUTANTS = {}
REFACTORS = {}


def M(name, expect, *edits):
    MUTANTS[name] = (expect, edits)


def RF(name, *edits):
    REFACTORS[name] = ('SILENT', edits)


FLUSH_G = '''			if !workingGeom.empty() {
				closeMaterialRange()
'''
M('M01', ['MAT-1'], (R, FLUSH_G, '''			if !workingGeom.empty() {
'''))
M('M02', ['MAT-1', 'OWN-2'], (R, '''	closeMaterialRange()
	geoms = append(geoms, workingGeom.toMesh())
''', '''	geoms = append(geoms, workingGeom.toMesh())
	closeMaterialRange()
'''))
M('M03', ['MAT-1'], (R, '''		}
		trisSenseLastMat = 0
	}

	for scanner.Scan() {''', '''		}
	}

	for scanner.Scan() {'''))
M('M04', ['MAT-1'], (R, '''			if trisSenseLastMat > 0 {
				if len(workingGeom.meshMats) == 0 {''', '''			if trisSenseLastMat > 1 {
				if len(workingGeom.meshMats) == 0 {'''))
M('M05', ['MAT-1'], (R, '''				if len(workingGeom.meshMats) == 0 {
					workingGeom.meshMats = append(workingGeom.meshMats, modeling.MeshMaterial{
						PrimitiveCount: trisSenseLastMat,
						Material: &modeling.Material{
							Name: "Default",
						},
					})
				} else {
					workingGeom.meshMats[len(workingGeom.meshMats)-1].PrimitiveCount = trisSenseLastMat
				}''', '''				if len(workingGeom.meshMats) > 0 {
					workingGeom.meshMats[len(workingGeom.meshMats)-1].PrimitiveCount = trisSenseLastMat
				}'''))
M('M06', ['MAT-1'], (R, '''			workingGeom.meshMats[len(workingGeom.meshMats)-1].PrimitiveCount = trisSenseLastMat
		}
		trisSenseLastMat = 0''', '''			workingGeom.meshMats[0].PrimitiveCount = trisSenseLastMat
		}
		trisSenseLastMat = 0'''))
M('M07', ['MAT-1'], (R, '''			trisSenseLastMat = 0

			var meshMat *modeling.Material = nil''', '''			var meshMat *modeling.Material = nil'''))
M('M08', ['FACE-1'], (R, '''			trisSenseLastMat++

''', '''			trisSenseLastMat++
			if components[1] == components[2] || components[2] == components[3] {
				continue // degenerate face
			}

'''))
M('M09', ['FACE-1'], (R, '''			trisSenseLastMat++
''', '''			trisSenseLastMat += 2
'''))
M('M10', ['OWN-2'], (R, '''				geoms = append(geoms, workingGeom.toMesh())
				workingGeom = newObjMeshReading()
''', '''				geoms = append(geoms, workingGeom.toMesh())
				workingGeom.pointHash = make(map[string]int)
'''))
M('M11', ['MAT-1'], (R, '''					workingGeom.meshMats[len(workingGeom.meshMats)-1].PrimitiveCount = trisSenseLastMat
				}
			}
''', '''					workingGeom.meshMats[len(workingGeom.meshMats)-1].PrimitiveCount = trisSenseLastMat - 1
				}
			}
'''))
M('M12', ['TOK-R'], (R, '''			vn, err = strconv.Atoi(components[1])
			vn -= 1
''', '''			vn, err = strconv.Atoi(components[1])
'''))
M('M13', ['TOK-R'], (R, '''		vn, err = strconv.Atoi(components[2])
		vn -= 1''', '''		vn, err = strconv.Atoi(components[1])
		vn -= 1'''))
M('M14b', ['TOK-R'], (R, '''	if strings.Contains(component, "//") {''', '''	if false && strings.Contains(component, "//") {'''))
M('M14', ['TOK-R'], (R, '''	if strings.Contains(component, "//") {
		components := strings.Split(component, "//")
		v, err = strconv.Atoi(components[0])
		v -= 1
		if err != nil {
			return v, vt, vn, fmt.Errorf("failed to convert //component[0] %q to int: %w", components[0], err)
		}

		if len(components) > 1 && strings.TrimSpace(components[1]) != "" {
			vn, err = strconv.Atoi(components[1])
			vn -= 1
			if err != nil {
				return v, vt, vn, fmt.Errorf("failed to convert //component[1] %q to int: %w", components[1], err)
			}
		}

		return v, vt, vn, nil
	}
''', ''''''))
M('M15', ['STREAM-R'], (R, '''			readNormals = append(readNormals, vn)''', '''			readVerts = append(readVerts, vn)'''))
M('M16', ['STREAM-R'], (R, '''	mesh := modeling.NewTriangleMesh(omr.tris).
		SetFloat3Attribute(modeling.PositionAttribute, omr.verts).''', '''	mesh := modeling.NewTriangleMesh(omr.tris).
		SetFloat3Attribute(modeling.NormalAttribute, omr.verts).'''),
  (R, '''		mesh = mesh.SetFloat3Attribute(modeling.NormalAttribute, omr.normals)''', '''		mesh = mesh.SetFloat3Attribute(modeling.PositionAttribute, omr.normals)'''))
M('M17', ['AXIS-3'], (R, '''	return vector3.New(parsedX, parsedY, parsedZ), nil''', '''	return vector3.New(parsedX, parsedZ, parsedY), nil'''))
M('M18', ['AXIS-3'], (R, '''	parsedX, err := strconv.ParseFloat(strings.TrimSpace(components[1]), 32)
	if err != nil {
		return vector2.Zero[float64](), fmt.Errorf("unable to parse tex x: %w", err)
	}

	parsedY, err := strconv.ParseFloat(strings.TrimSpace(components[2]), 32)''', '''	parsedX, err := strconv.ParseFloat(strings.TrimSpace(components[2]), 32)
	if err != nil {
		return vector2.Zero[float64](), fmt.Errorf("unable to parse tex x: %w", err)
	}

	parsedY, err := strconv.ParseFloat(strings.TrimSpace(components[1]), 32)'''))
M('M19', ['STREAM-R'], (R, '''					workingGeom.normals = append(workingGeom.normals, readNormals[vn])''', '''					workingGeom.normals = append(workingGeom.normals, readNormals[vt])''', 2))
M('M20', ['STREAM-R'], (R, '''				if vn != -1 {
					workingGeom.normals = append(workingGeom.normals, readNormals[vn])
				}

				if vt != -1 {
					workingGeom.uvs = append(workingGeom.uvs, readUVs[vt])
				}
			}

			var p3 int''', '''				if vt != -1 {
					workingGeom.normals = append(workingGeom.normals, readNormals[vn])
				}

				if vt != -1 {
					workingGeom.uvs = append(workingGeom.uvs, readUVs[vt])
				}
			}

			var p3 int'''))
M('M21', ['CORNER-R'], (R, '''			workingGeom.tris = append(workingGeom.tris, p1, p2, p3)''', '''			workingGeom.tris = append(workingGeom.tris, p1, p3, p2)'''))
M('M22', ['CORNER-R'], (R, '''				v, vt, vn, err := parseObjFaceComponent(components[3])''', '''				v, vt, vn, err := parseObjFaceComponent(components[2])'''))
M('M23', ['CORNER-R'], (R, '''				workingGeom.pointHash[components[2]] = p2''', '''				workingGeom.pointHash[components[1]] = p2'''))
M('M24', ['GROUP-R'], (R, '''			workingGeom.name = groupName
''', '''			_ = groupName
'''))
M('M25', ['GROUP-R', 'MAT-1'], (R, '''			if !workingGeom.empty() {
				closeMaterialRange()
				geoms = append(geoms, workingGeom.toMesh())
				workingGeom = newObjMeshReading()
			}
''', ''''''))
M('M26', ['CORNER-R'], (R, '''				p2 = len(workingGeom.pointHash)
''', '''				p2 = len(workingGeom.verts) + 1
'''))
M('M27', ['STREAM-R', 'TOK-R'], (R, '''				v, vt, vn, err := parseObjFaceComponent(components[1])''', '''				v, vn, vt, err := parseObjFaceComponent(components[1])'''))
# ---- writer
M('W01', ['BASE-1'], (W, '''			base.vt += m.Float2Attribute(modeling.TexCoordAttribute).Len()''', '''			base.vt += m.Float3Attribute(modeling.NormalAttribute).Len()'''))
M('W02', ['BASE-1'], (W, '''		out.Int(p1 + base.v)
		out.String("/")
		out.Int(p1 + base.vt)
		out.String("/")
		out.Int(p1 + base.vn)''', '''		out.Int(p1 + base.v)
		out.String("/")
		out.Int(p1 + base.vt)
		out.String("/")
		out.Int(p1 + base.v)'''))
M('W03', ['BASE-1'], (W, '''		if m.HasFloat3Attribute(modeling.NormalAttribute) {
			base.vn += m.Float3Attribute(modeling.NormalAttribute).Len()
		}
	}

	return nil''', '''		base.vn += m.AttributeLength()
	}

	return nil'''))
M('W04', ['TOK-W'], (W, '''		p2 := tris.At(triIndex+1) + 1
		p3 := tris.At(triIndex+2) + 1

		out.StartEntry()
		out.String("f ")

		out.Int(p1 + base.v)
		out.String("//")''', '''		p2 := tris.At(triIndex+2) + 1
		p3 := tris.At(triIndex+1) + 1

		out.StartEntry()
		out.String("f ")

		out.Int(p1 + base.v)
		out.String("//")'''))
M('W05', ['MAT-2'], (W, '''				nextOffset := offset + (mat.PrimitiveCount * 3)''', '''				nextOffset := offset + (mat.PrimitiveCount * 2)'''))
M('W06', ['MAT-2'], (W, '''				offset = nextOffset
''', ''''''))
M('W07', ['MAT-2'], (W, '''		if len(mats) == 0 {
			faceWriter(''', '''		if len(mats) <= 1 {
			faceWriter('''))
M('W08', ['MAT-2'], (W, '''				writeUsingMaterial(mat.Material, writer)
''', ''''''))
M('W09', ['IDX-1'], (W, '''			for i := 0; i < normalData.Len(); i++ {''', '''			for i := 1; i < normalData.Len(); i++ {'''))
M('W10', ['AXIS-3'], (W, '''				writer.Float64(n.Y())
				writer.Space()
				writer.Float64(n.Z())''', '''				writer.Float64(n.Z())
				writer.Space()
				writer.Float64(n.Y())'''))
M('W11', ['FORM-1'], (W, '''		} else if m.HasVertexAttribute(modeling.NormalAttribute) {
			faceWriter = writeFaceVertsAndNormals
		} else if m.HasVertexAttribute(modeling.TexCoordAttribute) {
			faceWriter = writeFaceVertsAndUvs''', '''		} else if m.HasVertexAttribute(modeling.NormalAttribute) {
			faceWriter = writeFaceVertsAndUvs
		} else if m.HasVertexAttribute(modeling.TexCoordAttribute) {
			faceWriter = writeFaceVertsAndNormals'''))
M('W12', ['GROUP-1'], (W, '''			fmt.Fprintf(out, "g %s\\n", objMesh.Name)''', '''			_ = objMesh.Name'''))
M('W13', ['ONE-W'], (W, '''		out.Int(tris.At(triIndex+2) + 1 + base.v)''', '''		out.Int(tris.At(triIndex+2) + base.v)'''))
M('W14', ['STREAM-W'], (W, '''			vn := []byte("vn ")''', '''			vn := []byte("vt ")'''))
M('W15', ['BASE-1'], (W, '''		mats := m.Materials()
		indices := m.Indices()
		if len(mats) == 0 {''', '''		if m.HasFloat3Attribute(modeling.NormalAttribute) {
			base.vn += m.Float3Attribute(modeling.NormalAttribute).Len()
		}
		mats := m.Materials()
		indices := m.Indices()
		if len(mats) == 0 {'''), (W, '''		if m.HasFloat3Attribute(modeling.NormalAttribute) {
			base.vn += m.Float3Attribute(modeling.NormalAttribute).Len()
		}
	}

	return nil''', '''	}

	return nil'''))
M('W16', ['IDX-3'], (W, '''func writeFaceVertsAndUvs(tris *iter.ArrayIterator[int], out *txt.Writer, start, end int, base indexBase) {
	for triIndex := start; triIndex < end; triIndex += 3 {''', '''func writeFaceVertsAndUvs(tris *iter.ArrayIterator[int], out *txt.Writer, start, end int, base indexBase) {
	for triIndex := start; triIndex <= end; triIndex += 3 {'''))
M('W17', ['MAT-2'], (W, '''			faceWriter(indices, writer, 0, indices.Len(), base)''', '''			faceWriter(indices, writer, 0, indices.Len()-3, base)'''))
M('W18', ['IDX-1'], (W, '''			for i := 0; i < uvData.Len(); i++ {''', '''			for i := 0; i < m.AttributeLength()-1; i++ {'''))
M('W19', ['MAT-2'], (W, '''				faceWriter(indices, writer, offset, nextOffset, base)''', '''				faceWriter(indices, writer, nextOffset, nextOffset+mat.PrimitiveCount*3, base)'''))
M('W20', ['TOK-W'], (W, '''		out.Int(p3 + base.v)
		out.String("//")
		out.Int(p3 + base.vn)
		out.NewLine()
		out.FinishEntry()''', '''		out.Int(p3 + base.v)
		out.String("//")
		out.Int(p3 + base.vn)
		out.NewLine()'''))
M('W21', ['BASE-1'], (W, '''		if m.HasFloat2Attribute(modeling.TexCoordAttribute) {
			base.vt += m.Float2Attribute(modeling.TexCoordAttribute).Len()
		}
''', '''		base.vt += m.Float2Attribute(modeling.TexCoordAttribute).Len() + 0
		if m.HasFloat2Attribute(modeling.TexCoordAttribute) {
			base.vt += 0
		}
'''))

M('T01', ['TXT-1'], (T, 'strconv.AppendInt(w.buf, int64(i), 10)', 'strconv.AppendInt(w.buf, int64(i), 16)'))
M('T02', ['TXT-1'], (T, """func (w *Writer) StartEntry() {
	w.buf = w.buf[:0]
}""", """func (w *Writer) StartEntry() {
}"""))
M('T03', ['TXT-1'], (T, "w.buf = strconv.AppendFloat(w.buf, f, 'f', -1, 64)", "w.buf = strconv.AppendFloat(w.buf, f, 'f', 6, 64)"))
M('T04', ['TXT-1'], (T, """func (w *Writer) FinishEntry() (int, error) {
	return w.Write(w.buf)
}""", """func (w *Writer) FinishEntry() (int, error) {
	if len(w.buf) > 4096 {
		return w.Write(w.buf)
	}
	return 0, nil
}"""))
M('M28', ['STREAM-R'], (R, """			workingGeom.name = groupName
""", """			workingGeom.name = groupName
			readNormals = make([]vector3.Float64, 0)
"""))
M('M29', ['GROUP-R'], (R, """			if !workingGeom.empty() {
				closeMaterialRange()
				geoms = append(geoms, workingGeom.toMesh())
				workingGeom = newObjMeshReading()
			}
""", """			closeMaterialRange()
			geoms = append(geoms, workingGeom.toMesh())
			workingGeom = newObjMeshReading()
"""))
M('W22', ['AXIS-3'], (W, """				writer.Float64(v.X())
				writer.Space()
				writer.Float64(v.Y())
				writer.Space()
				writer.Float64(v.Z())""", """				writer.Float64MaxFigs(v.X(), 4)
				writer.Space()
				writer.Float64MaxFigs(v.Y(), 4)
				writer.Space()
				writer.Float64MaxFigs(v.Z(), 4)"""))
M('W23', ['BASE-1'], (W, """		if m.HasFloat3Attribute(modeling.PositionAttribute) {
			base.v += m.Float3Attribute(modeling.PositionAttribute).Len()
		}
""", """		base.v = m.Float3Attribute(modeling.PositionAttribute).Len()
"""))

M('M30', ['USEMTL-R'], (R, """				meshMat = &modeling.Material{
					Name: matToUse,
				}
				meshNameToMaterial[matToUse] = meshMat""", """				meshMat = &modeling.Material{
					Name: "Default",
				}
				_ = matToUse"""), (R, """			if mat, ok := meshNameToMaterial[matToUse]; ok {
				meshMat = mat
			} else {""", """			if mat, ok := meshNameToMaterial["Default"]; ok {
				meshMat = mat
			} else {"""))
M('M31', ['USEMTL-R'], (R, """				PrimitiveCount: 0,
				Material:       meshMat,""", """				PrimitiveCount: 0,"""), (R, """			var meshMat *modeling.Material = nil

			if mat, ok := meshNameToMaterial[matToUse]; ok {
				meshMat = mat
			} else {
				meshMat = &modeling.Material{
					Name: matToUse,
				}
				meshNameToMaterial[matToUse] = meshMat
			}
""", """			_, _ = matToUse, meshNameToMaterial
"""))
M('M32', ['OWN-2'], (R, """	return ObjMesh{
		Name: omr.name,
		Mesh: mesh,
	}
}""", """	if len(omr.tris) > 2 {
		omr.tris[0], omr.tris[2] = omr.tris[2], omr.tris[0]
	}
	return ObjMesh{
		Name: omr.name,
		Mesh: mesh,
	}
}"""))

# ---- seeded defects found by independent mutation agents (round 2)
def patch(path):
    return ('__custom__', lambda: subprocess.run(['git', 'apply', path], cwd=WT, check=True))


M('S1', ['MAT-1'], patch('/verif/seeded/C05-1-reader-merges-a-repeated-usemtl-into-the/patch.diff'))
M('S2', ['FORM-1'], patch('/verif/seeded/C05-2-writer-keeps-the-previous-mesh-s-face-re/patch.diff'))
M('S3', ['MAT-2'], patch('/verif/seeded/C05-3-writer-omits-usemtl-when-the-material-eq/patch.diff'))
# ---- "conditional skip" family (round 2)
M('K01', ['FACE-1'], (R, """			trisSenseLastMat++

""", """			if components[1] == components[2] || components[2] == components[3] {
				continue // degenerate face
			}
			trisSenseLastMat++

"""))
M('K02', ['STREAM-R'], (R, """			readVerts = append(readVerts, v)
""", """			if n := len(readVerts); n > 0 && readVerts[n-1] == v {
				continue // repeated vertex
			}
			readVerts = append(readVerts, v)
"""))
M('K03', ['TOK-W'], (W, """	for triIndex := start; triIndex < end; triIndex += 3 {
		out.StartEntry()
		out.String("f ")
		out.Int(tris.At(triIndex) + 1 + base.v)""", """	for triIndex := start; triIndex < end; triIndex += 3 {
		if tris.At(triIndex) == tris.At(triIndex+1) {
			continue
		}
		out.StartEntry()
		out.String("f ")
		out.Int(tris.At(triIndex) + 1 + base.v)"""))
M('K04', ['AXIS-3'], (W, """				n := normalData.At(i)
""", """				n := normalData.At(i)
				if n.X() == 0 && n.Y() == 0 && n.Z() == 0 {
					continue
				}
"""))
M('K05', ['STREAM-W'], (W, """		if m.HasFloat3Attribute(modeling.NormalAttribute) {
			normalData :=""", """		if m.HasFloat3Attribute(modeling.NormalAttribute) && len(meshes) < 64 {
			normalData :="""))
M('K06', ['GROUP-1'], (W, """	var base indexBase
	for _, objMesh := range meshes {
		if len(meshes) > 1 || objMesh.Name != "" {
			fmt.Fprintf(out, "g %s\\n", objMesh.Name)
		}
""", """	var base indexBase
	lastName := ""
	for i, objMesh := range meshes {
		if (len(meshes) > 1 || objMesh.Name != "") && (i == 0 || objMesh.Name != lastName) {
			fmt.Fprintf(out, "g %s\\n", objMesh.Name)
			lastName = objMesh.Name
		}
"""))
M('K07', ['MAT-2'], (W, """			for _, mat := range mats {
				writeUsingMaterial(mat.Material, writer)""", """			for _, mat := range mats {
				if mat.Material == nil {
					offset += mat.PrimitiveCount * 3
					continue
				}
				writeUsingMaterial(mat.Material, writer)"""))
M('K08', ['MAT-2'], (W, """		mats := m.Materials()
		indices := m.Indices()
		if len(mats) == 0 {""", """		mats := m.Materials()
		indices := m.Indices()
		if objMesh.Name == "hidden" {
			continue
		}
		if len(mats) == 0 {"""))
M('K09', ['GROUP-R'], (R, """			if !workingGeom.empty() {
				closeMaterialRange()""", """			if !workingGeom.empty() && workingGeom.name != groupName {
				closeMaterialRange()"""))
M('K10', ['FORM-1'], (W, """	var base indexBase
	for _, objMesh := range meshes {""", """	var base indexBase
	firstHasNormals := len(meshes) > 0 && meshes[0].Mesh.HasVertexAttribute(modeling.NormalAttribute)
	for _, objMesh := range meshes {"""), (W, """		} else if m.HasVertexAttribute(modeling.NormalAttribute) {
			faceWriter = writeFaceVertsAndNormals""", """		} else if firstHasNormals {
			faceWriter = writeFaceVertsAndNormals"""))
M('K11', ['MAT-1'], (R, """		if trisSenseLastMat > 0 && len(workingGeom.meshMats) > 0 {
			workingGeom.meshMats[len(workingGeom.meshMats)-1].PrimitiveCount = trisSenseLastMat
		}
		trisSenseLastMat = 0
	}
""", """		if trisSenseLastMat > 0 && len(workingGeom.meshMats) > 0 {
			workingGeom.meshMats[len(workingGeom.meshMats)-1].PrimitiveCount += trisSenseLastMat
		}
	}
"""))

# ---- round 3: material identity in fs.go (ORD-2 / MAT-3); restore() resets fs.go through git
F = 'formats/obj/fs.go'
LOAD_LOOP = """		for matI, mat := range materials {
			loadedMaterials[mat.Name] = &materials[matI]
		}"""
M('S4', ['ORD-2', 'MAT-3'], (F, LOAD_LOOP, """		for _, mat := range materials {
			loadedMaterials[mat.Name] = &mat
		}"""))
M('I01', ['MAT-3'], (F, LOAD_LOOP, """		for _, mat := range materials {
			loadedMaterials[mat.Name] = &materials[0]
		}"""))
M('I02', ['MAT-3'], (F, """			meshes[meshI].Mesh.Materials()[matI].Material = loadedMaterials[mat.Material.Name]""", """			_ = mat
			meshes[meshI].Mesh.Materials()[matI].Material = loadedMaterials[mesh.Mesh.Materials()[0].Material.Name]"""))

# ---------------------------------------------------------------- refactors (behaviour preserving)

def rename_all(path, pairs):
    p = os.path.join(WT, path)
    s = open(p).read()
    for a, b in pairs:
        s = re.sub(r'\b%s\b' % re.escape(a), b, s)
    open(p, 'w').write(s)


def custom(fn):
    return ('__custom__', fn)


RF('R01', custom(lambda: rename_all(R, [('trisSenseLastMat', 'pending'), ('workingGeom', 'cur'), ('closeMaterialRange', 'flush'), ('readVerts', 'vs'), ('readNormals', 'ns'), ('readUVs', 'ts'), ('components', 'fields'), ('geoms', 'out')])),
   custom(lambda: rename_all(W, [('indexOffset', 'ofs'), ('faceWriter', 'fw'), ('posData', 'pd'), ('nextOffset', 'nxt'), ('objMesh', 'om'), ('triIndex', 'ti'), ('mats', 'mm'), ('indices', 'ix')])))
# R02: helper method instead of closure, counter stays a register, explicit reset
RF('R02', (R, '''	closeMaterialRange := func() {
		if trisSenseLastMat > 0 && len(workingGeom.meshMats) > 0 {
			workingGeom.meshMats[len(workingGeom.meshMats)-1].PrimitiveCount = trisSenseLastMat
		}
		trisSenseLastMat = 0
	}
''', ''''''), (R, '''func ReadMesh(in io.Reader)''', '''func (omr objMeshReading) closeMaterialRange(faces int) {
	if faces > 0 && len(omr.meshMats) > 0 {
		omr.meshMats[len(omr.meshMats)-1].PrimitiveCount = faces
	}
}

func ReadMesh(in io.Reader)'''), (R, '''				closeMaterialRange()
				geoms = append(geoms, workingGeom.toMesh())''', '''				workingGeom.closeMaterialRange(trisSenseLastMat)
				trisSenseLastMat = 0
				geoms = append(geoms, workingGeom.toMesh())'''), (R, '''	closeMaterialRange()
	geoms = append(geoms, workingGeom.toMesh())''', '''	workingGeom.closeMaterialRange(trisSenseLastMat)
	geoms = append(geoms, workingGeom.toMesh())'''))


def switch_to_if():
    p = os.path.join(WT, R)
    s = open(p).read()
    i = s.index('		switch components[0] {')
    j = s.index('	if err := scanner.Err(); err != nil {')
    body = s[i:j]
    body = body.replace('		switch components[0] {\n		case "mtllib":', '		tag := components[0]\n		if tag == "mtllib" {')
    for t in ['usemtl', 'v', 'vn', 'vt', 'g', 'f']:
        body = body.replace('\n		case "%s":' % t, '\n		} else if tag == "%s" {' % t)
    s = s[:i] + body + s[j:]
    open(p, 'w').write(s)
    subprocess.run(['gofmt', '-w', p], env=ENV)


RF('R03', custom(switch_to_if))


def corner_closure():
    p = os.path.join(WT, R)
    s = open(p).read()
    i = s.index('			var p1 int\n')
    j = s.index('			workingGeom.tris = append(workingGeom.tris, p1, p2, p3)')
    new = '''			p1, err := corner(components[1])
			if err != nil {
				return nil, nil, fmt.Errorf("failed to parse 'f' line component[1] %q: %w", line, err)
			}
			p2, err := corner(components[2])
			if err != nil {
				return nil, nil, fmt.Errorf("failed to parse 'f' line component[2] %q: %w", line, err)
			}
			p3, err := corner(components[3])
			if err != nil {
				return nil, nil, fmt.Errorf("failed to parse 'f' line component[3] %q: %w", line, err)
			}

'''
    s = s[:i] + new + s[j:]
    s = s.replace('''	for scanner.Scan() {
		line := scanner.Text()''', '''	corner := func(token string) (int, error) {
		if val, ok := workingGeom.pointHash[token]; ok {
			return val, nil
		}
		v, vt, vn, err := parseObjFaceComponent(token)
		if err != nil {
			return 0, err
		}
		p := len(workingGeom.pointHash)
		workingGeom.pointHash[token] = p
		workingGeom.verts = append(workingGeom.verts, readVerts[v])
		if vn != -1 {
			workingGeom.normals = append(workingGeom.normals, readNormals[vn])
		}
		if vt != -1 {
			workingGeom.uvs = append(workingGeom.uvs, readUVs[vt])
		}
		return p, nil
	}

	for scanner.Scan() {
		line := scanner.Text()''')
    open(p, 'w').write(s)


RF('R04', custom(corner_closure))
RF('R05', (R, '''	for scanner.Scan() {
		line := scanner.Text()''', '''	emitGroup := func() {
		closeMaterialRange()
		geoms = append(geoms, workingGeom.toMesh())
		workingGeom = newObjMeshReading()
	}

	for scanner.Scan() {
		line := scanner.Text()'''), (R, '''				closeMaterialRange()
				geoms = append(geoms, workingGeom.toMesh())
				workingGeom = newObjMeshReading()
''', '''				emitGroup()
'''), (R, '''	closeMaterialRange()
	geoms = append(geoms, workingGeom.toMesh())
''', '''	emitGroup()
'''))
RF('R06', (W, '''			for i := 0; i < posData.Len(); i++ {''', '''			n := posData.Len()
			for i := 0; i < n; i++ {'''), (W, '''			for i := 0; i < uvData.Len(); i++ {''', '''			count := uvData.Len()
			for i := 0; count > i; i++ {'''))


def three_int_bases():
    p = os.path.join(WT, W)
    s = open(p).read()
    s = s.replace('start, end int, base indexBase)', 'start, end, vBase, vtBase, vnBase int)')
    s = s.replace('base.vt', 'vtBase').replace('base.vn', 'vnBase').replace('base.v', 'vBase')
    s = s.replace('	var base indexBase\n', '	vBase, vtBase, vnBase := 0, 0, 0\n')
    s = s.replace(', base)', ', vBase, vtBase, vnBase)')
    open(p, 'w').write(s)


RF('R07', custom(three_int_bases))
RF('R08', (W, '''		if m.HasVertexAttribute(modeling.NormalAttribute) && m.HasVertexAttribute(modeling.TexCoordAttribute) {
			faceWriter = writeFaceVertAndUvsAndNormals
		} else if m.HasVertexAttribute(modeling.NormalAttribute) {
			faceWriter = writeFaceVertsAndNormals
		} else if m.HasVertexAttribute(modeling.TexCoordAttribute) {
			faceWriter = writeFaceVertsAndUvs
		} else {
			faceWriter = writeFaceVerts
		}
''', '''		hasN, hasT := m.HasVertexAttribute(modeling.NormalAttribute), m.HasVertexAttribute(modeling.TexCoordAttribute)
		switch {
		case hasN && hasT:
			faceWriter = writeFaceVertAndUvsAndNormals
		case hasN:
			faceWriter = writeFaceVertsAndNormals
		case hasT:
			faceWriter = writeFaceVertsAndUvs
		default:
			faceWriter = writeFaceVerts
		}
'''))
RF('R09', (W, '''		mats := m.Materials()
		indices := m.Indices()
''', '''		indices := m.Indices()
		mats := m.Materials()
		if len(meshes) > 1000 {
			fmt.Println("writing many meshes", len(meshes), indices.Len())
		}
'''), (R, '''			readVerts = append(readVerts, v)
''', '''			readVerts = append(readVerts, v)
			if len(readVerts)%100000 == 0 {
				fmt.Println("read", len(readVerts), "vertices")
			}
'''), (R, '''type objMeshReading struct {
	name      string''', '''type objMeshReading struct {
	comment   string
	name      string'''), (R, '''func ReadMesh(in io.Reader)''', '''func verifUnrelatedHelper(a, b int) int { return a*3 + b }

func ReadMesh(in io.Reader)'''))
RF('R10', (W, '''			for _, mat := range mats {
				writeUsingMaterial(mat.Material, writer)''', '''			for mi := 0; mi < len(mats); mi++ {
				mat := mats[mi]
				writeUsingMaterial(mat.Material, writer)'''))
RF('R11', (R, '''			if trisSenseLastMat > 0 {
				if len(workingGeom.meshMats) == 0 {
					workingGeom.meshMats = append(workingGeom.meshMats, modeling.MeshMaterial{
						PrimitiveCount: trisSenseLastMat,
						Material: &modeling.Material{
							Name: "Default",
						},
					})
				} else {
					workingGeom.meshMats[len(workingGeom.meshMats)-1].PrimitiveCount = trisSenseLastMat
				}
			}
''', '''			if trisSenseLastMat != 0 && len(workingGeom.meshMats) == 0 {
				def := modeling.MeshMaterial{
					PrimitiveCount: trisSenseLastMat,
					Material:       &modeling.Material{Name: "Default"},
				}
				workingGeom.meshMats = append(workingGeom.meshMats, def)
			} else if trisSenseLastMat != 0 {
				last := len(workingGeom.meshMats) - 1
				workingGeom.meshMats[last].PrimitiveCount = trisSenseLastMat
			}
'''))
RF('R12', (W, '''func writeFaceVerts(tris *iter.ArrayIterator[int], out *txt.Writer, start, end int, base indexBase) {
	for triIndex := start; triIndex < end; triIndex += 3 {
		out.StartEntry()
		out.String("f ")
		out.Int(tris.At(triIndex) + 1 + base.v)
		out.Space()
		out.Int(tris.At(triIndex+1) + 1 + base.v)
		out.Space()
		out.Int(tris.At(triIndex+2) + 1 + base.v)''', '''func writeFaceVerts(tris *iter.ArrayIterator[int], out *txt.Writer, start, end int, base indexBase) {
	shift := base.v + 1
	for triIndex := start; end > triIndex; triIndex = triIndex + 3 {
		a, b, c := tris.At(triIndex), tris.At(1+triIndex), tris.At(triIndex+2)
		out.StartEntry()
		out.String("f ")
		out.Int(a + shift)
		out.Space()
		out.Int(shift + b)
		out.Space()
		out.Int(c + shift)'''))


def vec_helper():
    p = os.path.join(WT, W)
    s = open(p).read()
    i = s.index('			posData := m.Float3Attribute(modeling.PositionAttribute)')
    j = s.index('			if err := writer.Error(); err != nil {\n				return fmt.Errorf("failed to write position attr: %w", err)')
    s = s[:i] + '			writeVec3Records(writer, []byte("v "), m.Float3Attribute(modeling.PositionAttribute))\n\n' + s[j:]
    i = s.index('			normalData := m.Float3Attribute(modeling.NormalAttribute)')
    j = s.index('			if err := writer.Error(); err != nil {\n				return fmt.Errorf("failed to write UV normal attr: %w", err)')
    s = s[:i] + '			writeVec3Records(writer, []byte("vn "), m.Float3Attribute(modeling.NormalAttribute))\n\n' + s[j:]
    s = s.replace('func WriteMesh(m modeling.Mesh,', '''func writeVec3Records(writer *txt.Writer, tag []byte, data *iter.ArrayIterator[vector3.Float64]) {
	for i := 0; i < data.Len(); i++ {
		v := data.At(i)
		writer.StartEntry()
		writer.Append(tag)
		writer.Float64(v.X())
		writer.Space()
		writer.Float64(v.Y())
		writer.Space()
		writer.Float64(v.Z())
		writer.NewLine()
		writer.FinishEntry()
	}
}

func WriteMesh(m modeling.Mesh,''')
    s = s.replace('	"github.com/EliCDavis/polyform/modeling"\n', '	"github.com/EliCDavis/polyform/modeling"\n	"github.com/EliCDavis/vector/vector3"\n', 1)
    open(p, 'w').write(s)


RF('R13', custom(vec_helper))
# reorder independent statements in the usemtl arm: new entry appended before the counter is reset
RF('R14', (R, '''			trisSenseLastMat = 0

			var meshMat *modeling.Material = nil
''', '''			var meshMat *modeling.Material = nil
'''), (R, '''			workingGeom.meshMats = append(workingGeom.meshMats, modeling.MeshMaterial{
				PrimitiveCount: 0,
				Material:       meshMat,
			})
''', '''			workingGeom.meshMats = append(workingGeom.meshMats, modeling.MeshMaterial{
				PrimitiveCount: 0,
				Material:       meshMat,
			})
			trisSenseLastMat = 0
'''))
# parseObjFaceComponent rewritten around a single "/" split
RF('R15', (R, '''	if strings.Contains(component, "//") {
		components := strings.Split(component, "//")
		v, err = strconv.Atoi(components[0])
		v -= 1
		if err != nil {
			return v, vt, vn, fmt.Errorf("failed to convert //component[0] %q to int: %w", components[0], err)
		}

		if len(components) > 1 && strings.TrimSpace(components[1]) != "" {
			vn, err = strconv.Atoi(components[1])
			vn -= 1
			if err != nil {
				return v, vt, vn, fmt.Errorf("failed to convert //component[1] %q to int: %w", components[1], err)
			}
		}

		return v, vt, vn, nil
	}

	components := strings.Split(component, "/")
	v, err = strconv.Atoi(components[0])
	v -= 1
	if err != nil {
		return v, vt, vn, fmt.Errorf("failed to convert /component[0] %q to int: %w", components[0], err)
	}

	vt, err = strconv.Atoi(components[1])
	vt -= 1
	if err != nil {
		return v, vt, vn, fmt.Errorf("failed to convert /component[1] %q to int: %w", components[1], err)
	}
''', '''	components := strings.Split(component, "/")
	v, err = strconv.Atoi(components[0])
	v -= 1
	if err != nil {
		return v, vt, vn, fmt.Errorf("failed to convert /component[0] %q to int: %w", components[0], err)
	}

	if components[1] != "" {
		vt, err = strconv.Atoi(components[1])
		vt -= 1
		if err != nil {
			return v, vt, vn, fmt.Errorf("failed to convert /component[1] %q to int: %w", components[1], err)
		}
	}
'''), (R, '''	if len(components) == 3 {
		vn, err = strconv.Atoi(components[2])''', '''	if len(components) == 3 && components[2] != "" {
		vn, err = strconv.Atoi(components[2])'''))


RF('R16', (R, 'func (omr objMeshReading) toMesh() ObjMesh {', 'func (omr *objMeshReading) toMesh() ObjMesh {'), (R, 'func (omr objMeshReading) empty() bool {', 'func (omr *objMeshReading) empty() bool {'))


def pointer_group():
    p = os.path.join(WT, R)
    s = open(p).read()
    s = s.replace('func newObjMeshReading() objMeshReading {\n	return objMeshReading{', 'func newObjMeshReading() *objMeshReading {\n	return &objMeshReading{')
    open(p, 'w').write(s)


RF('R17', custom(pointer_group))


def swap_sections():
    p = os.path.join(WT, W)
    s = open(p).read()
    i = s.index('		if m.HasFloat2Attribute(modeling.TexCoordAttribute) {\n			uvData :=')
    j = s.index('		if m.HasFloat3Attribute(modeling.NormalAttribute) {\n			normalData :=')
    k = s.index('	var faceWriter func(')
    # sections end with "\t\t}\n" before next; k is after the loop's closing brace
    uv = s[i:j]
    rest = s[j:k]
    # rest = normal section + "\t}\n\n"
    end = rest.rindex('	}\n')
    normal = rest[:end]
    s = s[:i] + normal + uv + rest[end:] + s[k:]
    open(p, 'w').write(s)
    subprocess.run(['gofmt', '-w', p], env=ENV)


RF('R18', custom(swap_sections))
# usemtl arm: entry built first, appended through a local; early continue style in the g arm
RF('R19', (R, """			if !workingGeom.empty() {
				closeMaterialRange()
				geoms = append(geoms, workingGeom.toMesh())
				workingGeom = newObjMeshReading()
			}
			workingGeom.name = groupName
""", """			if workingGeom.empty() {
				workingGeom.name = groupName
				continue
			}
			closeMaterialRange()
			finished := workingGeom.toMesh()
			geoms = append(geoms, finished)
			workingGeom = newObjMeshReading()
			workingGeom.name = groupName
"""))


def combo(name, expect, rf, *extra):
    MUTANTS[name] = (expect, tuple(REFACTORS[rf][1]) + tuple(extra))


combo('X01', ['MAT-1', 'OWN-2'], 'R17', (R, """	closeMaterialRange()
	geoms = append(geoms, workingGeom.toMesh())
""", """	geoms = append(geoms, workingGeom.toMesh())
	closeMaterialRange()
"""))
combo('X02', ['MAT-1'], 'R02', (R, """				workingGeom.closeMaterialRange(trisSenseLastMat)
				trisSenseLastMat = 0
""", """				workingGeom.closeMaterialRange(trisSenseLastMat)
"""))
combo('X03', ['STREAM-R'], 'R04', (R, """			workingGeom.normals = append(workingGeom.normals, readNormals[vn])
		}
		if vt != -1 {""", """			workingGeom.normals = append(workingGeom.normals, readNormals[vt])
		}
		if vt != -1 {"""))
combo('X04', ['MAT-1'], 'R05', (R, """	emitGroup := func() {
		closeMaterialRange()
""", """	emitGroup := func() {
		if false {
			closeMaterialRange()
		}
"""))
combo('X05', ['BASE-1'], 'R07', (W, """		if m.HasFloat3Attribute(modeling.NormalAttribute) {
			vnBase += m.Float3Attribute(modeling.NormalAttribute).Len()
		}
""", """		vnBase += m.AttributeLength()
"""))
combo('X06', ['AXIS-3'], 'R13', (W, """		writer.Float64(v.Y())
		writer.Space()
		writer.Float64(v.Z())
		writer.NewLine()
		writer.FinishEntry()
	}
}
""", """		writer.Float64(v.Z())
		writer.Space()
		writer.Float64(v.Y())
		writer.NewLine()
		writer.FinishEntry()
	}
}
"""))
combo('X07', ['CORNER-R'], 'R04', (R, """			p3, err := corner(components[3])""", """			p3, err := corner(components[2])"""))
combo('X08', ['OWN-2'], 'R05', (R, """		geoms = append(geoms, workingGeom.toMesh())
		workingGeom = newObjMeshReading()
	}
""", """		geoms = append(geoms, workingGeom.toMesh())
		workingGeom.pointHash = make(map[string]int)
	}
"""))
combo('X09', ['FORM-1'], 'R08', (W, """		case hasN:
			faceWriter = writeFaceVertsAndNormals
		case hasT:
			faceWriter = writeFaceVertsAndUvs""", """		case hasT:
			faceWriter = writeFaceVertsAndNormals
		case hasN:
			faceWriter = writeFaceVertsAndUvs"""))


ACC_U = ("""					workingGeom.meshMats[len(workingGeom.meshMats)-1].PrimitiveCount = trisSenseLastMat
				}
			}
""", """					workingGeom.meshMats[len(workingGeom.meshMats)-1].PrimitiveCount += trisSenseLastMat
				}
			}
""")
ACC_C = ("""			workingGeom.meshMats[len(workingGeom.meshMats)-1].PrimitiveCount = trisSenseLastMat
		}
		trisSenseLastMat = 0""", """			workingGeom.meshMats[len(workingGeom.meshMats)-1].PrimitiveCount += trisSenseLastMat
		}
		trisSenseLastMat = 0""")
RF('R20', (R,) + ACC_U, (R,) + ACC_C)
RF('R21', (W, """	var faceWriter func(tris *iter.ArrayIterator[int], out *txt.Writer, start, end int, base indexBase)
""", """	faceWriter := writeFaceVerts
"""))
RF('R22', patch('/verif/seeded/C05-1-reader-merges-a-repeated-usemtl-into-the/patch.diff'), (R,) + ACC_U, (R,) + ACC_C)
RF('R23', (W, """		if len(meshes) > 1 || objMesh.Name != "" {
			fmt.Fprintf(out, "g %s\\n", objMesh.Name)
		}
""", """		named := objMesh.Name != ""
		if named || len(meshes) >= 2 {
			fmt.Fprintf(out, "g %s\\n", objMesh.Name)
		}
"""))
RF('R24', (R, """			if !workingGeom.empty() {
				closeMaterialRange()""", """			if len(workingGeom.tris) > 0 {
				closeMaterialRange()"""))


RF('RI1', (F, LOAD_LOOP, """		for _, mat := range materials {
			mat := mat
			loadedMaterials[mat.Name] = &mat
		}"""))
RF('RI2', (F, LOAD_LOOP, """		for i := 0; i < len(materials); i++ {
			loadedMaterials[materials[i].Name] = &materials[i]
		}"""))
RF('RI3', (F, LOAD_LOOP, """		ptrs := make([]*modeling.Material, len(materials))
		for i := range materials {
			ptrs[i] = &materials[i]
		}
		for _, p := range ptrs {
			loadedMaterials[p.Name] = p
		}"""))


def apply_and_run(name, table):
    expect, edits = table[name]
    restore()
    real = []
    for e in edits:
        real.append(e)
    # custom edits are applied inside trial via edit(); handle here
    def do_trial():
        restore()
        for e in real:
            if e[0] == '__custom__':
                e[1]()
            else:
                edit(*e)
    do_trial()
    rc, out = run(['go', 'build', './formats/obj/', './formats/txt/'], WT)
    if rc != 0:
        print('%-6s DOES NOT COMPILE: %s' % (name, '\n'.join(out.strip().splitlines()[-3:])))
        restore()
        return
    trc, tout = run(['go', 'test', '-vet=off', '-count=1', './formats/obj/...', './formats/txt/...'], WT)
    tests = 'tests pass' if trc == 0 else 'tests FAIL'
    rc, fired = check()
    rules = sorted(set(f[1] for f in fired))
    kinds = ''.join(sorted(set(f[0] for f in fired)))
    if expect == 'SILENT':
        verdict = 'SILENT ok' if not fired else 'NOT SILENT'
    else:
        hit = [r for r in rules if r in expect]
        verdict = 'CAUGHT' if hit else ('caught-by-other' if fired else 'MISSED')
    print('%-6s %-15s %-10s %-26s %s' % (name, verdict, tests, ','.join(rules) + ('[' + kinds + ']' if kinds else ''), '; '.join('%s@%s' % (f[1], f[2].replace('formats/obj.', '')) for f in fired[:5])), flush=True)
    if os.environ.get('KEEP') != name:
        restore()


if __name__ == '__main__':
    which = sys.argv[1:] or (sorted(MUTANTS) + sorted(REFACTORS))
    for n in which:
        if n in MUTANTS:
            apply_and_run(n, MUTANTS)
        elif n in REFACTORS:
            apply_and_run(n, REFACTORS)
        elif n == 'mutants':
            for k in sorted(MUTANTS):
                apply_and_run(k, MUTANTS)
        elif n == 'refactors':
            for k in sorted(REFACTORS):
                apply_and_run(k, REFACTORS)
        else:
            print('unknown', n)
