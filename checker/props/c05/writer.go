package c05

import (
	"fmt"
	"go/token"
	"go/types"
	"sort"
	"strings"

	"golang.org/x/tools/go/ssa"

	"polycheck/ssau"
)

// ---------------------------------------------------------------- face writers

// baseRef names the per-stream base a written index adds: parameter #param
// (field #field of it when the parameter is a struct, else -1).
type baseRef struct {
	param int
	field int
}

func (b baseRef) String() string {
	if b.field >= 0 {
		return fmt.Sprintf("param#%d.field#%d", b.param, b.field)
	}
	return fmt.Sprintf("param#%d", b.param)
}

type fwInfo struct {
	fn         *ssa.Function
	name       string
	idxParam   int
	startParam int
	endParam   int
	form       string               // v | v/vt | v//vn | v/vt/vn
	slotBase   map[string][]baseRef // slot kind (v, vt, vn) -> bases used (one per corner)
	ats        int
}

var formSlots = map[string][]string{
	"v":       {"v"},
	"v/vt":    {"v", "vt"},
	"v//vn":   {"v", "vn"},
	"v/vt/vn": {"v", "vt", "vn"},
}

func isIndexIterPtr(t types.Type) bool {
	p, ok := t.Underlying().(*types.Pointer)
	if !ok {
		return false
	}
	n, ok := p.Elem().(*types.Named)
	if !ok || n.Origin().Obj().Name() != "ArrayIterator" || n.Origin().Obj().Pkg() == nil || n.Origin().Obj().Pkg().Path() != iterPath {
		return false
	}
	if n.TypeArgs() == nil || n.TypeArgs().Len() != 1 {
		return false
	}
	return isIntType(n.TypeArgs().At(0))
}

func isTxtWriterPtr(t types.Type) bool {
	if _, ok := t.Underlying().(*types.Pointer); !ok {
		return false
	}
	return isNamedType(t, txtPath, "Writer")
}

// iterSource returns the pointer value an At/Len receiver was loaded from.
func iterSource(recv ssa.Value) ssa.Value {
	if ld, ok := isLoad(recv); ok {
		return ld.X
	}
	return recv
}

type tokItem struct {
	lit  string
	isI  bool
	k    int64 // corner (At position offset) for an index
	base []baseRef
	in   ssa.Instruction
}

// analyseFaceWriter decides IDX-3, ONE-W and TOK-W for one face writer.
func (x *ctx) analyseFaceWriter(fn *ssa.Function, prefix string, ctl bool) *fwInfo {
	info := &fwInfo{fn: fn, name: prefix + x.P.FuncName(fn), idxParam: -1, startParam: -1, endParam: -1, slotBase: map[string][]baseRef{}}
	for i, p := range fn.Params {
		if isIndexIterPtr(p.Type()) && info.idxParam < 0 {
			info.idxParam = i
		}
	}
	if info.idxParam < 0 {
		return nil
	}
	idxP := fn.Params[info.idxParam]
	loops := ssau.Loops(fn)

	// canonical atoms for struct-parameter fields
	canonKey := map[string]ssa.Value{}
	refOf := map[ssa.Value]baseRef{}
	canon := func(v ssa.Value) ssa.Value {
		if p, ok := v.(*ssa.Parameter); ok {
			refOf[p] = baseRef{paramIndex(p), -1}
			return p
		}
		var fa *ssa.FieldAddr
		var fld *ssa.Field
		if ld, ok := isLoad(v); ok {
			fa, _ = ld.X.(*ssa.FieldAddr)
		} else {
			fld, _ = v.(*ssa.Field)
		}
		switch {
		case fa != nil:
			if a, ok := fa.X.(*ssa.Alloc); ok {
				if p, ok := paramSpill(a); ok {
					k := fmt.Sprintf("%d.%d", paramIndex(p), fa.Field)
					if c, ok := canonKey[k]; ok {
						return c
					}
					canonKey[k] = v
					refOf[v] = baseRef{paramIndex(p), fa.Field}
					return v
				}
			}
			if p, ok := fa.X.(*ssa.Parameter); ok { // pointer-to-struct parameter
				k := fmt.Sprintf("%d.%d", paramIndex(p), fa.Field)
				if c, ok := canonKey[k]; ok {
					return c
				}
				canonKey[k] = v
				refOf[v] = baseRef{paramIndex(p), fa.Field}
				return v
			}
		case fld != nil:
			if p, ok := fld.X.(*ssa.Parameter); ok {
				k := fmt.Sprintf("%d.%d", paramIndex(p), fld.Field)
				if c, ok := canonKey[k]; ok {
					return c
				}
				canonKey[k] = v
				refOf[v] = baseRef{paramIndex(p), fld.Field}
				return v
			}
		}
		return nil
	}

	// --- IDX-3: At calls on the index iterator
	atK := map[*ssa.Call]int64{}
	var idx3Viol, idx3Und string
	var rng *rangeOf
	var atCalls []*ssa.Call
	liveInstrs(fn, func(in ssa.Instruction) {
		c, ok := in.(*ssa.Call)
		if !ok || !isIterMethod(calleeOf(c), "At") || len(c.Call.Args) != 2 {
			return
		}
		if iterSource(c.Call.Args[0]) != ssa.Value(idxP) {
			return
		}
		atCalls = append(atCalls, c)
	})
	info.ats = len(atCalls)
	seenK := map[int64]bool{}
	for _, c := range atCalls {
		r, why := positionRange(c.Call.Args[1], loops)
		if r == nil {
			idx3Und = "index iterator subscript not recognised: " + why
			continue
		}
		if rng != nil && rng.phi != r.phi {
			idx3Und = "index iterator subscripted by several loop variables"
			continue
		}
		rng = r
		// k = offset of this subscript relative to the loop variable
		l := linOf(c.Call.Args[1], nil)
		_, k, _ := l.single()
		atK[c] = k
		seenK[k] = true
	}
	if rng != nil && idx3Und == "" {
		switch {
		case rng.step != 3:
			idx3Viol = fmt.Sprintf("the face loop advances by %d index positions per triangle instead of 3", rng.step)
		case !(seenK[0] && seenK[1] && seenK[2]) || len(seenK) != 3:
			idx3Viol = fmt.Sprintf("a triangle reads index positions i+%v instead of i+0, i+1, i+2", keysOf(seenK))
		case rng.cmp != token.LSS:
			idx3Viol = "the face loop condition is not `position < end` (" + rng.cmp.String() + ")"
		}
		// loop variable is tested directly (slack relative to k=0)
		if idx3Viol == "" {
			// init: a parameter ; bound: a parameter
			ia, ic, ok := linOf(rng.initVal, nil).single()
			ip, isP := ia.(*ssa.Parameter)
			if !ok || ic != 0 || !isP {
				idx3Viol = "the face loop does not start at the start position it is given (" + linOf(rng.initVal, nil).String() + ")"
			} else {
				info.startParam = paramIndex(ip)
			}
			// the condition must compare the loop variable itself (offset 0 position): q = phi + kq with kq = 0
			ba, bc, ok2 := linOf(rng.bound, nil).single()
			bp, isP2 := ba.(*ssa.Parameter)
			// positionRange computed slack = kq - kp for the last At call; recompute kq: slack + k(last)
			if idx3Viol == "" {
				if !ok2 || bc != 0 || !isP2 {
					idx3Viol = "the face loop is not bounded by the end position it is given (" + linOf(rng.bound, nil).String() + ")"
				} else {
					info.endParam = paramIndex(bp)
				}
			}
		}
		if idx3Viol == "" {
			// kq must be 0: take any At call with k and its slack
			for _, c := range atCalls {
				r, _ := positionRange(c.Call.Args[1], loops)
				if r != nil && r.slack+atK[c] != 0 {
					idx3Viol = fmt.Sprintf("the face loop tests position%+d against the end position", r.slack+atK[c])
				}
			}
		}
	}
	if len(atCalls) == 0 {
		idx3Und = "no At call on the index iterator parameter"
	}
	x.record(ctl, "IDX-3", info.name, nil, fn, idx3Viol, idx3Und, fmt.Sprintf("%d At calls on the index iterator, positions i+{0,1,2}, step 3, start/end = parameters #%d/#%d", len(atCalls), info.startParam, info.endParam))

	// --- the token sequence
	var items []tokItem
	var body *ssa.BasicBlock
	multiBlock := false
	var oneViol, oneUnd string
	liveInstrs(fn, func(in ssa.Instruction) {
		c, ok := in.(*ssa.Call)
		if !ok {
			return
		}
		cal := calleeOf(c)
		if !isTxtMethod(cal, "StartEntry", "FinishEntry", "String", "Int", "Space", "NewLine", "Tab", "Append", "Float64", "Float64MaxFigs", "Write") {
			return
		}
		if body == nil {
			body = c.Block()
		} else if body != c.Block() {
			multiBlock = true
		}
		switch cal.Name() {
		case "StartEntry":
			items = append(items, tokItem{lit: "\x01", in: c})
		case "FinishEntry":
			items = append(items, tokItem{lit: "\x02", in: c})
		case "Space":
			items = append(items, tokItem{lit: " ", in: c})
		case "NewLine":
			items = append(items, tokItem{lit: "\n", in: c})
		case "Tab":
			items = append(items, tokItem{lit: "\t", in: c})
		case "String", "Append":
			if s, ok := byteOrStringConst(c.Call.Args[1]); ok {
				items = append(items, tokItem{lit: s, in: c})
			} else {
				items = append(items, tokItem{lit: "\x03", in: c})
			}
		case "Int":
			it := tokItem{isI: true, in: c, k: -1}
			l := linOf(c.Call.Args[1], canon)
			nAt := 0
			bad := ""
			for a, coef := range l.terms {
				if ac, ok := a.(*ssa.Call); ok {
					if k, ok := atK[ac]; ok {
						if coef != 1 {
							bad = "vertex id scaled by " + fmt.Sprint(coef)
						}
						nAt++
						it.k = k
						continue
					}
				}
				if r, ok := refOf[a]; ok && coef == 1 {
					it.base = append(it.base, r)
					continue
				}
				bad = "term " + a.Name() + " in a written index is neither the vertex id nor a base parameter"
			}
			switch {
			case bad != "":
				oneViol = bad
			case nAt != 1:
				oneViol = fmt.Sprintf("a written index contains %d vertex ids (%s)", nAt, l.String())
			case l.c != 1:
				oneViol = fmt.Sprintf("a written index is vertex id %+d + base: OBJ indices are 1-based, so it must be +1", l.c)
			case len(it.base) != 1:
				oneViol = fmt.Sprintf("a written index adds %d base parameters (exactly one running base per stream is required for multi-mesh files)", len(it.base))
			}
			items = append(items, it)
		default:
			items = append(items, tokItem{lit: "\x03", in: c})
		}
	})
	if multiBlock {
		oneUnd = "face line is assembled across several basic blocks (idiom not recognised)"
	}
	nInts := 0
	for _, it := range items {
		if it.isI {
			nInts++
		}
	}
	if nInts == 0 && oneUnd == "" {
		oneUnd = "no (*txt.Writer).Int call found in the face writer"
	}
	x.record(ctl, "ONE-W", info.name, nil, fn, oneViol, oneUnd, fmt.Sprintf("%d indices written, each = tris.At(pos) + 1 + base", nInts))

	// --- TOK-W
	tokViol, tokUnd := "", oneUnd
	if tokUnd == "" {
		info.form, tokViol, tokUnd = parseFaceTokens(items, info)
	}
	if tokViol == "" && tokUnd == "" && body != nil && rng != nil {
		for _, latch := range rng.loop.Latch {
			if !body.Dominates(latch) {
				tokViol = "the face loop can go on to the next triangle without writing the current one (the block that writes the line does not lie on every path to the loop's back edge): a face is lost"
			}
		}
	}
	x.record(ctl, "TOK-W", info.name, nil, fn, tokViol, tokUnd, "token form "+info.form)
	return info
}

func keysOf(m map[int64]bool) []int64 {
	var ks []int64
	for k := range m {
		ks = append(ks, k)
	}
	sort.Slice(ks, func(i, j int) bool { return ks[i] < ks[j] })
	return ks
}

// parseFaceTokens checks `StartEntry "f " tok " " tok " " tok "\n" FinishEntry`
// with tok = I(sep I)*, sep ∈ {"/", "//"}, all three tokens of the same form,
// corner order 0,1,2.
func parseFaceTokens(items []tokItem, info *fwInfo) (form, viol, und string) {
	if len(items) < 3 || items[0].lit != "\x01" || items[len(items)-1].lit != "\x02" {
		return "", "the face line is not bracketed by StartEntry … FinishEntry (the line is lost or glued to another one)", ""
	}
	inner := items[1 : len(items)-1]
	// flatten: literals concatenated, indices as markers
	type piece struct {
		lit string
		it  *tokItem
	}
	var ps []piece
	for i := range inner {
		it := &inner[i]
		if it.isI {
			ps = append(ps, piece{it: it})
			continue
		}
		if it.lit == "\x01" || it.lit == "\x02" {
			return "", "StartEntry/FinishEntry inside the face line: part of the line is discarded or split", ""
		}
		if it.lit == "\x03" {
			return "", "", "non-constant text inside the face line"
		}
		if len(ps) > 0 && ps[len(ps)-1].it == nil {
			ps[len(ps)-1].lit += it.lit
		} else {
			ps = append(ps, piece{lit: it.lit})
		}
	}
	if len(ps) == 0 || ps[0].it != nil || ps[0].lit != "f " {
		return "", "the face line does not start with \"f \"", ""
	}
	if ps[len(ps)-1].it != nil || ps[len(ps)-1].lit != "\n" {
		return "", "the face line does not end with exactly one newline", ""
	}
	ps = ps[1 : len(ps)-1]
	// split corners on " "
	var corners [][]piece
	cur := []piece{}
	for _, p := range ps {
		if p.it == nil && p.lit == " " {
			corners = append(corners, cur)
			cur = []piece{}
			continue
		}
		cur = append(cur, p)
	}
	corners = append(corners, cur)
	if len(corners) != 3 {
		return "", fmt.Sprintf("a face line has %d corner tokens instead of 3", len(corners)), ""
	}
	var forms []string
	for ci, c := range corners {
		var seps []string
		expectI := true
		var slots []*tokItem
		for _, p := range c {
			if expectI {
				if p.it == nil {
					return "", fmt.Sprintf("corner %d: separator %q where an index is expected", ci+1, p.lit), ""
				}
				slots = append(slots, p.it)
				expectI = false
			} else {
				if p.it != nil {
					return "", fmt.Sprintf("corner %d: two indices without a separator", ci+1), ""
				}
				if p.lit != "/" && p.lit != "//" {
					return "", fmt.Sprintf("corner %d: separator %q is not '/' or '//'", ci+1, p.lit), ""
				}
				seps = append(seps, p.lit)
				expectI = true
			}
		}
		if expectI {
			return "", fmt.Sprintf("corner %d ends in a separator", ci+1), ""
		}
		f := "v"
		switch strings.Join(seps, ",") {
		case "":
			f = "v"
		case "/":
			f = "v/vt"
		case "//":
			f = "v//vn"
		case "/,/":
			f = "v/vt/vn"
		default:
			return "", fmt.Sprintf("corner %d: token shape with separators %v is not one of v, v/vt, v//vn, v/vt/vn", ci+1, seps), ""
		}
		forms = append(forms, f)
		for si, s := range slots {
			if s.k != int64(ci) {
				return f, fmt.Sprintf("corner %d of the face line writes the vertex at index position i+%d (corner order / corner mix-up)", ci+1, s.k), ""
			}
			kind := formSlots[f][si]
			info.slotBase[kind] = append(info.slotBase[kind], s.base...)
		}
	}
	if forms[0] != forms[1] || forms[1] != forms[2] {
		return forms[0], fmt.Sprintf("the three corners use different token forms %v", forms), ""
	}
	return forms[0], "", ""
}

// ---------------------------------------------------------------- WriteMeshes

type hasPred struct {
	method string // HasFloat2Attribute …
	attr   string // constant value
}

// hasCall recognises m.Has*Attribute("const").
func hasCall(v ssa.Value) (hasPred, bool) {
	c, ok := v.(*ssa.Call)
	if !ok {
		return hasPred{}, false
	}
	fn := calleeOf(c)
	if !isMeshMethod(fn, "HasVertexAttribute", "HasFloat1Attribute", "HasFloat2Attribute", "HasFloat3Attribute", "HasFloat4Attribute") || len(c.Call.Args) != 2 {
		return hasPred{}, false
	}
	s, ok := constStr(c.Call.Args[1])
	if !ok {
		return hasPred{}, false
	}
	return hasPred{fn.Name(), s}, true
}

// guardsOf lists the Has*Attribute predicates whose true edge dominates b
// (searching up to, not including, block stop).
func guardsOf(b, stop *ssa.BasicBlock) []hasPred {
	var out []hasPred
	for b != nil && b != stop {
		d := b.Idom()
		if d == nil {
			break
		}
		if ifi, ok := d.Instrs[len(d.Instrs)-1].(*ssa.If); ok && len(b.Preds) == 1 && b.Preds[0] == d && d.Succs[0] == b && d.Succs[1] != b {
			if h, ok := hasCall(ifi.Cond); ok {
				out = append(out, h)
			}
		}
		b = d
	}
	return out
}

// foreignGuard: inside the outermost loop around b, b is only reached through
// the edge of a condition that is not an m.Has*Attribute(const) test.
func foreignGuard(b *ssa.BasicBlock) string {
	var hdr *ssa.BasicBlock
	if l := outerLoopsOf(ssau.Loops(b.Parent()), b); len(l) > 0 {
		hdr = l[0].Header
	}
	headers := map[*ssa.BasicBlock]bool{}
	for _, l := range ssau.Loops(b.Parent()) {
		headers[l.Header] = true
	}
	for b != nil && b != hdr {
		d := b.Idom()
		if d == nil || d == hdr {
			break
		}
		if ifi, ok := d.Instrs[len(d.Instrs)-1].(*ssa.If); ok && !headers[d] && len(b.Preds) == 1 && b.Preds[0] == d && d.Succs[0] != d.Succs[1] {
			cond := ifi.Cond
			for {
				u, ok := cond.(*ssa.UnOp)
				if !ok || u.Op != token.NOT {
					break
				}
				cond = u.X
			}
			if _, ok := hasCall(cond); !ok {
				return "a condition that is not an attribute-presence test (" + describeCond(cond) + ")"
			}
		}
		b = d
	}
	return ""
}

func describeCond(v ssa.Value) string {
	switch t := v.(type) {
	case *ssa.BinOp:
		return "comparison " + t.Op.String()
	case *ssa.Call:
		if f := calleeOf(t); f != nil {
			return "call of " + f.Name()
		}
	case *ssa.Phi:
		return "a merged boolean"
	}
	return v.Name()
}

type emission struct {
	tag    string // v, vt, vn
	attr   string
	getter string // Float3Attribute …
	dim    int
	guards []hasPred
	at     *ssa.Call
}

type attrSpec struct {
	attrConst string
	getter    string
	dim       int
}

func (x *ctx) attrName(constName string) string {
	s, _ := lookupConstString(x.modeling, constName)
	return s
}

// streamTable is the published OBJ vocabulary: record tag -> mesh attribute, arity.
func (x *ctx) streamTable() map[string]attrSpec {
	return map[string]attrSpec{
		"v":  {x.attrName("PositionAttribute"), "Float3Attribute", 3},
		"vt": {x.attrName("TexCoordAttribute"), "Float2Attribute", 2},
		"vn": {x.attrName("NormalAttribute"), "Float3Attribute", 3},
	}
}

func (x *ctx) writerRules(root *ssa.Function, ctl bool) {
	name := x.P.FuncName(root)
	fns := scopeOf(root)
	res := newResolver(fns)

	// ---- face call sites and face writers
	type site struct {
		call    ssa.CallInstruction
		callees []*ssa.Function
	}
	var sites []site
	fwSet := map[*ssa.Function]bool{}
	for _, f := range fns {
		liveInstrs(f, func(in ssa.Instruction) {
			c, ok := in.(ssa.CallInstruction)
			if !ok {
				return
			}
			cs := calleeFns(c)
			if len(cs) == 0 {
				return
			}
			all := true
			for _, g := range cs {
				hasIdx := false
				if g.Blocks != nil && g.Pkg == root.Pkg {
					for _, p := range g.Params {
						if isIndexIterPtr(p.Type()) {
							hasIdx = true
						}
					}
				}
				if !hasIdx {
					all = false
				}
			}
			if all {
				sites = append(sites, site{c, cs})
				for _, g := range cs {
					fwSet[g] = true
				}
			}
		})
	}
	var fws []*ssa.Function
	for g := range fwSet {
		fws = append(fws, g)
	}
	sort.Slice(fws, func(i, j int) bool { return fws[i].Pos() < fws[j].Pos() })
	if len(fws) == 0 {
		x.record(ctl, "IDX-3", name, nil, root, "", "no call to a face writer (a function of this package taking the *iter.ArrayIterator[int] of the mesh) found in "+name)
		return
	}
	infos := map[*ssa.Function]*fwInfo{}
	for _, g := range fws {
		prefix := ""
		if ctl {
			prefix = name + "→"
		}
		if inf := x.analyseFaceWriter(g, prefix, ctl); inf != nil {
			infos[g] = inf
		}
	}
	if !ctl {
		x.R.Extra["face_writers"] = len(fws)
		x.R.Extra["face_call_sites"] = len(sites)
	}

	var siteCalls []ssa.Instruction
	for _, s := range sites {
		siteCalls = append(siteCalls, s.call.(ssa.Instruction))
	}
	ordSite := ordinalKeys(siteCalls)
	sort.Slice(sites, func(i, j int) bool {
		return ordSite[sites[i].call.(ssa.Instruction)] < ordSite[sites[j].call.(ssa.Instruction)]
	})

	// ---- MAT-2 per call site
	for _, s := range sites {
		x.mat2(root, name, s.call, s.callees, infos, ordSite[s.call.(ssa.Instruction)], ctl)
	}

	x.facesOfEveryMesh(root, name, siteCalls, ctl)

	// ---- FORM-1
	for _, s := range sites {
		x.form1(name, s.call, infos, ordSite[s.call.(ssa.Instruction)], ctl)
	}

	// ---- attribute loops: IDX-1, AXIS-3, STREAM-W
	ems := x.attrLoops(root, name, fns, res, ctl)

	// ---- BASE-1
	x.base1(root, name, fns, res, ems, sitesToCalls(siteCalls), infos, ctl)

	// ---- GROUP-1
	x.group1(root, name, siteCalls, ctl)
}

// facesOfEveryMesh (MAT-2): no iteration of the mesh loop can finish without
// reaching a face call (or the loop over the material ranges), and no
// iteration of a range loop without its face call.
func (x *ctx) facesOfEveryMesh(root *ssa.Function, name string, sites []ssa.Instruction, ctl bool) {
	if len(sites) == 0 {
		return
	}
	construct := name + "→faceWriter:every-mesh"
	fn := sites[0].Parent()
	loops := ssau.Loops(fn)
	outer := outerLoopsOf(loops, sites[0].Block())
	if len(outer) == 0 {
		x.record(ctl, "MAT-2", construct, sites[0], nil, "", "the face calls are not inside a loop over the meshes")
		return
	}
	L := outer[0]
	must := map[ssa.Instruction]bool{}
	viol := ""
	for _, s := range sites {
		if s.Parent() != fn || !L.Blocks[s.Block()] {
			x.record(ctl, "MAT-2", construct, s, nil, "", "face calls in different loops / functions")
			return
		}
		must[s] = true
		inner := ssau.InnermostLoop(loops, s.Block())
		if inner != nil && inner != L {
			// range loop: entering it counts for the mesh; each of its iterations must reach the call
			must[inner.Header.Instrs[0]] = true
			for _, latch := range inner.Latch {
				if !s.Block().Dominates(latch) {
					viol = "the loop over the material ranges can go on to the next range without writing the faces of the current one (face call at " + x.P.Pos(ssau.PosOf(s)) + " is conditional): those faces are lost"
				}
			}
		}
	}
	if viol == "" {
		for _, succ := range L.Header.Succs {
			if L.Blocks[succ] && canBypass(succ, L.Header, must, L.Blocks) {
				viol = "the mesh loop can go on to the next mesh without writing the faces of the current one (neither a face call nor the material-range loop lies on every path through the body): those faces are lost"
			}
		}
	}
	x.record(ctl, "MAT-2", construct, sites[0], nil, viol, "", fmt.Sprintf("%d face call site(s); every path through the mesh loop body reaches one / the range loop", len(sites)))
}

func sitesToCalls(ins []ssa.Instruction) []ssa.CallInstruction {
	var out []ssa.CallInstruction
	for _, in := range ins {
		out = append(out, in.(ssa.CallInstruction))
	}
	return out
}

// zeroEdgeDominates: block b is only reachable through the edge of a test on
// len(list) that implies len(list) == 0 (wantZero) / len(list) != 0 (!wantZero).
func lenTestDominates(b *ssa.BasicBlock, isList func(ssa.Value) bool, wantZero bool) bool {
	for b != nil {
		d := b.Idom()
		if d == nil {
			return false
		}
		if ifi, ok := d.Instrs[len(d.Instrs)-1].(*ssa.If); ok && len(b.Preds) == 1 && b.Preds[0] == d && d.Succs[0] != d.Succs[1] {
			if cmp, ok := ifi.Cond.(*ssa.BinOp); ok {
				var k int64
				var subj ssa.Value
				constLeft := false
				if kk, ok := constInt(stripConv(cmp.Y)); ok {
					k, subj = kk, cmp.X
				} else if kk, ok := constInt(stripConv(cmp.X)); ok {
					k, subj, constLeft = kk, cmp.Y, true
				}
				if c, ok := stripConv(subjOrNil(subj)).(*ssa.Call); ok && ssau.Builtin(c) == "len" && isList(c.Call.Args[0]) {
					want := d.Succs[0] == b
					onlyZero, exclZero := true, true
					for xv := int64(0); xv < 4; xv++ {
						l, r := xv, k
						if constLeft {
							l, r = k, xv
						}
						var t bool
						switch cmp.Op {
						case token.EQL:
							t = l == r
						case token.NEQ:
							t = l != r
						case token.LSS:
							t = l < r
						case token.LEQ:
							t = l <= r
						case token.GTR:
							t = l > r
						case token.GEQ:
							t = l >= r
						}
						if t == want {
							if xv == 0 {
								exclZero = false
							} else {
								onlyZero = false
							}
						} else if xv == 0 {
							onlyZero = false
						}
					}
					if wantZero && onlyZero {
						return true
					}
					if !wantZero && exclZero {
						return true
					}
				}
			}
		}
		b = d
	}
	return false
}

func subjOrNil(v ssa.Value) ssa.Value {
	if v == nil {
		return (*ssa.Const)(nil)
	}
	return v
}

// mat2 decides MAT-2 for one face call site.
func (x *ctx) mat2(root *ssa.Function, name string, call ssa.CallInstruction, callees []*ssa.Function, infos map[*ssa.Function]*fwInfo, ord int, ctl bool) {
	construct := fmt.Sprintf("%s→faceWriter#%d", name, ord)
	in := call.(ssa.Instruction)
	// parameter roles must agree over the callee set
	idxP, startP, endP := -2, -2, -2
	for _, g := range callees {
		inf := infos[g]
		if inf == nil || inf.startParam < 0 || inf.endParam < 0 {
			x.record(ctl, "MAT-2", construct, in, nil, "", "start/end parameters of face writer "+shortFn(g)+" were not identified (see IDX-3)")
			return
		}
		if idxP == -2 {
			idxP, startP, endP = inf.idxParam, inf.startParam, inf.endParam
		} else if idxP != inf.idxParam || startP != inf.startParam || endP != inf.endParam {
			x.record(ctl, "MAT-2", construct, in, nil, "the face writers selectable at this call disagree on which argument is the start / end position", "")
			return
		}
	}
	args := call.Common().Args
	if endP >= len(args) {
		x.record(ctl, "MAT-2", construct, in, nil, "", "argument list shorter than the parameter roles")
		return
	}
	idxArg, startArg, endArg := args[idxP], args[startP], args[endP]
	// IDX provenance: the iterator is m.Indices()
	ic, ok := idxArg.(*ssa.Call)
	if !ok || !isMeshMethod(calleeOf(ic), "Indices") {
		x.record(ctl, "MAT-2", construct, in, nil, "", "the index iterator passed to the face writer is not the result of (modeling.Mesh).Indices()")
		return
	}
	mesh := ic.Call.Args[0]
	isMats := func(v ssa.Value) bool {
		c, ok := v.(*ssa.Call)
		return ok && isMeshMethod(calleeOf(c), "Materials") && sameMesh(c.Call.Args[0], mesh)
	}
	loops := ssau.Loops(in.Parent())
	sl := linOf(startArg, nil)
	el := linOf(endArg, nil)
	// Kind A: whole index list
	if len(sl.terms) == 0 {
		if sl.c != 0 {
			x.record(ctl, "MAT-2", construct, in, nil, fmt.Sprintf("the material-less path starts writing faces at index position %d instead of 0", sl.c), "")
			return
		}
		ea, ec, ok := el.single()
		lc, isCall := ea.(*ssa.Call)
		if !ok || !isCall || !isIterMethod(calleeOf(lc), "Len") || iterSource(lc.Call.Args[0]) != idxArg {
			x.record(ctl, "MAT-2", construct, in, nil, "the material-less path does not end at indices.Len() of the iterator it passes ("+el.String()+")", "")
			return
		}
		if ec != 0 {
			x.record(ctl, "MAT-2", construct, in, nil, fmt.Sprintf("the material-less path ends at indices.Len()%+d: the last triangle(s) are lost or out of range", ec), "")
			return
		}
		if !lenTestDominates(in.Block(), isMats, true) {
			x.record(ctl, "MAT-2", construct, in, nil, "the whole-list face call is not restricted to meshes whose material list is empty (len(m.Materials()) == 0): materials of other meshes would be dropped", "")
			return
		}
		x.record(ctl, "MAT-2", construct, in, nil, "", "", "no-material path: faces [0, indices.Len()) under len(m.Materials()) == 0")
		return
	}
	// Kind B: per material range
	sa, sc, ok := sl.single()
	off, isPhi := sa.(*ssa.Phi)
	if !ok || !isPhi || sc != 0 {
		for a := range sl.terms {
			if ph, isPh := a.(*ssa.Phi); isPh {
				for _, lp := range loops {
					if lp.Header == ph.Block() && lp.Blocks[in.Block()] {
						x.record(ctl, "MAT-2", construct, in, nil, "a material range does not start at the running offset (start = "+sl.String()+"): ranges are shifted or overlap", "")
						return
					}
				}
			}
		}
		x.record(ctl, "MAT-2", construct, in, nil, "", "start argument of the face call is neither 0 nor a running offset variable ("+sl.String()+")")
		return
	}
	var loop *ssau.Loop
	for _, lp := range loops {
		if lp.Header == off.Block() {
			loop = lp
		}
	}
	if loop == nil || !loop.Blocks[in.Block()] {
		x.record(ctl, "MAT-2", construct, in, nil, "", "running offset is not a variable of the loop containing the face call")
		return
	}
	// init 0, back edge = end value
	var backVals []ssa.Value
	for i, e := range off.Edges {
		if loop.Blocks[off.Block().Preds[i]] {
			backVals = append(backVals, e)
		} else if k, ok := constInt(stripConv(e)); !ok || k != 0 {
			x.record(ctl, "MAT-2", construct, in, nil, "the first material range does not start at index position 0", "")
			return
		}
	}
	// end = off + 3*PrimitiveCount(elem)
	if el.terms[off] != 1 || len(el.terms) != 2 || el.c != 0 {
		x.record(ctl, "MAT-2", construct, in, nil, "the end of a material range is not offset + PrimitiveCount*3 ("+el.String()+")", "")
		return
	}
	var pcAtom ssa.Value
	for a := range el.terms {
		if a != ssa.Value(off) {
			pcAtom = a
		}
	}
	elem, okPC := x.pcLoadOf(pcAtom)
	if !okPC {
		x.record(ctl, "MAT-2", construct, in, nil, "the length of a material range is not read from MeshMaterial.PrimitiveCount ("+el.String()+")", "")
		return
	}
	if el.terms[pcAtom] != 3 {
		x.record(ctl, "MAT-2", construct, in, nil, fmt.Sprintf("a material range covers PrimitiveCount*%d index positions instead of PrimitiveCount*3", el.terms[pcAtom]), "")
		return
	}
	for _, bv := range backVals {
		bl := linOf(bv, nil)
		if !sameLin(bl, el) {
			x.record(ctl, "MAT-2", construct, in, nil, "the next material range does not start where this one ends (offset for the next iteration = "+bl.String()+", end of this range = "+el.String()+")", "")
			return
		}
	}
	if len(backVals) == 0 {
		x.record(ctl, "MAT-2", construct, in, nil, "", "offset variable has no back edge")
		return
	}
	// the element is mats[i] for the loop over all of m.Materials()
	why := x.elemOfFullRange(elem, loop, loops, isMats)
	if why != "" {
		x.record(ctl, "MAT-2", construct, in, nil, "", why)
		return
	}
	// usemtl of the same element before the faces
	um := ""
	found := false
	for b := range loop.Blocks {
		for _, ins := range b.Instrs {
			c, ok := ins.(*ssa.Call)
			if !ok || c == in {
				continue
			}
			for _, a := range c.Call.Args {
				if e2, ok := x.materialLoadOf(a); ok && sameElem(e2, elem) {
					if ssau.Before(c, in) {
						found = true
						if g := c.Call.StaticCallee(); g != nil && !x.writesMaterialName(g) {
							um = "the call receiving the range's Material before its faces (" + shortFn(g) + ") does not write Material.Name"
						}
					}
				}
			}
		}
	}
	if !found {
		x.record(ctl, "MAT-2", construct, in, nil, "no statement naming the range's material (usemtl with entry.Material) precedes the range's faces in the same iteration", "")
		return
	}
	if um != "" {
		x.record(ctl, "MAT-2", construct, in, nil, um, "")
		return
	}
	x.record(ctl, "MAT-2", construct, in, nil, "", "", "ranges: offset₀ = 0, end = offset + 3·entry.PrimitiveCount, next offset = end, entry ranges over all of m.Materials(), usemtl(entry.Material) first")
}

func sameLin(a, b lin) bool {
	if a.c != b.c || len(a.terms) != len(b.terms) {
		return false
	}
	for k, v := range a.terms {
		if b.terms[k] != v {
			return false
		}
	}
	return true
}

func sameMesh(a, b ssa.Value) bool {
	if a == b {
		return true
	}
	la, ok1 := isLoad(a)
	lb, ok2 := isLoad(b)
	if ok1 && ok2 {
		fa, ok1 := la.X.(*ssa.FieldAddr)
		fb, ok2 := lb.X.(*ssa.FieldAddr)
		if ok1 && ok2 {
			return fa.X == fb.X && fa.Field == fb.Field
		}
		return la.X == lb.X
	}
	return false
}

// pcLoadOf: v is a read of <elem>.PrimitiveCount; returns the element (the
// address of the MeshMaterial value read: local copy Alloc or IndexAddr).
func (x *ctx) pcLoadOf(v ssa.Value) (ssa.Value, bool) {
	if v == nil {
		return nil, false
	}
	switch t := v.(type) {
	case *ssa.UnOp:
		if ld, ok := isLoad(t); ok {
			if fa, ok := ld.X.(*ssa.FieldAddr); ok && ssau.FieldOf(fa) == x.pcField {
				return fa.X, true
			}
		}
	case *ssa.Field:
		if ssau.FieldOf(t) == x.pcField {
			return t.X, true
		}
	}
	return nil, false
}

func (x *ctx) materialLoadOf(v ssa.Value) (ssa.Value, bool) {
	matField := fieldNamed(lookupType(x.modeling, "MeshMaterial"), "Material")
	if matField == nil {
		return nil, false
	}
	switch t := v.(type) {
	case *ssa.UnOp:
		if ld, ok := isLoad(t); ok {
			if fa, ok := ld.X.(*ssa.FieldAddr); ok && ssau.FieldOf(fa) == matField {
				return fa.X, true
			}
		}
	case *ssa.Field:
		if ssau.FieldOf(t) == matField {
			return t.X, true
		}
	}
	return nil, false
}

func sameElem(a, b ssa.Value) bool {
	if a == b {
		return true
	}
	ia, ok1 := a.(*ssa.IndexAddr)
	ib, ok2 := b.(*ssa.IndexAddr)
	if ok1 && ok2 {
		return ia.X == ib.X && ia.Index == ib.Index
	}
	// loads of the same element
	la, ok1 := isLoad(a)
	lb, ok2 := isLoad(b)
	if ok1 && ok2 {
		return sameElem(la.X, lb.X)
	}
	return false
}

// elemOfFullRange: elem (an Alloc holding a copy, an IndexAddr, or a loaded
// struct value) is list[i] with i running over 0 … len(list)-1 in loop.
func (x *ctx) elemOfFullRange(elem ssa.Value, loop *ssau.Loop, loops []*ssau.Loop, isList func(ssa.Value) bool) string {
	var ia *ssa.IndexAddr
	switch e := elem.(type) {
	case *ssa.IndexAddr:
		ia = e
	case *ssa.Alloc:
		// the range variable copy: exactly one store inside the loop of a load of list[i]
		for _, r := range ssau.Refs(e) {
			if s, ok := r.(*ssa.Store); ok && s.Addr == e {
				if ld, ok := isLoad(s.Val); ok {
					if i2, ok := ld.X.(*ssa.IndexAddr); ok && loop.Blocks[s.Block()] {
						if ia != nil {
							return "range variable assigned twice"
						}
						ia = i2
						continue
					}
				}
				return "material entry variable is assigned something that is not list[i]"
			}
		}
	case *ssa.UnOp:
		if ld, ok := isLoad(e); ok {
			if i2, ok := ld.X.(*ssa.IndexAddr); ok {
				ia = i2
			}
		}
	}
	if ia == nil {
		return "material entry is not an element list[i] of m.Materials()"
	}
	if !isList(ia.X) {
		return "the material ranges are not taken from m.Materials() of the mesh whose indices are written"
	}
	r, why := positionRange(ia.Index, loops)
	if r == nil {
		return "material loop index not recognised: " + why
	}
	if r.loop != loop {
		return "the material entry is indexed by a variable of another loop"
	}
	if len(r.init.terms) != 0 || r.init.c != 0 || r.step != 1 || r.cmp != token.LSS || r.slack != 0 {
		return fmt.Sprintf("the material loop does not visit entries 0,1,…,len-1 in order (first %s, step %d, test %s, slack %d)", r.init.String(), r.step, r.cmp, r.slack)
	}
	bc, ok := stripConv(r.bound).(*ssa.Call)
	if !ok || ssau.Builtin(bc) != "len" || !isList(bc.Call.Args[0]) {
		return "the material loop is not bounded by len(m.Materials())"
	}
	return ""
}

// writesMaterialName: g writes (through txt.Writer.String / fmt) a value derived from Material.Name.
func (x *ctx) writesMaterialName(g *ssa.Function) bool {
	// the function itself or one of its closures (entry(func(){ … out.String(name) … }))
	var all []*ssa.Function
	var add func(f *ssa.Function)
	add = func(f *ssa.Function) {
		all = append(all, f)
		for _, a := range f.AnonFuncs {
			add(a)
		}
	}
	add(g)
	for _, f := range all {
		if x.writesMaterialName1(f) {
			return true
		}
	}
	return false
}

func (x *ctx) writesMaterialName1(g *ssa.Function) bool {
	matT := lookupType(x.modeling, "Material")
	nameField := fieldNamed(matT, "Name")
	if nameField == nil || g.Blocks == nil {
		return false
	}
	tainted := map[ssa.Value]bool{}
	changed := true
	for changed {
		changed = false
		liveInstrs(g, func(in ssa.Instruction) {
			v, ok := in.(ssa.Value)
			if !ok || tainted[v] {
				return
			}
			switch t := v.(type) {
			case *ssa.UnOp:
				if ld, ok := isLoad(t); ok {
					if fa, ok := ld.X.(*ssa.FieldAddr); ok && ssau.FieldOf(fa) == nameField {
						tainted[v] = true
						changed = true
					}
				}
			case *ssa.Call:
				for _, a := range t.Call.Args {
					if tainted[a] && t.Type() != nil {
						if _, isTuple := t.Type().(*types.Tuple); !isTuple {
							tainted[v] = true
							changed = true
						}
					}
				}
			case *ssa.MakeInterface:
				if tainted[t.X] {
					tainted[v] = true
					changed = true
				}
			case *ssa.Phi:
				for _, e := range t.Edges {
					if tainted[e] {
						tainted[v] = true
						changed = true
					}
				}
			}
		})
	}
	wrote := false
	liveInstrs(g, func(in ssa.Instruction) {
		c, ok := in.(*ssa.Call)
		if !ok {
			return
		}
		if isTxtMethod(calleeOf(c), "String", "Append") && len(c.Call.Args) == 2 && tainted[c.Call.Args[1]] {
			wrote = true
		}
	})
	return wrote
}

// ---------------------------------------------------------------- FORM-1

// form1: the face writer chosen at a call agrees with the attributes present.
func (x *ctx) form1(name string, call ssa.CallInstruction, infos map[*ssa.Function]*fwInfo, ord int, ctl bool) {
	construct := fmt.Sprintf("%s→faceWriter#%d:selection", name, ord)
	in := call.(ssa.Instruction)
	normal, tex := x.attrName("NormalAttribute"), x.attrName("TexCoordAttribute")
	v := call.Common().Value
	if call.Common().StaticCallee() != nil {
		v = call.Common().StaticCallee()
	}
	// evaluate the selection under the four presence assignments
	type asg struct{ n, t bool }
	want := map[asg]string{{true, true}: "v/vt/vn", {true, false}: "v//vn", {false, true}: "v/vt", {false, false}: "v"}
	var facts []string
	for _, a := range []asg{{false, false}, {false, true}, {true, false}, {true, true}} {
		fn, why, sviol := selectFn(v, in, meshOfCall(call), func(h hasPred) (bool, bool) {
			switch h.attr {
			case normal:
				return a.n, true
			case tex:
				return a.t, true
			}
			return false, false
		})
		if sviol != "" {
			x.record(ctl, "FORM-1", construct, in, nil, fmt.Sprintf("for a mesh with normals=%v, texture coordinates=%v: %s", a.n, a.t, sviol), "")
			return
		}
		if fn == nil {
			x.record(ctl, "FORM-1", construct, in, nil, "", fmt.Sprintf("selection of the face writer under normals=%v texcoords=%v not decided: %s", a.n, a.t, why))
			return
		}
		inf := infos[fn]
		if inf == nil || inf.form == "" {
			x.record(ctl, "FORM-1", construct, in, nil, "", "token form of "+shortFn(fn)+" unknown (see TOK-W)")
			return
		}
		if inf.form != want[a] {
			x.record(ctl, "FORM-1", construct, in, nil, fmt.Sprintf("a mesh with normals=%v, texture coordinates=%v is written with %s, which emits %q tokens instead of %q", a.n, a.t, shortFn(fn), inf.form, want[a]), "")
			return
		}
		facts = append(facts, fmt.Sprintf("normals=%v tex=%v → %s (%s)", a.n, a.t, shortFn(fn), inf.form))
	}
	x.record(ctl, "FORM-1", construct, in, nil, "", "", facts...)
}

// selectFn evaluates which function value v denotes when every Has*Attribute
// test has the given outcome: branches are followed from the immediate
// dominator of each merge; boolean merges (a && b evaluated as a value) are
// evaluated the same way.
//
// The answer for a mesh must depend on that mesh's tests alone: a value merged
// at the header of a loop around the call (what an earlier iteration selected,
// or the initial value before the loop) is "whatever the previous mesh used" and
// makes the selection indefinite; so does a test made on another mesh value or
// outside the loop.
func selectFn(v ssa.Value, at ssa.Instruction, mesh ssa.Value, val func(hasPred) (bool, bool)) (*ssa.Function, string, string) {
	e := &selEnv{val: val, mesh: mesh, carried: map[*ssa.BasicBlock]bool{}, inLoop: map[*ssa.BasicBlock]bool{}, bind: map[*ssa.Parameter]ssa.Value{}}
	for _, l := range ssau.Loops(at.Parent()) {
		if l.Blocks[at.Block()] {
			e.carried[l.Header] = true
			if len(l.Blocks) > len(e.inLoop) {
				e.inLoop = l.Blocks
			}
		}
	}
	fn, why := e.fn(v, 0)
	return fn, why, e.viol
}

// meshOfCall: the mesh whose Indices() iterator a face call receives.
func meshOfCall(call ssa.CallInstruction) ssa.Value {
	for _, a := range call.Common().Args {
		if ic, ok := a.(*ssa.Call); ok && isMeshMethod(calleeOf(ic), "Indices") && len(ic.Call.Args) > 0 {
			return ic.Call.Args[0]
		}
	}
	return nil
}

type selEnv struct {
	val     func(hasPred) (bool, bool)
	mesh    ssa.Value
	carried map[*ssa.BasicBlock]bool     // headers of the loops around the call
	inLoop  map[*ssa.BasicBlock]bool     // blocks of the outermost such loop
	bind    map[*ssa.Parameter]ssa.Value // parameters of the selection helper(s) being evaluated → caller's values
	frames  []*ssa.Function              // selection helpers being evaluated
	why     string
	viol    string
}

func (e *selEnv) loopCarried(ph *ssa.Phi, what string) bool {
	if e.carried[ph.Block()] {
		e.viol = what + " is carried over from the previous iteration of the mesh loop (or is the value set before the loop): it is not determined by this mesh's own attribute tests"
		return true
	}
	return false
}

func (e *selEnv) fn(v ssa.Value, depth int) (*ssa.Function, string) {
	if depth > 8 {
		return nil, "selection too deep"
	}
	switch t := v.(type) {
	case *ssa.Function:
		return t, ""
	case *ssa.MakeClosure:
		if f, ok := t.Fn.(*ssa.Function); ok {
			return f, ""
		}
	case *ssa.ChangeType:
		return e.fn(t.X, depth+1)
	case *ssa.Call:
		// selection extracted into a helper of this package: decide which return it
		// takes under the assignment, its parameters bound to the caller's arguments
		g := t.Call.StaticCallee()
		if g == nil || g.Blocks == nil || t.Parent() == nil || g.Pkg != t.Parent().Pkg || g.Signature.Results().Len() != 1 {
			return nil, "the face writer is the result of a call that is not a helper of this package returning one function"
		}
		if len(e.frames) == 0 && len(e.inLoop) > 0 && !e.inLoop[t.Block()] {
			e.viol = "the face writer is selected by a call evaluated outside the mesh loop: it does not describe the mesh being written"
			return nil, e.viol
		}
		for _, fr := range e.frames {
			if fr == g {
				return nil, "recursive selection helper"
			}
		}
		saved := e.bind
		nb := map[*ssa.Parameter]ssa.Value{}
		for k, v := range saved {
			nb[k] = v
		}
		for i, p := range g.Params {
			if a := callArg(t, i); a != nil {
				nb[p] = e.resolve(a)
			}
		}
		e.bind = nb
		e.frames = append(e.frames, g)
		ret := e.walkReturn(g, depth)
		var fn *ssa.Function
		why := "which return of " + shortFn(g) + " is taken is not decided by m.Has*Attribute(const) tests"
		if e.why != "" {
			why = e.why
		}
		if ret != nil {
			fn, why = e.fn(ret.Results[0], depth+1)
		}
		e.frames = e.frames[:len(e.frames)-1]
		e.bind = saved
		return fn, why
	case *ssa.Parameter:
		if a, ok := e.bind[t]; ok {
			return e.fn(a, depth+1)
		}
	case *ssa.Phi:
		if e.loopCarried(t, "the face writer") {
			return nil, e.viol
		}
		pi, ok := e.walkTo(t.Block(), depth)
		if !ok {
			if e.why == "" {
				e.why = "selection structure not recognised"
			}
			return nil, e.why
		}
		return e.fn(t.Edges[pi], depth+1)
	}
	return nil, "callee is not a named function, closure or a variable assigned from them"
}

func (e *selEnv) boolean(v ssa.Value, depth int) (bool, bool) {
	if depth > 8 {
		return false, false
	}
	switch t := v.(type) {
	case *ssa.Const:
		if t.Value != nil && t.Value.Kind().String() == "Bool" {
			return t.Value.String() == "true", true
		}
	case *ssa.UnOp:
		if t.Op == token.NOT {
			b, ok := e.boolean(t.X, depth+1)
			return !b, ok
		}
	case *ssa.Parameter:
		if a, ok := e.bind[t]; ok {
			// a hoisted predicate handed to the selection helper: evaluate it where the caller computed it
			saved, frames := e.bind, e.frames
			e.bind, e.frames = map[*ssa.Parameter]ssa.Value{}, nil
			b, ok := e.boolean(a, depth+1)
			e.bind, e.frames = saved, frames
			return b, ok
		}
	case *ssa.Call:
		if h, ok := hasCall(t); ok {
			if len(e.frames) == 0 && len(e.inLoop) > 0 && !e.inLoop[t.Block()] {
				e.viol = "an attribute test that decides the face writer is evaluated outside the mesh loop: it does not describe the mesh being written"
				return false, false
			}
			if e.mesh != nil && !sameMesh(e.resolve(t.Call.Args[0]), e.mesh) {
				e.viol = "an attribute test that decides the face writer is made on a different mesh value than the one whose faces are written"
				return false, false
			}
			return e.val(h)
		}
	case *ssa.Phi:
		if e.loopCarried(t, "a condition that decides the face writer") {
			return false, false
		}
		pi, ok := e.walkTo(t.Block(), depth)
		if !ok {
			return false, false
		}
		return e.boolean(t.Edges[pi], depth+1)
	}
	e.why = "a condition other than m.Has*Attribute(const) decides the selection"
	return false, false
}

// resolve maps a value of a selection helper to the caller's value it is bound
// to: a parameter, or the by-value spill / copy of one.
func (e *selEnv) resolve(v ssa.Value) ssa.Value {
	for d := 0; d < 6; d++ {
		switch t := v.(type) {
		case *ssa.Parameter:
			if a, ok := e.bind[t]; ok {
				return a
			}
			return v
		case *ssa.UnOp:
			if ld, ok := isLoad(t); ok {
				if a, ok := ld.X.(*ssa.Alloc); ok {
					if p, ok := paramSpill(a); ok {
						v = p
						continue
					}
				}
			}
			return v
		default:
			return v
		}
	}
	return v
}

// walkReturn follows the decided branches of helper g from its entry to the
// return it takes.
func (e *selEnv) walkReturn(g *ssa.Function, depth int) *ssa.Return {
	cur := g.Blocks[0]
	for steps := 0; steps < 64; steps++ {
		switch l := cur.Instrs[len(cur.Instrs)-1].(type) {
		case *ssa.Return:
			if len(l.Results) != 1 {
				return nil
			}
			return l
		case *ssa.Jump:
			cur = cur.Succs[0]
		case *ssa.If:
			tv, ok := e.boolean(l.Cond, depth+1)
			if !ok {
				return nil
			}
			if tv {
				cur = cur.Succs[0]
			} else {
				cur = cur.Succs[1]
			}
		default:
			return nil
		}
	}
	return nil
}

// walkTo follows the decided branches from b's immediate dominator and returns
// the index of the predecessor through which b is entered.
func (e *selEnv) walkTo(b *ssa.BasicBlock, depth int) (int, bool) {
	start := b.Idom()
	if start == nil {
		return 0, false
	}
	cur := start
	var prev *ssa.BasicBlock
	for steps := 0; steps < 64; steps++ {
		if cur == b && prev != nil {
			for i, p := range b.Preds {
				if p == prev {
					return i, true
				}
			}
			return 0, false
		}
		switch l := cur.Instrs[len(cur.Instrs)-1].(type) {
		case *ssa.Jump:
			prev, cur = cur, cur.Succs[0]
		case *ssa.If:
			tv, ok := e.boolean(l.Cond, depth+1)
			if !ok {
				return 0, false
			}
			if tv {
				prev, cur = cur, cur.Succs[0]
			} else {
				prev, cur = cur, cur.Succs[1]
			}
		default:
			return 0, false
		}
	}
	return 0, false
}

// ---------------------------------------------------------------- attribute loops

func (x *ctx) attrLoops(root *ssa.Function, name string, fns []*ssa.Function, res *resolver, ctl bool) []emission {
	table := x.streamTable()
	var ems []emission
	var ats []*ssa.Call
	for _, f := range fns {
		liveInstrs(f, func(in ssa.Instruction) {
			c, ok := in.(*ssa.Call)
			if !ok || !isIterMethod(calleeOf(c), "At") || len(c.Call.Args) != 2 {
				return
			}
			src := iterSource(c.Call.Args[0])
			if isIndexIterPtr(src.Type()) {
				return
			}
			ats = append(ats, c)
		})
	}
	ord := ordinalKeys(ats)
	sort.Slice(ats, func(i, j int) bool { return ord[ats[i]] < ord[ats[j]] })
	for _, c := range ats {
		fn := c.Parent()
		loops := ssau.Loops(fn)
		src := iterSource(c.Call.Args[0])
		construct := fmt.Sprintf("%s→At#%d", x.P.FuncName(fn), ord[c])
		// provenance
		getter, attr := "", ""
		if gc, ok := src.(*ssa.Call); ok {
			if g := calleeOf(gc); isMeshMethod(g, "Float1Attribute", "Float2Attribute", "Float3Attribute", "Float4Attribute") {
				getter = g.Name()
				attr, _ = constStr(gc.Call.Args[1])
			}
		}
		// IDX-1
		x.idx1(construct, c, src, loops, getter, attr, ctl)

		// AXIS-3: components of the element written in axis order
		type comp struct {
			axis int
			at   ssa.Instruction
		}
		var comps []comp
		dim := 0
		und := ""
		lossy := false
		for _, ref := range ssau.Refs(c) {
			cc, ok := ref.(*ssa.Call)
			if !ok {
				continue
			}
			ax, d, ok := vectorComponent(calleeOf(cc))
			if !ok {
				continue
			}
			dim = d
			// the component must flow into a Float64 write
			wrote := false
			for _, r2 := range ssau.Refs(cc) {
				if wc, ok := r2.(*ssa.Call); ok && isTxtMethod(calleeOf(wc), "Float64", "Float64MaxFigs") {
					comps = append(comps, comp{ax, wc})
					wrote = true
					if calleeOf(wc).Name() == "Float64MaxFigs" {
						lossy = true
					}
				}
			}
			if !wrote {
				und = "a component of the element is read but not passed directly to a Float64 write"
			}
		}
		aconstruct := construct + ":components"
		if len(comps) == 0 {
			x.record(ctl, "AXIS-3", aconstruct, c, nil, "", "no X()/Y()/Z() component of the element reaches a (*txt.Writer).Float64 call")
			continue
		}
		if und != "" {
			x.record(ctl, "AXIS-3", aconstruct, c, nil, "", und)
			continue
		}
		sameBlock := true
		for _, cp := range comps {
			if cp.at.Block() != comps[0].at.Block() {
				sameBlock = false
			}
		}
		if !sameBlock {
			x.record(ctl, "AXIS-3", aconstruct, c, nil, "", "component writes are spread over several basic blocks")
			continue
		}
		sort.Slice(comps, func(i, j int) bool { return ssau.InstrIndex(comps[i].at) < ssau.InstrIndex(comps[j].at) })
		var order []string
		okOrder := len(comps) == dim
		for i, cp := range comps {
			order = append(order, "XYZW"[cp.axis:cp.axis+1])
			if cp.axis != i {
				okOrder = false
			}
		}
		// no foreign Float64 write between the first and the last component
		first, last := ssau.InstrIndex(comps[0].at), ssau.InstrIndex(comps[len(comps)-1].at)
		blk := comps[0].at.Block()
		mine := map[ssa.Instruction]bool{}
		for _, cp := range comps {
			mine[cp.at] = true
		}
		tag := ""
		tagOK := false
		var tagVal ssa.Value
		bracket := 0
		for i := 0; i < len(blk.Instrs); i++ {
			wc, ok := blk.Instrs[i].(*ssa.Call)
			if !ok {
				continue
			}
			cal := calleeOf(wc)
			if i > first && i < last && isTxtMethod(cal, "Float64", "Float64MaxFigs", "Int") && !mine[wc] {
				okOrder = false
				order = append(order, "(foreign number in between)")
			}
			if i > first && i < last && isTxtMethod(cal, "StartEntry", "FinishEntry") {
				okOrder = false
				order = append(order, "(entry boundary in between)")
			}
			if i < first && isTxtMethod(cal, "StartEntry") {
				bracket = 1
				tag, tagOK = "", false
			}
			if i < first && bracket == 1 && isTxtMethod(cal, "String", "Append") && !tagOK {
				tag, tagOK = byteOrStringConst(wc.Call.Args[1])
				tagVal = wc.Call.Args[1]
				if _, isP := tagVal.(*ssa.Parameter); isP {
					tagOK = true // resolved per call site below
				}
			}
			if i > last && bracket == 1 && isTxtMethod(cal, "FinishEntry") {
				bracket = 2
			}
		}
		if !okOrder {
			x.record(ctl, "AXIS-3", aconstruct, c, nil, fmt.Sprintf("components of a %d-vector are written in order %v instead of X,Y%s", dim, order, map[int]string{2: "", 3: ",Z", 4: ",Z,W"}[dim]), "")
			continue
		}
		if lossy {
			x.record(ctl, "AXIS-3", aconstruct, c, nil, "a coordinate is written with a fixed number of decimals (Float64MaxFigs): float32 precision is not kept for small magnitudes", "")
			continue
		}
		if bracket != 2 {
			x.record(ctl, "AXIS-3", aconstruct, c, nil, "the record is not bracketed by StartEntry … FinishEntry in the block that writes its components (record lost or glued)", "")
			continue
		}
		if rr, _ := positionRange(c.Call.Args[1], loops); rr != nil {
			skipped := false
			for _, latch := range rr.loop.Latch {
				if !blk.Dominates(latch) {
					skipped = true
				}
			}
			if skipped {
				x.record(ctl, "AXIS-3", aconstruct, c, nil, "the attribute loop can go on to the next element without writing a record for the current one: every later record is numbered one lower than the index the faces reference", "")
				continue
			}
		}
		x.record(ctl, "AXIS-3", aconstruct, c, nil, "", "", fmt.Sprintf("%s written in one entry", strings.Join(order, ",")))

		// STREAM-W: record tag ↔ attribute ↔ arity (per call site when the loop lives in a helper)
		type instance struct {
			src    ssa.Value
			tag    string
			tagOK  bool
			block  *ssa.BasicBlock
			suffix string
			at     ssa.Instruction
		}
		var insts []instance
		if sp, isP := src.(*ssa.Parameter); isP && len(res.calls[fn]) > 0 {
			var css []ssa.Instruction
			for _, cs := range res.calls[fn] {
				css = append(css, cs.(ssa.Instruction))
			}
			ordCS := ordinalKeys(css)
			sort.Slice(css, func(a, b int) bool { return ordCS[css[a]] < ordCS[css[b]] })
			for _, csi := range css {
				cs := csi.(ssa.CallInstruction)
				in := instance{src: callArg(cs, paramIndex(sp)), tag: tag, tagOK: tagOK, block: csi.Block(), suffix: fmt.Sprintf("@call#%d", ordCS[csi]), at: csi}
				if tp, isTP := tagVal.(*ssa.Parameter); isTP {
					in.tag, in.tagOK = byteOrStringConst(callArg(cs, paramIndex(tp)))
				}
				insts = append(insts, in)
			}
		} else {
			if _, isTP := tagVal.(*ssa.Parameter); isTP {
				tagOK = false
			}
			insts = append(insts, instance{src: src, tag: tag, tagOK: tagOK, block: c.Block(), at: c})
		}
		for _, in := range insts {
			sconstruct := construct + ":tag" + in.suffix
			g2, a2 := "", ""
			if gc, ok := in.src.(*ssa.Call); ok {
				if g := calleeOf(gc); isMeshMethod(g, "Float1Attribute", "Float2Attribute", "Float3Attribute", "Float4Attribute") {
					g2 = g.Name()
					a2, _ = constStr(gc.Call.Args[1])
				}
			}
			if !in.tagOK {
				x.record(ctl, "STREAM-W", sconstruct, in.at, nil, "", "record tag written before the components is not a constant")
				continue
			}
			tg := strings.TrimSpace(in.tag)
			spec, known := table[tg]
			if g2 == "" || a2 == "" {
				x.record(ctl, "STREAM-W", sconstruct, in.at, nil, "", "the iterator is not the direct result of m.FloatNAttribute(const)")
				continue
			}
			switch {
			case !known:
				x.record(ctl, "STREAM-W", sconstruct, in.at, nil, fmt.Sprintf("record tag %q is not one of v, vt, vn", tg), "")
				continue
			case in.tag != tg+" ":
				x.record(ctl, "STREAM-W", sconstruct, in.at, nil, fmt.Sprintf("record tag %q is not followed by exactly one blank", in.tag), "")
				continue
			case spec.attrConst != a2 || spec.getter != g2:
				x.record(ctl, "STREAM-W", sconstruct, in.at, nil, fmt.Sprintf("%q records are written from %s(%q); the format (and the reader) pair %q with %s(%q)", tg, g2, a2, tg, spec.getter, spec.attrConst), "")
				continue
			case spec.dim != dim:
				x.record(ctl, "STREAM-W", sconstruct, in.at, nil, fmt.Sprintf("%q records carry %d components instead of %d", tg, dim, spec.dim), "")
				continue
			}
			guards := guardsOf(in.block, nil)
			if other := foreignGuard(in.block); other != "" {
				x.record(ctl, "STREAM-W", sconstruct, in.at, nil, fmt.Sprintf("whether the %q records of a mesh are emitted also depends on %s: the faces (and the running base) assume one record per element of every mesh that has the attribute", tg, other), "")
				continue
			}
			x.record(ctl, "STREAM-W", sconstruct, in.at, nil, "", "", fmt.Sprintf("%q ← %s(%q), %d components, emitted under %v", tg, g2, a2, dim, guards))
			ems = append(ems, emission{tag: tg, attr: a2, getter: g2, dim: dim, guards: guards, at: c})
		}
	}
	if len(ats) == 0 {
		x.record(ctl, "IDX-1", name, nil, root, "", "no attribute iterator is read in "+name)
	}
	return ems
}

func (x *ctx) idx1(construct string, c *ssa.Call, src ssa.Value, loops []*ssau.Loop, getter, attr string, ctl bool) {
	r, why := positionRange(c.Call.Args[1], loops)
	switch {
	case r == nil:
		x.record(ctl, "IDX-1", construct, c, nil, "", "attribute subscript not recognised: "+why)
		return
	case len(r.init.terms) != 0 || r.init.c != 0:
		x.record(ctl, "IDX-1", construct, c, nil, "the attribute loop starts at "+r.init.String()+" instead of 0: records are skipped", "")
		return
	case r.step != 1:
		x.record(ctl, "IDX-1", construct, c, nil, fmt.Sprintf("the attribute loop advances by %d", r.step), "")
		return
	case r.cmp != token.LSS || r.slack != 0:
		x.record(ctl, "IDX-1", construct, c, nil, fmt.Sprintf("the attribute loop test is `i%+d %s bound` instead of `i < Len()`", r.slack, r.cmp), "")
		return
	}
	bl := linOf(r.bound, nil)
	ba, bc, ok := bl.single()
	lc, isCall := ba.(*ssa.Call)
	if !ok || !isCall || !isIterMethod(calleeOf(lc), "Len") {
		x.record(ctl, "IDX-1", construct, c, nil, "the loop subscripting this attribute is not bounded by an iterator's Len() ("+bl.String()+")", "")
		return
	}
	if iterSource(lc.Call.Args[0]) != src {
		x.record(ctl, "IDX-1", construct, c, nil, "the attribute is subscripted by a position bounded by the Len() of a different iterator", "")
		return
	}
	if bc != 0 {
		x.record(ctl, "IDX-1", construct, c, nil, fmt.Sprintf("the attribute loop runs to Len()%+d", bc), "")
		return
	}
	x.record(ctl, "IDX-1", construct, c, nil, "", "", "At(i), i = 0 … Len()-1 of the same iterator ("+getter+" "+attr+")")
}

// ---------------------------------------------------------------- BASE-1

type accUpdate struct {
	guards []hasPred
	delta  string // Len(getter,attr) | AttributeLength | other
	at     ssa.Instruction
}

func (x *ctx) deltaKind(v ssa.Value) string {
	l := linOf(v, nil)
	a, c, ok := l.single()
	if !ok || c != 0 {
		return "other(" + l.String() + ")"
	}
	call, ok := a.(*ssa.Call)
	if !ok {
		return "other(" + l.String() + ")"
	}
	fn := calleeOf(call)
	if isMeshMethod(fn, "AttributeLength") {
		return "AttributeLength"
	}
	if isIterMethod(fn, "Len") {
		src := iterSource(call.Call.Args[0])
		if gc, ok := src.(*ssa.Call); ok {
			if g := calleeOf(gc); isMeshMethod(g, "Float1Attribute", "Float2Attribute", "Float3Attribute", "Float4Attribute") {
				at, _ := constStr(gc.Call.Args[1])
				return "Len(" + g.Name() + "," + at + ")"
			}
		}
	}
	return "other(" + l.String() + ")"
}

// base1 decides BASE-1: for every optional stream (vt, vn) referenced by a face
// writer slot, the base passed for that slot is a per-mesh accumulator that
// starts at 0 and advances, after the mesh's faces, by exactly the number of
// records the mesh emitted on that stream — in particular by nothing when the
// mesh lacks the attribute.
func (x *ctx) base1(root *ssa.Function, name string, fns []*ssa.Function, res *resolver, ems []emission, sites []ssa.CallInstruction, infos map[*ssa.Function]*fwInfo, ctl bool) {
	emBy := map[string]*emission{}
	for i := range ems {
		emBy[ems[i].tag] = &ems[i]
	}
	type key struct {
		stream string
	}
	results := map[string][]string{} // stream -> violations
	undec := map[string][]string{}
	facts := map[string][]string{}
	used := map[string]bool{}
	for _, call := range sites {
		in := call.(ssa.Instruction)
		fn := in.Parent()
		loops := ssau.Loops(fn)
		for _, g := range calleeFns(call) {
			inf := infos[g]
			if inf == nil {
				continue
			}
			for _, stream := range []string{"v", "vt", "vn"} {
				refs := inf.slotBase[stream]
				if len(refs) == 0 {
					continue
				}
				used[stream] = true
				ref := refs[0]
				for _, r := range refs {
					if r != ref {
						results[stream] = append(results[stream], fmt.Sprintf("%s: the three corners of a face use different bases for their %s reference", shortFn(g), stream))
					}
				}
				em := emBy[stream]
				if em == nil {
					undec[stream] = append(undec[stream], "no emission loop for '"+stream+"' records found (see STREAM-W)")
					continue
				}
				arg := callArg(call, ref.param)
				if arg == nil {
					undec[stream] = append(undec[stream], "base argument missing at the call")
					continue
				}
				ups, init, why := x.accumulatorOf(arg, ref.field, in, loops, res)
				if strings.HasPrefix(why, "VIOL:") {
					results[stream] = append(results[stream], strings.TrimPrefix(why, "VIOL:"))
					continue
				}
				if why != "" {
					undec[stream] = append(undec[stream], why)
					continue
				}
				if init != "0" {
					results[stream] = append(results[stream], "the "+stream+" base does not start at 0 for the first mesh ("+init+")")
					continue
				}
				wantDelta := "Len(" + em.getter + "," + em.attr + ")"
				okStream := false
				var seen []string
				for _, u := range ups {
					seen = append(seen, fmt.Sprintf("+= %s under %v", u.delta, u.guards))
				}
				sort.Strings(seen)
				if len(ups) == 1 {
					u := ups[0]
					guarded := false
					for _, gd := range u.guards {
						for _, eg := range em.guards {
							if gd == eg {
								guarded = true
							}
						}
					}
					switch {
					case u.delta == wantDelta && (guarded || len(em.guards) == 0):
						okStream = true
					case stream == "v" && u.delta == "AttributeLength" && len(u.guards) == 0:
						// every attribute array of a well-formed mesh has the position count
						okStream = true
					}
				}
				if !okStream {
					msg := fmt.Sprintf("'%s' records are emitted per mesh only under %v (%s of them), but the base added to %s references advances per mesh by: %v — a mesh without that attribute still advances the base, so a later mesh with it references records that do not exist", stream, em.guards, wantDelta, stream, seen)
					if len(ups) == 0 {
						msg = fmt.Sprintf("the base added to %s references never advances: every mesh after the first references the first mesh's records", stream)
					}
					results[stream] = append(results[stream], msg)
					continue
				}
				facts[stream] = append(facts[stream], fmt.Sprintf("%s via %s: base₀ = 0, %v", shortFn(g), ref, seen))
			}
		}
	}
	for _, stream := range []string{"v", "vt", "vn"} {
		if !used[stream] {
			continue
		}
		construct := fmt.Sprintf("%s:base(%s)", name, stream)
		v, u := "", ""
		if len(results[stream]) > 0 {
			sort.Strings(results[stream])
			v = results[stream][0]
		} else if len(undec[stream]) > 0 {
			sort.Strings(undec[stream])
			u = undec[stream][0]
		}
		fs := facts[stream]
		sort.Strings(fs)
		fs = dedupe(fs)
		x.record(ctl, "BASE-1", construct, nil, root, v, u, fs...)
	}
}

func dedupe(s []string) []string {
	var out []string
	for i, v := range s {
		if i == 0 || v != s[i-1] {
			out = append(out, v)
		}
	}
	return out
}

// accumulatorOf analyses the variable passed as base: its initial value and
// its per-iteration updates.
func (x *ctx) accumulatorOf(arg ssa.Value, field int, use ssa.Instruction, loops []*ssau.Loop, res *resolver) (ups []accUpdate, init string, why string) {
	fn := use.Parent()
	if field < 0 {
		// integer variable
		v := stripConv(arg)
		if ph, ok := v.(*ssa.Phi); ok {
			var loop *ssau.Loop
			for _, lp := range loops {
				if lp.Header == ph.Block() && lp.Blocks[use.Block()] {
					loop = lp
				}
			}
			if loop == nil {
				return nil, "", "base argument is a merge that is not a loop variable of the mesh loop"
			}
			init = "?"
			var back []ssa.Value
			for i, e := range ph.Edges {
				if loop.Blocks[ph.Block().Preds[i]] {
					back = append(back, e)
				} else if k, ok := constInt(stripConv(e)); ok {
					init = fmt.Sprint(k)
				} else {
					init = "non-constant"
				}
			}
			// unfold the back value: chain of phi(φ', φ'+Δ) / φ'+Δ down to ph
			seen := map[ssa.Value]bool{}
			var unfold func(v ssa.Value) bool
			unfold = func(v ssa.Value) bool {
				v = stripConv(v)
				if v == ssa.Value(ph) {
					return true
				}
				if seen[v] {
					return true
				}
				seen[v] = true
				switch t := v.(type) {
				case *ssa.Phi:
					for _, e := range t.Edges {
						if !unfold(e) {
							return false
						}
					}
					return true
				case *ssa.BinOp:
					if t.Op == token.ADD {
						// one side continues the chain, the other is the delta
						for _, pair := range [][2]ssa.Value{{t.X, t.Y}, {t.Y, t.X}} {
							if chainsTo(pair[0], ph, 0) {
								ups = append(ups, accUpdate{guards: guardsOf(t.Block(), loop.Header), delta: x.deltaKind(pair[1]), at: t})
								return unfold(pair[0])
							}
						}
					}
				}
				return false
			}
			for _, b := range back {
				if !unfold(b) {
					return nil, "", "update of the base variable is not of the form base += n"
				}
			}
			return ups, init, ""
		}
		if k, ok := constInt(v); ok {
			return nil, fmt.Sprint(k), ""
		}
		if ld, ok := isLoad(v); ok {
			return x.cellAccumulator(ld.X, use, loops, res)
		}
		return nil, "", "base argument is neither a loop variable nor a local variable"
	}
	// struct variable: arg = load of the struct cell
	ld, ok := isLoad(arg)
	if !ok {
		return nil, "", "struct base argument is not read from a local variable"
	}
	cell, ok := ld.X.(*ssa.Alloc)
	if !ok {
		return nil, "", "struct base argument is not read from a local variable"
	}
	_ = fn
	var fieldAddrs []*ssa.FieldAddr
	for _, r := range ssau.Refs(cell) {
		switch t := r.(type) {
		case *ssa.FieldAddr:
			if t.Field == field {
				fieldAddrs = append(fieldAddrs, t)
			}
		case *ssa.Store:
			if t.Addr == cell {
				return nil, "", "the struct holding the bases is assigned as a whole"
			}
		}
	}
	init = "0" // zero value of a local struct
	var hdr *ssa.BasicBlock
	if l := ssau.InnermostLoop(outerLoopsOf(loops, use.Block()), use.Block()); l != nil {
		hdr = l.Header
	}
	for _, fa := range fieldAddrs {
		for _, r := range ssau.Refs(fa) {
			st, ok := r.(*ssa.Store)
			if !ok || st.Addr != fa {
				continue
			}
			b, ok := stripConv(st.Val).(*ssa.BinOp)
			if !ok || b.Op != token.ADD {
				return nil, "", "a base field is assigned something that is not base += n"
			}
			var delta ssa.Value
			for _, pair := range [][2]ssa.Value{{b.X, b.Y}, {b.Y, b.X}} {
				if l2, ok := isLoad(stripConv(pair[0])); ok {
					if fa2, ok := l2.X.(*ssa.FieldAddr); ok && fa2.X == cell && fa2.Field == field {
						delta = pair[1]
					}
				}
			}
			if delta == nil {
				return nil, "", "a base field is assigned something that is not base += n"
			}
			ups = append(ups, accUpdate{guards: guardsOf(st.Block(), hdr), delta: x.deltaKind(delta), at: st})
			// the update must not precede a use in the same iteration
			bad := false
			forwardFrom(st, func(in ssa.Instruction) bool {
				if hdr != nil && in.Block() == hdr && ssau.InstrIndex(in) == 0 {
					return false
				}
				if in == use {
					bad = true
					return false
				}
				return true
			})
			if bad {
				return nil, "", "VIOL:the base is advanced before the faces of the same mesh are written: the mesh's own records are skipped by its references"
			}
		}
	}
	return ups, init, ""
}

// outerLoopsOf: loops containing b, outermost first is not needed; we want the
// outermost loop containing b (the mesh loop).
func outerLoopsOf(loops []*ssau.Loop, b *ssa.BasicBlock) []*ssau.Loop {
	var best *ssau.Loop
	for _, l := range loops {
		if l.Blocks[b] && (best == nil || len(l.Blocks) > len(best.Blocks)) {
			best = l
		}
	}
	if best == nil {
		return nil
	}
	return []*ssau.Loop{best}
}

func (x *ctx) cellAccumulator(addr ssa.Value, use ssa.Instruction, loops []*ssau.Loop, res *resolver) (ups []accUpdate, init string, why string) {
	cell, ok := addr.(*ssa.Alloc)
	if !ok {
		return nil, "", "base variable is not a local variable"
	}
	var hdr *ssa.BasicBlock
	if l := outerLoopsOf(loops, use.Block()); len(l) > 0 {
		hdr = l[0].Header
	}
	init = "0"
	for _, r := range ssau.Refs(cell) {
		st, ok := r.(*ssa.Store)
		if !ok || st.Addr != cell {
			continue
		}
		if k, ok := constInt(stripConv(st.Val)); ok {
			init = fmt.Sprint(k)
			continue
		}
		b, ok := stripConv(st.Val).(*ssa.BinOp)
		if !ok || b.Op != token.ADD {
			return nil, "", "the base variable is assigned something that is not base += n"
		}
		var delta ssa.Value
		for _, pair := range [][2]ssa.Value{{b.X, b.Y}, {b.Y, b.X}} {
			if l2, ok := isLoad(stripConv(pair[0])); ok && l2.X == ssa.Value(cell) {
				delta = pair[1]
			}
		}
		if delta == nil {
			return nil, "", "the base variable is assigned something that is not base += n"
		}
		ups = append(ups, accUpdate{guards: guardsOf(st.Block(), hdr), delta: x.deltaKind(delta), at: st})
		bad := false
		forwardFrom(st, func(in ssa.Instruction) bool {
			if hdr != nil && in.Block() == hdr && ssau.InstrIndex(in) == 0 {
				return false
			}
			if in == use {
				bad = true
				return false
			}
			return true
		})
		if bad {
			return nil, "", "VIOL:the base is advanced before the faces of the same mesh are written: the mesh's own records are skipped by its references"
		}
	}
	return ups, init, ""
}

func chainsTo(v ssa.Value, ph *ssa.Phi, d int) bool {
	v = stripConv(v)
	if v == ssa.Value(ph) {
		return true
	}
	if d > 8 {
		return false
	}
	switch t := v.(type) {
	case *ssa.Phi:
		for _, e := range t.Edges {
			if chainsTo(e, ph, d+1) {
				return true
			}
		}
	case *ssa.BinOp:
		if t.Op == token.ADD {
			return chainsTo(t.X, ph, d+1) || chainsTo(t.Y, ph, d+1)
		}
	}
	return false
}

// ---------------------------------------------------------------- GROUP-1

// group1: before the faces of a mesh, a line carrying ObjMesh.Name and starting
// with "g " is written in the same iteration of the mesh loop.
func (x *ctx) group1(root *ssa.Function, name string, sites []ssa.Instruction, ctl bool) {
	objMeshT := lookupType(x.objPkg.Pkg, "ObjMesh")
	if objMeshT == nil {
		x.record(ctl, "GROUP-1", name, nil, root, "", "type obj.ObjMesh not found")
		return
	}
	nameField := fieldNamed(objMeshT, "Name")
	if nameField == nil {
		x.record(ctl, "GROUP-1", name, nil, root, "", "field obj.ObjMesh.Name not found")
		return
	}
	// calls that output a value derived from a Name load, with a constant format/prefix starting with "g "
	type gcall struct {
		call *ssa.Call
		fmtS string
	}
	var gcalls []gcall
	liveInstrs(root, func(in ssa.Instruction) {
		c, ok := in.(*ssa.Call)
		if !ok {
			return
		}
		fn := calleeOf(c)
		if fn == nil || fn.Pkg() == nil {
			return
		}
		isOut := (fn.Pkg().Path() == "fmt" && (fn.Name() == "Fprintf" || fn.Name() == "Fprintln" || fn.Name() == "Fprint")) || isTxtMethod(fn, "String")
		if !isOut {
			return
		}
		carries := false
		f := ""
		for _, a := range c.Call.Args {
			if s, ok := constStr(a); ok && f == "" {
				f = s
			}
			if derivesFromField(a, nameField, 0) {
				carries = true
			}
		}
		if carries {
			gcalls = append(gcalls, gcall{c, f})
		}
	})
	for i, s := range sites {
		construct := fmt.Sprintf("%s→faceWriter#%d:group", name, i+1)
		ok := false
		badFmt := ""
		skipViol := ""
		for _, g := range gcalls {
			if g.call.Parent() != s.Parent() {
				continue
			}
			// same iteration: g call reaches the site without passing the outermost loop header
			var hdr *ssa.BasicBlock
			if l := outerLoopsOf(ssau.Loops(s.Parent()), s.Block()); len(l) > 0 {
				hdr = l[0].Header
			}
			reach := false
			forwardFrom(g.call, func(in ssa.Instruction) bool {
				if hdr != nil && in.Block() == hdr && ssau.InstrIndex(in) == 0 {
					return false
				}
				if in == s {
					reach = true
					return false
				}
				return true
			})
			if !reach {
				continue
			}
			if !strings.HasPrefix(g.fmtS, "g ") || !strings.HasSuffix(g.fmtS, "\n") {
				badFmt = fmt.Sprintf("the line carrying the mesh name is written with format %q, not a 'g <name>' line", g.fmtS)
				continue
			}
			ok = true
			if why := x.groupLineSkips(g.call, s, hdr, nameField); why != "" {
				skipViol = why
			}
		}
		switch {
		case ok && skipViol != "":
			x.record(ctl, "GROUP-1", construct, s, nil, skipViol, "")
		case ok:
			x.record(ctl, "GROUP-1", construct, s, nil, "", "", "a \"g %s\" line with ObjMesh.Name precedes the mesh's faces in the same iteration; it can only be skipped on tests of len(meshes) / Name == \"\"")
		case badFmt != "":
			x.record(ctl, "GROUP-1", construct, s, nil, badFmt, "")
		default:
			x.record(ctl, "GROUP-1", construct, s, nil, "no 'g <name>' line carrying ObjMesh.Name is written before the faces of a mesh: groups cannot be recovered on reading", "")
		}
	}
}

// groupLineSkips: the branches that decide whether the group line is skipped
// before the faces at site may only test the number of meshes and the name
// being empty (a single anonymous mesh needs no g line). Anything else — the
// previous mesh's name, a flag carried over — merges or loses groups.
func (x *ctx) groupLineSkips(g *ssa.Call, site ssa.Instruction, hdr *ssa.BasicBlock, nameField *types.Var) string {
	fn := g.Parent()
	var within map[*ssa.BasicBlock]bool
	if l := outerLoopsOf(ssau.Loops(fn), site.Block()); len(l) > 0 {
		within = l[0].Blocks
	}
	reach := func(from *ssa.BasicBlock, target ssa.Instruction, avoid ssa.Instruction) bool {
		seen := map[*ssa.BasicBlock]bool{}
		var walk func(b *ssa.BasicBlock) bool
		walk = func(b *ssa.BasicBlock) bool {
			if seen[b] || b == hdr || (within != nil && !within[b]) {
				return false
			}
			seen[b] = true
			for _, in := range b.Instrs {
				if avoid != nil && in == avoid {
					return false
				}
				if in == target {
					return true
				}
			}
			for _, s := range b.Succs {
				if walk(s) {
					return true
				}
			}
			return false
		}
		return walk(from)
	}
	var allowed func(v ssa.Value, d int) bool
	allowed = func(v ssa.Value, d int) bool {
		if d > 6 {
			return false
		}
		switch t := v.(type) {
		case *ssa.Const:
			return true
		case *ssa.UnOp:
			if t.Op == token.NOT {
				return allowed(t.X, d+1)
			}
		case *ssa.Phi:
			for _, e := range t.Edges {
				if !allowed(e, d+1) {
					return false
				}
			}
			return !(hdr != nil && t.Block() == hdr)
		case *ssa.BinOp:
			for _, pair := range [][2]ssa.Value{{t.X, t.Y}, {t.Y, t.X}} {
				if _, isC := pair[1].(*ssa.Const); !isC {
					continue
				}
				if c, ok := stripConv(pair[0]).(*ssa.Call); ok && ssau.Builtin(c) == "len" {
					if _, isP := c.Call.Args[0].(*ssa.Parameter); isP {
						return true
					}
				}
				if s, ok := constStr(pair[1]); ok && s == "" && derivesFromField(pair[0], nameField, 0) {
					return true
				}
			}
		}
		return false
	}
	bad := ""
	for _, b := range fn.Blocks {
		if within != nil && !within[b] {
			continue
		}
		ifi, ok := b.Instrs[len(b.Instrs)-1].(*ssa.If)
		if !ok || b == hdr {
			continue
		}
		leadsToG := false
		for _, sc := range b.Succs {
			if reach(sc, g, nil) {
				leadsToG = true
			}
		}
		if !leadsToG {
			continue
		}
		skips := false
		for _, s := range b.Succs {
			if reach(s, site, g) {
				skips = true
			}
		}
		if skips && !allowed(ifi.Cond, 0) {
			bad = "whether the 'g <name>' line of a mesh is written depends on a condition (" + describeCond(ifi.Cond) + " at " + x.P.Pos(ssau.PosOf(ifi)) + ") other than the number of meshes / the name being empty: meshes whose line is skipped are merged into the previous group on reading"
		}
	}
	return bad
}

func derivesFromField(v ssa.Value, f *types.Var, d int) bool {
	if d > 8 || v == nil {
		return false
	}
	switch t := v.(type) {
	case *ssa.UnOp:
		if ld, ok := isLoad(t); ok {
			if fa, ok := ld.X.(*ssa.FieldAddr); ok && ssau.FieldOf(fa) == f {
				return true
			}
		}
	case *ssa.Field:
		if ssau.FieldOf(t) == f {
			return true
		}
	case *ssa.MakeInterface:
		return derivesFromField(t.X, f, d+1)
	case *ssa.Slice:
		// varargs array: look at the stores into it
		if a, ok := t.X.(*ssa.Alloc); ok {
			for _, r := range ssau.Refs(a) {
				if ia, ok := r.(*ssa.IndexAddr); ok {
					for _, r2 := range ssau.Refs(ia) {
						if st, ok := r2.(*ssa.Store); ok && derivesFromField(st.Val, f, d+1) {
							return true
						}
					}
				}
			}
		}
	case *ssa.Phi:
		for _, e := range t.Edges {
			if derivesFromField(e, f, d+1) {
				return true
			}
		}
	}
	return false
}
