package c06

import (
	"fmt"
	"os"
	"sort"
	"strings"

	"polycheck/ob"
	"polycheck/props"
)

// agg merges per-path outcomes into one verdict per (rule, construct).
type agg struct {
	c     *props.Ctx
	items map[string]*aggItem
	order []string
	// control functions: outcomes are collected separately
	ctl map[string]ob.Verdict
}

type aggItem struct {
	rule, construct, pos string
	verdict              ob.Verdict
	msg                  string
	facts                []string
}

func newAgg(c *props.Ctx) *agg {
	return &agg{c: c, items: map[string]*aggItem{}, ctl: map[string]ob.Verdict{}}
}

func rank(v ob.Verdict) int {
	switch v {
	case ob.Violation:
		return 3
	case ob.Undecided:
		return 2
	case ob.Holds:
		return 1
	}
	return 0
}

func (a *agg) add(rule, construct, pos string, v ob.Verdict, msg string, facts ...string) {
	k := rule + "\x00" + construct
	it := a.items[k]
	if it == nil {
		it = &aggItem{rule: rule, construct: construct, pos: pos}
		a.items[k] = it
		a.order = append(a.order, k)
	}
	if rank(v) > rank(it.verdict) {
		it.verdict, it.msg, it.pos = v, msg, pos
		if v != ob.Holds {
			it.facts = nil
		}
	}
	if v == it.verdict {
		for _, f := range facts {
			dup := false
			for _, g := range it.facts {
				if g == f {
					dup = true
				}
			}
			if !dup && len(it.facts) < 8 {
				it.facts = append(it.facts, f)
			}
		}
	}
}

func (a *agg) hold(rule, construct, pos string, facts ...string) {
	a.add(rule, construct, pos, ob.Holds, "", facts...)
}
func (a *agg) violate(rule, construct, pos, msg string, facts ...string) {
	a.add(rule, construct, pos, ob.Violation, msg, facts...)
}
func (a *agg) undecide(rule, construct, pos, msg string, facts ...string) {
	a.add(rule, construct, pos, ob.Undecided, msg, facts...)
}

// flush records the merged obligations. Constructs that belong to control
// functions (name contains "verifControl") are diverted into ctl.
func (a *agg) flush() {
	keys := append([]string(nil), a.order...)
	sort.Strings(keys)
	for _, k := range keys {
		it := a.items[k]
		if os.Getenv("C06_DEBUG") != "" {
			fmt.Fprintf(os.Stderr, "%-9s %-10s %s @%s %s %v\n", it.verdict, it.rule, it.construct, it.pos, it.msg, it.facts)
		}
		if strings.Contains(it.construct, "verifControl") {
			ck := it.rule + "\x00" + it.construct
			if rank(it.verdict) > rank(a.ctl[ck]) {
				a.ctl[ck] = it.verdict
			}
			continue
		}
		switch it.verdict {
		case ob.Holds:
			a.c.R.Hold(it.rule, it.construct, it.pos, it.facts...)
		case ob.Violation:
			a.c.R.Violate(it.rule, it.construct, it.pos, it.msg, it.facts...)
		case ob.Undecided:
			a.c.R.Undecide(it.rule, it.construct, it.pos, it.msg, it.facts...)
		}
	}
}

// control reports the outcome of a control function for a rule: the worst
// verdict over all constructs of that rule whose key mentions fnName.
func (a *agg) control(rule, fnName string) ob.Verdict {
	worst := ob.Verdict("")
	for k, v := range a.ctl {
		parts := strings.SplitN(k, "\x00", 2)
		if parts[0] == rule && strings.Contains(parts[1], fnName) {
			if rank(v) > rank(worst) {
				worst = v
			}
		}
	}
	return worst
}
