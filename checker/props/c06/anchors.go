package c06

import (
	"go/types"
	"sort"
	"strings"

	"golang.org/x/tools/go/ssa"

	"polycheck/props"
	"polycheck/ssau"
)

const gltfRel = "formats/gltf"

// fnScan: what one function does directly (no callees).
type fnScan struct {
	stores   map[*types.Var]bool // Writer fields stored
	reads    map[*types.Var]bool // Writer fields addressed at all
	sinkCall bool                // calls a byte-sink primitive
	callees  []*ssa.Function     // static in-package callees
	invokes  []*types.Func       // interface methods invoked
	dynamic  bool                // calls a function value
	loops    bool
	instrs   int
}

type world struct {
	c        *props.Ctx
	pkg      *ssa.Package
	tpkg     *types.Package
	writer   *types.Named
	wstruct  *types.Struct
	field    map[string]*types.Var
	fns      []*ssa.Function // repository functions of the package
	ctl      []*ssa.Function // control functions (overlay)
	all      []*ssa.Function
	scan     map[*ssa.Function]*fnScan
	trans    map[*ssa.Function]*fnScan // transitive closure
	methods  map[string][]*ssa.Function
	pureMemo map[*ssa.Function]int
	sumMemo  map[*ssa.Function]*summary
	compType *types.Named // AccessorComponentType
	compVals map[int64]string
	ok       bool
}

type summary struct {
	delta map[*types.Var]*int64
	busy  bool
}

func (w *world) isWriterType(t types.Type) bool {
	n := ssau.NamedOf(t)
	return n != nil && n.Obj() == w.writer.Obj()
}

func (w *world) hasWriterParam(fn *ssa.Function) bool {
	for _, p := range fn.Params {
		if w.isWriterType(p.Type()) {
			return true
		}
	}
	return false
}

func newWorld(c *props.Ctx) *world {
	w := &world{c: c, field: map[string]*types.Var{}, scan: map[*ssa.Function]*fnScan{}, trans: map[*ssa.Function]*fnScan{},
		methods: map[string][]*ssa.Function{}, pureMemo: map[*ssa.Function]int{}, sumMemo: map[*ssa.Function]*summary{}, compVals: map[int64]string{}}
	w.pkg = c.P.SSAPkg(gltfRel)
	if w.pkg == nil {
		c.R.Failf("anchor package %s not found", gltfRel)
		return w
	}
	w.tpkg = w.pkg.Pkg
	obj := w.tpkg.Scope().Lookup("Writer")
	if obj == nil {
		c.R.Failf("anchor type %s.Writer not found", gltfRel)
		return w
	}
	named, ok := obj.Type().(*types.Named)
	if !ok {
		c.R.Failf("anchor %s.Writer is not a named type", gltfRel)
		return w
	}
	w.writer = named
	w.wstruct, ok = named.Underlying().(*types.Struct)
	if !ok {
		c.R.Failf("anchor %s.Writer is not a struct", gltfRel)
		return w
	}
	for i := 0; i < w.wstruct.NumFields(); i++ {
		w.field[w.wstruct.Field(i).Name()] = w.wstruct.Field(i)
	}
	// roles are resolved by type where the type is unique among the fields (a rename of the field
	// then changes nothing); the role name is only the fallback
	byType := func(role string, match func(t types.Type) bool) {
		var hits []*types.Var
		for i := 0; i < w.wstruct.NumFields(); i++ {
			if match(w.wstruct.Field(i).Type()) {
				hits = append(hits, w.wstruct.Field(i))
			}
		}
		if len(hits) == 1 {
			w.field[role] = hits[0]
		}
	}
	sliceOf := func(name string) func(types.Type) bool {
		return func(t types.Type) bool {
			sl, ok := t.Underlying().(*types.Slice)
			if !ok {
				return false
			}
			n := ssau.NamedOf(sl.Elem())
			return n != nil && n.Obj().Pkg() == w.tpkg && n.Obj().Name() == name
		}
	}
	byType("buf", func(t types.Type) bool { return ssau.IsNamed(t, "bytes", "Buffer") })
	byType("bitW", func(t types.Type) bool { return ssau.IsNamed(t, bitlibPath, "Writer") })
	byType("bytesWritten", func(t types.Type) bool { return isIntType(t) })
	byType("bufferViews", sliceOf("BufferView"))
	byType("accessors", sliceOf("Accessor"))
	for _, need := range []string{"buf", "bitW", "bytesWritten", "bufferViews", "accessors", "extensionsUsed"} {
		if w.field[need] == nil {
			c.R.Failf("anchor field %s.Writer.%s not found", gltfRel, need)
			return w
		}
	}
	if o := w.tpkg.Scope().Lookup("AccessorComponentType"); o != nil {
		w.compType, _ = o.Type().(*types.Named)
	}
	if w.compType == nil {
		c.R.Failf("anchor type %s.AccessorComponentType not found", gltfRel)
		return w
	}
	for _, name := range w.tpkg.Scope().Names() {
		if k, ok := w.tpkg.Scope().Lookup(name).(*types.Const); ok && types.Identical(k.Type(), w.compType) {
			if v, ok := constInt64(k); ok {
				w.compVals[v] = strings.TrimPrefix(name, "AccessorComponentType_")
			}
		}
	}
	for _, fn := range c.P.FuncsOf(w.pkg) {
		if c.P.IsTestFile(fn.Pos()) {
			continue
		}
		w.all = append(w.all, fn)
		if c.P.IsControl(fn.Pos()) {
			w.ctl = append(w.ctl, fn)
		} else {
			w.fns = append(w.fns, fn)
		}
		if fn.Signature.Recv() != nil {
			w.methods[fn.Name()] = append(w.methods[fn.Name()], fn)
		}
	}
	for _, fn := range w.all {
		w.scan[fn] = w.scanFn(fn)
	}
	w.ok = true
	return w
}

func constInt64(k *types.Const) (int64, bool) {
	v := k.Val()
	if v == nil {
		return 0, false
	}
	s := v.ExactString()
	var n int64
	neg := false
	if strings.HasPrefix(s, "-") {
		neg = true
		s = s[1:]
	}
	if s == "" {
		return 0, false
	}
	for _, ch := range s {
		if ch < '0' || ch > '9' {
			return 0, false
		}
		n = n*10 + int64(ch-'0')
	}
	if neg {
		n = -n
	}
	return n, true
}

func isSinkPrimitive(call ssa.CallInstruction) bool {
	obj := ssau.CalleeObj(call)
	if obj == nil || obj.Pkg() == nil {
		return false
	}
	rn := ssau.RecvNamed(obj)
	switch obj.Pkg().Path() {
	case bitlibPath:
		if rn != nil && rn.Obj().Name() == "Writer" && obj.Name() != "Error" {
			return true
		}
		return obj.Name() == "Write" || obj.Name() == "WriteArray"
	case "bytes":
		if rn != nil && rn.Obj().Name() == "Buffer" {
			switch obj.Name() {
			case "Write", "WriteByte", "WriteString", "WriteRune", "ReadFrom", "Reset", "Truncate", "Grow":
				return true
			}
		}
	case "encoding/binary":
		return obj.Name() == "Write"
	case "fmt":
		return strings.HasPrefix(obj.Name(), "Fprint")
	case "io":
		if call.Common().IsInvoke() && (obj.Name() == "Write" || obj.Name() == "WriteString" || obj.Name() == "WriteByte") {
			return true
		}
		return obj.Name() == "WriteString" || obj.Name() == "Copy" || obj.Name() == "CopyN"
	}
	return false
}

func (w *world) scanFn(fn *ssa.Function) *fnScan {
	s := &fnScan{stores: map[*types.Var]bool{}, reads: map[*types.Var]bool{}}
	s.loops = len(ssau.Loops(fn)) > 0
	seen := map[*ssa.Function]bool{}
	ssau.AllInstrs(fn, func(in ssa.Instruction) {
		s.instrs++
		switch in := in.(type) {
		case *ssa.FieldAddr:
			if f := ssau.FieldOf(in); f != nil && w.isWriterType(in.X.Type()) {
				s.reads[f] = true
				for _, r := range ssau.Refs(in) {
					if st, ok := r.(*ssa.Store); ok && st.Addr == in {
						s.stores[f] = true
					}
				}
			}
		case ssa.CallInstruction:
			cc := in.Common()
			if isSinkPrimitive(in) {
				s.sinkCall = true
			}
			if cc.IsInvoke() {
				s.invokes = append(s.invokes, cc.Method)
				return
			}
			if _, ok := cc.Value.(*ssa.Builtin); ok {
				return
			}
			cal := cc.StaticCallee()
			if cal == nil {
				s.dynamic = true
				return
			}
			if cal.Pkg == w.pkg || (cal.Parent() != nil && cal.Parent().Pkg == w.pkg) {
				if !seen[cal] {
					seen[cal] = true
					s.callees = append(s.callees, cal)
				}
			}
		}
	})
	return s
}

// implementations of an interface method inside the package (CHA restricted to the package).
func (w *world) impls(m *types.Func) []*ssa.Function {
	sig, ok := m.Type().(*types.Signature)
	if !ok || sig.Recv() == nil {
		return nil
	}
	iface, ok := sig.Recv().Type().Underlying().(*types.Interface)
	if !ok {
		return nil
	}
	var out []*ssa.Function
	for _, fn := range w.methods[m.Name()] {
		rt := fn.Signature.Recv().Type()
		if types.Implements(rt, iface) || types.Implements(types.NewPointer(rt), iface) {
			out = append(out, fn)
		}
	}
	return out
}

// closure computes the transitive scan of fn; unknown=true when a callee outside
// the package may receive the writer (interface without in-package implementation is fine:
// such a callee cannot reach unexported fields).
func (w *world) closure(fn *ssa.Function) *fnScan {
	if t, ok := w.trans[fn]; ok {
		return t
	}
	t := &fnScan{stores: map[*types.Var]bool{}, reads: map[*types.Var]bool{}}
	w.trans[fn] = t
	seen := map[*ssa.Function]bool{}
	var visit func(f *ssa.Function)
	visit = func(f *ssa.Function) {
		if seen[f] {
			return
		}
		seen[f] = true
		s := w.scan[f]
		if s == nil {
			return
		}
		for k := range s.stores {
			t.stores[k] = true
		}
		for k := range s.reads {
			t.reads[k] = true
		}
		t.sinkCall = t.sinkCall || s.sinkCall
		t.loops = t.loops || s.loops
		t.callees = append(t.callees, f)
		for _, c := range s.callees {
			visit(c)
		}
		for _, m := range s.invokes {
			for _, impl := range w.impls(m) {
				visit(impl)
			}
		}
		for _, a := range f.AnonFuncs {
			visit(a)
		}
	}
	visit(fn)
	return t
}

// isSync: the function itself advances the running offset.
func (w *world) isSync(fn *ssa.Function) bool {
	s := w.scan[fn]
	return s != nil && s.stores[w.field["bytesWritten"]]
}

func (w *world) reachesSync(fn *ssa.Function) bool {
	for _, f := range w.closure(fn).callees {
		if w.isSync(f) {
			return true
		}
	}
	return false
}

// inline policy of the executor: raw writers (append bytes, never touch the
// counter) and tiny loop-free helpers are executed in place.
func (w *world) inline(fn *ssa.Function) bool {
	s := w.scan[fn]
	if s == nil && fn.Blocks != nil {
		// an instantiation (wrapper or instance) of a generic package function: judged by its generic origin;
		// the wrapper's body just calls the origin, the instance's body is the origin's with types filled in
		if o := fn.Origin(); o != nil && o != fn && w.scan[o] != nil {
			return w.inline(o)
		}
	}
	if s == nil || fn.Blocks == nil {
		return false
	}
	if w.reachesSync(fn) {
		return false
	}
	if w.closure(fn).sinkCall {
		return true
	}
	return !s.loops && s.instrs <= 80 && len(fn.Blocks) <= 16 && !s.dynamic && len(s.invokes) == 0
}

// rawWriter: appends payload bytes and never (transitively) advances the counter.
func (w *world) rawWriter(fn *ssa.Function) bool {
	return w.scan[fn] != nil && w.closure(fn).sinkCall && !w.reachesSync(fn)
}

// touch: the function itself handles payload bytes or the counter (directly, or through a raw
// writer it calls) — as opposed to functions that merely call balanced writer methods.
func (w *world) touch(fn *ssa.Function) bool {
	s := w.scan[fn]
	if s == nil {
		return false
	}
	if s.sinkCall || s.stores[w.field["bytesWritten"]] {
		return true
	}
	for _, c := range s.callees {
		if w.rawWriter(c) {
			return true
		}
	}
	return false
}

// inlineIn: inline policy while analysing root. A function that advances the counter is
// executed in place when the root itself handles payload bytes: the pair is then judged as one unit
// (helper extraction must not change a verdict).
func (w *world) inlineIn(root, fn *ssa.Function) bool {
	if w.inline(fn) {
		return true
	}
	if w.scan[fn] == nil || fn.Blocks == nil {
		return false
	}
	return w.touch(root) && w.touch(fn) && root != fn
}

// syncRoot: a counter-advancing function that must be balanced on its own: some caller in the
// package does not handle payload bytes itself (or there is no caller in the package: API entry).
func (w *world) syncRoot(fn *ssa.Function, within []*ssa.Function) bool {
	sites := 0
	for _, f := range within {
		if f == fn {
			continue
		}
		calls := false
		for _, c := range w.scan[f].callees {
			if c == fn {
				calls = true
			}
		}
		if !calls {
			continue
		}
		sites++
		if !w.touch(f) {
			return true
		}
	}
	return sites == 0
}

// pure: no visible side effects (stores only into own locals, no map updates, only pure callees).
func (w *world) pure(fn *ssa.Function) bool {
	return w.pureDepth(fn, 0)
}

func (w *world) pureDepth(fn *ssa.Function, depth int) bool {
	if fn == nil {
		return false
	}
	if v, ok := w.pureMemo[fn]; ok {
		return v == 2
	}
	if fn.Blocks == nil {
		// external / assembly: a few math functions are known pure
		if fn.Pkg != nil && fn.Pkg.Pkg.Path() == "math" {
			return true
		}
		return false
	}
	if depth > 4 {
		return false
	}
	w.pureMemo[fn] = 1
	ok := true
	ssau.AllInstrs(fn, func(in ssa.Instruction) {
		if !ok {
			return
		}
		switch in := in.(type) {
		case *ssa.Store:
			if !localAddr(in.Addr) {
				ok = false
			}
		case *ssa.MapUpdate, *ssa.Send, *ssa.Go, *ssa.Defer, *ssa.Select:
			ok = false
		case ssa.CallInstruction:
			cc := in.Common()
			if b, isB := cc.Value.(*ssa.Builtin); isB {
				switch b.Name() {
				case "len", "cap", "append", "min", "max", "panic", "real", "imag", "complex":
				default:
					ok = false
				}
				return
			}
			if cc.IsInvoke() {
				ok = false
				return
			}
			cal := cc.StaticCallee()
			if cal == nil || !w.pureDepth(cal, depth+1) {
				ok = false
			}
		}
	})
	if ok {
		w.pureMemo[fn] = 2
	} else {
		w.pureMemo[fn] = 3
	}
	return ok
}

// localAddr: the address is (inside) an Alloc of the same function.
func localAddr(v ssa.Value) bool {
	for {
		switch a := v.(type) {
		case *ssa.Alloc:
			return true
		case *ssa.FieldAddr:
			v = a.X
		case *ssa.IndexAddr:
			// only arrays (pointer-to-array operand) are local storage
			if _, ok := a.X.Type().Underlying().(*types.Pointer); !ok {
				return false
			}
			v = a.X
		default:
			return false
		}
	}
}

// effects implements Config.Effects.
func (w *world) effects(fn *ssa.Function, method *types.Func) (map[*types.Var]*int64, bool, bool) {
	var roots []*ssa.Function
	if fn != nil {
		if w.scan[fn] == nil {
			// outside the package: cannot reach unexported fields of the writer directly; it may call
			// back exported methods, which we do not follow
			if fn.Pkg == w.pkg {
				return nil, true, false
			}
			return nil, true, false
		}
		roots = []*ssa.Function{fn}
	} else if method != nil {
		roots = w.impls(method)
		if len(roots) == 0 {
			return nil, true, false
		}
	}
	mods := map[*types.Var]*int64{}
	sink := false
	for _, r := range roots {
		t := w.closure(r)
		sink = sink || t.sinkCall
		for f := range t.stores {
			if _, ok := mods[f]; !ok {
				mods[f] = nil
			}
		}
	}
	if len(roots) == 1 {
		if sm := w.summarise(roots[0]); sm != nil {
			for f, d := range sm.delta {
				if _, ok := mods[f]; ok {
					mods[f] = d
				}
			}
		}
	}
	return mods, sink, true
}

func (w *world) execConfig() Config {
	return Config{
		SinkFields: map[*types.Var]string{w.field["bitW"]: "payload", w.field["buf"]: "payload"},
		ParamSink:  map[*ssa.Parameter]string{},
		Bind:       map[*ssa.Parameter]AV{},
		Inline:     w.inlineIn,
		Effects:    w.effects,
		Pure:       w.pure,
		GlobalMap:  w.globalMap,
		Balanced:   func(fn *ssa.Function) bool { return w.scan[fn] != nil && w.reachesSync(fn) },
	}
}

// summarise runs fn standalone and extracts, per Writer slice field, the constant
// number of elements every returning path appends (nil when it varies).
func (w *world) summarise(fn *ssa.Function) *summary {
	if sm, ok := w.sumMemo[fn]; ok {
		if sm.busy {
			return nil
		}
		return sm
	}
	sm := &summary{delta: map[*types.Var]*int64{}, busy: true}
	w.sumMemo[fn] = sm
	defer func() { sm.busy = false }()
	if !w.hasWriterParam(fn) {
		return sm
	}
	cfg := w.execConfig()
	cfg.MaxPaths = 4000
	cfg.MaxSteps = 400_000
	x := NewExec(cfg)
	res := x.Run(fn)
	if x.aborted != "" {
		return sm
	}
	type acc struct {
		set  bool
		v    int64
		vary bool
	}
	accs := map[*types.Var]*acc{}
	nret := 0
	for _, r := range res {
		if r.Kind == "panic" {
			continue
		}
		if r.Kind == "latch" {
			// a loop that modifies the writer: lengths vary
			for _, e := range r.St.events {
				if (e.Kind == "append" || e.Kind == "overwrite") && e.Field != nil {
					a := accs[e.Field]
					if a == nil {
						a = &acc{}
						accs[e.Field] = a
					}
					a.vary = true
				}
			}
			continue
		}
		nret++
		per := map[*types.Var]int64{}
		for _, e := range r.St.events {
			if e.Field == nil || e.Depth != 0 {
				continue
			}
			a := accs[e.Field]
			if a == nil {
				a = &acc{}
				accs[e.Field] = a
			}
			switch e.Kind {
			case "append":
				if c, ok := e.N.constVal(); ok && len(e.Loops) == 0 {
					per[e.Field] += c
				} else {
					a.vary = true
				}
			case "overwrite":
				a.vary = true
			}
		}
		// calls that modify fields with unknown deltas
		for _, e := range r.St.events {
			if e.Kind != "call" {
				continue
			}
			mods, _, ok := w.effects(e.Callee, e.Method)
			if !ok {
				continue
			}
			for f, d := range mods {
				a := accs[f]
				if a == nil {
					a = &acc{}
					accs[f] = a
				}
				if d == nil || len(e.Loops) > 0 {
					a.vary = true
				} else {
					per[f] += *d
				}
			}
		}
		for f, a := range accs {
			if !a.set {
				a.set, a.v = true, per[f]
				if nret > 1 && per[f] != 0 {
					a.vary = true // earlier paths had 0
				}
			} else if a.v != per[f] {
				a.vary = true
			}
		}
	}
	fields := make([]*types.Var, 0, len(accs))
	for f := range accs {
		fields = append(fields, f)
	}
	sort.Slice(fields, func(i, j int) bool { return fields[i].Name() < fields[j].Name() })
	for _, f := range fields {
		a := accs[f]
		if _, isSlice := f.Type().Underlying().(*types.Slice); isSlice && a.set && !a.vary {
			v := a.v
			sm.delta[f] = &v
		}
	}
	return sm
}

// globalMap reads m[key] from a package-level map that the package initialiser fills with
// constant keys and values and that nothing else in the package updates. key == nil asks
// whether g is such a table (non-nil answer = yes).
func (w *world) globalMap(g *ssa.Global, key AV) AV {
	if g.Pkg != w.pkg {
		return nil
	}
	init := w.pkg.Func("init")
	if init == nil {
		return nil
	}
	table := map[string]AV{}
	ok := true
	check := func(fn *ssa.Function, isInit bool) {
		ssau.AllInstrs(fn, func(in ssa.Instruction) {
			mu, isMU := in.(*ssa.MapUpdate)
			if !isMU {
				return
			}
			u, isU := mu.Map.(*ssa.UnOp)
			var src ssa.Value = mu.Map
			if isU {
				src = u.X
			}
			// the map stored into g: either updated through a load of g, or built then stored
			hits := src == ssa.Value(g)
			if mm, isMM := mu.Map.(*ssa.MakeMap); isMM {
				for _, r := range ssau.Refs(mm) {
					if st, isSt := r.(*ssa.Store); isSt && st.Addr == ssa.Value(g) {
						hits = true
					}
				}
			}
			if !hits {
				return
			}
			if !isInit {
				ok = false
				return
			}
			kc, isKC := mu.Key.(*ssa.Const)
			vc, isVC := stripChange(mu.Value).(*ssa.Const)
			if !isKC || !isVC || kc.Value == nil || vc.Value == nil {
				ok = false
				return
			}
			var v AV = Konst{V: vc.Value, T: vc.Type()}
			if i, isI := ssau.ConstInt(vc); isI && isIntType(vc.Type()) {
				v = Num{pconst(i)}
			}
			table[kc.Value.ExactString()] = v
		})
	}
	check(init, true)
	for _, fn := range w.all {
		if fn != init {
			check(fn, false)
		}
	}
	if !ok || len(table) == 0 {
		return nil
	}
	if key == nil {
		return Konst{}
	}
	k, isK := key.(Konst)
	if !isK || k.V == nil {
		return nil
	}
	return table[k.V.ExactString()]
}
