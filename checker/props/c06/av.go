package c06

import (
	"fmt"
	"go/constant"
	"go/token"
	"go/types"
	"sort"
	"strings"

	"golang.org/x/tools/go/ssa"
)

// AV is an abstract value of the path executor.
type AV interface{ avKey() string }

// Num: an integer given as a polynomial over symbols.
type Num struct{ P Poly }

// Konst: a non-integer constant (string, bool, float, nil).
type Konst struct {
	V constant.Value // nil for the nil constant
	T types.Type
}

// Origin says that a value is the entry content of a field of an extern object
// (e.g. the receiver's bitW field): used to identify sinks and tables by field object.
type Origin struct {
	Obj   *Obj
	Path  string
	Field *types.Var // innermost field
}

// Opaque: a value the executor does not interpret; K is a canonical name
// (structurally equal expressions get equal names).
type Opaque struct {
	K    string
	T    types.Type
	Org  *Origin
	Sink string // non-empty: this value is a byte sink (or a writer wrapping it)
}

// Ptr: pointer into modelled memory.
type Ptr struct {
	Obj  *Obj
	Path string
}

// OPtr: pointer into memory that is not modelled (element of an opaque slice,
// field behind an opaque pointer). Root is the symbol the memory hangs off.
type OPtr struct {
	K    string
	Root string
	T    types.Type // pointee type
}

// StructV: a struct value, field by field.
type StructV struct {
	T types.Type
	F []AV
}

// appendInfo remembers that a slice value is append(Base, Elems...).
type appendInfo struct {
	BaseK   string
	BaseLen Poly
	Elems   []AV // nil if the appended elements are not individually known
	N       Poly // number of appended elements
	Instr   ssa.Instruction
}

// SliceV: a slice value with symbolic length. Arr != nil when the backing array is modelled.
type SliceV struct {
	K   string
	Len Poly
	Arr *Obj
	Org *Origin
	App *appendInfo
	T   types.Type
}

// MapV: a map value.
type MapV struct {
	K   string
	Org *Origin
	T   types.Type
	New ssa.Instruction // MakeMap that created it (nil if not local)
}

// Cond: a boolean that is a comparison of polynomials (P op 0) or an opaque condition.
type Cond struct {
	K   string // canonical key of the positive form
	P   Poly   // lhs - rhs, valid if Op != ILLEGAL
	Op  token.Token
	Neg bool
}

// Tuple: multiple results.
type Tuple struct{ E []AV }

func (n Num) avKey() string { return n.P.key() }
func (k Konst) avKey() string {
	if k.V == nil {
		return "nil"
	}
	return k.V.ExactString()
}
func (o Opaque) avKey() string { return o.K }
func (p Ptr) avKey() string    { return "&" + p.Obj.ID + p.Path }
func (p OPtr) avKey() string   { return p.K }
func (s StructV) avKey() string {
	parts := make([]string, len(s.F))
	for i, f := range s.F {
		if f == nil {
			parts[i] = "_"
		} else {
			parts[i] = f.avKey()
		}
	}
	return "{" + strings.Join(parts, ",") + "}"
}
func (s SliceV) avKey() string { return s.K }
func (m MapV) avKey() string   { return m.K }
func (c Cond) avKey() string {
	if c.Neg {
		return "!(" + c.K + ")"
	}
	return c.K
}
func (t Tuple) avKey() string {
	parts := make([]string, len(t.E))
	for i, f := range t.E {
		parts[i] = f.avKey()
	}
	return "(" + strings.Join(parts, ",") + ")"
}

// Obj is a memory object.
type Obj struct {
	ID     string
	T      types.Type // type of the object (pointee)
	Extern bool       // exists before the analysed function starts (receiver)
	Opaque bool       // element cells are not modelled (make'd slices)
	Seq    int        // creation sequence number on its path
}

// memory: cells keyed by obj.ID + path. Cloned on fork.
type memory struct {
	cells map[string]AV
	// version counters: epoch per root symbol of unmodelled memory, bumped by stores / impure calls
	epoch map[string]int
	// version per extern cell for havoc naming
	ver map[string]int
}

func newMemory() *memory {
	return &memory{cells: map[string]AV{}, epoch: map[string]int{}, ver: map[string]int{}}
}

func (m *memory) clone() *memory {
	n := &memory{cells: make(map[string]AV, len(m.cells)), epoch: make(map[string]int, len(m.epoch)), ver: make(map[string]int, len(m.ver))}
	for k, v := range m.cells {
		n.cells[k] = v
	}
	for k, v := range m.epoch {
		n.epoch[k] = v
	}
	for k, v := range m.ver {
		n.ver[k] = v
	}
	return n
}

func isIntType(t types.Type) bool {
	b, ok := t.Underlying().(*types.Basic)
	return ok && b.Info()&types.IsInteger != 0
}

func deref(t types.Type) types.Type {
	if p, ok := t.Underlying().(*types.Pointer); ok {
		return p.Elem()
	}
	return t
}

// subType returns the type at a one-step path component below t.
func fieldType(t types.Type, i int) (types.Type, *types.Var) {
	st, ok := t.Underlying().(*types.Struct)
	if !ok || i >= st.NumFields() {
		return nil, nil
	}
	return st.Field(i).Type(), st.Field(i)
}

// entryValue builds the symbolic entry content of an extern cell.
func entryValue(obj *Obj, path string, t types.Type, fld *types.Var, ver int) AV {
	name := obj.ID + path
	if fld != nil && strings.Count(path, ".") == 1 && !strings.Contains(path, "[") {
		name = obj.ID + "." + fld.Name()
	}
	if ver > 0 {
		name = fmt.Sprintf("%s@%d", name, ver)
	}
	org := &Origin{Obj: obj, Path: path, Field: fld}
	switch u := t.Underlying().(type) {
	case *types.Basic:
		if u.Info()&types.IsInteger != 0 {
			return Num{psym(name)}
		}
		return Opaque{K: name, T: t, Org: org}
	case *types.Slice:
		return SliceV{K: name, Len: psym("len(" + name + ")"), Org: org, T: t}
	case *types.Map:
		return MapV{K: name, Org: org, T: t}
	case *types.Struct:
		sv := StructV{T: t, F: make([]AV, u.NumFields())}
		for i := 0; i < u.NumFields(); i++ {
			sv.F[i] = entryValue(obj, fmt.Sprintf("%s.%d", path, i), u.Field(i).Type(), u.Field(i), ver)
		}
		return sv
	}
	return Opaque{K: name, T: t, Org: org}
}

// zeroValue builds the zero value of t.
func zeroValue(t types.Type) AV {
	switch u := t.Underlying().(type) {
	case *types.Basic:
		if u.Info()&types.IsInteger != 0 {
			return Num{}
		}
		if u.Info()&types.IsBoolean != 0 {
			return Konst{V: constant.MakeBool(false), T: t}
		}
		if u.Info()&types.IsString != 0 {
			return Konst{V: constant.MakeString(""), T: t}
		}
		if u.Info()&types.IsFloat != 0 {
			return Konst{V: constant.MakeFloat64(0), T: t}
		}
		return Opaque{K: "zero:" + t.String(), T: t}
	case *types.Slice:
		return SliceV{K: "nil:" + t.String(), T: t}
	case *types.Struct:
		sv := StructV{T: t, F: make([]AV, u.NumFields())}
		for i := 0; i < u.NumFields(); i++ {
			sv.F[i] = zeroValue(u.Field(i).Type())
		}
		return sv
	case *types.Array:
		return Opaque{K: "zero:" + t.String(), T: t}
	}
	return Konst{V: nil, T: t}
}

// fieldOfAV projects field i out of a struct-typed abstract value.
func fieldOfAV(v AV, t types.Type, i int) AV {
	ft, _ := fieldType(t, i)
	switch x := v.(type) {
	case StructV:
		if i < len(x.F) && x.F[i] != nil {
			return x.F[i]
		}
	case Opaque:
		k := fmt.Sprintf("%s.%d", x.K, i)
		return opaqueOfType(k, ft)
	}
	if ft == nil {
		return Opaque{K: fmt.Sprintf("%s.%d", v.avKey(), i)}
	}
	return opaqueOfType(fmt.Sprintf("%s.%d", v.avKey(), i), ft)
}

// opaqueOfType makes an uninterpreted value of type t named k, shaped by type so
// that lengths and integer arithmetic remain expressible.
func opaqueOfType(k string, t types.Type) AV {
	if t == nil {
		return Opaque{K: k}
	}
	switch u := t.Underlying().(type) {
	case *types.Basic:
		if u.Info()&types.IsInteger != 0 {
			return Num{psym(k)}
		}
	case *types.Slice:
		return SliceV{K: k, Len: psym("len(" + k + ")"), T: t}
	case *types.Map:
		return MapV{K: k, T: t}
	case *types.Tuple:
		tp := Tuple{E: make([]AV, u.Len())}
		for i := 0; i < u.Len(); i++ {
			tp.E[i] = opaqueOfType(fmt.Sprintf("%s#%d", k, i), u.At(i).Type())
		}
		return tp
	}
	return Opaque{K: k, T: t}
}

// read returns the content of (obj,path) whose type is t.
func (m *memory) read(obj *Obj, path string, t types.Type, fld *types.Var) AV {
	if v, ok := m.cells[obj.ID+path]; ok {
		return v
	}
	// a prefix may hold a whole value
	for p := path; p != ""; {
		cut := strings.LastIndexAny(p, ".[")
		if cut < 0 {
			break
		}
		p = p[:cut]
		if v, ok := m.cells[obj.ID+p]; ok {
			return projectPath(v, path[len(p):])
		}
	}
	// an aggregate whose parts were written separately
	if st, ok := t.Underlying().(*types.Struct); ok {
		sv := StructV{T: t, F: make([]AV, st.NumFields())}
		for i := 0; i < st.NumFields(); i++ {
			sv.F[i] = m.read(obj, fmt.Sprintf("%s.%d", path, i), st.Field(i).Type(), st.Field(i))
		}
		return sv
	}
	if obj.Extern {
		return entryValue(obj, path, t, fld, m.ver[obj.ID+path])
	}
	if obj.Opaque {
		return opaqueOfType(fmt.Sprintf("load(%s%s)#%d", obj.ID, path, m.epoch[obj.ID]), t)
	}
	return zeroValue(t)
}

// projectPath descends a whole value along a path suffix like ".2.0" or "[1]".
func projectPath(v AV, suffix string) AV {
	for suffix != "" {
		if suffix[0] == '.' {
			end := 1
			for end < len(suffix) && suffix[end] != '.' && suffix[end] != '[' {
				end++
			}
			var i int
			fmt.Sscanf(suffix[1:end], "%d", &i)
			var t types.Type
			switch x := v.(type) {
			case StructV:
				t = x.T
			case Opaque:
				t = x.T
			}
			if t == nil {
				return Opaque{K: v.avKey() + suffix}
			}
			v = fieldOfAV(v, t, i)
			suffix = suffix[end:]
			continue
		}
		// index component
		end := strings.IndexByte(suffix, ']')
		if end < 0 {
			break
		}
		v = Opaque{K: v.avKey() + suffix[:end+1]}
		suffix = suffix[end+1:]
	}
	return v
}

// write stores v at (obj,path); sub-cells are invalidated, and a whole value held
// by a prefix is exploded first so that sibling fields survive.
func (m *memory) write(obj *Obj, path string, v AV) {
	base := obj.ID + path
	for k := range m.cells {
		if len(k) > len(base) && strings.HasPrefix(k, base) && (k[len(base)] == '.' || k[len(base)] == '[') {
			delete(m.cells, k)
		}
	}
	// explode prefixes
	for p := path; p != ""; {
		cut := strings.LastIndexAny(p, ".[")
		if cut < 0 {
			break
		}
		p = p[:cut]
		if pv, ok := m.cells[obj.ID+p]; ok {
			delete(m.cells, obj.ID+p)
			m.explode(obj, p, pv)
		}
	}
	m.cells[base] = v
}

func (m *memory) explode(obj *Obj, path string, v AV) {
	switch x := v.(type) {
	case StructV:
		for i, f := range x.F {
			if f != nil {
				m.cells[fmt.Sprintf("%s%s.%d", obj.ID, path, i)] = f
			}
		}
	case Opaque:
		if st, ok := x.T.Underlying().(*types.Struct); x.T != nil && ok {
			for i := 0; i < st.NumFields(); i++ {
				m.cells[fmt.Sprintf("%s%s.%d", obj.ID, path, i)] = fieldOfAV(x, x.T, i)
			}
		}
	}
}

// sortedKeys is a tiny helper for deterministic iteration.
func sortedKeys[V any](m map[string]V) []string {
	out := make([]string, 0, len(m))
	for k := range m {
		out = append(out, k)
	}
	sort.Strings(out)
	return out
}
