package c06

import (
	"go/types"
	"sort"

	"golang.org/x/tools/go/ssa"

	"polycheck/ssau"
)

// checkBitlibTable cross-checks bitlibSizes against the bodies of the bitlib.Writer
// methods in the module cache: each fixed-size method hands w.buf[:k] (or the whole
// 8-byte w.buf) to the underlying io.Writer exactly once.
func (w *world) checkBitlibTable() {
	sp := w.c.P.DepSSAPkg(bitlibPath)
	if sp == nil {
		w.c.R.Failf("anchor: dependency package %s not loaded", bitlibPath)
		return
	}
	obj := sp.Pkg.Scope().Lookup("Writer")
	if obj == nil {
		w.c.R.Failf("anchor: %s.Writer not found", bitlibPath)
		return
	}
	named := obj.Type().(*types.Named)
	// size of the scratch buffer: make([]byte, N) in NewWriter
	scratch := int64(-1)
	if nw := sp.Func("NewWriter"); nw != nil {
		ssau.AllInstrs(nw, func(in ssa.Instruction) {
			if ms, ok := in.(*ssa.MakeSlice); ok {
				if n, ok := ssau.ConstInt(ms.Len); ok {
					scratch = n
				}
			}
			if al, ok := in.(*ssa.Alloc); ok {
				if at, ok := deref(al.Type()).Underlying().(*types.Array); ok {
					if b, ok := at.Elem().Underlying().(*types.Basic); ok && b.Kind() == types.Uint8 {
						scratch = at.Len()
					}
				}
			}
		})
	}
	names := make([]string, 0, len(bitlibSizes))
	for n := range bitlibSizes {
		names = append(names, n)
	}
	sort.Strings(names)
	checked := 0
	for _, name := range names {
		want := bitlibSizes[name].n
		var fn *ssa.Function
		for i := 0; i < named.NumMethods(); i++ {
			if named.Method(i).Name() == name {
				fn = w.c.P.SSA.FuncValue(named.Method(i))
			}
		}
		if fn == nil || fn.Blocks == nil {
			continue // method absent in this version: the executor would not meet it either
		}
		got := int64(-1)
		n := 0
		ssau.AllInstrs(fn, func(in ssa.Instruction) {
			call, ok := in.(ssa.CallInstruction)
			if !ok || !call.Common().IsInvoke() || call.Common().Method.Name() != "Write" {
				return
			}
			n++
			switch arg := call.Common().Args[0].(type) {
			case *ssa.Slice:
				if arg.High != nil {
					if h, ok := ssau.ConstInt(arg.High); ok {
						got = h
					}
				} else if arr, ok := arg.X.Type().Underlying().(*types.Pointer); ok {
					if at, ok := arr.Elem().Underlying().(*types.Array); ok {
						got = at.Len()
					}
				}
			case *ssa.UnOp: // the whole scratch buffer
				got = scratch
			}
		})
		if n != 1 || got != want {
			w.c.R.Failf("bitlib.Writer.%s: the size table says %d bytes, the method body hands %d bytes to the writer in %d Write call(s)", name, want, got, n)
			continue
		}
		checked++
	}
	w.c.R.Extra["bitlib_methods_cross_checked"] = checked
	if checked < 6 {
		w.c.R.Failf("vacuity: only %d bitlib.Writer methods could be cross-checked against their bodies", checked)
	}
}
