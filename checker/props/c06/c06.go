// Package c06: glTF/GLB output is structurally loadable and carries exactly the scene data
// (structural clauses decided on source; DESIGN.md section 4, C06).
package c06

import (
	"fmt"
	"os"
	"sort"
	"time"

	"golang.org/x/tools/go/ssa"

	"polycheck/props"
)

func init() {
	props.Register(&props.Prop{
		ID: "C06",
		Explanation: "Structural clauses of the glTF/GLB writer, decided on formats/gltf's current source. A path-wise symbolic execution " +
			"(values = integer polynomials over entry values, Len()/len() results and pad4() terms; counted loops summarised as trip count × " +
			"per-iteration effect; small helpers inlined; component-type parameters specialised to the constants that reach them) of every function " +
			"that appends payload bytes, advances Writer.bytesWritten or records indices gives: SYM-BYTES (bytes appended = amount added to the counter, " +
			"per function, path and component type; no unaccounted bytes at returns, loop boundaries and calls), VIEW-1 (bufferView offset/length, accessor→view " +
			"index, count·components·size = view length, scalar wire type = componentType), ALIGN-1 (views start and the counter ends on 4-byte boundaries), " +
			"GLB-1 (12-byte header constants, total length = bytes written on each path, chunk length = data + padding ≡ 0 mod 4, padding bytes 0x20/0x00, chunk order, " +
			"little-endian), REF-1/DEDUP-1 (an index derived from len(w.X) that is stored, recorded in a dedup table or returned is the position of an element " +
			"appended on the same path; table key = looked-up key; appended entries are recorded; looked-up indices used unmodified), DEDUP-2 (a constant \"absent\" marker in a " +
			"dedup key lies outside the interval of the computed indices that can stand in the same field, or another key field separates the two; no negative sentinel reaches a glTF id slot). Def-use / dominance rules give: " +
			"WIDTH-1 (uint16 indices guarded by the vertex count of the same mesh), EXT-1/EXT-2 (extensions stored are declared used, required ⊆ used), SINK-1/BUF-1/OUT-1 " +
			"(bit writer wraps the payload buffer little-endian; buffer.byteLength = counter, data URI = StdEncoding of the payload, embedding strategy per container, " +
			"extension lists from the matching sets), AXIS-3/SRC-1/MINMAX-1 (components in X,Y,Z,W order; element i of the iterator whose Len() bounds the loop; min/max are " +
			"Min/Max reductions over the written values), ATTR-1/XFORM-1/SEM-1 (one mesh per primitive, key/type/data follow one attribute name; node and instance transforms " +
			"come from the model's fields of the same meaning; semantic and component-type tables and primitive.mode agree with the glTF 2.0 specification). " +
			"Necessary conditions of C06; does not decide min/max values, JSON validity, numeric transform values, equal()-based dedup semantics, skins/animations beyond byte accounting.",
		Assumptions: []string{
			"integer conversions are identities (no overflow); lengths and Len() results are non-negative",
			"pure accessor calls (Len(), Frames(), JointCount(), Size()) return the same value when repeated on the same receiver within one activation",
			"byte sizes of github.com/EliCDavis/bitlib@v1.2.0 Writer methods are read from a table that is cross-checked against the method bodies in the module cache",
			"payload writes are assumed to succeed (a failing io.Writer is outside the property)",
		},
		Controls: controls,
		Run:      run,
	})
}

func run(c *props.Ctx) {
	w := newWorld(c)
	if !w.ok {
		return
	}
	a := newAgg(c)
	stats := &counters{}

	t0 := time.Now()
	lap := func(what string) {
		if os.Getenv("C06_DEBUG") != "" {
			fmt.Fprintf(os.Stderr, "lap %-12s %.2fs\n", what, time.Since(t0).Seconds())
		}
		t0 = time.Now()
	}
	w.checkBitlibTable()
	lap("bitlib")
	w.ruleBytes(a, stats)
	lap("bytes")
	w.ruleGLB(a, stats)
	lap("glb")
	w.ruleWidth(a)
	w.ruleSink(a)
	w.ruleBuf(a)
	w.ruleExt(a)
	lap("flow")
	w.ruleRef(a, stats)
	lap("ref")
	w.ruleAxis(a)
	w.ruleMinMax(a)
	w.ruleSrc(a)
	lap("data")
	w.ruleXform(a)
	w.ruleAttr(a)
	w.ruleOut(a)
	w.ruleSem(a)
	lap("scene")
	w.ruleInst(a)
	w.ruleInst2(a)
	w.ruleTRS(a)
	w.ruleEq(a, stats)
	lap("eq")

	a.flush()
	c.R.Extra["functions_analysed"] = len(w.fns)
	c.R.Extra["symbolic_roots"] = stats.roots
	c.R.Extra["symbolic_cases"] = stats.cases
	c.R.Extra["symbolic_paths"] = stats.paths
	c.R.Extra["symbolic_steps"] = stats.steps
	w.reportControls(a)
}

// ruleBytes: SYM-BYTES / VIEW-1 / ALIGN-1 over every function that advances the
// counter, and "no unaccounted bytes" over every other writer function that can reach a byte sink.
func (w *world) ruleBytes(a *agg, stats *counters) {
	var syncFns, others []*ssa.Function
	helpers := 0
	for _, fn := range w.all {
		if fn.Blocks == nil || !w.hasWriterParam(fn) {
			continue
		}
		within := w.fns
		if w.c.P.IsControl(fn.Pos()) {
			within = w.all
		}
		switch {
		case w.isSync(fn) && w.syncRoot(fn, within):
			syncFns = append(syncFns, fn)
		case w.isSync(fn):
			// a helper that advances the counter for callers that append the bytes: judged inlined into them
			helpers++
		case w.inline(fn):
			// raw writers are analysed inlined into their callers
		case w.closure(fn).sinkCall:
			others = append(others, fn)
		}
	}
	nSync := 0
	for _, fn := range w.fns {
		if w.isSync(fn) {
			nSync++
		}
	}
	for _, fn := range syncFns {
		isCtl := w.c.P.IsControl(fn.Pos())
		stats.roots++
		// component-type parameters are specialised to the constants that reach them
		var ctParams []*ssa.Parameter
		for _, p := range fn.Params {
			if w.compType != nil && p.Type() == w.compType.Obj().Type() {
				ctParams = append(ctParams, p)
			}
		}
		if len(ctParams) != 1 {
			stats.cases++
			w.checkSyncFunction(a, fn, nil, "", stats)
			continue
		}
		pi := 0
		for i, p := range fn.Params {
			if p == ctParams[0] {
				pi = i
			}
		}
		callers := w.fns
		if isCtl {
			callers = w.all
		}
		vals, complete := w.caseSet(fn, pi, callers)
		if !complete && !isCtl {
			w.c.R.Note("%s: component type argument is not a constant at every call site; all declared component types are analysed", w.c.P.FuncName(fn))
		}
		for _, v := range vals {
			stats.cases++
			name := gltfCompName[v]
			if name == "" {
				name = w.compVals[v]
			}
			w.checkSyncFunction(a, fn, map[*ssa.Parameter]AV{ctParams[0]: Num{pconst(v)}}, name, stats)
		}
	}
	sort.Slice(others, func(i, j int) bool { return others[i].Pos() < others[j].Pos() })
	for _, fn := range others {
		stats.roots++
		stats.cases++
		w.checkSyncFunction(a, fn, nil, "", stats)
	}
	w.c.R.Extra["sync_functions"] = nSync
	w.c.R.Extra["sync_helpers_judged_inlined"] = helpers
	if nSync < 5 {
		w.c.R.Failf("vacuity: only %d functions advance Writer.bytesWritten (expected ≥ 5: WriteVector4/3/2, WriteIndices, AddSkin, AddAnimations)", nSync)
	}
	w.c.R.Floor("SYM-BYTES", 7)
	w.c.R.Floor("VIEW-1", 6)
	w.c.R.Floor("ALIGN-1", 6)
}
