// Package c06: glTF/GLB output is structurally loadable and carries exactly the scene data
// (structural clauses decided on source; DESIGN.md section 4, C06).
package c06

import (
	"fmt"
	"os"
	"sort"
	"time"

	"golang.org/x/tools/go/ssa"

	"polycheck/props"
)

func init() {
	props.Register(&props.Prop{
		ID: "C06",
		Explanation: "Structural clauses of the glTF/GLB writer, decided on formats/gltf's source by a path-wise symbolic (polynomial) " +
			"execution of every function that appends payload bytes or advances the running offset, plus dominance/def-use rules: " +
			"SYM-BYTES (bytes appended to the payload = amount added to bytesWritten, per function, path and component type), " +
			"VIEW-1 (bufferView offset/length and accessor index/count/type/componentType pairing), ALIGN-1 (every advance is a multiple of 4), " +
			"GLB-1 (container length law, chunk lengths, padding, magic numbers), WIDTH-1 (uint16 indices are guarded by the vertex count), " +
			"EXT-1 (extensions in use are declared), DEDUP-1 (dedup tables store the index of the appended entry under the looked-up key), " +
			"BUF-1/SINK-1 (buffer byteLength, payload and data URI come from the same counter and buffer). " +
			"Necessary conditions of C06; does not decide min/max values, JSON validity, transform values, or equality-based dedup semantics.",
		Assumptions: []string{
			"integer conversions are identities (no overflow); lengths and Len() results are non-negative",
			"pure accessor calls (Len(), Frames(), JointCount(), Size()) return the same value when repeated on the same receiver within one activation",
			"byte sizes of github.com/EliCDavis/bitlib@v1.2.0 Writer methods are read from a table that is cross-checked against the method bodies in the module cache",
			"payload writes are assumed to succeed (a failing io.Writer is outside the property)",
		},
		Controls: controls,
		Run:      run,
	})
}

func run(c *props.Ctx) {
	w := newWorld(c)
	if !w.ok {
		return
	}
	a := newAgg(c)
	stats := &counters{}

	t0 := time.Now()
	lap := func(what string) {
		if os.Getenv("C06_DEBUG") != "" {
			fmt.Fprintf(os.Stderr, "lap %-12s %.2fs\n", what, time.Since(t0).Seconds())
		}
		t0 = time.Now()
	}
	w.checkBitlibTable()
	lap("bitlib")
	w.ruleBytes(a, stats)
	lap("bytes")
	w.ruleGLB(a, stats)
	lap("glb")
	w.ruleWidth(a)
	w.ruleSink(a)
	w.ruleBuf(a)
	w.ruleExt(a)
	lap("flow")
	w.ruleRef(a, stats)
	lap("ref")
	w.ruleAxis(a)
	w.ruleMinMax(a)
	w.ruleSrc(a)
	lap("data")

	a.flush()
	c.R.Extra["functions_analysed"] = len(w.fns)
	c.R.Extra["symbolic_roots"] = stats.roots
	c.R.Extra["symbolic_cases"] = stats.cases
	c.R.Extra["symbolic_paths"] = stats.paths
	c.R.Extra["symbolic_steps"] = stats.steps
	w.reportControls(a)
}

// ruleBytes: SYM-BYTES / VIEW-1 / ALIGN-1 over every function that advances the
// counter, and "no unaccounted bytes" over every other writer function that can reach a byte sink.
func (w *world) ruleBytes(a *agg, stats *counters) {
	var syncFns, others []*ssa.Function
	helpers := 0
	for _, fn := range w.all {
		if fn.Blocks == nil || !w.hasWriterParam(fn) {
			continue
		}
		within := w.fns
		if w.c.P.IsControl(fn.Pos()) {
			within = w.all
		}
		switch {
		case w.isSync(fn) && w.syncRoot(fn, within):
			syncFns = append(syncFns, fn)
		case w.isSync(fn):
			// a helper that advances the counter for callers that append the bytes: judged inlined into them
			helpers++
		case w.inline(fn):
			// raw writers are analysed inlined into their callers
		case w.closure(fn).sinkCall:
			others = append(others, fn)
		}
	}
	nSync := 0
	for _, fn := range syncFns {
		isCtl := w.c.P.IsControl(fn.Pos())
		if !isCtl {
			nSync++
		}
		stats.roots++
		// component-type parameters are specialised to the constants that reach them
		var ctParams []*ssa.Parameter
		for _, p := range fn.Params {
			if w.compType != nil && p.Type() == w.compType.Obj().Type() {
				ctParams = append(ctParams, p)
			}
		}
		if len(ctParams) != 1 {
			stats.cases++
			w.checkSyncFunction(a, fn, nil, "", stats)
			continue
		}
		pi := 0
		for i, p := range fn.Params {
			if p == ctParams[0] {
				pi = i
			}
		}
		callers := w.fns
		if isCtl {
			callers = w.all
		}
		vals, complete := w.caseSet(fn, pi, callers)
		if !complete && !isCtl {
			w.c.R.Note("%s: component type argument is not a constant at every call site; all declared component types are analysed", w.c.P.FuncName(fn))
		}
		for _, v := range vals {
			stats.cases++
			name := gltfCompName[v]
			if name == "" {
				name = w.compVals[v]
			}
			w.checkSyncFunction(a, fn, map[*ssa.Parameter]AV{ctParams[0]: Num{pconst(v)}}, name, stats)
		}
	}
	sort.Slice(others, func(i, j int) bool { return others[i].Pos() < others[j].Pos() })
	for _, fn := range others {
		stats.roots++
		stats.cases++
		w.checkSyncFunction(a, fn, nil, "", stats)
	}
	w.c.R.Extra["sync_functions"] = nSync
	w.c.R.Extra["sync_helpers_judged_inlined"] = helpers
	if nSync < 5 {
		w.c.R.Failf("vacuity: only %d functions advance Writer.bytesWritten (expected ≥ 5: WriteVector4/3/2, WriteIndices, AddSkin, AddAnimations)", nSync)
	}
	w.c.R.Floor("SYM-BYTES", 8)
	w.c.R.Floor("VIEW-1", 8)
	w.c.R.Floor("ALIGN-1", 8)
}
