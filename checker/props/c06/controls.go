package c06

import (
	"polycheck/ob"
)

const controlFile = "formats/gltf/zz_verif_control_c06.go"

// controls: positive (…Bad) and negative (…Good) self-test functions, type-checked inside
// package gltf. Every rule must report its Bad control and stay silent on its Good control.
func controls() map[string]string {
	return map[string]string{controlFile: `package gltf

import (
	"bytes"
	"encoding/base64"
	"encoding/binary"
	"encoding/json"
	"io"
	"math"

	"github.com/EliCDavis/bitlib"
	"github.com/EliCDavis/iter"
	"github.com/EliCDavis/polyform/math/trs"
	"github.com/EliCDavis/polyform/modeling"
	"github.com/EliCDavis/vector/vector3"
)

// ---- SYM-BYTES / VIEW-1 / ALIGN-1

// must fire: 12 bytes per element appended, counter advanced by 8 per element; offset read after the advance;
// accessor points one view too far; 2-byte tail leaves the counter misaligned
func (w *Writer) verifControlBytesBad(data *iter.ArrayIterator[vector3.Float64]) {
	for i := 0; i < data.Len(); i++ {
		w.WriteVector3AsFloat32(data.At(i))
	}
	size := data.Len() * 8
	w.bytesWritten += size
	w.accessors = append(w.accessors, Accessor{
		BufferView:    ptrI(len(w.bufferViews) + 1),
		ComponentType: AccessorComponentType_FLOAT,
		Type:          AccessorType_VEC3,
		Count:         data.Len(),
	})
	w.bufferViews = append(w.bufferViews, BufferView{ByteOffset: w.bytesWritten, ByteLength: size})
	w.bitW.UInt16(7)
	w.bytesWritten += 2
}

// must stay silent: hoisted length, view appended first, explicit padding, helper for the tail
func (w *Writer) verifControlBytesGood(data *iter.ArrayIterator[vector3.Float64], tail []uint16) {
	n := data.Len()
	start := w.bytesWritten
	for i := 0; i < n; i++ {
		v := data.At(i)
		w.WriteVector3AsFloat32(v)
	}
	w.bufferViews = append(w.bufferViews, BufferView{Buffer: 0, ByteOffset: start, ByteLength: n * 12, Target: ARRAY_BUFFER})
	w.accessors = append(w.accessors, Accessor{
		BufferView:    ptrI(len(w.bufferViews) - 1),
		ComponentType: AccessorComponentType_FLOAT,
		Type:          AccessorType_VEC3,
		Count:         n,
	})
	w.bytesWritten = start + n*12

	for _, t := range tail {
		w.bitW.UInt16(t)
	}
	tailBytes := 2 * len(tail)
	w.accessors = append(w.accessors, Accessor{
		BufferView:    ptrI(len(w.bufferViews)),
		ComponentType: AccessorComponentType_UNSIGNED_SHORT,
		Type:          AccessorType_SCALAR,
		Count:         len(tail),
	})
	w.bufferViews = append(w.bufferViews, BufferView{ByteOffset: w.bytesWritten, ByteLength: tailBytes, Target: ELEMENT_ARRAY_BUFFER})
	w.bytesWritten += tailBytes
	w.verifControlPad(tailBytes)
}

func (w *Writer) verifControlPad(n int) {
	pad := (4 - n%4) % 4
	for i := 0; i < pad; i++ {
		w.bitW.Byte(0)
	}
	w.bytesWritten += pad
}

// ---- GLB-1

// must fire: chunk length without padding, total short by 4, BIN padded with spaces
func (w Writer) verifControlGLBBad(out io.Writer) error {
	js, err := json.Marshal(w.ToGLTF(BufferEmbeddingStrategy_GLB))
	if err != nil {
		return err
	}
	jp := (4 - len(js)%4) % 4
	bin := w.buf.Bytes()
	bp := (4 - len(bin)%4) % 4
	bw := bitlib.NewWriter(out, binary.LittleEndian)
	bw.UInt32(0x46546C67)
	bw.UInt32(2)
	bw.UInt32(uint32(12 + 8 + len(js) + jp + 4 + len(bin) + bp))
	bw.UInt32(uint32(len(js)))
	bw.UInt32(0x4E4F534A)
	bw.ByteArray(js)
	for i := 0; i < jp; i++ {
		bw.Byte(0x20)
	}
	bw.UInt32(uint32(len(bin) + bp))
	bw.UInt32(0x004E4942)
	bw.ByteArray(bin)
	for i := 0; i < bp; i++ {
		bw.Byte(0x20)
	}
	return bw.Error()
}

// must stay silent: round-up idioms, if/else total, early exit without BIN
func (w Writer) verifControlGLBGood(out io.Writer) error {
	js, err := json.Marshal(w.ToGLTF(BufferEmbeddingStrategy_GLB))
	if err != nil {
		return err
	}
	jl := (len(js) + 3) / 4 * 4
	bin := w.buf.Bytes()
	bl := (len(bin) + 3) &^ 3
	bw := bitlib.NewWriter(out, binary.LittleEndian)
	bw.UInt32(0x46546C67)
	bw.UInt32(2)
	if len(bin) == 0 {
		bw.UInt32(uint32(20 + jl))
	} else {
		bw.UInt32(uint32(28 + jl + bl))
	}
	bw.UInt32(uint32(jl))
	bw.UInt32(0x4E4F534A)
	bw.ByteArray(js)
	for i := len(js); i < jl; i++ {
		bw.Byte(' ')
	}
	if len(bin) == 0 {
		return bw.Error()
	}
	bw.UInt32(uint32(bl))
	bw.UInt32(0x004E4942)
	bw.ByteArray(bin)
	for i := 0; i < bl-len(bin); i++ {
		bw.Byte(0)
	}
	return bw.Error()
}

// ---- WIDTH-1

func (w *Writer) verifControlWidthBad(indices *iter.ArrayIterator[int], vertices int) {
	if vertices > math.MaxUint16*2 {
		return
	}
	for i := 0; i < indices.Len(); i++ {
		w.bitW.UInt16(uint16(indices.At(i)))
	}
	w.bytesWritten += 2 * indices.Len()
}

func (w *Writer) verifControlWidthGood(indices *iter.ArrayIterator[int], vertices int) {
	if vertices <= 1<<16 {
		for i := 0; i < indices.Len(); i++ {
			w.bitW.UInt16(uint16(indices.At(i)))
		}
		w.bytesWritten += 2 * indices.Len()
	}
}

func (w *Writer) verifControlWidthCaller(m modeling.Mesh) {
	w.verifControlWidthBad(m.Indices(), m.AttributeLength())
	w.verifControlWidthGood(m.Indices(), m.AttributeLength())
}

// ---- EXT-1 / EXT-2

func (w *Writer) verifControlExtBad(n *Node, required bool) {
	n.Extensions = map[string]any{"VERIF_bad": 1}
	if required {
		w.extensionsRequired["VERIF_bad"] = true
	}
}

func (w *Writer) verifControlExtGood(n *Node, id string, required bool) {
	if n.Extensions == nil {
		n.Extensions = make(map[string]any)
	}
	n.Extensions[id] = 1
	if required {
		w.extensionsRequired[id] = true
	}
	w.extensionsUsed[id] = true
}

// ---- REF-1 / DEDUP-1

func (w *Writer) verifControlRefBad(m *modeling.Mesh) int {
	key := meshEntry{m, -1}
	if i, ok := w.meshIndices[key]; ok {
		return i
	}
	idx := len(w.meshes) + 1
	w.meshIndices[meshEntry{m, 0}] = idx
	w.meshes = append(w.meshes, Mesh{})
	return idx
}

func (w *Writer) verifControlRefGood(m *modeling.Mesh) int {
	key := meshEntry{m, -1}
	if i, ok := w.meshIndices[key]; ok {
		return i
	}
	w.meshes = append(w.meshes, Mesh{})
	idx := len(w.meshes) - 1
	w.meshIndices[key] = idx
	return idx
}

// ---- DEDUP-2

func (w *Writer) verifControlSentinelBad(model PolyformModel) int {
	var mi *int
	if model.Material != nil {
		mi, _ = w.AddMaterial(model.Material)
	}
	key := meshEntry{polyMesh: model.Mesh} // "no material" = zero value = material 0
	if mi != nil {
		key.materialIndex = *mi
	}
	if i, ok := w.meshIndices[key]; ok {
		return i
	}
	idx := len(w.meshes)
	w.meshIndices[key] = idx
	w.meshes = append(w.meshes, Mesh{})
	return idx
}

func (w *Writer) verifControlSentinelGood(model PolyformModel) int {
	var mi *int
	if model.Material != nil {
		mi, _ = w.AddMaterial(model.Material)
	}
	key := meshEntry{polyMesh: model.Mesh, materialIndex: -1}
	if mi != nil {
		key.materialIndex = *mi
	}
	if i, ok := w.meshIndices[key]; ok {
		return i
	}
	idx := len(w.meshes)
	w.meshIndices[key] = idx
	w.meshes = append(w.meshes, Mesh{Primitives: []Primitive{{Material: mi}}})
	return idx
}

// ---- REF-2

func (w *Writer) verifControlRootBad(models []PolyformModel) {
	for i, m := range models {
		if m.Mesh == nil {
			continue
		}
		w.nodes = append(w.nodes, Node{Name: m.Name})
		w.scene = append(w.scene, i) // model counter, not the node's position
	}
}

func (w *Writer) verifControlRootGood(models []PolyformModel) {
	for i, m := range models {
		_ = i
		if m.Mesh == nil {
			continue
		}
		w.scene = append(w.scene, w.verifControlNext())
		w.nodes = append(w.nodes, Node{Name: m.Name})
	}
}

func (w *Writer) verifControlNext() int { return len(w.nodes) }

// ---- MINMAX-1 start values

func (w *Writer) verifControlStartBad(data *iter.ArrayIterator[vector3.Float64]) Accessor {
	max := vector3.Fill(math.SmallestNonzeroFloat64)
	for i := 0; i < data.Len(); i++ {
		v := data.At(i)
		max = vector3.Max(max, v)
		w.WriteVector3AsFloat32(v)
	}
	return Accessor{Max: []float64{max.X(), max.Y(), max.Z()}}
}

func (w *Writer) verifControlStartGood(data *iter.ArrayIterator[vector3.Float64], times []float64) Accessor {
	max := vector3.Fill(math.Inf(-1))
	lo := math.MaxFloat64
	for i := 0; i < data.Len(); i++ {
		v := data.At(i)
		max = vector3.Max(max, v)
		w.WriteVector3AsFloat32(v)
	}
	for _, t := range times {
		if t < lo {
			lo = t
		}
		w.bitW.Float32(float32(t))
	}
	_ = lo
	return Accessor{Max: []float64{max.X(), max.Y(), max.Z()}, Min: []float64{lo}}
}

// ---- INST-1

func (w *Writer) verifControlInstBad(n *Node, list []trs.TRS) {
	if len(list) > 1 { // a single instance loses its transform
		n.Extensions = map[string]any{}
		n.Extensions[extGpuInstancingID] = ExtGpuInstancing{Attributes: map[string]int{}}
		w.extensionsUsed[extGpuInstancingID] = true
	}
}

func (w *Writer) verifControlInstGood(n *Node, list []trs.TRS) {
	if len(list) == 0 {
		return
	}
	n.Extensions = map[string]any{}
	n.Extensions[extGpuInstancingID] = ExtGpuInstancing{Attributes: map[string]int{}}
	w.extensionsUsed[extGpuInstancingID] = true
}

// ---- EQ-1

type verifControlEqT struct {
	A *float64
	B string
}

func (p *verifControlEqT) verifControlEqBad(o *verifControlEqT) bool {
	if p.A != nil && o.A != nil && *p.A != *o.A { // unset equals anything
		return false
	}
	return p.B == o.B
}

func (p *verifControlEqT) verifControlEqGood(o *verifControlEqT) bool {
	switch {
	case p.A == nil && o.A == nil:
	case p.A == nil || o.A == nil:
		return false
	case *p.A != *o.A:
		return false
	}
	return p.B == o.B
}

func verifControlEqUse(a, b *verifControlEqT) (bool, float64, string) {
	return a.verifControlEqBad(b) && a.verifControlEqGood(b), *a.A, a.B
}

// ---- INST-2 / TRS-1

func (w *Writer) verifControlFlagBad(list []trs.TRS) ExtGpuInstancing {
	ext := ExtGpuInstancing{Attributes: map[string]int{}}
	scaled := false
	for _, t := range list {
		scaled = t.Scale() != vector3.One[float64]() // only the last instance decides
	}
	if scaled {
		ext.Attributes["SCALE"] = len(w.accessors)
	}
	return ext
}

func (w *Writer) verifControlFlagGood(list []trs.TRS) ExtGpuInstancing {
	ext := ExtGpuInstancing{Attributes: map[string]int{}}
	scaled, allUnit := false, true
	for _, t := range list {
		scaled = scaled || t.Scale() != vector3.One[float64]()
		if t.Scale() != vector3.One[float64]() {
			allUnit = false
		}
	}
	if scaled {
		ext.Attributes["SCALE"] = len(w.accessors)
	}
	if !allUnit {
		ext.Attributes["ROTATION"] = len(w.accessors)
	}
	return ext
}

func verifControlTRSBad(n *Node, m PolyformModel) {
	if m.Scale != nil {
		arr := [3]float64{roundFloat(m.Scale.X(), 3), m.Scale.Y() * 1, m.Scale.Z()}
		n.Scale = &arr
	}
}

func verifControlTRSGood(n *Node, m PolyformModel) {
	if s := m.Scale; s != nil {
		arr := verifControlArr(*s)
		n.Scale = &arr
	}
}

func verifControlArr(v vector3.Float64) [3]float64 { return [3]float64{v.X(), v.Y(), v.Z()} }

// ---- SINK-1 / BUF-1

func verifControlSinkBad() *Writer {
	buf := &bytes.Buffer{}
	return &Writer{buf: buf, bitW: bitlib.NewWriter(&bytes.Buffer{}, binary.LittleEndian)}
}

func verifControlSinkGood() *Writer {
	b := new(bytes.Buffer)
	return &Writer{bitW: bitlib.NewWriter(b, binary.LittleEndian), buf: b}
}

func (w Writer) verifControlBufBad() Buffer {
	return Buffer{ByteLength: w.buf.Len() + 1, URI: "data:application/octet-stream;base64," + base64.URLEncoding.EncodeToString(w.buf.Bytes())}
}

func (w Writer) verifControlBufGood() Buffer {
	b := Buffer{ByteLength: w.bytesWritten}
	b.URI = "data:application/gltf-buffer;base64," + base64.StdEncoding.EncodeToString(w.buf.Bytes())
	return b
}

// ---- AXIS-3 / MINMAX-1 / SRC-1

func (w *Writer) verifControlDataBad(data *iter.ArrayIterator[vector3.Float64]) {
	min := vector3.Fill(math.MaxFloat64)
	max := vector3.Fill(-math.MaxFloat64)
	for i := 1; i < data.Len(); i++ {
		v := data.At(i)
		u := data.At(0)
		min = vector3.Max(min, u)
		max = vector3.Max(max, v)
		w.bitW.Float32(float32(v.X()))
		w.bitW.Float32(float32(v.Z()))
		w.bitW.Float32(float32(v.Y()))
	}
	w.accessors = append(w.accessors, Accessor{
		BufferView:    ptrI(len(w.bufferViews)),
		ComponentType: AccessorComponentType_FLOAT,
		Type:          AccessorType_VEC3,
		Count:         data.Len() - 1,
		Min:           []float64{min.X(), min.Z(), min.Y()},
		Max:           []float64{max.X(), max.Y(), max.Z()},
	})
	w.bufferViews = append(w.bufferViews, BufferView{ByteOffset: w.bytesWritten, ByteLength: (data.Len() - 1) * 12})
	w.bytesWritten += (data.Len() - 1) * 12
}

func (w *Writer) verifControlDataGood(data *iter.ArrayIterator[vector3.Float64]) {
	lo := vector3.Fill(math.MaxFloat64)
	hi := vector3.Fill(-math.MaxFloat64)
	n := data.Len()
	for k := 0; k < n; k++ {
		p := data.At(k)
		w.bitW.Float32(float32(p.X()))
		w.bitW.Float32(float32(p.Y()))
		w.bitW.Float32(float32(p.Z()))
		if p.ContainsNaN() {
			continue
		}
		hi = vector3.Max(hi, p)
		lo = vector3.Min(lo, p)
	}
	w.accessors = append(w.accessors, Accessor{
		BufferView:    ptrI(len(w.bufferViews)),
		ComponentType: AccessorComponentType_FLOAT,
		Type:          AccessorType_VEC3,
		Count:         n,
		Max:           []float64{hi.X(), hi.Y(), hi.Z()},
		Min:           []float64{lo.X(), lo.Y(), lo.Z()},
	})
	w.bufferViews = append(w.bufferViews, BufferView{ByteOffset: w.bytesWritten, ByteLength: n * 12})
	w.bytesWritten += n * 12
}
`}
}

type ctlCase struct {
	rule string
	fn   string
	want ob.Verdict
}

var ctlCases = []ctlCase{
	{"SYM-BYTES", "verifControlBytesBad", ob.Violation},
	{"VIEW-1", "verifControlBytesBad", ob.Violation},
	{"ALIGN-1", "verifControlBytesBad", ob.Violation},
	{"SYM-BYTES", "verifControlBytesGood", ob.Holds},
	{"VIEW-1", "verifControlBytesGood", ob.Holds},
	{"ALIGN-1", "verifControlBytesGood", ob.Holds},
	{"GLB-1", "verifControlGLBBad", ob.Violation},
	{"GLB-1", "verifControlGLBGood", ob.Holds},
	{"WIDTH-1", "verifControlWidthBad", ob.Violation},
	{"WIDTH-1", "verifControlWidthGood", ob.Holds},
	{"EXT-1", "verifControlExtBad", ob.Violation},
	{"EXT-2", "verifControlExtBad", ob.Violation},
	{"EXT-1", "verifControlExtGood", ob.Holds},
	{"EXT-2", "verifControlExtGood", ob.Holds},
	{"DEDUP-1", "verifControlRefBad", ob.Violation},
	{"REF-1", "verifControlRefBad", ob.Violation},
	{"DEDUP-1", "verifControlRefGood", ob.Holds},
	{"REF-1", "verifControlRefGood", ob.Holds},
	{"DEDUP-2", "verifControlSentinelBad", ob.Violation},
	{"DEDUP-2", "verifControlSentinelGood", ob.Holds},
	{"REF-2", "verifControlRootBad", ob.Violation},
	{"REF-2", "verifControlRootGood", ob.Holds},
	{"MINMAX-1", "verifControlStartBad", ob.Violation},
	{"MINMAX-1", "verifControlStartGood", ob.Holds},
	{"INST-1", "verifControlInstBad", ob.Violation},
	{"INST-1", "verifControlInstGood", ob.Holds},
	{"EQ-1", "verifControlEqBad", ob.Violation},
	{"EQ-1", "verifControlEqGood", ob.Holds},
	{"INST-2", "verifControlFlagBad", ob.Violation},
	{"INST-2", "verifControlFlagGood", ob.Holds},
	{"TRS-1", "verifControlTRSBad", ob.Violation},
	{"TRS-1", "verifControlTRSGood", ob.Holds},
	{"SINK-1", "verifControlSinkBad", ob.Violation},
	{"SINK-1", "verifControlSinkGood", ob.Holds},
	{"BUF-1", "verifControlBufBad", ob.Violation},
	{"BUF-1", "verifControlBufGood", ob.Holds},
	{"AXIS-3", "verifControlDataBad", ob.Violation},
	{"MINMAX-1", "verifControlDataBad", ob.Violation},
	{"SRC-1", "verifControlDataBad", ob.Violation},
	{"AXIS-3", "verifControlDataGood", ob.Holds},
	{"MINMAX-1", "verifControlDataGood", ob.Holds},
	{"SRC-1", "verifControlDataGood", ob.Holds},
	{"SYM-BYTES", "verifControlDataGood", ob.Holds},
	{"VIEW-1", "verifControlDataGood", ob.Holds},
}

func (w *world) reportControls(a *agg) {
	if len(w.c.P.Controls) == 0 {
		return // -no-controls
	}
	if len(w.ctl) == 0 {
		// the loader dropped the overlay (it no longer type-checks against this tree); a note was recorded
		return
	}
	for _, cc := range ctlCases {
		got := a.control(cc.rule, cc.fn)
		if got == "" {
			got = ob.Verdict("NOT-SEEN")
		}
		kind := "control:good"
		msg := "accepted idioms must stay silent"
		if cc.want == ob.Violation {
			kind = "control:bad"
			msg = "seeded defect must be reported"
		}
		w.c.R.Control(cc.rule, kind+":"+cc.fn, controlFile, got, cc.want, msg)
	}
}
