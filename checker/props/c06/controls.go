package c06

func controls() map[string]string {
	return map[string]string{}
}

func (w *world) reportControls(a *agg) {}
