package c06

import (
	"fmt"
	"go/constant"
	"go/types"
	"strings"

	"golang.org/x/tools/go/ssa"

	"polycheck/ssau"
)

const (
	bitlibPath = "github.com/EliCDavis/bitlib"
)

// bitlibSizes: bytes appended by each fixed-size method of bitlib.Writer and its wire kind.
// (Cross-checked against the method bodies in the module cache by checkBitlibTable.)
var bitlibSizes = map[string]struct {
	n    int64
	wire string
}{
	"Float64": {8, "f64"}, "Float32": {4, "f32"},
	"Int64": {8, "i64"}, "Int32": {4, "i32"}, "Int16": {2, "i16"},
	"UInt64": {8, "u64"}, "UInt32": {4, "u32"}, "UInt16": {2, "u16"},
	"Byte": {1, "u8"}, "WriteByte": {1, "u8"},
}

func (x *Exec) sinkOf(av AV) string {
	if o, ok := av.(Opaque); ok {
		if o.Sink != "" {
			return o.Sink
		}
		if o.Org != nil && o.Org.Field != nil {
			return x.cfg.SinkFields[o.Org.Field]
		}
	}
	return ""
}

func (x *Exec) containsSink(av AV) bool {
	switch v := av.(type) {
	case Opaque:
		return x.sinkOf(v) != ""
	case StructV:
		for _, f := range v.F {
			if f != nil && x.containsSink(f) {
				return true
			}
		}
	case Tuple:
		for _, f := range v.E {
			if x.containsSink(f) {
				return true
			}
		}
	}
	return false
}

func externPtr(av AV) *Obj {
	if p, ok := av.(Ptr); ok && p.Obj.Extern && p.Path == "" {
		return p.Obj
	}
	return nil
}

func lenOf(st *State, av AV) Poly {
	switch v := av.(type) {
	case SliceV:
		return v.Len
	case MapV:
		return psym(fmt.Sprintf("len(%s)#%d", v.K, st.mem.epoch[v.K]))
	case Konst:
		if v.V != nil && v.V.Kind() == constant.String {
			return pconst(int64(len(constant.StringVal(v.V))))
		}
		return Poly{}
	case Ptr:
		if t, _ := typeAtPath(v.Obj.T, v.Path); t != nil {
			if a, ok := t.Underlying().(*types.Array); ok {
				return pconst(a.Len())
			}
		}
	}
	return psym("len(" + av.avKey() + ")")
}

func (x *Exec) write(st *State, fr *Frame, in ssa.Instruction, sink string, n Poly, wire string, val AV, valV ssa.Value) {
	st.sink[sink] = st.sink[sink].add(n)
	st.events = append(st.events, Event{Kind: "write", Instr: in, Fn: fr.fn, Depth: len(st.frames) - 1,
		Sink: sink, Bytes: n, Mult: pconst(1), Wire: wire, Val: val, ValV: valV, Loops: st.loops})
}

// binarySize: encoding/binary wire size of a fixed-size type.
func binarySize(t types.Type) (int64, string, bool) {
	switch u := t.Underlying().(type) {
	case *types.Basic:
		switch u.Kind() {
		case types.Bool, types.Int8, types.Uint8:
			return 1, "u8", true
		case types.Int16:
			return 2, "i16", true
		case types.Uint16:
			return 2, "u16", true
		case types.Int32:
			return 4, "i32", true
		case types.Uint32:
			return 4, "u32", true
		case types.Float32:
			return 4, "f32", true
		case types.Int64:
			return 8, "i64", true
		case types.Uint64:
			return 8, "u64", true
		case types.Float64:
			return 8, "f64", true
		}
	case *types.Array:
		n, w, ok := binarySize(u.Elem())
		return n * u.Len(), w, ok
	case *types.Struct:
		var tot int64
		wire := ""
		for i := 0; i < u.NumFields(); i++ {
			n, w, ok := binarySize(u.Field(i).Type())
			if !ok {
				return 0, "", false
			}
			tot += n
			if wire == "" {
				wire = w
			} else if wire != w {
				wire = "mixed"
			}
		}
		return tot, wire, true
	}
	return 0, "", false
}

// call executes a call instruction. false = the run stops.
func (x *Exec) call(st *State, fr *Frame, in *ssa.Call) bool {
	cc := in.Common()
	nm := fr.ctx + fr.fn.Name() + "." + in.Name() + x.regionSuffix(st)
	args := make([]AV, 0, len(cc.Args)+1)
	if cc.IsInvoke() {
		args = append(args, x.eval(st, fr, cc.Value))
	}
	for _, a := range cc.Args {
		args = append(args, x.eval(st, fr, a))
	}
	set := func(v AV) bool {
		fr.env[in] = v
		fr.idx++
		return true
	}
	// ---- builtins
	if b, ok := cc.Value.(*ssa.Builtin); ok {
		switch b.Name() {
		case "len":
			return set(Num{lenOf(st, args[0])})
		case "cap":
			return set(Num{psym("cap(" + args[0].avKey() + ")")})
		case "append":
			base, ok := args[0].(SliceV)
			if !ok {
				base = SliceV{K: "nil:" + in.Type().String(), T: in.Type()}
			}
			n := lenOf(st, args[1])
			var elems []AV
			if t, ok := args[1].(SliceV); ok && t.Arr != nil && !t.Arr.Opaque {
				if c, ok := n.constVal(); ok && c <= 64 {
					et := in.Type().Underlying().(*types.Slice).Elem()
					for i := int64(0); i < c; i++ {
						elems = append(elems, st.mem.read(t.Arr, fmt.Sprintf("[%d]", i), et, nil))
					}
				}
			}
			return set(SliceV{K: nm, Len: base.Len.add(n), T: in.Type(),
				App: &appendInfo{BaseK: base.K, BaseLen: base.Len, Elems: elems, N: n, Instr: in}})
		case "copy":
			st.mem.epoch[rootOf(args[0])]++
			return set(Num{psym("copy@" + nm)})
		case "delete", "clear":
			st.mem.epoch[rootOf(args[0])]++
			return set(Tuple{})
		case "min", "max":
			keys := make([]string, len(args))
			for i, a := range args {
				keys[i] = a.avKey()
			}
			return set(opaqueOfType(b.Name()+"("+strings.Join(keys, ",")+")", in.Type()))
		case "print", "println":
			return set(Tuple{})
		case "recover":
			return set(Konst{V: nil, T: in.Type()})
		}
		st.imprec("builtin %s is not modelled", b.Name())
		return set(opaqueOfType("builtin@"+nm, in.Type()))
	}

	obj := ssau.CalleeObj(in)
	// ---- sink primitives
	if obj != nil && obj.Pkg() != nil {
		pkg := obj.Pkg().Path()
		recvNamed := ssau.RecvNamed(obj)
		switch {
		case pkg == bitlibPath && recvNamed != nil && recvNamed.Obj().Name() == "Writer":
			if sink := x.sinkOf(args[0]); sink != "" {
				if sz, ok := bitlibSizes[obj.Name()]; ok {
					x.write(st, fr, in, sink, pconst(sz.n), sz.wire, args[1], cc.Args[len(cc.Args)-1])
					return set(opaqueOfType("err@"+nm, in.Type()))
				}
				switch obj.Name() {
				case "ByteArray", "Write", "WriteString":
					x.write(st, fr, in, sink, lenOf(st, args[1]), "raw", args[1], cc.Args[len(cc.Args)-1])
					return set(opaqueOfType("ret@"+nm, in.Type()))
				case "Float64Array":
					x.write(st, fr, in, sink, lenOf(st, args[1]).scale(8), "f64", args[1], cc.Args[len(cc.Args)-1])
					return set(opaqueOfType("ret@"+nm, in.Type()))
				case "Float32Array":
					x.write(st, fr, in, sink, lenOf(st, args[1]).scale(4), "f32", args[1], cc.Args[len(cc.Args)-1])
					return set(opaqueOfType("ret@"+nm, in.Type()))
				case "Int32Array":
					x.write(st, fr, in, sink, lenOf(st, args[1]).scale(4), "i32", args[1], cc.Args[len(cc.Args)-1])
					return set(opaqueOfType("ret@"+nm, in.Type()))
				case "Uint32Array":
					x.write(st, fr, in, sink, lenOf(st, args[1]).scale(4), "u32", args[1], cc.Args[len(cc.Args)-1])
					return set(opaqueOfType("ret@"+nm, in.Type()))
				case "Error":
					return set(opaqueOfType("err@"+nm, in.Type()))
				default:
					st.imprec("bitlib.Writer.%s appends a number of bytes the rule cannot express", obj.Name())
					return set(opaqueOfType("ret@"+nm, in.Type()))
				}
			}
		case pkg == bitlibPath && obj.Name() == "NewWriter" && recvNamed == nil:
			return set(Opaque{K: "bitlib.NewWriter(" + args[0].avKey() + ")", T: in.Type(), Sink: x.sinkOf(args[0])})
		case pkg == "bytes" && recvNamed != nil && recvNamed.Obj().Name() == "Buffer":
			if sink := x.sinkOf(args[0]); sink != "" {
				switch obj.Name() {
				case "Write", "WriteString":
					x.write(st, fr, in, sink, lenOf(st, args[1]), "raw", args[1], cc.Args[len(cc.Args)-1])
					return set(opaqueOfType("ret@"+nm, in.Type()))
				case "WriteByte":
					x.write(st, fr, in, sink, pconst(1), "u8", args[1], cc.Args[len(cc.Args)-1])
					return set(opaqueOfType("ret@"+nm, in.Type()))
				case "Bytes", "Len", "String", "Cap", "Available":
					// readers: fall through to the pure-call treatment
				default:
					st.imprec("bytes.Buffer.%s on the payload buffer is not modelled", obj.Name())
					return set(opaqueOfType("ret@"+nm, in.Type()))
				}
			}
		case pkg == "encoding/binary" && obj.Name() == "Write" && recvNamed == nil:
			if sink := x.sinkOf(args[0]); sink != "" {
				var dt types.Type
				if mi, ok := cc.Args[2].(*ssa.MakeInterface); ok {
					dt = mi.X.Type()
				}
				if dt != nil {
					if n, wire, ok := binarySize(dt); ok {
						x.write(st, fr, in, sink, pconst(n), wire, args[2], cc.Args[2])
						return set(opaqueOfType("err@"+nm, in.Type()))
					}
					if sl, ok := dt.Underlying().(*types.Slice); ok {
						if n, wire, ok := binarySize(sl.Elem()); ok {
							x.write(st, fr, in, sink, lenOf(st, args[2]).scale(n), wire, args[2], cc.Args[2])
							return set(opaqueOfType("err@"+nm, in.Type()))
						}
					}
				}
				st.imprec("encoding/binary.Write of a value whose wire size is not static")
				return set(opaqueOfType("err@"+nm, in.Type()))
			}
		case cc.IsInvoke() && obj.Name() == "Write" && x.sinkOf(args[0]) != "":
			x.write(st, fr, in, x.sinkOf(args[0]), lenOf(st, args[1]), "raw", args[1], cc.Args[0])
			return set(opaqueOfType("ret@"+nm, in.Type()))
		}
	}

	callee := cc.StaticCallee()
	// ---- inlining
	if callee != nil && callee.Blocks != nil && x.cfg.Inline != nil && x.cfg.Inline(st.frames[0].fn, callee) && len(st.frames) < 7 {
		rec := false
		for _, f := range st.frames {
			if f.fn == callee {
				rec = true
			}
		}
		if !rec {
			nf := &Frame{fn: callee, env: make(map[ssa.Value]AV, 32), ctx: fr.ctx + fr.fn.Name() + "." + in.Name() + "/", call: in}
			for i, p := range callee.Params {
				if i < len(args) {
					nf.env[p] = args[i]
				}
			}
			nf.block = callee.Blocks[0]
			st.frames = append(st.frames, nf)
			return true
		}
	}
	// ---- pure calls: uninterpreted application, canonical in the arguments
	if callee != nil && x.cfg.Pure != nil && x.cfg.Pure(callee) {
		keys := make([]string, len(args))
		for i, a := range args {
			keys[i] = a.avKey()
		}
		return set(opaqueOfType(shortFuncName(callee)+"("+strings.Join(keys, ",")+")", in.Type()))
	}
	// ---- everything else: an effectful call we do not look into
	var method *types.Func
	if cc.IsInvoke() {
		method = cc.Method
	}
	ret := opaqueOfType("ret:"+nm, in.Type())
	var changes []lenChange
	var mods map[*types.Var]*int64
	writesSink, known := true, false
	if x.cfg.Effects != nil && (callee != nil || method != nil) {
		mods, writesSink, known = x.cfg.Effects(callee, method)
	}
	for _, a := range args {
		if o := externPtr(a); o != nil {
			changes = append(changes, x.havocObj(st, o, mods, known)...)
		}
		if x.containsSink(a) || externPtr(a) != nil {
			balanced := callee != nil && x.cfg.Balanced != nil && x.cfg.Balanced(callee)
			if writesSink && !balanced {
				who := "dynamic callee"
				if callee != nil {
					who = callee.Name()
				} else if method != nil {
					who = method.Name()
				}
				st.imprec("the payload sink is handed to %s, whose writes are not accounted", who)
			}
		}
		switch p := a.(type) {
		case Ptr:
			if !p.Obj.Extern {
				x.havocLocal(st, p)
			}
		case OPtr:
			st.mem.epoch[p.Root]++
		case Opaque:
			if p.T != nil {
				switch p.T.Underlying().(type) {
				case *types.Pointer, *types.Map, *types.Slice, *types.Interface, *types.Signature, *types.Chan:
					st.mem.epoch[p.K]++
				}
			}
		case SliceV:
			st.mem.epoch[rootOf(p)]++
		case MapV:
			st.mem.epoch[p.K]++
		}
	}
	st.events = append(st.events, Event{Kind: "call", Instr: in, Fn: fr.fn, Depth: len(st.frames) - 1, Callee: callee, Method: method, Args: args, Ret: ret, Loops: st.loops, Changes: changes})
	return set(ret)
}

// lenChange: a non-inlined callee changed the length of a slice field of an extern object.
type lenChange struct {
	Field  *types.Var
	Before Poly
	Delta  *int64 // nil: unknown
}

// havocObj forgets what is known about the cells of extern object o that the callee may modify.
func (x *Exec) havocObj(st *State, o *Obj, mods map[*types.Var]*int64, known bool) (changes []lenChange) {
	stt, ok := o.T.Underlying().(*types.Struct)
	if !ok {
		return nil
	}
	for i := 0; i < stt.NumFields(); i++ {
		f := stt.Field(i)
		delta, modified := mods[f]
		if known && !modified {
			continue
		}
		path := fmt.Sprintf(".%d", i)
		if old, ok := st.mem.read(o, path, f.Type(), f).(SliceV); ok {
			changes = append(changes, lenChange{Field: f, Before: old.Len, Delta: delta})
		}
		x.havocCell(st, o, path, f, delta)
	}
	return changes
}

func (x *Exec) havocCell(st *State, o *Obj, path string, f *types.Var, delta *int64) {
	old := st.mem.read(o, path, f.Type(), f)
	cell := o.ID + path
	st.mem.ver[cell]++
	// drop the cell (and sub-cells) so that the next read yields the new version's entry symbol
	for k := range st.mem.cells {
		if k == cell || (strings.HasPrefix(k, cell) && (k[len(cell)] == '.' || k[len(cell)] == '[')) {
			delete(st.mem.cells, k)
		}
	}
	if ov, ok := old.(SliceV); ok && delta != nil {
		nv := entryValue(o, path, f.Type(), f, st.mem.ver[cell]).(SliceV)
		nv.Len = ov.Len.add(pconst(*delta))
		st.mem.cells[cell] = nv
	}
	st.writes = append(st.writes, cellRef{o, path})
}

func (x *Exec) havocLocal(st *State, p Ptr) {
	t, _ := typeAtPath(p.Obj.T, p.Path)
	if t == nil {
		return
	}
	x.fresh++
	st.mem.write(p.Obj, p.Path, opaqueOfType(fmt.Sprintf("havoc(%s%s)#%d", p.Obj.ID, p.Path, x.fresh), t))
	st.writes = append(st.writes, cellRef{p.Obj, p.Path})
}

// shortFuncName: pkg.Type.Method / pkg.Func of the generic origin.
func shortFuncName(fn *ssa.Function) string {
	if o := fn.Origin(); o != nil {
		fn = o
	}
	obj, _ := fn.Object().(*types.Func)
	if obj == nil || obj.Pkg() == nil {
		return fn.String()
	}
	if rn := ssau.RecvNamed(obj); rn != nil {
		return obj.Pkg().Name() + "." + rn.Obj().Name() + "." + obj.Name()
	}
	return obj.Pkg().Name() + "." + obj.Name()
}
