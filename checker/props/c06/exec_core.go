package c06

import (
	"fmt"
	"go/types"

	"golang.org/x/tools/go/ssa"

	"polycheck/ssau"
)

// Event is something a path did that a rule may care about, in path order.
type Event struct {
	Kind  string // write | store | append | overwrite | mapupdate | call | boundary | lookup
	Instr ssa.Instruction
	Fn    *ssa.Function // function that contains Instr (an inlined callee possibly)
	Depth int           // inline depth (0 = the root function)

	// write
	Sink  string
	Bytes Poly   // bytes of one execution
	Mult  Poly   // how often (product of trip counts of enclosing summarised loops)
	Wire  string // f32 u8 u16 u32 ... raw
	Val   AV     // value written (operand of the sink call)
	ValV  ssa.Value

	// store / append / overwrite on a cell of an extern object
	Field  *types.Var
	Cell   string
	Old    AV
	New    AV
	Elems  []AV
	N      Poly
	LenOld Poly

	// mapupdate / lookup
	Map AV
	Key AV

	// call (not inlined)
	Callee *ssa.Function
	Method *types.Func
	Args   []AV
	Ret    AV

	// call: length changes of extern slice fields
	Changes []lenChange

	// boundary / begin: current values of the integer cells of extern objects
	What  string
	Cells map[*types.Var]AV

	// loops (summarised data loops) this event sits in, outermost first
	Loops []*LoopInfo
}

// LoopInfo describes one summarised loop instance.
type LoopInfo struct {
	Loop    *ssau.Loop
	Fn      *ssa.Function
	Trip    Poly
	TripOK  bool
	IVInit  map[string]int64 // start value of each canonical induction variable
	IV      map[string]bool  // names of havoc symbols that are the canonical induction variable (start 0, step 1)
	Kind    string           // zero | data | structural
	HdrName string
}

// Frame is one activation.
type Frame struct {
	fn    *ssa.Function
	env   map[ssa.Value]AV
	block *ssa.BasicBlock
	prev  *ssa.BasicBlock
	idx   int
	ctx   string
	call  *ssa.Call // call instruction in the caller that created this frame
}

func (f *Frame) clone() *Frame {
	n := *f
	n.env = make(map[ssa.Value]AV, len(f.env))
	for k, v := range f.env {
		n.env[k] = v
	}
	return &n
}

type pfact struct {
	Key string
	B   bound
}

type region struct {
	loop   *ssau.Loop
	depth  int // len(frames) owning the loop
	seq    int // object sequence number at region start
	out    *[]regionResult
	hdrIf  *ssa.If
	hdrAV  AV
	hdrSet bool
	info   *LoopInfo
}

type regionResult struct {
	kind string // latch | exit | return
	from *ssa.BasicBlock
	to   *ssa.BasicBlock
	st   *State
}

// State is the state of one path.
type State struct {
	frames    []*Frame
	mem       *memory
	facts     map[string]bool
	pfacts    []pfact
	events    []Event
	sink      map[string]Poly
	regions   []*region
	imprecise []string
	objSeq    int
	writes    []cellRef // cells written (for loop havoc)
	loops     []*LoopInfo
}

func (s *State) clone() *State {
	n := &State{mem: s.mem.clone(), objSeq: s.objSeq}
	n.frames = make([]*Frame, len(s.frames))
	for i, f := range s.frames {
		n.frames[i] = f.clone()
	}
	n.facts = make(map[string]bool, len(s.facts))
	for k, v := range s.facts {
		n.facts[k] = v
	}
	n.pfacts = append([]pfact(nil), s.pfacts...)
	n.events = append([]Event(nil), s.events...)
	n.sink = make(map[string]Poly, len(s.sink))
	for k, v := range s.sink {
		n.sink[k] = v
	}
	n.regions = append([]*region(nil), s.regions...)
	n.imprecise = append([]string(nil), s.imprecise...)
	n.writes = append([]cellRef(nil), s.writes...)
	n.loops = append([]*LoopInfo(nil), s.loops...)
	return n
}

func (s *State) top() *Frame { return s.frames[len(s.frames)-1] }

func (s *State) imprec(format string, a ...any) {
	msg := fmt.Sprintf(format, a...)
	for _, m := range s.imprecise {
		if m == msg {
			return
		}
	}
	s.imprecise = append(s.imprecise, msg)
}

// PathResult is a finished (possibly partial) path.
type PathResult struct {
	Kind string // return | panic | latch
	St   *State
	Ret  []AV
	Loop *LoopInfo
}

// Config tells the executor what is a sink and how to treat calls.
type Config struct {
	SinkFields map[*types.Var]string             // field object -> sink id: a value loaded from it is a sink
	ParamSink  map[*ssa.Parameter]string         // parameter that is a sink
	Bind       map[*ssa.Parameter]AV             // forced parameter values (case specialisation)
	Inline     func(root, fn *ssa.Function) bool // inline this static callee while analysing root?
	// Effects says which cells of extern objects a non-inlined callee may modify:
	// field -> constant length delta (slices) if known. ok=false: unknown callee (everything may change).
	Effects func(fn *ssa.Function, method *types.Func) (mods map[*types.Var]*int64, writesSink bool, ok bool)
	Pure    func(fn *ssa.Function) bool
	// PreFacts: truth values of comparisons assumed at entry (keys as produced by eqKey).
	PreFacts map[string]bool
	// GlobalMap resolves m[key] for a package-level map initialised with constants (nil: unknown).
	GlobalMap func(g *ssa.Global, key AV) AV
	// Balanced: the callee's own obligations guarantee it leaves no unaccounted payload bytes.
	Balanced func(fn *ssa.Function) bool
	MaxSteps int
	MaxPaths int
}

// Exec runs one root function over all its paths.
type Exec struct {
	cfg       Config
	syms      *symtab
	results   []*PathResult
	steps     int
	paths     int
	aborted   string
	loops     map[*ssa.Function][]*ssau.Loop
	objN      int
	fresh     int
	externs   map[string]bool      // IDs of extern objects
	loopInfos map[string]*LoopInfo // by header name (last summarisation)
}

func NewExec(cfg Config) *Exec {
	if cfg.MaxSteps == 0 {
		cfg.MaxSteps = 4_000_000
	}
	if cfg.MaxPaths == 0 {
		cfg.MaxPaths = 60_000
	}
	return &Exec{cfg: cfg, syms: newSymtab(), loops: map[*ssa.Function][]*ssau.Loop{}}
}

func (x *Exec) loopsOf(fn *ssa.Function) []*ssau.Loop {
	if l, ok := x.loops[fn]; ok {
		return l
	}
	l := ssau.Loops(fn)
	x.loops[fn] = l
	return l
}

func (x *Exec) newObj(st *State, id string, t types.Type, extern, opaque bool) *Obj {
	st.objSeq++
	x.objN++
	if extern {
		if x.externs == nil {
			x.externs = map[string]bool{}
		}
		x.externs[id] = true
	}
	return &Obj{ID: id, T: t, Extern: extern, Opaque: opaque, Seq: st.objSeq}
}

// Run executes fn from its entry with symbolic parameters.
func (x *Exec) Run(fn *ssa.Function) []*PathResult {
	st := &State{mem: newMemory(), facts: map[string]bool{}, sink: map[string]Poly{}}
	for k, v := range x.cfg.PreFacts {
		st.facts[k] = v
	}
	fr := &Frame{fn: fn, env: map[ssa.Value]AV{}, ctx: ""}
	for _, p := range fn.Params {
		fr.env[p] = x.paramValue(st, p)
	}
	for _, fv := range fn.FreeVars {
		fr.env[fv] = opaqueOfType("free:"+fv.Name(), fv.Type())
	}
	st.frames = []*Frame{fr}
	fr.block = fn.Blocks[0]
	st.events = append(st.events, Event{Kind: "begin", Instr: fn.Blocks[0].Instrs[0], Fn: fn, Cells: x.intCells(st)})
	x.run(st)
	return x.results
}

func (x *Exec) paramValue(st *State, p *ssa.Parameter) AV {
	if v, ok := x.cfg.Bind[p]; ok {
		return v
	}
	name := p.Name()
	if id, ok := x.cfg.ParamSink[p]; ok {
		return Opaque{K: name, T: p.Type(), Sink: id}
	}
	// the receiver / pointer-to-struct-with-sinks parameters become extern objects
	if pt, ok := p.Type().Underlying().(*types.Pointer); ok {
		if _, isStruct := pt.Elem().Underlying().(*types.Struct); isStruct && x.hasSinkField(pt.Elem()) {
			obj := x.newObj(st, p.Name(), pt.Elem(), true, false)
			return Ptr{Obj: obj}
		}
	}
	if _, isStruct := p.Type().Underlying().(*types.Struct); isStruct && x.hasSinkField(p.Type()) {
		obj := x.newObj(st, p.Name(), p.Type(), true, false)
		return st.mem.read(obj, "", p.Type(), nil)
	}
	return opaqueOfType(name, p.Type())
}

// intCells snapshots the integer fields of all extern objects reachable from the root's parameters.
func (x *Exec) intCells(st *State) map[*types.Var]AV {
	out := map[*types.Var]AV{}
	for _, v := range st.frames[0].env {
		var obj *Obj
		switch p := v.(type) {
		case Ptr:
			if p.Obj.Extern && p.Path == "" {
				obj = p.Obj
			}
		}
		if obj == nil {
			continue
		}
		stt, ok := obj.T.Underlying().(*types.Struct)
		if !ok {
			continue
		}
		for i := 0; i < stt.NumFields(); i++ {
			f := stt.Field(i)
			if isIntType(f.Type()) {
				out[f] = st.mem.read(obj, fmt.Sprintf(".%d", i), f.Type(), f)
			}
		}
	}
	return out
}

func (x *Exec) hasSinkField(t types.Type) bool {
	st, ok := t.Underlying().(*types.Struct)
	if !ok {
		return false
	}
	for i := 0; i < st.NumFields(); i++ {
		if _, ok := x.cfg.SinkFields[st.Field(i)]; ok {
			return true
		}
	}
	return false
}

// run drives st until its path ends (forks recurse).
func (x *Exec) run(st *State) {
	for {
		if x.aborted != "" {
			return
		}
		x.steps++
		if x.steps > x.cfg.MaxSteps {
			x.aborted = "step budget exhausted"
			return
		}
		fr := st.top()
		if fr.idx >= len(fr.block.Instrs) {
			st.imprec("block without terminator in %s", fr.fn.Name())
			x.finish(st, "panic", nil)
			return
		}
		in := fr.block.Instrs[fr.idx]
		switch in := in.(type) {
		case *ssa.Jump:
			if !x.goTo(st, fr.block, fr.block.Succs[0]) {
				return
			}
		case *ssa.If:
			c := x.eval(st, fr, in.Cond)
			// remember the header condition for trip counts
			if len(st.regions) > 0 {
				r := st.regions[len(st.regions)-1]
				if r.depth == len(st.frames) && fr.block == r.loop.Header && !r.hdrSet {
					r.hdrIf, r.hdrAV, r.hdrSet = in, c, true
				}
			}
			dec, known := x.decide(st, c)
			if known {
				succ := fr.block.Succs[1]
				if dec {
					succ = fr.block.Succs[0]
				}
				if !x.goTo(st, fr.block, succ) {
					return
				}
				continue
			}
			other := st.clone()
			x.assume(other, c, false)
			if x.goTo(other, other.top().block, other.top().block.Succs[1]) {
				x.run(other)
			}
			x.assume(st, c, true)
			if !x.goTo(st, fr.block, fr.block.Succs[0]) {
				return
			}
		case *ssa.Return:
			if len(st.regions) > 0 && st.regions[len(st.regions)-1].depth == len(st.frames) {
				r := st.regions[len(st.regions)-1]
				*r.out = append(*r.out, regionResult{kind: "return", from: fr.block, st: st})
				return
			}
			var rets []AV
			for _, r := range in.Results {
				rets = append(rets, x.eval(st, fr, r))
			}
			if len(st.frames) == 1 {
				x.finish(st, "return", rets)
				return
			}
			call := fr.call
			st.frames = st.frames[:len(st.frames)-1]
			caller := st.top()
			var rv AV
			switch len(rets) {
			case 0:
				rv = Tuple{}
			case 1:
				rv = rets[0]
			default:
				rv = Tuple{E: rets}
			}
			caller.env[call] = rv
			caller.idx++
		case *ssa.Panic:
			x.finish(st, "panic", nil)
			return
		default:
			if !x.step(st, fr, in) {
				return
			}
		}
	}
}

func (x *Exec) finish(st *State, kind string, rets []AV) {
	x.paths++
	if x.paths > x.cfg.MaxPaths {
		x.aborted = "path budget exhausted"
		return
	}
	x.results = append(x.results, &PathResult{Kind: kind, St: st, Ret: rets})
}

// goTo transfers control of the top frame; false = this run stops here.
func (x *Exec) goTo(st *State, from, to *ssa.BasicBlock) bool {
	fr := st.top()
	if len(st.regions) > 0 {
		r := st.regions[len(st.regions)-1]
		if r.depth == len(st.frames) {
			if to == r.loop.Header {
				// evaluate the next values of the header phis before stopping
				fr.prev = from
				x.evalPhis(st, fr, to, from, true)
				*r.out = append(*r.out, regionResult{kind: "latch", from: from, to: to, st: st})
				return false
			}
			if !r.loop.Blocks[to] {
				*r.out = append(*r.out, regionResult{kind: "exit", from: from, to: to, st: st})
				return false
			}
		}
	}
	for _, l := range x.loopsOf(fr.fn) {
		if l.Header == to && !l.Blocks[from] {
			x.handleLoop(st, l, from)
			return false
		}
	}
	x.enter(st, fr, from, to)
	return true
}

// enter positions the frame at the start of block to (phis evaluated).
func (x *Exec) enter(st *State, fr *Frame, from, to *ssa.BasicBlock) {
	x.evalPhis(st, fr, to, from, false)
	fr.prev = from
	fr.block = to
	fr.idx = 0
	for fr.idx < len(to.Instrs) {
		if _, ok := to.Instrs[fr.idx].(*ssa.Phi); !ok {
			break
		}
		fr.idx++
	}
}

// evalPhis evaluates the phis of block to for the edge from->to in parallel.
// With next=true the results are stored under the key nextKey(phi) (latch values).
func (x *Exec) evalPhis(st *State, fr *Frame, to, from *ssa.BasicBlock, next bool) {
	pi := -1
	for i, p := range to.Preds {
		if p == from {
			pi = i
		}
	}
	if pi < 0 {
		return
	}
	type pv struct {
		phi *ssa.Phi
		v   AV
	}
	var vals []pv
	for _, in := range to.Instrs {
		phi, ok := in.(*ssa.Phi)
		if !ok {
			break
		}
		vals = append(vals, pv{phi, x.eval(st, fr, phi.Edges[pi])})
	}
	for _, e := range vals {
		if next {
			fr.env[nextKey{e.phi}] = e.v
		} else {
			fr.env[e.phi] = e.v
		}
	}
}

// nextKey is a pseudo SSA value naming "the value a header phi takes on the back edge".
type nextKey struct{ *ssa.Phi }
