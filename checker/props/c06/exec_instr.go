package c06

import (
	"fmt"
	"go/constant"
	"go/token"
	"go/types"
	"strconv"
	"strings"

	"golang.org/x/tools/go/ssa"
)

type rangeV struct {
	X AV
	K string
}

func (r rangeV) avKey() string { return r.K }

// eval returns the abstract value of v in frame fr.
func (x *Exec) eval(st *State, fr *Frame, v ssa.Value) AV {
	if av, ok := fr.env[v]; ok {
		return av
	}
	switch c := v.(type) {
	case *ssa.Const:
		if c.Value == nil {
			if _, ok := c.Type().Underlying().(*types.Slice); ok {
				return SliceV{K: "nil:" + c.Type().String(), T: c.Type()}
			}
			if isIntType(c.Type()) {
				return Num{}
			}
			if _, ok := c.Type().Underlying().(*types.Struct); ok {
				return zeroValue(c.Type())
			}
			return Konst{V: nil, T: c.Type()}
		}
		if isIntType(c.Type()) && c.Value.Kind() == constant.Int {
			if i, ok := constant.Int64Val(c.Value); ok {
				return Num{pconst(i)}
			}
			if u, ok := constant.Uint64Val(c.Value); ok {
				return Num{psym("const:" + strconv.FormatUint(u, 10))}
			}
		}
		return Konst{V: c.Value, T: c.Type()}
	case *ssa.Global:
		return Opaque{K: "global:" + c.String(), T: c.Type()}
	case *ssa.Function:
		return Opaque{K: "func:" + c.String(), T: c.Type()}
	case *ssa.Builtin:
		return Opaque{K: "builtin:" + c.Name()}
	}
	return opaqueOfType("undef:"+fr.ctx+v.Name(), v.Type())
}

// typeAtPath resolves the type (and innermost field) at a memory path below t.
func typeAtPath(t types.Type, path string) (types.Type, *types.Var) {
	var fld *types.Var
	for path != "" && t != nil {
		if path[0] == '.' {
			end := 1
			for end < len(path) && path[end] != '.' && path[end] != '[' {
				end++
			}
			i, _ := strconv.Atoi(path[1:end])
			t, fld = fieldType(t, i)
			path = path[end:]
			continue
		}
		end := strings.IndexByte(path, ']')
		if end < 0 {
			return nil, nil
		}
		switch u := t.Underlying().(type) {
		case *types.Array:
			t = u.Elem()
		case *types.Slice:
			t = u.Elem()
		default:
			return nil, nil
		}
		path = path[end+1:]
	}
	return t, fld
}

func rootOf(av AV) string {
	switch p := av.(type) {
	case OPtr:
		return p.Root
	case Opaque:
		return p.K
	case SliceV:
		if p.Arr != nil {
			return p.Arr.ID
		}
		return p.K
	case MapV:
		return p.K
	case Ptr:
		return p.Obj.ID
	}
	return av.avKey()
}

func (x *Exec) load(st *State, addr AV, t types.Type) AV {
	switch a := addr.(type) {
	case Ptr:
		pt, fld := typeAtPath(a.Obj.T, a.Path)
		if pt == nil {
			pt = t
		}
		if a.Obj.Opaque {
			return opaqueOfType(fmt.Sprintf("load(%s%s)#%d", a.Obj.ID, a.Path, st.mem.epoch[a.Obj.ID]), t)
		}
		return st.mem.read(a.Obj, a.Path, pt, fld)
	case OPtr:
		return opaqueOfType("*"+a.K+epochSuffix(st.mem.epoch[a.Root]), t)
	case Opaque:
		return opaqueOfType("*"+a.K+epochSuffix(st.mem.epoch[a.K]), t)
	}
	return opaqueOfType("load("+addr.avKey()+")", t)
}

type cellRef struct {
	obj  *Obj
	path string
}

func (x *Exec) store(st *State, fr *Frame, in ssa.Instruction, addr AV, val AV) {
	switch a := addr.(type) {
	case Ptr:
		if a.Obj.Opaque {
			st.mem.epoch[a.Obj.ID]++
			return
		}
		ct, fld := typeAtPath(a.Obj.T, a.Path)
		var old AV
		if a.Obj.Extern && ct != nil {
			old = st.mem.read(a.Obj, a.Path, ct, fld)
		}
		st.mem.write(a.Obj, a.Path, val)
		st.writes = append(st.writes, cellRef{a.Obj, a.Path})
		if a.Obj.Extern {
			ev := Event{Kind: "store", Instr: in, Fn: fr.fn, Depth: len(st.frames) - 1, Field: fld, Cell: a.Obj.ID + a.Path, Old: old, New: val, Loops: st.loops}
			if nv, ok := val.(SliceV); ok {
				if ov, ok2 := old.(SliceV); ok2 && nv.App != nil && nv.App.BaseK == ov.K {
					ev.Kind = "append"
					ev.Elems = nv.App.Elems
					ev.N = nv.App.N
					ev.LenOld = ov.Len
				} else if ok2 && nv.K == ov.K {
					return // storing back the same slice
				} else {
					ev.Kind = "overwrite"
				}
			}
			st.events = append(st.events, ev)
		}
	case OPtr:
		st.mem.epoch[a.Root]++
		st.events = append(st.events, Event{Kind: "ostore", Instr: in, Fn: fr.fn, Depth: len(st.frames) - 1, Key: a, New: val, Loops: st.loops})
	case Opaque:
		st.mem.epoch[a.K]++
	}
}

func epochSuffix(e int) string {
	if e == 0 {
		return ""
	}
	return fmt.Sprintf("#%d", e)
}

func constIdx(av AV) (int64, bool) {
	if n, ok := av.(Num); ok {
		return n.P.constVal()
	}
	return 0, false
}

// step executes a non-terminator instruction. false = the run must stop.
func (x *Exec) step(st *State, fr *Frame, in ssa.Instruction) bool {
	name := func(v ssa.Value) string { return fr.ctx + fr.fn.Name() + "." + v.Name() + x.regionSuffix(st) }
	switch in := in.(type) {
	case *ssa.DebugRef, *ssa.RunDefers:
	case *ssa.Alloc:
		obj := x.newObj(st, name(in), deref(in.Type()), false, false)
		fr.env[in] = Ptr{Obj: obj}
	case *ssa.FieldAddr:
		base := x.eval(st, fr, in.X)
		switch b := base.(type) {
		case Ptr:
			fr.env[in] = Ptr{Obj: b.Obj, Path: fmt.Sprintf("%s.%d", b.Path, in.Field)}
		default:
			fr.env[in] = OPtr{K: fmt.Sprintf("&(%s).%d", base.avKey(), in.Field), Root: rootOf(base), T: deref(in.Type())}
		}
	case *ssa.IndexAddr:
		base := x.eval(st, fr, in.X)
		idx := x.eval(st, fr, in.Index)
		ci, isConst := constIdx(idx)
		switch b := base.(type) {
		case Ptr:
			if isConst && !b.Obj.Opaque {
				fr.env[in] = Ptr{Obj: b.Obj, Path: fmt.Sprintf("%s[%d]", b.Path, ci)}
				return x.next(fr)
			}
		case SliceV:
			if b.Arr != nil && !b.Arr.Opaque && isConst {
				fr.env[in] = Ptr{Obj: b.Arr, Path: fmt.Sprintf("[%d]", ci)}
				return x.next(fr)
			}
		}
		fr.env[in] = OPtr{K: fmt.Sprintf("&%s[%s]", base.avKey(), idx.avKey()), Root: rootOf(base), T: deref(in.Type())}
	case *ssa.Field:
		fr.env[in] = fieldOfAV(x.eval(st, fr, in.X), in.X.Type(), in.Field)
	case *ssa.Index:
		fr.env[in] = opaqueOfType(fmt.Sprintf("%s[%s]", x.eval(st, fr, in.X).avKey(), x.eval(st, fr, in.Index).avKey()), in.Type())
	case *ssa.UnOp:
		v := x.eval(st, fr, in.X)
		switch in.Op {
		case token.MUL:
			fr.env[in] = x.load(st, v, in.Type())
		case token.NOT:
			switch c := v.(type) {
			case Cond:
				c.Neg = !c.Neg
				fr.env[in] = c
			case Konst:
				if c.V != nil && c.V.Kind() == constant.Bool {
					fr.env[in] = Konst{V: constant.MakeBool(!constant.BoolVal(c.V)), T: c.T}
				} else {
					fr.env[in] = Cond{K: v.avKey(), Op: token.ILLEGAL, Neg: true}
				}
			default:
				fr.env[in] = Cond{K: v.avKey(), Op: token.ILLEGAL, Neg: true}
			}
		case token.SUB:
			if n, ok := v.(Num); ok {
				fr.env[in] = Num{n.P.neg()}
			} else {
				fr.env[in] = opaqueOfType("neg("+v.avKey()+")", in.Type())
			}
		default:
			fr.env[in] = opaqueOfType(in.Op.String()+"("+v.avKey()+")"+"@"+name(in), in.Type())
		}
	case *ssa.Store:
		x.store(st, fr, in, x.eval(st, fr, in.Addr), x.eval(st, fr, in.Val))
	case *ssa.BinOp:
		fr.env[in] = x.binop(st, in, x.eval(st, fr, in.X), x.eval(st, fr, in.Y))
	case *ssa.ChangeType:
		fr.env[in] = x.eval(st, fr, in.X)
	case *ssa.MakeInterface:
		fr.env[in] = x.eval(st, fr, in.X)
	case *ssa.ChangeInterface:
		fr.env[in] = x.eval(st, fr, in.X)
	case *ssa.Convert:
		v := x.eval(st, fr, in.X)
		if isIntType(in.Type()) {
			if _, ok := v.(Num); !ok {
				v = Num{psym("conv(" + v.avKey() + ")")}
			}
		} else if _, ok := in.Type().Underlying().(*types.Slice); ok {
			if _, isS := v.(SliceV); !isS {
				v = SliceV{K: "conv(" + v.avKey() + ")", Len: psym("len(" + v.avKey() + ")"), T: in.Type()}
			}
		} else if n, ok := v.(Num); ok {
			// integer converted to float/string: keep an opaque value named after the polynomial
			v = Opaque{K: "conv(" + n.P.key() + ")", T: in.Type()}
		}
		fr.env[in] = v
	case *ssa.TypeAssert:
		v := x.eval(st, fr, in.X)
		if in.CommaOk {
			fr.env[in] = Tuple{E: []AV{v, Cond{K: "is(" + v.avKey() + "," + in.AssertedType.String() + ")", Op: token.ILLEGAL}}}
		} else {
			fr.env[in] = v
		}
	case *ssa.Extract:
		t := x.eval(st, fr, in.Tuple)
		if tp, ok := t.(Tuple); ok && in.Index < len(tp.E) {
			fr.env[in] = tp.E[in.Index]
		} else {
			fr.env[in] = opaqueOfType(fmt.Sprintf("%s#%d", t.avKey(), in.Index), in.Type())
		}
	case *ssa.Slice:
		fr.env[in] = x.sliceOp(st, fr, in, name(in))
	case *ssa.MakeSlice:
		l := x.eval(st, fr, in.Len)
		ln, ok := l.(Num)
		if !ok {
			ln = Num{psym("len(" + name(in) + ")")}
		}
		obj := x.newObj(st, name(in), in.Type(), false, true)
		fr.env[in] = SliceV{K: name(in), Len: ln.P, Arr: obj, T: in.Type()}
	case *ssa.MakeMap:
		fr.env[in] = MapV{K: name(in), T: in.Type(), New: in}
	case *ssa.MakeClosure:
		fr.env[in] = Opaque{K: "closure:" + name(in), T: in.Type()}
	case *ssa.MakeChan:
		fr.env[in] = Opaque{K: "chan:" + name(in), T: in.Type()}
	case *ssa.Lookup:
		m := x.eval(st, fr, in.X)
		k := x.eval(st, fr, in.Index)
		if u, ok := in.X.(*ssa.UnOp); ok && x.cfg.GlobalMap != nil {
			if g, ok := u.X.(*ssa.Global); ok {
				if v := x.cfg.GlobalMap(g, k); v != nil {
					if in.CommaOk {
						fr.env[in] = Tuple{E: []AV{v, Konst{V: constant.MakeBool(true), T: types.Typ[types.Bool]}}}
					} else {
						fr.env[in] = v
					}
					return x.next(fr)
				}
				if _, isK := k.(Konst); isK && in.CommaOk {
					if mt, ok := in.X.Type().Underlying().(*types.Map); ok && x.cfg.GlobalMap(g, nil) != nil {
						// constant key absent from a constant table
						fr.env[in] = Tuple{E: []AV{zeroValue(mt.Elem()), Konst{V: constant.MakeBool(false), T: types.Typ[types.Bool]}}}
						return x.next(fr)
					}
				}
			}
		}
		st.events = append(st.events, Event{Kind: "lookup", Instr: in, Fn: fr.fn, Depth: len(st.frames) - 1, Map: m, Key: k, Loops: st.loops})
		base := fmt.Sprintf("lookup(%s,%s)#%d", m.avKey(), k.avKey(), st.mem.epoch[rootOf(m)])
		if in.CommaOk {
			tt := in.Type().(*types.Tuple)
			fr.env[in] = Tuple{E: []AV{opaqueOfType(base, tt.At(0).Type()), Cond{K: "has(" + base + ")", Op: token.ILLEGAL}}}
		} else {
			fr.env[in] = opaqueOfType(base, in.Type())
		}
	case *ssa.MapUpdate:
		m := x.eval(st, fr, in.Map)
		k := x.eval(st, fr, in.Key)
		v := x.eval(st, fr, in.Value)
		st.mem.epoch[rootOf(m)]++
		st.events = append(st.events, Event{Kind: "mapupdate", Instr: in, Fn: fr.fn, Depth: len(st.frames) - 1, Map: m, Key: k, New: v, Loops: st.loops})
	case *ssa.Range:
		v := x.eval(st, fr, in.X)
		fr.env[in] = rangeV{X: v, K: "range(" + v.avKey() + ")@" + name(in)}
	case *ssa.Next:
		it := x.eval(st, fr, in.Iter)
		tt := in.Type().(*types.Tuple)
		base := "next(" + it.avKey() + ")@" + name(in)
		fr.env[in] = Tuple{E: []AV{Cond{K: base + ".ok", Op: token.ILLEGAL}, opaqueOfType(base+".k", tt.At(1).Type()), opaqueOfType(base+".v", tt.At(2).Type())}}
	case *ssa.Phi:
		// phis are evaluated on block entry; a phi reached here belongs to the entry block of an iteration
	case *ssa.Defer:
		st.imprec("defer in %s is not modelled", fr.fn.Name())
	case *ssa.Go:
		st.imprec("go statement in %s is not modelled", fr.fn.Name())
	case *ssa.Send, *ssa.Select:
		st.imprec("channel operation in %s is not modelled", fr.fn.Name())
	case *ssa.SliceToArrayPointer:
		fr.env[in] = opaqueOfType("s2a("+x.eval(st, fr, in.X).avKey()+")", in.Type())
	case *ssa.Call:
		return x.call(st, fr, in)
	default:
		st.imprec("instruction %T in %s is not modelled", in, fr.fn.Name())
		if v, ok := in.(ssa.Value); ok {
			fr.env[v] = opaqueOfType("unk:"+name(v), v.Type())
		}
	}
	return x.next(fr)
}

func (x *Exec) next(fr *Frame) bool {
	fr.idx++
	return true
}

// regionSuffix distinguishes values created inside loop iterations.
func (x *Exec) regionSuffix(st *State) string {
	if len(st.regions) == 0 {
		return ""
	}
	return fmt.Sprintf("~%d", len(st.regions))
}

func (x *Exec) sliceOp(st *State, fr *Frame, in *ssa.Slice, nm string) AV {
	base := x.eval(st, fr, in.X)
	var lo, hi AV
	if in.Low != nil {
		lo = x.eval(st, fr, in.Low)
	}
	if in.High != nil {
		hi = x.eval(st, fr, in.High)
	}
	switch b := base.(type) {
	case Ptr: // pointer to array
		if arr, ok := deref(in.X.Type()).Underlying().(*types.Array); ok {
			n := pconst(arr.Len())
			if hi != nil {
				if h, ok := hi.(Num); ok {
					n = h.P
				}
			}
			if lo != nil {
				if l, ok := lo.(Num); ok && !l.P.isZero() {
					return SliceV{K: nm, Len: n.sub(l.P), T: in.Type()}
				}
			}
			if b.Path != "" {
				return SliceV{K: nm, Len: n, T: in.Type()}
			}
			return SliceV{K: nm, Len: n, Arr: b.Obj, T: in.Type()}
		}
	case SliceV:
		if lo == nil && hi == nil {
			return b
		}
		n := b.Len
		if hi != nil {
			if h, ok := hi.(Num); ok {
				n = h.P
			} else {
				n = psym("len(" + nm + ")")
			}
		}
		if lo != nil {
			if l, ok := lo.(Num); ok {
				n = n.sub(l.P)
			} else {
				n = psym("len(" + nm + ")")
			}
		}
		return SliceV{K: nm, Len: n, T: in.Type()}
	}
	return opaqueOfType("slice("+base.avKey()+")@"+nm, in.Type())
}

func (x *Exec) binop(st *State, in *ssa.BinOp, a, b AV) AV {
	an, aok := a.(Num)
	bn, bok := b.(Num)
	switch in.Op {
	case token.EQL, token.NEQ, token.LSS, token.LEQ, token.GTR, token.GEQ:
		if aok && bok {
			p := an.P.sub(bn.P)
			if c, ok := p.constVal(); ok {
				return Konst{V: constant.MakeBool(evalConstRel(c, in.Op)), T: in.Type()}
			}
			// canonical key on the sign-normalised form so that a<b and b>a coincide
			base, s, c := normalise(p)
			op := in.Op
			if s < 0 {
				switch op {
				case token.LSS:
					op = token.GTR
				case token.LEQ:
					op = token.GEQ
				case token.GTR:
					op = token.LSS
				case token.GEQ:
					op = token.LEQ
				}
				c = -c
			}
			q := base.add(pconst(c))
			neg := false
			switch op { // reduce to LSS, LEQ, EQL positive forms
			case token.GEQ:
				op, neg = token.LSS, true
			case token.GTR:
				op, neg = token.LEQ, true
			case token.NEQ:
				op, neg = token.EQL, true
			}
			return Cond{K: "(" + q.key() + ")" + op.String() + "0", P: q, Op: op, Neg: neg}
		}
		ka, kb := a.avKey(), b.avKey()
		if in.Op == token.EQL || in.Op == token.NEQ {
			// comparison of two booleans the path can already decide: (p == nil) != (q == nil)
			if isBoolAV(a) && isBoolAV(b) {
				va, oka := x.decide(st, a)
				vb, okb := x.decide(st, b)
				if oka && okb {
					return Konst{V: constant.MakeBool((va == vb) == (in.Op == token.EQL)), T: in.Type()}
				}
			}
			if v, ok := staticEq(a, b); ok {
				return Konst{V: constant.MakeBool(v == (in.Op == token.EQL)), T: in.Type()}
			}
			if ka > kb {
				ka, kb = kb, ka
			}
			return Cond{K: ka + "==" + kb, Op: token.ILLEGAL, Neg: in.Op == token.NEQ}
		}
		return Cond{K: ka + in.Op.String() + kb, Op: token.ILLEGAL}
	}
	if !isIntType(in.Type()) || !aok || !bok {
		return opaqueOfType("("+a.avKey()+in.Op.String()+b.avKey()+")", in.Type())
	}
	switch in.Op {
	case token.ADD:
		return Num{an.P.add(bn.P)}
	case token.SUB:
		return Num{an.P.sub(bn.P)}
	case token.MUL:
		if r, ok := x.roundUpMul(an.P, bn.P); ok {
			return Num{r}
		}
		return Num{an.P.mul(bn.P)}
	case token.SHL:
		if c, ok := bn.P.constVal(); ok && c >= 0 && c < 62 {
			return Num{an.P.scale(1 << uint(c))}
		}
	case token.REM:
		if m, ok := bn.P.constVal(); ok && m > 0 {
			if c, ok := an.P.constVal(); ok {
				return Num{pconst(c % m)}
			}
			// (m - x%m) % m  ==> pad_m(x)
			if inner, ok := x.matchMminusMod(an.P, m); ok {
				return Num{x.syms.padSym(inner, m)}
			}
			if ok, _ := x.syms.divisibleBy(an.P, m); ok {
				return Num{}
			}
			return Num{x.syms.modSym(an.P, m)}
		}
	case token.QUO:
		if m, ok := bn.P.constVal(); ok && m > 0 {
			if c, ok := an.P.constVal(); ok {
				return Num{pconst(c / m)}
			}
			nm := fmt.Sprintf("div%d(%s)", m, an.P.key())
			x.syms.info[nm] = SymInfo{Kind: "div", Arg: an.P, M: m}
			return Num{psym(nm)}
		}
	case token.AND_NOT:
		// (x + m-1) &^ (m-1)  ==> x + pad_m(x) for m a power of two
		if c, ok := bn.P.constVal(); ok && c > 0 && (c+1)&c == 0 {
			inner := an.P.sub(pconst(c))
			return Num{inner.add(x.syms.padSym(inner, c+1))}
		}
	}
	return Num{psym("(" + an.P.key() + in.Op.String() + bn.P.key() + ")")}
}

func isBoolAV(v AV) bool {
	switch c := v.(type) {
	case Cond:
		return true
	case Konst:
		return c.V != nil && c.V.Kind() == constant.Bool
	}
	return false
}

// eqKey is the fact key of the comparison "a == b" of two non-numeric values.
func eqKey(a, b string) string {
	if a > b {
		a, b = b, a
	}
	return a + "==" + b
}

// matchMminusMod recognises m - mod_m(x).
func (x *Exec) matchMminusMod(p Poly, m int64) (Poly, bool) {
	if len(p.t) != 2 || p.t[""] != m {
		return Poly{}, false
	}
	for k, v := range p.t {
		if k == "" {
			continue
		}
		inf, ok := x.syms.info[k]
		if ok && inf.Kind == "mod" && inf.M == m && v == -1 {
			return inf.Arg, true
		}
	}
	return Poly{}, false
}

// roundUpMul recognises div_m(x + m-1) * m ==> x + pad_m(x).
func (x *Exec) roundUpMul(a, b Poly) (Poly, bool) {
	try := func(d, c Poly) (Poly, bool) {
		m, ok := c.constVal()
		if !ok || m <= 1 || len(d.t) != 1 {
			return Poly{}, false
		}
		for k, v := range d.t {
			inf, ok := x.syms.info[k]
			if ok && v == 1 && inf.Kind == "div" && inf.M == m {
				inner := inf.Arg.sub(pconst(m - 1))
				return inner.add(x.syms.padSym(inner, m)), true
			}
		}
		return Poly{}, false
	}
	if r, ok := try(a, b); ok {
		return r, true
	}
	return try(b, a)
}

// staticEq decides equality of two non-numeric abstract values when possible.
func staticEq(a, b AV) (bool, bool) {
	ka, aok := a.(Konst)
	kb, bok := b.(Konst)
	if aok && bok {
		if ka.V == nil || kb.V == nil {
			return ka.V == nil && kb.V == nil, true
		}
		if ka.V.Kind() == kb.V.Kind() {
			return constant.Compare(ka.V, token.EQL, kb.V), true
		}
	}
	isNil := func(v AV) bool { k, ok := v.(Konst); return ok && k.V == nil }
	_, ap := a.(Ptr)
	_, bp := b.(Ptr)
	if (ap && isNil(b)) || (bp && isNil(a)) {
		return false, true
	}
	if ap && bp {
		return a.avKey() == b.avKey(), true
	}
	if m, ok := a.(MapV); ok && m.New != nil && isNil(b) {
		return false, true
	}
	if m, ok := b.(MapV); ok && m.New != nil && isNil(a) {
		return false, true
	}
	return false, false
}

// decide evaluates a condition under the path's facts.
func (x *Exec) decide(st *State, c AV) (val bool, known bool) {
	switch c := c.(type) {
	case Konst:
		if c.V != nil && c.V.Kind() == constant.Bool {
			return constant.BoolVal(c.V), true
		}
	case Cond:
		if v, ok := st.facts[c.K]; ok {
			return v != c.Neg, true
		}
		if c.Op != token.ILLEGAL {
			t := st.feasible(c.P, c.Op)
			f := st.feasible(c.P, negOp(c.Op))
			if t && !f {
				return !c.Neg, true
			}
			if f && !t {
				return c.Neg, true
			}
		}
	}
	return false, false
}

// assume records that c evaluated to truth on this path.
func (x *Exec) assume(st *State, c AV, truth bool) {
	cd, ok := c.(Cond)
	if !ok {
		return
	}
	pos := truth != cd.Neg
	st.facts[cd.K] = pos
	if cd.Op != token.ILLEGAL {
		op := cd.Op
		if !pos {
			op = negOp(op)
		}
		st.learn(cd.P, op)
	}
}
