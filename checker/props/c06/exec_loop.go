package c06

import (
	"fmt"
	"go/token"
	"strings"

	"golang.org/x/tools/go/ssa"

	"polycheck/ssau"
)

func headerPhis(l *ssau.Loop) []*ssa.Phi {
	var out []*ssa.Phi
	for _, in := range l.Header.Instrs {
		p, ok := in.(*ssa.Phi)
		if !ok {
			break
		}
		out = append(out, p)
	}
	return out
}

// handleLoop summarises loop l, entered from block `from`, and continues every
// path that leaves it. The current run stops afterwards.
func (x *Exec) handleLoop(pre *State, l *ssau.Loop, from *ssa.BasicBlock) {
	fr := pre.top()
	depth := len(pre.frames)
	hdr := fmt.Sprintf("%s%s.b%d%s", fr.ctx, fr.fn.Name(), l.Header.Index, x.regionSuffix(pre))
	phis := headerPhis(l)

	// initial values of the header phis
	x.evalPhis(pre, fr, l.Header, from, false)
	init := map[*ssa.Phi]AV{}
	for _, p := range phis {
		init[p] = fr.env[p]
	}

	var results []regionResult
	var info *LoopInfo
	var reg *region
	var start *State
	havocCells := map[string]cellRef{}
	for pass := 0; pass < 4; pass++ {
		results = nil
		info = &LoopInfo{Loop: l, Fn: fr.fn, IV: map[string]bool{}, IVInit: map[string]int64{}, HdrName: hdr}
		if x.loopInfos == nil {
			x.loopInfos = map[string]*LoopInfo{}
		}
		x.loopInfos[hdr] = info
		it := pre.clone()
		ifr := it.top()
		// havoc header phis
		for _, p := range phis {
			ifr.env[p] = opaqueOfType("φ("+hdr+"."+p.Name()+")", p.Type())
		}
		// havoc cells of pre-existing objects that the body modifies
		for _, k := range sortedKeys(havocCells) {
			c := havocCells[k]
			if c.obj.Extern {
				t, fld := typeAtPath(c.obj.T, c.path)
				if t != nil && fld != nil {
					x.havocCell(it, c.obj, c.path, fld, nil)
					continue
				}
			}
			x.havocLocal(it, Ptr{Obj: c.obj, Path: c.path})
		}
		if len(havocCells) > 0 {
			it.events = append(it.events, Event{Kind: "boundary", What: "loop-entry", Instr: l.Header.Instrs[0], Fn: fr.fn, Depth: depth - 1, Loops: it.loops, Cells: x.intCells(it)})
		}
		nWrites := len(it.writes)
		reg = &region{loop: l, depth: depth, seq: it.objSeq, out: &results, info: info}
		it.regions = append(it.regions, reg)
		it.loops = append(append([]*LoopInfo(nil), it.loops...), info)
		ifr.prev = from
		ifr.block = l.Header
		ifr.idx = len(phis)
		start = it.clone()
		x.run(it)
		if x.aborted != "" {
			return
		}
		// which old cells did the body write?
		grew := false
		for _, r := range results {
			for _, w := range r.st.writes[nWrites:] {
				if w.obj.Seq <= reg.seq {
					k := w.obj.ID + w.path
					if _, ok := havocCells[k]; !ok {
						havocCells[k] = w
						grew = true
					}
				}
			}
		}
		if !grew {
			break
		}
	}

	nEv := len(start.events)
	// ---- classify
	var latches, exits []regionResult
	for _, r := range results {
		if r.kind == "latch" {
			latches = append(latches, r)
		} else {
			exits = append(exits, r)
		}
	}
	sinkDelta := func(r regionResult) map[string]Poly {
		d := map[string]Poly{}
		for k, v := range r.st.sink {
			if dv := v.sub(start.sink[k]); !dv.isZero() {
				d[k] = dv
			}
		}
		return d
	}
	structural := len(havocCells) > 0
	data := false
	for _, r := range latches {
		if len(sinkDelta(r)) > 0 {
			data = true
		}
	}
	// affine header phis and trip count
	step := map[*ssa.Phi]Poly{}
	stepOK := map[*ssa.Phi]bool{}
	for _, p := range phis {
		ok := len(latches) > 0
		var s Poly
		for i, r := range latches {
			cur := start.top().env[p]
			nxt := r.st.frames[depth-1].env[nextKey{p}]
			d, dok := avDelta(cur, nxt)
			if !dok || (i > 0 && !d.equal(s)) || d.mentions(func(sym string) bool { return strings.Contains(sym, "φ("+hdr+".") }) {
				ok = false
				break
			}
			s = d
		}
		step[p], stepOK[p] = s, ok
	}
	trip, tripOK := x.tripCount(reg, phis, init, step, stepOK, hdr, pre)
	info.Trip, info.TripOK = trip, tripOK
	for _, p := range phis {
		if n, ok := init[p].(Num); ok && stepOK[p] {
			if c, isC := n.P.constVal(); isC {
				if s, isS := step[p].constVal(); isS && s == 1 {
					// φ + k with k = -c is the zero-based position
					info.IV["φ("+hdr+"."+p.Name()+")"] = true
					info.IVInit["φ("+hdr+"."+p.Name()+")"] = c
				}
			}
		}
	}

	closeForm := func(st *State) {
		f := st.frames[depth-1]
		for _, p := range phis {
			if stepOK[p] && tripOK {
				f.env[p] = avAdvance(init[p], step[p].mul(trip), "loopout("+hdr+"."+p.Name()+")")
			} else if stepOK[p] && step[p].isZero() {
				f.env[p] = init[p]
			} else {
				f.env[p] = opaqueOfType("loopout("+hdr+"."+p.Name()+")", p.Type())
			}
		}
	}
	popRegion := func(st *State) {
		st.regions = st.regions[:len(st.regions)-1]
		st.loops = st.loops[:len(st.loops)-1]
	}
	cont := func(r regionResult) {
		st := r.st
		popRegion(st)
		if r.kind == "return" {
			x.run(st) // positioned at the return instruction
			return
		}
		if x.goTo(st, r.from, r.to) {
			x.run(st)
		}
	}

	switch {
	case structural:
		info.Kind = "structural"
		for _, r := range latches {
			r.st.events = append(r.st.events, Event{Kind: "boundary", What: "latch", Instr: l.Header.Instrs[0], Fn: fr.fn, Depth: depth - 1})
			x.paths++
			x.results = append(x.results, &PathResult{Kind: "latch", St: r.st, Loop: info})
		}
		for _, r := range exits {
			r.st.events = append(r.st.events, Event{Kind: "boundary", What: "loop-exit", Instr: l.Header.Instrs[0], Fn: fr.fn, Depth: depth - 1})
			if r.kind == "exit" && r.from == l.Header {
				closeForm(r.st)
			}
			cont(r)
		}
	case data:
		info.Kind = "data"
		// every iteration must append the same number of bytes, independent of the iteration
		var eff map[string]Poly
		same := true
		for i, r := range latches {
			d := sinkDelta(r)
			if i == 0 {
				eff = d
				continue
			}
			if len(d) != len(eff) {
				same = false
			}
			for k, v := range d {
				if !v.equal(eff[k]) {
					same = false
				}
			}
		}
		var hdrExit *regionResult
		early := false
		for i := range exits {
			r := exits[i]
			if r.kind == "exit" && r.from == l.Header && len(sinkDelta(r)) == 0 {
				if hdrExit == nil {
					hdrExit = &exits[i]
					continue
				}
			}
			early = true
		}
		if hdrExit == nil {
			// no normal exit: nothing continues
			for _, r := range exits {
				r.st.imprec("loop at %s appends bytes and is left only by break/return: bytes per run not expressible", hdr)
				cont(r)
			}
			return
		}
		st := hdrExit.st
		variant := false
		for _, v := range eff {
			if v.mentions(func(sym string) bool {
				return strings.Contains(sym, "φ("+hdr+".") || strings.Contains(sym, "~"+fmt.Sprint(len(pre.regions)+1))
			}) {
				variant = true
			}
		}
		switch {
		case !same:
			st.imprec("loop at %s appends a different number of bytes on different paths through its body", hdr)
		case variant:
			st.imprec("loop at %s appends a number of bytes that varies between iterations", hdr)
		case early:
			st.imprec("loop at %s appends bytes and can be left early (break/return)", hdr)
		case !tripOK:
			st.imprec("loop at %s appends bytes but its trip count is not a recognised counted form", hdr)
		}
		mult := trip
		if !tripOK {
			mult = psym("cnt(" + hdr + ")")
		}
		for _, k := range sortedKeys(eff) {
			st.sink[k] = st.sink[k].add(eff[k].mul(mult))
		}
		// splice the events of one representative iteration, multiplied by the trip count
		rep := latches[0].st.events[nEv:]
		for _, e := range rep {
			if e.Kind == "write" {
				e.Mult = e.Mult.mul(mult)
			}
			st.events = append(st.events, e)
		}
		closeForm(st)
		cont(*hdrExit)
		for i := range exits {
			if &exits[i] != hdrExit {
				cont(exits[i])
			}
		}
	default:
		info.Kind = "zero"
		for _, r := range exits {
			if r.kind == "exit" && r.from == l.Header {
				closeForm(r.st)
			}
			cont(r)
		}
	}
}

// avDelta computes next - cur for integers and slice lengths.
func avDelta(cur, nxt AV) (Poly, bool) {
	switch c := cur.(type) {
	case Num:
		if n, ok := nxt.(Num); ok {
			return n.P.sub(c.P), true
		}
	case SliceV:
		if n, ok := nxt.(SliceV); ok {
			if n.K == c.K {
				return Poly{}, true
			}
			if n.App != nil && n.App.BaseK == c.K {
				return n.App.N, true
			}
		}
	default:
		if cur != nil && nxt != nil && cur.avKey() == nxt.avKey() {
			return Poly{}, true
		}
	}
	return Poly{}, false
}

func avAdvance(init AV, by Poly, name string) AV {
	switch v := init.(type) {
	case Num:
		return Num{v.P.add(by)}
	case SliceV:
		if by.isZero() {
			return v
		}
		return SliceV{K: name, Len: v.Len.add(by), T: v.T}
	}
	return init
}

// tripCount derives the number of iterations from the header condition.
func (x *Exec) tripCount(reg *region, phis []*ssa.Phi, init map[*ssa.Phi]AV, step map[*ssa.Phi]Poly, stepOK map[*ssa.Phi]bool, hdr string, pre *State) (Poly, bool) {
	// range over a map / string: Next in the header
	for _, in := range reg.loop.Header.Instrs {
		if nx, ok := in.(*ssa.Next); ok {
			if rg, ok := nx.Iter.(*ssa.Range); ok {
				v := x.eval(pre, pre.top(), rg.X)
				if _, isMap := v.(MapV); isMap {
					return lenOf(pre, v), true
				}
			}
			return Poly{}, false
		}
	}
	if !reg.hdrSet || reg.hdrIf == nil {
		return Poly{}, false
	}
	c, ok := reg.hdrAV.(Cond)
	if !ok || c.Op == token.ILLEGAL {
		return Poly{}, false
	}
	// which successor stays in the loop?
	stayTrue := reg.loop.Blocks[reg.hdrIf.Block().Succs[0]]
	stayFalse := reg.loop.Blocks[reg.hdrIf.Block().Succs[1]]
	if stayTrue == stayFalse {
		return Poly{}, false
	}
	op := c.Op
	if c.Neg {
		op = negOp(op)
	}
	if !stayTrue {
		op = negOp(op)
	}
	// exactly one havoc'd phi symbol, linear, step +1
	var ivPhi *ssa.Phi
	ivSym := ""
	for _, s := range c.P.symbols() {
		if strings.HasPrefix(s, "φ("+hdr+".") {
			if ivSym != "" {
				return Poly{}, false
			}
			ivSym = s
		}
	}
	if ivSym == "" {
		return Poly{}, false
	}
	for _, p := range phis {
		if "φ("+hdr+"."+p.Name()+")" == ivSym {
			ivPhi = p
		}
	}
	if ivPhi == nil || !stepOK[ivPhi] {
		return Poly{}, false
	}
	sv, ok := step[ivPhi].constVal()
	if !ok || (sv != 1 && sv != -1) {
		return Poly{}, false
	}
	in, ok := init[ivPhi].(Num)
	if !ok {
		return Poly{}, false
	}
	coef := c.P.t[ivSym]
	for k := range c.P.t {
		if k != ivSym && strings.Contains(k, ivSym) {
			return Poly{}, false // non-linear
		}
	}
	if coef != 1 && coef != -1 {
		return Poly{}, false
	}
	atInit := c.P.subst(ivSym, in.P)
	// one iteration changes P by d = coef·step
	switch d := coef * sv; {
	case d == 1 && op == token.LSS: // P rises towards 0; continue while P < 0
		return atInit.neg(), true
	case d == 1 && op == token.LEQ:
		return atInit.neg().add(pconst(1)), true
	case d == 1 && op == token.NEQ:
		return atInit.neg(), true
	case d == -1 && op == token.GTR: // P falls towards 0; continue while P > 0
		return atInit, true
	case d == -1 && op == token.GEQ:
		return atInit.add(pconst(1)), true
	case d == -1 && op == token.NEQ:
		return atInit, true
	}
	return Poly{}, false
}
