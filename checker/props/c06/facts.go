package c06

import (
	"go/token"
	"math"
	"sort"
	"strings"
)

// bound is what a path knows about the integer value of a (sign-normalised,
// constant-free) polynomial: lo <= v <= hi, v not in ne.
type bound struct {
	base Poly
	lo   int64
	hi   int64
	ne   []int64
}

const (
	negInf = math.MinInt64
	posInf = math.MaxInt64
)

// normalise splits p into s*base + c with base constant-free and its first
// monomial positive.
func normalise(p Poly) (base Poly, s int64, c int64) {
	c = p.t[""]
	rest := p.sub(pconst(c))
	if rest.isZero() {
		return rest, 1, c
	}
	keys := make([]string, 0, len(rest.t))
	for k := range rest.t {
		keys = append(keys, k)
	}
	sort.Strings(keys)
	s = 1
	if rest.t[keys[0]] < 0 {
		s = -1
		rest = rest.neg()
	}
	return rest, s, c
}

// constraint turns (p op 0) into an interval/exclusion on base.
func constraint(p Poly, op token.Token) (base Poly, lo, hi int64, ne []int64, ok bool) {
	base, s, c := normalise(p)
	if base.isZero() {
		return base, 0, 0, nil, false
	}
	lo, hi = negInf, posInf
	// s*v + c op 0
	if s < 0 {
		// -v + c op 0  <=>  v op' c
		switch op {
		case token.LSS: // -v+c<0 => v>c
			lo = c + 1
		case token.LEQ:
			lo = c
		case token.GTR: // -v+c>0 => v<c
			hi = c - 1
		case token.GEQ:
			hi = c
		case token.EQL:
			lo, hi = c, c
		case token.NEQ:
			ne = []int64{c}
		default:
			return base, 0, 0, nil, false
		}
		return base, lo, hi, ne, true
	}
	switch op {
	case token.LSS: // v+c<0 => v<-c
		hi = -c - 1
	case token.LEQ:
		hi = -c
	case token.GTR:
		lo = -c + 1
	case token.GEQ:
		lo = -c
	case token.EQL:
		lo, hi = -c, -c
	case token.NEQ:
		ne = []int64{-c}
	default:
		return base, 0, 0, nil, false
	}
	return base, lo, hi, ne, true
}

func negOp(op token.Token) token.Token {
	switch op {
	case token.LSS:
		return token.GEQ
	case token.LEQ:
		return token.GTR
	case token.GTR:
		return token.LEQ
	case token.GEQ:
		return token.LSS
	case token.EQL:
		return token.NEQ
	case token.NEQ:
		return token.EQL
	}
	return token.ILLEGAL
}

// nonNegSym: symbols that denote lengths / counts / paddings.
func nonNegSym(s string) bool {
	return strings.HasPrefix(s, "len(") || strings.HasPrefix(s, "pad") || strings.HasPrefix(s, "mod") || strings.HasPrefix(s, "cnt(")
}

// implicitLo gives a lower bound that holds without any path fact: a
// polynomial with non-negative coefficients over non-negative symbols is >= 0.
func implicitLo(base Poly) int64 {
	for k, v := range base.t {
		if v < 0 {
			return negInf
		}
		if k == "" {
			continue
		}
		for _, s := range strings.Split(k, monoSep) {
			if !nonNegSym(s) {
				return negInf
			}
		}
	}
	return 0
}

func (s *State) boundOf(base Poly) bound {
	key := base.key()
	for _, f := range s.pfacts {
		if f.Key == key {
			return f.B
		}
	}
	return bound{base: base, lo: implicitLo(base), hi: posInf}
}

func (s *State) setBound(b bound) {
	key := b.base.key()
	for i, f := range s.pfacts {
		if f.Key == key {
			s.pfacts[i].B = b
			return
		}
	}
	s.pfacts = append(s.pfacts, pfact{Key: key, B: b})
}

func (b bound) empty() bool {
	if b.lo > b.hi {
		return true
	}
	if b.lo == b.hi {
		for _, n := range b.ne {
			if n == b.lo {
				return true
			}
		}
	}
	return false
}

func meet(b bound, lo, hi int64, ne []int64) bound {
	if lo > b.lo {
		b.lo = lo
	}
	if hi < b.hi {
		b.hi = hi
	}
	b.ne = append(append([]int64(nil), b.ne...), ne...)
	// tighten against exclusions at the ends
	for changed := true; changed && b.lo <= b.hi; {
		changed = false
		for _, n := range b.ne {
			if n == b.lo && b.lo != negInf {
				b.lo++
				changed = true
			}
			if n == b.hi && b.hi != posInf {
				b.hi--
				changed = true
			}
		}
	}
	return b
}

// feasible reports whether (p op 0) is compatible with what the path knows.
func (s *State) feasible(p Poly, op token.Token) bool {
	if c, ok := p.constVal(); ok {
		return evalConstRel(c, op)
	}
	base, lo, hi, ne, ok := constraint(p, op)
	if !ok {
		return true
	}
	return !meet(s.boundOf(base), lo, hi, ne).empty()
}

func evalConstRel(c int64, op token.Token) bool {
	switch op {
	case token.LSS:
		return c < 0
	case token.LEQ:
		return c <= 0
	case token.GTR:
		return c > 0
	case token.GEQ:
		return c >= 0
	case token.EQL:
		return c == 0
	case token.NEQ:
		return c != 0
	}
	return true
}

// learn records (p op 0).
func (s *State) learn(p Poly, op token.Token) {
	base, lo, hi, ne, ok := constraint(p, op)
	if !ok {
		return
	}
	s.setBound(meet(s.boundOf(base), lo, hi, ne))
}

// zeroUnderFacts reports whether d == 0 follows from the path's equalities
// (d is identically zero, or a multiple of (base - k) for a known base == k).
func (s *State) zeroUnderFacts(d Poly) bool {
	if d.isZero() {
		return true
	}
	for _, f := range s.pfacts {
		b := f.B
		if b.lo != b.hi {
			continue
		}
		eq := b.base.sub(pconst(b.lo)) // == 0 on this path
		// try d == m * eq
		var k0 string
		for k := range eq.t {
			if k != "" && (k0 == "" || k < k0) {
				k0 = k
			}
		}
		if k0 == "" || eq.t[k0] == 0 || d.t[k0]%eq.t[k0] != 0 {
			continue
		}
		m := d.t[k0] / eq.t[k0]
		if m != 0 && d.equal(eq.scale(m)) {
			return true
		}
	}
	return false
}
