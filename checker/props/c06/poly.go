package c06

import (
	"fmt"
	"sort"
	"strings"
)

// Poly is a multivariate polynomial with int64 coefficients over named symbols
// (DESIGN.md 3.4 SYM). The zero value is the polynomial 0. Polys are immutable.
// A monomial key is the sorted list of its symbols joined by "\x01" ("" = constant term).
type Poly struct {
	t map[string]int64
}

const monoSep = "\x01"

// SymInfo describes a symbol that has arithmetic meaning beyond "unknown integer".
type SymInfo struct {
	Kind string // "pad": (M - Arg%M)%M ; "mod": Arg%M ; "" opaque
	Arg  Poly
	M    int64
}

// symtab is shared by one executor run (names are canonical, so sharing is safe).
type symtab struct {
	info map[string]SymInfo
}

func newSymtab() *symtab { return &symtab{info: map[string]SymInfo{}} }

func pconst(c int64) Poly {
	if c == 0 {
		return Poly{}
	}
	return Poly{t: map[string]int64{"": c}}
}

func psym(name string) Poly { return Poly{t: map[string]int64{name: 1}} }

func (p Poly) clone() map[string]int64 {
	m := make(map[string]int64, len(p.t)+2)
	for k, v := range p.t {
		m[k] = v
	}
	return m
}

func norm(m map[string]int64) Poly {
	for k, v := range m {
		if v == 0 {
			delete(m, k)
		}
	}
	if len(m) == 0 {
		return Poly{}
	}
	return Poly{t: m}
}

func (p Poly) add(q Poly) Poly {
	m := p.clone()
	for k, v := range q.t {
		m[k] += v
	}
	return norm(m)
}

func (p Poly) neg() Poly {
	m := make(map[string]int64, len(p.t))
	for k, v := range p.t {
		m[k] = -v
	}
	return norm(m)
}

func (p Poly) sub(q Poly) Poly { return p.add(q.neg()) }

func mulMono(a, b string) string {
	if a == "" {
		return b
	}
	if b == "" {
		return a
	}
	s := append(strings.Split(a, monoSep), strings.Split(b, monoSep)...)
	sort.Strings(s)
	return strings.Join(s, monoSep)
}

func (p Poly) mul(q Poly) Poly {
	m := map[string]int64{}
	for k1, v1 := range p.t {
		for k2, v2 := range q.t {
			m[mulMono(k1, k2)] += v1 * v2
		}
	}
	return norm(m)
}

func (p Poly) scale(c int64) Poly { return p.mul(pconst(c)) }

func (p Poly) isZero() bool { return len(p.t) == 0 }

func (p Poly) equal(q Poly) bool { return p.sub(q).isZero() }

// constVal returns the value if p is a constant.
func (p Poly) constVal() (int64, bool) {
	if len(p.t) == 0 {
		return 0, true
	}
	if len(p.t) == 1 {
		if v, ok := p.t[""]; ok {
			return v, true
		}
	}
	return 0, false
}

// symbols returns the sorted set of symbols occurring in p.
func (p Poly) symbols() []string {
	set := map[string]bool{}
	for k := range p.t {
		if k == "" {
			continue
		}
		for _, s := range strings.Split(k, monoSep) {
			set[s] = true
		}
	}
	out := make([]string, 0, len(set))
	for s := range set {
		out = append(out, s)
	}
	sort.Strings(out)
	return out
}

func (p Poly) mentions(pred func(string) bool) bool {
	for _, s := range p.symbols() {
		if pred(s) {
			return true
		}
	}
	return false
}

// subst replaces symbol s by q.
func (p Poly) subst(s string, q Poly) Poly {
	out := Poly{}
	for k, v := range p.t {
		term := pconst(v)
		if k != "" {
			for _, f := range strings.Split(k, monoSep) {
				if f == s {
					term = term.mul(q)
				} else {
					term = term.mul(psym(f))
				}
			}
		}
		out = out.add(term)
	}
	return out
}

func (p Poly) String() string {
	if len(p.t) == 0 {
		return "0"
	}
	keys := make([]string, 0, len(p.t))
	for k := range p.t {
		keys = append(keys, k)
	}
	sort.Strings(keys)
	var b strings.Builder
	for i, k := range keys {
		v := p.t[k]
		mono := strings.ReplaceAll(k, monoSep, "·")
		switch {
		case i > 0 && v < 0:
			b.WriteString(" - ")
			v = -v
		case i > 0:
			b.WriteString(" + ")
		case v < 0:
			b.WriteString("-")
			v = -v
		}
		if k == "" {
			fmt.Fprintf(&b, "%d", v)
		} else if v == 1 {
			b.WriteString(mono)
		} else {
			fmt.Fprintf(&b, "%d·%s", v, mono)
		}
	}
	return b.String()
}

// key is a canonical string for p (used inside symbol names).
func (p Poly) key() string { return p.String() }

// divisibleBy reports whether p is provably ≡ 0 (mod m) for all values of its
// symbols, using pad(x,m) ≡ -x and mod(x,m) ≡ x. counter names a monomial that
// breaks divisibility when the proof fails.
func (st *symtab) divisibleBy(p Poly, m int64) (ok bool, counter string) {
	q := p
	for iter := 0; iter < 8; iter++ {
		changed := false
		for _, s := range q.symbols() {
			inf, has := st.info[s]
			if !has || inf.M%m != 0 {
				continue
			}
			switch inf.Kind {
			case "pad":
				q = q.subst(s, inf.Arg.neg())
				changed = true
			case "mod":
				q = q.subst(s, inf.Arg)
				changed = true
			}
		}
		if !changed {
			break
		}
	}
	keys := make([]string, 0, len(q.t))
	for k := range q.t {
		keys = append(keys, k)
	}
	sort.Strings(keys)
	for _, k := range keys {
		if q.t[k]%m != 0 {
			mono := strings.ReplaceAll(k, monoSep, "·")
			if mono == "" {
				mono = "1"
			}
			return false, fmt.Sprintf("%d·%s", q.t[k], mono)
		}
	}
	return true, ""
}

// padSym returns the symbol for (m - x%m)%m, registering its meaning.
func (st *symtab) padSym(x Poly, m int64) Poly {
	name := fmt.Sprintf("pad%d(%s)", m, x.key())
	st.info[name] = SymInfo{Kind: "pad", Arg: x, M: m}
	return psym(name)
}

// modSym returns the symbol for x%m.
func (st *symtab) modSym(x Poly, m int64) Poly {
	name := fmt.Sprintf("mod%d(%s)", m, x.key())
	st.info[name] = SymInfo{Kind: "mod", Arg: x, M: m}
	return psym(name)
}

// isPadOnly reports whether p is a sum of pad symbols with positive coefficients
// (a provably small non-negative amount of padding), or zero.
func (st *symtab) isPadOnly(p Poly) bool {
	for k, v := range p.t {
		if k == "" || strings.Contains(k, monoSep) || v <= 0 {
			return false
		}
		if st.info[k].Kind != "pad" {
			return false
		}
	}
	return true
}
