package c06

import (
	"fmt"
	"go/token"
	"go/types"
	"sort"
	"strings"

	"golang.org/x/tools/go/ssa"

	"polycheck/ssau"
)

// irange: what a static, field-based interval analysis knows about an integer value:
// a finite set of constants, possibly "some value in [0,∞)" (a length or a fresh position),
// possibly nothing at all. nilp: the value is read through a pointer that may be nil
// (the read then does not happen; callers test the pointer first).
type irange struct {
	consts  map[int64]bool
	nonNeg  bool
	unknown bool
	nilp    bool
	// provenance of the non-negative part: positions in Writer slice fields (len(w.X) taken around an
	// append), or some other non-negative quantity (length of input data, loop counter)
	pos    map[string]bool
	nonpos bool
}

func (r *irange) addConst(c int64) {
	if r.consts == nil {
		r.consts = map[int64]bool{}
	}
	r.consts[c] = true
}

func (r *irange) union(o irange) {
	for c := range o.consts {
		r.addConst(c)
	}
	r.nonNeg = r.nonNeg || o.nonNeg
	r.nonpos = r.nonpos || o.nonpos
	for p := range o.pos {
		if r.pos == nil {
			r.pos = map[string]bool{}
		}
		r.pos[p] = true
	}
	r.unknown = r.unknown || o.unknown
	r.nilp = r.nilp || o.nilp
}

func (r irange) contains(c int64) bool {
	return r.unknown || r.consts[c] || (r.nonNeg && c >= 0)
}

func (r irange) String() string {
	var parts []string
	var cs []int64
	for c := range r.consts {
		cs = append(cs, c)
	}
	sort.Slice(cs, func(i, j int) bool { return cs[i] < cs[j] })
	for _, c := range cs {
		parts = append(parts, fmt.Sprint(c))
	}
	if r.nonNeg {
		parts = append(parts, "[0,∞)")
	}
	if r.unknown {
		parts = append(parts, "?")
	}
	if len(parts) == 0 {
		return "∅"
	}
	return "{" + strings.Join(parts, ", ") + "}"
}

type ranger struct {
	w       *world
	valMemo map[ssa.Value]*irange
	busyV   map[ssa.Value]bool
	retMemo map[string]*irange
	busyR   map[string]bool
	fldMemo map[*types.Var]*irange
	busyF   map[*types.Var]bool
}

func newRanger(w *world) *ranger {
	return &ranger{w: w, valMemo: map[ssa.Value]*irange{}, busyV: map[ssa.Value]bool{}, retMemo: map[string]*irange{},
		busyR: map[string]bool{}, fldMemo: map[*types.Var]*irange{}, busyF: map[*types.Var]bool{}}
}

func isPtrToInt(t types.Type) bool {
	p, ok := t.Underlying().(*types.Pointer)
	return ok && isIntType(p.Elem())
}

// value: range of an integer-typed SSA value.
func (g *ranger) value(v ssa.Value) irange {
	if r, ok := g.valMemo[v]; ok {
		return *r
	}
	if g.busyV[v] {
		return irange{unknown: true} // cycle that is not a recognised induction: give up (sound)
	}
	g.busyV[v] = true
	r := g.valueUncached(v)
	delete(g.busyV, v)
	g.valMemo[v] = &r
	return r
}

func (g *ranger) valueUncached(v ssa.Value) irange {
	var r irange
	// the counter of a loop that scans a Writer slice names an existing element of that slice
	if f := g.scanPosition(v); f != "" {
		r.nonNeg = true
		r.pos = map[string]bool{f: true}
		return r
	}
	switch x := v.(type) {
	case *ssa.Const:
		if c, ok := ssau.ConstInt(x); ok {
			r.addConst(c)
		} else if x.Value == nil && isIntType(x.Type()) {
			r.addConst(0)
		} else {
			r.unknown = true
		}
	case *ssa.Convert:
		return g.value(x.X)
	case *ssa.ChangeType:
		return g.value(x.X)
	case *ssa.Phi:
		// induction: φ = [c0, φ+k (k>0), …]  ⇒  values c0, c0+k, c0+2k, …
		selfInc, minStep := false, int64(0)
		var others []ssa.Value
		for _, e := range x.Edges {
			if bo, ok := e.(*ssa.BinOp); ok && bo.Op == token.ADD && bo.X == ssa.Value(x) {
				if k, ok := ssau.ConstInt(bo.Y); ok && k > 0 {
					if !selfInc || k < minStep {
						minStep = k
					}
					selfInc = true
					continue
				}
			}
			others = append(others, e)
		}
		for _, e := range others {
			r.union(g.value(e))
		}
		if selfInc {
			lo, any := int64(0), false
			for c := range r.consts {
				if !any || c < lo {
					lo, any = c, true
				}
			}
			switch {
			case r.unknown:
			case !any && r.nonNeg, any && lo+minStep >= 0:
				r.nonNeg = true
				r.nonpos = true // a counter, not a position
			default:
				r.unknown = true
			}
		}
	case *ssa.Call:
		switch ssau.Builtin(x) {
		case "len", "cap":
			r.nonNeg = true
			if f := g.writerSliceOfLen(x); f != "" {
				r.pos = map[string]bool{f: true}
			} else {
				r.nonpos = true
			}
			return r
		case "":
		default:
			r.unknown = true
			return r
		}
		if cal := x.Common().StaticCallee(); cal != nil && g.w.scan[cal] != nil {
			return g.ret(cal, 0)
		}
		r.unknown = true
	case *ssa.Extract:
		switch t := x.Tuple.(type) {
		case *ssa.Call:
			if cal := t.Common().StaticCallee(); cal != nil && g.w.scan[cal] != nil {
				return g.ret(cal, x.Index)
			}
			r.unknown = true
		case *ssa.Lookup:
			if x.Index == 0 {
				return g.mapValues(t.X)
			}
			r.unknown = true
		case *ssa.Next:
			if rg, ok := t.Iter.(*ssa.Range); ok && x.Index == 2 {
				return g.mapValues(rg.X)
			}
			r.unknown = true
		default:
			r.unknown = true
		}
	case *ssa.Lookup:
		r = g.mapValues(x.X)
		r.addConst(0) // absent key
	case *ssa.BinOp:
		c, isC := ssau.ConstInt(x.Y)
		if !isC || (x.Op != token.ADD && x.Op != token.SUB) {
			r.unknown = true
			return r
		}
		if x.Op == token.SUB {
			c = -c
		}
		if c < 0 && g.lenAfterAppend(x.X, -c) {
			r.nonNeg = true
			if lc, ok := x.X.(*ssa.Call); ok {
				if f := g.writerSliceOfLen(lc); f != "" {
					r.pos = map[string]bool{f: true}
				}
			}
			return r
		}
		in := g.value(x.X)
		for k := range in.consts {
			r.addConst(k + c)
		}
		r.unknown = in.unknown
		r.nilp = in.nilp
		if in.nonNeg {
			if c >= 0 {
				r.nonNeg = true
				if c == 0 {
					r.pos, r.nonpos = in.pos, in.nonpos
				} else {
					r.nonpos = true
				}
			} else {
				r.unknown = true
			}
		}
	case *ssa.UnOp:
		if x.Op != token.MUL {
			r.unknown = true
			return r
		}
		return g.pointee(x.X)
	case *ssa.Field:
		if f := ssau.FieldOf(x); f != nil {
			return g.field(f)
		}
		r.unknown = true
	case *ssa.Parameter:
		fn := x.Parent()
		idx := -1
		for i, p := range fn.Params {
			if p == x {
				idx = i
			}
		}
		sites := g.w.callSites(fn, g.w.fns)
		if idx < 0 || len(sites) == 0 || fn.Object() == nil || fn.Object().Exported() {
			r.unknown = true
			return r
		}
		for _, s := range sites {
			if idx < len(s.Common().Args) {
				r.union(g.value(s.Common().Args[idx]))
			}
		}
	default:
		r.unknown = true
	}
	return r
}

// pointee: range of the integer read through pointer p.
func (g *ranger) pointee(p ssa.Value) irange {
	var r irange
	switch x := p.(type) {
	case *ssa.Const:
		r.nilp = true
	case *ssa.Alloc:
		n := 0
		for _, ref := range ssau.Refs(x) {
			if st, ok := ref.(*ssa.Store); ok && st.Addr == x {
				n++
				r.union(g.value(st.Val))
			}
		}
		if n == 0 {
			r.addConst(0)
		}
	case *ssa.FieldAddr:
		f := ssau.FieldOf(x)
		// a field of a local struct variable that is only written field by field: its own stores
		if al, _ := rootAlloc(x); al != nil && !wholeStores(al) {
			n := 0
			for _, fa := range sameFieldAddrs(al, x) {
				for _, ref := range ssau.Refs(fa) {
					if st, ok := ref.(*ssa.Store); ok && st.Addr == fa {
						n++
						r.union(g.value(st.Val))
					}
				}
			}
			if n > 0 {
				return r
			}
		}
		if f != nil {
			return g.field(f)
		}
		r.unknown = true
	case *ssa.Phi:
		for _, e := range x.Edges {
			r.union(g.pointee(e))
		}
	case *ssa.Call:
		if cal := x.Common().StaticCallee(); cal != nil && g.w.scan[cal] != nil {
			return g.ret(cal, 0)
		}
		r.unknown = true
	case *ssa.Extract:
		if t, ok := x.Tuple.(*ssa.Call); ok {
			if cal := t.Common().StaticCallee(); cal != nil && g.w.scan[cal] != nil {
				return g.ret(cal, x.Index)
			}
		}
		r.unknown = true
	case *ssa.UnOp:
		// a pointer variable: whatever was stored into it
		if al, ok := x.X.(*ssa.Alloc); ok && x.Op == token.MUL {
			n := 0
			for _, ref := range ssau.Refs(al) {
				if st, ok := ref.(*ssa.Store); ok && st.Addr == al {
					n++
					r.union(g.pointee(st.Val))
				}
			}
			if n == 0 {
				r.nilp = true
			}
			return r
		}
		if fa, ok := x.X.(*ssa.FieldAddr); ok && x.Op == token.MUL {
			// pointer kept in a struct field: pointees of everything stored in that field
			if f := ssau.FieldOf(fa); f != nil {
				return g.fieldPointee(f)
			}
		}
		r.unknown = true
	case *ssa.ChangeType:
		return g.pointee(x.X)
	default:
		r.unknown = true
	}
	return r
}

func wholeStores(al *ssa.Alloc) bool {
	n := 0
	for _, ref := range ssau.Refs(al) {
		if st, ok := ref.(*ssa.Store); ok && st.Addr == al {
			n++
		}
	}
	return n > 0
}

// sameFieldAddrs: all FieldAddr instructions below al with the same field path as fa.
func sameFieldAddrs(al *ssa.Alloc, fa *ssa.FieldAddr) []*ssa.FieldAddr {
	_, want := rootAlloc(fa)
	var out []*ssa.FieldAddr
	var walk func(v ssa.Value)
	walk = func(v ssa.Value) {
		for _, ref := range ssau.Refs(v) {
			if f, ok := ref.(*ssa.FieldAddr); ok {
				if _, p := rootAlloc(f); p == want {
					out = append(out, f)
				}
				walk(f)
			}
		}
	}
	walk(al)
	return out
}

// ret: range of result #i of package function fn (the pointee, for pointer results).
func (g *ranger) ret(fn *ssa.Function, i int) irange {
	key := fmt.Sprintf("%p#%d", fn, i)
	if r, ok := g.retMemo[key]; ok {
		return *r
	}
	if g.busyR[key] {
		return irange{}
	}
	g.busyR[key] = true
	var r irange
	if fn.Blocks == nil {
		r.unknown = true
	}
	for _, b := range fn.Blocks {
		rt, ok := b.Instrs[len(b.Instrs)-1].(*ssa.Return)
		if !ok || i >= len(rt.Results) {
			continue
		}
		v := rt.Results[i]
		switch {
		case isIntType(v.Type()):
			r.union(g.value(v))
		case isPtrToInt(v.Type()):
			r.union(g.pointee(v))
		default:
			r.unknown = true
		}
	}
	delete(g.busyR, key)
	g.retMemo[key] = &r
	return r
}

// field: union of everything stored into struct field f anywhere in the package (the types
// concerned are unexported or only built here), plus 0 when a literal omits the field.
func (g *ranger) field(f *types.Var) irange {
	if r, ok := g.fldMemo[f]; ok {
		return *r
	}
	if g.busyF[f] {
		return irange{}
	}
	g.busyF[f] = true
	var r irange
	for _, fn := range g.w.fns {
		ssau.AllInstrs(fn, func(in ssa.Instruction) {
			switch in := in.(type) {
			case *ssa.FieldAddr:
				if ssau.FieldOf(in) != f {
					return
				}
				for _, ref := range ssau.Refs(in) {
					if st, ok := ref.(*ssa.Store); ok && st.Addr == in {
						if isIntType(f.Type()) {
							r.union(g.value(st.Val))
						}
					}
				}
			case *ssa.Alloc:
				// a literal of the owning struct that never sets f
				st, ok := deref(in.Type()).Underlying().(*types.Struct)
				if !ok || in.Comment != "complit" {
					return
				}
				idx := -1
				for i := 0; i < st.NumFields(); i++ {
					if st.Field(i) == f {
						idx = i
					}
				}
				if idx < 0 {
					return
				}
				set := false
				for _, ref := range ssau.Refs(in) {
					if fa, ok := ref.(*ssa.FieldAddr); ok && fa.Field == idx {
						set = true
					}
				}
				if !set {
					r.addConst(0)
				}
			}
		})
	}
	delete(g.busyF, f)
	g.fldMemo[f] = &r
	return r
}

// fieldPointee: pointees of the pointers stored into field f.
func (g *ranger) fieldPointee(f *types.Var) irange {
	var r irange
	for _, fn := range g.w.fns {
		ssau.AllInstrs(fn, func(in ssa.Instruction) {
			fa, ok := in.(*ssa.FieldAddr)
			if !ok || ssau.FieldOf(fa) != f {
				return
			}
			for _, ref := range ssau.Refs(fa) {
				if st, ok := ref.(*ssa.Store); ok && st.Addr == fa {
					r.union(g.pointee(st.Val))
				}
			}
		})
	}
	return r
}

// mapValues: values stored into the Writer map field that m is loaded from.
func (g *ranger) mapValues(m ssa.Value) irange {
	var r irange
	u, ok := stripChange(m).(*ssa.UnOp)
	if !ok {
		r.unknown = true
		return r
	}
	fa, ok := u.X.(*ssa.FieldAddr)
	if !ok || !g.w.isWriterType(fa.X.Type()) {
		r.unknown = true
		return r
	}
	f := ssau.FieldOf(fa)
	mt, ok := f.Type().Underlying().(*types.Map)
	if !ok || !isIntType(mt.Elem()) {
		r.unknown = true
		return r
	}
	for _, fn := range g.w.fns {
		ssau.AllInstrs(fn, func(in ssa.Instruction) {
			mu, ok := in.(*ssa.MapUpdate)
			if ok && g.w.isLoadOfWriterField(stripChange(mu.Map), f) {
				r.union(g.value(mu.Value))
			}
		})
	}
	return r
}

// lenAfterAppend: v is len(w.X) and an append of at least k fixed elements to the same
// field dominates the read, so len(w.X)-k is a valid (non-negative) position.
func (g *ranger) lenAfterAppend(v ssa.Value, k int64) bool {
	call, ok := v.(*ssa.Call)
	if !ok || ssau.Builtin(call) != "len" {
		return false
	}
	u, ok := call.Common().Args[0].(*ssa.UnOp)
	if !ok {
		return false
	}
	fa, ok := u.X.(*ssa.FieldAddr)
	if !ok {
		return false
	}
	f := ssau.FieldOf(fa)
	found := false
	ssau.AllInstrs(call.Parent(), func(in ssa.Instruction) {
		st, ok := in.(*ssa.Store)
		if !ok || found {
			return
		}
		sfa, ok := st.Addr.(*ssa.FieldAddr)
		if !ok || ssau.FieldOf(sfa) != f || sfa.X != fa.X {
			return
		}
		ap, ok := st.Val.(*ssa.Call)
		if !ok || ssau.Builtin(ap) != "append" {
			return
		}
		// number of fixed elements: a slice of a varargs array
		n := int64(0)
		if sl, ok := ap.Common().Args[1].(*ssa.Slice); ok {
			if al, ok := sl.X.(*ssa.Alloc); ok {
				if at, ok := deref(al.Type()).Underlying().(*types.Array); ok {
					n = at.Len()
				}
			}
		}
		if n >= k && ssau.Before(st, call) {
			found = true
		}
	})
	return found
}

// writerSliceOfLen: call is len(w.X) for a slice field X of the Writer; returns X's name.
func (g *ranger) writerSliceOfLen(call *ssa.Call) string {
	if len(call.Common().Args) != 1 {
		return ""
	}
	u, ok := call.Common().Args[0].(*ssa.UnOp)
	if !ok {
		return ""
	}
	fa, ok := u.X.(*ssa.FieldAddr)
	if !ok || !g.w.isWriterType(fa.X.Type()) {
		return ""
	}
	if f := ssau.FieldOf(fa); f != nil {
		return f.Name()
	}
	return ""
}

// scanPosition: v is the iteration number of a loop whose header keeps it below len(w.X)
// (`for i := range w.X`, `for i := 0; i < len(w.X); i++`): inside the loop it is a valid position in
// w.X. Returns X's name or "".
func (g *ranger) scanPosition(v ssa.Value) string {
	var phi *ssa.Phi
	offset := int64(0)
	switch x := v.(type) {
	case *ssa.Phi:
		phi = x
	case *ssa.BinOp:
		if p, ok := x.X.(*ssa.Phi); ok && x.Op == token.ADD {
			if c, ok := ssau.ConstInt(x.Y); ok {
				phi, offset = p, c
			}
		}
	}
	if phi == nil {
		return ""
	}
	initOK, stepOK := false, false
	for _, e := range phi.Edges {
		if c, ok := ssau.ConstInt(e); ok {
			if c+offset == 0 {
				initOK = true
			} else {
				return ""
			}
			continue
		}
		bo, ok := e.(*ssa.BinOp)
		if !ok || bo.Op != token.ADD || bo.X != ssa.Value(phi) {
			return ""
		}
		if c, ok := ssau.ConstInt(bo.Y); !ok || c != 1 {
			return ""
		}
		stepOK = true
	}
	if !initOK || !stepOK {
		return ""
	}
	ifi, ok := phi.Block().Instrs[len(phi.Block().Instrs)-1].(*ssa.If)
	if !ok {
		return ""
	}
	bo, ok := ifi.Cond.(*ssa.BinOp)
	if !ok || bo.Op != token.LSS || bo.X != v {
		return ""
	}
	// only inside the loop (true branch) is the bound known to hold; v is used there or on a break out of it
	lc, ok := bo.Y.(*ssa.Call)
	if !ok || ssau.Builtin(lc) != "len" {
		return ""
	}
	return g.writerSliceOfLen(lc)
}
