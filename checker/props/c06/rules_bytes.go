package c06

import (
	"fmt"
	"go/constant"
	"go/types"
	"sort"
	"strings"

	"golang.org/x/tools/go/ssa"

	"polycheck/ssau"
)

// glTF 2.0 tables (from the specification, not from the repository).
var gltfComponents = map[string]int64{"SCALAR": 1, "VEC2": 2, "VEC3": 3, "VEC4": 4, "MAT2": 4, "MAT3": 9, "MAT4": 16}
var gltfCompSize = map[int64]int64{5120: 1, 5121: 1, 5122: 2, 5123: 2, 5125: 4, 5126: 4}
var gltfCompWire = map[int64]string{5120: "i8", 5121: "u8", 5122: "i16", 5123: "u16", 5125: "u32", 5126: "f32"}
var gltfCompName = map[int64]string{5120: "BYTE", 5121: "UNSIGNED_BYTE", 5122: "SHORT", 5123: "UNSIGNED_SHORT", 5125: "UNSIGNED_INT", 5126: "FLOAT"}

// caseSet: which component types reach parameter p of fn from call sites in the package.
func (w *world) caseSet(fn *ssa.Function, pi int, callers []*ssa.Function) (vals []int64, complete bool) {
	set := map[int64]bool{}
	complete = true
	sites := 0
	var fromValue func(v ssa.Value, depth int)
	fromValue = func(v ssa.Value, depth int) {
		switch x := v.(type) {
		case *ssa.Const:
			if i, ok := ssau.ConstInt(x); ok {
				set[i] = true
				return
			}
		case *ssa.Phi:
			if depth < 4 {
				for _, e := range x.Edges {
					fromValue(e, depth+1)
				}
				return
			}
		case *ssa.Call:
			if cal := x.Common().StaticCallee(); cal != nil && cal.Blocks != nil && depth < 4 {
				// a table function of the attribute name: evaluate it on every attribute constant and on a name
				// that is none of them
				if vals, ok := w.tableValues(cal); ok {
					for _, v := range vals {
						set[v] = true
					}
					return
				}
				okAll := true
				for _, b := range cal.Blocks {
					if r, ok := b.Instrs[len(b.Instrs)-1].(*ssa.Return); ok && len(r.Results) == 1 {
						before := len(set)
						fromValue(r.Results[0], depth+1)
						_ = before
					} else if _, isRet := b.Instrs[len(b.Instrs)-1].(*ssa.Return); isRet {
						okAll = false
					}
				}
				if okAll {
					return
				}
			}
		case *ssa.ChangeType:
			fromValue(x.X, depth)
			return
		case *ssa.Convert:
			fromValue(x.X, depth)
			return
		}
		complete = false
	}
	for _, caller := range callers {
		ssau.AllInstrs(caller, func(in ssa.Instruction) {
			call, ok := in.(ssa.CallInstruction)
			if !ok || call.Common().StaticCallee() != fn {
				return
			}
			sites++
			args := call.Common().Args
			if pi < len(args) {
				fromValue(args[pi], 0)
			}
		})
	}
	if sites == 0 {
		complete = false
	}
	if !complete {
		set = map[int64]bool{}
		for v := range w.compVals {
			set[v] = true
		}
	}
	for v := range set {
		vals = append(vals, v)
	}
	sort.Slice(vals, func(i, j int) bool { return vals[i] < vals[j] })
	return vals, complete
}

// tableValues evaluates a one-string-parameter package function on all modeling.*Attribute
// constants plus an unknown name and returns the integer constants it can yield.
func (w *world) tableValues(fn *ssa.Function) ([]int64, bool) {
	if fn.Pkg != w.pkg || len(fn.Params) != 1 {
		return nil, false
	}
	if b, ok := fn.Params[0].Type().Underlying().(*types.Basic); !ok || b.Kind() != types.String {
		return nil, false
	}
	mp := w.c.P.All[modelingPath]
	if mp == nil {
		return nil, false
	}
	args := []string{"\x00verif-unknown-attribute"}
	for _, n := range mp.Types.Scope().Names() {
		if k, ok := mp.Types.Scope().Lookup(n).(*types.Const); ok && strings.HasSuffix(n, "Attribute") && k.Val().Kind() == constant.String {
			args = append(args, constant.StringVal(k.Val()))
		}
	}
	set := map[int64]bool{}
	for _, arg := range args {
		got, ok := w.evalConstFn(fn, arg)
		if !ok {
			return nil, false
		}
		c, isC := numConst(got)
		if !isC {
			return nil, false
		}
		set[c] = true
	}
	var out []int64
	for v := range set {
		out = append(out, v)
	}
	sort.Slice(out, func(i, j int) bool { return out[i] < out[j] })
	return out, true
}

type epoch struct {
	base   Poly // value of the counter at the start of the region (function entry / loop iteration)
	old    Poly
	delta  Poly
	closed bool
	writes []Event
	at     ssa.Instruction
}

type viewRec struct {
	ev     Event
	off    AV
	length AV
	buffer AV
	target AV
	index  Poly
	epoch  int
}

type accRec struct {
	ev    Event
	bv    AV
	ct    AV
	typ   AV
	count AV
	boff  AV
	index Poly
}

func structField(v AV, name string) (AV, bool) {
	sv, ok := v.(StructV)
	if !ok {
		return nil, false
	}
	st, ok := sv.T.Underlying().(*types.Struct)
	if !ok {
		return nil, false
	}
	for i := 0; i < st.NumFields(); i++ {
		if st.Field(i).Name() == name && i < len(sv.F) {
			return sv.F[i], true
		}
	}
	return nil, false
}

func derefNum(st *State, v AV) (Poly, bool) {
	switch x := v.(type) {
	case Num:
		return x.P, true
	case Ptr:
		t, fld := typeAtPath(x.Obj.T, x.Path)
		if t == nil {
			return Poly{}, false
		}
		if n, ok := st.mem.read(x.Obj, x.Path, t, fld).(Num); ok {
			return n.P, true
		}
	}
	return Poly{}, false
}

func konstString(v AV) (string, bool) {
	k, ok := v.(Konst)
	if !ok || k.V == nil || k.V.Kind() != constant.String {
		return "", false
	}
	return constant.StringVal(k.V), true
}

// checkSyncFunction runs fn (one case) and records SYM-BYTES, VIEW-1, ALIGN-1.
func (w *world) checkSyncFunction(a *agg, fn *ssa.Function, bind map[*ssa.Parameter]AV, caseName string, stats *counters) {
	P := w.c.P
	fname := P.FuncName(fn)
	cfg := w.execConfig()
	for k, v := range bind {
		cfg.Bind[k] = v
	}
	x := NewExec(cfg)
	res := x.Run(fn)
	stats.paths += len(res)
	stats.steps += x.steps
	key := func(ct string) string {
		if ct == "" {
			ct = caseName
		}
		if ct == "" {
			return fname
		}
		return fname + "#" + ct
	}
	if x.aborted != "" {
		a.undecide("SYM-BYTES", key(""), P.Pos(fn.Pos()), "symbolic execution gave up: "+x.aborted)
		return
	}
	sync := w.isSync(fn)
	fBW, fBV, fAcc := w.field["bytesWritten"], w.field["bufferViews"], w.field["accessors"]
	returning := 0
	for _, r := range res {
		if r.Kind == "panic" {
			continue
		}
		returning++
		st := r.St
		if len(st.imprecise) > 0 {
			a.undecide("SYM-BYTES", key(""), P.Pos(fn.Pos()), "byte effect not expressible: "+strings.Join(st.imprecise, "; "))
			continue
		}
		D := Poly{}
		epochs := []*epoch{{}}
		base, haveBase := Poly{}, false
		setBase := func(e Event) {
			if n, ok := e.Cells[fBW].(Num); ok {
				base, haveBase = n.P, true
				epochs[len(epochs)-1].base = base
			}
		}
		var views []*viewRec
		var accs []*accRec
		bad := false
		for _, e := range st.events {
			cur := epochs[len(epochs)-1]
			pos := P.Pos(ssau.PosOf(e.Instr))
			switch {
			case e.Kind == "begin":
				setBase(e)
			case e.Kind == "write" && e.Sink == "payload":
				D = D.add(e.Bytes.mul(e.Mult))
				cur.writes = append(cur.writes, e)
			case e.Kind == "store" && e.Field == fBW:
				o, ok1 := e.Old.(Num)
				n, ok2 := e.New.(Num)
				if !ok1 || !ok2 {
					a.undecide("SYM-BYTES", key(""), pos, "bytesWritten assigned a value the rule cannot express")
					bad = true
					continue
				}
				cur.old, cur.delta, cur.closed, cur.at = o.P, n.P.sub(o.P), true, e.Instr
				D = D.sub(cur.delta)
				epochs = append(epochs, &epoch{base: base})
			case (e.Kind == "append" || e.Kind == "overwrite") && e.Field == fBV:
				if e.Kind == "overwrite" || len(e.Elems) != 1 {
					a.undecide("VIEW-1", key(""), pos, "w.bufferViews changed in a form the rule cannot read (not a single-element append)")
					bad = true
					continue
				}
				v := &viewRec{ev: e, index: e.LenOld, epoch: len(epochs) - 1}
				v.off, _ = structField(e.Elems[0], "ByteOffset")
				v.length, _ = structField(e.Elems[0], "ByteLength")
				v.buffer, _ = structField(e.Elems[0], "Buffer")
				v.target, _ = structField(e.Elems[0], "Target")
				views = append(views, v)
			case (e.Kind == "append" || e.Kind == "overwrite") && e.Field == fAcc:
				if e.Kind == "overwrite" || len(e.Elems) != 1 {
					a.undecide("VIEW-1", key(""), pos, "w.accessors changed in a form the rule cannot read (not a single-element append)")
					bad = true
					continue
				}
				ac := &accRec{ev: e, index: e.LenOld}
				ac.bv, _ = structField(e.Elems[0], "BufferView")
				ac.ct, _ = structField(e.Elems[0], "ComponentType")
				ac.typ, _ = structField(e.Elems[0], "Type")
				ac.count, _ = structField(e.Elems[0], "Count")
				ac.boff, _ = structField(e.Elems[0], "ByteOffset")
				accs = append(accs, ac)
			case e.Kind == "boundary":
				if e.What == "loop-entry" {
					setBase(e)
				}
				if !st.zeroUnderFacts(D) {
					a.violate("SYM-BYTES", key(""), pos, fmt.Sprintf("at the %s of the loop %s payload bytes are not accounted in bytesWritten", e.What, D))
					bad = true
				}
			case e.Kind == "call":
				if e.Callee != nil && (w.isSync(e.Callee) || w.reachesSync(e.Callee)) && !st.zeroUnderFacts(D) {
					a.violate("SYM-BYTES", key(""), pos, fmt.Sprintf("%s is called while %s payload bytes are not yet accounted in bytesWritten: its bufferViews start at a stale offset", e.Callee.Name(), D))
					bad = true
				}
			}
		}
		if bad {
			continue
		}
		// pair accessors with views first: the component type names the construct
		viewCT := map[*viewRec]string{}
		viewAcc := map[*viewRec]*accRec{}
		for _, ac := range accs {
			pos := P.Pos(ssau.PosOf(ac.ev.Instr))
			ctName := ""
			var ctVal int64 = -1
			if n, ok := ac.ct.(Num); ok {
				if c, ok := n.P.constVal(); ok {
					ctVal = c
					ctName = gltfCompName[c]
				}
			}
			bv, ok := derefNum(st, ac.bv)
			if !ok {
				a.undecide("VIEW-1", key(ctName), pos, "accessor.BufferView is not an integer expression the rule can read")
				continue
			}
			var pair *viewRec
			for _, v := range views {
				if st.zeroUnderFacts(v.index.sub(bv)) {
					pair = v
				}
			}
			if pair == nil {
				idx := []string{}
				for _, v := range views {
					idx = append(idx, v.index.String())
				}
				a.violate("VIEW-1", key(ctName), pos, fmt.Sprintf("accessor.BufferView = %s, but the bufferViews appended by this function land at index [%s]", bv, strings.Join(idx, ", ")))
				continue
			}
			viewCT[pair] = ctName
			viewAcc[pair] = ac
			// element arithmetic
			ts, okT := konstString(ac.typ)
			comps, okC := gltfComponents[ts]
			size, okS := gltfCompSize[ctVal]
			cnt, okN := ac.count.(Num)
			ln, okL := pair.length.(Num)
			if !okT || !okC || !okS || !okN || !okL {
				a.undecide("VIEW-1", key(ctName), pos, "accessor type / componentType / count are not constants-or-polynomials the rule can read")
				continue
			}
			need := cnt.P.scale(comps * size)
			if d := ln.P.sub(need); !st.zeroUnderFacts(d) && !x.syms.isPadOnly(d) {
				a.violate("VIEW-1", key(ctName), pos, fmt.Sprintf("accessor needs count·components·size = %s bytes but its bufferView has ByteLength %s", need, ln.P),
					"type="+ts, "componentType="+ctName)
				continue
			}
			if bo, ok := ac.boff.(Num); ok && !bo.P.isZero() {
				a.violate("VIEW-1", key(ctName), pos, "accessor.ByteOffset is non-zero although the accessor owns its whole bufferView")
				continue
			}
			a.hold("VIEW-1", key(ctName), pos, "accessor.BufferView = "+bv.String()+" = index of the paired bufferView", "count·"+fmt.Sprint(comps*size)+" = ByteLength = "+ln.P.String())
		}
		// fallback name when a view could not be paired: the component type shared by all accessors of the path
		uniqueCT := ""
		for i, ac := range accs {
			name := ""
			if n, ok := ac.ct.(Num); ok {
				if c, ok := n.P.constVal(); ok {
					name = gltfCompName[c]
				}
			}
			if i == 0 {
				uniqueCT = name
			} else if name != uniqueCT {
				uniqueCT = ""
			}
		}
		// per epoch: bytes, offset, length, wire kind, alignment
		for ei, ep := range epochs {
			if !ep.closed {
				continue
			}
			pos := P.Pos(ssau.PosOf(ep.at))
			// which views describe this epoch?
			var mine []*viewRec
			for _, v := range views {
				off, ok := v.off.(Num)
				if !ok {
					continue
				}
				if (v.epoch == ei || v.epoch == ei+1) && st.zeroUnderFacts(off.P.sub(ep.old)) {
					mine = append(mine, v)
				}
			}
			ct := ""
			for _, v := range mine {
				if viewCT[v] != "" {
					ct = viewCT[v]
				}
			}
			if ct == "" {
				ct = uniqueCT
			}
			written := Poly{}
			for _, e := range ep.writes {
				written = written.add(e.Bytes.mul(e.Mult))
			}
			if d := written.sub(ep.delta); !st.zeroUnderFacts(d) {
				a.violate("SYM-BYTES", key(ct), pos, fmt.Sprintf("bytesWritten advances by %s but %s bytes were appended to the payload since the previous advance", ep.delta, written))
			} else {
				a.hold("SYM-BYTES", key(ct), pos, "appended = "+written.String(), "bytesWritten += "+ep.delta.String())
			}
			// ALIGN-1 (a): every view of this epoch starts on a 4-byte boundary relative to the region start
			if haveBase {
				rel := ep.old.sub(ep.base)
				if ok, counter := x.syms.divisibleBy(rel, 4); !ok && len(mine) > 0 {
					a.violate("ALIGN-1", key(ct), pos, fmt.Sprintf("this bufferView starts %s bytes after the (aligned) start of the function's data, not a multiple of 4 (term %s)", rel, counter))
				}
			}
			for _, v := range mine {
				vpos := P.Pos(ssau.PosOf(v.ev.Instr))
				ln, ok := v.length.(Num)
				if !ok {
					a.undecide("VIEW-1", key(ct), vpos, "bufferView.ByteLength is not an integer expression the rule can read")
					continue
				}
				if d := ep.delta.sub(ln.P); !st.zeroUnderFacts(d) && !x.syms.isPadOnly(d) {
					a.violate("VIEW-1", key(ct), vpos, fmt.Sprintf("bufferView.ByteLength = %s but the data of this view is %s bytes", ln.P, ep.delta))
					continue
				}
				if b, ok := v.buffer.(Num); !ok || !b.P.isZero() {
					a.violate("VIEW-1", key(ct), vpos, "bufferView.Buffer is not 0 although the writer produces a single buffer")
					continue
				}
				// wire kind of the data against the accessor's component type
				if ac := viewAcc[v]; ac != nil {
					if n, ok := ac.ct.(Num); ok {
						if c, ok := n.P.constVal(); ok {
							want := gltfCompWire[c]
							mism := ""
							for _, e := range ep.writes {
								if e.Wire != want {
									mism = e.Wire
								}
							}
							if mism != "" {
								a.violate("VIEW-1", key(ct), vpos, fmt.Sprintf("accessor componentType %s expects %s scalars but the data is written as %s", gltfCompName[c], want, mism))
								continue
							}
						}
					}
				}
				a.hold("VIEW-1", key(ct), vpos, "ByteOffset = bytesWritten before the advance = "+ep.old.String(), "ByteLength = "+ln.P.String())
			}
		}
		// views that match no epoch
		for _, v := range views {
			matched := false
			off, ok := v.off.(Num)
			for ei, ep := range epochs {
				if ok && ep.closed && (v.epoch == ei || v.epoch == ei+1) && st.zeroUnderFacts(off.P.sub(ep.old)) {
					matched = true
				}
			}
			if !matched {
				vpos := P.Pos(ssau.PosOf(v.ev.Instr))
				cands := []string{}
				for ei, ep := range epochs {
					if ep.closed && (v.epoch == ei || v.epoch == ei+1) {
						cands = append(cands, ep.old.String())
					}
				}
				offs := "?"
				if ok {
					offs = off.P.String()
				}
				a.violate("VIEW-1", key(viewCT[v]), vpos, fmt.Sprintf("bufferView.ByteOffset = %s is not the value bytesWritten had before the advance that accounts this view's data (candidates: [%s])", offs, strings.Join(cands, ", ")))
			}
		}
		// views need an accessor
		for _, v := range views {
			if viewAcc[v] == nil {
				a.violate("VIEW-1", key(""), P.Pos(ssau.PosOf(v.ev.Instr)), "a bufferView is appended but no accessor appended by this function references its index")
			}
		}
		// ALIGN-1 (b): the region leaves the counter on a 4-byte boundary (so the next view, which may hold
		// FLOAT / UNSIGNED_INT data, is aligned)
		if haveBase {
			last := base
			var at ssa.Instruction
			for _, ep := range epochs {
				if ep.closed {
					last = ep.old.add(ep.delta)
					at = ep.at
				}
			}
			if at != nil {
				adv := last.sub(base)
				if ok, counter := x.syms.divisibleBy(adv, 4); !ok {
					a.violate("ALIGN-1", key(uniqueCT), P.Pos(ssau.PosOf(at)), fmt.Sprintf("bytesWritten advances by %s in total, not a multiple of 4 (term %s), and no padding follows: the next bufferView starts misaligned (glTF: accessor offset must be a multiple of the component size; FLOAT and UNSIGNED_INT need 4)", adv, counter))
				} else {
					a.hold("ALIGN-1", key(uniqueCT), P.Pos(ssau.PosOf(at)), "total advance "+adv.String()+" ≡ 0 (mod 4)")
				}
			}
		}
		if !st.zeroUnderFacts(D) {
			where := "returns"
			if r.Kind == "latch" {
				where = "finishes a loop iteration"
			}
			a.violate("SYM-BYTES", key(""), P.Pos(fn.Pos()), fmt.Sprintf("the function %s with %s payload bytes not accounted in bytesWritten", where, D))
		} else if !sync {
			a.hold("SYM-BYTES", key(""), P.Pos(fn.Pos()), "no unaccounted payload bytes on any path")
		}
	}
	if returning == 0 {
		a.undecide("SYM-BYTES", key(""), P.Pos(fn.Pos()), "no returning path found")
	}
}

type counters struct {
	paths, steps, roots, cases int
}
