package c06

import (
	"fmt"
	"go/constant"
	"go/token"
	"go/types"
	"math"
	"strings"

	"golang.org/x/tools/go/ssa"

	"polycheck/ssau"
)

const vectorPrefix = "github.com/EliCDavis/vector/"

var compOrder = map[string]int{"X": 0, "Y": 1, "Z": 2, "W": 3}

// componentOf: v is recv.X()/Y()/Z()/W() of an EliCDavis/vector type.
func componentOf(v ssa.Value) (recv ssa.Value, comp int, ok bool) {
	call, isCall := stripConv(v).(*ssa.Call)
	if !isCall {
		return nil, 0, false
	}
	obj := ssau.CalleeObj(call)
	if obj == nil || obj.Pkg() == nil || !strings.HasPrefix(obj.Pkg().Path(), vectorPrefix) || len(call.Common().Args) != 1 {
		return nil, 0, false
	}
	c, isComp := compOrder[obj.Name()]
	if !isComp || ssau.RecvNamed(obj) == nil {
		return nil, 0, false
	}
	return call.Common().Args[0], c, true
}

func sinkValueOperand(call ssa.CallInstruction) ssa.Value {
	args := call.Common().Args
	if len(args) == 0 {
		return nil
	}
	return args[len(args)-1]
}

// ruleAxis: AXIS-3. Components of one vector are written / listed in X,Y,Z,W order.
func (w *world) ruleAxis(a *agg) {
	P := w.c.P
	for _, fn := range w.all {
		fname := P.FuncName(fn)
		// (a) consecutive sink writes of components of one receiver, per block
		for _, b := range fn.Blocks {
			type wr struct {
				recv ssa.Value
				comp int
				in   ssa.Instruction
			}
			var seq []wr
			for _, in := range b.Instrs {
				call, ok := in.(ssa.CallInstruction)
				if !ok || !isSinkPrimitive(call) {
					continue
				}
				v := sinkValueOperand(call)
				if v == nil {
					continue
				}
				if r, c, ok := componentOf(v); ok {
					seq = append(seq, wr{r, c, in})
				}
			}
			// group by receiver in order
			byRecv := map[ssa.Value][]wr{}
			var order []ssa.Value
			for _, s := range seq {
				if _, ok := byRecv[s.recv]; !ok {
					order = append(order, s.recv)
				}
				byRecv[s.recv] = append(byRecv[s.recv], s)
			}
			for _, r := range order {
				ws := byRecv[r]
				if len(ws) < 2 {
					continue
				}
				construct := fname + "#component-writes"
				okSeq := true
				for i, s := range ws {
					if s.comp != i {
						okSeq = false
						a.violate("AXIS-3", construct, P.Pos(ssau.PosOf(s.in)), fmt.Sprintf("write #%d of the vector's components emits component %s; glTF element layout is X,Y,Z,W in order", i+1, "XYZW"[s.comp:s.comp+1]))
						break
					}
				}
				if okSeq {
					a.hold("AXIS-3", construct, P.Pos(ssau.PosOf(ws[0].in)), fmt.Sprintf("%d components written in axis order", len(ws)))
				}
			}
		}
		// (b) array literals whose elements are components of one receiver
		ssau.AllInstrs(fn, func(in ssa.Instruction) {
			al, ok := in.(*ssa.Alloc)
			if !ok {
				return
			}
			at, ok := deref(al.Type()).Underlying().(*types.Array)
			if !ok || at.Len() < 2 || at.Len() > 4 {
				return
			}
			var recv ssa.Value
			n, bad := 0, ""
			for _, r := range ssau.Refs(al) {
				ia, ok := r.(*ssa.IndexAddr)
				if !ok {
					continue
				}
				idx, ok := ssau.ConstInt(ia.Index)
				if !ok {
					continue
				}
				for _, rr := range ssau.Refs(ia) {
					st, ok := rr.(*ssa.Store)
					if !ok || st.Addr != ia {
						continue
					}
					rv, c, ok := componentOf(st.Val)
					if !ok {
						continue
					}
					if recv == nil {
						recv = rv
					}
					if rv != recv {
						continue
					}
					n++
					if int64(c) != idx {
						bad = fmt.Sprintf("element [%d] of the literal holds component %s", idx, "XYZW"[c:c+1])
					}
				}
			}
			if n < 2 {
				return
			}
			construct := fname + "#component-array"
			if bad != "" {
				a.violate("AXIS-3", construct, P.Pos(ssau.PosOf(al)), bad+"; arrays handed to glTF (min/max/translation) list components in X,Y,Z,W order")
			} else {
				a.hold("AXIS-3", construct, P.Pos(ssau.PosOf(al)), fmt.Sprintf("%d components listed in axis order", n))
			}
		})
	}
	w.c.R.Floor("AXIS-3", 8)
}

// writtenValues: values that fn hands to the payload (operands of sink primitives, and
// arguments of in-package raw writers), conversions stripped.
func (w *world) writtenValues(fn *ssa.Function) []ssa.Value {
	var out []ssa.Value
	ssau.AllInstrs(fn, func(in ssa.Instruction) {
		call, ok := in.(ssa.CallInstruction)
		if !ok {
			return
		}
		if isSinkPrimitive(call) {
			if v := sinkValueOperand(call); v != nil {
				out = append(out, stripConv(v))
				// a component of a vector: the vector counts as written too
				if r, _, ok := componentOf(v); ok {
					out = append(out, stripConv(r))
				}
			}
			return
		}
		cal := call.Common().StaticCallee()
		if cal != nil && w.scan[cal] != nil && w.inline(cal) && w.closure(cal).sinkCall {
			for _, arg := range call.Common().Args {
				out = append(out, stripConv(arg))
			}
		}
	})
	return out
}

// minmaxSources walks the accumulator behind a min/max array: which reducing functions feed it,
// and which data values are reduced.
func minmaxSources(acc ssa.Value) (fnNames map[string]bool, data []ssa.Value, inits []ssa.Value) {
	fnNames = map[string]bool{}
	seen := map[ssa.Value]bool{}
	var walk func(v ssa.Value, d int)
	walk = func(v ssa.Value, d int) {
		if seen[v] || d > 12 {
			return
		}
		seen[v] = true
		switch x := v.(type) {
		case *ssa.Phi:
			for i, e := range x.Edges {
				// `if d < acc { acc = d }` / `if d > acc { acc = d }`: the edge carries the datum, the branch
				// that selects it compares it with the accumulator
				if name, ok := comparedReduction(x, i, e); ok {
					fnNames[name] = true
					data = append(data, e)
					continue
				}
				if emptyDataEdge(x, i) {
					continue // default that survives only when there is no element at all
				}
				walk(e, d+1)
			}
		case *ssa.Call:
			obj := ssau.CalleeObj(x)
			if obj != nil && (obj.Name() == "Min" || obj.Name() == "Max") && len(x.Common().Args) == 2 {
				fnNames[obj.Name()] = true
				a0, a1 := x.Common().Args[0], x.Common().Args[1]
				// the accumulator side is the one that leads back to a phi / earlier reduction
				if leadsToAcc(a0) {
					walk(a0, d+1)
					data = append(data, a1)
				} else if leadsToAcc(a1) {
					walk(a1, d+1)
					data = append(data, a0)
				} else {
					data = append(data, a0, a1)
				}
				return
			}
			inits = append(inits, v)
		default:
			inits = append(inits, v)
		}
	}
	walk(acc, 0)
	return
}

// comparedReduction: edge i of phi carries value e, and the predecessor it comes from is selected by
// a branch comparing e with an accumulator (a phi): e < acc ⇒ "Min", e > acc ⇒ "Max".
func comparedReduction(phi *ssa.Phi, i int, e ssa.Value) (string, bool) {
	if _, isPhi := e.(*ssa.Phi); isPhi {
		return "", false
	}
	if b, ok := e.Type().Underlying().(*types.Basic); !ok || b.Info()&types.IsFloat == 0 {
		return "", false
	}
	pred := phi.Block().Preds[i]
	for _, ec := range edgeConds(pred) {
		bo, ok := ec.cond.(*ssa.BinOp)
		if !ok {
			continue
		}
		var op token.Token
		switch {
		case bo.X == e && leadsToAcc(bo.Y):
			op = bo.Op
		case bo.Y == e && leadsToAcc(bo.X):
			switch bo.Op { // acc op e  ==>  e op' acc
			case token.LSS:
				op = token.GTR
			case token.LEQ:
				op = token.GEQ
			case token.GTR:
				op = token.LSS
			case token.GEQ:
				op = token.LEQ
			default:
				continue
			}
		default:
			continue
		}
		if !ec.pos {
			op = negOp(op)
		}
		switch op {
		case token.LSS, token.LEQ:
			return "Min", true
		case token.GTR, token.GEQ:
			return "Max", true
		}
	}
	return "", false
}

// emptyDataEdge: edge i of phi is taken exactly when the iterator whose first element arrives on another
// edge is empty (`if it.Len() > 0 { acc = it.At(0) }`): the value on it never meets an element.
func emptyDataEdge(phi *ssa.Phi, i int) bool {
	if _, isConst := phi.Edges[i].(*ssa.Const); !isConst {
		return false
	}
	pred := phi.Block().Preds[i]
	ifi, ok := pred.Instrs[len(pred.Instrs)-1].(*ssa.If)
	if !ok || pred.Succs[0] == pred.Succs[1] {
		return false
	}
	onTrue := pred.Succs[0] == phi.Block()
	bo, ok := ifi.Cond.(*ssa.BinOp)
	if !ok {
		return false
	}
	lenSide, c, op := bo.X, bo.Y, bo.Op
	if _, isC := ssau.ConstInt(lenSide); isC { // 0 < len
		lenSide, c = bo.Y, bo.X
		switch op {
		case token.LSS:
			op = token.GTR
		case token.LEQ:
			op = token.GEQ
		case token.GTR:
			op = token.LSS
		case token.GEQ:
			op = token.LEQ
		}
	}
	k, isC := ssau.ConstInt(c)
	if !isC {
		return false
	}
	if !onTrue {
		op = negOp(op)
	}
	empty := (op == token.EQL && k == 0) || (op == token.LEQ && k == 0) || (op == token.LSS && k == 1)
	if !empty {
		return false
	}
	lc, ok := lenSide.(*ssa.Call)
	if !ok {
		return false
	}
	var recv ssa.Value
	if o := ssau.CalleeObj(lc); o != nil && o.Name() == "Len" && len(lc.Common().Args) == 1 {
		recv = lc.Common().Args[0]
	} else if ssau.Builtin(lc) == "len" {
		recv = lc.Common().Args[0]
	} else {
		return false
	}
	// another edge carries an element of the same container
	for j, e := range phi.Edges {
		if j == i {
			continue
		}
		switch x := e.(type) {
		case *ssa.Call:
			if o := ssau.CalleeObj(x); o != nil && o.Name() == "At" && len(x.Common().Args) == 2 {
				if sameLoadOrValue(x.Common().Args[0], recv) {
					return true
				}
			}
		case *ssa.UnOp:
			if ia, ok := x.X.(*ssa.IndexAddr); ok && ia.X == recv {
				return true
			}
		}
	}
	return false
}

// sameLoadOrValue: identical values, or two loads of the same address.
func sameLoadOrValue(a, b ssa.Value) bool {
	if a == b {
		return true
	}
	ua, ok1 := a.(*ssa.UnOp)
	ub, ok2 := b.(*ssa.UnOp)
	return ok1 && ok2 && ua.Op == token.MUL && ub.Op == token.MUL && ua.X == ub.X
}

// extremeSign classifies the start value of a reduction: +1 = the largest float64 / +Inf in every
// component, -1 = the smallest / -Inf, 0 = an element of the data (neutral), ok=false = anything else.
func (w *world) extremeSign(v ssa.Value, depth int) (int, bool) {
	if depth > 4 {
		return 0, false
	}
	switch x := v.(type) {
	case *ssa.Const:
		if x.Value == nil || (x.Value.Kind() != constant.Float && x.Value.Kind() != constant.Int) {
			return 0, false
		}
		max := constant.MakeFloat64(math.MaxFloat64)
		switch {
		case constant.Compare(constant.ToFloat(x.Value), token.EQL, max):
			return 1, true
		case constant.Compare(constant.ToFloat(x.Value), token.EQL, constant.UnaryOp(token.SUB, max, 0)):
			return -1, true
		}
		return 0, false
	case *ssa.Convert:
		return w.extremeSign(x.X, depth)
	case *ssa.ChangeType:
		return w.extremeSign(x.X, depth)
	case *ssa.UnOp:
		if x.Op == token.SUB {
			s, ok := w.extremeSign(x.X, depth+1)
			return -s, ok
		}
		if x.Op == token.MUL {
			// a once-assigned local
			if al, ok := x.X.(*ssa.Alloc); ok && singleStoreAlloc(al) {
				for _, r := range ssau.Refs(al) {
					if st, ok := r.(*ssa.Store); ok && st.Addr == al {
						return w.extremeSign(st.Val, depth+1)
					}
				}
			}
			// an element of the data: neutral start
			if _, ok := x.X.(*ssa.IndexAddr); ok {
				return 0, true
			}
		}
		return 0, false
	case *ssa.Call:
		obj := ssau.CalleeObj(x)
		if obj == nil || obj.Pkg() == nil {
			return 0, false
		}
		args := x.Common().Args
		switch {
		case obj.Pkg().Path() == "math" && obj.Name() == "Inf" && len(args) == 1:
			if c, ok := ssau.ConstInt(args[0]); ok {
				if c >= 0 {
					return 1, true
				}
				return -1, true
			}
			return 0, false
		case obj.Name() == "At" && ssau.RecvNamed(obj) != nil:
			return 0, true // first (or any) element of the iterator
		case strings.HasPrefix(obj.Pkg().Path(), vectorPrefix) && ssau.RecvNamed(obj) == nil && len(args) > 0:
			// vectorN.Fill(c) / vectorN.New(a,b,…): every component
			sign, set := 0, false
			for _, a := range args {
				s, ok := w.extremeSign(a, depth+1)
				if !ok || (set && s != sign) {
					return 0, false
				}
				sign, set = s, true
			}
			return sign, set
		}
		// a package helper that returns the start value
		if cal := x.Common().StaticCallee(); cal != nil && w.scan[cal] != nil && cal.Blocks != nil {
			sign, set := 0, false
			for _, b := range cal.Blocks {
				rt, ok := b.Instrs[len(b.Instrs)-1].(*ssa.Return)
				if !ok || len(rt.Results) != 1 {
					continue
				}
				s, ok := w.extremeSign(rt.Results[0], depth+1)
				if !ok || (set && s != sign) {
					return 0, false
				}
				sign, set = s, true
			}
			return sign, set
		}
	case *ssa.Extract:
		// vectors returned by a helper: (min, max) pair is not followed
	}
	return 0, false
}

func leadsToAcc(v ssa.Value) bool {
	switch x := v.(type) {
	case *ssa.Phi:
		return true
	case *ssa.Call:
		if obj := ssau.CalleeObj(x); obj != nil && (obj.Name() == "Min" || obj.Name() == "Max") {
			return true
		}
	}
	return false
}

// ruleMinMax: MINMAX-1. Accessor.Min is a Min-reduction and Accessor.Max a Max-reduction
// over values that are also written to the payload.
func (w *world) ruleMinMax(a *agg) {
	P := w.c.P
	accObj := w.tpkg.Scope().Lookup("Accessor")
	if accObj == nil {
		w.c.R.Failf("anchor type %s.Accessor not found", gltfRel)
		return
	}
	for _, fn := range w.all {
		var written []ssa.Value
		ssau.AllInstrs(fn, func(in ssa.Instruction) {
			st, ok := in.(*ssa.Store)
			if !ok {
				return
			}
			fa, ok := st.Addr.(*ssa.FieldAddr)
			if !ok {
				return
			}
			if n := ssau.NamedOf(fa.X.Type()); n == nil || n.Obj() != accObj {
				return
			}
			f := ssau.FieldOf(fa)
			if f == nil || (f.Name() != "Min" && f.Name() != "Max") {
				return
			}
			construct := fmt.Sprintf("%s#Accessor.%s", P.FuncName(fn), f.Name())
			pos := P.Pos(ssau.PosOf(st))
			// the slice literal behind the field
			sl, ok := st.Val.(*ssa.Slice)
			if !ok {
				if c, isC := st.Val.(*ssa.Const); isC && c.Value == nil {
					return // nil: no min/max declared
				}
				a.undecide("MINMAX-1", construct, pos, "Accessor."+f.Name()+" is not a slice literal the rule can read")
				return
			}
			arr, ok := sl.X.(*ssa.Alloc)
			if !ok {
				a.undecide("MINMAX-1", construct, pos, "Accessor."+f.Name()+" is not a slice literal the rule can read")
				return
			}
			var accs []ssa.Value
			for _, r := range ssau.Refs(arr) {
				ia, ok := r.(*ssa.IndexAddr)
				if !ok {
					continue
				}
				for _, rr := range ssau.Refs(ia) {
					if s2, ok := rr.(*ssa.Store); ok && s2.Addr == ia {
						if rv, _, ok := componentOf(s2.Val); ok {
							accs = append(accs, rv)
						} else {
							accs = append(accs, s2.Val)
						}
					}
				}
			}
			if len(accs) == 0 {
				a.undecide("MINMAX-1", construct, pos, "no elements found in the "+f.Name()+" literal")
				return
			}
			if written == nil {
				written = w.writtenValues(fn)
			}
			for _, acc := range accs {
				names, data, inits := minmaxSources(acc)
				if len(names) == 0 {
					a.undecide("MINMAX-1", construct, pos, "the "+f.Name()+" array is not fed by a Min/Max reduction the rule recognises")
					return
				}
				if !names[f.Name()] || len(names) != 1 {
					got := []string{}
					for n := range names {
						got = append(got, n)
					}
					a.violate("MINMAX-1", construct, pos, fmt.Sprintf("Accessor.%s is computed with %s(): declared bounds do not bound the data (glTF validators and frustum culling rely on them)", f.Name(), strings.Join(got, "/")))
					return
				}
				// the reduction starts from the neutral element: +MaxFloat64/+Inf for a minimum, -MaxFloat64/-Inf for a
				// maximum (decided from the constant's exact value), or from an element of the data
				wantSign := 1
				if f.Name() == "Max" {
					wantSign = -1
				}
				for _, iv := range inits {
					sign, ok := w.extremeSign(iv, 0)
					switch {
					case !ok:
						if c, isC := stripConv(iv).(*ssa.Const); isC && c.Value != nil {
							a.violate("MINMAX-1", construct, pos, fmt.Sprintf("the %s reduction starts from the constant %s, which is not %sMaxFloat64/%sInf: when every element lies on the other side of it the declared %s is this constant, not a bound taken from the data", f.Name(), c.Value.ExactString(), map[int]string{1: "+", -1: "-"}[wantSign], map[int]string{1: "+", -1: "-"}[wantSign], strings.ToLower(f.Name())))
						} else if fc, isCall := iv.(*ssa.Call); isCall && w.fillsWithConstants(fc) {
							a.violate("MINMAX-1", construct, pos, fmt.Sprintf("the %s reduction starts from a vector of constants that are not %sMaxFloat64/%sInf: when every element lies on the other side the declared %s is that constant", f.Name(), map[int]string{1: "+", -1: "-"}[wantSign], map[int]string{1: "+", -1: "-"}[wantSign], strings.ToLower(f.Name())))
						} else {
							a.undecide("MINMAX-1", construct, pos, "the start value of the "+f.Name()+" reduction is not a form the rule recognises (±MaxFloat64, math.Inf, vectorN.Fill/New of those, an element of the data, or a helper returning one)")
						}
						return
					case sign != 0 && sign != wantSign:
						a.violate("MINMAX-1", construct, pos, fmt.Sprintf("the %s reduction starts from the %s extreme: no element can move it, the declared %s is the start value", f.Name(), map[int]string{1: "largest", -1: "smallest"}[sign], strings.ToLower(f.Name())))
						return
					}
				}
				for _, d := range data {
					found := false
					for _, wv := range written {
						if w.sameValue(stripConv(d), wv) {
							found = true
						}
					}
					if !found {
						a.violate("MINMAX-1", construct, pos, "Accessor."+f.Name()+" is reduced over a value that is not the value written to the payload")
						return
					}
				}
			}
			a.hold("MINMAX-1", construct, pos, f.Name()+"-reduction over the written elements")
		})
	}
	w.c.R.Floor("MINMAX-1", 6)
}

// ruleSrc: SRC-1. Inside a loop that appends payload bytes, iterator.At(k) is read at the
// loop's own induction variable (0, 1, …) and the loop runs to that iterator's Len().
func (w *world) ruleSrc(a *agg) {
	P := w.c.P
	for _, fn := range w.all {
		if w.scan[fn] == nil || !w.closure(fn).sinkCall {
			continue
		}
		loops := ssau.Loops(fn)
		if len(loops) == 0 {
			continue
		}
		written := w.writtenValues(fn)
		done := map[ssa.Value]bool{}
		for _, wv := range written {
			if done[wv] {
				continue
			}
			done[wv] = true
			call, ok := wv.(*ssa.Call)
			if !ok {
				// component of an element: v.X() handled through the raw writers; direct At inside a conversion
				continue
			}
			obj := ssau.CalleeObj(call)
			if obj == nil || obj.Name() != "At" || len(call.Common().Args) != 2 {
				continue
			}
			l := ssau.InnermostLoop(loops, call.Block())
			if l == nil {
				continue
			}
			recv, idx := call.Common().Args[0], call.Common().Args[1]
			name := "iterator"
			if u, ok := recv.(*ssa.UnOp); ok {
				if p, ok := u.X.(*ssa.Parameter); ok {
					name = p.Name()
				}
			}
			construct := fmt.Sprintf("%s#At(%s)", P.FuncName(fn), name)
			pos := P.Pos(call.Pos())
			phi, ok := idx.(*ssa.Phi)
			if !ok || phi.Block() != l.Header {
				a.violate("SRC-1", construct, pos, "the element written in this loop is not read at the loop's induction variable: the payload does not hold elements 0…Len()-1 in order")
				continue
			}
			initOK, stepOK := false, false
			for i, e := range phi.Edges {
				pred := phi.Block().Preds[i]
				if !l.Blocks[pred] {
					if c, ok := ssau.ConstInt(e); ok && c == 0 {
						initOK = true
					}
				} else {
					if bo, ok := e.(*ssa.BinOp); ok && bo.Op == token.ADD && bo.X == phi {
						if c, ok := ssau.ConstInt(bo.Y); ok && c == 1 {
							stepOK = true
						}
					}
				}
			}
			// bound: phi < Len(recv)
			boundOK := false
			if ifi, ok := l.Header.Instrs[len(l.Header.Instrs)-1].(*ssa.If); ok {
				if bo, ok := ifi.Cond.(*ssa.BinOp); ok && bo.Op == token.LSS && bo.X == phi {
					if lc, ok := bo.Y.(*ssa.Call); ok {
						if lo := ssau.CalleeObj(lc); lo != nil && lo.Name() == "Len" && len(lc.Common().Args) == 1 && w.sameValue(lc.Common().Args[0], recv) {
							boundOK = true
						}
					}
					// hoisted: n := it.Len() before the loop
					if !boundOK {
						if lc, ok := stripConv(bo.Y).(*ssa.Call); ok {
							if lo := ssau.CalleeObj(lc); lo != nil && lo.Name() == "Len" && len(lc.Common().Args) == 1 && w.sameValue(lc.Common().Args[0], recv) {
								boundOK = true
							}
						}
					}
				}
			}
			switch {
			case !initOK || !stepOK:
				a.violate("SRC-1", construct, pos, "the index passed to At() does not run 0,1,2,…: elements are skipped or repeated in the payload")
			case !boundOK:
				a.undecide("SRC-1", construct, pos, "the loop bound is not Len() of the iterator that is read (form not recognised)")
			default:
				a.hold("SRC-1", construct, pos, "At(i), i = 0…Len()-1 of the same iterator")
			}
		}
	}
	w.c.R.Floor("SRC-1", 3)
}

// fillsWithConstants: a vectorN.Fill/New call all of whose arguments are constants.
func (w *world) fillsWithConstants(c *ssa.Call) bool {
	obj := ssau.CalleeObj(c)
	if obj == nil || obj.Pkg() == nil || !strings.HasPrefix(obj.Pkg().Path(), vectorPrefix) || len(c.Common().Args) == 0 {
		return false
	}
	for _, a := range c.Common().Args {
		if _, ok := stripConv(a).(*ssa.Const); !ok {
			return false
		}
	}
	return true
}
