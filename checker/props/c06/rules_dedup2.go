package c06

import (
	"fmt"
	"go/constant"
	"go/token"
	"go/types"
	"sort"
	"strings"

	"golang.org/x/tools/go/ssa"

	"polycheck/ssau"
)

// keyShape: the key of a struct-keyed dedup table as one path builds it.
type keyShape struct {
	tab    *types.Var
	typ    types.Type
	fields []AV
	vals   []ssa.Value // SSA value behind each integer field on that path (nil: none / implicit zero)
	st     *State
	pos    string
	sig    string
}

// valueWithPoly finds an SSA value of the root frame whose abstract value on this path is the
// integer polynomial p (symbols are canonical, so any such value denotes the same run-time value).
func valueWithPoly(st *State, p Poly) ssa.Value {
	if len(st.frames) == 0 {
		return nil
	}
	var best ssa.Value
	for v, av := range st.frames[0].env {
		if _, isNext := v.(nextKey); isNext {
			continue
		}
		n, ok := av.(Num)
		if !ok || !n.P.equal(p) || !isIntType(v.Type()) {
			continue
		}
		if _, isConst := v.(*ssa.Const); isConst {
			continue
		}
		if best == nil || v.Name() < best.Name() {
			best = v
		}
	}
	return best
}

// collectKeyShapes records the struct keys used with dedup tables (lookups and inserts) on path r.
func (w *world) collectKeyShapes(x *Exec, r *PathResult, tables map[*types.Var]bool, out *[]keyShape) {
	st := r.St
	for _, e := range st.events {
		if e.Depth != 0 || (e.Kind != "lookup" && e.Kind != "mapupdate") {
			continue
		}
		m, ok := e.Map.(MapV)
		if !ok || m.Org == nil || !tables[m.Org.Field] {
			continue
		}
		sv, ok := e.Key.(StructV)
		if !ok {
			continue
		}
		ks := keyShape{tab: m.Org.Field, typ: sv.T, fields: sv.F, st: st, pos: w.c.P.Pos(ssau.PosOf(e.Instr)), sig: sv.avKey()}
		ks.vals = make([]ssa.Value, len(sv.F))
		for i, f := range sv.F {
			if n, ok := f.(Num); ok {
				if _, isC := n.P.constVal(); !isC {
					ks.vals[i] = valueWithPoly(st, n.P)
				}
			}
		}
		*out = append(*out, ks)
	}
}

func nonNilOnPath(st *State, av AV) bool {
	switch p := av.(type) {
	case Ptr:
		return true
	case Opaque, OPtr:
		k := av.avKey()
		for _, key := range []string{k + "==nil", "nil==" + k} {
			if v, ok := st.facts[key]; ok && !v {
				return true
			}
		}
		_ = p
	}
	return false
}

// separated: field values a (on path sa) and b (on path sb) can never be equal.
func (w *world) separated(rg *ranger, a, b AV, va, vb ssa.Value, sa, sb *State) (bool, string) {
	an, aNum := a.(Num)
	bn, bNum := b.(Num)
	if aNum && bNum {
		ac, aC := an.P.constVal()
		bc, bC := bn.P.constVal()
		switch {
		case aC && bC:
			return ac != bc, fmt.Sprintf("%d ≠ %d", ac, bc)
		case aC && vb != nil:
			r := rg.value(vb)
			return !r.contains(ac), fmt.Sprintf("%d ∉ %s", ac, r)
		case bC && va != nil:
			r := rg.value(va)
			return !r.contains(bc), fmt.Sprintf("%d ∉ %s", bc, r)
		}
		return false, ""
	}
	ak, aK := a.(Konst)
	bk, bK := b.(Konst)
	if aK && bK && ak.V != nil && bk.V != nil && ak.V.Kind() == bk.V.Kind() {
		return !constant.Compare(ak.V, token.EQL, bk.V), ak.V.ExactString() + " ≠ " + bk.V.ExactString()
	}
	if aK && ak.V == nil && nonNilOnPath(sb, b) {
		return true, "nil vs a pointer known to be non-nil"
	}
	if bK && bk.V == nil && nonNilOnPath(sa, a) {
		return true, "nil vs a pointer known to be non-nil"
	}
	return false, ""
}

// checkKeyShapes: DEDUP-2. Two keys of one table that differ because one path puts a constant
// (sentinel: "absent") where another puts a computed index must be distinguishable: the constant
// lies outside the range of the computed values, or another field of the key separates the two.
func (w *world) checkKeyShapes(a *agg, rg *ranger, fname string, shapes []keyShape) {
	// distinct shapes per table
	byTab := map[string][]keyShape{}
	seen := map[string]bool{}
	for _, s := range shapes {
		k := s.tab.Name() + "\x00" + s.sig
		if seen[k] {
			continue
		}
		seen[k] = true
		byTab[s.tab.Name()] = append(byTab[s.tab.Name()], s)
	}
	tabs := make([]string, 0, len(byTab))
	for t := range byTab {
		tabs = append(tabs, t)
	}
	sort.Strings(tabs)
	for _, t := range tabs {
		ss := byTab[t]
		sort.Slice(ss, func(i, j int) bool { return ss[i].sig < ss[j].sig })
		construct := fmt.Sprintf("%s→Writer.%s#sentinel", fname, t)
		stt, _ := ss[0].typ.Underlying().(*types.Struct)
		for i := 0; i < len(ss); i++ {
			for j := i + 1; j < len(ss); j++ {
				s1, s2 := ss[i], ss[j]
				if len(s1.fields) != len(s2.fields) {
					continue
				}
				// is there a sentinel situation: constant on one side, computed integer on the other?
				sentinel := -1
				var sentC int64
				var sentR irange
				for f := range s1.fields {
					n1, ok1 := s1.fields[f].(Num)
					n2, ok2 := s2.fields[f].(Num)
					if !ok1 || !ok2 {
						continue
					}
					c1, isC1 := n1.P.constVal()
					c2, isC2 := n2.P.constVal()
					switch {
					case isC1 && !isC2:
						sentinel, sentC = f, c1
						if s2.vals[f] != nil {
							sentR = rg.value(s2.vals[f])
						} else {
							sentR = irange{unknown: true}
						}
					case isC2 && !isC1:
						sentinel, sentC = f, c2
						if s1.vals[f] != nil {
							sentR = rg.value(s1.vals[f])
						} else {
							sentR = irange{unknown: true}
						}
					}
				}
				if sentinel < 0 {
					continue
				}
				fieldName := fmt.Sprint(sentinel)
				if stt != nil && sentinel < stt.NumFields() {
					fieldName = stt.Field(sentinel).Name()
				}
				sepBy, why := "", ""
				for f := range s1.fields {
					if ok, reason := w.separated(rg, s1.fields[f], s2.fields[f], s1.vals[f], s2.vals[f], s1.st, s2.st); ok {
						name := fmt.Sprint(f)
						if stt != nil && f < stt.NumFields() {
							name = stt.Field(f).Name()
						}
						sepBy, why = name, reason
						break
					}
				}
				pos := s1.pos
				switch {
				case sepBy != "":
					a.hold("DEDUP-2", construct, pos, fmt.Sprintf("keys with constant %s=%d and with a computed %s are separated by field %s (%s)", fieldName, sentC, fieldName, sepBy, why))
				case sentR.unknown && !sentR.consts[sentC] && !(sentR.nonNeg && sentC >= 0):
					a.undecide("DEDUP-2", construct, pos, fmt.Sprintf("field %s is the constant %d on one path and a computed value of unknown range on another; the rule cannot tell whether they can coincide", fieldName, sentC))
				default:
					a.violate("DEDUP-2", construct, pos, fmt.Sprintf("on one path the key's field %s is the constant %d (entry without that index), on another it is a computed index with range %s, and no other key field tells the two apart: the \"absent\" key collides with index %d, so a model is given another model's deduplicated entry", fieldName, sentC, sentR, sentC))
				}
			}
		}
	}
}

func isIndexAlias(t types.Type) bool {
	if al, ok := t.(*types.Alias); ok && al.Obj().Name() == "GltfId" {
		return true
	}
	return false
}

// walkIndices visits the integers stored in slots declared as glTF ids (GltfId, *GltfId,
// []GltfId, map[string]GltfId) inside av.
func walkIndices(st *State, av AV, t types.Type, slot string, depth int, visit func(p Poly, slot string), ptrVisit func(p AV, slot string)) {
	walkIndicesK(st, av, t, slot, "", depth, func(p Poly, slot, key string) { visit(p, slot) }, func(p AV, slot, key string) {
		if ptrVisit != nil {
			ptrVisit(p, slot)
		}
	})
}

// walkIndicesK is walkIndices with the "Struct.Field" key of the slot (for the glTF reference table).
func walkIndicesK(st *State, av AV, t types.Type, slot, key string, depth int, visit func(p Poly, slot, key string), ptrVisit func(p AV, slot, key string)) {
	if depth > 6 || av == nil || t == nil {
		return
	}
	if isIndexAlias(t) {
		if n, ok := av.(Num); ok {
			visit(n.P, slot, key)
		}
		return
	}
	switch u := types.Unalias(t).Underlying().(type) {
	case *types.Pointer:
		if isIndexAlias(u.Elem()) {
			if _, isPtr := av.(Ptr); !isPtr && ptrVisit != nil {
				ptrVisit(av, slot, key)
			}
			if p, ok := av.(Ptr); ok && !p.Obj.Opaque {
				ct, fld := typeAtPath(p.Obj.T, p.Path)
				if ct != nil {
					if n, ok := st.mem.read(p.Obj, p.Path, ct, fld).(Num); ok {
						visit(n.P, slot, key)
					}
				}
			}
		}
	case *types.Struct:
		sv, ok := av.(StructV)
		if !ok {
			return
		}
		owner := ""
		if n := ssau.NamedOf(t); n != nil {
			owner = n.Obj().Name()
		}
		for i := 0; i < u.NumFields() && i < len(sv.F); i++ {
			name := u.Field(i).Name()
			k := owner + "." + name
			if !u.Field(i).Embedded() {
				name = slot + "." + name
			} else {
				name = slot
			}
			walkIndicesK(st, sv.F[i], u.Field(i).Type(), name, k, depth+1, visit, ptrVisit)
		}
	case *types.Slice:
		sl, ok := av.(SliceV)
		if !ok || sl.Arr == nil || sl.Arr.Opaque {
			return
		}
		if n, ok := sl.Len.constVal(); ok && n <= 32 {
			for i := int64(0); i < n; i++ {
				walkIndicesK(st, st.mem.read(sl.Arr, fmt.Sprintf("[%d]", i), u.Elem(), nil), u.Elem(), slot, key, depth+1, visit, ptrVisit)
			}
		}
	}
}

// checkEmittedIndices: DEDUP-2 (emission side). A value written into a glTF id slot of an element
// appended to the document is never a negative constant, and when it comes from a function that can
// return a negative sentinel ("not added", "no material"), the path has excluded that sentinel.
func (w *world) checkEmittedIndices(a *agg, rg *ranger, x *Exec, r *PathResult, fname string) {
	st := r.St
	P := w.c.P
	for _, e := range st.events {
		if e.Depth != 0 || (e.Kind != "append" && e.Kind != "overwrite") || e.Field == nil {
			continue
		}
		var elems []AV
		var et types.Type
		if sl, ok := e.Field.Type().Underlying().(*types.Slice); ok {
			et = sl.Elem()
		}
		if e.Kind == "append" {
			elems = e.Elems
		} else if sv, ok := e.New.(SliceV); ok && sv.Arr != nil && !sv.Arr.Opaque && et != nil {
			if n, ok := sv.Len.constVal(); ok && n <= 32 {
				for i := int64(0); i < n; i++ {
					elems = append(elems, st.mem.read(sv.Arr, fmt.Sprintf("[%d]", i), et, nil))
				}
			}
		}
		if et == nil {
			continue
		}
		for _, el := range elems {
			walkIndices(st, el, et, e.Field.Name(), 0, func(p Poly, slot string) {
				construct := fmt.Sprintf("%s#emit(%s)", fname, slot)
				pos := P.Pos(ssau.PosOf(e.Instr))
				if c, ok := p.constVal(); ok {
					if c < 0 {
						a.violate("DEDUP-2", construct, pos, fmt.Sprintf("the constant %d is written into the glTF id slot %s: a sentinel is emitted as an index", c, slot))
					}
					return
				}
				v := valueWithPoly(st, p)
				if v == nil {
					return
				}
				rr := rg.value(v)
				var negs []int64
				for c := range rr.consts {
					if c < 0 {
						negs = append(negs, c)
					}
				}
				sort.Slice(negs, func(i, j int) bool { return negs[i] < negs[j] })
				if len(negs) == 0 {
					if !rr.unknown {
						a.hold("DEDUP-2", construct, pos, "emitted index has range "+rr.String())
					}
					return
				}
				var open []string
				for _, c := range negs {
					if st.feasible(p.sub(pconst(c)), token.EQL) {
						open = append(open, fmt.Sprint(c))
					}
				}
				if len(open) > 0 {
					a.violate("DEDUP-2", construct, pos, fmt.Sprintf("the value written into %s can be the sentinel %s (range %s) and no guard on this path excludes it: a \"not present\" marker is emitted as an index", slot, strings.Join(open, ", "), rr))
				} else {
					a.hold("DEDUP-2", construct, pos, "sentinel(s) of range "+rr.String()+" excluded by a guard on the path")
				}
			}, func(pav AV, slot string) {
				// an optional index kept as a pointer the executor does not model (result of a call): what can it point at?
				if k, isK := pav.(Konst); isK && k.V == nil {
					return
				}
				construct := fmt.Sprintf("%s#emit(%s)", fname, slot)
				pos := P.Pos(ssau.PosOf(e.Instr))
				var pv ssa.Value
				for v, av := range st.frames[0].env {
					if _, isNext := v.(nextKey); isNext || av == nil {
						continue
					}
					if isPtrToInt(v.Type()) && av.avKey() == pav.avKey() {
						if pv == nil || v.Name() < pv.Name() {
							pv = v
						}
					}
				}
				if pv == nil {
					return
				}
				rr := rg.pointee(pv)
				for c := range rr.consts {
					if c < 0 {
						a.violate("DEDUP-2", construct, pos, fmt.Sprintf("the pointer written into %s can point at the sentinel %d (range %s): a \"not present\" marker is emitted as an index", slot, c, rr))
						return
					}
				}
				if !rr.unknown {
					a.hold("DEDUP-2", construct, pos, "optional index: nil or a value of range "+rr.String())
				}
			})
		}
	}
}

// gltfRefs: which top-level array each index slot of the document model refers to (glTF 2.0 schema;
// keyed by Struct.Field, value = element type of the referenced array). Slots that index an array
// inside the same object (animation.channel.sampler) are not references to a top-level array.
var gltfRefs = map[string]string{
	"Scene.Nodes": "Node", "Node.Mesh": "Mesh", "Node.Skin": "Skin", "Node.Children": "Node", "Node.Camera": "Camera",
	"Primitive.Indices": "Accessor", "Primitive.Attributes": "Accessor", "Primitive.Material": "Material", "Primitive.Targets": "Accessor",
	"Texture.Sampler": "Sampler", "Texture.Source": "Image", "TextureInfo.Index": "Texture",
	"Accessor.BufferView": "BufferView", "Image.BufferView": "BufferView",
	"Skin.InverseBindMatrices": "Accessor", "Skin.Skeleton": "Node", "Skin.Joints": "Node",
	"AnimationSampler.Input": "Accessor", "AnimationSampler.Output": "Accessor", "AnimationChannelTarget.Node": "Node",
}

// writerArrayOf: the Writer slice field whose elements are of the named document type.
func (w *world) writerArrayOf(elem string) string {
	for i := 0; i < w.wstruct.NumFields(); i++ {
		f := w.wstruct.Field(i)
		if sl, ok := f.Type().Underlying().(*types.Slice); ok {
			if n := ssau.NamedOf(sl.Elem()); n != nil && n.Obj().Pkg() == w.tpkg && n.Obj().Name() == elem {
				if _, isPtr := sl.Elem().(*types.Pointer); !isPtr {
					return f.Name()
				}
			}
		}
	}
	return ""
}

// indexListFields: Writer fields of integer-slice type that the package stores into an index slot of
// the document (w.scene → Scene.Nodes): they inherit the slot's reference.
func (w *world) indexListFields() map[*types.Var]string {
	out := map[*types.Var]string{}
	for _, fn := range w.fns {
		ssau.AllInstrs(fn, func(in ssa.Instruction) {
			st, ok := in.(*ssa.Store)
			if !ok {
				return
			}
			fa, ok := st.Addr.(*ssa.FieldAddr)
			if !ok {
				return
			}
			f := ssau.FieldOf(fa)
			n := ssau.NamedOf(fa.X.Type())
			if f == nil || n == nil || n.Obj().Pkg() != w.tpkg {
				return
			}
			key := n.Obj().Name() + "." + f.Name()
			if gltfRefs[key] == "" {
				return
			}
			u, ok := stripChange(st.Val).(*ssa.UnOp)
			if !ok {
				return
			}
			wfa, ok := u.X.(*ssa.FieldAddr)
			if !ok || !w.isWriterType(wfa.X.Type()) {
				return
			}
			if wf := ssau.FieldOf(wfa); wf != nil {
				if sl, ok := wf.Type().Underlying().(*types.Slice); ok && isIntType(sl.Elem()) {
					out[wf] = key
				}
			}
		})
	}
	return out
}

// checkIndexProvenance: REF-2. An integer written into an index slot of the document is a position
// in the array that slot refers to: len(w.<array>) taken around the matching append, a value returned
// by a helper / read from a table all of whose values are such positions, or a constant inside a
// freshly assigned array. A loop counter over input data, a length of something else, or a position
// in a different array is a violation; what cannot be classified carries no obligation.
func (w *world) checkIndexProvenance(a *agg, rg *ranger, x *Exec, r *PathResult, fname string, lists map[*types.Var]string) {
	st := r.St
	P := w.c.P
	judge := func(p Poly, slot, key string, in ssa.Instruction) {
		elem := gltfRefs[key]
		if elem == "" {
			return
		}
		target := w.writerArrayOf(elem)
		if target == "" {
			return
		}
		construct := fmt.Sprintf("%s#%s→w.%s", fname, slot, target)
		pos := P.Pos(ssau.PosOf(in))
		if _, isC := p.constVal(); isC {
			return // constants: range rule (DEDUP-2 emit) and REF-1 cover them
		}
		syms := p.symbols()
		if len(syms) != 1 || p.t[syms[0]] != 1 {
			return // sums of several quantities (base + joint offset): not classified
		}
		s := syms[0]
		if fld, ok := lenSymField(s, x.externs); ok {
			if fld == target {
				a.hold("REF-2", construct, pos, "position "+p.String()+" in w."+target)
			} else {
				a.violate("REF-2", construct, pos, fmt.Sprintf("%s is a position in w.%s, but the slot %s refers to w.%s", p, fld, slot, target))
			}
			return
		}
		if strings.HasPrefix(s, "φ(") {
			// a counter of a loop that scans the referenced array itself names an existing element of it
			if dot := strings.LastIndexByte(s, '.'); dot > 2 {
				if info := x.loopInfos[s[len("φ("):dot]]; info != nil && info.TripOK && info.IV[s] {
					tsyms := info.Trip.symbols()
					if len(tsyms) == 1 && info.Trip.equal(psym(tsyms[0])) {
						if fld, ok := lenSymField(tsyms[0], x.externs); ok && fld == target && p.equal(psym(s).sub(pconst(info.IVInit[s]))) {
							a.hold("REF-2", construct, pos, "index of an existing element found by scanning w."+target)
							return
						}
					}
				}
			}
		}
		if strings.HasPrefix(s, "φ(") || strings.HasPrefix(s, "loopout(") {
			a.violate("REF-2", construct, pos, fmt.Sprintf("the slot %s (an index into w.%s) receives %s, a loop counter, not len(w.%s) taken at the append: as soon as an iteration appends no element, or the array is not empty at the start, the reference names another element or none", slot, target, p, target))
			return
		}
		v := valueWithPoly(st, p)
		if v == nil {
			return
		}
		rr := rg.value(v)
		switch {
		case rr.unknown:
			return
		case rr.nonpos:
			a.violate("REF-2", construct, pos, fmt.Sprintf("the slot %s (an index into w.%s) receives a value that can be a count or counter rather than a position in w.%s (range %s)", slot, target, target, rr))
		case len(rr.pos) > 0:
			for f := range rr.pos {
				if f != target {
					a.violate("REF-2", construct, pos, fmt.Sprintf("the slot %s refers to w.%s but can receive a position in w.%s", slot, target, f))
					return
				}
			}
			a.hold("REF-2", construct, pos, "value produced as a position in w."+target+" (by a helper / table)")
		}
	}
	for _, e := range st.events {
		if e.Depth != 0 || (e.Kind != "append" && e.Kind != "overwrite") || e.Field == nil {
			continue
		}
		sl, ok := e.Field.Type().Underlying().(*types.Slice)
		if !ok {
			continue
		}
		var elems []AV
		if e.Kind == "append" {
			elems = e.Elems
		} else if sv, ok := e.New.(SliceV); ok && sv.Arr != nil && !sv.Arr.Opaque {
			if n, ok := sv.Len.constVal(); ok && n <= 32 {
				for i := int64(0); i < n; i++ {
					elems = append(elems, st.mem.read(sv.Arr, fmt.Sprintf("[%d]", i), sl.Elem(), nil))
				}
			}
		}
		if key, isList := lists[e.Field]; isList {
			for _, el := range elems {
				if n, ok := el.(Num); ok {
					judge(n.P, e.Field.Name(), key, e.Instr)
				}
			}
			continue
		}
		for _, el := range elems {
			walkIndicesK(st, el, sl.Elem(), e.Field.Name(), "", 0, func(p Poly, slot, key string) {
				judge(p, slot, key, e.Instr)
			}, nil)
		}
	}
}
