package c06

import (
	"fmt"
	"go/constant"
	"go/types"
	"reflect"
	"sort"

	"golang.org/x/tools/go/ssa"

	"polycheck/ssau"
)

// equalityMethods: by-value equality predicates of the package that are actually used — methods
// whose single parameter has the receiver's type and that return bool, with at least one caller.
func (w *world) equalityMethods() []*ssa.Function {
	var out []*ssa.Function
	for _, fn := range w.all {
		sig := fn.Signature
		if sig.Recv() == nil || sig.Params().Len() != 1 || sig.Results().Len() != 1 || fn.Blocks == nil {
			continue
		}
		if b, ok := sig.Results().At(0).Type().Underlying().(*types.Basic); !ok || b.Kind() != types.Bool {
			continue
		}
		if !types.Identical(sig.Recv().Type(), sig.Params().At(0).Type()) {
			continue
		}
		if _, ok := deref(sig.Recv().Type()).Underlying().(*types.Struct); !ok {
			continue
		}
		within := w.fns
		if w.c.P.IsControl(fn.Pos()) {
			within = w.all
		}
		if len(w.callSites(fn, within)) == 0 {
			continue
		}
		out = append(out, fn)
	}
	sort.Slice(out, func(i, j int) bool { return out[i].Pos() < out[j].Pos() })
	return out
}

// fieldsReadFrom: indices of the fields of the struct behind parameter p that fn reads.
func fieldsReadFrom(fn *ssa.Function, p *ssa.Parameter) map[int]bool {
	out := map[int]bool{}
	roots := map[ssa.Value]bool{p: true}
	// a struct parameter is spilled into a local first
	for _, r := range ssau.Refs(p) {
		if st, ok := r.(*ssa.Store); ok && st.Val == ssa.Value(p) {
			roots[st.Addr] = true
		}
	}
	ssau.AllInstrs(fn, func(in ssa.Instruction) {
		switch in := in.(type) {
		case *ssa.FieldAddr:
			if roots[in.X] {
				out[in.Field] = true
			}
		case *ssa.Field:
			if roots[in.X] {
				out[in.Field] = true
			}
		}
	})
	return out
}

// fieldUsedElsewhere: some function of the package other than the equality predicates reads f.
func (w *world) fieldUsedElsewhere(f *types.Var, eq map[*ssa.Function]bool) bool {
	used := false
	for _, fn := range w.all {
		if eq[fn] || used {
			continue
		}
		ssau.AllInstrs(fn, func(in ssa.Instruction) {
			if used {
				return
			}
			var fa ssa.Value
			switch x := in.(type) {
			case *ssa.FieldAddr:
				fa = x
			case *ssa.Field:
				fa = x
			default:
				return
			}
			if ssau.FieldOf(fa) != f {
				return
			}
			// a read (load, or address passed on), not only a store
			for _, r := range ssau.Refs(fa) {
				if st, ok := r.(*ssa.Store); ok && st.Addr == fa {
					continue
				}
				used = true
			}
			if _, isField := in.(*ssa.Field); isField {
				used = true
			}
		})
	}
	return used
}

func (w *world) eqFieldKey(p *ssa.Parameter, i int) string {
	if _, isPtr := p.Type().Underlying().(*types.Pointer); isPtr {
		return fmt.Sprintf("*&(%s).%d", p.Name(), i)
	}
	return fmt.Sprintf("%s.%d", p.Name(), i)
}

// ruleEq: EQ-1. A by-value equality used for de-duplication compares every field the writer uses,
// and for pointer fields tells nil from non-nil and compares the pointees.
func (w *world) ruleEq(a *agg, stats *counters) {
	P := w.c.P
	eqs := w.equalityMethods()
	eqSet := map[*ssa.Function]bool{}
	for _, fn := range w.all {
		sig := fn.Signature
		if sig.Recv() != nil && sig.Params().Len() == 1 && types.Identical(sig.Recv().Type(), sig.Params().At(0).Type()) {
			eqSet[fn] = true // all equality-shaped methods (used or not) are excluded from "used elsewhere"
		}
	}
	for _, fn := range eqs {
		fname := P.FuncName(fn)
		recv, other := fn.Params[0], fn.Params[1]
		stt := deref(recv.Type()).Underlying().(*types.Struct)
		ra, rb := fieldsReadFrom(fn, recv), fieldsReadFrom(fn, other)
		for i := 0; i < stt.NumFields(); i++ {
			f := stt.Field(i)
			construct := fmt.Sprintf("%s#%s", fname, f.Name())
			pos := P.Pos(fn.Pos())
			if !ra[i] || !rb[i] {
				// a field reaches the document when the writer reads it, or — for the document model itself —
				// when encoding/json serialises it (json tag, or embedded in a tagged struct)
				serialised := false
				if tag := reflect.StructTag(stt.Tag(i)).Get("json"); tag != "" && tag != "-" {
					serialised = true
				}
				if f.Embedded() {
					for j := 0; j < stt.NumFields(); j++ {
						if t := reflect.StructTag(stt.Tag(j)).Get("json"); t != "" && t != "-" {
							serialised = true
						}
					}
				}
				if !serialised && !w.fieldUsedElsewhere(f, eqSet) {
					continue // a field nothing else reads does not reach the document
				}
				a.violate("EQ-1", construct, pos, fmt.Sprintf("the equality used for de-duplication never compares field %s, which the writer reads when it builds the document: two values that differ only in %s are merged and the second model is given the first one's entry", f.Name(), f.Name()))
				continue
			}
			pt, isPtr := f.Type().Underlying().(*types.Pointer)
			if !isPtr {
				a.hold("EQ-1", construct, pos, "field read on both sides")
				continue
			}
			// truth table over nil-ness: equal(a,b) must be false when exactly one side is nil
			fa, fb := w.eqFieldKey(recv, i), w.eqFieldKey(other, i)
			base := map[string]bool{eqKey(recv.Name(), other.Name()): false}
			if _, recvPtr := recv.Type().Underlying().(*types.Pointer); recvPtr {
				base[eqKey(recv.Name(), "nil")] = false
				base[eqKey(other.Name(), "nil")] = false
			}
			type combo struct {
				name       string
				aNil, bNil bool
				pointee    bool
			}
			combos := []combo{{"receiver nil, argument set", true, false, false}, {"receiver set, argument nil", false, true, false}}
			if b, ok := pt.Elem().Underlying().(*types.Basic); ok && b.Info()&types.IsInteger == 0 {
				combos = append(combos, combo{"both set, different values", false, false, true})
			}
			bad, undecided := "", ""
			for _, cb := range combos {
				cfg := w.execConfig()
				cfg.MaxPaths, cfg.MaxSteps = 60000, 4_000_000
				// nested equality predicates are executed in place (their answer under the assumed nil-ness matters)
				cfg.Inline = func(root, callee *ssa.Function) bool { return eqSet[callee] || w.inlineIn(root, callee) }
				cfg.PreFacts = map[string]bool{}
				for k, v := range base {
					cfg.PreFacts[k] = v
				}
				cfg.PreFacts[eqKey(fa, "nil")] = cb.aNil
				cfg.PreFacts[eqKey(fb, "nil")] = cb.bNil
				cfg.PreFacts[eqKey(fa, fb)] = false
				if cb.pointee {
					cfg.PreFacts[eqKey("*"+fa, "*"+fb)] = false
				}
				x := NewExec(cfg)
				res := x.Run(fn)
				stats.roots++
				stats.cases++
				stats.paths += len(res)
				stats.steps += x.steps
				if x.aborted != "" {
					undecided = "symbolic execution gave up: " + x.aborted
					continue
				}
				for _, r := range res {
					if r.Kind != "return" || len(r.Ret) != 1 {
						continue
					}
					if k, ok := r.Ret[0].(Konst); ok && k.V != nil && k.V.Kind() == constant.Bool && !constant.BoolVal(k.V) {
						continue
					}
					if v, known := x.decide(r.St, r.Ret[0]); known && !v {
						continue // the returned comparison is false under the path's facts
					}
					bad = cb.name
				}
			}
			switch {
			case bad != "":
				a.violate("EQ-1", construct, pos, fmt.Sprintf("pointer field %s: with %s the equality can still return true (the nil-ness / pointee of %s does not force a difference): distinct values are merged by the de-duplication", f.Name(), bad, f.Name()))
			case undecided != "":
				a.undecide("EQ-1", construct, pos, undecided)
			default:
				a.hold("EQ-1", construct, pos, fmt.Sprintf("pointer field: false for every one-sided nil%s", map[bool]string{true: " and for different pointees", false: ""}[len(combos) == 3]))
			}
		}
	}
	w.c.R.Floor("EQ-1", 12)
}
