package c06

import (
	"fmt"
	"go/token"
	"go/types"

	"golang.org/x/tools/go/ssa"

	"polycheck/ssau"
)

func isStringAnyMap(t types.Type) bool {
	m, ok := t.Underlying().(*types.Map)
	if !ok {
		return false
	}
	k, ok := m.Key().Underlying().(*types.Basic)
	if !ok || k.Kind() != types.String {
		return false
	}
	i, ok := m.Elem().Underlying().(*types.Interface)
	return ok && i.NumMethods() == 0
}

// extFields: struct fields named Extensions of type map[string]any declared in the package.
func (w *world) extFields() map[*types.Var]bool {
	out := map[*types.Var]bool{}
	for _, name := range w.tpkg.Scope().Names() {
		tn, ok := w.tpkg.Scope().Lookup(name).(*types.TypeName)
		if !ok {
			continue
		}
		st, ok := tn.Type().Underlying().(*types.Struct)
		if !ok {
			continue
		}
		for i := 0; i < st.NumFields(); i++ {
			f := st.Field(i)
			if f.Name() == "Extensions" && isStringAnyMap(f.Type()) {
				out[f] = true
			}
		}
	}
	return out
}

type extCtx struct {
	w       *world
	ext     map[*types.Var]bool
	flowsTo map[ssa.Value]int // memo: 0 unknown, 1 in progress, 2 yes, 3 no
	top     map[ssa.Value]bool
	gltfExt *types.Var // Property.Extensions when reached through the root Gltf object
}

// flowsToExt: does value v (a map) end up in an Extensions field?
func (e *extCtx) flowsToExt(v ssa.Value, depth int) bool {
	if s, ok := e.flowsTo[v]; ok {
		return s == 2
	}
	e.flowsTo[v] = 1
	res := false
	if depth < 12 {
		for _, r := range ssau.Refs(v) {
			switch r := r.(type) {
			case *ssa.Store:
				if r.Val != v {
					continue
				}
				switch ad := r.Addr.(type) {
				case *ssa.FieldAddr:
					if e.ext[ssau.FieldOf(ad)] {
						res = true
					}
				case *ssa.Alloc:
					// local variable: every load of it
					for _, rr := range ssau.Refs(ad) {
						if u, ok := rr.(*ssa.UnOp); ok && u.Op == token.MUL && e.flowsToExt(u, depth+1) {
							res = true
						}
					}
				}
			case *ssa.Phi:
				if e.flowsToExt(r, depth+1) {
					res = true
				}
			case *ssa.ChangeType:
				if e.flowsToExt(r, depth+1) {
					res = true
				}
			case *ssa.Return:
				fn := r.Parent()
				for i, rv := range r.Results {
					if rv != v {
						continue
					}
					for _, site := range e.w.callSites(fn, e.w.all) {
						cv, ok := site.(*ssa.Call)
						if !ok {
							continue
						}
						if len(r.Results) == 1 {
							if e.flowsToExt(cv, depth+1) {
								res = true
							}
							continue
						}
						for _, rr := range ssau.Refs(cv) {
							if ex, ok := rr.(*ssa.Extract); ok && ex.Index == i && e.flowsToExt(ex, depth+1) {
								res = true
							}
						}
					}
				}
			}
			if res {
				break
			}
		}
	}
	if res {
		e.flowsTo[v] = 2
	} else {
		e.flowsTo[v] = 3
	}
	return res
}

// isExtMap: the map operand of an update is an extensions map.
func (e *extCtx) isExtMap(m ssa.Value, depth int, seen map[ssa.Value]bool) bool {
	if seen[m] || depth > 10 {
		return false
	}
	seen[m] = true
	switch x := m.(type) {
	case *ssa.UnOp:
		if x.Op != token.MUL {
			return false
		}
		if fa, ok := x.X.(*ssa.FieldAddr); ok && e.ext[ssau.FieldOf(fa)] {
			return true
		}
		if al, ok := x.X.(*ssa.Alloc); ok {
			for _, r := range ssau.Refs(al) {
				if st, ok := r.(*ssa.Store); ok && st.Addr == al && e.isExtMap(st.Val, depth+1, seen) {
					return true
				}
			}
			return e.flowsToExt(x, 0)
		}
	case *ssa.MakeMap:
		return e.flowsToExt(x, 0)
	case *ssa.Phi:
		for _, ed := range x.Edges {
			if e.isExtMap(ed, depth+1, seen) {
				return true
			}
		}
		return e.flowsToExt(x, 0)
	case *ssa.ChangeType:
		return e.isExtMap(x.X, depth+1, seen)
	case *ssa.Parameter, *ssa.Call, *ssa.Extract:
		return e.flowsToExt(m, 0)
	}
	return false
}

// always: on every entry→return path through `at`, instruction reg executes too.
func always(reg, at ssa.Instruction) bool {
	if reg.Block() == at.Block() {
		return true
	}
	if reg.Block().Dominates(at.Block()) {
		return true
	}
	fn := at.Parent()
	avoid := map[*ssa.BasicBlock]bool{reg.Block(): true}
	for _, b := range fn.Blocks {
		if _, ok := b.Instrs[len(b.Instrs)-1].(*ssa.Return); !ok {
			continue
		}
		if b == at.Block() {
			return false
		}
		if ssau.ReachesAvoiding(at.Block(), b, avoid) {
			return false
		}
	}
	return true
}

func (w *world) isTrueConst(v ssa.Value) bool {
	c, ok := v.(*ssa.Const)
	return ok && c.Value != nil && c.Value.Kind().String() == "Bool" && c.Value.ExactString() == "true"
}

// reg: a point where fn declares extension key as used — extensionsUsed[key] = true, or a call
// to a package function that does so unconditionally for one of its parameters.
type reg struct {
	instr ssa.Instruction
	key   ssa.Value
}

func (w *world) registrations(fn *ssa.Function, field *types.Var) []reg {
	return w.registrationsD(fn, field, 0)
}

func (w *world) registrationsD(fn *ssa.Function, field *types.Var, depth int) []reg {
	var out []reg
	ssau.AllInstrs(fn, func(in ssa.Instruction) {
		switch in := in.(type) {
		case *ssa.MapUpdate:
			if w.isTrueConst(in.Value) && w.isLoadOfWriterField(in.Map, field) {
				out = append(out, reg{in, in.Key})
			}
		case *ssa.Call:
			cal := in.Common().StaticCallee()
			if cal == nil || w.scan[cal] == nil || cal == fn || depth > 2 || cal.Blocks == nil {
				return
			}
			for _, r := range w.registrationsD(cal, field, depth+1) {
				p, ok := r.key.(*ssa.Parameter)
				if !ok || !always(r.instr, cal.Blocks[0].Instrs[0]) {
					continue
				}
				for i, cp := range cal.Params {
					if cp == p && i < len(in.Common().Args) {
						out = append(out, reg{in, in.Common().Args[i]})
					}
				}
			}
		}
	})
	return out
}

func keyName(v ssa.Value) string {
	if s, ok := ssau.ConstString(stripChange(v)); ok {
		return fmt.Sprintf("%q", s)
	}
	if c, ok := stripChange(v).(*ssa.Call); ok {
		if o := ssau.CalleeObj(c); o != nil {
			return o.Name() + "()"
		}
	}
	return "key"
}

// ruleExt: EXT-1 (extensions stored are declared used) and EXT-2 (required ⊆ used).
func (w *world) ruleExt(a *agg) {
	P := w.c.P
	e := &extCtx{w: w, ext: w.extFields(), flowsTo: map[ssa.Value]int{}}
	if len(e.ext) == 0 {
		w.c.R.Failf("anchor: no Extensions map[string]any field found in %s", gltfRel)
		return
	}
	fUsed, fReq := w.field["extensionsUsed"], w.field["extensionsRequired"]
	ordinal := map[string]int{}
	for _, fn := range w.all {
		regs := w.registrations(fn, fUsed)
		findReg := func(key ssa.Value, at ssa.Instruction) (found, onAllPaths bool) {
			for _, r := range regs {
				if w.sameValue(r.key, key) {
					found = true
					if always(r.instr, at) {
						return true, true
					}
				}
			}
			return found, false
		}
		ssau.AllInstrs(fn, func(in ssa.Instruction) {
			mu, ok := in.(*ssa.MapUpdate)
			if !ok {
				return
			}
			pos := P.Pos(ssau.PosOf(mu))
			// EXT-2
			if fReq != nil && w.isLoadOfWriterField(mu.Map, fReq) {
				construct := fmt.Sprintf("%s#required[%s]", P.FuncName(fn), keyName(mu.Key))
				if _, all := findReg(mu.Key, mu); all {
					a.hold("EXT-2", construct, pos, "extensionsRequired[k] is accompanied by extensionsUsed[k]")
				} else {
					a.violate("EXT-2", construct, pos, "an extension is declared required without being declared used on every path (extensionsRequired must be a subset of extensionsUsed)")
				}
				return
			}
			if !isStringAnyMap(mu.Map.Type()) || !e.isExtMap(mu.Map, 0, map[ssa.Value]bool{}) {
				return
			}
			base := fmt.Sprintf("%s#ext[%s]", P.FuncName(fn), keyName(mu.Key))
			ordinal[base]++
			construct := base
			if ordinal[base] > 1 {
				construct = fmt.Sprintf("%s/%d", base, ordinal[base])
			}
			found, all := findReg(mu.Key, mu)
			if all {
				a.hold("EXT-1", construct, pos, "extensionsUsed["+keyName(mu.Key)+"] = true on every path through the store")
				return
			}
			// top-level object emitted from recorded state: `if len(w.F) > 0 { extensions[K] = … }`
			if fld, ok := w.guardedByNonEmptyField(mu); ok && !found {
				if _, isConst := ssau.ConstString(stripChange(mu.Key)); isConst {
					okAll, why := w.everyGrowthRegisters(fld, mu.Key, fUsed)
					if okAll {
						a.hold("EXT-1", construct, pos, "emitted only when w."+fld.Name()+" is non-empty", why)
					} else {
						a.violate("EXT-1", construct, pos, "the extension object "+keyName(mu.Key)+" is emitted whenever w."+fld.Name()+" is non-empty, but "+why)
					}
					return
				}
			}
			if found {
				a.violate("EXT-1", construct, pos, "extension "+keyName(mu.Key)+" is stored in an Extensions object but extensionsUsed is set only on some paths")
			} else {
				a.violate("EXT-1", construct, pos, "extension "+keyName(mu.Key)+" is stored in an Extensions object but extensionsUsed["+keyName(mu.Key)+"] is never set in this function: the asset uses an extension it does not declare")
			}
		})
	}
	w.c.R.Floor("EXT-1", 4)
}

// guardedByNonEmptyField: mu executes only when len(w.F) > 0 for a Writer field F.
func (w *world) guardedByNonEmptyField(mu *ssa.MapUpdate) (*types.Var, bool) {
	for _, ec := range edgeConds(mu.Block()) {
		bo, ok := ec.cond.(*ssa.BinOp)
		if !ok {
			continue
		}
		var lenSide ssa.Value
		c, isC := ssau.ConstInt(bo.Y)
		if !isC {
			continue
		}
		lenSide = bo.X
		nonEmpty := false
		switch {
		case ec.pos && bo.Op == token.GTR && c >= 0:
			nonEmpty = true
		case ec.pos && bo.Op == token.GEQ && c >= 1:
			nonEmpty = true
		case ec.pos && bo.Op == token.NEQ && c == 0:
			nonEmpty = true
		case !ec.pos && bo.Op == token.EQL && c == 0:
			nonEmpty = true
		case !ec.pos && bo.Op == token.LEQ && c >= 0:
			nonEmpty = true
		case !ec.pos && bo.Op == token.LSS && c >= 1:
			nonEmpty = true
		}
		if !nonEmpty {
			continue
		}
		call, ok := lenSide.(*ssa.Call)
		if !ok || ssau.Builtin(call) != "len" {
			continue
		}
		u, ok := call.Common().Args[0].(*ssa.UnOp)
		if !ok {
			continue
		}
		fa, ok := u.X.(*ssa.FieldAddr)
		if !ok || !w.isWriterType(fa.X.Type()) {
			continue
		}
		return ssau.FieldOf(fa), true
	}
	return nil, false
}

// everyGrowthRegisters: every store into Writer field fld (other than an empty
// initialisation) sits in a function that sets extensionsUsed[key] on all paths through it.
func (w *world) everyGrowthRegisters(fld *types.Var, key ssa.Value, fUsed *types.Var) (bool, string) {
	n := 0
	for _, fn := range w.fns {
		var bad string
		ssau.AllInstrs(fn, func(in ssa.Instruction) {
			st, ok := in.(*ssa.Store)
			if !ok || bad != "" {
				return
			}
			fa, ok := st.Addr.(*ssa.FieldAddr)
			if !ok || ssau.FieldOf(fa) != fld || !w.isWriterType(fa.X.Type()) {
				return
			}
			if emptySlice(st.Val) {
				return
			}
			n++
			ok2 := false
			for _, r := range w.registrations(fn, fUsed) {
				if w.sameValue(r.key, key) && always(r.instr, st) {
					ok2 = true
				}
			}
			if !ok2 {
				bad = w.c.P.FuncName(fn)
			}
		})
		if bad != "" {
			return false, bad + " grows w." + fld.Name() + " without setting extensionsUsed[" + keyName(key) + "]"
		}
	}
	if n == 0 {
		return true, "w." + fld.Name() + " is never grown"
	}
	return true, fmt.Sprintf("all %d store(s) that grow w.%s set extensionsUsed[%s]", n, fld.Name(), keyName(key))
}

func emptySlice(v ssa.Value) bool {
	switch x := v.(type) {
	case *ssa.MakeSlice:
		c, ok := ssau.ConstInt(x.Len)
		return ok && c == 0
	case *ssa.Slice:
		if al, ok := x.X.(*ssa.Alloc); ok {
			if at, ok := deref(al.Type()).Underlying().(*types.Array); ok && at.Len() == 0 {
				return true
			}
		}
		if x.High != nil {
			c, ok := ssau.ConstInt(x.High)
			return ok && c == 0
		}
	case *ssa.Const:
		return x.Value == nil
	}
	return false
}
