package c06

import (
	"fmt"
	"go/constant"
	"go/token"
	"go/types"
	"strings"

	"golang.org/x/tools/go/ssa"

	"polycheck/ssau"
)

const modelingPath = "github.com/EliCDavis/polyform/modeling"

func stripConv(v ssa.Value) ssa.Value {
	for {
		switch x := v.(type) {
		case *ssa.ChangeType:
			v = x.X
		case *ssa.MakeInterface:
			v = x.X
		case *ssa.ChangeInterface:
			v = x.X
		case *ssa.Convert:
			v = x.X
		default:
			return v
		}
	}
}

// singleStoreAlloc: the alloc is written exactly once (parameter spill / single assignment).
func singleStoreAlloc(a *ssa.Alloc) bool {
	n := 0
	var walk func(v ssa.Value) bool
	walk = func(v ssa.Value) bool {
		for _, r := range ssau.Refs(v) {
			switch r := r.(type) {
			case *ssa.Store:
				if r.Addr == v {
					n++
				} else {
					return false // address escapes
				}
			case *ssa.FieldAddr:
				if !walk(r) {
					return false
				}
			case *ssa.IndexAddr:
				if !walk(r) {
					return false
				}
			case *ssa.UnOp, *ssa.DebugRef:
			default:
				return false
			}
		}
		return true
	}
	return walk(a) && n <= 1
}

// sameValue: a and b denote the same runtime value (same SSA value, equal
// constants, or loads through the same access path of a once-assigned variable,
// or the same pure call on the same arguments).
func (w *world) sameValue(a, b ssa.Value) bool {
	return w.sameValueD(a, b, 0)
}

func (w *world) sameValueD(a, b ssa.Value, d int) bool {
	if a == b {
		return true
	}
	if d > 8 {
		return false
	}
	a, b = stripChange(a), stripChange(b)
	if a == b {
		return true
	}
	switch x := a.(type) {
	case *ssa.Const:
		y, ok := b.(*ssa.Const)
		if !ok || x.Value == nil || y.Value == nil {
			return ok && x.Value == nil && y.Value == nil && types.Identical(x.Type(), y.Type())
		}
		return x.Value.Kind() == y.Value.Kind() && constant.Compare(x.Value, token.EQL, y.Value)
	case *ssa.UnOp:
		y, ok := b.(*ssa.UnOp)
		if !ok || x.Op != y.Op {
			return false
		}
		if x.Op == token.MUL {
			if ax, px := rootAlloc(x.X); ax != nil {
				if ay, py := rootAlloc(y.X); ay == ax && px == py {
					return noWriteBetween(ax, x, y)
				}
			}
			return w.sameAddr(x.X, y.X, d+1)
		}
		return w.sameValueD(x.X, y.X, d+1)
	case *ssa.Field:
		y, ok := b.(*ssa.Field)
		return ok && x.Field == y.Field && w.sameValueD(x.X, y.X, d+1)
	case *ssa.Call:
		y, ok := b.(*ssa.Call)
		if !ok {
			return false
		}
		cx, cy := x.Common().StaticCallee(), y.Common().StaticCallee()
		if cx == nil || cx != cy || !w.pure(cx) || len(x.Common().Args) != len(y.Common().Args) {
			return false
		}
		for i := range x.Common().Args {
			if !w.sameValueD(x.Common().Args[i], y.Common().Args[i], d+1) {
				return false
			}
		}
		return true
	}
	return false
}

func stripChange(v ssa.Value) ssa.Value {
	for {
		switch x := v.(type) {
		case *ssa.ChangeType:
			v = x.X
		case *ssa.MakeInterface:
			v = x.X
		case *ssa.ChangeInterface:
			v = x.X
		default:
			return v
		}
	}
}

func (w *world) sameAddr(a, b ssa.Value, d int) bool {
	if a == b {
		if al, ok := a.(*ssa.Alloc); ok {
			return singleStoreAlloc(al)
		}
		return true
	}
	switch x := a.(type) {
	case *ssa.FieldAddr:
		y, ok := b.(*ssa.FieldAddr)
		if !ok || x.Field != y.Field {
			return false
		}
		// same field of the same once-assigned variable, or of the same pointer value
		if _, isAlloc := x.X.(*ssa.Alloc); isAlloc {
			return w.sameAddr(x.X, y.X, d+1)
		}
		if _, isFA := x.X.(*ssa.FieldAddr); isFA {
			return w.sameAddr(x.X, y.X, d+1)
		}
		return w.sameValueD(x.X, y.X, d+1)
	}
	// two loads through equal pointer values: equal as long as nothing in the
	// function stores through a pointer of that type
	if w.sameValueD(a, b, d+1) {
		if in, ok := a.(ssa.Instruction); ok {
			return noStoreThrough(in.Parent(), a.Type())
		}
		if p, ok := a.(*ssa.Parameter); ok {
			return noStoreThrough(p.Parent(), a.Type())
		}
	}
	return false
}

// rootAlloc: the local variable an address expression is rooted at, with the field path.
func rootAlloc(v ssa.Value) (*ssa.Alloc, string) {
	path := ""
	for {
		switch a := v.(type) {
		case *ssa.Alloc:
			return a, path
		case *ssa.FieldAddr:
			path = fmt.Sprintf(".%d%s", a.Field, path)
			v = a.X
		default:
			return nil, ""
		}
	}
}

// noWriteBetween: no store into (any part of) the variable can execute between the two loads.
func noWriteBetween(al *ssa.Alloc, l1, l2 ssa.Instruction) bool {
	var writers []ssa.Instruction
	escaped := false
	var walk func(v ssa.Value)
	walk = func(v ssa.Value) {
		for _, r := range ssau.Refs(v) {
			switch r := r.(type) {
			case *ssa.Store:
				if r.Addr == v {
					writers = append(writers, r)
				} else {
					escaped = true
				}
			case *ssa.FieldAddr:
				walk(r)
			case *ssa.IndexAddr:
				walk(r)
			case *ssa.UnOp, *ssa.DebugRef:
			case ssa.CallInstruction:
				writers = append(writers, r) // address passed to a call: may write
			default:
				escaped = true
			}
		}
	}
	walk(al)
	if escaped {
		return false
	}
	for _, s := range writers {
		switch {
		case ssau.Before(l1, l2):
			if writeBetween(l1, s, l2) {
				return false
			}
		case ssau.Before(l2, l1):
			if writeBetween(l2, s, l1) {
				return false
			}
		default:
			if writeBetween(l1, s, l2) || writeBetween(l2, s, l1) {
				return false
			}
		}
	}
	return true
}

// writeBetween: s can execute after first and before second without first being executed again in
// between (when first dominates second, only the latest execution of first matters).
func writeBetween(first, s, second ssa.Instruction) bool {
	if !ssau.CanFollow(first, s) || !ssau.CanFollow(s, second) {
		return false
	}
	if !ssau.Before(first, second) {
		return true
	}
	// first dominates second: is there a way from s to second that does not pass first again?
	if s.Block() == second.Block() && ssau.InstrIndex(s) < ssau.InstrIndex(second) {
		return first.Block() != s.Block() || ssau.InstrIndex(first) < ssau.InstrIndex(s)
	}
	if s.Block() == first.Block() && ssau.InstrIndex(s) < ssau.InstrIndex(first) {
		return false // first re-executes right after s
	}
	return ssau.ReachesAvoiding(s.Block(), second.Block(), map[*ssa.BasicBlock]bool{first.Block(): true})
}

// noStoreThrough: fn has no store whose address is a non-local pointer of type pt
// (or a field/element behind one).
func noStoreThrough(fn *ssa.Function, pt types.Type) bool {
	ok := true
	ssau.AllInstrs(fn, func(in ssa.Instruction) {
		st, isSt := in.(*ssa.Store)
		if !isSt || !ok {
			return
		}
		v := st.Addr
		for {
			switch a := v.(type) {
			case *ssa.FieldAddr:
				v = a.X
				continue
			case *ssa.IndexAddr:
				v = a.X
				continue
			}
			break
		}
		if _, isAlloc := v.(*ssa.Alloc); isAlloc {
			return
		}
		if types.Identical(v.Type(), pt) {
			ok = false
		}
	})
	return ok
}

// edgeConds returns the branch conditions that hold whenever block b executes
// (conditions of dominating single-predecessor edges), with polarity.
type edgeCond struct {
	cond ssa.Value
	pos  bool
}

func edgeConds(b *ssa.BasicBlock) []edgeCond {
	var out []edgeCond
	for d := b; d != nil; d = d.Idom() {
		p := d.Idom()
		if p == nil || len(d.Preds) != 1 || d.Preds[0] != p {
			continue
		}
		ifi, ok := p.Instrs[len(p.Instrs)-1].(*ssa.If)
		if !ok || p.Succs[0] == p.Succs[1] {
			continue
		}
		out = append(out, edgeCond{ifi.Cond, p.Succs[0] == d})
	}
	return out
}

// upperBound derives "g <= U" from a condition with polarity, for some SSA value g.
func upperBound(ec edgeCond) (g ssa.Value, u int64, ok bool) {
	c := ec.cond
	pos := ec.pos
	for {
		if n, isNot := c.(*ssa.UnOp); isNot && n.Op == token.NOT {
			c = n.X
			pos = !pos
			continue
		}
		break
	}
	bo, isB := c.(*ssa.BinOp)
	if !isB {
		return nil, 0, false
	}
	op := bo.Op
	x, y := bo.X, bo.Y
	cy, yConst := ssau.ConstInt(stripConv(y))
	cx, xConst := ssau.ConstInt(stripConv(x))
	if xConst && !yConst { // C op g  ==>  g op' C
		x, cy, yConst = y, cx, true
		switch op {
		case token.LSS:
			op = token.GTR
		case token.LEQ:
			op = token.GEQ
		case token.GTR:
			op = token.LSS
		case token.GEQ:
			op = token.LEQ
		}
	}
	if !yConst {
		return nil, 0, false
	}
	if !pos {
		op = negOp(op)
	}
	switch op {
	case token.LSS:
		return x, cy - 1, true
	case token.LEQ:
		return x, cy, true
	case token.EQL:
		return x, cy, true
	}
	return nil, 0, false
}

// callSites of fn inside the package (repository functions only unless ctl).
func (w *world) callSites(fn *ssa.Function, within []*ssa.Function) []ssa.CallInstruction {
	var out []ssa.CallInstruction
	for _, f := range within {
		ssau.AllInstrs(f, func(in ssa.Instruction) {
			if c, ok := in.(ssa.CallInstruction); ok && c.Common().StaticCallee() == fn {
				out = append(out, c)
			}
		})
	}
	return out
}

func isMeshMethod(v ssa.Value, name string) (recv ssa.Value, ok bool) {
	call, isCall := v.(*ssa.Call)
	if !isCall {
		return nil, false
	}
	obj := ssau.CalleeObj(call)
	if obj == nil || !ssau.IsMethod(obj, modelingPath, "Mesh", name) || len(call.Common().Args) == 0 {
		return nil, false
	}
	return call.Common().Args[0], true
}

// ruleWidth: WIDTH-1. Every int narrowed to an 8/16-bit unsigned integer and
// written to a byte sink is bounded by a dominating guard.
func (w *world) ruleWidth(a *agg) {
	P := w.c.P
	for _, fn := range w.all {
		within := w.fns
		if P.IsControl(fn.Pos()) {
			within = w.all
		}
		ssau.AllInstrs(fn, func(in ssa.Instruction) {
			cv, ok := in.(*ssa.Convert)
			if !ok {
				return
			}
			tb, ok1 := cv.Type().Underlying().(*types.Basic)
			sb, ok2 := cv.X.Type().Underlying().(*types.Basic)
			if !ok1 || !ok2 || tb.Info()&types.IsInteger == 0 || sb.Info()&types.IsInteger == 0 {
				return
			}
			bits := 0
			switch tb.Kind() {
			case types.Uint8, types.Int8:
				bits = 8
			case types.Uint16, types.Int16:
				bits = 16
			default:
				return
			}
			switch sb.Kind() {
			case types.Int, types.Int64, types.Uint, types.Uint64, types.Int32, types.Uint32:
			default:
				return
			}
			// does the narrowed value reach a byte sink?
			toSink := false
			for _, r := range ssau.Refs(cv) {
				if c, ok := r.(ssa.CallInstruction); ok && isSinkPrimitive(c) {
					toSink = true
				}
				if mi, ok := r.(*ssa.MakeInterface); ok {
					for _, rr := range ssau.Refs(mi) {
						if c, ok := rr.(ssa.CallInstruction); ok && isSinkPrimitive(c) {
							toSink = true
						}
					}
				}
			}
			if !toSink {
				return
			}
			limit := int64(1) << uint(bits)
			if tb.Info()&types.IsUnsigned == 0 {
				limit >>= 1
			}
			construct := fmt.Sprintf("%s#%s(index)", P.FuncName(fn), tb.Name())
			pos := P.Pos(cv.Pos())
			if !cv.Pos().IsValid() {
				pos = P.Pos(ssau.PosOf(cv))
			}
			// the written value: element of an index iterator?
			src := stripConv(cv.X)
			var iterVal ssa.Value
			if call, ok := src.(*ssa.Call); ok {
				if obj := ssau.CalleeObj(call); obj != nil && obj.Name() == "At" && len(call.Common().Args) > 0 {
					iterVal = call.Common().Args[0]
				}
			}
			var reasons []string
			for _, ec := range edgeConds(cv.Block()) {
				g, u, ok := upperBound(ec)
				if !ok {
					continue
				}
				g = stripConv(g)
				switch {
				case g == src:
					if u <= limit-1 {
						a.hold("WIDTH-1", construct, pos, fmt.Sprintf("value itself guarded ≤ %d", u))
						return
					}
					reasons = append(reasons, fmt.Sprintf("guard bounds the value by %d > %d", u, limit-1))
				default:
					why, linked := w.boundsIndices(fn, g, iterVal, within)
					if !linked {
						reasons = append(reasons, why)
						continue
					}
					// indices < g <= u  ==> index <= u-1
					if u <= limit {
						fact := fmt.Sprintf("vertex count guarded ≤ %d ⇒ every index ≤ %d < 2^%d", u, u-1, bits)
						if u == limit {
							fact += " (the largest index equals the primitive-restart value; glTF forbids it in index data)"
						}
						a.hold("WIDTH-1", construct, pos, fact, why)
						return
					}
					reasons = append(reasons, fmt.Sprintf("the guard admits a vertex count up to %d, so an index up to %d is truncated to %d bits", u, u-1, bits))
				}
			}
			msg := fmt.Sprintf("an int is written as %s without a dominating guard that bounds it below 2^%d", tb.Name(), bits)
			if len(reasons) > 0 {
				msg += ": " + strings.Join(reasons, "; ")
			}
			a.violate("WIDTH-1", construct, pos, msg)
		})
	}
	w.c.R.Floor("WIDTH-1", 1)
}

// boundsIndices: g is the vertex count of the mesh whose index iterator is iterVal.
func (w *world) boundsIndices(fn *ssa.Function, g, iterVal ssa.Value, within []*ssa.Function) (string, bool) {
	if iterVal == nil {
		return "the written value is not an element of an index iterator", false
	}
	// the iterator: load of a parameter, or a Mesh.Indices() call
	iterSrc := stripConv(iterVal)
	if u, ok := iterSrc.(*ssa.UnOp); ok && u.Op == token.MUL {
		iterSrc = u.X
	}
	// case 1: both computed locally from one mesh
	if rg, ok := isMeshMethod(g, "AttributeLength"); ok {
		if ri, ok := isMeshMethod(iterSrc, "Indices"); ok && w.sameValue(rg, ri) {
			return "guard on AttributeLength() of the mesh whose Indices() are written", true
		}
		return "guard on AttributeLength() of a different mesh than the one whose indices are written", false
	}
	// case 2: both are parameters; every call site passes Indices()/AttributeLength() of one mesh
	gp, ok1 := g.(*ssa.Parameter)
	ip, ok2 := iterSrc.(*ssa.Parameter)
	if !ok1 || !ok2 {
		return "the guarded value is not the vertex count of the mesh being written", false
	}
	gi, ii := -1, -1
	for i, p := range fn.Params {
		if p == gp {
			gi = i
		}
		if p == ip {
			ii = i
		}
	}
	sites := w.callSites(fn, within)
	if len(sites) == 0 {
		return "no call site in the package fixes what the guarded parameter is", false
	}
	for _, s := range sites {
		args := s.Common().Args
		rg, okg := isMeshMethod(args[gi], "AttributeLength")
		ri, oki := isMeshMethod(args[ii], "Indices")
		if !okg || !oki {
			return fmt.Sprintf("call site in %s does not pass mesh.Indices() and mesh.AttributeLength()", s.Parent().Name()), false
		}
		if !w.sameValue(rg, ri) {
			return fmt.Sprintf("call site in %s passes Indices() and AttributeLength() of different meshes", s.Parent().Name()), false
		}
	}
	return fmt.Sprintf("%d call site(s) pass Indices() and AttributeLength() of the same mesh", len(sites)), true
}

// ruleSink: SINK-1. Wherever a Writer's bit writer is set, it wraps the Writer's own buffer.
func (w *world) ruleSink(a *agg) {
	P := w.c.P
	fBuf, fBit := w.field["buf"], w.field["bitW"]
	for _, fn := range w.all {
		ssau.AllInstrs(fn, func(in ssa.Instruction) {
			st, ok := in.(*ssa.Store)
			if !ok {
				return
			}
			fa, ok := st.Addr.(*ssa.FieldAddr)
			if !ok || ssau.FieldOf(fa) != fBit || !w.isWriterType(fa.X.Type()) {
				return
			}
			construct := P.FuncName(fn) + "#Writer.bitW"
			pos := P.Pos(ssau.PosOf(st))
			call, ok := stripChange(st.Val).(*ssa.Call)
			if !ok || !ssau.IsFunc(ssau.CalleeObj(call), bitlibPath, "NewWriter") {
				a.undecide("SINK-1", construct, pos, "Writer.bitW is set to something other than bitlib.NewWriter(...)")
				return
			}
			under := stripChange(call.Common().Args[0])
			// the buffer stored into the same struct
			var bufVal ssa.Value
			for _, r := range ssau.Refs(fa.X) {
				if fb, ok := r.(*ssa.FieldAddr); ok && ssau.FieldOf(fb) == fBuf {
					for _, rr := range ssau.Refs(fb) {
						if s2, ok := rr.(*ssa.Store); ok && s2.Addr == fb {
							bufVal = s2.Val
						}
					}
				}
			}
			if bufVal == nil || !w.sameValue(stripChange(bufVal), under) {
				a.violate("SINK-1", construct, pos, "Writer.bitW writes into a different buffer than Writer.buf: bytes appended through one are not part of the payload read from the other")
				return
			}
			if len(call.Common().Args) > 1 {
				if !isLittleEndian(call.Common().Args[1]) {
					a.violate("SINK-1", construct, pos, "the payload bit writer is not little-endian (glTF buffers are little-endian)")
					return
				}
			}
			a.hold("SINK-1", construct, pos, "bitW = bitlib.NewWriter(buf, LittleEndian) over the same *bytes.Buffer stored in buf")
		})
	}
	w.c.R.Floor("SINK-1", 1)
}

func isLittleEndian(v ssa.Value) bool {
	v = stripChange(v)
	u, ok := v.(*ssa.UnOp)
	if !ok || u.Op != token.MUL {
		return false
	}
	g, ok := u.X.(*ssa.Global)
	return ok && g.Pkg != nil && g.Pkg.Pkg.Path() == "encoding/binary" && g.Name() == "LittleEndian"
}

// ruleBuf: BUF-1. The declared buffer is the payload: byteLength = bytesWritten,
// data URI = standard base64 of buf.Bytes().
func (w *world) ruleBuf(a *agg) {
	P := w.c.P
	bufObj := w.tpkg.Scope().Lookup("Buffer")
	if bufObj == nil {
		w.c.R.Failf("anchor type %s.Buffer not found", gltfRel)
		return
	}
	isBufferType := func(t types.Type) bool {
		n := ssau.NamedOf(t)
		return n != nil && n.Obj() == bufObj
	}
	for _, fn := range w.all {
		ssau.AllInstrs(fn, func(in ssa.Instruction) {
			st, ok := in.(*ssa.Store)
			if !ok {
				return
			}
			fa, ok := st.Addr.(*ssa.FieldAddr)
			if !ok || !isBufferType(fa.X.Type()) {
				return
			}
			f := ssau.FieldOf(fa)
			if f == nil {
				return
			}
			pos := P.Pos(ssau.PosOf(st))
			switch f.Name() {
			case "ByteLength":
				construct := P.FuncName(fn) + "#Buffer.ByteLength"
				if w.isLoadOfWriterField(stripConv(st.Val), w.field["bytesWritten"]) {
					a.hold("BUF-1", construct, pos, "Buffer.ByteLength = w.bytesWritten")
				} else {
					a.violate("BUF-1", construct, pos, "Buffer.ByteLength is not the writer's running offset bytesWritten")
				}
				// glTF: buffer.byteLength >= 1 — the buffer is declared only when something was written
				guard := false
				for _, ec := range edgeConds(st.Block()) {
					bo, ok := ec.cond.(*ssa.BinOp)
					if !ok || !w.isLoadOfWriterField(stripConv(bo.X), w.field["bytesWritten"]) {
						continue
					}
					c, ok := ssau.ConstInt(bo.Y)
					if !ok {
						continue
					}
					switch {
					case ec.pos && bo.Op == token.GTR && c >= 0, ec.pos && bo.Op == token.GEQ && c >= 1, ec.pos && bo.Op == token.NEQ && c == 0,
						!ec.pos && bo.Op == token.LEQ && c >= 0, !ec.pos && bo.Op == token.LSS && c >= 1, !ec.pos && bo.Op == token.EQL && c == 0:
						guard = true
					}
				}
				if !strings.Contains(fn.Name(), "verifControl") {
					gc := P.FuncName(fn) + "#Buffer.nonempty"
					if guard {
						a.hold("BUF-1", gc, pos, "buffer declared only when bytesWritten > 0")
					} else {
						a.violate("BUF-1", gc, pos, "a buffer is declared even when nothing was written: glTF requires buffer.byteLength ≥ 1 (and the GLB writer omits the BIN chunk in that case)")
					}
				}
			case "URI":
				construct := P.FuncName(fn) + "#Buffer.URI"
				bo, ok := st.Val.(*ssa.BinOp)
				if !ok || bo.Op != token.ADD {
					a.undecide("BUF-1", construct, pos, "Buffer.URI is not built as prefix + encoded payload")
					return
				}
				prefix, okp := ssau.ConstString(bo.X)
				if !okp || !strings.HasPrefix(prefix, "data:") || !strings.HasSuffix(prefix, ";base64,") {
					a.violate("BUF-1", construct, pos, "Buffer.URI does not start with a data:…;base64, prefix")
					return
				}
				call, ok := bo.Y.(*ssa.Call)
				if !ok || !ssau.IsMethod(ssau.CalleeObj(call), "encoding/base64", "Encoding", "EncodeToString") {
					a.violate("BUF-1", construct, pos, "Buffer.URI payload is not base64.Encoding.EncodeToString(...)")
					return
				}
				enc := call.Common().Args[0]
				stdEnc := false
				if u, ok := enc.(*ssa.UnOp); ok {
					if g, ok := u.X.(*ssa.Global); ok && g.Name() == "StdEncoding" {
						stdEnc = true
					}
				}
				if !stdEnc {
					a.violate("BUF-1", construct, pos, "the data URI is not encoded with base64.StdEncoding (RFC 2397 / glTF require standard padded base64)")
					return
				}
				data, ok := call.Common().Args[1].(*ssa.Call)
				if !ok || !ssau.IsMethod(ssau.CalleeObj(data), "bytes", "Buffer", "Bytes") || !w.isLoadOfWriterField(data.Common().Args[0], w.field["buf"]) {
					a.violate("BUF-1", construct, pos, "the data URI does not encode w.buf.Bytes()")
					return
				}
				a.hold("BUF-1", construct, pos, "URI = data:…;base64, + StdEncoding(w.buf.Bytes())")
			}
		})
	}
	w.c.R.Floor("BUF-1", 2)
}
